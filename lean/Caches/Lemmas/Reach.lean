/- Every operation of every cache is total on well-formed states and preserves well-formedness;
   hence every history runs without a fault and every reachable state is well-formed. -/
import Caches.Model.Api
import Caches.Lemmas.TwoQ
import Caches.Lemmas.Arc
import Caches.Lemmas.WTinyLfu
set_option linter.unusedSectionVars false
set_option linter.unusedVariables false
namespace M
variable {κ ν : Type} [DecidableEq κ]

/-- generic lift: a step that is total and invariant-preserving makes every history total and invariant-preserving -/
theorem runOps_inv {σ ω : Type} (step : σ → ω → Res σ) (I : σ → Prop)
    (hstep : ∀ s o, I s → ∃ s', step s o = .ok s' ∧ I s') (ops : List ω) (s : σ) (h : I s) :
    ∃ s', runOps step s ops = .ok s' ∧ I s' := by
  induction ops generalizing s with
  | nil => exact ⟨s, rfl, h⟩
  | cons o rest ih =>
    obtain ⟨s1, h1, hi1⟩ := hstep s o h
    obtain ⟨s2, h2, hi2⟩ := ih s1 hi1
    exact ⟨s2, by simp only [runOps, h1, h2], hi2⟩

namespace RawLru
/-- RawLRU: `Inv` with a callback flag that never changes -/
theorem step_inv (c : RawLru κ ν) (o : RawOp κ ν) (h : c.Inv) : ∃ c', c.step o = .ok c' ∧ c'.Inv := by
  cases o with
  | put k v => obtain ⟨c', r, e, hp, hi, _⟩ := put_total_inv c k v h; exact ⟨c', by simp only [RawLru.step, hp], hi⟩
  | get k => exact ⟨_, rfl, (get_inv c k h).1⟩
  | getMut k w => exact ⟨_, rfl, (getMut_inv c k w h).1⟩
  | peekMut k w => exact ⟨_, rfl, (peekMut_inv c k w h).1⟩
  | remove k => exact ⟨_, rfl, (remove_inv c k h).1⟩
  | purge => exact ⟨{ c with items := [] }, by simp only [RawLru.step, purge_spec], ⟨by simp only [keys_nil]; exact List.nodup_nil, by simp only [List.length_nil]; omega⟩⟩
  | resize n => obtain ⟨c', ev, e, hr, hi, _⟩ := resize_total_inv c n h; exact ⟨c', by simp only [RawLru.step, hr], hi⟩
  | getLru =>
    refine ⟨_, rfl, ?_⟩
    unfold RawLru.getLru
    cases hl : c.items.getLast? with
    | none => exact h
    | some e =>
      have hf := find_last _ e hl h.nd
      exact ⟨nodup_use _ _ _ h.nd, by simp only [length_use e.1 e.2 e.2 _ hf]; exact h.bound⟩
  | getLruMut w =>
    refine ⟨_, rfl, ?_⟩
    unfold RawLru.getLruMut
    cases hl : c.items.getLast? with
    | none => exact h
    | some e =>
      have hf := find_last _ e hl h.nd
      exact ⟨nodup_use _ _ _ h.nd, by simp only [length_use e.1 _ e.2 _ hf]; exact h.bound⟩
  | getMruMut w =>
    refine ⟨_, rfl, ?_⟩
    unfold RawLru.getMruMut
    cases hi : c.items with
    | nil => cases w <;> (simp only; exact h)
    | cons e t =>
      have hnd := h.nd; have hb := h.bound
      rw [hi] at hnd hb
      cases w with
      | none => simp only; exact h
      | some w => exact ⟨by simpa using hnd, by simpa using hb⟩
  | peekLruMut w =>
    refine ⟨_, rfl, ?_⟩
    unfold RawLru.peekLruMut
    cases hl : c.items.getLast? with
    | none => cases w <;> exact h
    | some e =>
      cases w with
      | none => exact h
      | some w =>
        have hne : c.items ≠ [] := by intro hc; simp [hc] at hl
        have h2 := List.getLast?_eq_some_getLast hne
        rw [hl] at h2
        have hs := List.dropLast_concat_getLast hne
        rw [← Option.some.inj h2] at hs
        refine ⟨?_, ?_⟩
        · have : keys (c.items.dropLast ++ [(e.1, w)]) = keys c.items := by
            conv => rhs; rw [← hs]
            simp [keys_append]
          simp only [this]; exact h.nd
        · have : (c.items.dropLast ++ [(e.1, w)]).length = c.items.length := by
            conv => rhs; rw [← hs]
            simp
          simp only [this]; exact h.bound
  | peekMruMut w =>
    refine ⟨_, rfl, ?_⟩
    unfold RawLru.peekMruMut RawLru.getMruMut
    cases hi : c.items with
    | nil => cases w <;> (simp only; exact h)
    | cons e t =>
      have hnd := h.nd; have hb := h.bound
      rw [hi] at hnd hb
      cases w with
      | none => simp only; exact h
      | some w => exact ⟨by simpa using hnd, by simpa using hb⟩
  | removeLru => exact ⟨_, rfl, (removeLru_inv c h).1⟩
  | peekOrPut k v => obtain ⟨c', a, b, e, hp, hi, _⟩ := peekOrPut_total_inv c k v h; exact ⟨c', by simp only [RawLru.step, hp], hi⟩
  | peekMutOrPut k v w => obtain ⟨c', a, b, e, hp, hi, _⟩ := peekMutOrPut_total_inv c k v w h; exact ⟨c', by simp only [RawLru.step, hp], hi⟩
  | containsOrPut k v => obtain ⟨c', a, b, e, hp, hi, _⟩ := containsOrPut_total_inv c k v h; exact ⟨c', by simp only [RawLru.step, hp], hi⟩
  | clone => exact ⟨c, clone_eq c h, h⟩
  | read => exact ⟨c, rfl, h⟩
end RawLru

namespace Slru
theorem step_inv (s : Slru κ ν) (o : SlruOp κ ν) (h : s.Inv) : ∃ s', s.step o = .ok s' ∧ s'.Inv := by
  cases o with
  | put k v => obtain ⟨r, s', d, hp, hi, _⟩ := put_total_inv s k v h; exact ⟨s', by simp only [Slru.step, hp], hi⟩
  | putProtected k v => obtain ⟨r, s', d, hp, hi, _⟩ := putProtected_total_inv s k v h; exact ⟨s', by simp only [Slru.step, hp], hi⟩
  | getMut k w => obtain ⟨r, s', hp, hi, _⟩ := getMut_total_inv s k w h; exact ⟨s', by simp only [Slru.step, hp], hi⟩
  | peekMut k w => exact ⟨_, rfl, (peekMut_inv s k w h).1⟩
  | remove k => exact ⟨_, rfl, (remove_inv s k h).1⟩
  | purge => obtain ⟨d, hp, hi⟩ := purge_total_inv s h; exact ⟨_, by simp only [Slru.step, hp], hi⟩
  | removeLruProb => exact ⟨_, rfl, (removeLruFrom_inv s h).1⟩
  | removeLruProt => exact ⟨_, rfl, (removeLruFrom_inv s h).2⟩
  | clone => exact ⟨s, clone_eq s h, h⟩
  | read => exact ⟨s, rfl, h⟩
end Slru

namespace TwoQ
theorem step_inv (q : TwoQ κ ν) (o : CacheOp κ ν) (h : q.Inv) : ∃ q', q.step o = .ok q' ∧ q'.Inv := by
  cases o with
  | put k v => obtain ⟨r, q', d, hp, hi, _⟩ := put_total_inv q k v h; exact ⟨q', by simp only [TwoQ.step, hp], hi⟩
  | getMut k w => obtain ⟨r, q', hp, hi, _⟩ := getMut_total_inv q k w h; exact ⟨q', by simp only [TwoQ.step, hp], hi⟩
  | peekMut k w => exact ⟨_, rfl, (peekMut_inv q k w h).1⟩
  | remove k => exact ⟨_, rfl, (remove_inv q k h).1⟩
  | purge => obtain ⟨q', d, hp, hi, _⟩ := purge_total_inv q h; exact ⟨q', by simp only [TwoQ.step, hp], hi⟩
  | read => exact ⟨q, rfl, h⟩
end TwoQ

namespace Arc
theorem step_inv (a : Arc κ ν) (o : CacheOp κ ν) (h : a.Inv) : ∃ a', a.step o = .ok a' ∧ a'.Inv := by
  cases o with
  | put k v => obtain ⟨r, a', d, hp, hi, _⟩ := put_total_inv a k v h; exact ⟨a', by simp only [Arc.step, hp], hi⟩
  | getMut k w => obtain ⟨r, a', d, hp, hi, _⟩ := getMut_total_inv a k w h; exact ⟨a', by simp only [Arc.step, hp], hi⟩
  | peekMut k w => exact ⟨_, rfl, (peekMut_inv a k w h).1⟩
  | remove k => exact ⟨_, rfl, (remove_inv a k h).1⟩
  | purge => obtain ⟨a', d, hp, hi, _⟩ := purge_total_inv a h; exact ⟨a', by simp only [Arc.step, hp], hi⟩
  | read => exact ⟨a, rfl, h⟩
end Arc

namespace WTinyLfu
theorem step_inv (kh : κ → UInt64) (c : WTinyLfu κ ν) (o : CacheOp κ ν) (h : c.Inv) :
    ∃ c', WTinyLfu.step kh c o = .ok c' ∧ c'.Inv := by
  cases o with
  | put k v => obtain ⟨r, c', d, hp, hi, _⟩ := put_total_inv c kh k v h; exact ⟨c', by simp only [WTinyLfu.step, hp], hi⟩
  | getMut k w => obtain ⟨r, c', hp, hi, _⟩ := getMut_total_inv c kh k w h; exact ⟨c', by simp only [WTinyLfu.step, hp], hi⟩
  | peekMut k w => exact ⟨_, rfl, (peekMut_inv c k w h).1⟩
  | remove k => exact ⟨_, rfl, (remove_inv c k h).1⟩
  | purge => obtain ⟨c', d, hp, hi, _⟩ := purge_total_inv c h; exact ⟨c', by simp only [WTinyLfu.step, hp], hi⟩
  | read => exact ⟨c, rfl, h⟩
end WTinyLfu

end M

/-! ### invariants together with the (never changing) configuration -/
namespace M
variable {κ ν : Type} [DecidableEq κ]

def Slru.InvC (p q : Nat) (s : Slru κ ν) : Prop := s.Inv ∧ s.prob.cap = p ∧ s.prot.cap = q
def TwoQ.InvC (size rs es : Nat) (q : TwoQ κ ν) : Prop := q.Inv ∧ q.size = size ∧ q.rs = rs ∧ q.ghost.cap = es
def Arc.InvC (size : Nat) (a : Arc κ ν) : Prop := a.Inv ∧ a.size = size
def WTinyLfu.InvC (w p q : Nat) (c : WTinyLfu κ ν) : Prop :=
  c.Inv ∧ c.window.cap = w ∧ c.main.prob.cap = p ∧ c.main.prot.cap = q

theorem Slru.step_invC (p q : Nat) (s : Slru κ ν) (o : SlruOp κ ν) (h : Slru.InvC p q s) :
    ∃ s', s.step o = .ok s' ∧ Slru.InvC p q s' := by
  obtain ⟨hi, hp, hq⟩ := h
  cases o with
  | put k v =>
    obtain ⟨r, s', d, hpt, hi', hc⟩ := Slru.put_total_inv s k v hi
    exact ⟨s', by simp only [Slru.step, hpt], hi', by rw [hc.1, hp], by rw [hc.2, hq]⟩
  | putProtected k v =>
    obtain ⟨r, s', d, hpt, hi', hc, _⟩ := Slru.putProtected_total_inv s k v hi
    exact ⟨s', by simp only [Slru.step, hpt], hi', by rw [hc.1, hp], by rw [hc.2, hq]⟩
  | getMut k w =>
    obtain ⟨r, s', hpt, hi', hc⟩ := Slru.getMut_total_inv s k w hi
    exact ⟨s', by simp only [Slru.step, hpt], hi', by rw [hc.1, hp], by rw [hc.2, hq]⟩
  | peekMut k w =>
    have := Slru.peekMut_inv s k w hi
    exact ⟨_, rfl, this.1, by rw [this.2.1, hp], by rw [this.2.2, hq]⟩
  | remove k =>
    have := Slru.remove_inv s k hi
    exact ⟨_, rfl, this.1, by rw [this.2.1, hp], by rw [this.2.2, hq]⟩
  | purge =>
    obtain ⟨d, hpt, hi'⟩ := Slru.purge_total_inv s hi
    exact ⟨_, by simp only [Slru.step, hpt], hi', hp, hq⟩
  | removeLruProb =>
    refine ⟨_, rfl, (Slru.removeLruFrom_inv s hi).1, ?_, ?_⟩
    · unfold Slru.removeLruFromProbationary RawLru.removeLru RawLru.removeLruIn
      cases s.prob.items.getLast? <;> exact hp
    · unfold Slru.removeLruFromProbationary RawLru.removeLru RawLru.removeLruIn
      cases s.prob.items.getLast? <;> exact hq
  | removeLruProt =>
    refine ⟨_, rfl, (Slru.removeLruFrom_inv s hi).2, ?_, ?_⟩
    · unfold Slru.removeLruFromProtected RawLru.removeLru RawLru.removeLruIn
      cases s.prot.items.getLast? <;> exact hp
    · unfold Slru.removeLruFromProtected RawLru.removeLru RawLru.removeLruIn
      cases s.prot.items.getLast? <;> exact hq
  | clone => exact ⟨s, Slru.clone_eq s hi, hi, hp, hq⟩
  | read => exact ⟨s, rfl, hi, hp, hq⟩

theorem TwoQ.step_invC (size rs es : Nat) (q : TwoQ κ ν) (o : CacheOp κ ν) (h : TwoQ.InvC size rs es q) :
    ∃ q', q.step o = .ok q' ∧ TwoQ.InvC size rs es q' := by
  obtain ⟨hi, h1, h2, h3⟩ := h
  cases o with
  | put k v =>
    obtain ⟨r, q', d, hp, hi', hc⟩ := TwoQ.put_total_inv q k v hi
    exact ⟨q', by simp only [TwoQ.step, hp], hi', by rw [hc.1, h1], by rw [hc.2.1, h2], by rw [hc.2.2.1, h3]⟩
  | getMut k w =>
    obtain ⟨r, q', hp, hi', hc⟩ := TwoQ.getMut_total_inv q k w hi
    exact ⟨q', by simp only [TwoQ.step, hp], hi', by rw [hc.1, h1], by rw [hc.2.1, h2], by rw [hc.2.2.1, h3]⟩
  | peekMut k w =>
    have := TwoQ.peekMut_inv q k w hi
    exact ⟨_, rfl, this.1, by rw [this.2.1, h1], by rw [this.2.2.1, h2], by rw [this.2.2.2.1, h3]⟩
  | remove k =>
    have := TwoQ.remove_inv q k hi
    exact ⟨_, rfl, this.1, by rw [this.2.1, h1], by rw [this.2.2.1, h2], by rw [this.2.2.2.1, h3]⟩
  | purge =>
    obtain ⟨q', d, hp, hi', hc, _⟩ := TwoQ.purge_total_inv q hi
    exact ⟨q', by simp only [TwoQ.step, hp], hi', by rw [hc.1, h1], by rw [hc.2.1, h2], by rw [hc.2.2.1, h3]⟩
  | read => exact ⟨q, rfl, hi, h1, h2, h3⟩

theorem Arc.step_invC (size : Nat) (a : Arc κ ν) (o : CacheOp κ ν) (h : Arc.InvC size a) :
    ∃ a', a.step o = .ok a' ∧ Arc.InvC size a' := by
  obtain ⟨hi, h1⟩ := h
  cases o with
  | put k v =>
    obtain ⟨r, a', d, hp, hi', hc⟩ := Arc.put_total_inv a k v hi
    exact ⟨a', by simp only [Arc.step, hp], hi', by rw [hc, h1]⟩
  | getMut k w =>
    obtain ⟨r, a', d, hp, hi', hc, _⟩ := Arc.getMut_total_inv a k w hi
    exact ⟨a', by simp only [Arc.step, hp], hi', by rw [hc, h1]⟩
  | peekMut k w =>
    have := Arc.peekMut_inv a k w hi
    exact ⟨_, rfl, this.1, by rw [this.2.1, h1]⟩
  | remove k =>
    have := Arc.remove_inv a k hi
    exact ⟨_, rfl, this.1, by rw [this.2.1, h1]⟩
  | purge =>
    obtain ⟨a', d, hp, hi', hc, _⟩ := Arc.purge_total_inv a hi
    exact ⟨a', by simp only [Arc.step, hp], hi', by rw [hc, h1]⟩
  | read => exact ⟨a, rfl, hi, h1⟩

theorem WTinyLfu.step_invC (kh : κ → UInt64) (w p q : Nat) (c : WTinyLfu κ ν) (o : CacheOp κ ν)
    (h : WTinyLfu.InvC w p q c) : ∃ c', WTinyLfu.step kh c o = .ok c' ∧ WTinyLfu.InvC w p q c' := by
  obtain ⟨hi, h1, h2, h3⟩ := h
  cases o with
  | put k v =>
    obtain ⟨r, c', d, hp, hi', hc⟩ := WTinyLfu.put_total_inv c kh k v hi
    exact ⟨c', by simp only [WTinyLfu.step, hp], hi', by rw [hc.1, h1], by rw [hc.2.1.1, h2], by rw [hc.2.1.2, h3]⟩
  | getMut k wv =>
    obtain ⟨r, c', hp, hi', hc⟩ := WTinyLfu.getMut_total_inv c kh k wv hi
    exact ⟨c', by simp only [WTinyLfu.step, hp], hi', by rw [hc.1, h1], by rw [hc.2.1.1, h2], by rw [hc.2.1.2, h3]⟩
  | peekMut k wv =>
    have := WTinyLfu.peekMut_inv c k wv hi
    exact ⟨_, rfl, this.1, by rw [this.2.1.1, h1], by rw [this.2.1.2.1.1, h2], by rw [this.2.1.2.1.2, h3]⟩
  | remove k =>
    have := WTinyLfu.remove_inv c k hi
    exact ⟨_, rfl, this.1, by rw [this.2.1, h1], by rw [this.2.2.1.1, h2], by rw [this.2.2.1.2, h3]⟩
  | purge =>
    obtain ⟨c', d, hp, hi', hc, _⟩ := WTinyLfu.purge_total_inv c hi
    exact ⟨c', by simp only [WTinyLfu.step, hp], hi', by rw [hc.1, h1], by rw [hc.2.1.1, h2], by rw [hc.2.1.2, h3]⟩
  | read => exact ⟨c, rfl, hi, h1, h2, h3⟩

end M
