/-
  Lemmas about association lists (`find`, `erase`, `setVal`, `keys`, `dropLast`).
-/
import Caches.Model.Assoc
set_option linter.unusedSectionVars false
set_option linter.unusedSimpArgs false
namespace M
variable {κ ν : Type} [DecidableEq κ]

omit [DecidableEq κ] in
@[simp] theorem keys_nil : keys ([] : AL κ ν) = [] := rfl
omit [DecidableEq κ] in
@[simp] theorem keys_cons (k : κ) (v : ν) (t : AL κ ν) : keys ((k, v) :: t) = k :: keys t := rfl
omit [DecidableEq κ] in
@[simp] theorem keys_cons' (e : κ × ν) (t : AL κ ν) : keys (e :: t) = e.1 :: keys t := rfl
omit [DecidableEq κ] in
theorem keys_dropLast (l : AL κ ν) : keys l.dropLast = (keys l).dropLast := by
  simp [keys, List.map_dropLast]
omit [DecidableEq κ] in
@[simp] theorem length_keys (l : AL κ ν) : (keys l).length = l.length := by simp [keys]
omit [DecidableEq κ] in
theorem keys_append (a b : AL κ ν) : keys (a ++ b) = keys a ++ keys b := by simp [keys]

theorem find_none_iff (k : κ) (l : AL κ ν) : find k l = none ↔ k ∉ keys l := by
  fun_induction find k l <;> grind [keys_cons, keys_nil]
theorem find_some_mem (k : κ) (v : ν) (l : AL κ ν) (h : find k l = some v) : k ∈ keys l := by
  fun_induction find k l <;> grind [keys_cons, keys_nil]
theorem find_isSome_iff (k : κ) (l : AL κ ν) : (find k l).isSome ↔ k ∈ keys l := by
  fun_induction find k l <;> grind [keys_cons, keys_nil]
theorem find_mem (k : κ) (v : ν) (l : AL κ ν) (h : find k l = some v) : (k, v) ∈ l := by
  fun_induction find k l <;> grind
theorem mem_keys_erase (k x : κ) (l : AL κ ν) (h : (keys l).Nodup) :
    x ∈ keys (erase k l) ↔ x ∈ keys l ∧ x ≠ k := by
  fun_induction erase k l <;> grind [keys_cons, keys_nil]
theorem keys_erase_subset (k x : κ) (l : AL κ ν) (h : x ∈ keys (erase k l)) : x ∈ keys l := by
  fun_induction erase k l <;> grind [keys_cons, keys_nil]
theorem nodup_erase (k : κ) (l : AL κ ν) (h : (keys l).Nodup) : (keys (erase k l)).Nodup := by
  fun_induction erase k l <;> grind [keys_cons, keys_nil, mem_keys_erase]
theorem length_erase_of_find (k : κ) (l : AL κ ν) (v : ν) (h : find k l = some v) :
    (erase k l).length + 1 = l.length := by
  fun_induction erase k l <;> grind [find]
theorem erase_of_not_mem (k : κ) (l : AL κ ν) (h : k ∉ keys l) : erase k l = l := by
  fun_induction erase k l <;> grind [keys_cons, keys_nil]
theorem find_erase_ne (k x : κ) (l : AL κ ν) (h : x ≠ k) : find x (erase k l) = find x l := by
  fun_induction erase k l <;> grind [find]
theorem find_erase_self (k : κ) (l : AL κ ν) (h : (keys l).Nodup) : find k (erase k l) = none := by
  rw [find_none_iff]; intro hm; exact ((mem_keys_erase k k l h).1 hm).2 rfl

theorem keys_setVal (k : κ) (w : ν) (l : AL κ ν) : keys (setVal k w l) = keys l := by
  fun_induction setVal k w l <;> grind [keys_cons, keys_nil]
theorem length_setVal (k : κ) (w : ν) (l : AL κ ν) : (setVal k w l).length = l.length := by
  fun_induction setVal k w l <;> grind
theorem find_setVal_self (k : κ) (w : ν) (l : AL κ ν) (h : k ∈ keys l) : find k (setVal k w l) = some w := by
  fun_induction setVal k w l <;> grind [find, keys_cons, keys_nil]
theorem find_setVal_ne (k x : κ) (w : ν) (l : AL κ ν) (h : x ≠ k) : find x (setVal k w l) = find x l := by
  fun_induction setVal k w l <;> grind [find]

theorem getLast?_some_of_pos {α} (l : List α) (h : 0 < l.length) : ∃ x, l.getLast? = some x := by
  cases l with
  | nil => simp at h
  | cons a t => exact ⟨_, List.getLast?_eq_some_getLast (by simp)⟩

theorem mem_dropLast_of {α} (l : List α) (x : α) (h : x ∈ l.dropLast) : x ∈ l :=
  (List.dropLast_sublist _).subset h

theorem nodup_dropLast {α} (l : List α) (h : l.Nodup) : l.dropLast.Nodup :=
  List.Sublist.nodup (List.dropLast_sublist l) h

/-- the last element is not in dropLast when Nodup -/
theorem getLast_not_mem_dropLast {α} (l : List α) (x : α) (h : l.Nodup) (hl : l.getLast? = some x) :
    x ∉ l.dropLast := by
  induction l with
  | nil => simp at hl
  | cons a t ih =>
    cases t with
    | nil => simp
    | cons b t' =>
      simp only [List.getLast?_cons_cons] at hl
      simp only [List.dropLast_cons_cons, List.mem_cons, not_or]
      have hnd := List.nodup_cons.1 h
      refine ⟨?_, ih hnd.2 hl⟩
      intro hxa; subst hxa
      exact hnd.1 (List.mem_of_getLast? hl)

omit [DecidableEq κ] in
theorem keys_getLast? (l : AL κ ν) (e : κ × ν) (h : l.getLast? = some e) :
    (keys l).getLast? = some e.1 := by
  simp [keys, List.getLast?_map, h]

omit [DecidableEq κ] in
theorem last_facts (l : AL κ ν) (e : κ × ν) (h : l.getLast? = some e) (hnd : (keys l).Nodup) :
    e.1 ∈ keys l ∧ e.1 ∉ keys l.dropLast ∧ (keys l.dropLast).Nodup ∧
    (∀ x, x ∈ keys l.dropLast → x ∈ keys l) ∧ l.dropLast.length + 1 = l.length ∧
    (∀ x, x ∈ keys l → x = e.1 ∨ x ∈ keys l.dropLast) := by
  have hk := keys_getLast? l e h
  refine ⟨List.mem_of_getLast? hk, ?_, ?_, ?_, ?_, ?_⟩
  · rw [keys_dropLast]; exact getLast_not_mem_dropLast _ _ hnd hk
  · rw [keys_dropLast]; exact nodup_dropLast _ hnd
  · intro x hx; rw [keys_dropLast] at hx; exact mem_dropLast_of _ _ hx
  · have : l ≠ [] := by intro hc; simp [hc] at h
    simp [List.length_dropLast]
    have : 0 < l.length := List.length_pos_iff.2 this
    omega
  · intro x hx
    rw [keys_dropLast]
    have hne : keys l ≠ [] := by intro hc; simp [hc] at hk
    have := List.dropLast_concat_getLast hne
    have hl : (keys l).getLast hne = e.1 := by
      have := List.getLast?_eq_some_getLast hne
      rw [hk] at this; exact (Option.some.inj this).symm
    rw [← this, List.mem_append] at hx
    rcases hx with hx | hx
    · right; exact hx
    · left; simp at hx; rw [hx, hl]

theorem erase_facts (l : AL κ ν) (k : κ) (v : ν) (h : find k l = some v) (hnd : (keys l).Nodup) :
    k ∈ keys l ∧ k ∉ keys (erase k l) ∧ (keys (erase k l)).Nodup ∧
    (∀ x, x ∈ keys (erase k l) ↔ x ∈ keys l ∧ x ≠ k) ∧ (erase k l).length + 1 = l.length := by
  refine ⟨find_some_mem k v l h, ?_, nodup_erase k l hnd, fun x => mem_keys_erase k x l hnd,
    length_erase_of_find k l v h⟩
  intro hm; exact ((mem_keys_erase k k l hnd).1 hm).2 rfl

theorem find_cons_ne (e : κ × ν) (t : AL κ ν) (k : κ) (h : e.1 ≠ k) : find k (e :: t) = find k t := by
  obtain ⟨a, b⟩ := e; simp [find]; intro hc; exact absurd hc h
theorem find_cons_self (k : κ) (v : ν) (t : AL κ ν) : find k ((k, v) :: t) = some v := by
  simp [find]
theorem erase_cons_ne (e : κ × ν) (t : AL κ ν) (k : κ) (h : e.1 ≠ k) : erase k (e :: t) = e :: erase k t := by
  obtain ⟨a, b⟩ := e; simp [erase]; intro hc; exact absurd hc h
theorem erase_cons_self (k : κ) (v : ν) (t : AL κ ν) : erase k ((k, v) :: t) = t := by
  simp [erase]

theorem find_dropLast (l : AL κ ν) (k : κ) (gl : κ × ν) (hl : l.getLast? = some gl)
    (hnd : (keys l).Nodup) :
    find k l.dropLast = if gl.1 = k then none else find k l := by
  induction l with
  | nil => simp at hl
  | cons a t ih =>
    cases t with
    | nil =>
      simp at hl; subst hl
      obtain ⟨a1, a2⟩ := a
      simp [find]
    | cons b t' =>
      simp only [List.getLast?_cons_cons] at hl
      simp only [List.dropLast_cons_cons]
      obtain ⟨a1, a2⟩ := a
      have hnd' : (keys (b :: t')).Nodup := by
        simp only [keys_cons', List.nodup_cons] at hnd ⊢; exact hnd.2
      have hmem : gl.1 ∈ keys (b :: t') := List.mem_of_getLast? (keys_getLast? _ _ hl)
      have hne : a1 ≠ gl.1 := by
        intro hc; simp only [keys_cons', List.nodup_cons] at hnd; rw [hc] at hnd; exact hnd.1 hmem
      simp only [find, ih hl hnd']
      by_cases h1 : a1 = k
      · subst h1; simp [Ne.symm hne]
      · simp [h1]

/-- with distinct keys the last entry is found under its own key -/
theorem find_last (l : AL κ ν) (e : κ × ν) (hl : l.getLast? = some e) (hnd : (keys l).Nodup) :
    find e.1 l = some e.2 := by
  induction l with
  | nil => simp at hl
  | cons a t ih =>
    cases t with
    | nil => simp at hl; subst hl; simp [find]
    | cons b t' =>
      simp only [List.getLast?_cons_cons] at hl
      have hnd' : (keys (b :: t')).Nodup := by
        simp only [keys_cons', List.nodup_cons] at hnd ⊢; exact hnd.2
      have hmem : e.1 ∈ keys (b :: t') := List.mem_of_getLast? (keys_getLast? _ _ hl)
      have hne : a.1 ≠ e.1 := by
        intro hc; simp only [keys_cons', List.nodup_cons] at hnd; rw [hc] at hnd; exact hnd.1 hmem
      rw [find_cons_ne _ _ _ hne]; exact ih hl hnd'

/-- erasing the key of the last entry is `dropLast` -/
theorem erase_last (l : AL κ ν) (e : κ × ν) (hl : l.getLast? = some e) (hnd : (keys l).Nodup) :
    erase e.1 l = l.dropLast := by
  induction l with
  | nil => simp at hl
  | cons a t ih =>
    cases t with
    | nil => simp at hl; subst hl; obtain ⟨a, b⟩ := a; simp [erase]
    | cons b t' =>
      simp only [List.getLast?_cons_cons] at hl
      have hnd' : (keys (b :: t')).Nodup := by
        simp only [keys_cons', List.nodup_cons] at hnd ⊢; exact hnd.2
      have hmem : e.1 ∈ keys (b :: t') := List.mem_of_getLast? (keys_getLast? _ _ hl)
      have hne : a.1 ≠ e.1 := by
        intro hc; simp only [keys_cons', List.nodup_cons] at hnd; rw [hc] at hnd; exact hnd.1 hmem
      rw [erase_cons_ne _ _ _ hne, ih hl hnd', List.dropLast_cons_cons]

end M
