/- Layer B lemmas: `attach` / `detach` preserve chain well-formedness and realise the list operations of Layer A. -/
import Caches.Model.Chain
set_option linter.unusedSectionVars false
set_option linter.unusedVariables false
set_option linter.unusedSimpArgs false
namespace M.Chain

@[simp] theorem setPrev_next (h : Heap) (a v x : Nat) : (setPrev h a v x).next = (h x).next := by
  unfold setPrev; split <;> rfl
@[simp] theorem setNext_prev (h : Heap) (a v x : Nat) : (setNext h a v x).prev = (h x).prev := by
  unfold setNext; split <;> rfl
theorem setNext_next (h : Heap) (a v x : Nat) : (setNext h a v x).next = if x = a then v else (h x).next := by
  unfold setNext; split <;> rfl
theorem setPrev_prev (h : Heap) (a v x : Nat) : (setPrev h a v x).prev = if x = a then v else (h x).prev := by
  unfold setPrev; split <;> rfl

/-- `Linked` only looks at the links of the listed nodes -/
theorem linked_congr (h h' : Heap) (l : List Nat) (hc : ∀ x ∈ l, h' x = h x) (hl : Linked h l) : Linked h' l := by
  induction l with
  | nil => trivial
  | cons a t ih =>
    cases t with
    | nil => trivial
    | cons b t' =>
      obtain ⟨h1, h2, h3⟩ := hl
      refine ⟨?_, ?_, ih (fun x hx => hc x (List.mem_cons_of_mem _ hx)) h3⟩
      · rw [hc a (by simp)]; exact h1
      · rw [hc b (by simp)]; exact h2

/-- finer congruence: `Linked l` reads `next` of every node and `prev` of every node but the first -/
theorem linked_congr2 (h h' : Heap) (l : List Nat) (hn : ∀ x ∈ l, (h' x).next = (h x).next)
    (hp : ∀ x ∈ l.tail, (h' x).prev = (h x).prev) (hl : Linked h l) : Linked h' l := by
  induction l with
  | nil => trivial
  | cons a t ih =>
    cases t with
    | nil => trivial
    | cons b t' =>
      obtain ⟨h1, h2, h3⟩ := hl
      refine ⟨?_, ?_, ?_⟩
      · rw [hn a (by simp)]; exact h1
      · rw [hp b (by simp)]; exact h2
      · exact ih (fun x hx => hn x (List.mem_cons_of_mem _ hx)) (fun x hx => hp x (by simp only [List.tail_cons] at hx ⊢; exact List.mem_cons_of_mem _ hx)) h3

theorem mem_dropLast_of' {α} (l : List α) (x : α) (h : x ∈ l.dropLast) : x ∈ l :=
  (List.dropLast_sublist _).subset h

theorem linked_tail (h : Heap) (a : Nat) (t : List Nat) (hl : Linked h (a :: t)) : Linked h t := by
  cases t with
  | nil => trivial
  | cons b t' => exact hl.2.2

/-- first link of a well-formed chain: `(*head).next` is the first entry (or `tail` when empty) -/
theorem head_next (h : Heap) (head tail : Nat) (l : List Nat) (hw : WF h head tail l) :
    (h head).next = (l ++ [tail]).head! := by
  cases l with
  | nil => exact hw.2.1
  | cons a t => exact hw.2.1

/-- `attach` puts the node right after `head` -/
theorem attach_wf (h : Heap) (head tail n : Nat) (l : List Nat) (hw : WF h head tail l)
    (hn : n ∉ head :: (l ++ [tail])) : WF (attach h head n) head tail (n :: l) := by
  obtain ⟨hnd, hl⟩ := hw
  have hnh : n ≠ head := fun hc => hn (by simp [hc])
  cases hrest : l ++ [tail] with
  | nil => simp at hrest
  | cons b t =>
    rw [hrest] at hnd hl hn
    have hnb : n ≠ b := fun hc => hn (by simp [hc])
    have hhb : head ≠ b := by
      intro hc; simp only [List.nodup_cons, List.mem_cons] at hnd; exact hnd.1 (Or.inl hc)
    refine ⟨?_, ?_⟩
    · show (head :: (n :: l ++ [tail])).Nodup
      simp only [List.cons_append, hrest]
      simp only [List.nodup_cons, List.mem_cons] at hnd hn ⊢
      grind
    · show Linked (attach h head n) (head :: (n :: l ++ [tail]))
      simp only [List.cons_append, hrest]
      obtain ⟨h1, h2, h3⟩ := hl
      have hnt : n ∉ t := fun hc => hn (by simp [hc])
      have hht : head ∉ t := by
        simp only [List.nodup_cons, List.mem_cons] at hnd; exact fun hc => hnd.1 (Or.inr hc)
      have hbt : b ∉ t := by
        simp only [List.nodup_cons, List.mem_cons] at hnd; exact hnd.2.1
      refine ⟨?_, ?_, ?_, ?_, ?_⟩
      · simp [attach, setNext, setPrev, hnh, Ne.symm hnh, h1, hhb, Ne.symm hnb]
      · simp [attach, setNext, setPrev, hnh, Ne.symm hnh, h1, hnb, Ne.symm hnb]
      · simp [attach, setNext, setPrev, hnh, Ne.symm hnh, h1, hnb, Ne.symm hnb]
      · simp [attach, setNext, setPrev, hnh, Ne.symm hnh, h1, hnb, Ne.symm hnb, hhb, Ne.symm hhb]
      · -- the rest of the chain is untouched except `b.prev`, which `Linked (b :: t)` does not read
        apply linked_congr2 h _ (b :: t) _ _ h3
        · intro x hx
          have hxn : x ≠ n := fun hc => hn (by rw [← hc]; simp only [List.mem_cons] at hx ⊢; exact Or.inr hx)
          have hxh : x ≠ head := by
            intro hc; rw [hc] at hx
            simp only [List.mem_cons] at hx
            rcases hx with hx | hx
            · exact hhb hx
            · exact hht hx
          simp [attach, setNext, setPrev, hnh, Ne.symm hnh, h1, hxn, hxh]
          by_cases hxb : x = b <;> simp [hxb]
        · intro x hx
          have hxb : x ≠ b := fun hc => hbt (by rw [← hc]; exact hx)
          have hxn : x ≠ n := fun hc => hnt (by rw [← hc]; exact hx)
          have hxh : x ≠ head := fun hc => hht (by rw [← hc]; exact hx)
          simp [attach, setNext, setPrev, hnh, Ne.symm hnh, h1, hxb, hxn, hxh]

/-- in a linked list the `prev` of a non-first node is its predecessor, hence a member -/
theorem prev_mem (h : Heap) (a : Nat) (t : List Nat) (hl : Linked h (a :: t)) (n : Nat) (hn : n ∈ t) :
    (h n).prev ∈ a :: t := by
  induction t generalizing a with
  | nil => simp at hn
  | cons b t' ih =>
    obtain ⟨h1, h2, h3⟩ := hl
    simp only [List.mem_cons] at hn
    rcases hn with rfl | hn
    · rw [h2]; simp
    · exact List.mem_cons_of_mem _ (ih b h3 hn)

/-- the `next` of a non-last node is its successor, hence a member of the tail -/
theorem next_mem (h : Heap) (l : List Nat) (hl : Linked h l) (n : Nat) (hn : n ∈ l.dropLast) : (h n).next ∈ l.tail := by
  induction l with
  | nil => simp at hn
  | cons a t ih =>
    cases t with
    | nil => simp at hn
    | cons b t' =>
      obtain ⟨h1, h2, h3⟩ := hl
      simp only [List.dropLast_cons_cons, List.mem_cons] at hn
      rcases hn with rfl | hn
      · rw [h1]; simp
      · have := ih h3 hn
        simp only [List.tail_cons] at this ⊢
        exact List.mem_cons_of_mem _ this

/-- with distinct addresses, the predecessor of a node is another node -/
theorem prev_ne_self (h : Heap) (a : Nat) (t : List Nat) (hnd : (a :: t).Nodup) (hl : Linked h (a :: t)) (n : Nat)
    (hn : n ∈ t) : (h n).prev ≠ n := by
  induction t generalizing a with
  | nil => simp at hn
  | cons b t' ih =>
    obtain ⟨h1, h2, h3⟩ := hl
    simp only [List.mem_cons] at hn
    rcases hn with rfl | hn
    · rw [h2]; intro hc; simp only [List.nodup_cons, List.mem_cons] at hnd; exact hnd.1 (Or.inl hc)
    · exact ih b (List.nodup_cons.1 hnd).2 h3 hn

/-- `detach` of an interior node of a linked, duplicate-free list links its two neighbours -/
theorem detach_linked (h : Heap) (xs : List Nat) (hnd : xs.Nodup) (hl : Linked h xs) (n : Nat)
    (hmid : n ∈ xs.tail.dropLast) : Linked (detach h n) (xs.erase n) := by
  induction xs with
  | nil => simp at hmid
  | cons a t ih =>
    simp only [List.tail_cons] at hmid
    have hnt : n ∈ t := mem_dropLast_of' _ _ hmid
    have hna : n ≠ a := by
      intro hc; simp only [List.nodup_cons] at hnd; exact hnd.1 (hc ▸ hnt)
    rw [List.erase_cons_tail (by simpa using Ne.symm hna)]
    cases t with
    | nil => simp at hmid
    | cons b t' =>
      obtain ⟨h1, h2, h3⟩ := hl
      have hnd' : (b :: t').Nodup := (List.nodup_cons.1 hnd).2
      have hat : a ∉ b :: t' := (List.nodup_cons.1 hnd).1
      by_cases hbn : b = n
      · -- `n` is the second node: its neighbours are `a` and the head of `t'`
        subst hbn
        cases t' with
        | nil => simp at hmid
        | cons c post =>
          obtain ⟨g1, g2, g3⟩ := h3
          simp only [List.erase_cons_head]
          have hbc : b ≠ c := by
            intro hc; simp only [List.nodup_cons, List.mem_cons] at hnd'; exact hnd'.1 (Or.inl hc)
          have hac : a ≠ c := fun hc => hat (by simp [hc])
          have hab : a ≠ b := fun hc => hat (by simp [hc])
          have hcpost : c ∉ post := by simp only [List.nodup_cons, List.mem_cons] at hnd'; exact hnd'.2.1
          refine ⟨?_, ?_, ?_⟩
          · simp [detach, setNext, setPrev, h2, g1, hac, hab, Ne.symm hab]
          · simp [detach, setNext, setPrev, h2, g1, hac, Ne.symm hac, hab, Ne.symm hab, hbc, Ne.symm hbc]
          · apply linked_congr2 h _ (c :: post) _ _ g3
            · intro x hx
              have hxa : x ≠ a := fun hc => hat (by rw [← hc]; exact List.mem_cons_of_mem _ hx)
              simp [detach, setNext, setPrev, h2, g1, hxa, hab, Ne.symm hab]
              by_cases hxc : x = c <;> simp [hxc]
            · intro x hx
              simp only [List.tail_cons] at hx
              have hxa : x ≠ a := fun hc => hat (by rw [← hc]; simp [hx])
              have hxc : x ≠ c := fun hc => hcpost (by rw [← hc]; exact hx)
              simp [detach, setNext, setPrev, h2, g1, hxa, hxc, hab, Ne.symm hab]
      · -- `n` lies deeper: recurse; the link `a → b` is not touched
        have hmid' : n ∈ (b :: t').tail.dropLast := by
          simp only [List.tail_cons]
          cases t' with
          | nil => simp at hmid
          | cons c post =>
            simp only [List.dropLast_cons_cons, List.mem_cons] at hmid
            rcases hmid with hmid | hmid
            · exact absurd hmid.symm hbn
            · exact hmid
        have ih' := ih hnd' h3 hmid'
        rw [List.erase_cons_tail (by simpa using hbn)] at ih' ⊢
        have hprev : (h n).prev ∈ b :: t' := prev_mem h b t' h3 n (by
          simp only [List.mem_cons] at hnt; rcases hnt with hnt | hnt
          · exact absurd hnt.symm hbn
          · exact hnt)
        have hnext : (h n).next ∈ (b :: t').tail := next_mem h (b :: t') h3 n (by
          cases t' with
          | nil => simp at hmid'
          | cons c post =>
            simp only [List.dropLast_cons_cons, List.mem_cons]
            simp only [List.tail_cons] at hmid'
            exact Or.inr hmid')
        have hap : a ≠ (h n).prev := fun hc => hat (hc ▸ hprev)
        have hanx : a ≠ (h n).next := fun hc => hat (hc ▸ List.mem_of_mem_tail hnext)
        have hbnx : b ≠ (h n).next := by
          intro hc
          have := hnext
          simp only [List.tail_cons] at this
          simp only [List.nodup_cons] at hnd'
          exact hnd'.1 (hc ▸ this)
        have hnt' : n ∈ t' := by
          simp only [List.mem_cons] at hnt; rcases hnt with hnt | hnt
          · exact absurd hnt.symm hbn
          · exact hnt
        have hpn : (h n).prev ≠ n := prev_ne_self h b t' hnd' h3 n hnt'
        have hstep : detach h n = setPrev (setNext h (h n).prev (h n).next) (h n).next (h n).prev := by
          unfold detach
          have : setNext h (h n).prev (h n).next n = h n := by unfold setNext; simp [Ne.symm hpn]
          simp only [this]
        have ha_next : (detach h n a).next = b := by
          rw [hstep, setPrev_next, setNext_next]; simp [hap, h1]
        have hb_prev : (detach h n b).prev = a := by
          rw [hstep, setPrev_prev, setNext_prev]; simp [hbnx, h2]
        cases hres : List.erase t' n with
        | nil => exact ⟨ha_next, hb_prev, trivial⟩
        | cons c post =>
          rw [hres] at ih'
          exact ⟨ha_next, hb_prev, ih'⟩

/-- the predecessor is never the last node -/
theorem prev_mem_dropLast (h : Heap) (a : Nat) (t : List Nat) (hl : Linked h (a :: t)) (n : Nat) (hn : n ∈ t) :
    (h n).prev ∈ (a :: t).dropLast := by
  induction t generalizing a with
  | nil => simp at hn
  | cons b t' ih =>
    obtain ⟨h1, h2, h3⟩ := hl
    simp only [List.mem_cons] at hn
    simp only [List.dropLast_cons_cons, List.mem_cons]
    rcases hn with rfl | hn
    · exact Or.inl h2
    · exact Or.inr (ih b h3 hn)

/-- `detach` of an entry of a well-formed chain leaves the well-formed chain without it -/
theorem detach_wf (h : Heap) (head tail : Nat) (l : List Nat) (hw : WF h head tail l) (n : Nat) (hn : n ∈ l) :
    WF (detach h n) head tail (l.erase n) := by
  obtain ⟨hnd, hl⟩ := hw
  have hnh : n ≠ head := by
    intro hc; simp only [List.nodup_cons, List.mem_append] at hnd; exact hnd.1 (Or.inl (hc ▸ hn))
  have hmid : n ∈ (head :: (l ++ [tail])).tail.dropLast := by
    simp only [List.tail_cons, List.dropLast_concat]; exact hn
  have := detach_linked h _ hnd hl n hmid
  rw [List.erase_cons_tail (by simpa using Ne.symm hnh), List.erase_append_left _ hn] at this
  refine ⟨?_, this⟩
  have h2 := hnd.erase n
  rwa [List.erase_cons_tail (by simpa using Ne.symm hnh), List.erase_append_left _ hn] at h2

/-- every address `detach` dereferences is a node of the chain: `(*node).prev` is the head or an entry,
    `(*node).next` an entry or the tail -/
theorem detach_derefs (h : Heap) (head tail : Nat) (l : List Nat) (hw : WF h head tail l) (n : Nat) (hn : n ∈ l) :
    (h n).prev ∈ head :: l ∧ (h n).next ∈ l ++ [tail] := by
  obtain ⟨hnd, hl⟩ := hw
  constructor
  · have := prev_mem_dropLast h head (l ++ [tail]) hl n (List.mem_append_left _ hn)
    rwa [List.dropLast_cons_of_ne_nil (List.append_ne_nil_of_right_ne_nil l (List.cons_ne_nil tail [])), List.dropLast_concat] at this
  · have := next_mem h (head :: (l ++ [tail])) hl n (by
      simp only [List.dropLast_cons_of_ne_nil (List.append_ne_nil_of_right_ne_nil l (List.cons_ne_nil tail [])), List.dropLast_concat]
      exact List.mem_cons_of_mem _ hn)
    simpa using this

/-- walking `next` from the successor of `a` enumerates the nodes after `a`, in order -/
theorem walkNext_linked (h : Heap) (a : Nat) (t r : List Nat) (hl : Linked h (a :: (t ++ r))) :
    walkNext h t.length (h a).next = t := by
  induction t generalizing a with
  | nil => rfl
  | cons b t' ih =>
    obtain ⟨h1, _, h3⟩ := hl
    simp only [List.length_cons, walkNext, h1]
    rw [ih b h3]

/-- `(*head).next`, then `next` repeatedly, `len` times: exactly the entries, most recent first -/
theorem walkNext_wf (h : Heap) (head tail : Nat) (l : List Nat) (hw : WF h head tail l) :
    walkNext h l.length (h head).next = l := walkNext_linked h head l [tail] hw.2

theorem linked_snoc2 (h : Heap) (xs : List Nat) (b z : Nat) (hl : Linked h (xs ++ [b, z])) :
    (h z).prev = b ∧ Linked h (xs ++ [b]) := by
  induction xs with
  | nil => exact ⟨hl.2.1, trivial⟩
  | cons a t ih =>
    cases t with
    | nil =>
      obtain ⟨h1, h2, h3⟩ := hl
      exact ⟨h3.2.1, h1, h2, trivial⟩
    | cons c t' =>
      obtain ⟨h1, h2, h3⟩ := hl
      have := ih h3
      exact ⟨this.1, h1, h2, this.2⟩

/-- walking `prev` from the predecessor of `z` enumerates the nodes before `z`, nearest first -/
theorem walkPrev_linked (h : Heap) (p r : List Nat) (z : Nat) (hl : Linked h (p ++ r.reverse ++ [z])) :
    walkPrev h r.length (h z).prev = r := by
  induction r generalizing z with
  | nil => rfl
  | cons b r' ih =>
    have e : p ++ (b :: r').reverse ++ [z] = (p ++ r'.reverse) ++ [b, z] := by simp
    rw [e] at hl
    obtain ⟨h1, h2⟩ := linked_snoc2 h _ b z hl
    simp only [List.length_cons, walkPrev, h1]
    rw [ih b (by simpa using h2)]

/-- `(*tail).prev`, then `prev` repeatedly, `len` times: exactly the entries, least recent first -/
theorem walkPrev_wf (h : Heap) (head tail : Nat) (l : List Nat) (hw : WF h head tail l) :
    walkPrev h l.length (h tail).prev = l.reverse := by
  have := walkPrev_linked h [head] l.reverse tail (by simpa using hw.2)
  simpa using this

/-- `(*tail).prev` is the least recently used entry (or `head` when the list is empty) -/
theorem tail_prev (h : Heap) (head tail : Nat) (l : List Nat) (hw : WF h head tail l) :
    (h tail).prev = (head :: l).getLast (List.cons_ne_nil _ _) := by
  have e : head :: (l ++ [tail]) = (head :: l).dropLast ++ [(head :: l).getLast (List.cons_ne_nil _ _), tail] := by
    have := List.dropLast_concat_getLast (List.cons_ne_nil head l)
    calc head :: (l ++ [tail]) = (head :: l) ++ [tail] := rfl
      _ = ((head :: l).dropLast ++ [(head :: l).getLast (List.cons_ne_nil _ _)]) ++ [tail] := by rw [this]
      _ = _ := by simp
  have hl := hw.2
  rw [e] at hl
  exact (linked_snoc2 h _ _ tail hl).1

/-- move-to-front (`detach` then `attach`) of an entry: the chain stays well formed, the entry is first,
    all other entries keep their order -/
theorem move_front_wf (h : Heap) (head tail : Nat) (l : List Nat) (hw : WF h head tail l) (n : Nat) (hn : n ∈ l) :
    WF (attach (detach h n) head n) head tail (n :: l.erase n) := by
  have h1 := detach_wf h head tail l hw n hn
  apply attach_wf _ _ _ _ _ h1
  have hnd := hw.1
  simp only [List.nodup_cons, List.mem_append, List.mem_cons, List.mem_nil_iff, or_false] at hnd ⊢
  have hnl : (l ++ [tail]).Nodup := hnd.2
  have hnd2 : l.Nodup := (List.nodup_append.1 hnl).1
  intro hc
  rcases hc with hc | hc | hc
  · exact hnd.1 (Or.inl (hc ▸ hn))
  · exact (List.Nodup.mem_erase_iff hnd2).1 hc |>.1 rfl
  · have := (List.nodup_append.1 hnl).2.2 n hn tail (by simp)
    exact this hc

end M.Chain
