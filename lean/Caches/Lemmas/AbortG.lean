/- Lemmas for the composite abort model (C18): the invariant survives every atomic step; Hoare-style rules for `Act`. -/
import Caches.Model.AbortG
import Caches.Lemmas.Abort
set_option linter.unusedSectionVars false
set_option linter.unusedVariables false
set_option linter.unusedSimpArgs false
namespace M.AG
open M.Abort (lookup unindex lookup_mem lookup_none_iff unindex_sublist mem_unindex mem_unindex_ne mem_unindex_of unindex_keys_nd)
variable {κ ν : Type} [DecidableEq κ]

/-- node `j` is live and tagged `t` -/
def Has (g : G κ ν) (j : Nat) (t : Tag) : Prop := ∃ e ∈ g.pool, e.id = j ∧ e.tag = t
/-- owned by a frame (or leaked): detached from every list -/
def fl (g : G κ ν) (j : Nat) : Prop := Has g j .flight

structure Inv (g : G κ ν) : Prop where
  ids_nd : (g.pool.map (·.id)).Nodup
  lt_next : ∀ e ∈ g.pool, e.id < g.next
  keys_nd : ∀ c, ((g.idx c).map (·.1)).Nodup
  idx_in : ∀ c k i, (k, i) ∈ g.idx c → ∃ e ∈ g.pool, e.tag = .inL c ∧ e.id = i ∧ e.key = k
  cap_pos : ∀ c, 0 < g.cap c
  nofault : g.fault = false

/-- in-flight nodes other than the consumed ones stay in flight -/
def Keeps (g g' : G κ ν) (cons : List Nat) : Prop := ∀ j, fl g j → j ∉ cons → fl g' j

theorem Keeps.refl (g : G κ ν) : Keeps g g [] := fun _ h _ => h
theorem Keeps.trans {g g1 g2 : G κ ν} {A B : List Nat} (h1 : Keeps g g1 A) (h2 : Keeps g1 g2 B) : Keeps g g2 (A ++ B) := by
  intro j hj hn
  simp only [List.mem_append, not_or] at hn
  exact h2 j (h1 j hj hn.1) hn.2
theorem Keeps.mono {g g' : G κ ν} {A B : List Nat} (h : Keeps g g' A) (hs : ∀ x ∈ A, x ∈ B) : Keeps g g' B :=
  fun j hj hn => h j hj (fun hc => hn (hs j hc))

/-- an entry is determined by its id -/
theorem ent_unique (g : G κ ν) (h : (g.pool.map (·.id)).Nodup) (a b : Ent κ ν) (ha : a ∈ g.pool) (hb : b ∈ g.pool)
    (hid : a.id = b.id) : a = b := by
  generalize g.pool = l at *
  induction l with
  | nil => simp at ha
  | cons x t ih =>
    simp only [List.map_cons, List.nodup_cons, List.mem_map, not_exists, not_and] at h
    simp only [List.mem_cons] at ha hb
    rcases ha with rfl | ha <;> rcases hb with rfl | hb
    · rfl
    · exact absurd hid.symm (h.1 b hb)
    · exact absurd hid (h.1 a ha)
    · exact ih h.2 ha hb

theorem entOf_mem (g : G κ ν) (i : Nat) (e : Ent κ ν) (h : entOf g i = some e) : e ∈ g.pool ∧ e.id = i := by
  unfold entOf at h
  exact ⟨List.mem_of_find?_eq_some h, by simpa using List.find?_some h⟩

theorem entOf_of_mem (g : G κ ν) (hnd : (g.pool.map (·.id)).Nodup) (e : Ent κ ν) (he : e ∈ g.pool) :
    entOf g e.id = some e := by
  cases hf : entOf g e.id with
  | none =>
    unfold entOf at hf
    have := List.find?_eq_none.1 hf e he
    simp at this
  | some e' =>
    obtain ⟨hm, hid⟩ := entOf_mem g _ _ hf
    rw [ent_unique g hnd e' e hm he hid]

theorem Has.entOf {g : G κ ν} (hI : Inv g) {j : Nat} {t : Tag} (h : Has g j t) :
    ∃ e, entOf g j = some e ∧ e.tag = t ∧ e.id = j ∧ e ∈ g.pool := by
  obtain ⟨e, he, hid, ht⟩ := h
  exact ⟨e, hid ▸ entOf_of_mem g hI.ids_nd e he, ht, hid, he⟩

/-- a node has one tag -/
theorem Has.tag_unique {g : G κ ν} (hI : Inv g) {j : Nat} {t t' : Tag} (h : Has g j t) (h' : Has g j t') : t = t' := by
  obtain ⟨e, he, hid, ht⟩ := h
  obtain ⟨e', he', hid', ht'⟩ := h'
  have := ent_unique g hI.ids_nd e e' he he' (by rw [hid, hid'])
  rw [← ht, ← ht', this]

/-- an indexed id names a node linked in that list -/
theorem indexed_linked {g : G κ ν} (hI : Inv g) {c : Nat} {k : κ} {i : Nat} (h : (k, i) ∈ g.idx c) : Has g i (.inL c) := by
  obtain ⟨e, he, ht, hid, _⟩ := hI.idx_in c k i h
  exact ⟨e, he, hid, ht⟩

/-- a node in flight is in no index -/
theorem fl_not_indexed {g : G κ ν} (hI : Inv g) {i : Nat} (h : fl g i) (c : Nat) (k : κ) : (k, i) ∉ g.idx c := by
  intro hc
  have := Has.tag_unique hI h (indexed_linked hI hc)
  cases this

/-- two index entries of a list with the same node id are the same entry -/
theorem idx_id_key {g : G κ ν} (hI : Inv g) {c : Nat} {k k' : κ} {i : Nat} (h : (k, i) ∈ g.idx c) (h' : (k', i) ∈ g.idx c) :
    k = k' := by
  obtain ⟨e, he, _, hid, hk⟩ := hI.idx_in c k i h
  obtain ⟨e', he', _, hid', hk'⟩ := hI.idx_in c k' i h'
  have := ent_unique g hI.ids_nd e e' he he' (by rw [hid, hid'])
  rw [← hk, ← hk', this]

/-! ### membership in the transformed pools -/
omit [DecidableEq κ] in
theorem mem_retag (i : Nat) (t : Tag) (l : List (Ent κ ν)) (x : Ent κ ν) :
    x ∈ retag i t l ↔ ∃ e ∈ l, x = if e.id = i then { e with tag := t } else e := by
  simp [retag, eq_comm]
omit [DecidableEq κ] in
theorem mem_toFront (i : Nat) (l : List (Ent κ ν)) (x : Ent κ ν) : x ∈ toFront i l ↔ x ∈ l := by
  simp only [toFront, List.mem_append, List.mem_filter, decide_eq_true_eq, Bool.not_eq_eq_eq_not, Bool.not_true,
    decide_eq_false_iff_not]
  constructor
  · rintro (h | h) <;> exact h.1
  · intro h; by_cases hx : x.id = i
    · exact Or.inl ⟨h, hx⟩
    · exact Or.inr ⟨h, hx⟩
omit [DecidableEq κ] in
theorem ids_retag (i : Nat) (t : Tag) (l : List (Ent κ ν)) : (retag i t l).map (·.id) = l.map (·.id) := by
  simp only [retag, List.map_map]
  apply List.map_congr_left
  intro e _
  simp only [Function.comp]
  split <;> rfl
omit [DecidableEq κ] in
theorem ids_toFront_nd (i : Nat) (l : List (Ent κ ν)) (h : (l.map (·.id)).Nodup) : ((toFront i l).map (·.id)).Nodup := by
  have hp : List.Perm (toFront i l) l := List.filter_append_perm _ l
  exact (hp.map _).nodup_iff.2 h
omit [DecidableEq κ] in
theorem ids_setVal (i : Nat) (v : ν) (l : List (Ent κ ν)) : (setVal i v l).map (·.id) = l.map (·.id) := by
  simp only [setVal, List.map_map]
  apply List.map_congr_left
  intro e _
  simp only [Function.comp]
  split <;> rfl
omit [DecidableEq κ] in
theorem ids_setKV (i : Nat) (k : κ) (v : ν) (l : List (Ent κ ν)) : (setKV i k v l).map (·.id) = l.map (·.id) := by
  simp only [setKV, List.map_map]
  apply List.map_congr_left
  intro e _
  simp only [Function.comp]
  split <;> rfl


/-! ### Hoare-style rules: `Holds m P Q` — from an invariant state satisfying `P`, `m` ends (aborted or not) in an
    invariant state, and if it completes with `a` the relation `Q before a after` holds -/

def Holds {α : Type} (m : Act κ ν α) (P : G κ ν → Prop) (Q : G κ ν → α → G κ ν → Prop) : Prop :=
  ∀ g, Inv g → P g → Inv (m g).2 ∧ ∀ a, (m g).1 = some a → Q g a (m g).2

theorem bind_run {α β : Type} (m : Act κ ν α) (f : α → Act κ ν β) (g : G κ ν) :
    (m >>= f) g = match m g with
      | (some a, g') => f a g'
      | (none, g') => (none, g') := rfl
theorem pure_run {α : Type} (a : α) (g : G κ ν) : (pure a : Act κ ν α) g = (some a, g) := rfl

theorem Holds.pure {α : Type} (a : α) {P : G κ ν → Prop} {Q : G κ ν → α → G κ ν → Prop}
    (h : ∀ g, Inv g → P g → Q g a g) : Holds (pure a : Act κ ν α) P Q := by
  intro g hI hP
  exact ⟨hI, fun b hb => by simp only [pure_run, Option.some.injEq] at hb; subst hb; exact h g hI hP⟩

theorem Holds.bind {α β : Type} {m : Act κ ν α} {f : α → Act κ ν β} {P : G κ ν → Prop}
    {Q : G κ ν → α → G κ ν → Prop} {R : G κ ν → β → G κ ν → Prop}
    (hm : Holds m P Q)
    (hf : ∀ g0 a, Inv g0 → P g0 → Holds (f a) (fun g1 => Q g0 a g1) (fun _ b g2 => R g0 b g2)) :
    Holds (m >>= f) P R := by
  intro g hI hP
  obtain ⟨hI1, hq⟩ := hm g hI hP
  rw [bind_run]
  rcases hmg : m g with ⟨r, g1⟩
  rw [hmg] at hI1 hq
  cases r with
  | none => exact ⟨hI1, fun a ha => by simp at ha⟩
  | some a => exact hf g a hI hP g1 hI1 (hq a rfl)

theorem Holds.conseq {α : Type} {m : Act κ ν α} {P P' : G κ ν → Prop} {Q Q' : G κ ν → α → G κ ν → Prop}
    (h : Holds m P' Q') (hp : ∀ g, Inv g → P g → P' g)
    (hq : ∀ g a g', Inv g → P g → Inv g' → Q' g a g' → Q g a g') : Holds m P Q := by
  intro g hI hP
  obtain ⟨hI1, hq1⟩ := h g hI (hp g hI hP)
  exact ⟨hI1, fun a ha => hq g a _ hI hP hI1 (hq1 a ha)⟩

/-- an aborting action only has to keep the invariant -/
theorem Holds.panic {α : Type} {P : G κ ν → Prop} {Q : G κ ν → α → G κ ν → Prop} : Holds (panic : Act κ ν α) P Q := by
  intro g hI _
  exact ⟨hI, fun a ha => by simp [AG.panic] at ha⟩

/-! ### states that differ only in fields the invariant does not read -/

theorem Inv.of_same {g g' : G κ ν} (h : Inv g) (hp : g'.pool = g.pool) (hi : g'.idx = g.idx) (hc : g'.cap = g.cap)
    (hn : g'.next = g.next) (hf : g'.fault = g.fault) : Inv g' :=
  ⟨hp ▸ h.ids_nd, by rw [hp, hn]; exact h.lt_next, by rw [hi]; exact h.keys_nd, by rw [hi, hp]; exact h.idx_in,
   by rw [hc]; exact h.cap_pos, by rw [hf]; exact h.nofault⟩

theorem fl_of_pool {g g' : G κ ν} (hp : g'.pool = g.pool) (j : Nat) : fl g' j ↔ fl g j := by
  simp [fl, Has, hp]
theorem Has_of_pool {g g' : G κ ν} (hp : g'.pool = g.pool) (j : Nat) (t : Tag) : Has g' j t ↔ Has g j t := by
  simp [Has, hp]
theorem Keeps.of_pool {g g' : G κ ν} (hp : g'.pool = g.pool) : Keeps g g' [] :=
  fun j hj _ => (fl_of_pool hp j).2 hj

theorem userCall_spec : Holds (userCall : Act κ ν Unit) (fun _ => True)
    (fun g _ g' => g'.pool = g.pool ∧ g'.idx = g.idx ∧ g'.cap = g.cap ∧ g'.p = g.p) := by
  intro g hI _
  unfold userCall
  split
  · exact ⟨hI, fun a ha => by simp at ha⟩
  · exact ⟨hI.of_same rfl rfl rfl rfl rfl, fun a _ => ⟨rfl, rfl, rfl, rfl⟩⟩

theorem getG_spec : Holds (getG : Act κ ν (G κ ν)) (fun _ => True) (fun g r g' => r = g ∧ g' = g) := by
  intro g hI _
  exact ⟨hI, fun a ha => by simp only [getG, Option.some.injEq] at ha; exact ⟨ha.symm, rfl⟩⟩


/-! ### the atomic steps -/

theorem upd_same {β : Type} (f : Nat → β) (c : Nat) (b : β) : upd f c b c = b := by simp [upd]
theorem upd_other {β : Type} (f : Nat → β) (c c' : Nat) (b : β) (h : c' ≠ c) : upd f c b c' = f c' := by simp [upd, h]

/-- retagging a node that no index refers to -/
theorem inv_retag_flight {g : G κ ν} (hI : Inv g) (c i : Nat) (hl : Has g i (.inL c)) (hni : ∀ k, (k, i) ∉ g.idx c) :
    Inv { g with pool := retag i .flight g.pool } := by
  refine ⟨by simpa [ids_retag] using hI.ids_nd, ?_, hI.keys_nd, ?_, hI.cap_pos, hI.nofault⟩
  · intro e he
    obtain ⟨e0, he0, rfl⟩ := (mem_retag i _ _ e).1 he
    have := hI.lt_next e0 he0
    split <;> simpa using this
  · intro c' k j hm
    obtain ⟨e, he, ht, hid, hk⟩ := hI.idx_in c' k j hm
    have hji : j ≠ i := by
      intro hc; subst hc
      have : Tag.inL c' = Tag.inL c := Has.tag_unique hI ⟨e, he, hid, ht⟩ hl
      cases this
      exact hni k hm
    refine ⟨e, (mem_retag i _ _ e).2 ⟨e, he, ?_⟩, ht, hid, hk⟩
    rw [if_neg (by rw [hid]; exact hji)]

theorem unlinkNode_spec (c i : Nat) : Holds (unlinkNode c i : Act κ ν Unit)
    (fun g => Has g i (.inL c) ∧ ∀ k, (k, i) ∉ g.idx c)
    (fun g _ g' => Keeps g g' [] ∧ fl g' i ∧ ¬ fl g i ∧ g'.idx = g.idx ∧ g'.cap = g.cap ∧ g'.p = g.p) := by
  intro g hI ⟨hl, hni⟩
  obtain ⟨e, he, ht, hid, hm⟩ := hl.entOf hI
  unfold unlinkNode
  simp only [he, ht, if_true]
  refine ⟨inv_retag_flight hI c i hl hni, fun _ _ => ⟨?_, ?_, ?_, by first | rfl | trivial, by first | rfl | trivial, by first | rfl | trivial⟩⟩
  · intro j ⟨x, hx, hxi, hxt⟩ _
    refine ⟨x, (mem_retag i _ _ x).2 ⟨x, hx, ?_⟩, hxi, hxt⟩
    split
    · rename_i h; cases x; simp_all
    · rfl
  · exact ⟨{ e with tag := .flight }, (mem_retag i _ _ _).2 ⟨e, hm, by simp [hid]⟩, hid, rfl⟩
  · intro hf
    have := Has.tag_unique hI hf hl
    cases this

/-- linking a node the frame owns -/
theorem inv_attach {g : G κ ν} (hI : Inv g) (c i : Nat) (hf : fl g i) :
    Inv { g with pool := toFront i (retag i (.inL c) g.pool) } := by
  refine ⟨ids_toFront_nd i _ (by simpa [ids_retag] using hI.ids_nd), ?_, hI.keys_nd, ?_, hI.cap_pos, hI.nofault⟩
  · intro e he
    rw [mem_toFront] at he
    obtain ⟨e0, he0, rfl⟩ := (mem_retag i _ _ e).1 he
    have := hI.lt_next e0 he0
    split <;> simpa using this
  · intro c' k j hm
    obtain ⟨e, he, ht, hid, hk⟩ := hI.idx_in c' k j hm
    have hji : j ≠ i := by
      intro hc; subst hc
      exact fl_not_indexed hI hf c' k hm
    refine ⟨e, (mem_toFront i _ e).2 ((mem_retag i _ _ e).2 ⟨e, he, ?_⟩), ht, hid, hk⟩
    rw [if_neg (by rw [hid]; exact hji)]

theorem attach_spec (c i : Nat) : Holds (attach c i : Act κ ν Unit) (fun g => fl g i)
    (fun g _ g' => Keeps g g' [i] ∧ Has g' i (.inL c) ∧ g'.idx = g.idx ∧ g'.cap = g.cap ∧ g'.p = g.p) := by
  intro g hI hf
  obtain ⟨e, he, ht, hid, hm⟩ := Has.entOf hI hf
  unfold attach
  simp only [he, ht, if_true]
  refine ⟨inv_attach hI c i hf, fun _ _ => ⟨?_, ?_, by first | rfl | trivial, by first | rfl | trivial, by first | rfl | trivial⟩⟩
  · intro j ⟨x, hx, hxi, hxt⟩ hj
    simp only [List.mem_singleton] at hj
    refine ⟨x, (mem_toFront i _ x).2 ((mem_retag i _ _ x).2 ⟨x, hx, ?_⟩), hxi, hxt⟩
    rw [if_neg (by rw [hxi]; exact hj)]
  · exact ⟨{ e with tag := .inL c }, (mem_toFront i _ _).2 ((mem_retag i _ _ _).2 ⟨e, hm, by simp [hid]⟩), hid, rfl⟩

theorem moveFront_spec (c i : Nat) : Holds (moveFront c i : Act κ ν Unit) (fun g => Has g i (.inL c))
    (fun g _ g' => Keeps g g' [] ∧ g'.idx = g.idx ∧ g'.cap = g.cap ∧ g'.p = g.p) := by
  intro g hI hl
  obtain ⟨e, he, ht, hid, hm⟩ := hl.entOf hI
  unfold moveFront
  simp only [he, ht, if_true]
  refine ⟨⟨ids_toFront_nd i _ hI.ids_nd, ?_, hI.keys_nd, ?_, hI.cap_pos, hI.nofault⟩, fun _ _ => ⟨?_, by first | rfl | trivial, by first | rfl | trivial, by first | rfl | trivial⟩⟩
  · intro x hx; exact hI.lt_next x ((mem_toFront i _ x).1 hx)
  · intro c' k j hmem
    obtain ⟨x, hx, h1, h2, h3⟩ := hI.idx_in c' k j hmem
    exact ⟨x, (mem_toFront i _ x).2 hx, h1, h2, h3⟩
  · intro j ⟨x, hx, hxi, hxt⟩ _
    exact ⟨x, (mem_toFront i _ x).2 hx, hxi, hxt⟩

theorem freeNode_spec (i : Nat) : Holds (freeNode i : Act κ ν (κ × ν)) (fun g => fl g i)
    (fun g _ g' => Keeps g g' [i] ∧ g'.idx = g.idx ∧ g'.cap = g.cap ∧ g'.p = g.p) := by
  intro g hI hf
  obtain ⟨e, he, ht, hid, hm⟩ := Has.entOf hI hf
  unfold freeNode
  simp only [he, ht, if_true]
  refine ⟨⟨?_, ?_, hI.keys_nd, ?_, hI.cap_pos, hI.nofault⟩, fun _ _ => ⟨?_, by first | rfl | trivial, by first | rfl | trivial, by first | rfl | trivial⟩⟩
  · exact List.Sublist.nodup (List.Sublist.map _ List.filter_sublist) hI.ids_nd
  · intro x hx; exact hI.lt_next x (List.mem_filter.1 hx).1
  · intro c' k j hmem
    obtain ⟨x, hx, h1, h2, h3⟩ := hI.idx_in c' k j hmem
    have hji : j ≠ i := by
      intro hc; subst hc
      exact fl_not_indexed hI hf c' k hmem
    exact ⟨x, List.mem_filter.2 ⟨hx, by simp [h2, hji]⟩, h1, h2, h3⟩
  · intro j ⟨x, hx, hxi, hxt⟩ hj
    simp only [List.mem_singleton] at hj
    exact ⟨x, List.mem_filter.2 ⟨hx, by simp [hxi, hj]⟩, hxi, hxt⟩


omit [DecidableEq κ] in
theorem mem_setVal (i : Nat) (v : ν) (l : List (Ent κ ν)) (x : Ent κ ν) :
    x ∈ setVal i v l ↔ ∃ e ∈ l, x = if e.id = i then { e with val := v } else e := by
  simp [setVal, eq_comm]
omit [DecidableEq κ] in
theorem mem_setKV (i : Nat) (k : κ) (v : ν) (l : List (Ent κ ν)) (x : Ent κ ν) :
    x ∈ setKV i k v l ↔ ∃ e ∈ l, x = if e.id = i then { e with key := k, val := v } else e := by
  simp [setKV, eq_comm]

theorem swapVal_spec (i : Nat) (v : ν) : Holds (swapVal i v : Act κ ν ν) (fun g => ∃ t, Has g i t)
    (fun g _ g' => (∀ j t, Has g j t → Has g' j t) ∧ g'.idx = g.idx ∧ g'.cap = g.cap ∧ g'.p = g.p) := by
  intro g hI ⟨t, ht⟩
  obtain ⟨e, he, _, hid, hm⟩ := ht.entOf hI
  unfold swapVal
  simp only [he]
  refine ⟨⟨by simpa [ids_setVal] using hI.ids_nd, ?_, hI.keys_nd, ?_, hI.cap_pos, hI.nofault⟩,
    fun _ _ => ⟨?_, by first | rfl | trivial, by first | rfl | trivial, by first | rfl | trivial⟩⟩
  · intro x hx
    obtain ⟨e0, he0, rfl⟩ := (mem_setVal i v _ x).1 hx
    have := hI.lt_next e0 he0
    split <;> simpa using this
  · intro c' k j hmem
    obtain ⟨x, hx, h1, h2, h3⟩ := hI.idx_in c' k j hmem
    refine ⟨if x.id = i then { x with val := v } else x, (mem_setVal i v _ _).2 ⟨x, hx, rfl⟩, ?_, ?_, ?_⟩ <;>
      split <;> assumption
  · intro j t ⟨x, hx, hxi, hxt⟩
    refine ⟨if x.id = i then { x with val := v } else x, (mem_setVal i v _ _).2 ⟨x, hx, rfl⟩, ?_, ?_⟩ <;>
      split <;> assumption

theorem alloc_spec (k : κ) (v : ν) : Holds (alloc k v : Act κ ν Nat) (fun _ => True)
    (fun g r g' => Keeps g g' [] ∧ fl g' r ∧ ¬ fl g r ∧ g'.idx = g.idx ∧ g'.cap = g.cap ∧ g'.p = g.p) := by
  intro g hI _
  unfold alloc
  have hfresh : g.next ∉ g.pool.map (·.id) := by
    intro hc
    obtain ⟨e, he, hid⟩ := List.mem_map.1 hc
    have := hI.lt_next e he
    omega
  refine ⟨⟨?_, ?_, hI.keys_nd, ?_, hI.cap_pos, hI.nofault⟩, fun a ha => ?_⟩
  · simp only [List.map_cons, List.nodup_cons]; exact ⟨hfresh, hI.ids_nd⟩
  · intro e he
    simp only [List.mem_cons] at he
    rcases he with rfl | he
    · simp
    · have := hI.lt_next e he; simp only; omega
  · intro c' k' j hmem
    obtain ⟨x, hx, h⟩ := hI.idx_in c' k' j hmem
    exact ⟨x, List.mem_cons_of_mem _ hx, h⟩
  · simp only [Option.some.injEq] at ha
    subst ha
    refine ⟨?_, ⟨_, List.mem_cons_self, rfl, rfl⟩, ?_, rfl, rfl, rfl⟩
    · intro j ⟨x, hx, hxi, hxt⟩ _
      exact ⟨x, List.mem_cons_of_mem _ hx, hxi, hxt⟩
    · intro ⟨x, hx, hxi, _⟩
      exact hfresh (List.mem_map.2 ⟨x, hx, hxi⟩)

theorem lastKey_spec (c : Nat) : Holds (lastKey c : Act κ ν κ) (fun g => chain g c ≠ []) (fun g _ g' => g = g') := by
  intro g hI hne
  unfold lastKey
  cases h : (chain g c).getLast? with
  | none => exact absurd (List.getLast?_eq_none_iff.1 h) hne
  | some e => exact ⟨hI, fun _ _ => rfl⟩

/-- an indexed list has a linked node -/
theorem chain_ne_nil_of_idx {g : G κ ν} (hI : Inv g) (c : Nat) (h : g.idx c ≠ []) : chain g c ≠ [] := by
  obtain ⟨⟨k, i⟩, hm⟩ := List.exists_mem_of_ne_nil _ h
  obtain ⟨e, he, ht, _, _⟩ := hI.idx_in c k i hm
  intro hc
  have : e ∈ chain g c := List.mem_filter.2 ⟨he, by simp [ht]⟩
  rw [hc] at this
  simp at this

theorem indexNode_spec (c i : Nat) : Holds (indexNode c i : Act κ ν Unit) (fun g => Has g i (.inL c))
    (fun g _ g' => g'.pool = g.pool ∧ g'.cap = g.cap ∧ g'.p = g.p) := by
  intro g hI hl
  obtain ⟨e, he, ht, hid, hm⟩ := hl.entOf hI
  unfold indexNode
  simp only [he, ht, if_true]
  refine ⟨⟨hI.ids_nd, hI.lt_next, ?_, ?_, hI.cap_pos, hI.nofault⟩, fun _ _ => ⟨by first | rfl | trivial, by first | rfl | trivial, by first | rfl | trivial⟩⟩
  · intro c'
    by_cases hc : c' = c
    · subst hc
      simp only [upd_same, List.map_cons, List.nodup_cons]
      refine ⟨?_, unindex_keys_nd e.key _ (hI.keys_nd c')⟩
      intro hcon
      obtain ⟨x, hx, hxk⟩ := List.mem_map.1 hcon
      exact mem_unindex_ne e.key _ (hI.keys_nd c') x hx hxk
    · simp only [upd_other _ _ _ _ hc]; exact hI.keys_nd c'
  · intro c' k j hmem
    by_cases hc : c' = c
    · subst hc
      simp only [upd_same, List.mem_cons, Prod.mk.injEq] at hmem
      rcases hmem with ⟨rfl, rfl⟩ | hmem
      · exact ⟨e, hm, ht, hid, rfl⟩
      · exact hI.idx_in c' k j (mem_unindex e.key _ _ hmem)
    · simp only [upd_other _ _ _ _ hc] at hmem; exact hI.idx_in c' k j hmem

theorem unindexKey_spec (c : Nat) (k : κ) : Holds (unindexKey c k : Act κ ν Unit) (fun _ => True)
    (fun g _ g' => g'.pool = g.pool ∧ g'.cap = g.cap ∧ g'.p = g.p ∧ g'.idx c = unindex k (g.idx c)) := by
  intro g hI _
  unfold unindexKey
  refine ⟨⟨hI.ids_nd, hI.lt_next, ?_, ?_, hI.cap_pos, hI.nofault⟩, fun _ _ => ⟨rfl, rfl, rfl, by simp [upd_same]⟩⟩
  · intro c'
    by_cases hc : c' = c
    · subst hc; simp only [upd_same]; exact unindex_keys_nd k _ (hI.keys_nd c')
    · simp only [upd_other _ _ _ _ hc]; exact hI.keys_nd c'
  · intro c' k' j hmem
    by_cases hc : c' = c
    · subst hc; simp only [upd_same] at hmem; exact hI.idx_in c' k' j (mem_unindex k _ _ hmem)
    · simp only [upd_other _ _ _ _ hc] at hmem; exact hI.idx_in c' k' j hmem

/-- overwriting key and value of a node the frame owns (`mem::replace` in `replace_or_create_node`) -/
theorem setKV_spec (g0 : G κ ν) (i : Nat) (k : κ) (v : ν) :
    Holds (setG { g0 with pool := setKV i k v g0.pool } : Act κ ν Unit) (fun g => g = g0 ∧ fl g i)
      (fun g _ g' => Keeps g g' [] ∧ fl g' i ∧ g'.idx = g.idx ∧ g'.cap = g.cap ∧ g'.p = g.p) := by
  intro g hI ⟨hg, hf⟩
  subst hg
  unfold setG
  refine ⟨⟨by simpa [ids_setKV] using hI.ids_nd, ?_, hI.keys_nd, ?_, hI.cap_pos, hI.nofault⟩,
    fun _ _ => ⟨?_, ?_, rfl, rfl, rfl⟩⟩
  · intro x hx
    obtain ⟨e0, he0, rfl⟩ := (mem_setKV i k v _ x).1 hx
    have := hI.lt_next e0 he0
    split <;> simpa using this
  · intro c' k' j hmem
    obtain ⟨x, hx, h1, h2, h3⟩ := hI.idx_in c' k' j hmem
    have hji : j ≠ i := by
      intro hc; subst hc
      exact fl_not_indexed hI hf c' k' hmem
    refine ⟨x, (mem_setKV i k v _ x).2 ⟨x, hx, ?_⟩, h1, h2, h3⟩
    rw [if_neg (by rw [h2]; exact hji)]
  · intro j ⟨x, hx, hxi, hxt⟩ _
    refine ⟨if x.id = i then { x with key := k, val := v } else x, (mem_setKV i k v _ _).2 ⟨x, hx, rfl⟩, ?_, ?_⟩ <;>
      split <;> assumption
  · obtain ⟨x, hx, hxi, hxt⟩ := hf
    refine ⟨if x.id = i then { x with key := k, val := v } else x, (mem_setKV i k v _ _).2 ⟨x, hx, rfl⟩, ?_, ?_⟩ <;>
      split <;> assumption


/-! ### pointed triples: all facts live in the context -/

def Ok {α : Type} (m : Act κ ν α) (g : G κ ν) (Q : α → G κ ν → Prop) : Prop :=
  Inv (m g).2 ∧ ∀ a, (m g).1 = some a → Q a (m g).2

theorem Holds.ok {α : Type} {m : Act κ ν α} {P : G κ ν → Prop} {Q : G κ ν → α → G κ ν → Prop}
    (h : Holds m P Q) {g : G κ ν} (hI : Inv g) (hP : P g) : Ok m g (Q g) := h g hI hP

theorem Holds.intro {α : Type} {m : Act κ ν α} {P : G κ ν → Prop} {Q : G κ ν → α → G κ ν → Prop}
    (h : ∀ g, Inv g → P g → Ok m g (Q g)) : Holds m P Q := h

theorem Ok.bind {α β : Type} {m : Act κ ν α} {f : α → Act κ ν β} {g : G κ ν} {Q1 : α → G κ ν → Prop}
    {Q : β → G κ ν → Prop} (hm : Ok m g Q1) (hf : ∀ a g1, Inv g1 → Q1 a g1 → Ok (f a) g1 Q) : Ok (m >>= f) g Q := by
  obtain ⟨hI1, hq⟩ := hm
  unfold Ok
  rw [bind_run]
  rcases hmg : m g with ⟨r, g1⟩
  rw [hmg] at hI1 hq
  cases r with
  | none => exact ⟨hI1, fun a ha => by simp at ha⟩
  | some a => exact hf a g1 hI1 (hq a rfl)

theorem Ok.pure {α : Type} {a : α} {g : G κ ν} {Q : α → G κ ν → Prop} (hI : Inv g) (h : Q a g) :
    Ok (pure a : Act κ ν α) g Q :=
  ⟨hI, fun b hb => by simp only [pure_run, Option.some.injEq] at hb; subst hb; exact h⟩

theorem Ok.mono {α : Type} {m : Act κ ν α} {g : G κ ν} {Q Q' : α → G κ ν → Prop} (h : Ok m g Q)
    (hq : ∀ a g', Inv g' → Q a g' → Q' a g') : Ok m g Q' :=
  ⟨h.1, fun a ha => hq a _ h.1 (h.2 a ha)⟩

theorem Ok.panic {α : Type} {g : G κ ν} {Q : α → G κ ν → Prop} (hI : Inv g) : Ok (panic : Act κ ν α) g Q :=
  ⟨hI, fun a ha => by simp [AG.panic] at ha⟩

theorem Ok.getG {g : G κ ν} (hI : Inv g) : Ok (getG : Act κ ν (G κ ν)) g (fun r g' => g = r ∧ g = g') :=
  (getG_spec.ok hI trivial).mono fun _ _ _ h => ⟨h.1.symm, h.2.symm⟩

/-- `Keeps` when nothing but bookkeeping fields changed -/
theorem Keeps.of_eq {g g' : G κ ν} (h : g' = g) : Keeps g g' [] := by subst h; exact Keeps.refl _

/-! ### the crate-internal primitives -/

theorem mapGet_spec (c : Nat) (k : κ) : Holds (mapGet c k : Act κ ν (Option Nat)) (fun _ => True)
    (fun g r g' => g'.pool = g.pool ∧ g'.idx = g.idx ∧ g'.cap = g.cap ∧ g'.p = g.p ∧ r = lookup k (g.idx c)) := by
  refine Holds.intro fun g hI _ => ?_
  unfold mapGet
  refine Ok.bind (userCall_spec.ok hI trivial) fun _ g1 hI1 h1 => ?_
  refine Ok.bind (Ok.getG hI1) fun g2 g3 hI3 h3 => ?_
  obtain ⟨rfl, rfl⟩ := h3
  exact Ok.pure hI3 ⟨h1.1, h1.2.1, h1.2.2.1, h1.2.2.2, by rw [h1.2.1]⟩

/-- a successful `map.get` names a node linked in that list -/
theorem lookup_linked {g : G κ ν} (hI : Inv g) {c : Nat} {k : κ} {i : Nat} (h : lookup k (g.idx c) = some i) :
    Has g i (.inL c) := indexed_linked hI (lookup_mem k _ i h)

theorem takeByKey_spec (c : Nat) (k : κ) : Holds (takeByKey c k : Act κ ν (Option Nat)) (fun _ => True)
    (fun g r g' => Keeps g g' [] ∧ g'.cap = g.cap ∧ g'.p = g.p ∧ (∀ i, r = some i → fl g' i ∧ ¬ fl g i)) := by
  refine Holds.intro fun g hI _ => ?_
  unfold takeByKey
  refine Ok.bind (userCall_spec.ok hI trivial) fun _ g1 hI1 h1 => ?_
  refine Ok.bind (Ok.getG hI1) fun g2 g3 hI3 h3 => ?_
  obtain ⟨rfl, rfl⟩ := h3
  have hk01 : Keeps g g1 [] := Keeps.of_pool h1.1
  cases hl : lookup k (g1.idx c) with
  | none =>
    exact Ok.pure hI3 ⟨hk01, h1.2.2.1, h1.2.2.2, fun i hi => by simp at hi⟩
  | some i =>
    simp only
    have hlk := lookup_linked hI3 hl
    have hmem := lookup_mem k _ i hl
    refine Ok.bind (unindexKey_spec c k |>.ok hI3 trivial) fun _ g4 hI4 h4 => ?_
    have hlk4 : Has g4 i (.inL c) := (Has_of_pool h4.1 i _).2 hlk
    have hni : ∀ k', (k', i) ∉ g4.idx c := by
      intro k' hc
      rw [h4.2.2.2] at hc
      have hk' := mem_unindex_ne k _ (hI3.keys_nd c) _ hc
      have := idx_id_key hI3 (mem_unindex k _ _ hc) hmem
      exact hk' this
    refine Ok.bind (unlinkNode_spec c i |>.ok hI4 ⟨hlk4, hni⟩) fun _ g5 hI5 h5 => ?_
    refine Ok.pure hI5 ⟨?_, ?_, ?_, ?_⟩
    · have := (hk01.trans (Keeps.of_pool h4.1)).trans h5.1
      simpa using this
    · rw [h5.2.2.2.2.1, h4.2.1, h1.2.2.1]
    · rw [h5.2.2.2.2.2, h4.2.2.1, h1.2.2.2]
    · intro j hj
      simp only [Option.some.injEq] at hj
      subst hj
      refine ⟨h5.2.1, fun hf => ?_⟩
      have : fl g4 i := (fl_of_pool h4.1 i).2 ((fl_of_pool h1.1 i).2 hf)
      exact h5.2.2.1 this


theorem Keeps.of_has {g g' : G κ ν} (h : ∀ j t, Has g j t → Has g' j t) : Keeps g g' [] := fun j hj _ => h j _ hj

/-- dropping an exception that was not in flight to begin with -/
theorem Keeps.drop {g g' : G κ ν} {i o : Nat} (h : Keeps g g' [i, o]) (ho : ¬ fl g o) : Keeps g g' [i] := by
  intro j hj hn
  refine h j hj ?_
  simp only [List.mem_cons, List.not_mem_nil, or_false, not_or] at hn ⊢
  exact ⟨hn, fun hc => ho (hc ▸ hj)⟩

theorem takeLru_spec (c : Nat) : Holds (takeLru c : Act κ ν (Option Nat)) (fun _ => True)
    (fun g r g' => Keeps g g' [] ∧ g'.cap = g.cap ∧ g'.p = g.p ∧ (∀ i, r = some i → fl g' i ∧ ¬ fl g i)) := by
  refine Holds.intro fun g hI _ => ?_
  unfold takeLru
  refine Ok.bind (Ok.getG hI) fun g1 g2 hI2 h => ?_
  obtain ⟨rfl, rfl⟩ := h
  by_cases he : (chain g c).isEmpty = true
  · simp only [he, if_true]
    exact Ok.pure hI ⟨Keeps.refl _, rfl, rfl, fun i hi => by simp at hi⟩
  · simp only [he, Bool.false_eq_true, if_false]
    have hne : chain g c ≠ [] := by intro hc; simp [hc] at he
    refine Ok.bind (lastKey_spec c |>.ok hI hne) fun k g3 hI3 h3 => ?_
    subst h3
    exact takeByKey_spec c k |>.ok hI3 trivial

theorem linkFront_spec (c i : Nat) : Holds (linkFront c i : Act κ ν Unit) (fun g => fl g i)
    (fun g _ g' => Keeps g g' [i] ∧ g'.cap = g.cap ∧ g'.p = g.p) := by
  refine Holds.intro fun g hI hf => ?_
  unfold linkFront
  refine Ok.bind (attach_spec c i |>.ok hI hf) fun _ g1 hI1 h1 => ?_
  refine Ok.bind (userCall_spec.ok hI1 trivial) fun _ g2 hI2 h2 => ?_
  have hl2 : Has g2 i (.inL c) := (Has_of_pool h2.1 i _).2 h1.2.1
  refine (indexNode_spec c i |>.ok hI2 hl2).mono fun _ g3 _ h3 => ?_
  refine ⟨?_, by rw [h3.2.1, h2.2.2.1, h1.2.2.2.1], by rw [h3.2.2, h2.2.2.2, h1.2.2.2.2]⟩
  have := (h1.1.trans (Keeps.of_pool h2.1)).trans (Keeps.of_pool h3.1)
  simpa using this

theorem putOrEvict_spec (c i : Nat) : Holds (putOrEvict c i : Act κ ν (Option Nat)) (fun g => fl g i)
    (fun g r g' => Keeps g g' [i] ∧ g'.cap = g.cap ∧ g'.p = g.p ∧ (∀ o, r = some o → fl g' o ∧ ¬ fl g o)) := by
  refine Holds.intro fun g hI hf => ?_
  unfold putOrEvict
  refine Ok.bind (Ok.getG hI) fun g1 g2 hI2 h => ?_
  obtain ⟨rfl, rfl⟩ := h
  by_cases hfull : len g c ≥ g.cap c
  · simp only [hfull, if_true]
    have hne : chain g c ≠ [] := by
      apply chain_ne_nil_of_idx hI
      intro hc
      have := hI.cap_pos c
      simp only [len, hc, List.length_nil] at hfull
      omega
    refine Ok.bind (lastKey_spec c |>.ok hI hne) fun k g3 hI3 h3 => ?_
    subst h3
    refine Ok.bind (takeByKey_spec c k |>.ok hI3 trivial) fun r g4 hI4 h4 => ?_
    cases r with
    | none => exact Ok.panic hI4
    | some old =>
      simp only
      obtain ⟨hfo, hnfo⟩ := h4.2.2.2 old rfl
      have hfi4 : fl g4 i := h4.1 i hf (by simp)
      have hne : old ≠ i := fun hc => hnfo (hc ▸ hf)
      refine Ok.bind (linkFront_spec c i |>.ok hI4 hfi4) fun _ g5 hI5 h5 => ?_
      refine Ok.pure hI5 ⟨?_, by rw [h5.2.1, h4.2.1], by rw [h5.2.2, h4.2.2.1], ?_⟩
      · have := h4.1.trans h5.1
        simpa using this
      · intro o ho
        simp only [Option.some.injEq] at ho
        subst ho
        exact ⟨h5.1 _ hfo (by simpa using hne), hnfo⟩
  · simp only [hfull, if_false]
    refine Ok.bind (linkFront_spec c i |>.ok hI hf) fun _ g5 hI5 h5 => ?_
    exact Ok.pure hI5 ⟨h5.1, h5.2.1, h5.2.2, fun o ho => by simp at ho⟩

theorem putNonnull_spec (c i : Nat) : Holds (putNonnull c i : Act κ ν (PutResult κ ν)) (fun g => fl g i)
    (fun g _ g' => Keeps g g' [i] ∧ g'.cap = g.cap ∧ g'.p = g.p) := by
  refine Holds.intro fun g hI hf => ?_
  unfold putNonnull
  refine Ok.bind (putOrEvict_spec c i |>.ok hI hf) fun r g1 hI1 h1 => ?_
  cases r with
  | none => exact Ok.pure hI1 ⟨h1.1, h1.2.1, h1.2.2.1⟩
  | some old =>
    simp only
    obtain ⟨hfo, hnfo⟩ := h1.2.2.2 old rfl
    refine Ok.bind (freeNode_spec old |>.ok hI1 hfo) fun kv g2 hI2 h2 => ?_
    refine Ok.pure hI2 ⟨?_, by rw [h2.2.2.1, h1.2.1], by rw [h2.2.2.2, h1.2.2.1]⟩
    exact (h1.1.trans h2.1).drop hnfo

theorem update_spec (c i : Nat) (v : ν) : Holds (update c i v : Act κ ν ν) (fun g => Has g i (.inL c))
    (fun g _ g' => Keeps g g' [] ∧ g'.cap = g.cap ∧ g'.p = g.p) := by
  refine Holds.intro fun g hI hl => ?_
  unfold update
  refine Ok.bind (swapVal_spec i v |>.ok hI ⟨_, hl⟩) fun old g1 hI1 h1 => ?_
  refine Ok.bind (moveFront_spec c i |>.ok hI1 (h1.1 _ _ hl)) fun _ g2 hI2 h2 => ?_
  refine Ok.pure hI2 ⟨?_, by rw [h2.2.2.1, h1.2.2.1], by rw [h2.2.2.2, h1.2.2.2]⟩
  have := (Keeps.of_has h1.1).trans h2.1
  simpa using this

theorem discard_spec (r : PutResult κ ν) : Holds (discard r : Act κ ν Unit) (fun _ => True)
    (fun g _ g' => Keeps g g' [] ∧ g'.cap = g.cap ∧ g'.p = g.p) := by
  refine Holds.intro fun g hI _ => ?_
  unfold discard
  cases r with
  | put => exact Ok.pure hI ⟨Keeps.refl _, rfl, rfl⟩
  | update o => exact (userCall_spec.ok hI trivial).mono fun _ _ _ h => ⟨Keeps.of_pool h.1, h.2.2.1, h.2.2.2⟩
  | evicted k v => exact (userCall_spec.ok hI trivial).mono fun _ _ _ h => ⟨Keeps.of_pool h.1, h.2.2.1, h.2.2.2⟩
  | evictedAndUpdate k v o =>
    exact (userCall_spec.ok hI trivial).mono fun _ _ _ h => ⟨Keeps.of_pool h.1, h.2.2.1, h.2.2.2⟩

theorem dropObj_spec : Holds (dropObj : Act κ ν Unit) (fun _ => True)
    (fun g _ g' => Keeps g g' [] ∧ g'.cap = g.cap ∧ g'.p = g.p) := by
  refine Holds.intro fun g hI _ => ?_
  exact (userCall_spec.ok hI trivial).mono fun _ _ _ h => ⟨Keeps.of_pool h.1, h.2.2.1, h.2.2.2⟩


/-- the standard postcondition of a whole operation: in-flight nodes untouched, capacities and `p` bookkeeping-only -/
def Std (g g' : G κ ν) : Prop := Keeps g g' [] ∧ g'.cap = g.cap
theorem Std.refl (g : G κ ν) : Std g g := ⟨Keeps.refl _, rfl⟩
theorem Std.trans {g g1 g2 : G κ ν} (h1 : Std g g1) (h2 : Std g1 g2) : Std g g2 :=
  ⟨by simpa using h1.1.trans h2.1, by rw [h2.2, h1.2]⟩
/-- consuming a node that was produced after `g` -/
theorem Std.consume {g g1 g2 : G κ ν} {i : Nat} (h1 : Keeps g g1 []) (hc1 : g1.cap = g.cap) (hn : ¬ fl g i)
    (h2 : Keeps g1 g2 [i]) (hc2 : g2.cap = g1.cap) : Std g g2 := by
  refine ⟨fun j hj _ => h2 j (h1 j hj (by simp)) ?_, by rw [hc2, hc1]⟩
  simp only [List.mem_singleton]
  exact fun hc => hn (hc ▸ hj)

theorem rawGet_spec (c : Nat) (k : κ) : Holds (rawGet c k : Act κ ν (Option Nat)) (fun _ => True)
    (fun g _ g' => Std g g') := by
  refine Holds.intro fun g hI _ => ?_
  unfold rawGet
  refine Ok.bind (mapGet_spec c k |>.ok hI trivial) fun r g1 hI1 h1 => ?_
  have hs1 : Std g g1 := ⟨Keeps.of_pool h1.1, h1.2.2.1⟩
  cases r with
  | none => exact Ok.pure hI1 hs1
  | some i =>
    simp only
    have hl : Has g1 i (.inL c) := by
      have : lookup k (g1.idx c) = some i := by rw [h1.2.1]; exact h1.2.2.2.2.symm
      exact lookup_linked hI1 this
    refine Ok.bind (moveFront_spec c i |>.ok hI1 hl) fun _ g2 hI2 h2 => ?_
    exact Ok.pure hI2 (hs1.trans ⟨h2.1, h2.2.2.1⟩)

theorem rawRemove_spec (c : Nat) (k : κ) : Holds (rawRemove c k : Act κ ν (Option ν)) (fun _ => True)
    (fun g _ g' => Std g g') := by
  refine Holds.intro fun g hI _ => ?_
  unfold rawRemove
  refine Ok.bind (takeByKey_spec c k |>.ok hI trivial) fun r g1 hI1 h1 => ?_
  cases r with
  | none => exact Ok.pure hI1 ⟨h1.1, h1.2.1⟩
  | some i =>
    simp only
    obtain ⟨hf, hnf⟩ := h1.2.2.2 i rfl
    refine Ok.bind (freeNode_spec i |>.ok hI1 hf) fun kv g2 hI2 h2 => ?_
    have hs2 : Std g g2 := Std.consume h1.1 h1.2.1 hnf h2.1 h2.2.2.1
    refine Ok.bind (dropObj_spec.ok hI2 trivial) fun _ g3 hI3 h3 => ?_
    exact Ok.pure hI3 (hs2.trans ⟨h3.1, h3.2.1⟩)

theorem rawRemoveLru_spec (c : Nat) : Holds (rawRemoveLru c : Act κ ν (Option (κ × ν))) (fun _ => True)
    (fun g _ g' => Std g g') := by
  refine Holds.intro fun g hI _ => ?_
  unfold rawRemoveLru
  refine Ok.bind (takeLru_spec c |>.ok hI trivial) fun r g1 hI1 h1 => ?_
  cases r with
  | none => exact Ok.pure hI1 ⟨h1.1, h1.2.1⟩
  | some i =>
    simp only
    obtain ⟨hf, hnf⟩ := h1.2.2.2 i rfl
    refine Ok.bind (freeNode_spec i |>.ok hI1 hf) fun kv g2 hI2 h2 => ?_
    exact Ok.pure hI2 (Std.consume h1.1 h1.2.1 hnf h2.1 h2.2.2.1)

theorem rawPurgeLoop_spec (c n : Nat) : Holds (rawPurgeLoop c n : Act κ ν Unit) (fun _ => True)
    (fun g _ g' => Std g g') := by
  induction n with
  | zero => exact Holds.intro fun g hI _ => Ok.pure hI (Std.refl g)
  | succ n ih =>
    refine Holds.intro fun g hI _ => ?_
    unfold rawPurgeLoop
    refine Ok.bind (rawRemoveLru_spec c |>.ok hI trivial) fun r g1 hI1 h1 => ?_
    cases r with
    | none => exact Ok.pure hI1 h1
    | some e =>
      simp only
      refine Ok.bind (dropObj_spec.ok hI1 trivial) fun _ g2 hI2 h2 => ?_
      exact (ih.ok hI2 trivial).mono fun _ g3 _ h3 => (h1.trans ⟨h2.1, h2.2.1⟩).trans h3

theorem rawPurge_spec (c : Nat) : Holds (rawPurge c : Act κ ν Unit) (fun _ => True) (fun g _ g' => Std g g') := by
  refine Holds.intro fun g hI _ => ?_
  unfold rawPurge
  refine Ok.bind (Ok.getG hI) fun g1 g2 hI2 h => ?_
  obtain ⟨rfl, rfl⟩ := h
  exact rawPurgeLoop_spec c _ |>.ok hI trivial

theorem rawPut_spec (c : Nat) (k : κ) (v : ν) : Holds (rawPut c k v : Act κ ν (PutResult κ ν)) (fun _ => True)
    (fun g _ g' => Std g g') := by
  refine Holds.intro fun g hI _ => ?_
  unfold rawPut
  refine Ok.bind (mapGet_spec c k |>.ok hI trivial) fun r g1 hI1 h1 => ?_
  have hs1 : Std g g1 := ⟨Keeps.of_pool h1.1, h1.2.2.1⟩
  cases r with
  | some i =>
    simp only
    have hl : Has g1 i (.inL c) := by
      have : lookup k (g1.idx c) = some i := by rw [h1.2.1]; exact h1.2.2.2.2.symm
      exact lookup_linked hI1 this
    refine Ok.bind (update_spec c i v |>.ok hI1 hl) fun old g2 hI2 h2 => ?_
    exact Ok.pure hI2 (hs1.trans ⟨h2.1, h2.2.1⟩)
  | none =>
    simp only
    refine Ok.bind (Ok.getG hI1) fun g2 g3 hI3 h => ?_
    obtain ⟨rfl, rfl⟩ := h
    have hcap := hI1.cap_pos c
    have h0 : ¬ g1.cap c = 0 := by omega
    simp only [h0, if_false]
    by_cases hfull : len g1 c = g1.cap c
    · simp only [hfull, if_true]
      have hne : chain g1 c ≠ [] := by
        apply chain_ne_nil_of_idx hI1
        intro hc
        simp only [len, hc, List.length_nil] at hfull
        omega
      refine Ok.bind (lastKey_spec c |>.ok hI1 hne) fun okey g4 hI4 h4 => ?_
      subst h4
      refine Ok.bind (takeByKey_spec c okey |>.ok hI4 trivial) fun r g5 hI5 h5 => ?_
      cases r with
      | none => exact Ok.panic hI5
      | some i =>
        simp only
        obtain ⟨hf, hnf⟩ := h5.2.2.2 i rfl
        refine Ok.bind (Ok.getG hI5) fun g6 g7 hI7 h => ?_
        obtain ⟨rfl, rfl⟩ := h
        obtain ⟨e, he, _, _, _⟩ := Has.entOf hI5 hf
        simp only [he]
        refine Ok.bind (setKV_spec g5 i k v |>.ok hI5 ⟨rfl, hf⟩) fun _ g8 hI8 h8 => ?_
        refine Ok.bind (linkFront_spec c i |>.ok hI8 h8.2.1) fun _ g9 hI9 h9 => ?_
        refine Ok.pure hI9 (hs1.trans ?_)
        have hk : Keeps g1 g8 [] := by simpa using h5.1.trans h8.1
        exact Std.consume hk (by rw [h8.2.2.2.1, h5.2.1]) hnf h9.1 h9.2.1
    · simp only [hfull, if_false]
      refine Ok.bind (alloc_spec k v |>.ok hI1 trivial) fun i g4 hI4 h4 => ?_
      refine Ok.bind (linkFront_spec c i |>.ok hI4 h4.2.1) fun _ g5 hI5 h5 => ?_
      exact Ok.pure hI5 (hs1.trans (Std.consume h4.1 h4.2.2.2.2.1 h4.2.2.1 h5.1 h5.2.1))


theorem reviveInto_spec (c ent : Nat) (v : ν) : Holds (reviveInto c ent v : Act κ ν ν) (fun g => fl g ent)
    (fun g _ g' => Keeps g g' [ent] ∧ g'.cap = g.cap) := by
  refine Holds.intro fun g hI hf => ?_
  unfold reviveInto
  refine Ok.bind (swapVal_spec ent v |>.ok hI ⟨_, hf⟩) fun old g1 hI1 h1 => ?_
  refine Ok.bind (putNonnull_spec c ent |>.ok hI1 (h1.1 _ _ hf)) fun pr g2 hI2 h2 => ?_
  refine Ok.bind (discard_spec pr |>.ok hI2 trivial) fun _ g3 hI3 h3 => ?_
  refine Ok.pure hI3 ⟨?_, by rw [h3.2.1, h2.2.1, h1.2.2.1]⟩
  have := ((Keeps.of_has h1.1).trans h2.1).trans h3.1
  simpa using this

theorem pickLru_spec (b : Prop) [Decidable b] (c0 c1 : Nat) :
    Holds (if b then takeLru c0 else takeLru c1 : Act κ ν (Option Nat)) (fun _ => True)
      (fun g r g' => Keeps g g' [] ∧ g'.cap = g.cap ∧ g'.p = g.p ∧ (∀ i, r = some i → fl g' i ∧ ¬ fl g i)) := by
  split
  · exact takeLru_spec c0
  · exact takeLru_spec c1

/-- a node produced after `g` and consumed again: the whole stretch is `Std` -/
theorem Std.of_keeps {g g' : G κ ν} (h : Keeps g g' []) (hc : g'.cap = g.cap) : Std g g' := ⟨h, hc⟩

/-! ### SegmentedCache -/
namespace Slru

theorem moveToProtected_spec (k : κ) : Holds (moveToProtected k : Act κ ν Bool) (fun _ => True) (fun g _ g' => Std g g') := by
  refine Holds.intro fun g hI _ => ?_
  unfold moveToProtected
  refine Ok.bind (takeByKey_spec 0 k |>.ok hI trivial) fun r g1 hI1 h1 => ?_
  cases r with
  | none => exact Ok.pure hI1 ⟨h1.1, h1.2.1⟩
  | some ent =>
    simp only
    obtain ⟨hf, hnf⟩ := h1.2.2.2 ent rfl
    refine Ok.bind (putOrEvict_spec 1 ent |>.ok hI1 hf) fun r2 g2 hI2 h2 => ?_
    have hs2 : Std g g2 := Std.consume h1.1 h1.2.1 hnf h2.1 h2.2.1
    cases r2 with
    | none => exact Ok.pure hI2 hs2
    | some old =>
      simp only
      obtain ⟨hfo, hnfo⟩ := h2.2.2.2 old rfl
      refine Ok.bind (putNonnull_spec 0 old |>.ok hI2 hfo) fun pr g3 hI3 h3 => ?_
      have hno : ¬ fl g old := fun hc => hnfo (h1.1 old hc (by simp))
      have hs3 : Std g g3 := Std.consume hs2.1 hs2.2 hno h3.1 h3.2.1
      refine Ok.bind (discard_spec pr |>.ok hI3 trivial) fun _ g4 hI4 h4 => ?_
      exact Ok.pure hI4 (hs3.trans ⟨h4.1, h4.2.1⟩)

theorem put_spec (k : κ) (v : ν) : Holds (put k v : Act κ ν (PutResult κ ν)) (fun _ => True) (fun g _ g' => Std g g') := by
  refine Holds.intro fun g hI _ => ?_
  unfold put
  refine Ok.bind (mapGet_spec 1 k |>.ok hI trivial) fun r g1 hI1 h1 => ?_
  have hs1 : Std g g1 := ⟨Keeps.of_pool h1.1, h1.2.2.1⟩
  cases r with
  | some i =>
    simp only
    have hl : Has g1 i (.inL 1) := by
      have : lookup k (g1.idx 1) = some i := by rw [h1.2.1]; exact h1.2.2.2.2.symm
      exact lookup_linked hI1 this
    refine Ok.bind (update_spec 1 i v |>.ok hI1 hl) fun old g2 hI2 h2 => ?_
    exact Ok.pure hI2 (hs1.trans ⟨h2.1, h2.2.1⟩)
  | none =>
    simp only
    refine Ok.bind (mapGet_spec 0 k |>.ok hI1 trivial) fun r2 g2 hI2 h2 => ?_
    have hs2 : Std g g2 := hs1.trans ⟨Keeps.of_pool h2.1, h2.2.2.1⟩
    cases r2 with
    | none => exact (rawPut_spec 0 k v |>.ok hI2 trivial).mono fun _ _ _ h => hs2.trans h
    | some _ =>
      simp only
      refine Ok.bind (takeByKey_spec 0 k |>.ok hI2 trivial) fun r3 g3 hI3 h3 => ?_
      cases r3 with
      | none => exact Ok.pure hI3 (hs2.trans ⟨h3.1, h3.2.1⟩)
      | some ent =>
        simp only
        obtain ⟨hf, hnf⟩ := h3.2.2.2 ent rfl
        refine Ok.bind (swapVal_spec ent v |>.ok hI3 ⟨_, hf⟩) fun old g4 hI4 h4 => ?_
        have hf4 : fl g4 ent := h4.1 _ _ hf
        refine Ok.bind (putOrEvict_spec 1 ent |>.ok hI4 hf4) fun r5 g5 hI5 h5 => ?_
        have hk24 : Keeps g2 g4 [] := by simpa using h3.1.trans (Keeps.of_has h4.1)
        have hs5 : Std g2 g5 := Std.consume hk24 (by rw [h4.2.2.1, h3.2.1]) hnf h5.1 h5.2.1
        cases r5 with
        | none => exact Ok.pure hI5 (hs2.trans hs5)
        | some demoted =>
          simp only
          obtain ⟨hfo, hnfo⟩ := h5.2.2.2 demoted rfl
          refine Ok.bind (putNonnull_spec 0 demoted |>.ok hI5 hfo) fun pr g6 hI6 h6 => ?_
          have hno : ¬ fl g2 demoted := fun hc => hnfo (hk24 demoted hc (by simp))
          have hs6 : Std g2 g6 := Std.consume hs5.1 hs5.2 hno h6.1 h6.2.1
          refine Ok.bind (discard_spec pr |>.ok hI6 trivial) fun _ g7 hI7 h7 => ?_
          exact Ok.pure hI7 ((hs2.trans hs6).trans ⟨h7.1, h7.2.1⟩)

theorem get_spec (k : κ) : Holds (get k : Act κ ν Bool) (fun _ => True) (fun g _ g' => Std g g') := by
  refine Holds.intro fun g hI _ => ?_
  unfold get
  refine Ok.bind (rawGet_spec 1 k |>.ok hI trivial) fun r g1 hI1 h1 => ?_
  cases r with
  | some _ => exact Ok.pure hI1 h1
  | none =>
    simp only
    refine Ok.bind (mapGet_spec 0 k |>.ok hI1 trivial) fun r2 g2 hI2 h2 => ?_
    have hs2 : Std g g2 := h1.trans ⟨Keeps.of_pool h2.1, h2.2.2.1⟩
    cases r2 with
    | none => exact Ok.pure hI2 hs2
    | some _ => exact (moveToProtected_spec k |>.ok hI2 trivial).mono fun _ _ _ h => hs2.trans h

theorem putProtected_spec (k : κ) (v : ν) : Holds (putProtected k v : Act κ ν (PutResult κ ν)) (fun _ => True)
    (fun g _ g' => Std g g') := by
  refine Holds.intro fun g hI _ => ?_
  unfold putProtected
  refine Ok.bind (rawRemove_spec 0 k |>.ok hI trivial) fun r g1 hI1 h1 => ?_
  cases r with
  | none => exact (rawPut_spec 1 k v |>.ok hI1 trivial).mono fun _ _ _ h => h1.trans h
  | some old =>
    simp only
    refine Ok.bind (rawPut_spec 1 k v |>.ok hI1 trivial) fun pr g2 hI2 h2 => ?_
    cases pr <;> exact Ok.pure hI2 (h1.trans h2)

theorem remove_spec (k : κ) : Holds (remove k : Act κ ν (Option ν)) (fun _ => True) (fun g _ g' => Std g g') := by
  refine Holds.intro fun g hI _ => ?_
  unfold remove
  refine Ok.bind (rawRemove_spec 0 k |>.ok hI trivial) fun r g1 hI1 h1 => ?_
  cases r with
  | some v => exact Ok.pure hI1 h1
  | none => exact (rawRemove_spec 1 k |>.ok hI1 trivial).mono fun _ _ _ h => h1.trans h

theorem purge_spec : Holds (purge : Act κ ν Unit) (fun _ => True) (fun g _ g' => Std g g') := by
  refine Holds.intro fun g hI _ => ?_
  unfold purge
  refine Ok.bind (rawPurge_spec 0 |>.ok hI trivial) fun _ g1 hI1 h1 => ?_
  exact (rawPurge_spec 1 |>.ok hI1 trivial).mono fun _ _ _ h => h1.trans h

end Slru


/-! ### TwoQueueCache -/
namespace TwoQ

theorem moveToFrequent_spec (k : κ) : Holds (moveToFrequent k : Act κ ν Bool) (fun _ => True) (fun g _ g' => Std g g') := by
  refine Holds.intro fun g hI _ => ?_
  unfold moveToFrequent
  refine Ok.bind (takeByKey_spec 0 k |>.ok hI trivial) fun r g1 hI1 h1 => ?_
  cases r with
  | none => exact Ok.pure hI1 ⟨h1.1, h1.2.1⟩
  | some ent =>
    simp only
    obtain ⟨hf, hnf⟩ := h1.2.2.2 ent rfl
    refine Ok.bind (putOrEvict_spec 1 ent |>.ok hI1 hf) fun r2 g2 hI2 h2 => ?_
    exact Ok.pure hI2 (Std.consume h1.1 h1.2.1 hnf h2.1 h2.2.1)

theorem put_spec (q : Params) (k : κ) (v : ν) : Holds (put q k v : Act κ ν (PutResult κ ν)) (fun _ => True)
    (fun g _ g' => Std g g') := by
  refine Holds.intro fun g hI _ => ?_
  unfold put
  refine Ok.bind (mapGet_spec 1 k |>.ok hI trivial) fun r g1 hI1 h1 => ?_
  have hs1 : Std g g1 := ⟨Keeps.of_pool h1.1, h1.2.2.1⟩
  cases r with
  | some i =>
    simp only
    have hl : Has g1 i (.inL 1) := by
      have : lookup k (g1.idx 1) = some i := by rw [h1.2.1]; exact h1.2.2.2.2.symm
      exact lookup_linked hI1 this
    refine Ok.bind (update_spec 1 i v |>.ok hI1 hl) fun old g2 hI2 h2 => ?_
    exact Ok.pure hI2 (hs1.trans ⟨h2.1, h2.2.1⟩)
  | none =>
    simp only
    refine Ok.bind (takeByKey_spec 0 k |>.ok hI1 trivial) fun r2 g2 hI2 h2 => ?_
    cases r2 with
    | some ent =>
      simp only
      obtain ⟨hf, hnf⟩ := h2.2.2.2 ent rfl
      refine Ok.bind (reviveInto_spec 1 ent v |>.ok hI2 hf) fun old g3 hI3 h3 => ?_
      exact Ok.pure hI3 (hs1.trans (Std.consume h2.1 h2.2.1 hnf h3.1 h3.2))
    | none =>
      simp only
      have hs2 : Std g g2 := hs1.trans ⟨h2.1, h2.2.1⟩
      refine Ok.bind (Ok.getG hI2) fun g3 g4 hI4 h => ?_
      obtain ⟨rfl, rfl⟩ := h
      refine Ok.bind (mapGet_spec 2 k |>.ok hI2 trivial) fun r3 g3 hI3 h3 => ?_
      have hs3 : Std g g3 := hs2.trans ⟨Keeps.of_pool h3.1, h3.2.2.1⟩
      cases r3 with
      | some _ =>
        simp only
        split
        · -- the cache is full: a victim goes to the ghost list first
          refine Ok.bind (pickLru_spec _ 0 1 |>.ok hI3 trivial) fun victim g4 hI4 h4 => ?_
          cases victim with
          | none => exact Ok.panic hI4
          | some ent =>
            simp only
            obtain ⟨hfe, hnfe⟩ := h4.2.2.2 ent rfl
            refine Ok.bind (putOrEvict_spec 2 ent |>.ok hI4 hfe) fun rst g5 hI5 h5 => ?_
            have hs5 : Std g3 g5 := Std.consume h4.1 h4.2.1 hnfe h5.1 h5.2.1
            refine Ok.bind (takeByKey_spec 2 k |>.ok hI5 trivial) fun r6 g6 hI6 h6 => ?_
            have hs6 : Std g3 g6 := hs5.trans ⟨h6.1, h6.2.1⟩
            cases r6 with
            | none =>
              simp only
              cases rst with
              | none => exact Ok.pure hI6 (hs3.trans hs6)
              | some gent =>
                simp only
                obtain ⟨hfg, hnfg⟩ := h5.2.2.2 gent rfl
                have hfg6 : fl g6 gent := h6.1 gent hfg (by simp)
                refine Ok.bind (reviveInto_spec 1 gent v |>.ok hI6 hfg6) fun old g7 hI7 h7 => ?_
                have hno : ¬ fl g3 gent := fun hc => hnfg (h4.1 gent hc (by simp))
                exact Ok.pure hI7 (hs3.trans (Std.consume hs6.1 hs6.2 hno h7.1 h7.2))
            | some gent =>
              simp only
              obtain ⟨hfg, hnfg⟩ := h6.2.2.2 gent rfl
              refine Ok.bind (reviveInto_spec 1 gent v |>.ok hI6 hfg) fun old g7 hI7 h7 => ?_
              have hno : ¬ fl g3 gent := fun hc => hnfg (hs5.1 gent hc (by simp))
              have hs7 : Std g3 g7 := Std.consume hs6.1 hs6.2 hno h7.1 h7.2
              cases rst with
              | none => exact Ok.pure hI7 (hs3.trans hs7)
              | some ev =>
                simp only
                obtain ⟨hfv, hnfv⟩ := h5.2.2.2 ev rfl
                -- the displaced ghost node is still owned by the frame: it is not the node just revived
                have hne : ev ≠ gent := fun hc => hnfg (hc ▸ hfv)
                have hfv7 : fl g7 ev := h7.1 ev (h6.1 ev hfv (by simp)) (by simpa using hne)
                refine Ok.bind (freeNode_spec ev |>.ok hI7 hfv7) fun kv g8 hI8 h8 => ?_
                have hnov : ¬ fl g3 ev := fun hc => hnfv (h4.1 ev hc (by simp))
                exact Ok.pure hI8 (hs3.trans (Std.consume hs7.1 hs7.2 hnov h8.1 h8.2.2.1))
        · refine Ok.bind (takeByKey_spec 2 k |>.ok hI3 trivial) fun r6 g6 hI6 h6 => ?_
          cases r6 with
          | none => exact Ok.panic hI6
          | some gent =>
            simp only
            obtain ⟨hfg, hnfg⟩ := h6.2.2.2 gent rfl
            refine Ok.bind (reviveInto_spec 1 gent v |>.ok hI6 hfg) fun old g7 hI7 h7 => ?_
            exact Ok.pure hI7 (hs3.trans (Std.consume h6.1 h6.2.1 hnfg h7.1 h7.2))
      | none =>
        simp only
        refine Ok.bind (alloc_spec k v |>.ok hI3 trivial) fun bks g4 hI4 h4 => ?_
        obtain ⟨hk4, hfb, hnfb, -, hc4, -⟩ := h4
        split
        · refine Ok.bind (putOrEvict_spec 0 bks |>.ok hI4 hfb) fun r5 g5 hI5 h5 => ?_
          have hs5 : Std g3 g5 := Std.consume hk4 hc4 hnfb h5.1 h5.2.1
          cases r5 with
          | none => exact Ok.pure hI5 (hs3.trans hs5)
          | some evicted =>
            simp only
            obtain ⟨hfe, hnfe⟩ := h5.2.2.2 evicted rfl
            have hno : ¬ fl g3 evicted := fun hc => hnfe (hk4 evicted hc (by simp))
            exact (putNonnull_spec 2 evicted |>.ok hI5 hfe).mono fun _ g6 _ h6 =>
              hs3.trans (Std.consume hs5.1 hs5.2 hno h6.1 h6.2.1)
        · refine Ok.bind (pickLru_spec _ 0 1 |>.ok hI4 trivial) fun victim g5 hI5 h5 => ?_
          cases victim with
          | none => exact Ok.panic hI5
          | some ent =>
            simp only
            obtain ⟨hfe, hnfe⟩ := h5.2.2.2 ent rfl
            have hfb5 : fl g5 bks := h5.1 bks hfb (by simp)
            have hne : ent ≠ bks := fun hc => hnfe (hc ▸ hfb)
            refine Ok.bind (putNonnull_spec 0 bks |>.ok hI5 hfb5) fun pr g6 hI6 h6 => ?_
            have hk35 : Keeps g3 g5 [] := by simpa using hk4.trans h5.1
            have hs6 : Std g3 g6 := Std.consume hk35 (by rw [h5.2.1, hc4]) hnfb h6.1 h6.2.1
            have hfe6 : fl g6 ent := h6.1 ent hfe (by simpa using hne)
            refine Ok.bind (discard_spec pr |>.ok hI6 trivial) fun _ g7 hI7 h7 => ?_
            have hfe7 : fl g7 ent := h7.1 ent hfe6 (by simp)
            have hs7 : Std g3 g7 := hs6.trans ⟨h7.1, h7.2.1⟩
            have hno : ¬ fl g3 ent := fun hc => hnfe (hk4 ent hc (by simp))
            exact (putNonnull_spec 2 ent |>.ok hI7 hfe7).mono fun _ g8 _ h8 =>
              hs3.trans (Std.consume hs7.1 hs7.2 hno h8.1 h8.2.1)

theorem get_spec (k : κ) : Holds (get k : Act κ ν Bool) (fun _ => True) (fun g _ g' => Std g g') := by
  refine Holds.intro fun g hI _ => ?_
  unfold get
  refine Ok.bind (rawGet_spec 1 k |>.ok hI trivial) fun r g1 hI1 h1 => ?_
  cases r with
  | some _ => exact Ok.pure hI1 h1
  | none =>
    simp only
    refine Ok.bind (mapGet_spec 0 k |>.ok hI1 trivial) fun r2 g2 hI2 h2 => ?_
    have hs2 : Std g g2 := h1.trans ⟨Keeps.of_pool h2.1, h2.2.2.1⟩
    cases r2 with
    | none => exact Ok.pure hI2 hs2
    | some _ => exact (moveToFrequent_spec k |>.ok hI2 trivial).mono fun _ _ _ h => hs2.trans h

theorem remove_spec (k : κ) : Holds (remove k : Act κ ν (Option ν)) (fun _ => True) (fun g _ g' => Std g g') := by
  refine Holds.intro fun g hI _ => ?_
  unfold remove
  refine Ok.bind (rawRemove_spec 1 k |>.ok hI trivial) fun r g1 hI1 h1 => ?_
  cases r with
  | some v => exact Ok.pure hI1 h1
  | none =>
    simp only
    refine Ok.bind (rawRemove_spec 0 k |>.ok hI1 trivial) fun r2 g2 hI2 h2 => ?_
    cases r2 with
    | some v => exact Ok.pure hI2 (h1.trans h2)
    | none => exact (rawRemove_spec 2 k |>.ok hI2 trivial).mono fun _ _ _ h => (h1.trans h2).trans h

theorem purge_spec : Holds (purge : Act κ ν Unit) (fun _ => True) (fun g _ g' => Std g g') := by
  refine Holds.intro fun g hI _ => ?_
  unfold purge
  refine Ok.bind (rawPurge_spec 1 |>.ok hI trivial) fun _ g1 hI1 h1 => ?_
  refine Ok.bind (rawPurge_spec 0 |>.ok hI1 trivial) fun _ g2 hI2 h2 => ?_
  exact (rawPurge_spec 2 |>.ok hI2 trivial).mono fun _ _ _ h => (h1.trans h2).trans h

end TwoQ


/-! ### AdaptiveCache -/
namespace Arc

theorem whenA_spec (b : Bool) (m : Act κ ν Unit) (hm : Holds m (fun _ => True) (fun g _ g' => Std g g')) :
    Holds (whenA b m : Act κ ν Unit) (fun _ => True) (fun g _ g' => Std g g') := by
  unfold whenA
  split
  · exact hm
  · exact Holds.intro fun g hI _ => Ok.pure hI (Std.refl g)

theorem whenPanic_spec (b : Bool) :
    Holds (whenA b panic : Act κ ν Unit) (fun _ => True) (fun g _ g' => g = g') := by
  unfold whenA
  split
  · exact Holds.panic
  · exact Holds.intro fun g hI _ => Ok.pure hI rfl

theorem trimGhost_spec (c : Nat) : Holds (trimGhost c : Act κ ν Unit) (fun _ => True) (fun g _ g' => Std g g') := by
  refine Holds.intro fun g hI _ => ?_
  unfold trimGhost
  refine Ok.bind (rawRemoveLru_spec c |>.ok hI trivial) fun r g1 hI1 h1 => ?_
  split
  · exact (dropObj_spec.ok hI1 trivial).mono fun _ _ _ h => h1.trans ⟨h.1, h.2.1⟩
  · exact Ok.pure hI1 h1

theorem setP_spec (p : Nat) : Holds (setP p : Act κ ν Unit) (fun _ => True)
    (fun g _ g' => g'.pool = g.pool ∧ g'.idx = g.idx ∧ g'.cap = g.cap) := by
  intro g hI _
  exact ⟨hI.of_same rfl rfl rfl rfl rfl, fun _ _ => ⟨rfl, rfl, rfl⟩⟩

theorem replace_spec (b : Bool) : Holds (replace b : Act κ ν Unit) (fun _ => True) (fun g _ g' => Std g g') := by
  refine Holds.intro fun g hI _ => ?_
  unfold replace
  refine Ok.bind (Ok.getG hI) fun g1 g2 hI2 h => ?_
  obtain ⟨rfl, rfl⟩ := h
  simp only
  split
  · refine Ok.bind (takeLru_spec 0 |>.ok hI trivial) fun r g1 hI1 h1 => ?_
    cases r with
    | none => exact Ok.pure hI1 ⟨h1.1, h1.2.1⟩
    | some ent =>
      simp only
      obtain ⟨hf, hnf⟩ := h1.2.2.2 ent rfl
      refine Ok.bind (putNonnull_spec 2 ent |>.ok hI1 hf) fun pr g2 hI2 h2 => ?_
      have hs2 : Std g g2 := Std.consume h1.1 h1.2.1 hnf h2.1 h2.2.1
      refine Ok.bind (discard_spec pr |>.ok hI2 trivial) fun _ g3 hI3 h3 => ?_
      exact Ok.pure hI3 (hs2.trans ⟨h3.1, h3.2.1⟩)
  · refine Ok.bind (takeLru_spec 1 |>.ok hI trivial) fun r g1 hI1 h1 => ?_
    cases r with
    | none => exact Ok.pure hI1 ⟨h1.1, h1.2.1⟩
    | some ent =>
      simp only
      obtain ⟨hf, hnf⟩ := h1.2.2.2 ent rfl
      refine Ok.bind (putNonnull_spec 3 ent |>.ok hI1 hf) fun pr g2 hI2 h2 => ?_
      have hs2 : Std g g2 := Std.consume h1.1 h1.2.1 hnf h2.1 h2.2.1
      refine Ok.bind (discard_spec pr |>.ok hI2 trivial) fun _ g3 hI3 h3 => ?_
      exact Ok.pure hI3 (hs2.trans ⟨h3.1, h3.2.1⟩)

theorem moveToFrequent_spec (k : κ) : Holds (moveToFrequent k : Act κ ν Bool) (fun _ => True) (fun g _ g' => Std g g') := by
  refine Holds.intro fun g hI _ => ?_
  unfold moveToFrequent
  refine Ok.bind (takeByKey_spec 0 k |>.ok hI trivial) fun r g1 hI1 h1 => ?_
  cases r with
  | none => exact Ok.pure hI1 ⟨h1.1, h1.2.1⟩
  | some ent =>
    simp only
    obtain ⟨hf, hnf⟩ := h1.2.2.2 ent rfl
    refine Ok.bind (putNonnull_spec 1 ent |>.ok hI1 hf) fun pr g2 hI2 h2 => ?_
    have hs2 : Std g g2 := Std.consume h1.1 h1.2.1 hnf h2.1 h2.2.1
    refine Ok.bind (discard_spec pr |>.ok hI2 trivial) fun _ g3 hI3 h3 => ?_
    exact Ok.pure hI3 (hs2.trans ⟨h3.1, h3.2.1⟩)

/-- the tail shared by both ghost-hit branches: the ghost node `ent` is owned by the frame while `replace` runs -/
theorem ghostTail (b : Bool) (c : Bool) (ent : Nat) (v : ν) (g0 g : G κ ν) (hI : Inv g)
    (hf : fl g ent) (hnf : ¬ fl g0 ent) (hk : Keeps g0 g []) (hc : g.cap = g0.cap) :
    Ok (do
        whenA c (replace b)
        let old ← reviveInto 1 ent v
        pure (PutResult.update old) : Act κ ν (PutResult κ ν)) g (fun _ g' => Std g0 g') := by
  refine Ok.bind (whenA_spec c (replace b) (replace_spec b) |>.ok hI trivial) fun _ g1 hI1 h1 => ?_
  have hf1 : fl g1 ent := h1.1 ent hf (by simp)
  refine Ok.bind (reviveInto_spec 1 ent v |>.ok hI1 hf1) fun old g2 hI2 h2 => ?_
  have hk1 : Keeps g0 g1 [] := by simpa using hk.trans h1.1
  exact Ok.pure hI2 (Std.consume hk1 (by rw [h1.2, hc]) hnf h2.1 h2.2)

theorem put_spec (size : Nat) (k : κ) (v : ν) : Holds (put size k v : Act κ ν (PutResult κ ν)) (fun _ => True)
    (fun g _ g' => Std g g') := by
  refine Holds.intro fun g hI _ => ?_
  unfold put
  refine Ok.bind (takeByKey_spec 0 k |>.ok hI trivial) fun r g1 hI1 h1 => ?_
  cases r with
  | some ent =>
    simp only
    obtain ⟨hf, hnf⟩ := h1.2.2.2 ent rfl
    refine Ok.bind (reviveInto_spec 1 ent v |>.ok hI1 hf) fun old g2 hI2 h2 => ?_
    exact Ok.pure hI2 (Std.consume h1.1 h1.2.1 hnf h2.1 h2.2)
  | none =>
    simp only
    have hs1 : Std g g1 := ⟨h1.1, h1.2.1⟩
    refine Ok.bind (mapGet_spec 1 k |>.ok hI1 trivial) fun r2 g2 hI2 h2 => ?_
    have hs2 : Std g g2 := hs1.trans ⟨Keeps.of_pool h2.1, h2.2.2.1⟩
    cases r2 with
    | some i =>
      simp only
      have hl : Has g2 i (.inL 1) := by
        have : lookup k (g2.idx 1) = some i := by rw [h2.2.1]; exact h2.2.2.2.2.symm
        exact lookup_linked hI2 this
      refine Ok.bind (update_spec 1 i v |>.ok hI2 hl) fun old g3 hI3 h3 => ?_
      exact Ok.pure hI3 (hs2.trans ⟨h3.1, h3.2.1⟩)
    | none =>
      simp only
      refine Ok.bind (Ok.getG hI2) fun g3 g4 hI4 h => ?_
      obtain ⟨rfl, rfl⟩ := h
      refine Ok.bind (mapGet_spec 2 k |>.ok hI2 trivial) fun r3 g3 hI3 h3 => ?_
      have hs3 : Std g g3 := hs2.trans ⟨Keeps.of_pool h3.1, h3.2.2.1⟩
      cases r3 with
      | some _ =>
        simp only
        refine Ok.bind (whenPanic_spec _ |>.ok hI3 trivial) fun _ g4 hI4 h4 => ?_
        subst h4
        refine Ok.bind (setP_spec _ |>.ok hI3 trivial) fun _ g5 hI5 h5 => ?_
        have hs5 : Std g g5 := hs3.trans ⟨Keeps.of_pool h5.1, h5.2.2⟩
        refine Ok.bind (takeByKey_spec 2 k |>.ok hI5 trivial) fun r6 g6 hI6 h6 => ?_
        cases r6 with
        | none => exact Ok.panic hI6
        | some ent =>
          simp only
          obtain ⟨hf, hnf⟩ := h6.2.2.2 ent rfl
          refine Ok.bind (Ok.getG hI6) fun g7 g8 hI8 h => ?_
          obtain ⟨rfl, rfl⟩ := h
          exact (ghostTail false _ ent v g5 g6 hI6 hf hnf h6.1 h6.2.1).mono fun _ _ _ h => hs5.trans h
      | none =>
        simp only
        refine Ok.bind (mapGet_spec 3 k |>.ok hI3 trivial) fun r4 g4 hI4 h4 => ?_
        have hs4 : Std g g4 := hs3.trans ⟨Keeps.of_pool h4.1, h4.2.2.1⟩
        cases r4 with
        | some _ =>
          simp only
          refine Ok.bind (whenPanic_spec _ |>.ok hI4 trivial) fun _ g5 hI5 h5 => ?_
          subst h5
          refine Ok.bind (setP_spec _ |>.ok hI4 trivial) fun _ g5 hI5 h5 => ?_
          have hs5 : Std g g5 := hs4.trans ⟨Keeps.of_pool h5.1, h5.2.2⟩
          refine Ok.bind (takeByKey_spec 3 k |>.ok hI5 trivial) fun r6 g6 hI6 h6 => ?_
          cases r6 with
          | none => exact Ok.panic hI6
          | some ent =>
            simp only
            obtain ⟨hf, hnf⟩ := h6.2.2.2 ent rfl
            exact (ghostTail true _ ent v g5 g6 hI6 hf hnf h6.1 h6.2.1).mono fun _ _ _ h => hs5.trans h
        | none =>
          simp only
          refine Ok.bind (whenA_spec _ (replace false) (replace_spec false) |>.ok hI4 trivial) fun _ g5 hI5 h5 => ?_
          refine Ok.bind (Ok.getG hI5) fun g6 g7 hI7 h => ?_
          obtain ⟨rfl, rfl⟩ := h
          refine Ok.bind (whenA_spec _ _ (trimGhost_spec 2) |>.ok hI5 trivial) fun _ g6 hI6 h6 => ?_
          refine Ok.bind (whenA_spec _ _ (trimGhost_spec 3) |>.ok hI6 trivial) fun _ g7 hI7 h7 => ?_
          exact (rawPut_spec 0 k v |>.ok hI7 trivial).mono fun _ _ _ h => (((hs4.trans h5).trans h6).trans h7).trans h

theorem get_spec (k : κ) : Holds (get k : Act κ ν Bool) (fun _ => True) (fun g _ g' => Std g g') := by
  refine Holds.intro fun g hI _ => ?_
  unfold get
  refine Ok.bind (mapGet_spec 0 k |>.ok hI trivial) fun r g1 hI1 h1 => ?_
  have hs1 : Std g g1 := ⟨Keeps.of_pool h1.1, h1.2.2.1⟩
  cases r with
  | some _ => exact (moveToFrequent_spec k |>.ok hI1 trivial).mono fun _ _ _ h => hs1.trans h
  | none =>
    simp only
    refine Ok.bind (rawGet_spec 1 k |>.ok hI1 trivial) fun r2 g2 hI2 h2 => ?_
    cases r2 <;> exact Ok.pure hI2 (hs1.trans h2)

theorem remove_spec (k : κ) : Holds (remove k : Act κ ν (Option ν)) (fun _ => True) (fun g _ g' => Std g g') := by
  refine Holds.intro fun g hI _ => ?_
  unfold remove
  refine Ok.bind (rawRemove_spec 0 k |>.ok hI trivial) fun r g1 hI1 h1 => ?_
  cases r with
  | some v => exact Ok.pure hI1 h1
  | none =>
    simp only
    refine Ok.bind (rawRemove_spec 1 k |>.ok hI1 trivial) fun r2 g2 hI2 h2 => ?_
    cases r2 with
    | some v => exact Ok.pure hI2 (h1.trans h2)
    | none =>
      simp only
      refine Ok.bind (rawRemove_spec 2 k |>.ok hI2 trivial) fun r3 g3 hI3 h3 => ?_
      cases r3 with
      | some v => exact Ok.pure hI3 ((h1.trans h2).trans h3)
      | none => exact (rawRemove_spec 3 k |>.ok hI3 trivial).mono fun _ _ _ h => ((h1.trans h2).trans h3).trans h

theorem purge_spec : Holds (purge : Act κ ν Unit) (fun _ => True) (fun g _ g' => Std g g') := by
  refine Holds.intro fun g hI _ => ?_
  unfold purge
  refine Ok.bind (rawPurge_spec 0 |>.ok hI trivial) fun _ g1 hI1 h1 => ?_
  refine Ok.bind (rawPurge_spec 1 |>.ok hI1 trivial) fun _ g2 hI2 h2 => ?_
  refine Ok.bind (rawPurge_spec 2 |>.ok hI2 trivial) fun _ g3 hI3 h3 => ?_
  exact (rawPurge_spec 3 |>.ok hI3 trivial).mono fun _ _ _ h => ((h1.trans h2).trans h3).trans h

end Arc


/-! ### WTinyLFUCache -/
namespace Wt

theorem userCall_std : Holds (userCall : Act κ ν Unit) (fun _ => True) (fun g _ g' => Std g g') :=
  Holds.conseq userCall_spec (fun _ _ _ => trivial) (fun _ _ _ _ _ _ h => ⟨Keeps.of_pool h.1, h.2.2.1⟩)

theorem slruContains_spec (k : κ) : Holds (slruContains k : Act κ ν Bool) (fun _ => True) (fun g _ g' => Std g g') := by
  refine Holds.intro fun g hI _ => ?_
  unfold slruContains
  refine Ok.bind (mapGet_spec 1 k |>.ok hI trivial) fun r g1 hI1 h1 => ?_
  have hs1 : Std g g1 := ⟨Keeps.of_pool h1.1, h1.2.2.1⟩
  cases r with
  | some _ => exact Ok.pure hI1 hs1
  | none =>
    simp only
    refine Ok.bind (mapGet_spec 0 k |>.ok hI1 trivial) fun r2 g2 hI2 h2 => ?_
    have hs2 : Std g g2 := hs1.trans ⟨Keeps.of_pool h2.1, h2.2.2.1⟩
    cases r2 <;> exact Ok.pure hI2 hs2

theorem discard_std (r : PutResult κ ν) : Holds (discard r : Act κ ν Unit) (fun _ => True) (fun g _ g' => Std g g') :=
  Holds.conseq (discard_spec r) (fun _ _ _ => trivial) (fun _ _ _ _ _ _ h => ⟨h.1, h.2.1⟩)

theorem put_spec (b : Bool) (k : κ) (v : ν) : Holds (put b k v : Act κ ν (PutResult κ ν)) (fun _ => True)
    (fun g _ g' => Std g g') := by
  refine Holds.intro fun g hI _ => ?_
  unfold put
  refine Ok.bind (rawRemove_spec 2 k |>.ok hI trivial) fun r g1 hI1 h1 => ?_
  cases r with
  | none =>
    simp only
    refine Ok.bind (slruContains_spec k |>.ok hI1 trivial) fun c g2 hI2 h2 => ?_
    have hs2 := h1.trans h2
    split
    · exact (Slru.put_spec k v |>.ok hI2 trivial).mono fun _ _ _ h => hs2.trans h
    · refine Ok.bind (rawPut_spec 2 k v |>.ok hI2 trivial) fun pr g3 hI3 h3 => ?_
      have hs3 := hs2.trans h3
      cases pr with
      | put => exact Ok.pure hI3 hs3
      | update o => exact Ok.pure hI3 hs3
      | evictedAndUpdate a b c => exact Ok.pure hI3 hs3
      | evicted ek ev =>
        simp only
        refine Ok.bind (Ok.getG hI3) fun g4 g5 hI5 h => ?_
        obtain ⟨rfl, rfl⟩ := h
        split
        · exact (Slru.put_spec ek ev |>.ok hI3 trivial).mono fun _ _ _ h => hs3.trans h
        · split
          · exact (Slru.put_spec ek ev |>.ok hI3 trivial).mono fun _ _ _ h => hs3.trans h
          · refine Ok.bind (userCall_std.ok hI3 trivial) fun _ g4 hI4 h4 => ?_
            have hs4 := hs3.trans h4
            split
            · exact Ok.pure hI4 hs4
            · exact (Slru.put_spec ek ev |>.ok hI4 trivial).mono fun _ _ _ h => hs4.trans h
  | some old =>
    simp only
    refine Ok.bind (Ok.getG hI1) fun g2 g3 hI3 h => ?_
    obtain ⟨rfl, rfl⟩ := h
    have tail : ∀ g2 : G κ ν, Inv g2 → Std g g2 →
        Ok (do discard (← Slru.putProtected k v); pure (PutResult.update old) : Act κ ν (PutResult κ ν)) g2
          (fun _ g' => Std g g') := by
      intro g2 hI2 hs2
      refine Ok.bind (Slru.putProtected_spec k v |>.ok hI2 trivial) fun pr g3 hI3 h3 => ?_
      refine Ok.bind (discard_std pr |>.ok hI3 trivial) fun _ g4 hI4 h4 => ?_
      exact Ok.pure hI4 ((hs2.trans h3).trans h4)
    split
    · refine Ok.bind (rawRemoveLru_spec 1 |>.ok hI1 trivial) fun r2 g2 hI2 h2 => ?_
      cases r2 with
      | none => exact Ok.panic hI2
      | some e =>
        obtain ⟨ek, ev⟩ := e
        simp only
        refine Ok.bind (rawPut_spec 2 ek ev |>.ok hI2 trivial) fun pr g3 hI3 h3 => ?_
        refine Ok.bind (discard_std pr |>.ok hI3 trivial) fun _ g4 hI4 h4 => ?_
        exact tail g4 hI4 (((h1.trans h2).trans h3).trans h4)
    · exact tail g1 hI1 h1

theorem get_spec (k : κ) : Holds (get k : Act κ ν Bool) (fun _ => True) (fun g _ g' => Std g g') := by
  refine Holds.intro fun g hI _ => ?_
  unfold get
  refine Ok.bind (userCall_std.ok hI trivial) fun _ g1 hI1 h1 => ?_
  refine Ok.bind (rawGet_spec 2 k |>.ok hI1 trivial) fun r g2 hI2 h2 => ?_
  cases r with
  | some _ => exact Ok.pure hI2 (h1.trans h2)
  | none => exact (Slru.get_spec k |>.ok hI2 trivial).mono fun _ _ _ h => (h1.trans h2).trans h

theorem remove_spec (k : κ) : Holds (remove k : Act κ ν (Option ν)) (fun _ => True) (fun g _ g' => Std g g') := by
  refine Holds.intro fun g hI _ => ?_
  unfold remove
  refine Ok.bind (rawRemove_spec 2 k |>.ok hI trivial) fun r g1 hI1 h1 => ?_
  cases r with
  | some v => exact Ok.pure hI1 h1
  | none => exact (Slru.remove_spec k |>.ok hI1 trivial).mono fun _ _ _ h => h1.trans h

theorem purge_spec : Holds (purge : Act κ ν Unit) (fun _ => True) (fun g _ g' => Std g g') := by
  refine Holds.intro fun g hI _ => ?_
  unfold purge
  refine Ok.bind (rawPurge_spec 2 |>.ok hI trivial) fun _ g1 hI1 h1 => ?_
  exact (Slru.purge_spec.ok hI1 trivial).mono fun _ _ _ h => h1.trans h

end Wt

/-! ### the operation alphabet of the composite caches -/

/-- the operations (the `Bool`/payload results are irrelevant here) -/
inductive COp (κ ν : Type)
  | slruPut (k : κ) (v : ν) | slruGet (k : κ) | slruPutProtected (k : κ) (v : ν) | slruRemove (k : κ) | slruPurge
  | twoqPut (q : TwoQ.Params) (k : κ) (v : ν) | twoqGet (k : κ) | twoqRemove (k : κ) | twoqPurge
  | arcPut (size : Nat) (k : κ) (v : ν) | arcGet (k : κ) | arcRemove (k : κ) | arcPurge
  | wtPut (admitLt : Bool) (k : κ) (v : ν) | wtGet (k : κ) | wtRemove (k : κ) | wtPurge
  -- public `RawLRU` calls on one list (accessors of the composites, the window of W-TinyLFU)
  | rawPut (c : Nat) (k : κ) (v : ν) | rawGet (c : Nat) (k : κ) | rawRemove (c : Nat) (k : κ) | rawRemoveLru (c : Nat)
  | rawPurge (c : Nat) | lookup (c : Nat) (k : κ)

def COp.run : COp κ ν → Act κ ν Unit
  | .slruPut k v => do let _ ← Slru.put k v
  | .slruGet k => do let _ ← Slru.get k
  | .slruPutProtected k v => do let _ ← Slru.putProtected k v
  | .slruRemove k => do let _ ← Slru.remove k
  | .slruPurge => Slru.purge
  | .twoqPut q k v => do let _ ← TwoQ.put q k v
  | .twoqGet k => do let _ ← TwoQ.get k
  | .twoqRemove k => do let _ ← TwoQ.remove k
  | .twoqPurge => TwoQ.purge
  | .arcPut size k v => do let _ ← Arc.put size k v
  | .arcGet k => do let _ ← Arc.get k
  | .arcRemove k => do let _ ← Arc.remove k
  | .arcPurge => Arc.purge
  | .wtPut b k v => do let _ ← Wt.put b k v
  | .wtGet k => do let _ ← Wt.get k
  | .wtRemove k => do let _ ← Wt.remove k
  | .wtPurge => Wt.purge
  | .rawPut c k v => do let _ ← M.AG.rawPut c k v
  | .rawGet c k => do let _ ← M.AG.rawGet c k
  | .rawRemove c k => do let _ ← M.AG.rawRemove c k
  | .rawRemoveLru c => do let _ ← M.AG.rawRemoveLru c
  | .rawPurge c => M.AG.rawPurge c
  | .lookup c k => do let _ ← M.AG.mapGet c k

theorem voided {α : Type} {m : Act κ ν α} (h : Holds m (fun _ => True) (fun g _ g' => Std g g')) :
    Holds (do let _ ← m : Act κ ν Unit) (fun _ => True) (fun g _ g' => Std g g') :=
  Holds.intro fun g hI _ => Ok.bind (h.ok hI trivial) fun _ g1 hI1 h1 => Ok.pure hI1 h1

/-- every operation, from every invariant state: invariant afterwards — whether it completed or was aborted — and
    nodes owned by other frames (leaked by earlier unwinds) are left alone -/
theorem composite_op_spec (op : COp κ ν) : Holds op.run (fun _ => True) (fun g _ g' => Std g g') := by
  cases op with
  | slruPut k v => exact voided (Slru.put_spec k v)
  | slruGet k => exact voided (Slru.get_spec k)
  | slruPutProtected k v => exact voided (Slru.putProtected_spec k v)
  | slruRemove k => exact voided (Slru.remove_spec k)
  | slruPurge => exact Slru.purge_spec
  | twoqPut q k v => exact voided (TwoQ.put_spec q k v)
  | twoqGet k => exact voided (TwoQ.get_spec k)
  | twoqRemove k => exact voided (TwoQ.remove_spec k)
  | twoqPurge => exact TwoQ.purge_spec
  | arcPut size k v => exact voided (Arc.put_spec size k v)
  | arcGet k => exact voided (Arc.get_spec k)
  | arcRemove k => exact voided (Arc.remove_spec k)
  | arcPurge => exact Arc.purge_spec
  | wtPut b k v => exact voided (Wt.put_spec b k v)
  | wtGet k => exact voided (Wt.get_spec k)
  | wtRemove k => exact voided (Wt.remove_spec k)
  | wtPurge => exact Wt.purge_spec
  | rawPut c k v => exact voided (rawPut_spec c k v)
  | rawGet c k => exact voided (rawGet_spec c k)
  | rawRemove c k => exact voided (rawRemove_spec c k)
  | rawRemoveLru c => exact voided (rawRemoveLru_spec c)
  | rawPurge c => exact rawPurge_spec c
  | lookup c k =>
    exact voided (Holds.conseq (mapGet_spec c k) (fun _ _ _ => trivial)
      (fun _ _ _ _ _ _ h => ⟨Keeps.of_pool h.1, h.2.2.1⟩))

/-- the operation with the panic injected at the `t`-th call into user code (large `t`: it completes) -/
def COp.runAt (op : COp κ ν) (t : Nat) (g : G κ ν) : G κ ν := (op.run { g with ticks := t }).2

/-- a freshly built cache: no nodes, empty indexes, every list with a positive capacity -/
def emptyG (cap : Nat → Nat) : G κ ν :=
  { pool := [], idx := fun _ => [], cap := cap, next := 0, ticks := 0, fault := false }

theorem emptyG_inv (cap : Nat → Nat) (hc : ∀ c, 0 < cap c) : Inv (emptyG cap : G κ ν) :=
  ⟨by simp [emptyG], by simp [emptyG], by simp [emptyG], by simp [emptyG], hc, rfl⟩



theorem runAt_inv (op : COp κ ν) (t : Nat) (g : G κ ν) (h : Inv g) : Inv (op.runAt t g) := by
  have h' : Inv { g with ticks := t } := h.of_same rfl rfl rfl rfl rfl
  exact ((composite_op_spec op).ok h' trivial).1

theorem history_inv (ops : List (COp κ ν × Nat)) (g : G κ ν) (h : Inv g) :
    Inv (ops.foldl (fun g o => o.1.runAt o.2 g) g) := by
  induction ops generalizing g with
  | nil => exact h
  | cons o os ih => exact ih _ (runAt_inv o.1 o.2 g h)


/-! ### dropping a composite cache: each list drains its own index and unboxes the nodes it finds there -/

/-- node ids unboxed when the lists `cs` are dropped -/
def dropAll (g : G κ ν) (cs : List Nat) : List Nat := cs.flatMap fun c => (g.idx c).map (·.2)

theorem idx_ids_nd {g : G κ ν} (hI : Inv g) (c : Nat) : ((g.idx c).map (·.2)).Nodup := by
  have hk := hI.keys_nd c
  have key : ∀ a ∈ g.idx c, ∀ b ∈ g.idx c, a.2 = b.2 → a.1 = b.1 := by
    intro a ha b hb hab
    exact idx_id_key hI (k := a.1) (k' := b.1) (i := a.2) ha (by rw [hab]; exact hb)
  generalize g.idx c = l at hk key
  induction l with
  | nil => simp
  | cons x t ih =>
    simp only [List.map_cons, List.nodup_cons, List.mem_map, not_exists, not_and] at hk ⊢
    refine ⟨?_, ih hk.2 (fun a ha b hb => key a (List.mem_cons_of_mem _ ha) b (List.mem_cons_of_mem _ hb))⟩
    intro y hy hyx
    exact hk.1 y hy (key y (List.mem_cons_of_mem _ hy) x List.mem_cons_self hyx)

theorem nodup_flatMap_of {α β : Type} (f : α → List β) (l : List α) (hl : l.Nodup) (h1 : ∀ a, (f a).Nodup)
    (h2 : ∀ a b, a ≠ b → ∀ x ∈ f a, x ∉ f b) : (l.flatMap f).Nodup := by
  induction l with
  | nil => simp
  | cons a t ih =>
    simp only [List.nodup_cons] at hl
    rw [List.flatMap_cons, List.nodup_append]
    refine ⟨h1 a, ih hl.2, ?_⟩
    intro x hx y hy hxy
    subst hxy
    obtain ⟨b, hb, hxb⟩ := List.mem_flatMap.1 hy
    exact h2 a b (fun hc => hl.1 (hc ▸ hb)) x hx hxb

/-- no node is unboxed twice when the cache is dropped — from any invariant state, also one left by a panic -/
theorem dropAll_nodup {g : G κ ν} (hI : Inv g) (cs : List Nat) (hcs : cs.Nodup) : (dropAll g cs).Nodup := by
  apply nodup_flatMap_of _ _ hcs (fun c => idx_ids_nd hI c)
  intro a b hab x hxa hxb
  obtain ⟨ea, hea, rfl⟩ := List.mem_map.1 hxa
  obtain ⟨eb, heb, hid⟩ := List.mem_map.1 hxb
  have h1 := indexed_linked hI (c := a) (k := ea.1) (i := ea.2) hea
  have h2 := indexed_linked hI (c := b) (k := eb.1) (i := eb.2) heb
  rw [hid] at h2
  have := Has.tag_unique hI h1 h2
  cases this
  exact hab rfl

/-- and every node it unboxes is live and linked in the list that unboxes it -/
theorem dropAll_live {g : G κ ν} (hI : Inv g) (c : Nat) (i : Nat) (h : i ∈ (g.idx c).map (·.2)) : Has g i (.inL c) := by
  obtain ⟨e, he, rfl⟩ := List.mem_map.1 h
  exact indexed_linked hI (k := e.1) he

end M.AG
