/- Ownership conservation for SegmentedCache (C04) -/
import Caches.Lemmas.Conserve
import Caches.Lemmas.Slru
set_option linter.unusedSectionVars false
set_option linter.unusedVariables false
namespace M
variable {κ ν : Type} [DecidableEq κ] [DecidableEq ν]
namespace Slru

def heldAll (s : Slru κ ν) : List (Obj κ ν) := held s.prob.items ++ held s.prot.items

/-- promotion moves nodes between the segments; only the value written through the call changes hands -/
theorem promote_count (s s' : Slru κ ν) (k : κ) (w : Option ν) (old : ν) (h : s.Inv)
    (hf : find k s.prob.items = some old) (hp : s.promote k w = .ok (some old, s')) (o : Obj κ ν) :
    s.heldAll.count o + ([Obj.val (w.getD old)] : List (Obj κ ν)).count o =
      s'.heldAll.count o + ([Obj.val old] : List (Obj κ ν)).count o := by
  have e1 := held_erase _ k old hf o
  rcases promote_spec s k w old h hf with ⟨_, hp'⟩ | ⟨_, dem, hd, hp'⟩
  · rw [hp'] at hp; injection hp with hp; injection hp with _ hp; subst hp
    simp only [heldAll, held_cons, List.count_append, List.count_cons, List.count_nil] at *; omega
  · rw [hp'] at hp; injection hp with hp; injection hp with _ hp; subst hp
    have e2 := held_dropLast _ dem hd o
    simp only [heldAll, held_cons, List.count_append, List.count_cons, List.count_nil] at *; omega

/-- `put`: held-before + the pair handed in = held-after + what the result hands back + what was dropped -/
theorem put_count (s s' : Slru κ ν) (k : κ) (v : ν) (r : PutResult κ ν) (d : List (Obj κ ν)) (h : s.Inv)
    (hp : s.put k v = .ok (r, s', d)) (o : Obj κ ν) :
    s.heldAll.count o + ([Obj.key k, Obj.val v] : List (Obj κ ν)).count o =
      s'.heldAll.count o + r.drops.count o + d.count o := by
  unfold Slru.put at hp
  cases hq : find k s.prot.items with
  | some old =>
    simp only [hq] at hp; injection hp with hp; injection hp with h1 hp; injection hp with h2 h3
    subst h1; subst h2; subst h3
    have := RawLru.update_count s.prot k v old hq o
    simp only [heldAll, PutResult.drops, List.count_append, List.count_cons, List.count_nil] at *; omega
  | none =>
    simp only [hq] at hp
    cases hpf : find k s.prob.items with
    | some old =>
      obtain ⟨s1, hpr, _, _⟩ := promote_inv s k (some v) old h hpf
      simp only [RawLru.contains, hpf, Option.isSome_some, if_true, hpr] at hp
      injection hp with hp; injection hp with h1 hp; injection hp with h2 h3
      subst h1; subst h2; subst h3
      have := promote_count s s1 k (some v) old h hpf hpr o
      simp only [PutResult.drops, Option.getD_some, List.count_cons, List.count_nil] at *; omega
    | none =>
      simp only [RawLru.contains, hpf, Option.isSome_none, Bool.false_eq_true, if_false] at hp
      cases hput : s.prob.put k v with
      | error f => simp [hput] at hp
      | ok res =>
        obtain ⟨c', r', e⟩ := res
        simp only [hput] at hp; injection hp with hp; injection hp with h1 hp; injection hp with h2 h3
        subst h1; subst h2; subst h3
        have := RawLru.put_count s.prob c' k v r' e hput o
        simp only [heldAll, List.count_append] at *; omega

/-- `get` / `get_mut`: nothing enters or leaves except the value written through the returned reference -/
theorem getMut_count (s s' : Slru κ ν) (k : κ) (w : Option ν) (r : Option ν) (h : s.Inv)
    (hp : s.getMut k w = .ok (r, s')) (o : Obj κ ν) :
    s.heldAll.count o + (wrIn r w : List (Obj κ ν)).count o = s'.heldAll.count o + (wrOut r w : List (Obj κ ν)).count o := by
  unfold Slru.getMut RawLru.getMut at hp
  cases hq : find k s.prot.items with
  | some old =>
    simp only [hq] at hp; injection hp with hp; injection hp with h1 h2; subst h1; subst h2
    have e1 := held_erase _ k old hq o
    cases w <;> (simp only [wrIn, wrOut, heldAll, use, Option.getD_none, Option.getD_some, held_cons, List.count_append, List.count_cons, List.count_nil] at *; omega)
  | none =>
    simp only [hq] at hp
    cases hpf : find k s.prob.items with
    | none =>
      simp only [hpf] at hp; injection hp with hp; injection hp with h1 h2; subst h1; subst h2
      cases w <;> simp [wrIn, wrOut]
    | some old =>
      simp only [hpf] at hp
      obtain ⟨s1, hpr, _, _⟩ := promote_inv s k w old h hpf
      rw [hpr] at hp; injection hp with hp; injection hp with h1 h2; subst h1; subst h2
      have := promote_count s s1 k w old h hpf hpr o
      cases w <;> (simp only [wrIn, wrOut, Option.getD_none, Option.getD_some, List.count_cons, List.count_nil] at *; omega)

/-- `remove`: the value goes to the caller, the stored key is dropped, nothing else moves -/
theorem remove_count (s : Slru κ ν) (k : κ) (o : Obj κ ν) :
    s.heldAll.count o =
      (s.remove k).1.heldAll.count o + (objsV (s.remove k).2.1).count o +
        (s.remove k).2.2.count o := by
  unfold Slru.remove
  have hp := RawLru.remove_count s.prob k o
  have hq := RawLru.remove_count s.prot k o
  unfold RawLru.remove at *
  cases h1 : find k s.prob.items with
  | some v => simp only [h1, heldAll, List.count_append] at *; omega
  | none =>
    simp only [h1] at *
    cases h2 : find k s.prot.items <;> (simp only [h2, heldAll, List.count_append] at *; omega)

/-- `purge` releases every retained key and value -/
theorem purge_count (s : Slru κ ν) :
    ∃ s' d, s.purge = .ok (s', d) ∧ s'.heldAll = [] ∧ ∀ o : Obj κ ν, s.heldAll.count o = d.count o := by
  obtain ⟨p', e1, h1, hp0, hc1⟩ := RawLru.purge_count s.prob
  obtain ⟨q', e2, h2, hq0, hc2⟩ := RawLru.purge_count s.prot
  refine ⟨{ prob := p', prot := q' }, e1.drops ++ e2.drops, by simp only [Slru.purge, h1, h2], ?_, fun o => ?_⟩
  · simp only [heldAll, hp0, hq0, held_nil, List.append_nil]
  · have := hc1 o; have := hc2 o
    simp only [heldAll, List.count_append]; omega

/-- dropping the cache releases exactly what is retained -/
theorem drop_count (s : Slru κ ν) : s.dropCache = s.heldAll := rfl

/-- `put_protected` (repaired): the probationary copy is unlinked first, its old value is handed back or dropped -/
theorem putProtected_count (s s' : Slru κ ν) (k : κ) (v : ν) (r : PutResult κ ν) (d : List (Obj κ ν))
    (hp : s.putProtected k v = .ok (r, s', d)) (o : Obj κ ν) :
    s.heldAll.count o + ([Obj.key k, Obj.val v] : List (Obj κ ν)).count o =
      s'.heldAll.count o + r.drops.count o + d.count o := by
  unfold Slru.putProtected RawLru.remove at hp
  cases hpf : find k s.prob.items with
  | none =>
    simp only [hpf] at hp
    cases hput : s.prot.put k v with
    | error f => simp [hput] at hp
    | ok res =>
      obtain ⟨c', r', e⟩ := res
      simp only [hput] at hp; injection hp with hp; injection hp with h1 hp; injection hp with h2 h3
      subst h1; subst h2; subst h3
      have := RawLru.put_count s.prot c' k v r' e hput o
      simp only [heldAll, List.count_append] at *; omega
  | some old =>
    simp only [hpf] at hp
    have e1 := held_erase _ k old hpf o
    cases hput : s.prot.put k v with
    | error f => simp [hput] at hp
    | ok res =>
      obtain ⟨c', r', e⟩ := res
      have := RawLru.put_count s.prot c' k v r' e hput o
      simp only [hput] at hp
      cases r' <;> (simp only at hp; injection hp with hp; injection hp with h1 hp; injection hp with h2 h3;
                    subst h1; subst h2; subst h3;
                    simp only [heldAll, PutResult.drops, List.count_append, List.count_cons, List.count_nil] at *; omega)

theorem removeLru_count (s : Slru κ ν) (o : Obj κ ν) :
    (s.heldAll.count o = s.removeLruFromProbationary.1.heldAll.count o +
      (objsE s.removeLruFromProbationary.2).count o) ∧
    (s.heldAll.count o = s.removeLruFromProtected.1.heldAll.count o +
      (objsE s.removeLruFromProtected.2).count o) := by
  have h1 := RawLru.removeLru_count s.prob o
  have h2 := RawLru.removeLru_count s.prot o
  unfold removeLruFromProbationary removeLruFromProtected
  constructor
  · rcases hx : s.prob.removeLru with ⟨p', r, e⟩
    rw [hx] at h1
    simp only [heldAll, List.count_append] at *; omega
  · rcases hx : s.prot.removeLru with ⟨p', r, e⟩
    rw [hx] at h2
    simp only [heldAll, List.count_append] at *; omega

end Slru
end M
