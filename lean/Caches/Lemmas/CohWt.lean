/- W-TinyLFU pays what it owes (C02): resident entries are window ++ probationary ++ protected. -/
import Caches.Lemmas.CohSlru
import Caches.Properties.C10
set_option linter.unusedSectionVars false
set_option linter.unusedVariables false
namespace M
variable {κ ν : Type} [DecidableEq κ]

theorem owes_refl_write (k : κ) (r : Bool) (w : Option ν) (A : AL κ ν) (h : ∀ e ∈ A, e.1 ≠ k) :
    Owes (RawLru.writeDecl k r w) A A := by
  cases w with
  | none => exact owes_none _ _ (fun e he => he)
  | some w =>
    refine ⟨?_, fun e he => Or.inl he, ?_⟩
    · intro k' v' hw; simp only [RawLru.writeDecl] at hw ⊢
      split at hw
      · injection hw with hw; injection hw with hw _; simp [hw]
      · simp at hw
    · intro e he hk; simp only [RawLru.writeDecl, decide_eq_true_eq] at hk; exact absurd hk (h e he)

namespace WtSpec

theorem put_mem (s : St κ ν) (wcap pcap qcap : Nat) (lt : κ → κ → Bool) (k : κ) (v : ν)
    (ndW : (keys s.w).Nodup) (ndP : (keys s.p).Nodup) (ndQ : (keys s.q).Nodup)
    (dpq : ∀ x, x ∈ keys s.p → x ∉ keys s.q)
    (dwp : ∀ x, x ∈ keys s.w → x ∉ keys s.p) (dwq : ∀ x, x ∈ keys s.w → x ∉ keys s.q)
    (s' : St κ ν) (r : PutResult κ ν) (h : put s wcap pcap qcap lt k v = (s', r)) :
    ∀ e ∈ s'.w ++ (s'.p ++ s'.q), e = (k, v) ∨ (e ∈ s.w ++ (s.p ++ s.q) ∧ e.1 ≠ k) := by
  obtain ⟨erW, dlW, abW, laW, lkW, fmW, svW⟩ := facts k s.w ndW
  obtain ⟨erP, dlP, abP, laP, lkP, fmP, svP⟩ := facts k s.p ndP
  obtain ⟨erQ, dlQ, abQ, laQ, lkQ, fmQ, svQ⟩ := facts k s.q ndQ
  have dW : ∀ old, find k s.w = some old → (∀ e, e ∈ s.p → e.1 ≠ k) ∧ (∀ e, e ∈ s.q → e.1 ≠ k) := by
    intro old ho
    have hk := find_some_mem k old _ ho
    exact ⟨fun e he hc => dwp k hk (hc ▸ mem_keys_of_mem e _ he), fun e he hc => dwq k hk (hc ▸ mem_keys_of_mem e _ he)⟩
  unfold put at h
  cases hw : find k s.w with
  | some old =>
    obtain ⟨hP, hQ⟩ := dW old hw
    simp only [hw] at h
    repeat' split at h
    all_goals (obtain ⟨rfl, rfl⟩ := by simpa using h)
    all_goals (first | (have := laQ _ (by assumption); mem_leaf) | mem_leaf)
  | none =>
    have abW' := abW hw
    simp only [hw] at h
    by_cases hm : ((find k s.q).isSome || (find k s.p).isSome) = true
    · simp only [hm, if_true] at h
      generalize hsp : SlruSpec.put s.p s.q pcap qcap k v = res at h
      obtain ⟨p', q', r'⟩ := res
      have := SlruSpec.put_mem s.p s.q pcap qcap k v ndP ndQ dpq p' q' r' hsp
      simp only [List.mem_append] at this
      obtain ⟨rfl, rfl⟩ := by simpa using h
      mem_leaf
    · simp only [hm] at h
      have hq : find k s.q = none := by cases hx : find k s.q <;> simp_all
      have hp : find k s.p = none := by cases hx : find k s.p <;> simp_all
      have abP' := abP hp
      have abQ' := abQ hq
      by_cases hroom : s.w.length < wcap
      · simp only [hroom, if_true] at h; obtain ⟨rfl, rfl⟩ := by simpa using h
        mem_leaf
      · simp only [hroom] at h
        cases hl : s.w.getLast? with
        | none => simp only [hl] at h; obtain ⟨rfl, rfl⟩ := by simpa using h
                  mem_leaf
        | some cand =>
          simp only [hl] at h
          have hcw := laW cand hl
          have hck : cand.1 ≠ k := abW' cand hcw
          generalize hsp : SlruSpec.put s.p s.q pcap qcap cand.1 cand.2 = res at h
          obtain ⟨p', q', r'⟩ := res
          have hm2 := SlruSpec.put_mem s.p s.q pcap qcap cand.1 cand.2 ndP ndQ dpq p' q' r' hsp
          simp only [List.mem_append] at hm2
          repeat' split at h
          all_goals (obtain ⟨rfl, rfl⟩ := by simpa using h)
          all_goals mem_leaf

theorem get_owes (s : St κ ν) (qcap : Nat) (k : κ) (w : Option ν)
    (ndW : (keys s.w).Nodup) (ndP : (keys s.p).Nodup) (ndQ : (keys s.q).Nodup)
    (dpq : ∀ x, x ∈ keys s.p → x ∉ keys s.q)
    (dwp : ∀ x, x ∈ keys s.w → x ∉ keys s.p) (dwq : ∀ x, x ∈ keys s.w → x ∉ keys s.q)
    (s' : St κ ν) (r : Option ν) (h : get s qcap k w = (s', r)) :
    Owes (RawLru.writeDecl k ((find k s.w).isSome || ((find k s.q).isSome || (find k s.p).isSome)) w)
      (s.w ++ (s.p ++ s.q)) (s'.w ++ (s'.p ++ s'.q)) := by
  obtain ⟨erW, dlW, abW, laW, lkW, fmW, svW⟩ := facts k s.w ndW
  unfold get at h
  cases hw : find k s.w with
  | some old =>
    have hk := find_some_mem k old _ hw
    have hP : ∀ e, e ∈ s.p → e.1 ≠ k := fun e he hc => dwp k hk (hc ▸ mem_keys_of_mem e _ he)
    have hQ : ∀ e, e ∈ s.q → e.1 ≠ k := fun e he hc => dwq k hk (hc ▸ mem_keys_of_mem e _ he)
    have := fmW old hw
    simp only [hw] at h; obtain ⟨rfl, rfl⟩ := by simpa using h
    cases w with
    | none => exact owes_none _ _ (by simp only [Option.getD_none]; mem_leaf)
    | some w =>
      simp only [RawLru.writeDecl, Option.isSome_some, Bool.true_or, if_true, Option.getD_some]
      exact owes_keyed k w _ _ (by mem_leaf)
  | none =>
    have abW' := abW hw
    simp only [hw] at h
    generalize hsp : SlruSpec.get s.p s.q qcap k w = res at h
    obtain ⟨p', q', r'⟩ := res
    have ho := SlruSpec.get_owes s.p s.q qcap k w ndP ndQ dpq p' q' r' hsp
    obtain ⟨rfl, rfl⟩ := by simpa using h
    simp only [Option.isSome_none, Bool.false_or]
    exact owes_append _ _ _ _ _ (owes_refl_write k _ w s.w abW') ho
end WtSpec
namespace WTinyLfu
def ents (c : WTinyLfu κ ν) : AL κ ν := c.window.items ++ (c.main.prob.items ++ c.main.prot.items)

def decl (c : WTinyLfu κ ν) : CacheOp κ ν → Decl κ ν
  | .put k v => keyDecl k (some (k, v))
  | .getMut k w => RawLru.writeDecl k ((find k c.window.items).isSome ||
      ((find k c.main.prot.items).isSome || (find k c.main.prob.items).isSome)) w
  | .peekMut k w => RawLru.writeDecl k ((find k c.window.items).isSome ||
      ((find k c.main.prot.items).isSome || (find k c.main.prob.items).isSome)) w
  | .remove k => keyDecl k none
  | .purge => { wr := none, kills := fun _ => true }
  | .read => Decl.none

theorem step_owes (kh : κ → UInt64) (c c' : WTinyLfu κ ν) (o : CacheOp κ ν) (h : c.Inv)
    (hs : c.step kh o = .ok c') : Owes (c.decl o) c.ents c'.ents := by
  obtain ⟨wnd, wb, wpos, mi, dw, ei⟩ := id h
  have dwp : ∀ x, x ∈ keys c.window.items → x ∉ keys c.main.prob.items := fun x hx hc => dw x hx (Or.inl hc)
  have dwq : ∀ x, x ∈ keys c.window.items → x ∉ keys c.main.prot.items := fun x hx hc => dw x hx (Or.inr hc)
  unfold ents
  cases o with
  | put k v =>
    obtain ⟨r, c1, d, hp, heq, _⟩ := C10.put_eq_spec c kh k v h
    simp only [WTinyLfu.step, hp] at hs; injection hs with hs; subst hs
    exact owes_keyed k v _ _ (WtSpec.put_mem (C10.view c) _ _ _ _ k v wnd mi.ndp mi.ndq mi.disj dwp dwq _ _ heq.symm)
  | getMut k w =>
    obtain ⟨r, c1, est', hp, _, _, heq⟩ := C10.get_eq_spec c kh k w h
    simp only [WTinyLfu.step, hp] at hs; injection hs with hs; subst hs
    exact WtSpec.get_owes (C10.view c) _ k w wnd mi.ndp mi.ndq mi.disj dwp dwq _ _ heq.symm
  | peekMut k w =>
    obtain ⟨erW, dlW, abW, laW, lkW, fmW, svW⟩ := facts k c.window.items wnd
    simp only [WTinyLfu.step] at hs; injection hs with hs; subst hs
    unfold WTinyLfu.peekMut; simp only [decl]
    cases hw : find k c.window.items with
    | some old =>
      have hk := find_some_mem k old _ hw
      have hP : ∀ e, e ∈ c.main.prob.items → e.1 ≠ k := fun e he hc => dwp k hk (hc ▸ mem_keys_of_mem e _ he)
      have hQ : ∀ e, e ∈ c.main.prot.items → e.1 ≠ k := fun e he hc => dwq k hk (hc ▸ mem_keys_of_mem e _ he)
      unfold RawLru.peekMut; simp only [hw]
      cases w with
      | none => exact owes_none _ _ (fun e he => he)
      | some w =>
        simp only [RawLru.writeDecl, Option.isSome_some, Bool.true_or, if_true]
        have := svW w old hw
        exact owes_keyed k w _ _ (by mem_leaf)
    | none =>
      have abW' := abW hw
      have hpm : c.window.peekMut k w = (c.window, none) := by
        unfold RawLru.peekMut; simp only [hw]
      simp only [hpm, Option.isSome_none, Bool.false_or]
      have hm := Slru.step_owes c.main (c.main.peekMut k w).1 (.peekMut k w) mi (by simp [Slru.step])
      simp only [Slru.decl, Slru.ents] at hm
      exact owes_append _ _ _ _ _ (owes_refl_write k _ w _ abW') hm
  | remove k =>
    obtain ⟨erW, dlW, abW, laW, lkW, fmW, svW⟩ := facts k c.window.items wnd
    simp only [WTinyLfu.step] at hs; injection hs with hs; subst hs
    unfold WTinyLfu.remove; simp only [decl]
    cases hw : find k c.window.items with
    | some old =>
      have hk := find_some_mem k old _ hw
      have hP : ∀ e, e ∈ c.main.prob.items → e.1 ≠ k := fun e he hc => dwp k hk (hc ▸ mem_keys_of_mem e _ he)
      have hQ : ∀ e, e ∈ c.main.prot.items → e.1 ≠ k := fun e he hc => dwq k hk (hc ▸ mem_keys_of_mem e _ he)
      unfold RawLru.remove; simp only [hw]
      exact owes_keyed_none k _ _ (by mem_leaf)
    | none =>
      have abW' := abW hw
      have hrm : c.window.remove k = (c.window, none, {}) := by
        unfold RawLru.remove; simp only [hw]
      simp only [hrm]
      have hm := Slru.step_owes c.main (c.main.remove k).1 (.remove k) mi (by simp [Slru.step])
      simp only [Slru.decl, Slru.ents] at hm
      exact owes_append _ _ _ _ _ (owes_keyed_none k _ _ (fun e he => ⟨he, abW' e he⟩)) hm
  | purge =>
    obtain ⟨c1, d, hp, _, _, _, hw1, hp1, hq1⟩ := WTinyLfu.purge_total_inv c h
    simp only [WTinyLfu.step, hp] at hs; injection hs with hs; subst hs
    rw [hw1, hp1, hq1]; exact owes_all _
  | read =>
    simp only [WTinyLfu.step] at hs; injection hs with hs; subst hs
    exact owes_none _ _ (fun e he => he)
end WTinyLfu

end M
