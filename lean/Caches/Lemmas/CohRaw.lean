/- RawLRU pays what it owes (C02): per operation, where the entries of the list afterwards come from. -/
import Caches.Lemmas.Coherence
import Caches.Lemmas.Reach
set_option linter.unusedSectionVars false
set_option linter.unusedVariables false
namespace M
variable {κ ν : Type} [DecidableEq κ]

theorem mem_setVal_iff (e : κ × ν) (k : κ) (w : ν) (l : AL κ ν) (nd : (keys l).Nodup) (hk : k ∈ keys l) :
    e ∈ setVal k w l ↔ (e ∈ l ∧ e.1 ≠ k) ∨ e = (k, w) := by
  fun_induction setVal k w l <;> grind [keys, mem_keys_of_mem]

namespace RawLru

def writeDecl (k : κ) (resident : Bool) (w : Option ν) : Decl κ ν :=
  match w with
  | some w => { wr := if resident then some (k, w) else none, kills := fun x => decide (x = k) }
  | none => Decl.none

def putDecl (c : RawLru κ ν) (k : κ) (v : ν) : Decl κ ν :=
  { wr := if c.cap = 0 then none else some (k, v), kills := fun x => decide (x = k) }

/-- what each RawLRU operation declares -/
def decl (c : RawLru κ ν) : RawOp κ ν → Decl κ ν
  | .put k v => c.putDecl k v
  | .getMut k w => writeDecl k (find k c.items).isSome w
  | .peekMut k w => writeDecl k (find k c.items).isSome w
  | .remove k => { wr := none, kills := fun x => decide (x = k) }
  | .purge => { wr := none, kills := fun _ => true }
  | .getLruMut w => match c.items.getLast? with | some e => writeDecl e.1 true w | none => Decl.none
  | .peekLruMut w => match c.items.getLast? with | some e => writeDecl e.1 true w | none => Decl.none
  | .getMruMut w => match c.items.head? with | some e => writeDecl e.1 true w | none => Decl.none
  | .peekMruMut w => match c.items.head? with | some e => writeDecl e.1 true w | none => Decl.none
  | .removeLru => match c.items.getLast? with | some e => { wr := none, kills := fun x => decide (x = e.1) } | none => Decl.none
  | .peekOrPut k v => if (find k c.items).isSome then Decl.none else c.putDecl k v
  | .containsOrPut k v => if (find k c.items).isSome then Decl.none else c.putDecl k v
  | .peekMutOrPut k v w => if (find k c.items).isSome then writeDecl k true w else c.putDecl k v
  | .get _ | .getLru | .resize _ | .clone | .read => Decl.none

theorem put_owes (c c' : RawLru κ ν) (k : κ) (v : ν) (r : PutResult κ ν) (e : Eff κ ν) (h : c.Inv)
    (hp : c.put k v = .ok (c', r, e)) : Owes (c.putDecl k v) c.items c'.items := by
  obtain ⟨nd, bd⟩ := h
  unfold RawLru.put at hp
  unfold putDecl
  cases hf : find k c.items with
  | some old =>
    have hne : c.cap ≠ 0 := by
      intro hc; rw [hc] at bd
      have : c.items = [] := List.eq_nil_of_length_eq_zero (by omega)
      rw [this] at hf; simp [find] at hf
    simp only [hf] at hp; injection hp with hp; injection hp with hp _; subst hp
    refine ⟨by intro k' v' hw; simp only [hne, if_false] at hw; injection hw with hw; injection hw with hw _; simp [hw], ?_, ?_⟩
    · intro x hx; simp only [use, List.mem_cons] at hx
      rcases hx with hx | hx
      · exact Or.inr (by simp [hne, hx])
      · exact Or.inl (mem_erase_sub _ _ _ hx)
    · intro x hx hk; simp only [use, List.mem_cons] at hx
      simp only [decide_eq_true_eq] at hk
      rcases hx with hx | hx
      · simp [hne, hx]
      · exact absurd hk ((mem_erase_iff _ _ _ nd).1 hx).2
  | none =>
    have hnk := (find_none_iff k _).1 hf
    simp only [hf] at hp
    by_cases h0 : c.cap = 0
    · simp only [h0, if_true] at hp; injection hp with hp; injection hp with hp _; subst hp
      refine ⟨by intro k' v' hw; simp [h0] at hw, fun x hx => Or.inl hx, ?_⟩
      intro x hx hk; simp only [decide_eq_true_eq] at hk
      exact absurd (hk ▸ mem_keys_of_mem x _ hx) hnk
    · simp only [h0, if_false] at hp
      have key : ∀ l : AL κ ν, (∀ x ∈ l, x ∈ c.items) → c'.items = (k, v) :: l →
          Owes ({ wr := some (k, v), kills := fun x => decide (x = k) } : Decl κ ν) c.items c'.items := by
        intro l hl hc
        refine ⟨by intro k' v' hw; injection hw with hw; injection hw with hw _; simp [hw], ?_, ?_⟩
        · intro x hx; rw [hc] at hx; simp only [List.mem_cons] at hx
          rcases hx with hx | hx
          · exact Or.inr (by rw [hx])
          · exact Or.inl (hl x hx)
        · intro x hx hk; rw [hc] at hx; simp only [List.mem_cons] at hx
          simp only [decide_eq_true_eq] at hk
          rcases hx with hx | hx
          · rw [hx]
          · exact absurd (hk ▸ mem_keys_of_mem x _ (hl x hx)) hnk
      by_cases hfull : c.items.length = c.cap
      · simp only [hfull, if_true] at hp
        cases hl : c.items.getLast? with
        | none => simp [hl] at hp
        | some el =>
          simp only [hl] at hp; injection hp with hp; injection hp with hp _; subst hp
          simp only [h0, if_false]; exact key c.items.dropLast (fun x hx => mem_dropLast_of _ _ hx) rfl
      · simp only [hfull, if_false] at hp; injection hp with hp; injection hp with hp _; subst hp
        simp only [h0, if_false]; exact key c.items (fun x hx => hx) rfl


theorem owes_sub (d : Decl κ ν) (l l' : AL κ ν) (hd : d = Decl.none) (h : ∀ e ∈ l', e ∈ l) : Owes d l l' := by
  subst hd; exact owes_none l l' h

/-- a hit that moves the entry to the front, optionally overwriting the value -/
theorem owes_write_use (l : AL κ ν) (k : κ) (old : ν) (w : Option ν) (nd : (keys l).Nodup) (hf : find k l = some old) :
    Owes (writeDecl k true w) l (use k (w.getD old) l) := by
  have hm := find_mem k old l hf
  cases w with
  | none =>
    refine owes_none _ _ ?_
    intro e he; simp only [use, Option.getD_none, List.mem_cons] at he
    rcases he with he | he
    · rw [he]; exact hm
    · exact mem_erase_sub _ _ _ he
  | some w =>
    refine ⟨by intro k' v' hw; simp only [writeDecl, if_true] at hw; injection hw with hw; injection hw with hw _; simp [writeDecl, hw], ?_, ?_⟩
    · intro e he; simp only [use, Option.getD_some, List.mem_cons] at he
      rcases he with he | he
      · exact Or.inr (by simp [writeDecl, he])
      · exact Or.inl (mem_erase_sub _ _ _ he)
    · intro e he hk; simp only [use, Option.getD_some, List.mem_cons] at he
      simp only [writeDecl, decide_eq_true_eq] at hk
      rcases he with he | he
      · simp [writeDecl, he]
      · exact absurd hk ((mem_erase_iff _ _ _ nd).1 he).2

/-- a hit that overwrites the value in place -/
theorem owes_setVal (l : AL κ ν) (k : κ) (old w : ν) (nd : (keys l).Nodup) (hf : find k l = some old) :
    Owes (writeDecl k true (some w)) l (setVal k w l) := by
  have hk := find_some_mem k old l hf
  refine ⟨by intro k' v' hw; simp only [writeDecl, if_true] at hw; injection hw with hw; injection hw with hw _; simp [writeDecl, hw], ?_, ?_⟩
  · intro e he
    rcases (mem_setVal_iff e k w l nd hk).1 he with he | he
    · exact Or.inl he.1
    · exact Or.inr (by simp [writeDecl, he])
  · intro e he hkk
    simp only [writeDecl, decide_eq_true_eq] at hkk
    rcases (mem_setVal_iff e k w l nd hk).1 he with he | he
    · exact absurd hkk he.2
    · simp [writeDecl, he]

theorem owes_kill (l l' : AL κ ν) (k : κ) (h : ∀ e ∈ l', e ∈ l ∧ e.1 ≠ k) :
    Owes ({ wr := none, kills := fun x => decide (x = k) } : Decl κ ν) l l' :=
  ⟨by intro k' v' hw; simp at hw, fun e he => Or.inl (h e he).1,
   by intro e he hk; simp only [decide_eq_true_eq] at hk; exact absurd hk (h e he).2⟩

theorem step_owes (c c' : RawLru κ ν) (o : RawOp κ ν) (h : c.Inv) (hs : c.step o = .ok c') :
    Owes (c.decl o) c.items c'.items := by
  have nd := h.nd
  cases o with
  | put k v =>
    simp only [RawLru.step] at hs
    obtain ⟨c1, r, e, hp, _⟩ := put_total_inv c k v h
    rw [hp] at hs; injection hs with hs; subst hs
    exact put_owes c c1 k v r e h hp
  | get k =>
    simp only [RawLru.step] at hs; injection hs with hs; subst hs
    unfold RawLru.get; simp only [decl]
    cases hf : find k c.items with
    | none => exact owes_none _ _ (fun e he => he)
    | some v => simpa [writeDecl] using owes_write_use c.items k v none nd hf
  | getMut k w =>
    simp only [RawLru.step] at hs; injection hs with hs; subst hs
    unfold RawLru.getMut; simp only [decl]
    cases hf : find k c.items with
    | none =>
      dsimp only
      cases w with
      | none => exact owes_none _ _ (fun e he => he)
      | some w =>
        refine ⟨by intro k' v' hw; simp [writeDecl] at hw, fun e he => Or.inl he, ?_⟩
        intro e he hk; simp only [writeDecl, decide_eq_true_eq] at hk
        exact absurd (hk ▸ mem_keys_of_mem e _ he) ((find_none_iff k _).1 hf)
    | some v => simpa using owes_write_use c.items k v w nd hf
  | peekMut k w =>
    simp only [RawLru.step] at hs; injection hs with hs; subst hs
    unfold RawLru.peekMut; simp only [decl]
    cases hf : find k c.items with
    | none =>
      dsimp only
      cases w with
      | none => exact owes_none _ _ (fun e he => he)
      | some w =>
        refine ⟨by intro k' v' hw; simp [writeDecl] at hw, fun e he => Or.inl he, ?_⟩
        intro e he hk; simp only [writeDecl, decide_eq_true_eq] at hk
        exact absurd (hk ▸ mem_keys_of_mem e _ he) ((find_none_iff k _).1 hf)
    | some v =>
      cases w with
      | none => exact owes_none _ _ (fun e he => he)
      | some w => simpa using owes_setVal c.items k v w nd hf
  | remove k =>
    simp only [RawLru.step] at hs; injection hs with hs; subst hs
    unfold RawLru.remove; simp only [decl]
    cases hf : find k c.items with
    | none =>
      exact owes_kill _ _ k (fun e he => ⟨he, fun hc => (find_none_iff k _).1 hf (hc ▸ mem_keys_of_mem e _ he)⟩)
    | some v => exact owes_kill _ _ k (fun e he => (mem_erase_iff _ _ _ nd).1 he)
  | purge =>
    simp only [RawLru.step, purge_spec] at hs; injection hs with hs; subst hs
    exact ⟨by intro k' v' hw; simp [decl] at hw, by intro e he; simp at he, by intro e he; simp at he⟩
  | resize n =>
    simp only [RawLru.step] at hs
    by_cases hne : n = c.cap
    · subst hne; simp only [resize_same] at hs; injection hs with hs; subst hs
      exact owes_none _ _ (fun e he => he)
    · simp only [resize_spec c n hne] at hs; injection hs with hs; subst hs
      exact owes_none _ _ (fun e he => List.mem_of_mem_take he)
  | getLru =>
    simp only [RawLru.step] at hs; injection hs with hs; subst hs
    unfold RawLru.getLru; simp only [decl]
    cases hl : c.items.getLast? with
    | none => exact owes_none _ _ (fun e he => he)
    | some e => simpa [writeDecl] using owes_write_use c.items e.1 e.2 none nd (find_last _ e hl nd)
  | getLruMut w =>
    simp only [RawLru.step] at hs; injection hs with hs; subst hs
    unfold RawLru.getLruMut; simp only [decl]
    cases hl : c.items.getLast? with
    | none => exact owes_none _ _ (fun e he => he)
    | some e => exact owes_write_use c.items e.1 e.2 w nd (find_last _ e hl nd)
  | getMruMut w =>
    simp only [RawLru.step] at hs; injection hs with hs; subst hs
    unfold RawLru.getMruMut; simp only [decl]
    cases hi : c.items with
    | nil => cases w <;> (dsimp only; exact owes_none _ _ (fun e he => hi ▸ he))
    | cons e t =>
      cases w with
      | none => dsimp only; exact owes_none _ _ (fun e he => hi ▸ he)
      | some w =>
        rw [hi] at nd
        have := owes_setVal (e :: t) e.1 e.2 w nd (by simp [find])
        simpa [setVal] using this
  | peekLruMut w =>
    simp only [RawLru.step] at hs; injection hs with hs; subst hs
    unfold RawLru.peekLruMut; simp only [decl]
    cases hl : c.items.getLast? with
    | none => cases w <;> exact owes_none _ _ (fun e he => he)
    | some e =>
      cases w with
      | none => exact owes_none _ _ (fun e he => he)
      | some w =>
        have hnl := last_key_not_in_dropLast c.items e hl nd
        refine ⟨by intro k' v' hw; simp only [writeDecl, if_true] at hw; injection hw with hw; injection hw with hw _; simp [writeDecl, hw], ?_, ?_⟩
        · intro x hx; simp only [List.mem_append, List.mem_singleton] at hx
          rcases hx with hx | hx
          · exact Or.inl (mem_dropLast_of _ _ hx)
          · exact Or.inr (by simp [writeDecl, hx])
        · intro x hx hk; simp only [List.mem_append, List.mem_singleton] at hx
          simp only [writeDecl, decide_eq_true_eq] at hk
          rcases hx with hx | hx
          · exact absurd hk (hnl x hx)
          · simp [writeDecl, hx]
  | peekMruMut w =>
    simp only [RawLru.step] at hs; injection hs with hs; subst hs
    unfold RawLru.peekMruMut RawLru.getMruMut; simp only [decl]
    cases hi : c.items with
    | nil => cases w <;> (dsimp only; exact owes_none _ _ (fun e he => hi ▸ he))
    | cons e t =>
      cases w with
      | none => dsimp only; exact owes_none _ _ (fun e he => hi ▸ he)
      | some w =>
        rw [hi] at nd
        have := owes_setVal (e :: t) e.1 e.2 w nd (by simp [find])
        simpa [setVal] using this
  | removeLru =>
    simp only [RawLru.step] at hs; injection hs with hs; subst hs
    simp only [decl]
    cases hl : c.items.getLast? with
    | none =>
      have : c.items = [] := by cases hc : c.items with | nil => rfl | cons a t => simp [hc] at hl
      rw [removeLru_none c this]; exact owes_none _ _ (fun e he => he)
    | some e =>
      rw [removeLru_some c e hl]
      exact owes_kill _ _ e.1 (fun x hx => ⟨mem_dropLast_of _ _ hx, last_key_not_in_dropLast c.items e hl nd x hx⟩)
  | peekOrPut k v =>
    simp only [RawLru.step] at hs
    unfold RawLru.peekOrPut at hs; simp only [decl]
    cases hf : find k c.items with
    | some cur => simp only [hf] at hs; injection hs with hs; subst hs; simpa using owes_none _ _ (fun e he => he)
    | none =>
      obtain ⟨c1, r, e, hp, _⟩ := put_total_inv c k v h
      simp only [hf, hp] at hs; injection hs with hs; subst hs
      simpa using put_owes c c1 k v r e h hp
  | containsOrPut k v =>
    simp only [RawLru.step] at hs
    unfold RawLru.containsOrPut at hs; simp only [decl]
    cases hf : find k c.items with
    | some cur => simp only [hf, Option.isSome_some, if_true] at hs; injection hs with hs; subst hs; simpa using owes_none _ _ (fun e he => he)
    | none =>
      obtain ⟨c1, r, e, hp, _⟩ := put_total_inv c k v h
      simp only [hf, hp] at hs; simp at hs; subst hs
      simpa using put_owes c c1 k v r e h hp
  | peekMutOrPut k v w =>
    simp only [RawLru.step] at hs
    unfold RawLru.peekMutOrPut at hs; simp only [decl]
    cases hf : find k c.items with
    | some cur =>
      simp only [hf] at hs; injection hs with hs; subst hs
      cases w with
      | none => simpa [writeDecl] using owes_none _ _ (fun e he => he)
      | some w => simpa using owes_setVal c.items k cur w nd hf
    | none =>
      obtain ⟨c1, r, e, hp, _⟩ := put_total_inv c k v h
      simp only [hf, hp] at hs; injection hs with hs; subst hs
      simpa using put_owes c c1 k v r e h hp
  | clone =>
    simp only [RawLru.step, clone_eq c h] at hs; injection hs with hs; subst hs
    exact owes_none _ _ (fun e he => he)
  | read =>
    simp only [RawLru.step] at hs; injection hs with hs; subst hs
    exact owes_none _ _ (fun e he => he)

end RawLru
end M
