/- Lemmas about the Bloom doorkeeper: an abstract bit view, effect of add / clear, well-formedness. -/
import Caches.Model.Bloom
set_option linter.unusedSectionVars false
set_option linter.unusedVariables false
set_option linter.unusedSimpArgs false
namespace M

theorem and_two_pow_eq (w n : Nat) : w &&& 2 ^ n = if w.testBit n then 2 ^ n else 0 := by
  apply Nat.eq_of_testBit_eq
  intro i
  rw [Nat.testBit_and, Nat.testBit_two_pow]
  by_cases hb : w.testBit n
  · simp only [hb, if_true, Nat.testBit_two_pow]
    by_cases hi : n = i
    · subst hi; simp [hb]
    · simp [hi]
  · simp only [hb, Bool.false_eq_true, if_false, Nat.zero_testBit]
    by_cases hi : n = i
    · subst hi; simp [hb]
    · simp [hi]

theorem and_shift_ne_zero (w n : Nat) : ((w &&& (1 <<< n)) != 0) = w.testBit n := by
  rw [Nat.one_shiftLeft, and_two_pow_eq]
  by_cases hb : w.testBit n
  · simp [hb]
  · simp [hb]

theorem testBit_or_shift (w n i : Nat) : (w ||| (1 <<< n)).testBit i = (w.testBit i || decide (n = i)) := by
  rw [Nat.testBit_or, Nat.one_shiftLeft, Nat.testBit_two_pow]

namespace Bloom

/-- bit `idx` of the filter (false when out of range) -/
def bit (b : Bloom) (idx : Nat) : Bool :=
  match b.bits[idx >>> 6]? with
  | none => false
  | some w => w.testBit (idx % 64)

structure WF (b : Bloom) : Prop where
  shift_lt : b.shift < 64
  size_ok : b.sizeMask >>> 6 < b.bits.length
  no_overflow : b.setLocs * 2 ^ (64 - b.shift) + 2 ^ (64 - b.shift) ≤ 2 ^ 64
  locs_pos : 0 < b.setLocs

/-- the probe positions of a hash -/
def idxOf (b : Bloom) (hash : UInt64) (i : Nat) : Nat :=
  ((b.hl hash).1 + i * (b.hl hash).2) &&& b.sizeMask

theorem hl_bounds (b : Bloom) (hwf : b.WF) (hash : UInt64) :
    (b.hl hash).1 < 2 ^ (64 - b.shift) ∧ (b.hl hash).2 < 2 ^ (64 - b.shift) := by
  unfold Bloom.hl
  have hs : (UInt64.ofNat b.shift).toNat % 64 = b.shift := by
    have := hwf.shift_lt
    simp [UInt64.toNat_ofNat']
    omega
  have key : ∀ x : UInt64, (x >>> UInt64.ofNat b.shift).toNat < 2 ^ (64 - b.shift) := by
    intro x
    rw [UInt64.toNat_shiftRight, hs, Nat.shiftRight_eq_div_pow]
    have hx : x.toNat < 2 ^ 64 := x.toNat_lt
    have hsplit : (2 : Nat) ^ 64 = 2 ^ b.shift * 2 ^ (64 - b.shift) := by
      rw [← Nat.pow_add]; congr 1; have := hwf.shift_lt; omega
    rw [Nat.div_lt_iff_lt_mul (Nat.two_pow_pos _)]
    rw [Nat.mul_comm, ← hsplit]; exact hx
  exact ⟨key _, key _⟩

theorem index_ok (b : Bloom) (hwf : b.WF) (hash : UInt64) (i : Nat) (hi : i < b.setLocs) :
    b.index (b.hl hash).1 (b.hl hash).2 i = .ok (b.idxOf hash i) ∧ (b.idxOf hash i) >>> 6 < b.bits.length := by
  obtain ⟨hh, hl⟩ := hl_bounds b hwf hash
  have hno := hwf.no_overflow
  have h1 : i * (b.hl hash).2 < b.setLocs * 2 ^ (64 - b.shift) := by
    calc i * (b.hl hash).2 ≤ i * 2 ^ (64 - b.shift) := Nat.mul_le_mul_left _ (Nat.le_of_lt hl)
      _ < b.setLocs * 2 ^ (64 - b.shift) := Nat.mul_lt_mul_of_pos_right hi (Nat.two_pow_pos _)
  have h2 : ¬ (i * (b.hl hash).2 ≥ 2 ^ 64) := by omega
  have h3 : ¬ ((b.hl hash).1 + i * (b.hl hash).2 ≥ 2 ^ 64) := by omega
  refine ⟨by unfold Bloom.index idxOf; simp only [h2, h3, if_false], ?_⟩
  unfold idxOf
  have : ((b.hl hash).1 + i * (b.hl hash).2) &&& b.sizeMask ≤ b.sizeMask := Nat.and_le_right
  have := hwf.size_ok
  simp only [Nat.shiftRight_eq_div_pow] at *
  exact Nat.lt_of_le_of_lt (Nat.div_le_div_right ‹_›) this

theorem set_spec (b : Bloom) (idx : Nat) (h : idx >>> 6 < b.bits.length) :
    ∃ b', b.set idx = .ok b' ∧ b'.sizeMask = b.sizeMask ∧ b'.setLocs = b.setLocs ∧ b'.shift = b.shift ∧
      b'.bits.length = b.bits.length ∧ ∀ j, b'.bit j = (b.bit j || decide (j = idx)) := by
  unfold Bloom.set
  simp only [List.getElem?_eq_getElem h]
  refine ⟨_, rfl, rfl, rfl, rfl, by simp, ?_⟩
  intro j
  unfold Bloom.bit
  by_cases hw : j >>> 6 = idx >>> 6
  · rw [hw]
    simp only [List.getElem?_set_self h, List.getElem?_eq_getElem h, testBit_or_shift]
    by_cases hj : j = idx
    · subst hj; simp
    · have : idx % 64 ≠ j % 64 := by
        intro hc
        apply hj
        simp only [Nat.shiftRight_eq_div_pow] at hw
        have h1 := Nat.div_add_mod j 64
        have h2 := Nat.div_add_mod idx 64
        have : (2:Nat)^6 = 64 := by decide
        rw [this] at hw
        omega
      simp [this, hj]
  · have hne : j ≠ idx := fun hc => hw (by rw [hc])
    have : idx >>> 6 ≠ j >>> 6 := fun hc => hw hc.symm
    simp only [List.getElem?_set_ne this, hne, decide_false, Bool.or_false]

theorem isSet_eq (b : Bloom) (idx : Nat) (h : idx >>> 6 < b.bits.length) : b.isSet idx = .ok (b.bit idx) := by
  unfold Bloom.isSet Bloom.bit
  simp only [List.getElem?_eq_getElem h, and_shift_ne_zero]

/-- invariant shape preserved by `set` -/
def SameShape (b b' : Bloom) : Prop :=
  b'.sizeMask = b.sizeMask ∧ b'.setLocs = b.setLocs ∧ b'.shift = b.shift ∧ b'.bits.length = b.bits.length

theorem wf_of_shape (b b' : Bloom) (hwf : b.WF) (h : SameShape b b') : b'.WF := by
  obtain ⟨h1, h2, h3, h4⟩ := h
  exact ⟨by rw [h3]; exact hwf.shift_lt, by rw [h1, h4]; exact hwf.size_ok, by rw [h2, h3]; exact hwf.no_overflow,
    by rw [h2]; exact hwf.locs_pos⟩

theorem hl_shape (b b' : Bloom) (h : SameShape b b') (hash : UInt64) : b'.hl hash = b.hl hash := by
  unfold Bloom.hl; rw [h.2.2.1]
theorem idxOf_shape (b b' : Bloom) (h : SameShape b b') (hash : UInt64) (i : Nat) : b'.idxOf hash i = b.idxOf hash i := by
  unfold idxOf; rw [hl_shape b b' h, h.1]

/-- `add` sets exactly the probe positions `i ≤ idx < i + n` of the hash -/
theorem addLoop_spec (b0 : Bloom) (hwf0 : b0.WF) (hash : UInt64) (n i : Nat) (b : Bloom)
    (hs : SameShape b0 b) (hn : i + n ≤ b0.setLocs) :
    ∃ b', Bloom.addLoop (b0.hl hash).1 (b0.hl hash).2 n i b = .ok b' ∧ SameShape b0 b' ∧
      ∀ j, (b'.bit j = true ↔ b.bit j = true ∨ ∃ t, i ≤ t ∧ t < i + n ∧ j = b0.idxOf hash t) := by
  induction n generalizing i b with
  | zero =>
    refine ⟨b, rfl, hs, ?_⟩
    intro j
    constructor
    · intro h; exact Or.inl h
    · intro h
      rcases h with h | ⟨t, h1, h2, _⟩
      · exact h
      · omega
  | succ n ih =>
    have hwf := wf_of_shape b0 b hwf0 hs
    have hix := index_ok b hwf hash i (by rw [hs.2.1]; omega)
    rw [hl_shape b0 b hs, idxOf_shape b0 b hs] at hix
    obtain ⟨b1, hset, s1, s2, s3, s4, hbit⟩ := set_spec b (b0.idxOf hash i) hix.2
    have hs1 : SameShape b0 b1 := ⟨by rw [s1]; exact hs.1, by rw [s2]; exact hs.2.1, by rw [s3]; exact hs.2.2.1, by rw [s4]; exact hs.2.2.2⟩
    obtain ⟨b', hloop, hs', hb'⟩ := ih (i + 1) b1 hs1 (by omega)
    refine ⟨b', ?_, hs', ?_⟩
    · unfold Bloom.addLoop; simp only [hix.1, hset, hloop]
    · intro j
      rw [hb' j, hbit j]
      simp only [Bool.or_eq_true, decide_eq_true_eq]
      constructor
      · intro h
        rcases h with (h | h) | ⟨t, h1, h2, h3⟩
        · exact Or.inl h
        · exact Or.inr ⟨i, Nat.le_refl _, by omega, h⟩
        · exact Or.inr ⟨t, by omega, by omega, h3⟩
      · intro h
        rcases h with h | ⟨t, h1, h2, h3⟩
        · exact Or.inl (Or.inl h)
        · by_cases ht : t = i
          · subst ht; exact Or.inl (Or.inr h3)
          · exact Or.inr ⟨t, by omega, by omega, h3⟩

/-- all probe positions of `hash` -/
def Probes (b : Bloom) (hash : UInt64) (j : Nat) : Prop := ∃ t, t < b.setLocs ∧ j = b.idxOf hash t

theorem add_spec (b : Bloom) (hwf : b.WF) (hash : UInt64) :
    ∃ b', b.add hash = .ok b' ∧ SameShape b b' ∧ ∀ j, (b'.bit j = true ↔ b.bit j = true ∨ Probes b hash j) := by
  obtain ⟨b', h, hs, hb⟩ := addLoop_spec b hwf hash b.setLocs 0 b ⟨rfl, rfl, rfl, rfl⟩ (by omega)
  refine ⟨b', by unfold Bloom.add; exact h, hs, ?_⟩
  intro j
  rw [hb j]
  have : (∃ t, 0 ≤ t ∧ t < 0 + b.setLocs ∧ j = b.idxOf hash t) ↔ Probes b hash j := by
    unfold Probes
    constructor
    · intro ⟨t, _, h2, h3⟩; exact ⟨t, by omega, h3⟩
    · intro ⟨t, h2, h3⟩; exact ⟨t, by omega, by omega, h3⟩
  rw [this]

/-- `contains` = all probe bits are set -/
theorem containsLoop_spec (b : Bloom) (hwf : b.WF) (hash : UInt64) (n i : Nat) (hn : i + n ≤ b.setLocs) :
    ∃ r, b.containsLoop (b.hl hash).1 (b.hl hash).2 n i = .ok r ∧
      (r = true ↔ ∀ t, i ≤ t → t < i + n → b.bit (b.idxOf hash t) = true) := by
  induction n generalizing i with
  | zero => exact ⟨true, rfl, by simp; intro t h1 h2; omega⟩
  | succ n ih =>
    have hix := index_ok b hwf hash i (by omega)
    unfold Bloom.containsLoop
    simp only [hix.1, isSet_eq b _ hix.2]
    cases hb : b.bit (b.idxOf hash i) with
    | false =>
      refine ⟨false, rfl, ?_⟩
      simp only [Bool.false_eq_true, false_iff]
      intro hall
      have := hall i (Nat.le_refl _) (by omega)
      rw [hb] at this; cases this
    | true =>
      obtain ⟨r, hr, hiff⟩ := ih (i + 1) (by omega)
      refine ⟨r, hr, ?_⟩
      rw [hiff]
      constructor
      · intro hall t h1 h2
        by_cases ht : t = i
        · subst ht; exact hb
        · exact hall t (by omega) (by omega)
      · intro hall t h1 h2; exact hall t (by omega) (by omega)

theorem contains_spec (b : Bloom) (hwf : b.WF) (hash : UInt64) :
    ∃ r, b.contains hash = .ok r ∧ (r = true ↔ ∀ j, Probes b hash j → b.bit j = true) := by
  obtain ⟨r, hr, hiff⟩ := containsLoop_spec b hwf hash b.setLocs 0 (by omega)
  refine ⟨r, by unfold Bloom.contains; exact hr, ?_⟩
  rw [hiff]
  unfold Probes
  constructor
  · intro hall j ⟨t, h1, h2⟩; rw [h2]; exact hall t (by omega) (by omega)
  · intro hall t h1 h2; exact hall _ ⟨t, by omega, rfl⟩

theorem clear_spec (b : Bloom) (hwf : b.WF) : b.clear.WF ∧ SameShape b b.clear ∧ ∀ j, b.clear.bit j = false := by
  have hs : SameShape b b.clear := ⟨rfl, rfl, rfl, by simp [Bloom.clear]⟩
  refine ⟨wf_of_shape b _ hwf hs, hs, ?_⟩
  intro j
  unfold Bloom.bit Bloom.clear
  simp only [List.getElem?_map]
  cases b.bits[j >>> 6]? <;> simp

end Bloom
end M
