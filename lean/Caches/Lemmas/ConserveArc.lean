/- Ownership conservation for AdaptiveCache (C04): every primitive's leftover is threaded into the drop list, so the
   equations compose without needing the invariant -/
import Caches.Lemmas.Conserve
import Caches.Lemmas.Arc
set_option linter.unusedSectionVars false
set_option linter.unusedVariables false
namespace M
variable {κ ν : Type} [DecidableEq κ] [DecidableEq ν]
namespace Arc

def heldAll (a : Arc κ ν) : List (Obj κ ν) :=
  held a.recent.items ++ (held a.frequent.items ++ (held a.recentEvict.items ++ held a.frequentEvict.items))

theorem removeLruIn_count (c c' : RawLru κ ν) (e : κ × ν) (h : c.removeLruIn = some (e, c')) (o : Obj κ ν) :
    (held c.items).count o = (held c'.items).count o + (dropEnt e).count o := by
  unfold RawLru.removeLruIn at h
  cases hl : c.items.getLast? with
  | none => simp [hl] at h
  | some x =>
    simp only [hl] at h; injection h with h; injection h with h1 h2; subst h1; subst h2
    have := held_dropLast _ x hl o
    simp only [dropEnt] at *; omega

/-- `replace`: the demoted entry becomes a ghost; whatever the ghost list pushes out is dropped -/
theorem replace_count (a a' : Arc κ ν) (b : Bool) (d : List (Obj κ ν)) (h : a.replace b = .ok (a', d)) (o : Obj κ ν) :
    a.heldAll.count o = a'.heldAll.count o + d.count o := by
  unfold Arc.replace at h
  split at h
  · cases hr : a.recent.removeLruIn with
    | none => simp only [hr] at h; injection h with h; injection h with h1 h2; subst h1; subst h2; simp
    | some x =>
      obtain ⟨e, r'⟩ := x
      simp only [hr] at h
      cases hp : a.recentEvict.putNonnull e with
      | error f => simp [hp] at h
      | ok y =>
        obtain ⟨res, b1'⟩ := y
        simp only [hp] at h; injection h with h; injection h with h1 h2; subst h1; subst h2
        have c1 := removeLruIn_count _ _ _ hr o
        have c2 := RawLru.putNonnull_count _ _ _ _ hp o
        simp only [heldAll, List.count_append] at *; omega
  · cases hr : a.frequent.removeLruIn with
    | none => simp only [hr] at h; injection h with h; injection h with h1 h2; subst h1; subst h2; simp
    | some x =>
      obtain ⟨e, r'⟩ := x
      simp only [hr] at h
      cases hp : a.frequentEvict.putNonnull e with
      | error f => simp [hp] at h
      | ok y =>
        obtain ⟨res, b1'⟩ := y
        simp only [hp] at h; injection h with h; injection h with h1 h2; subst h1; subst h2
        have c1 := removeLruIn_count _ _ _ hr o
        have c2 := RawLru.putNonnull_count _ _ _ _ hp o
        simp only [heldAll, List.count_append] at *; omega

theorem makeRoom_count (a a' : Arc κ ν) (b : Bool) (c : Prop) [Decidable c] (d : List (Obj κ ν))
    (h : (if c then a.replace b else .ok (a, [])) = .ok (a', d)) (o : Obj κ ν) :
    a.heldAll.count o = a'.heldAll.count o + d.count o := by
  split at h
  · exact replace_count a a' b d h o
  · injection h with h; injection h with h1 h2; subst h1; subst h2; simp

theorem trimRecent_count (a : Arc κ ν) (n : Nat) (o : Obj κ ν) :
    a.heldAll.count o = (a.trimRecentGhost n).1.heldAll.count o + (a.trimRecentGhost n).2.count o := by
  have := RawLru.removeLru_count a.recentEvict o
  unfold Arc.trimRecentGhost
  split
  · rcases hx : a.recentEvict.removeLru with ⟨b', r, e⟩
    rw [hx] at this
    cases r <;> (simp only [heldAll, objsE, List.count_append, List.count_nil] at *; omega)
  · simp

theorem trimFrequent_count (a : Arc κ ν) (n : Nat) (o : Obj κ ν) :
    a.heldAll.count o = (a.trimFrequentGhost n).1.heldAll.count o + (a.trimFrequentGhost n).2.count o := by
  have := RawLru.removeLru_count a.frequentEvict o
  unfold Arc.trimFrequentGhost
  split
  · rcases hx : a.frequentEvict.removeLru with ⟨b', r, e⟩
    rw [hx] at this
    cases r <;> (simp only [heldAll, objsE, List.count_append, List.count_nil] at *; omega)
  · simp

/-- `put`: held-before + the pair handed in = held-after + what the result hands back + what was dropped
    (ghost entries pushed out or trimmed are in the drop list — nothing is lost silently) -/
theorem put_count (a a' : Arc κ ν) (k : κ) (v : ν) (r : PutResult κ ν) (d : List (Obj κ ν))
    (hp : a.put k v = .ok (r, a', d)) (o : Obj κ ν) :
    a.heldAll.count o + ([Obj.key k, Obj.val v] : List (Obj κ ν)).count o =
      a'.heldAll.count o + r.drops.count o + d.count o := by
  unfold Arc.put at hp
  cases h1 : a.recent.removeEnt k with
  | some x =>
    obtain ⟨⟨k', old⟩, r'⟩ := x
    simp only [h1] at hp
    cases hq : a.frequent.putNonnull (k', v) with
    | error f => simp [hq] at hp
    | ok y =>
      obtain ⟨res, f'⟩ := y
      simp only [hq] at hp; injection hp with hp; injection hp with e1 hp; injection hp with e2 e3
      subst e1; subst e2; subst e3
      have c1 := RawLru.removeEnt_count _ _ _ _ h1 o
      have c2 := RawLru.putNonnull_count _ _ _ _ hq o
      simp only [heldAll, dropEnt, PutResult.drops, List.count_append, List.count_cons, List.count_nil] at *; omega
  | none =>
    simp only [h1] at hp
    cases h2 : find k a.frequent.items with
    | some old =>
      simp only [h2] at hp; injection hp with hp; injection hp with e1 hp; injection hp with e2 e3
      subst e1; subst e2; subst e3
      have c1 := RawLru.update_count a.frequent k v old h2 o
      simp only [heldAll, PutResult.drops, List.count_append, List.count_cons, List.count_nil] at *; omega
    | none =>
      simp only [h2] at hp
      cases h3 : a.recentEvict.removeEnt k with
      | some x =>
        obtain ⟨⟨k', old⟩, b1'⟩ := x
        simp only [h3] at hp
        split at hp
        · simp at hp
        · generalize hmr : (if a.recent.items.length + a.frequent.items.length ≥ a.size then
              Arc.replace { a with p := _, recentEvict := b1' } false else .ok ({ a with p := _, recentEvict := b1' }, [])) = mr at hp
          cases mr with
          | error f => simp at hp
          | ok y =>
            obtain ⟨a2, d2⟩ := y
            simp only at hp
            cases hq : a2.frequent.putNonnull (k', v) with
            | error f => simp [hq] at hp
            | ok z =>
              obtain ⟨res, f'⟩ := z
              simp only [hq] at hp; injection hp with hp; injection hp with e1 hp; injection hp with e2 e3
              subst e1; subst e2; subst e3
              have c1 := RawLru.removeEnt_count _ _ _ _ h3 o
              have c2 := makeRoom_count _ _ _ _ _ hmr o
              have c3 := RawLru.putNonnull_count _ _ _ _ hq o
              simp only [heldAll, dropEnt, PutResult.drops, List.count_append, List.count_cons, List.count_nil] at *; omega
      | none =>
        simp only [h3] at hp
        cases h4 : a.frequentEvict.removeEnt k with
        | some x =>
          obtain ⟨⟨k', old⟩, b2'⟩ := x
          simp only [h4] at hp
          split at hp
          · simp at hp
          · generalize hmr : (if a.recent.items.length + a.frequent.items.length ≥ a.size then
                Arc.replace { a with p := _, frequentEvict := b2' } true else .ok ({ a with p := _, frequentEvict := b2' }, [])) = mr at hp
            cases mr with
            | error f => simp at hp
            | ok y =>
              obtain ⟨a2, d2⟩ := y
              simp only at hp
              cases hq : a2.frequent.putNonnull (k', v) with
              | error f => simp [hq] at hp
              | ok z =>
                obtain ⟨res, f'⟩ := z
                simp only [hq] at hp; injection hp with hp; injection hp with e1 hp; injection hp with e2 e3
                subst e1; subst e2; subst e3
                have c1 := RawLru.removeEnt_count _ _ _ _ h4 o
                have c2 := makeRoom_count _ _ _ _ _ hmr o
                have c3 := RawLru.putNonnull_count _ _ _ _ hq o
                simp only [heldAll, dropEnt, PutResult.drops, List.count_append, List.count_cons, List.count_nil] at *; omega
        | none =>
          simp only [h4] at hp
          generalize hmr : (if a.recent.items.length + a.frequent.items.length ≥ a.size then a.replace false else .ok (a, [])) = mr at hp
          cases mr with
          | error f => simp at hp
          | ok y =>
            obtain ⟨a1, d1⟩ := y
            simp only at hp
            split at hp
            · simp at hp
            · have c1 := makeRoom_count _ _ _ _ _ hmr o
              have c2 := trimRecent_count a1 a.recentEvict.items.length o
              rcases hA2 : a1.trimRecentGhost a.recentEvict.items.length with ⟨a2, d2⟩
              rw [hA2] at c2 hp
              have c3 := trimFrequent_count a2 a.frequentEvict.items.length o
              rcases hA3 : a2.trimFrequentGhost a.frequentEvict.items.length with ⟨a3, d3⟩
              rw [hA3] at c3 hp
              simp only at hp c2 c3
              cases hq : a3.recent.put k v with
              | error f => simp [hq] at hp
              | ok z =>
                obtain ⟨r', res, e⟩ := z
                simp only [hq] at hp; injection hp with hp; injection hp with e1 hp; injection hp with e2 e3
                subst e1; subst e2; subst e3
                have c4 := RawLru.put_count _ _ _ _ _ _ hq o
                simp only [heldAll, List.count_append] at *; omega

/-- `get` / `get_mut`: only the value written through the returned reference changes hands -/
theorem getMut_count (a a' : Arc κ ν) (k : κ) (w : Option ν) (r : Option ν) (d : List (Obj κ ν))
    (hp : a.getMut k w = .ok (r, a', d)) (o : Obj κ ν) :
    a.heldAll.count o + (wrIn r w : List (Obj κ ν)).count o =
      a'.heldAll.count o + (wrOut r w : List (Obj κ ν)).count o + d.count o := by
  unfold Arc.getMut at hp
  cases h1 : find k a.recent.items with
  | some old =>
    simp only [h1, Arc.moveToFrequent, RawLru.removeEnt] at hp
    cases hq : a.frequent.putNonnull (k, w.getD old) with
    | error f => simp [hq] at hp
    | ok y =>
      obtain ⟨res, f'⟩ := y
      simp only [hq] at hp; injection hp with hp; injection hp with e1 hp; injection hp with e2 e3
      subst e1; subst e2; subst e3
      have c1 := held_erase _ k old h1 o
      have c2 := RawLru.putNonnull_count _ _ _ _ hq o
      cases w <;> (simp only [heldAll, wrIn, wrOut, dropEnt, Option.getD_none, Option.getD_some, List.count_append,
        List.count_cons, List.count_nil] at *; omega)
  | none =>
    simp only [h1, RawLru.getMut] at hp
    cases h2 : find k a.frequent.items with
    | none =>
      simp only [h2] at hp; injection hp with hp; injection hp with e1 hp; injection hp with e2 e3
      subst e1; subst e2; subst e3
      cases w <;> simp [wrIn, wrOut]
    | some old =>
      simp only [h2] at hp; injection hp with hp; injection hp with e1 hp; injection hp with e2 e3
      subst e1; subst e2; subst e3
      have c1 := held_erase _ k old h2 o
      cases w <;> (simp only [heldAll, wrIn, wrOut, use, held_cons, Option.getD_none, Option.getD_some, List.count_append,
        List.count_cons, List.count_nil] at *; omega)

/-- `remove`: T1, T2, B1, B2 in that order -/
theorem remove_count (a : Arc κ ν) (k : κ) (o : Obj κ ν) :
    a.heldAll.count o =
      (a.remove k).1.heldAll.count o + (objsV (a.remove k).2.1 : List (Obj κ ν)).count o + (a.remove k).2.2.count o := by
  unfold Arc.remove
  have c1 := RawLru.remove_count a.recent k o
  have c2 := RawLru.remove_count a.frequent k o
  have c3 := RawLru.remove_count a.recentEvict k o
  have c4 := RawLru.remove_count a.frequentEvict k o
  unfold RawLru.remove at *
  cases h1 : find k a.recent.items with
  | some v => simp only [h1, heldAll, List.count_append] at *; omega
  | none =>
    simp only [h1] at *
    cases h2 : find k a.frequent.items with
    | some v => simp only [h2, heldAll, List.count_append] at *; omega
    | none =>
      simp only [h2] at *
      cases h3 : find k a.recentEvict.items with
      | some v => simp only [h3, heldAll, List.count_append] at *; omega
      | none =>
        simp only [h3] at *
        cases h4 : find k a.frequentEvict.items <;> (simp only [h4, heldAll, List.count_append] at *; omega)

/-- `purge` releases every retained key and value, ghosts included -/
theorem purge_count (a : Arc κ ν) :
    ∃ a' d, a.purge = .ok (a', d) ∧ a'.heldAll = [] ∧ ∀ o : Obj κ ν, a.heldAll.count o = d.count o := by
  obtain ⟨r', e1, h1, hr0, hc1⟩ := RawLru.purge_count a.recent
  obtain ⟨f', e2, h2, hf0, hc2⟩ := RawLru.purge_count a.frequent
  obtain ⟨b1', e3, h3, hb10, hc3⟩ := RawLru.purge_count a.recentEvict
  obtain ⟨b2', e4, h4, hb20, hc4⟩ := RawLru.purge_count a.frequentEvict
  refine ⟨{ a with recent := r', frequent := f', recentEvict := b1', frequentEvict := b2' },
    e1.drops ++ e2.drops ++ e3.drops ++ e4.drops, by simp only [Arc.purge, h1, h2, h3, h4], ?_, fun o => ?_⟩
  · simp only [heldAll, hr0, hf0, hb10, hb20, held_nil, List.append_nil]
  · have := hc1 o; have := hc2 o; have := hc3 o; have := hc4 o
    simp only [heldAll, List.count_append]; omega

theorem drop_count (a : Arc κ ν) (o : Obj κ ν) : a.dropCache.count o = a.heldAll.count o := by
  simp only [Arc.dropCache, RawLru.dropCache, heldAll, held, List.count_append]; omega
end Arc
end M
