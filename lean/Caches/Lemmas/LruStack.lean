/- helper lemmas for C06 `lru_is_stack_prefix`: `erase` against `take`, and the one-step simulation -/
import Caches.Lemmas.Reach
import Caches.Props.LruStack
set_option linter.unusedSectionVars false
set_option linter.unusedVariables false
namespace M.LruStack
variable {κ ν : Type} [DecidableEq κ]

theorem take_erase_absent (k : κ) (D : AL κ ν) (n : Nat) (h : k ∉ keys (D.take n)) : (erase k D).take n = D.take n := by
  induction D generalizing n with
  | nil => simp [erase]
  | cons e t ih =>
    cases n with
    | zero => simp
    | succ n =>
      obtain ⟨k', v⟩ := e
      simp only [List.take_succ_cons, keys_cons, List.mem_cons, not_or] at h
      have hne : k' ≠ k := fun hc => h.1 hc.symm
      simp only [erase, hne, if_false, List.take_succ_cons, ih n h.2]

theorem erase_take_present (k : κ) (D : AL κ ν) (n : Nat) (h : k ∈ keys (D.take n)) :
    erase k (D.take n) = (erase k D).take (n - 1) := by
  induction D generalizing n with
  | nil => simp [keys] at h
  | cons e t ih =>
    cases n with
    | zero => simp [keys] at h
    | succ n =>
      obtain ⟨k', v⟩ := e
      by_cases hk : k' = k
      · simp [erase, hk]
      · simp only [List.take_succ_cons, keys_cons, List.mem_cons] at h
        have ht : k ∈ keys (t.take n) := by
          rcases h with h | h
          · exact absurd h.symm hk
          · exact h
        cases n with
        | zero => simp [keys] at ht
        | succ m =>
          simp only [List.take_succ_cons, erase, hk, if_false, Nat.add_sub_cancel]
          rw [ih (m + 1) ht]; simp

theorem not_mem_take_pred (k : κ) (D : AL κ ν) (n : Nat) (h : k ∉ keys (D.take n)) : k ∉ keys (D.take (n - 1)) := by
  intro hc
  apply h
  have : D.take (n - 1) = (D.take n).take (n - 1) := by rw [List.take_take]; congr 1; omega
  rw [this] at hc
  unfold keys at hc ⊢
  rw [List.map_take] at hc
  exact List.mem_of_mem_take hc

/-- one use on the bounded list = one use on the stack, cut at `cap` -/
theorem step_prefix (cap : Nat) (hc : 0 < cap) (c : RawLru κ ν) (D : AL κ ν) (hcap : c.cap = cap) (hi : c.items = D.take cap)
    (o : UseOp κ ν) : ∃ c', c.step o.toRaw = .ok c' ∧ c'.cap = cap ∧ c'.items = (step cap D o).take cap := by
  obtain ⟨n, rfl⟩ : ∃ n, cap = n + 1 := ⟨cap - 1, by omega⟩
  have present : ∀ k (x : ν), k ∈ keys (D.take (n + 1)) → use k x (D.take (n + 1)) = ((k, x) :: erase k D).take (n + 1) := by
    intro k x hk
    simp only [use, List.take_succ_cons, erase_take_present k D (n + 1) hk, Nat.add_sub_cancel]
  cases o with
  | put k v =>
    cases hf : find k c.items with
    | some old =>
      refine ⟨{ c with items := use k v c.items }, by simp only [UseOp.toRaw, RawLru.step, RawLru.put_present c k v old hf], hcap, ?_⟩
      simp only [step, hi]
      exact present k v (by rw [← hi]; exact find_some_mem k old _ hf)
    | none =>
      have hk : k ∉ keys (D.take (n + 1)) := by rw [← hi]; exact (find_none_iff k _).1 hf
      have hk' := not_mem_take_pred k D (n + 1) hk
      simp only [Nat.add_sub_cancel] at hk'
      by_cases hfull : c.items.length = c.cap
      · obtain ⟨lru, hl⟩ := getLast?_some_of_pos c.items (by omega)
        refine ⟨{ c with items := (k, v) :: c.items.dropLast }, by simp only [UseOp.toRaw, RawLru.step, RawLru.put_absent_full c k v lru hf hfull (by omega) hl], hcap, ?_⟩
        simp only [step, List.take_succ_cons, take_erase_absent k D n hk']
        congr 1
        rw [List.dropLast_eq_take, hfull, hcap, hi, List.take_take]
        congr 1; omega
      · have hlen : c.items.length < n + 1 := by
          have : c.items.length ≤ n + 1 := by rw [hi, List.length_take]; omega
          omega
        refine ⟨{ c with items := (k, v) :: c.items }, by simp only [UseOp.toRaw, RawLru.step, RawLru.put_absent_room c k v hf (by omega)], hcap, ?_⟩
        simp only [step, List.take_succ_cons, take_erase_absent k D n hk']
        congr 1
        have hD : D.length ≤ n := by rw [hi, List.length_take] at hlen; omega
        rw [hi, List.take_of_length_le (by omega), List.take_of_length_le hD]
  | get k w =>
    simp only [UseOp.toRaw, RawLru.step, RawLru.getMut, step, ← hi]
    cases hf : find k c.items with
    | some old =>
      refine ⟨{ c with items := use k (w.getD old) c.items }, rfl, hcap, ?_⟩
      simp only [hi]
      exact present k _ (by rw [← hi]; exact find_some_mem k old _ hf)
    | none => exact ⟨c, rfl, hcap, hi⟩

end M.LruStack
