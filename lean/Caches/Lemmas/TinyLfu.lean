/- TinyLFU: well-formedness (totality), the exact reference counter, and the simulation between the two. -/
import Caches.Model.TinyLfu
import Caches.Lemmas.Sketch
import Caches.Lemmas.Bloom
set_option linter.unusedSectionVars false
set_option linter.unusedVariables false
set_option linter.unusedSimpArgs false
namespace M
namespace TinyLfu

structure WF (t : TinyLfu) : Prop where
  sk : t.sketch.WF
  dk : t.door.WF

/-- the executable check is sound for the well-formedness the theorems assume -/
theorem wfb_sound (t : TinyLfu) (h : t.wfb = true) : t.WF := by
  unfold TinyLfu.wfb Sketch.wfb Bloom.wfb at h
  simp only [Bool.and_eq_true, List.all_eq_true, decide_eq_true_eq, Bool.not_eq_true', List.isEmpty_eq_false_iff] at h
  obtain ⟨⟨⟨h1, h2⟩, h3⟩, ⟨⟨⟨d1, d2⟩, d3⟩, d4⟩⟩ := h
  refine ⟨⟨?_, ?_, h3⟩, ⟨d1, d2, d3, d4⟩⟩
  · intro r hr
    have := h1 r hr
    exact ⟨fun b hb => this.1 b hb, this.2⟩
  · cases hs : t.sketch.scheme with
    | std seeds => rw [hs] at h2; simpa using h2
    | core => trivial

/-- the doorkeeper holds the hash: all its probe bits are set -/
def Has (t : TinyLfu) (h : UInt64) : Prop := ∀ j, Bloom.Probes t.door h j → t.door.bit j = true

/-- same sketch geometry: positions are computed identically -/
def SameGeo (t t' : TinyLfu) : Prop :=
  t'.sketch.mask = t.sketch.mask ∧ t'.sketch.scheme = t.sketch.scheme ∧ t'.sketch.rows.length = t.sketch.rows.length ∧
  Bloom.SameShape t.door t'.door ∧ t'.samples = t.samples

theorem posN_geo (t t' : TinyLfu) (h : SameGeo t t') (i : Nat) (x : UInt64) :
    t'.sketch.posN i x = t.sketch.posN i x := by
  unfold Sketch.posN; rw [h.1, h.2.1]

theorem probes_geo (t t' : TinyLfu) (h : SameGeo t t') (x : UInt64) (j : Nat) :
    Bloom.Probes t'.door x j ↔ Bloom.Probes t.door x j := by
  unfold Bloom.Probes
  simp only [Bloom.idxOf_shape t.door t'.door h.2.2.2.1, h.2.2.2.1.2.1]

theorem sameGeo_refl (t : TinyLfu) : SameGeo t t := ⟨rfl, rfl, rfl, ⟨rfl, rfl, rfl, rfl⟩, rfl⟩
theorem sameGeo_trans (a b c : TinyLfu) (h1 : SameGeo a b) (h2 : SameGeo b c) : SameGeo a c := by
  obtain ⟨a1, a2, a3, ⟨a4, a5, a6, a7⟩, a8⟩ := h1
  obtain ⟨b1, b2, b3, ⟨b4, b5, b6, b7⟩, b8⟩ := h2
  exact ⟨by rw [b1, a1], by rw [b2, a2], by rw [b3, a3], ⟨by rw [b4, a4], by rw [b5, a5], by rw [b6, a6], by rw [b7, a7]⟩, by rw [b8, a8]⟩

/-! ### `reset`, `try_reset`, `clear` -/

theorem reset_spec (t : TinyLfu) (hwf : t.WF) :
    t.reset.WF ∧ SameGeo t t.reset ∧ t.reset.w = 0 ∧
    (∀ i p, t.reset.sketch.ctr i p = t.sketch.ctr i p / 2) ∧ (∀ j, t.reset.door.bit j = false) := by
  have sr := Sketch.reset_spec t.sketch hwf.sk
  have dc := Bloom.clear_spec t.door hwf.dk
  unfold TinyLfu.reset
  exact ⟨⟨sr.1, dc.1⟩, ⟨rfl, rfl, sr.2.1, dc.2.1, rfl⟩, rfl, sr.2.2, dc.2.2⟩

theorem clear_spec (t : TinyLfu) (hwf : t.WF) :
    t.clear.WF ∧ SameGeo t t.clear ∧ t.clear.w = 0 ∧
    (∀ i p, t.clear.sketch.ctr i p = 0) ∧ (∀ j, t.clear.door.bit j = false) := by
  have sr := Sketch.clear_spec t.sketch hwf.sk
  have dc := Bloom.clear_spec t.door hwf.dk
  unfold TinyLfu.clear
  exact ⟨⟨sr.1, dc.1⟩, ⟨rfl, rfl, sr.2.1, dc.2.1, rfl⟩, rfl, sr.2.2, dc.2.2⟩

theorem tryReset_cases (t : TinyLfu) :
    (t.w + 1 ≥ t.samples ∧ t.tryReset = ({ t with w := t.w + 1 } : TinyLfu).reset) ∨
    (t.w + 1 < t.samples ∧ t.tryReset = { t with w := t.w + 1 }) := by
  unfold TinyLfu.tryReset
  by_cases h : t.w + 1 ≥ t.samples
  · exact Or.inl ⟨h, by simp [h]⟩
  · exact Or.inr ⟨by omega, by simp [h]⟩

theorem tryReset_wf (t : TinyLfu) (hwf : t.WF) : t.tryReset.WF ∧ SameGeo t t.tryReset := by
  rcases tryReset_cases t with ⟨_, h⟩ | ⟨_, h⟩
  · rw [h]
    have := reset_spec ({ t with w := t.w + 1 } : TinyLfu) ⟨hwf.sk, hwf.dk⟩
    exact ⟨this.1, this.2.1⟩
  · rw [h]; exact ⟨⟨hwf.sk, hwf.dk⟩, sameGeo_refl _⟩

/-! ### `contains`, `estimate`, `increment` never fault on a well-formed estimator -/

theorem contains_spec (t : TinyLfu) (hwf : t.WF) (h : UInt64) :
    ∃ r, t.contains h = .ok r ∧ (r = true ↔ Has t h) := by
  obtain ⟨r, hr, hiff⟩ := Bloom.contains_spec t.door hwf.dk h
  exact ⟨r, hr, hiff⟩

theorem estimate_spec (t : TinyLfu) (hwf : t.WF) (h : UInt64) :
    ∃ e b, t.estimate h = .ok (e + (if b then 1 else 0)) ∧ (b = true ↔ Has t h) ∧ e ≤ 15 ∧
      (∀ i, i < t.sketch.rows.length → e ≤ t.sketch.ctr i (t.sketch.posN i h)) ∧
      (∃ i, i < t.sketch.rows.length ∧ e = t.sketch.ctr i (t.sketch.posN i h)) := by
  obtain ⟨e, he, h15, hle, hex⟩ := Sketch.estimate_spec t.sketch hwf.sk h
  obtain ⟨b, hb, hiff⟩ := Bloom.contains_spec t.door hwf.dk h
  refine ⟨e, b, ?_, hiff, h15, hle, hex⟩
  unfold TinyLfu.estimate
  simp only [he, hb]
  cases b <;> simp

theorem increment_spec (t : TinyLfu) (hwf : t.WF) (h : UInt64) :
    ∃ t1, t.increment h = .ok t1.tryReset ∧ t1.WF ∧ SameGeo t t1 ∧ t1.w = t.w ∧
      ((¬ Has t h ∧ t1.sketch = t.sketch ∧ (∀ j, t1.door.bit j = true ↔ t.door.bit j = true ∨ Bloom.Probes t.door h j)) ∨
       (Has t h ∧ t1.door = t.door ∧
         ∀ i, i < t.sketch.rows.length → ∀ p, t1.sketch.ctr i p =
           if p = t.sketch.posN i h then min 15 (t.sketch.ctr i p + 1) else t.sketch.ctr i p)) := by
  obtain ⟨b, hb, hiff⟩ := Bloom.contains_spec t.door hwf.dk h
  unfold TinyLfu.increment Bloom.containsOrAdd
  simp only [hb]
  cases b with
  | false =>
    obtain ⟨d', hadd, hshape, hbits⟩ := Bloom.add_spec t.door hwf.dk h
    simp only [hadd]
    refine ⟨{ t with door := d' }, rfl, ⟨hwf.sk, Bloom.wf_of_shape _ _ hwf.dk hshape⟩, ⟨rfl, rfl, rfl, hshape, rfl⟩, rfl, ?_⟩
    left
    exact ⟨fun hc => Bool.false_ne_true (hiff.2 hc), rfl, hbits⟩
  | true =>
    obtain ⟨s', hinc, hswf, hm, hsc, hl, hctr⟩ := Sketch.increment_spec t.sketch hwf.sk h
    simp only [hinc]
    refine ⟨{ t with door := t.door, sketch := s' }, rfl, ⟨hswf, hwf.dk⟩, ⟨hm, hsc, hl, ⟨rfl, rfl, rfl, rfl⟩, rfl⟩, rfl, ?_⟩
    right
    exact ⟨hiff.1 rfl, rfl, hctr⟩

theorem increment_total (t : TinyLfu) (hwf : t.WF) (h : UInt64) :
    ∃ t', t.increment h = .ok t' ∧ t'.WF ∧ SameGeo t t' := by
  obtain ⟨t1, hinc, hwf1, hgeo, _, _⟩ := increment_spec t hwf h
  have := tryReset_wf t1 hwf1
  exact ⟨_, hinc, this.1, sameGeo_trans _ _ _ hgeo this.2⟩

theorem compare_total (t : TinyLfu) (hwf : t.WF) (c : Cmp) (a b : UInt64) : ∃ r, t.compare c a b = .ok r := by
  obtain ⟨ea, ba, ha, _⟩ := estimate_spec t hwf a
  obtain ⟨eb, bb, hb, _⟩ := estimate_spec t hwf b
  refine ⟨c.eval (ea + if ba = true then 1 else 0) (eb + if bb = true then 1 else 0), ?_⟩
  unfold TinyLfu.compare TinyLfu.compareHelper
  rw [ha, hb]

/-! ### the exact reference: per-hash aged access counts -/

/-- exact bookkeeping per 64-bit hash: `door h` = seen in this sample window, `cnt h` = aged count of the further accesses -/
structure Ref where
  cnt : UInt64 → Nat
  door : UInt64 → Bool
  w : Nat

def Ref.zero : Ref := { cnt := fun _ => 0, door := fun _ => false, w := 0 }

/-- a reset: counts halved, doorkeeper forgotten, window counter back to 0 -/
def Ref.reset (r : Ref) : Ref := { cnt := fun h => r.cnt h / 2, door := fun _ => false, w := 0 }

/-- one more recorded access or explicit `try_reset`; a reset happens exactly when the count reaches `samples` -/
def Ref.tryReset (r : Ref) (samples : Nat) : Ref :=
  if r.w + 1 ≥ samples then ({ r with w := r.w + 1 } : Ref).reset else { r with w := r.w + 1 }

/-- first access in a window sets the doorkeeper bit, further ones count up to 15 -/
def Ref.increment (r : Ref) (samples : Nat) (h : UInt64) : Ref :=
  (if r.door h then { r with cnt := fun x => if x = h then min 15 (r.cnt h + 1) else r.cnt x }
   else { r with door := fun x => if x = h then true else r.door x }).tryReset samples

def Ref.estimate (r : Ref) (h : UInt64) : Nat := r.cnt h + (if r.door h then 1 else 0)

/-- the simulation: the estimator dominates the exact reference, bit for bit and counter for counter -/
structure Sim (t : TinyLfu) (r : Ref) : Prop where
  w_eq : t.w = r.w
  door_le : ∀ h, r.door h = true → Has t h
  cnt_le : ∀ h i, i < t.sketch.rows.length → r.cnt h ≤ t.sketch.ctr i (t.sketch.posN i h)

theorem sim_tryReset (t : TinyLfu) (r : Ref) (hwf : t.WF) (hs : Sim t r) : Sim t.tryReset (r.tryReset t.samples) := by
  obtain ⟨hw, hd, hc⟩ := hs
  unfold Ref.tryReset
  rcases tryReset_cases t with ⟨hge, h⟩ | ⟨hlt, h⟩
  · rw [h]
    have hge' : r.w + 1 ≥ t.samples := by omega
    simp only [hge', if_true]
    have rs := reset_spec ({ t with w := t.w + 1 } : TinyLfu) ⟨hwf.sk, hwf.dk⟩
    refine ⟨by rw [rs.2.2.1]; rfl, ?_, ?_⟩
    · intro h hdoor; simp [Ref.reset] at hdoor
    · intro h i hi
      rw [rs.2.1.2.2.1] at hi
      rw [rs.2.2.2.1, posN_geo _ _ rs.2.1]
      simp only [Ref.reset]
      exact Nat.div_le_div_right (hc h i hi)
  · rw [h]
    have hlt' : ¬ (r.w + 1 ≥ t.samples) := by omega
    simp only [hlt', if_false]
    exact ⟨by simp only; omega, hd, hc⟩

theorem sim_increment (t : TinyLfu) (r : Ref) (hwf : t.WF) (hs : Sim t r) (h : UInt64) :
    ∃ t', t.increment h = .ok t' ∧ t'.WF ∧ SameGeo t t' ∧ Sim t' (r.increment t.samples h) := by
  obtain ⟨t1, hinc, hwf1, hgeo, hw1, hcase⟩ := increment_spec t hwf h
  have tr := tryReset_wf t1 hwf1
  refine ⟨_, hinc, tr.1, sameGeo_trans _ _ _ hgeo tr.2, ?_⟩
  unfold Ref.increment
  have hsamp : t1.samples = t.samples := hgeo.2.2.2.2
  rw [← hsamp]
  apply sim_tryReset t1 _ hwf1
  obtain ⟨hw, hd, hc⟩ := hs
  rcases hcase with ⟨hnot, hsk, hbits⟩ | ⟨hhas, hdoor, hctr⟩
  · -- the doorkeeper did not hold the hash: by the simulation the reference had not seen it either
    have hrd : r.door h = false := by
      cases hrd : r.door h with
      | false => rfl
      | true => exact absurd (hd h hrd) hnot
    simp only [hrd, Bool.false_eq_true, if_false]
    refine ⟨by rw [hw1]; exact hw, ?_, ?_⟩
    · intro x hx
      intro j hj
      rw [probes_geo t t1 hgeo] at hj
      rw [hbits j]
      by_cases hxh : x = h
      · subst hxh; exact Or.inr hj
      · simp only [hxh, if_false] at hx
        exact Or.inl (hd x hx j hj)
    · intro x i hi
      rw [hsk] at hi ⊢
      exact hc x i hi
  · have hgl : t1.sketch.rows.length = t.sketch.rows.length := hgeo.2.2.1
    by_cases hrd : r.door h = true
    · simp only [hrd, if_true]
      refine ⟨by rw [hw1]; exact hw, ?_, ?_⟩
      · intro x hx j hj
        rw [probes_geo t t1 hgeo] at hj
        rw [hdoor]; exact hd x hx j hj
      · intro x i hi
        rw [hgl] at hi
        rw [posN_geo t t1 hgeo, hctr i hi]
        have h15 := Sketch.ctr_le t.sketch hwf.sk i (t.sketch.posN i x)
        by_cases hxh : x = h
        · subst hxh; simp only [if_true]
          have := hc x i hi
          omega
        · simp only [hxh, if_false]
          have := hc x i hi
          by_cases hp : t.sketch.posN i x = t.sketch.posN i h
          · simp only [hp, if_true]; rw [← hp]; omega
          · simp only [hp, if_false]; exact this
    · have hrd' : r.door h = false := by simpa using hrd
      simp only [hrd', Bool.false_eq_true, if_false]
      refine ⟨by rw [hw1]; exact hw, ?_, ?_⟩
      · intro x hx j hj
        rw [probes_geo t t1 hgeo] at hj
        rw [hdoor]
        by_cases hxh : x = h
        · subst hxh; exact hhas j hj
        · simp only [hxh, if_false] at hx; exact hd x hx j hj
      · intro x i hi
        rw [hgl] at hi
        rw [posN_geo t t1 hgeo, hctr i hi]
        have := hc x i hi
        have h15 := Sketch.ctr_le t.sketch hwf.sk i (t.sketch.posN i x)
        by_cases hp : t.sketch.posN i x = t.sketch.posN i h
        · simp only [hp, if_true]; rw [← hp]; omega
        · simp only [hp, if_false]; exact this

theorem sim_clear (t : TinyLfu) (hwf : t.WF) : Sim t.clear Ref.zero := by
  have cs := clear_spec t hwf
  refine ⟨cs.2.2.1, ?_, ?_⟩
  · intro h hd; simp [Ref.zero] at hd
  · intro h i hi; simp [Ref.zero]

/-- never under-counts, never exceeds 16 -/
theorem estimate_bounds (t : TinyLfu) (r : Ref) (hwf : t.WF) (hs : Sim t r) (h : UInt64) :
    ∃ e, t.estimate h = .ok e ∧ r.estimate h ≤ e ∧ e ≤ 16 := by
  obtain ⟨e, b, he, hb, h15, hle, ⟨i, hi, hex⟩⟩ := estimate_spec t hwf h
  refine ⟨_, he, ?_, by split <;> omega⟩
  unfold Ref.estimate
  have hc := hs.cnt_le h i hi
  rw [← hex] at hc
  by_cases hd : r.door h = true
  · have := hb.2 (hs.door_le h hd)
    simp only [hd, this, if_true]; omega
  · have hd' : r.door h = false := by simpa using hd
    simp only [hd', Bool.false_eq_true, if_false]
    split <;> omega

/-- no false negatives of the doorkeeper -/
theorem contains_of_ref (t : TinyLfu) (r : Ref) (hwf : t.WF) (hs : Sim t r) (h : UInt64) (hd : r.door h = true) :
    t.contains h = .ok true := by
  obtain ⟨b, hb, hiff⟩ := contains_spec t hwf h
  rw [hb, hiff.2 (hs.door_le h hd)]

/-! ### exactness when a single hash is ever recorded -/

/-- estimator and reference agree exactly on the one hash `h0` -/
structure Exact (t : TinyLfu) (r : Ref) (h0 : UInt64) : Prop where
  w_eq : t.w = r.w
  door_iff : Has t h0 ↔ r.door h0 = true
  cnt_eq : ∀ i, i < t.sketch.rows.length → t.sketch.ctr i (t.sketch.posN i h0) = r.cnt h0
  cnt_le : r.cnt h0 ≤ 15

theorem not_has_of_clear_bits (t : TinyLfu) (hwf : t.WF) (h : UInt64) (hb : ∀ j, t.door.bit j = false) : ¬ Has t h := by
  intro hc
  have := hc (t.door.idxOf h 0) ⟨0, hwf.dk.locs_pos, rfl⟩
  rw [hb] at this; cases this

theorem exact_tryReset (t : TinyLfu) (r : Ref) (h0 : UInt64) (hwf : t.WF) (hs : Exact t r h0) :
    Exact t.tryReset (r.tryReset t.samples) h0 := by
  obtain ⟨hw, hd, hc, hle⟩ := hs
  unfold Ref.tryReset
  rcases tryReset_cases t with ⟨hge, h⟩ | ⟨hlt, h⟩
  · rw [h]
    have hge' : r.w + 1 ≥ t.samples := by omega
    simp only [hge', if_true]
    have rs := reset_spec ({ t with w := t.w + 1 } : TinyLfu) ⟨hwf.sk, hwf.dk⟩
    refine ⟨by rw [rs.2.2.1]; rfl, ?_, ?_, ?_⟩
    · constructor
      · intro hh; exact absurd hh (not_has_of_clear_bits _ rs.1 h0 rs.2.2.2.2)
      · intro hh; simp [Ref.reset] at hh
    · intro i hi
      rw [rs.2.1.2.2.1] at hi
      rw [rs.2.2.2.1, posN_geo _ _ rs.2.1]
      simp only [Ref.reset]
      rw [hc i hi]
    · simp only [Ref.reset]; omega
  · rw [h]
    have hlt' : ¬ (r.w + 1 ≥ t.samples) := by omega
    simp only [hlt', if_false]
    exact ⟨by simp only; omega, hd, hc, hle⟩

theorem exact_increment (t : TinyLfu) (r : Ref) (h0 : UInt64) (hwf : t.WF) (hs : Exact t r h0) :
    ∃ t', t.increment h0 = .ok t' ∧ t'.WF ∧ SameGeo t t' ∧ Exact t' (r.increment t.samples h0) h0 := by
  obtain ⟨t1, hinc, hwf1, hgeo, hw1, hcase⟩ := increment_spec t hwf h0
  have tr := tryReset_wf t1 hwf1
  refine ⟨_, hinc, tr.1, sameGeo_trans _ _ _ hgeo tr.2, ?_⟩
  unfold Ref.increment
  have hsamp : t1.samples = t.samples := hgeo.2.2.2.2
  rw [← hsamp]
  apply exact_tryReset t1 _ h0 hwf1
  obtain ⟨hw, hd, hc, hle⟩ := hs
  have hgl : t1.sketch.rows.length = t.sketch.rows.length := hgeo.2.2.1
  rcases hcase with ⟨hnot, hsk, hbits⟩ | ⟨hhas, hdoor, hctr⟩
  · have hrd : r.door h0 = false := by
      cases hrd : r.door h0 with
      | false => rfl
      | true => exact absurd (hd.2 hrd) hnot
    simp only [hrd, Bool.false_eq_true, if_false]
    refine ⟨by rw [hw1]; exact hw, ?_, ?_, hle⟩
    · constructor
      · intro _; simp
      · intro _ j hj
        rw [probes_geo t t1 hgeo] at hj
        rw [hbits j]; exact Or.inr hj
    · intro i hi
      rw [hsk] at hi ⊢
      exact hc i hi
  · have hrd : r.door h0 = true := hd.1 hhas
    simp only [hrd, if_true]
    refine ⟨by rw [hw1]; exact hw, ?_, ?_, by simp only [if_true]; omega⟩
    · constructor
      · intro _; exact hrd
      · intro _ j hj
        rw [probes_geo t t1 hgeo] at hj
        rw [hdoor]; exact hhas j hj
    · intro i hi
      rw [hgl] at hi
      rw [posN_geo t t1 hgeo, hctr i hi]
      simp only [if_true, hc i hi]

theorem exact_clear (t : TinyLfu) (hwf : t.WF) (h0 : UInt64) : Exact t.clear Ref.zero h0 := by
  have cs := clear_spec t hwf
  refine ⟨cs.2.2.1, ?_, ?_, by simp [Ref.zero]⟩
  · constructor
    · intro hh; exact absurd hh (not_has_of_clear_bits _ cs.1 h0 cs.2.2.2.2)
    · intro hh; simp [Ref.zero] at hh
  · intro i hi; rw [cs.2.2.2.1]; rfl

theorem estimate_exact (t : TinyLfu) (r : Ref) (h0 : UInt64) (hwf : t.WF) (hs : Exact t r h0) :
    t.estimate h0 = .ok (r.estimate h0) := by
  obtain ⟨e, b, he, hb, h15, hle, ⟨i, hi, hex⟩⟩ := estimate_spec t hwf h0
  rw [he]
  unfold Ref.estimate
  rw [hex, hs.cnt_eq i hi]
  by_cases hd : r.door h0 = true
  · have := hb.2 (hs.door_iff.2 hd)
    simp only [hd, this]
  · have hd' : r.door h0 = false := by simpa using hd
    have : b = false := by
      cases hb' : b with
      | false => rfl
      | true => exact absurd (hs.door_iff.1 (hb.1 hb')) hd
    simp only [hd', this]

end TinyLfu
end M
