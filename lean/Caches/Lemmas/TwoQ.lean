/- Backbone for `TwoQ`: invariant, totality and preservation for every operation. -/
import Caches.Model.TwoQ
import Caches.Lemmas.Prims
set_option linter.unusedSectionVars false
set_option linter.unusedVariables false
set_option linter.unusedSimpArgs false
namespace M
variable {κ ν : Type} [DecidableEq κ]
namespace TwoQ

structure Inv (q : TwoQ κ ν) : Prop where
  ndr : (keys q.recent.items).Nodup
  ndf : (keys q.frequent.items).Nodup
  ndg : (keys q.ghost.items).Nodup
  drf : ∀ x, x ∈ keys q.recent.items → x ∉ keys q.frequent.items
  drg : ∀ x, x ∈ keys q.recent.items → x ∉ keys q.ghost.items
  dfg : ∀ x, x ∈ keys q.frequent.items → x ∉ keys q.ghost.items
  bound : q.recent.items.length + q.frequent.items.length ≤ q.size
  gbound : q.ghost.items.length ≤ q.ghost.cap
  rcap : q.recent.cap = q.size
  fcap : q.frequent.cap = q.size
  spos : 0 < q.size
  gpos : 0 < q.ghost.cap

/-- configuration never changes -/
def SameCfg (q q' : TwoQ κ ν) : Prop :=
  q'.size = q.size ∧ q'.rs = q.rs ∧ q'.ghost.cap = q.ghost.cap ∧ q'.recent.cap = q.recent.cap ∧ q'.frequent.cap = q.frequent.cap

theorem inv_new (size : Nat) (rr gr : RatioClass) (rs es : Nat) (q : TwoQ κ ν)
    (h : TwoQ.new size rr gr rs es = .ok q) : q.Inv := by
  unfold TwoQ.new at h
  repeat (split at h; · simp at h)
  injection h with h; subst h
  constructor <;> simp <;> omega

theorem takeVictim_ok (q : TwoQ κ ν) (newKey : Bool)
    (h : 0 < q.recent.items.length + q.frequent.items.length) :
    ∃ vic q1, q.takeVictim q.recent.items.length q.frequent.items.length newKey = .ok (vic, q1) ∧
      ((q.fromRecent q.recent.items.length q.frequent.items.length newKey = true ∧ q.recent.items.getLast? = some vic ∧
          q1 = { q with recent := { q.recent with items := q.recent.items.dropLast } }) ∨
       (q.fromRecent q.recent.items.length q.frequent.items.length newKey = false ∧ q.frequent.items.getLast? = some vic ∧
          q1 = { q with frequent := { q.frequent with items := q.frequent.items.dropLast } })) := by
  unfold TwoQ.takeVictim
  by_cases hc : q.fromRecent q.recent.items.length q.frequent.items.length newKey = true
  · have hpos : 0 < q.recent.items.length := by
      simp [TwoQ.fromRecent] at hc; omega
    obtain ⟨e, he⟩ := getLast?_some_of_pos _ hpos
    exact ⟨e, _, by simp [hc, RawLru.removeLruIn, he], Or.inl ⟨hc, he, rfl⟩⟩
  · have hpos : 0 < q.frequent.items.length := by
      by_cases hr : 0 < q.recent.items.length
      · simp [TwoQ.fromRecent, hr] at hc; exact List.length_pos_iff.2 hc.2
      · omega
    obtain ⟨e, he⟩ := getLast?_some_of_pos _ hpos
    exact ⟨e, _, by simp [hc, RawLru.removeLruIn, he], Or.inr ⟨by simpa using hc, he, rfl⟩⟩

theorem takeVictim_facts (q : TwoQ κ ν) (h : q.Inv) (vic : κ × ν) (q1 : TwoQ κ ν)
    (hq1 : (q.recent.items.getLast? = some vic ∧
          q1 = { q with recent := { q.recent with items := q.recent.items.dropLast } }) ∨
       (q.frequent.items.getLast? = some vic ∧
          q1 = { q with frequent := { q.frequent with items := q.frequent.items.dropLast } })) :
    (keys q1.recent.items).Nodup ∧ (keys q1.frequent.items).Nodup ∧ q1.ghost = q.ghost ∧
    q1.size = q.size ∧ q1.rs = q.rs ∧ q1.recent.cap = q.recent.cap ∧ q1.frequent.cap = q.frequent.cap ∧
    (∀ x, x ∈ keys q1.recent.items → x ∈ keys q.recent.items) ∧
    (∀ x, x ∈ keys q1.frequent.items → x ∈ keys q.frequent.items) ∧
    vic.1 ∉ keys q1.recent.items ∧ vic.1 ∉ keys q1.frequent.items ∧
    (vic.1 ∈ keys q.recent.items ∨ vic.1 ∈ keys q.frequent.items) ∧
    q1.recent.items.length + q1.frequent.items.length + 1 =
      q.recent.items.length + q.frequent.items.length := by
  rcases hq1 with ⟨hl, rfl⟩ | ⟨hl, rfl⟩
  · have lf := last_facts _ _ hl h.ndr
    have := h.drf
    refine ⟨lf.2.2.1, h.ndf, rfl, rfl, rfl, rfl, rfl, lf.2.2.2.1, fun _ hx => hx, lf.2.1, ?_, Or.inl lf.1, ?_⟩
    · exact this _ lf.1
    · simp only; omega
  · have lf := last_facts _ _ hl h.ndf
    have := h.drf
    refine ⟨h.ndr, lf.2.2.1, rfl, rfl, rfl, rfl, rfl, fun _ hx => hx, lf.2.2.2.1, ?_, lf.2.1, Or.inr lf.1, ?_⟩
    · intro hc; exact this _ hc lf.1
    · simp only; omega

theorem put_total_inv (q : TwoQ κ ν) (k : κ) (v : ν) (h : q.Inv) :
    ∃ r q' d, q.put k v = .ok (r, q', d) ∧ q'.Inv ∧ SameCfg q q' := by
  obtain ⟨ndr, ndf, ndg, drf, drg, dfg, hb, hgb, hrc, hfc, hsp, hgp⟩ := h
  have h : q.Inv := ⟨ndr, ndf, ndg, drf, drg, dfg, hb, hgb, hrc, hfc, hsp, hgp⟩
  unfold TwoQ.put
  cases hf : find k q.frequent.items with
  | some old =>
    have ef := erase_facts _ k old hf ndf
    refine ⟨_, _, _, rfl, ?_, ⟨rfl, rfl, rfl, rfl, rfl⟩⟩
    constructor <;> simp only [RawLru.update, use, keys_cons, List.nodup_cons, List.mem_cons, List.length_cons] <;>
      first | assumption | omega | grind
  | none =>
    have hkf := (find_none_iff k _).1 hf
    cases hr : find k q.recent.items with
    | some old =>
      have er := erase_facts _ k old hr ndr
      have hroom : q.frequent.items.length < q.frequent.cap := by omega
      simp only [RawLru.removeEnt, hr, RawLru.putNonnull_room _ _ hroom]
      refine ⟨_, _, _, rfl, ?_, ⟨rfl, rfl, rfl, rfl, rfl⟩⟩
      constructor <;> simp only [keys_cons, List.nodup_cons, List.mem_cons, List.length_cons] <;>
        first | assumption | omega | grind
    | none =>
      have hkr := (find_none_iff k _).1 hr
      simp only [RawLru.removeEnt, hr]
      cases hg : find k q.ghost.items with
      | some old =>
        have eg := erase_facts _ k old hg ndg
        by_cases hfull : q.recent.items.length + q.frequent.items.length ≥ q.size
        · simp only [hfull, if_true]
          obtain ⟨vic, q1, hv, hq1⟩ := takeVictim_ok q false (by omega)
          simp only [hv]
          have hq1' : (q.recent.items.getLast? = some vic ∧
                q1 = { q with recent := { q.recent with items := q.recent.items.dropLast } }) ∨
             (q.frequent.items.getLast? = some vic ∧
                q1 = { q with frequent := { q.frequent with items := q.frequent.items.dropLast } }) := by
            rcases hq1 with ⟨_, a, b⟩ | ⟨_, a, b⟩
            · exact Or.inl ⟨a, b⟩
            · exact Or.inr ⟨a, b⟩
          obtain ⟨nr1, nf1, hgq, hsz, hrs, hrc1, hfc1, sr, sf, vnr, vnf, vin, hlen⟩ :=
            takeVictim_facts q h vic q1 hq1'
          have hvk : vic.1 ≠ k := by grind
          have hvg : vic.1 ∉ keys q.ghost.items := by grind
          have hroom : q1.frequent.items.length < q1.frequent.cap := by omega
          have hkf1 : k ∉ keys q1.frequent.items := fun hc => hkf (sf _ hc)
          have hkr1 : k ∉ keys q1.recent.items := fun hc => hkr (sr _ hc)
          rw [hgq]
          by_cases hgfull : q.ghost.cap ≤ q.ghost.items.length
          · obtain ⟨gl, hgl⟩ := getLast?_some_of_pos q.ghost.items (by omega)
            have lf := last_facts _ _ hgl ndg
            simp only [RawLru.putOrEvict_full _ _ gl hgfull hgl, find_cons_ne _ _ _ hvk,
              find_dropLast _ k gl hgl ndg]
            by_cases hglk : gl.1 = k
            · simp only [hglk, if_true, RawLru.putNonnull_room _ _ hroom]
              refine ⟨_, _, _, rfl, ?_, ⟨hsz, hrs, by simp only [hgq], hrc1, hfc1⟩⟩
              constructor <;> simp only [keys_cons, keys_cons', List.nodup_cons, List.mem_cons, List.length_cons, hgq] <;>
                first | assumption | omega | grind
            · simp only [hglk, if_false, hg, erase_cons_ne _ _ _ hvk, RawLru.putNonnull_room _ _ hroom]
              have egd := erase_facts q.ghost.items.dropLast k old (by rw [find_dropLast _ k gl hgl ndg]; simp [hglk, hg]) lf.2.2.1
              refine ⟨_, _, _, rfl, ?_, ⟨hsz, hrs, by simp only [hgq], hrc1, hfc1⟩⟩
              constructor <;> simp only [keys_cons, keys_cons', List.nodup_cons, List.mem_cons, List.length_cons, hgq] <;>
                first | assumption | omega | grind
          · have hgroom : q.ghost.items.length < q.ghost.cap := by omega
            simp only [RawLru.putOrEvict_room _ _ hgroom, find_cons_ne _ _ _ hvk, hg,
              RawLru.putNonnull_room _ _ hroom, erase_cons_ne _ _ _ hvk]
            refine ⟨_, _, _, rfl, ?_, ⟨hsz, hrs, by simp only [hgq], hrc1, hfc1⟩⟩
            constructor <;> simp only [keys_cons, keys_cons', List.nodup_cons, List.mem_cons, List.length_cons, hgq] <;>
              first | assumption | omega | grind
        · have hroom : q.frequent.items.length < q.frequent.cap := by omega
          simp only [hfull, if_false, RawLru.putNonnull_room _ _ hroom]
          refine ⟨_, _, _, rfl, ?_, ⟨rfl, rfl, rfl, rfl, rfl⟩⟩
          constructor <;> simp only [keys_cons, List.nodup_cons, List.mem_cons, List.length_cons] <;>
            first | assumption | omega | grind
      | none =>
        have hkg := (find_none_iff k _).1 hg
        by_cases hroomy : q.frequent.items.length + q.recent.items.length < q.size
        · have hrr : q.recent.items.length < q.recent.cap := by omega
          simp only [hroomy, if_true, RawLru.putOrEvict_room _ _ hrr]
          refine ⟨_, _, _, rfl, ?_, ⟨rfl, rfl, rfl, rfl, rfl⟩⟩
          constructor <;> simp only [keys_cons, List.nodup_cons, List.mem_cons, List.length_cons] <;>
            first | assumption | omega | grind
        · simp only [hroomy, if_false]
          obtain ⟨vic, q1, hv, hq1⟩ := takeVictim_ok q true (by omega)
          simp only [hv]
          have hq1' : (q.recent.items.getLast? = some vic ∧
                q1 = { q with recent := { q.recent with items := q.recent.items.dropLast } }) ∨
             (q.frequent.items.getLast? = some vic ∧
                q1 = { q with frequent := { q.frequent with items := q.frequent.items.dropLast } }) := by
            rcases hq1 with ⟨_, a, b⟩ | ⟨_, a, b⟩
            · exact Or.inl ⟨a, b⟩
            · exact Or.inr ⟨a, b⟩
          obtain ⟨nr1, nf1, hgq, hsz, hrs, hrc1, hfc1, sr, sf, vnr, vnf, vin, hlen⟩ :=
            takeVictim_facts q h vic q1 hq1'
          have hvk : vic.1 ≠ k := by grind
          have hvg : vic.1 ∉ keys q.ghost.items := by grind
          have hrroom : q1.recent.items.length < q1.recent.cap := by omega
          have hkf1 : k ∉ keys q1.frequent.items := fun hc => hkf (sf _ hc)
          have hkr1 : k ∉ keys q1.recent.items := fun hc => hkr (sr _ hc)
          rw [hgq]
          simp only [RawLru.putNonnull_room _ _ hrroom]
          by_cases hgfull : q.ghost.cap ≤ q.ghost.items.length
          · obtain ⟨gl, hgl⟩ := getLast?_some_of_pos q.ghost.items (by omega)
            have lf := last_facts _ _ hgl ndg
            simp only [RawLru.putNonnull_full _ _ gl hgfull hgl]
            refine ⟨_, _, _, rfl, ?_, ⟨hsz, hrs, rfl, hrc1, hfc1⟩⟩
            constructor <;> simp only [keys_cons, keys_cons', List.nodup_cons, List.mem_cons, List.length_cons] <;>
              first | assumption | omega | grind
          · have hgroom : q.ghost.items.length < q.ghost.cap := by omega
            simp only [RawLru.putNonnull_room _ _ hgroom]
            refine ⟨_, _, _, rfl, ?_, ⟨hsz, hrs, rfl, hrc1, hfc1⟩⟩
            constructor <;> simp only [keys_cons, keys_cons', List.nodup_cons, List.mem_cons, List.length_cons] <;>
              first | assumption | omega | grind

theorem getMut_total_inv (q : TwoQ κ ν) (k : κ) (w : Option ν) (h : q.Inv) :
    ∃ r q', q.getMut k w = .ok (r, q') ∧ q'.Inv ∧ SameCfg q q' := by
  obtain ⟨ndr, ndf, ndg, drf, drg, dfg, hb, hgb, hrc, hfc, hsp, hgp⟩ := h
  unfold TwoQ.getMut RawLru.getMut
  cases hf : find k q.frequent.items with
  | some old =>
    have ef := erase_facts _ k old hf ndf
    refine ⟨_, _, rfl, ?_, ⟨rfl, rfl, rfl, rfl, rfl⟩⟩
    constructor <;> simp only [use, keys_cons, List.nodup_cons, List.mem_cons, List.length_cons] <;>
      first | assumption | omega | grind
  | none =>
    have hkf := (find_none_iff k _).1 hf
    simp only
    cases hr : find k q.recent.items with
    | none => exact ⟨_, _, rfl, ⟨ndr, ndf, ndg, drf, drg, dfg, hb, hgb, hrc, hfc, hsp, hgp⟩, ⟨rfl, rfl, rfl, rfl, rfl⟩⟩
    | some old =>
      have er := erase_facts _ k old hr ndr
      have hroom : q.frequent.items.length < q.frequent.cap := by omega
      simp only [TwoQ.moveToFrequent, RawLru.removeEnt, hr, RawLru.putOrEvict_room _ _ hroom]
      refine ⟨_, _, rfl, ?_, ⟨rfl, rfl, rfl, rfl, rfl⟩⟩
      constructor <;> simp only [keys_cons, List.nodup_cons, List.mem_cons, List.length_cons] <;>
        first | assumption | omega | grind

theorem peekMut_inv (q : TwoQ κ ν) (k : κ) (w : Option ν) (h : q.Inv) :
    (q.peekMut k w).1.Inv ∧ SameCfg q (q.peekMut k w).1 := by
  obtain ⟨ndr, ndf, ndg, drf, drg, dfg, hb, hgb, hrc, hfc, hsp, hgp⟩ := h
  have h0 : q.Inv := ⟨ndr, ndf, ndg, drf, drg, dfg, hb, hgb, hrc, hfc, hsp, hgp⟩
  unfold TwoQ.peekMut RawLru.peekMut
  cases hf : find k q.frequent.items with
  | some old =>
    cases w with
    | none => exact ⟨h0, rfl, rfl, rfl, rfl, rfl⟩
    | some w =>
      refine ⟨?_, rfl, rfl, rfl, rfl, rfl⟩
      constructor <;> simp only [keys_setVal, length_setVal] <;> assumption
  | none =>
    cases hr : find k q.recent.items with
    | none => cases w <;> exact ⟨h0, rfl, rfl, rfl, rfl, rfl⟩
    | some old =>
      cases w with
      | none => exact ⟨h0, rfl, rfl, rfl, rfl, rfl⟩
      | some w =>
        refine ⟨?_, rfl, rfl, rfl, rfl, rfl⟩
        constructor <;> simp only [keys_setVal, length_setVal] <;> assumption

theorem remove_inv (q : TwoQ κ ν) (k : κ) (h : q.Inv) : (q.remove k).1.Inv ∧ SameCfg q (q.remove k).1 := by
  obtain ⟨ndr, ndf, ndg, drf, drg, dfg, hb, hgb, hrc, hfc, hsp, hgp⟩ := h
  have h0 : q.Inv := ⟨ndr, ndf, ndg, drf, drg, dfg, hb, hgb, hrc, hfc, hsp, hgp⟩
  unfold TwoQ.remove RawLru.remove
  cases hf : find k q.frequent.items with
  | some v =>
    have ef := erase_facts _ k v hf ndf
    refine ⟨?_, rfl, rfl, rfl, rfl, rfl⟩
    constructor <;> simp only <;> first | assumption | omega | grind
  | none =>
    cases hr : find k q.recent.items with
    | some v =>
      have er := erase_facts _ k v hr ndr
      refine ⟨?_, rfl, rfl, rfl, rfl, rfl⟩
      constructor <;> simp only <;> first | assumption | omega | grind
    | none =>
      cases hg : find k q.ghost.items with
      | none => exact ⟨h0, rfl, rfl, rfl, rfl, rfl⟩
      | some v =>
        have eg := erase_facts _ k v hg ndg
        refine ⟨?_, rfl, rfl, rfl, rfl, rfl⟩
        constructor <;> simp only <;> first | assumption | omega | grind

theorem purge_total_inv (q : TwoQ κ ν) (h : q.Inv) :
    ∃ q' d, q.purge = .ok (q', d) ∧ q'.Inv ∧ SameCfg q q' ∧
      q'.recent.items = [] ∧ q'.frequent.items = [] ∧ q'.ghost.items = [] := by
  unfold TwoQ.purge
  simp only [RawLru.purge_spec]
  refine ⟨_, _, rfl, ?_, ⟨rfl, rfl, rfl, rfl, rfl⟩, rfl, rfl, rfl⟩
  constructor <;> simp <;> first | exact h.rcap | exact h.fcap | exact h.spos | exact h.gpos

end TwoQ
end M
