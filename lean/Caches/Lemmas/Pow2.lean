/- `next_power_of_2` (sketch.rs, repaired) smears all 64 bits: for EVERY requested width `1 ≤ ctrs < 2^64` the count-min
   sketch built by `Sketch.new` has an even number of counters ≥ 2, so its rows and its mask fit together (the geometry
   half of `Sketch.WF`), without looking at the constructed value.
   (Before the repair only 32 bits were smeared: widths just above 2^32 gave an odd counter count and the largest
   masked position indexed one byte past the row — found by the `bigsketch` probe of C05, see DESIGN §11.4.) -/
import Caches.Model.Sketch
import Caches.Lemmas.Sketch
set_option linter.unusedSectionVars false
set_option linter.unusedVariables false
namespace M

/-- the six smearing steps on naturals -/
def smear (n : Nat) : Nat :=
  let n := n ||| (n >>> 1)
  let n := n ||| (n >>> 2)
  let n := n ||| (n >>> 4)
  let n := n ||| (n >>> 8)
  let n := n ||| (n >>> 16)
  n ||| (n >>> 32)

theorem smear_lt (n : Nat) (h : n < 2 ^ 64) : smear n < 2 ^ 64 := by
  unfold smear
  have s : ∀ m k, m < 2 ^ 64 → m ||| (m >>> k) < 2 ^ 64 := fun m k hm =>
    Nat.or_lt_two_pow hm (Nat.lt_of_le_of_lt (Nat.shiftRight_le m k) hm)
  exact s _ 32 (s _ 16 (s _ 8 (s _ 4 (s _ 2 (s _ 1 h)))))

/-- any set bit below 64 ends up in bit 0 -/
theorem smear_bit0 (n i : Nat) (hi : i < 64) (hb : n.testBit i = true) : (smear n).testBit 0 = true := by
  unfold smear
  simp only [Nat.testBit_or, Nat.testBit_shiftRight]
  have : i = 0 ∨ i = 1 ∨ i = 2 ∨ i = 3 ∨ i = 4 ∨ i = 5 ∨ i = 6 ∨ i = 7 ∨ i = 8 ∨ i = 9 ∨ i = 10 ∨ i = 11 ∨ i = 12 ∨
      i = 13 ∨ i = 14 ∨ i = 15 ∨ i = 16 ∨ i = 17 ∨ i = 18 ∨ i = 19 ∨ i = 20 ∨ i = 21 ∨ i = 22 ∨ i = 23 ∨ i = 24 ∨
      i = 25 ∨ i = 26 ∨ i = 27 ∨ i = 28 ∨ i = 29 ∨ i = 30 ∨ i = 31 ∨ i = 32 ∨ i = 33 ∨ i = 34 ∨ i = 35 ∨ i = 36 ∨
      i = 37 ∨ i = 38 ∨ i = 39 ∨ i = 40 ∨ i = 41 ∨ i = 42 ∨ i = 43 ∨ i = 44 ∨ i = 45 ∨ i = 46 ∨ i = 47 ∨ i = 48 ∨
      i = 49 ∨ i = 50 ∨ i = 51 ∨ i = 52 ∨ i = 53 ∨ i = 54 ∨ i = 55 ∨ i = 56 ∨ i = 57 ∨ i = 58 ∨ i = 59 ∨ i = 60 ∨
      i = 61 ∨ i = 62 ∨ i = 63 := by omega
  rcases this with rfl | rfl | rfl | rfl | rfl | rfl | rfl | rfl | rfl | rfl | rfl | rfl | rfl | rfl | rfl | rfl | rfl |
    rfl | rfl | rfl | rfl | rfl | rfl | rfl | rfl | rfl | rfl | rfl | rfl | rfl | rfl | rfl | rfl | rfl | rfl | rfl | rfl |
    rfl | rfl | rfl | rfl | rfl | rfl | rfl | rfl | rfl | rfl | rfl | rfl | rfl | rfl | rfl | rfl | rfl | rfl | rfl | rfl |
    rfl | rfl | rfl | rfl | rfl | rfl | rfl <;> simp [hb]

theorem exists_bit (n : Nat) (h0 : n ≠ 0) (h : n < 2 ^ 64) : ∃ i, i < 64 ∧ n.testBit i = true := by
  obtain ⟨i, hi⟩ := Nat.exists_testBit_of_ne_zero h0
  refine ⟨i, ?_, hi⟩
  apply Classical.byContradiction
  intro hc
  have : n < 2 ^ i := Nat.lt_of_lt_of_le h (Nat.pow_le_pow_right (by omega) (by omega))
  rw [Nat.testBit_lt_two_pow this] at hi
  cases hi

/-- a non-zero 64-bit number smears to an odd number -/
theorem smear_odd (n : Nat) (h0 : n ≠ 0) (h : n < 2 ^ 64) : smear n % 2 = 1 := by
  obtain ⟨i, hi, hb⟩ := exists_bit n h0 h
  have := smear_bit0 n i hi hb
  simpa using this

/-- `nextPow2` on the machine integers is `(smear (n - 1) + 1) mod 2^64` on naturals -/
theorem nextPow2_toNat (ctrs : Nat) (h1 : 1 ≤ ctrs) (h2 : ctrs < 2 ^ 64) :
    (nextPow2 (UInt64.ofNat ctrs)).toNat = (smear (ctrs - 1) + 1) % 2 ^ 64 := by
  have hof : (UInt64.ofNat ctrs).toNat = ctrs := by
    simp [UInt64.toNat_ofNat', Nat.mod_eq_of_lt h2]
  have hsub : (UInt64.ofNat ctrs - 1).toNat = ctrs - 1 := by
    rw [UInt64.toNat_sub_of_le _ _ (by rw [UInt64.le_iff_toNat_le, hof]; exact h1), hof]; rfl
  unfold nextPow2
  simp only [UInt64.toNat_add, UInt64.toNat_or, UInt64.toNat_shiftRight, hsub]
  have e : smear (ctrs - 1) =
      (let n := ctrs - 1
       let n := n ||| (n >>> 1); let n := n ||| (n >>> 2); let n := n ||| (n >>> 4); let n := n ||| (n >>> 8)
       let n := n ||| (n >>> 16)
       n ||| (n >>> 32)) := rfl
  simp only [] at e
  simp only [show (2 : UInt64).toNat % 64 = 2 from rfl,
    show (4 : UInt64).toNat % 64 = 4 from rfl, show (8 : UInt64).toNat % 64 = 8 from rfl,
    show (16 : UInt64).toNat % 64 = 16 from rfl, show (32 : UInt64).toNat % 64 = 32 from rfl,
    show (1 : UInt64).toNat = 1 from rfl, ← e]

/-- the geometry of every sketch `CountMinSketch::new` builds, for every width that is a `u64`: four non-empty rows of
    well-formed bytes, each long enough for every position the mask lets through -/
theorem Sketch.new_geometry (ctrs : Nat) (sch : Scheme) (h1 : 1 ≤ ctrs) (h2 : ctrs < 2 ^ 64) :
    ∃ s, Sketch.new ctrs sch = some s ∧ s.rows.length = 4 ∧ s.scheme = sch ∧
      ∀ r ∈ s.rows, Row.WF r ∧ s.mask.toNat / 2 < r.length := by
  have hc := nextPow2_toNat ctrs h1 h2
  have hs := smear_lt (ctrs - 1) (by omega)
  unfold Sketch.new
  have hn : ¬ ctrs < 1 := by omega
  simp only [hn, if_false]
  refine ⟨_, rfl, rfl, rfl, ?_⟩
  intro r hr
  have hrow : r = Row.new ((if nextPow2 (UInt64.ofNat ctrs) < 2 then 2 else nextPow2 (UInt64.ofNat ctrs)) / 2).toNat := by
    simp only [List.mem_cons, List.mem_nil_iff, or_false] at hr
    rcases hr with h | h | h | h <;> exact h
  obtain ⟨wf, hlen, _⟩ := Row.new_spec ((if nextPow2 (UInt64.ofNat ctrs) < 2 then 2 else nextPow2 (UInt64.ofNat ctrs)) / 2).toNat
  rw [hrow]
  refine ⟨wf, ?_⟩
  rw [hlen]
  by_cases hsmall : nextPow2 (UInt64.ofNat ctrs) < 2
  · simp only [hsmall, if_true]; decide
  · simp only [hsmall, if_false]
    have hge : 2 ≤ (nextPow2 (UInt64.ofNat ctrs)).toNat := by
      have := hsmall; rw [UInt64.lt_iff_toNat_lt] at this
      have e2 : (2 : UInt64).toNat = 2 := rfl
      omega
    -- c = (smear (ctrs-1) + 1) mod 2^64 ≥ 2: no wrap happened, ctrs - 1 ≠ 0, the smear is odd, so c is even
    have hne : ctrs - 1 ≠ 0 := by
      intro h0
      rw [hc, h0] at hge
      have : smear 0 = 0 := by decide
      rw [this] at hge; simp at hge
    have hodd := smear_odd (ctrs - 1) hne (by omega)
    have hnowrap : (smear (ctrs - 1) + 1) % 2 ^ 64 = smear (ctrs - 1) + 1 := by
      by_cases hw : smear (ctrs - 1) + 1 < 2 ^ 64
      · exact Nat.mod_eq_of_lt hw
      · have : smear (ctrs - 1) + 1 = 2 ^ 64 := by omega
        rw [hc, this] at hge; simp at hge
    have hsub : (nextPow2 (UInt64.ofNat ctrs) - 1).toNat = (nextPow2 (UInt64.ofNat ctrs)).toNat - 1 := by
      rw [UInt64.toNat_sub_of_le _ _ (by rw [UInt64.le_iff_toNat_le]; have e1 : (1 : UInt64).toNat = 1 := rfl; omega)]; rfl
    have hdiv : (nextPow2 (UInt64.ofNat ctrs) / 2).toNat = (nextPow2 (UInt64.ofNat ctrs)).toNat / 2 := by
      rw [UInt64.toNat_div]; rfl
    rw [hsub, hdiv, hc, hnowrap]
    omega

end M
