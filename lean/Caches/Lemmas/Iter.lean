/- The cursor model of the iterators yields exactly what `IterSpec.popEnds` prescribes. -/
import Caches.Model.Iter
import Caches.Props.IterSpec
set_option linter.unusedSectionVars false
set_option linter.unusedVariables false
set_option linter.unusedSimpArgs false
namespace M
variable {κ ν : Type}
open IterSpec

/-- the entries between cursor positions `lo` (exclusive, 0-based count of consumed front entries) and `hi` -/
def window (items : AL κ ν) (lo hi : Nat) : AL κ ν := (items.take hi).drop lo

theorem window_cons (items : AL κ ν) (lo hi : Nat) (h1 : lo < hi) (h2 : hi ≤ items.length) :
    ∃ e, items[lo]? = some e ∧ window items lo hi = e :: window items (lo + 1) hi := by
  have hlt : lo < items.length := by omega
  refine ⟨items[lo], List.getElem?_eq_getElem hlt, ?_⟩
  unfold window
  have hlt' : lo < (items.take hi).length := by simp; omega
  rw [List.drop_eq_getElem_cons hlt']
  simp [List.getElem_take]

theorem window_snoc (items : AL κ ν) (lo hi : Nat) (h1 : lo < hi) (h2 : hi ≤ items.length) :
    ∃ e, items[hi - 1]? = some e ∧ (window items lo hi).getLast? = some e ∧
      (window items lo hi).dropLast = window items lo (hi - 1) := by
  have hlt : hi - 1 < items.length := by omega
  refine ⟨items[hi - 1], List.getElem?_eq_getElem hlt, ?_, ?_⟩
  · unfold window
    rw [List.getLast?_drop]
    have : ¬ (items.take hi).length ≤ lo := by simp; omega
    simp only [this, if_false]
    rw [List.getLast?_take]
    have hh : hi ≠ 0 := by omega
    simp [hh, List.getElem?_eq_getElem hlt]
  · unfold window
    rw [List.dropLast_eq_take, List.length_drop, List.length_take, Nat.min_eq_left h2]
    rw [List.take_drop, List.take_take]
    have : min (lo + (hi - lo - 1)) hi = hi - 1 := by omega
    rw [this]

theorem window_length (items : AL κ ν) (lo hi : Nat) (h2 : hi ≤ items.length) : (window items lo hi).length = hi - lo := by
  unfold window; simp; omega

theorem window_empty (items : AL κ ν) (lo : Nat) (h : lo ≤ items.length) : window items lo lo = [] := by
  have := window_length items lo lo h
  exact List.length_eq_zero_iff.1 (by omega)

/-- main lemma: from the cursor state describing the window `[lo, hi)`, any script yields `popEnds` of that window -/
theorem run_mru (items : AL κ ν) (s : List Bool) (lo hi : Nat) (h1 : lo ≤ hi) (h2 : hi ≤ items.length) :
    Iter.run false items s { len := hi - lo, ptr := lo + 1, endp := hi } = .ok (popEnds (window items lo hi) s) := by
  induction s generalizing lo hi with
  | nil => rfl
  | cons b t ih =>
    cases b with
    | false =>
      simp only [Iter.run, Iter.next, Bool.false_eq_true, if_false, Iter.stepPtr]
      by_cases he : hi - lo = 0
      · have : lo = hi := by omega
        subst this
        have hw := window_empty items lo h2
        have := ih lo lo (Nat.le_refl _) h2
        simp only [Nat.sub_self] at this
        simp only [Nat.sub_self, if_true, this, hw, popEnds]
      · simp only [he, if_false]
        obtain ⟨e, hget, hw⟩ := window_cons items lo hi (by omega) h2
        have hent : Iter.entryAt items (lo + 1) "iter ptr" = .ok e := by
          unfold Iter.entryAt; simp [hget]
        have hl := window_length items (lo + 1) hi h2
        have := ih (lo + 1) hi (by omega) h2
        have hlen : hi - lo - 1 = hi - (lo + 1) := by omega
        simp only [hent, hlen, this, hw, popEnds, hl]
    | true =>
      simp only [Iter.run, Iter.nextBack, Bool.false_eq_true, if_false, if_true, Iter.stepEnd]
      by_cases he : hi - lo = 0
      · have : lo = hi := by omega
        subst this
        have hw := window_empty items lo h2
        have := ih lo lo (Nat.le_refl _) h2
        simp only [Nat.sub_self] at this
        simp only [Nat.sub_self, if_true, this, hw, popEnds, List.getLast?_nil]
      · simp only [he, if_false]
        obtain ⟨e, hget, hlast, hdl⟩ := window_snoc items lo hi (by omega) h2
        have hent : Iter.entryAt items hi "iter end" = .ok e := by
          unfold Iter.entryAt
          have : hi ≠ 0 := by omega
          simp [this, hget]
        have := ih lo (hi - 1) (by omega) (by omega)
        have hlen : hi - lo - 1 = hi - 1 - lo := by omega
        have hl := window_length items lo hi h2
        simp only [hent, hlen, this, popEnds, hlast, hdl, hl]

theorem window_all (items : AL κ ν) : window items 0 items.length = items := by
  unfold window; simp

/-- MRU-first iterators (`iter`, `iter_mut`, `keys`, `values`, …) -/
theorem run_start_mru (items : AL κ ν) (s : List Bool) :
    Iter.run false items s (Iter.start items) = .ok (popEnds items s) := by
  have := run_mru items s 0 items.length (Nat.zero_le _) (Nat.le_refl _)
  rw [window_all] at this
  exact this

/-- the LRU family runs the same cursors with the two ends swapped -/
theorem run_lru_flip (items : AL κ ν) (s : List Bool) (it : Iter) :
    Iter.run true items s it = Iter.run false items (s.map (!·)) it := by
  induction s generalizing it with
  | nil => rfl
  | cons b t ih =>
    cases b <;> simp only [Iter.run, List.map_cons, Iter.next, Iter.nextBack, if_true, Bool.false_eq_true, if_false,
      Bool.not_false, Bool.not_true]
    · cases h : it.stepEnd items with
      | error f => rfl
      | ok r => simp only [ih]
    · cases h : it.stepPtr items with
      | error f => rfl
      | ok r => simp only [ih]

/-- popping a reversed list from one end = popping the list from the other end -/
theorem popEnds_reverse {α : Type} (l : List α) (s : List Bool) : popEnds l.reverse s = popEnds l (s.map (!·)) := by
  induction s generalizing l with
  | nil => rfl
  | cons b t ih =>
    cases b with
    | false =>
      simp only [List.map_cons, Bool.not_false]
      cases hl : l.getLast? with
      | none =>
        have : l = [] := by simpa using hl
        subst this
        simp only [List.reverse_nil, popEnds, List.getLast?_nil]
        have := ih []; simp only [List.reverse_nil] at this; rw [this]
      | some x =>
        have hne : l ≠ [] := by intro hc; simp [hc] at hl
        have h2 := List.getLast?_eq_some_getLast hne
        rw [hl] at h2
        have hs := List.dropLast_concat_getLast hne
        rw [← Option.some.inj h2] at hs
        have hrev : l.reverse = x :: l.dropLast.reverse := by
          conv => lhs; rw [← hs]
          simp
        rw [hrev]
        simp only [popEnds, hl, List.length_reverse, ih]
        have : l.dropLast.length = l.length - 1 := by simp
        rw [this]
    | true =>
      simp only [List.map_cons, Bool.not_true]
      cases l with
      | nil =>
        simp only [List.reverse_nil, popEnds, List.getLast?_nil]
        have := ih []; simp only [List.reverse_nil] at this; rw [this]
      | cons x r =>
        have hlast : (x :: r).reverse.getLast? = some x := by simp
        have hdl : (x :: r).reverse.dropLast = r.reverse := by simp
        simp only [popEnds, hlast, hdl, ih, List.length_reverse, List.length_cons, Nat.add_sub_cancel]

/-- LRU-first iterators (`iter_lru`, `iter_lru_mut`, `keys_lru`, `values_lru`, …) yield the reverse order -/
theorem run_start_lru (items : AL κ ν) (s : List Bool) :
    Iter.run true items s (Iter.start items) = .ok (popEnds items.reverse s) := by
  rw [run_lru_flip, run_start_mru, popEnds_reverse]

/-- nothing is yielded twice and nothing is skipped: yielded items and what is left make up the list -/
theorem popEnds_perm {α : Type} (l : List α) (s : List Bool) : (yielded l s ++ remaining l s).Perm l := by
  induction s generalizing l with
  | nil => simp [yielded, popEnds, remaining]
  | cons b t ih =>
    cases b with
    | false =>
      cases l with
      | nil => simpa [yielded, popEnds, remaining] using ih []
      | cons x r =>
        simp only [yielded, popEnds, List.filterMap_cons, remaining, List.tail_cons, List.cons_append]
        exact List.Perm.cons x (ih r)
    | true =>
      cases hl : l.getLast? with
      | none =>
        have : l = [] := by simpa using hl
        subst this
        simpa [yielded, popEnds, remaining] using ih []
      | some x =>
        have hne : l ≠ [] := by intro hc; simp [hc] at hl
        have h2 := List.getLast?_eq_some_getLast hne
        rw [hl] at h2
        have hs := List.dropLast_concat_getLast hne
        rw [← Option.some.inj h2] at hs
        simp only [yielded, popEnds, hl, List.filterMap_cons, remaining, List.cons_append]
        have h1 := ih l.dropLast
        have : (x :: (yielded l.dropLast t ++ remaining l.dropLast t)).Perm (l.dropLast ++ [x]) := by
          refine List.Perm.trans (List.Perm.cons x h1) ?_
          exact (List.perm_append_singleton x l.dropLast).symm
        rw [hs] at this
        exact this

/-- the size hint after every call is the number of entries still to come -/
theorem popEnds_hint {α : Type} (l : List α) (s : List Bool) :
    ∀ i, i < (popEnds l s).length → ((popEnds l s)[i]?.map (·.2)) = some (remaining l (s.take (i + 1))).length := by
  induction s generalizing l with
  | nil => intro i hi; simp [popEnds] at hi
  | cons b t ih =>
    intro i hi
    cases b with
    | false =>
      cases l with
      | nil =>
        cases i with
        | zero => simp [popEnds, remaining]
        | succ i =>
          simp only [popEnds, List.length_cons] at hi
          have := ih [] i (by omega)
          simpa [popEnds, remaining] using this
      | cons x r =>
        cases i with
        | zero => simp [popEnds, remaining]
        | succ i =>
          simp only [popEnds, List.length_cons] at hi
          have := ih r i (by omega)
          simpa [popEnds, remaining] using this
    | true =>
      cases hl : l.getLast? with
      | none =>
        have : l = [] := by simpa using hl
        subst this
        cases i with
        | zero => simp [popEnds, remaining]
        | succ i =>
          simp only [popEnds, List.getLast?_nil, List.length_cons] at hi
          have := ih [] i (by omega)
          simpa [popEnds, remaining] using this
      | some x =>
        cases i with
        | zero => simp [popEnds, remaining, hl]
        | succ i =>
          simp only [popEnds, hl, List.length_cons] at hi
          have := ih l.dropLast i (by omega)
          simpa [popEnds, remaining, hl] using this

end M
