/- The iterator cursors at pointer level: `(len, ptr, end)` with `ptr`/`end` real addresses stepping through the heap by
   `.next` / `.prev`. Simulation by the position-based `Iter` model, and: every address dereferenced is an entry node. -/
import Caches.Model.Iter
import Caches.Lemmas.Chain
set_option linter.unusedSectionVars false
set_option linter.unusedVariables false
namespace M
open M.Chain

structure PIter where
  len : Nat
  ptr : Nat      -- address, advanced by `(*ptr).next`
  endp : Nat     -- address, advanced by `(*end).prev`
deriving Repr, DecidableEq

namespace PIter
/-- `iter()` & co.: `len = self.len()`, `ptr = (*head).next`, `end = (*tail).prev` -/
def start (h : Heap) (head tail n : Nat) : PIter := { len := n, ptr := (h head).next, endp := (h tail).prev }

/-- the `ptr` side: yields the node under `ptr` -/
def stepPtr (h : Heap) (it : PIter) : Option Nat × PIter :=
  if it.len = 0 then (none, it) else (some it.ptr, { it with len := it.len - 1, ptr := (h it.ptr).next })

/-- the `end` side: yields the node under `end` -/
def stepEnd (h : Heap) (it : PIter) : Option Nat × PIter :=
  if it.len = 0 then (none, it) else (some it.endp, { it with len := it.len - 1, endp := (h it.endp).prev })
end PIter

/-- neighbouring positions of a linked list point at each other -/
theorem linked_get (h : Heap) (xs : List Nat) (hl : Linked h xs) (i : Nat) (hi : i + 1 < xs.length) :
    (h xs[i]).next = xs[i + 1] ∧ (h xs[i + 1]).prev = xs[i] := by
  induction xs generalizing i with
  | nil => simp at hi
  | cons a t ih =>
    cases t with
    | nil => simp at hi
    | cons b t' =>
      obtain ⟨h1, h2, h3⟩ := hl
      cases i with
      | zero => exact ⟨h1, h2⟩
      | succ j =>
        have := ih h3 j (by simpa using hi)
        simpa using this

/-- the window invariant of the position model: `len` entries between the two cursors -/
def Win (n : Nat) (it : Iter) : Prop := 1 ≤ it.ptr ∧ it.ptr + it.len = it.endp + 1 ∧ it.endp ≤ n

/-- position cursor ↔ address cursor -/
def Sim (xs : List Nat) (it : Iter) (p : PIter) : Prop :=
  it.len = p.len ∧ xs[it.ptr]? = some p.ptr ∧ xs[it.endp]? = some p.endp

theorem sim_start (h : Heap) (head tail : Nat) (l : List Nat) (hw : WF h head tail l) :
    Sim (head :: (l ++ [tail])) { len := l.length, ptr := 1, endp := l.length } (PIter.start h head tail l.length) ∧
    Win l.length { len := l.length, ptr := 1, endp := l.length } := by
  refine ⟨⟨rfl, ?_, ?_⟩, by simp only; omega, by simp only; omega, Nat.le_refl _⟩
  · have := (linked_get h _ hw.2 0 (by simp)).1
    simp only [PIter.start]
    rw [List.getElem?_eq_getElem (by simp)]
    simp only [List.getElem_cons_zero] at this
    rw [this]
  · have := (linked_get h (head :: (l ++ [tail])) hw.2 l.length (by simp)).2
    simp only [PIter.start]
    rw [List.getElem?_eq_getElem (by simp only [List.length_cons, List.length_append, List.length_nil]; omega)]
    have e : (head :: (l ++ [tail]))[l.length + 1]'(by simp) = tail := by simp
    rw [e] at this
    rw [this]

/-- one step on the `ptr` side: the address yielded is the entry at the model's position, it is a node of the list,
    and the cursors stay in correspondence -/
theorem sim_stepPtr (h : Heap) (head tail : Nat) (l : List Nat) (hw : WF h head tail l) (it : Iter) (p : PIter)
    (hwin : Win l.length it) (hs : Sim (head :: (l ++ [tail])) it p) (hne : it.len ≠ 0) :
    ∃ a, (p.stepPtr h).1 = some a ∧ l[it.ptr - 1]? = some a ∧ a ∈ l ∧
      Sim (head :: (l ++ [tail])) { it with len := it.len - 1, ptr := it.ptr + 1 } (p.stepPtr h).2 ∧
      Win l.length { it with len := it.len - 1, ptr := it.ptr + 1 } := by
  obtain ⟨w1, w2, w3⟩ := hwin
  obtain ⟨s1, s2, s3⟩ := hs
  have hp : p.len ≠ 0 := by rw [← s1]; exact hne
  have hlt : it.ptr ≤ l.length := by omega
  have hxs : it.ptr + 1 < (head :: (l ++ [tail])).length := by simp; omega
  have hget : (head :: (l ++ [tail]))[it.ptr]'(by omega) = p.ptr := by
    have := s2; rw [List.getElem?_eq_getElem (by omega)] at this; exact Option.some.inj this
  have hnext := (linked_get h _ hw.2 it.ptr hxs).1
  rw [hget] at hnext
  have hl : l[it.ptr - 1]? = some p.ptr := by
    have : (head :: (l ++ [tail]))[it.ptr]? = (l ++ [tail])[it.ptr - 1]? := by
      cases hh : it.ptr with
      | zero => omega
      | succ j => simp
    rw [this, List.getElem?_append_left (by omega)] at s2
    exact s2
  refine ⟨p.ptr, by simp [PIter.stepPtr, hp], hl, List.mem_of_getElem? hl, ⟨?_, ?_, ?_⟩, by simp only; omega, by simp only; omega, w3⟩
  · simp [PIter.stepPtr, hp, s1]
  · simp only [PIter.stepPtr, hp, if_false]
    rw [hnext, List.getElem?_eq_getElem hxs]
  · simp only [PIter.stepPtr, hp, if_false]; exact s3

/-- one step on the `end` side -/
theorem sim_stepEnd (h : Heap) (head tail : Nat) (l : List Nat) (hw : WF h head tail l) (it : Iter) (p : PIter)
    (hwin : Win l.length it) (hs : Sim (head :: (l ++ [tail])) it p) (hne : it.len ≠ 0) :
    ∃ a, (p.stepEnd h).1 = some a ∧ l[it.endp - 1]? = some a ∧ a ∈ l ∧
      Sim (head :: (l ++ [tail])) { it with len := it.len - 1, endp := it.endp - 1 } (p.stepEnd h).2 ∧
      Win l.length { it with len := it.len - 1, endp := it.endp - 1 } := by
  obtain ⟨w1, w2, w3⟩ := hwin
  obtain ⟨s1, s2, s3⟩ := hs
  have hp : p.len ≠ 0 := by rw [← s1]; exact hne
  have he1 : 1 ≤ it.endp := by omega
  have hxs : (it.endp - 1) + 1 < (head :: (l ++ [tail])).length := by simp; omega
  have hget : (head :: (l ++ [tail]))[it.endp]'(by simp; omega) = p.endp := by
    have := s3; rw [List.getElem?_eq_getElem (by simp; omega)] at this; exact Option.some.inj this
  have hprev := (linked_get h _ hw.2 (it.endp - 1) hxs).2
  have e1 : it.endp - 1 + 1 = it.endp := by omega
  simp only [e1] at hprev
  rw [hget] at hprev
  have hl : l[it.endp - 1]? = some p.endp := by
    have : (head :: (l ++ [tail]))[it.endp]? = (l ++ [tail])[it.endp - 1]? := by
      cases hh : it.endp with
      | zero => omega
      | succ j => simp
    rw [this, List.getElem?_append_left (by omega)] at s3
    exact s3
  refine ⟨p.endp, by simp [PIter.stepEnd, hp], hl, List.mem_of_getElem? hl, ⟨?_, ?_, ?_⟩, by simp only; omega, by simp only; omega, by simp only; omega⟩
  · simp [PIter.stepEnd, hp, s1]
  · simp only [PIter.stepEnd, hp, if_false]; exact s2
  · simp only [PIter.stepEnd, hp, if_false]
    rw [hprev, List.getElem?_eq_getElem (by simp; omega)]

/-- a script of cursor steps (`false` = the `ptr` side, `true` = the `end` side) on addresses -/
def PIter.run (h : Heap) : List Bool → PIter → List (Option Nat)
  | [], _ => []
  | b :: t, p =>
    let r := if b then p.stepEnd h else p.stepPtr h
    r.1 :: PIter.run h t r.2

/-- the same script on positions: the index (into the entry list) each step reads, `none` once exhausted -/
def Iter.posRun : List Bool → Iter → List (Option Nat)
  | [], _ => []
  | b :: t, it =>
    if it.len = 0 then none :: Iter.posRun t it
    else if b then some (it.endp - 1) :: Iter.posRun t { it with len := it.len - 1, endp := it.endp - 1 }
    else some (it.ptr - 1) :: Iter.posRun t { it with len := it.len - 1, ptr := it.ptr + 1 }

/-- every script, every interleaving, also past exhaustion: the addresses the pointer cursors yield are exactly the
    nodes at the positions the model reads, each of them an entry node (never a sentinel, never outside the chain) -/
theorem sim_run (h : Heap) (head tail : Nat) (l : List Nat) (hw : WF h head tail l) (s : List Bool)
    (it : Iter) (p : PIter) (hwin : Win l.length it) (hs : Sim (head :: (l ++ [tail])) it p) :
    PIter.run h s p = (Iter.posRun s it).map (fun o => o.bind (fun i => l[i]?)) ∧
    ∀ a, some a ∈ PIter.run h s p → a ∈ l := by
  induction s generalizing it p with
  | nil => exact ⟨rfl, by intro a ha; simp [PIter.run] at ha⟩
  | cons b t ih =>
    by_cases h0 : it.len = 0
    · have hp : p.len = 0 := by rw [← hs.1]; exact h0
      have e1 : p.stepEnd h = (none, p) := by simp [PIter.stepEnd, hp]
      have e2 : p.stepPtr h = (none, p) := by simp [PIter.stepPtr, hp]
      obtain ⟨ih1, ih2⟩ := ih it p hwin hs
      constructor
      · cases b <;> simp [PIter.run, Iter.posRun, h0, e1, e2, ih1]
      · intro a ha
        cases b <;> (simp only [PIter.run, e1, e2, List.mem_cons] at ha; rcases ha with ha | ha; (· cases ha); exact ih2 a ha)
    · cases b with
      | true =>
        obtain ⟨a, hy, hl, hm, hs', hw'⟩ := sim_stepEnd h head tail l hw it p hwin hs h0
        obtain ⟨ih1, ih2⟩ := ih _ _ hw' hs'
        constructor
        · simp only [PIter.run, Iter.posRun, h0, if_false, if_true, List.map_cons, hy, ih1, Option.bind_some, hl]
        · intro x hx
          simp only [PIter.run, if_true, List.mem_cons, hy] at hx
          rcases hx with hx | hx
          · injection hx with hx; rw [hx]; exact hm
          · exact ih2 x hx
      | false =>
        obtain ⟨a, hy, hl, hm, hs', hw'⟩ := sim_stepPtr h head tail l hw it p hwin hs h0
        obtain ⟨ih1, ih2⟩ := ih _ _ hw' hs'
        constructor
        · simp only [PIter.run, Iter.posRun, h0, if_false, Bool.false_eq_true, List.map_cons, hy, ih1, Option.bind_some, hl]
        · intro x hx
          simp only [PIter.run, Bool.false_eq_true, if_false, List.mem_cons, hy] at hx
          rcases hx with hx | hx
          · injection hx with hx; rw [hx]; exact hm
          · exact ih2 x hx

end M
