/- Ownership conservation for TwoQueueCache (C04) -/
import Caches.Lemmas.Conserve
import Caches.Lemmas.TwoQ
set_option linter.unusedSectionVars false
set_option linter.unusedVariables false
namespace M
variable {κ ν : Type} [DecidableEq κ] [DecidableEq ν]
namespace TwoQ

def heldAll (q : TwoQ κ ν) : List (Obj κ ν) := held q.recent.items ++ (held q.frequent.items ++ held q.ghost.items)

theorem takeVictim_count (q : TwoQ κ ν) (vic : κ × ν) (q1 : TwoQ κ ν)
    (hq1 : (q.recent.items.getLast? = some vic ∧
          q1 = { q with recent := { q.recent with items := q.recent.items.dropLast } }) ∨
       (q.frequent.items.getLast? = some vic ∧
          q1 = { q with frequent := { q.frequent with items := q.frequent.items.dropLast } })) (o : Obj κ ν) :
    (held q.recent.items).count o + (held q.frequent.items).count o =
      (held q1.recent.items).count o + (held q1.frequent.items).count o + (dropEnt vic).count o := by
  rcases hq1 with ⟨hl, rfl⟩ | ⟨hl, rfl⟩
  · have := held_dropLast _ vic hl o; simp only [dropEnt] at *; omega
  · have := held_dropLast _ vic hl o; simp only [dropEnt] at *; omega

-- counting leaf: collect the `erase` / `dropLast` equations in scope, normalise, `omega`
set_option hygiene false in
macro "twoq_cnt" : tactic => `(tactic|
  ((try (have := held_erase q.frequent.items k _ (by assumption) o));
   (try (have := held_erase q.recent.items k _ (by assumption) o));
   (try (have := held_erase q.ghost.items k _ (by assumption) o));
   (try (have := held_erase q.ghost.items.dropLast k _ (by assumption) o));
   (try (have := held_dropLast q.ghost.items _ (by assumption) o));
   (try (have := tv o));
   (try (simp only [hglk] at *));
   simp only [heldAll, wrIn, wrOut, Option.getD_none, Option.getD_some, RawLru.update, use, held_cons, held_nil, List.count_append, PutResult.drops, dropEnt,
     List.count_cons, List.count_nil, List.append_nil, List.nil_append] at *;
   omega))

/-- `put`: held-before + the pair handed in = held-after + what the result hands back + what was dropped
    (proof skeleton = that of `put_total_inv`, with a counting leaf) -/
theorem put_count (q : TwoQ κ ν) (k : κ) (v : ν) (h : q.Inv) :
    ∃ r q' d, q.put k v = .ok (r, q', d) ∧ ∀ o : Obj κ ν,
      q.heldAll.count o + ([Obj.key k, Obj.val v] : List (Obj κ ν)).count o =
        q'.heldAll.count o + r.drops.count o + d.count o := by
  obtain ⟨ndr, ndf, ndg, drf, drg, dfg, hb, hgb, hrc, hfc, hsp, hgp⟩ := h
  have h : q.Inv := ⟨ndr, ndf, ndg, drf, drg, dfg, hb, hgb, hrc, hfc, hsp, hgp⟩
  unfold TwoQ.put
  cases hf : find k q.frequent.items with
  | some old =>
    have ef := erase_facts _ k old hf ndf
    refine ⟨_, _, _, rfl, fun o => ?_⟩
    twoq_cnt
  | none =>
    have hkf := (find_none_iff k _).1 hf
    cases hr : find k q.recent.items with
    | some old =>
      have er := erase_facts _ k old hr ndr
      have hroom : q.frequent.items.length < q.frequent.cap := by omega
      simp only [RawLru.removeEnt, hr, RawLru.putNonnull_room _ _ hroom]
      refine ⟨_, _, _, rfl, fun o => ?_⟩
      twoq_cnt
    | none =>
      have hkr := (find_none_iff k _).1 hr
      simp only [RawLru.removeEnt, hr]
      cases hg : find k q.ghost.items with
      | some old =>
        have eg := erase_facts _ k old hg ndg
        by_cases hfull : q.recent.items.length + q.frequent.items.length ≥ q.size
        · simp only [hfull, if_true]
          obtain ⟨vic, q1, hv, hq1⟩ := takeVictim_ok q false (by omega)
          simp only [hv]
          have hq1' : (q.recent.items.getLast? = some vic ∧
                q1 = { q with recent := { q.recent with items := q.recent.items.dropLast } }) ∨
             (q.frequent.items.getLast? = some vic ∧
                q1 = { q with frequent := { q.frequent with items := q.frequent.items.dropLast } }) := by
            rcases hq1 with ⟨_, a, b⟩ | ⟨_, a, b⟩
            · exact Or.inl ⟨a, b⟩
            · exact Or.inr ⟨a, b⟩
          obtain ⟨nr1, nf1, hgq, hsz, hrs, hrc1, hfc1, sr, sf, vnr, vnf, vin, hlen⟩ :=
            takeVictim_facts q h vic q1 hq1'
          have tv := takeVictim_count q vic q1 hq1'
          have hvk : vic.1 ≠ k := by grind
          have hvg : vic.1 ∉ keys q.ghost.items := by grind
          have hroom : q1.frequent.items.length < q1.frequent.cap := by omega
          have hkf1 : k ∉ keys q1.frequent.items := fun hc => hkf (sf _ hc)
          have hkr1 : k ∉ keys q1.recent.items := fun hc => hkr (sr _ hc)
          rw [hgq]
          by_cases hgfull : q.ghost.cap ≤ q.ghost.items.length
          · obtain ⟨gl, hgl⟩ := getLast?_some_of_pos q.ghost.items (by omega)
            have lf := last_facts _ _ hgl ndg
            simp only [RawLru.putOrEvict_full _ _ gl hgfull hgl, find_cons_ne _ _ _ hvk,
              find_dropLast _ k gl hgl ndg]
            by_cases hglk : gl.1 = k
            · simp only [hglk, if_true, RawLru.putNonnull_room _ _ hroom]
              refine ⟨_, _, _, rfl, fun o => ?_⟩
              twoq_cnt
            · simp only [hglk, if_false, hg, erase_cons_ne _ _ _ hvk, RawLru.putNonnull_room _ _ hroom]
              have hfd : find k q.ghost.items.dropLast = some old := by
                rw [find_dropLast _ k gl hgl ndg]; simp [hglk, hg]
              have egd := erase_facts q.ghost.items.dropLast k old (by rw [find_dropLast _ k gl hgl ndg]; simp [hglk, hg]) lf.2.2.1
              refine ⟨_, _, _, rfl, fun o => ?_⟩
              twoq_cnt
          · have hgroom : q.ghost.items.length < q.ghost.cap := by omega
            simp only [RawLru.putOrEvict_room _ _ hgroom, find_cons_ne _ _ _ hvk, hg,
              RawLru.putNonnull_room _ _ hroom, erase_cons_ne _ _ _ hvk]
            refine ⟨_, _, _, rfl, fun o => ?_⟩
            twoq_cnt
        · have hroom : q.frequent.items.length < q.frequent.cap := by omega
          simp only [hfull, if_false, RawLru.putNonnull_room _ _ hroom]
          refine ⟨_, _, _, rfl, fun o => ?_⟩
          twoq_cnt
      | none =>
        have hkg := (find_none_iff k _).1 hg
        by_cases hroomy : q.frequent.items.length + q.recent.items.length < q.size
        · have hrr : q.recent.items.length < q.recent.cap := by omega
          simp only [hroomy, if_true, RawLru.putOrEvict_room _ _ hrr]
          refine ⟨_, _, _, rfl, fun o => ?_⟩
          twoq_cnt
        · simp only [hroomy, if_false]
          obtain ⟨vic, q1, hv, hq1⟩ := takeVictim_ok q true (by omega)
          simp only [hv]
          have hq1' : (q.recent.items.getLast? = some vic ∧
                q1 = { q with recent := { q.recent with items := q.recent.items.dropLast } }) ∨
             (q.frequent.items.getLast? = some vic ∧
                q1 = { q with frequent := { q.frequent with items := q.frequent.items.dropLast } }) := by
            rcases hq1 with ⟨_, a, b⟩ | ⟨_, a, b⟩
            · exact Or.inl ⟨a, b⟩
            · exact Or.inr ⟨a, b⟩
          obtain ⟨nr1, nf1, hgq, hsz, hrs, hrc1, hfc1, sr, sf, vnr, vnf, vin, hlen⟩ :=
            takeVictim_facts q h vic q1 hq1'
          have tv := takeVictim_count q vic q1 hq1'
          have hvk : vic.1 ≠ k := by grind
          have hvg : vic.1 ∉ keys q.ghost.items := by grind
          have hrroom : q1.recent.items.length < q1.recent.cap := by omega
          have hkf1 : k ∉ keys q1.frequent.items := fun hc => hkf (sf _ hc)
          have hkr1 : k ∉ keys q1.recent.items := fun hc => hkr (sr _ hc)
          rw [hgq]
          simp only [RawLru.putNonnull_room _ _ hrroom]
          by_cases hgfull : q.ghost.cap ≤ q.ghost.items.length
          · obtain ⟨gl, hgl⟩ := getLast?_some_of_pos q.ghost.items (by omega)
            have lf := last_facts _ _ hgl ndg
            simp only [RawLru.putNonnull_full _ _ gl hgfull hgl]
            refine ⟨_, _, _, rfl, fun o => ?_⟩
            twoq_cnt
          · have hgroom : q.ghost.items.length < q.ghost.cap := by omega
            simp only [RawLru.putNonnull_room _ _ hgroom]
            refine ⟨_, _, _, rfl, fun o => ?_⟩
            twoq_cnt


theorem getMut_count (q : TwoQ κ ν) (k : κ) (w : Option ν) (h : q.Inv) :
    ∃ r q', q.getMut k w = .ok (r, q') ∧ ∀ o : Obj κ ν,
      q.heldAll.count o + (wrIn r w : List (Obj κ ν)).count o = q'.heldAll.count o + (wrOut r w : List (Obj κ ν)).count o := by
  obtain ⟨ndr, ndf, ndg, drf, drg, dfg, hb, hgb, hrc, hfc, hsp, hgp⟩ := h
  unfold TwoQ.getMut RawLru.getMut
  cases hf : find k q.frequent.items with
  | some old =>
    have ef := erase_facts _ k old hf ndf
    refine ⟨_, _, rfl, fun o => ?_⟩
    cases w <;> twoq_cnt
  | none =>
    have hkf := (find_none_iff k _).1 hf
    simp only
    cases hr : find k q.recent.items with
    | none => exact ⟨_, _, rfl, fun o => by cases w <;> simp [wrIn, wrOut]⟩
    | some old =>
      have er := erase_facts _ k old hr ndr
      have hroom : q.frequent.items.length < q.frequent.cap := by omega
      simp only [TwoQ.moveToFrequent, RawLru.removeEnt, hr, RawLru.putOrEvict_room _ _ hroom]
      refine ⟨_, _, rfl, fun o => ?_⟩
      cases w <;> twoq_cnt


/-- `remove`: frequent, recent, then the ghost list; the value goes to the caller, the stored key is dropped -/
theorem remove_count (q : TwoQ κ ν) (k : κ) (o : Obj κ ν) :
    q.heldAll.count o =
      (q.remove k).1.heldAll.count o + (objsV (q.remove k).2.1 : List (Obj κ ν)).count o + (q.remove k).2.2.count o := by
  unfold TwoQ.remove
  have hf := RawLru.remove_count q.frequent k o
  have hr := RawLru.remove_count q.recent k o
  have hg := RawLru.remove_count q.ghost k o
  unfold RawLru.remove at *
  cases h1 : find k q.frequent.items with
  | some v => simp only [h1, heldAll, List.count_append] at *; omega
  | none =>
    simp only [h1] at *
    cases h2 : find k q.recent.items with
    | some v => simp only [h2, heldAll, List.count_append] at *; omega
    | none =>
      simp only [h2] at *
      cases h3 : find k q.ghost.items <;> (simp only [h3, heldAll, List.count_append] at *; omega)

/-- `purge` releases every retained key and value, ghosts included -/
theorem purge_count (q : TwoQ κ ν) :
    ∃ q' d, q.purge = .ok (q', d) ∧ q'.heldAll = [] ∧ ∀ o : Obj κ ν, q.heldAll.count o = d.count o := by
  obtain ⟨f', e1, h1, hf0, hc1⟩ := RawLru.purge_count q.frequent
  obtain ⟨r', e2, h2, hr0, hc2⟩ := RawLru.purge_count q.recent
  obtain ⟨g', e3, h3, hg0, hc3⟩ := RawLru.purge_count q.ghost
  refine ⟨{ q with frequent := f', recent := r', ghost := g' }, e1.drops ++ e2.drops ++ e3.drops,
    by simp only [TwoQ.purge, h1, h2, h3], ?_, fun o => ?_⟩
  · simp only [heldAll, hf0, hr0, hg0, held_nil, List.append_nil]
  · have := hc1 o; have := hc2 o; have := hc3 o
    simp only [heldAll, List.count_append]; omega

theorem drop_count (q : TwoQ κ ν) (o : Obj κ ν) : q.dropCache.count o = q.heldAll.count o := by
  simp only [TwoQ.dropCache, RawLru.dropCache, heldAll, held, List.count_append]; omega

end TwoQ
end M
