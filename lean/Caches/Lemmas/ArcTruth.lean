/- ARC: what `put` reports and what may leave silently (C12, with the exception the property grants to ghost lists) -/
import Caches.Lemmas.PutTruth
import Caches.Props.ArcSpec
set_option linter.unusedSectionVars false
set_option linter.unusedVariables false
namespace M
variable {κ ν : Type} [DecidableEq κ]

namespace ArcSpec
/-- how `replace` / `makeRoom` relate the four lists before and after: residents only leave as a list's LRU and then
    become ghosts; ghosts only disappear; nothing else changes; `p` is untouched -/
structure Moves (s s1 : St κ ν) : Prop where
  t1sub : ∀ e, e ∈ s1.t1 → e ∈ s.t1
  t2sub : ∀ e, e ∈ s1.t2 → e ∈ s.t2
  t1keep : ∀ e, e ∈ s.t1 → e ∈ s1.t1 ∨ (s.t1.getLast? = some e ∧ e ∈ s1.b1)
  t2keep : ∀ e, e ∈ s.t2 → e ∈ s1.t2 ∨ (s.t2.getLast? = some e ∧ e ∈ s1.b2)
  b1from : ∀ e, e ∈ s1.b1 → e ∈ s.b1 ∨ s.t1.getLast? = some e
  b2from : ∀ e, e ∈ s1.b2 → e ∈ s.b2 ∨ s.t2.getLast? = some e

theorem replace_moves (s : St κ ν) (size : Nat) (b : Bool) : Moves s (replace s size b) := by
  have sp1 := fun x hx e => mem_split_last s.t1 x e hx
  have sp2 := fun x hx e => mem_split_last s.t2 x e hx
  have d1 := fun x hx => mem_dropLast_of s.b1 x hx
  have d2 := fun x hx => mem_dropLast_of s.b2 x hx
  unfold replace remember
  repeat' split
  all_goals (constructor <;> intro e he <;>
    (try simp only [List.mem_cons] at he ⊢) <;> grind only)

theorem makeRoom_moves (s : St κ ν) (size : Nat) (b : Bool) : Moves s (makeRoom s size b) := by
  unfold makeRoom
  split
  · exact replace_moves s size b
  · exact ⟨fun e he => he, fun e he => he, fun e he => Or.inl he, fun e he => Or.inl he,
           fun e he => Or.inl he, fun e he => Or.inl he⟩
end ArcSpec

namespace ArcSpec
def all4 (s : St κ ν) : AL κ ν := s.t1 ++ (s.t2 ++ (s.b1 ++ s.b2))

theorem admitNew_lists (s1 : St κ ν) (size b1len b2len : Nat) (k : κ) (v : ν) :
    (admitNew s1 size b1len b2len k v).t1 = (k, v) :: s1.t1 ∧ (admitNew s1 size b1len b2len k v).t2 = s1.t2 ∧
    (∀ e, e ∈ (admitNew s1 size b1len b2len k v).b1 → e ∈ s1.b1) ∧
    (∀ e, e ∈ (admitNew s1 size b1len b2len k v).b2 → e ∈ s1.b2) := by
  have d1 := fun x hx => mem_dropLast_of s1.b1 x hx
  have d2 := fun x hx => mem_dropLast_of s1.b2 x hx
  unfold admitNew
  dsimp only
  refine ⟨?_, ?_, ?_, ?_⟩ <;> (repeat' split) <;> first | rfl | (intro e he; first | exact he | exact d1 e he | exact d2 e he)

/-- what ARC's `put` reports is true, and the only entries that leave without being reported are ghosts:
    entries that were in a ghost list before the call, or the least-recent resident of T1/T2 that this very call
    demoted to a ghost list and trimmed -/
structure ArcTruth (s s' : St κ ν) (k : κ) (v : ν) (r : PutResult κ ν) : Prop where
  resident : (k, v) ∈ s'.t1 ++ s'.t2
  result : (r = .put ∧ k ∉ keys (all4 s)) ∨ (∃ old, r = .update old ∧ (k, old) ∈ all4 s)
  nothing_new : ∀ e, e ∈ all4 s' → e = (k, v) ∨ (e ∈ all4 s ∧ e.1 ≠ k)
  residents : ∀ e, e ∈ s.t1 ++ s.t2 → e.1 ≠ k →
      e ∈ s'.t1 ++ s'.t2 ∨ s.t1.getLast? = some e ∨ s.t2.getLast? = some e

theorem put_truth (s : St κ ν) (size : Nat) (k : κ) (v : ν)
    (nd1 : (keys s.t1).Nodup) (nd2 : (keys s.t2).Nodup) (ndb1 : (keys s.b1).Nodup) (ndb2 : (keys s.b2).Nodup)
    (d12 : ∀ x, x ∈ keys s.t1 → x ∉ keys s.t2) (d1b1 : ∀ x, x ∈ keys s.t1 → x ∉ keys s.b1)
    (d1b2 : ∀ x, x ∈ keys s.t1 → x ∉ keys s.b2) (d2b1 : ∀ x, x ∈ keys s.t2 → x ∉ keys s.b1)
    (d2b2 : ∀ x, x ∈ keys s.t2 → x ∉ keys s.b2) (db : ∀ x, x ∈ keys s.b1 → x ∉ keys s.b2) :
    ArcTruth s (put s size k v).1 k v (put s size k v).2 := by
  obtain ⟨er1, ab1, sp1, lk1, fm1, un1, nil1⟩ := facts2 k s.t1 nd1
  obtain ⟨er2, ab2, sp2, lk2, fm2, un2, nil2⟩ := facts2 k s.t2 nd2
  obtain ⟨er3, ab3, sp3, lk3, fm3, un3, nil3⟩ := facts2 k s.b1 ndb1
  obtain ⟨er4, ab4, sp4, lk4, fm4, un4, nil4⟩ := facts2 k s.b2 ndb2
  have j12 : ∀ a b, a ∈ s.t1 → b ∈ s.t2 → a.1 ≠ b.1 := by
    intro a b ha hb hc; exact d12 a.1 (mem_keys_of_mem a _ ha) (hc ▸ mem_keys_of_mem b _ hb)
  have j13 : ∀ a b, a ∈ s.t1 → b ∈ s.b1 → a.1 ≠ b.1 := by
    intro a b ha hb hc; exact d1b1 a.1 (mem_keys_of_mem a _ ha) (hc ▸ mem_keys_of_mem b _ hb)
  have j14 : ∀ a b, a ∈ s.t1 → b ∈ s.b2 → a.1 ≠ b.1 := by
    intro a b ha hb hc; exact d1b2 a.1 (mem_keys_of_mem a _ ha) (hc ▸ mem_keys_of_mem b _ hb)
  have j23 : ∀ a b, a ∈ s.t2 → b ∈ s.b1 → a.1 ≠ b.1 := by
    intro a b ha hb hc; exact d2b1 a.1 (mem_keys_of_mem a _ ha) (hc ▸ mem_keys_of_mem b _ hb)
  have j24 : ∀ a b, a ∈ s.t2 → b ∈ s.b2 → a.1 ≠ b.1 := by
    intro a b ha hb hc; exact d2b2 a.1 (mem_keys_of_mem a _ ha) (hc ▸ mem_keys_of_mem b _ hb)
  have j34 : ∀ a b, a ∈ s.b1 → b ∈ s.b2 → a.1 ≠ b.1 := by
    intro a b ha hb hc; exact db a.1 (mem_keys_of_mem a _ ha) (hc ▸ mem_keys_of_mem b _ hb)
  unfold put
  cases h1 : find k s.t1 with
  | some old =>
    dsimp only
    constructor <;> (simp only [all4, not_mem_keys_iff, List.mem_append, List.mem_cons]; grind only)
  | none =>
    cases h2 : find k s.t2 with
    | some old =>
      dsimp only
      constructor <;> (simp only [all4, not_mem_keys_iff, List.mem_append, List.mem_cons]; grind only)
    | none =>
      cases hb1 : find k s.b1 with
      | some old =>
        dsimp only
        obtain ⟨m1, m2, m3, m4, m5, m6⟩ := makeRoom_moves { s with p := min size (s.p + max 1 (s.b2.length / s.b1.length)), b1 := erase k s.b1 } size false
        dsimp only at m1 m2 m3 m4 m5 m6
        constructor <;> (simp only [all4, not_mem_keys_iff, List.mem_append, List.mem_cons]; grind only)
      | none =>
        cases hb2 : find k s.b2 with
        | some old =>
          dsimp only
          obtain ⟨m1, m2, m3, m4, m5, m6⟩ := makeRoom_moves { s with p := s.p - min s.p (max 1 (s.b1.length / s.b2.length)), b2 := erase k s.b2 } size true
          dsimp only at m1 m2 m3 m4 m5 m6
          constructor <;> (simp only [all4, not_mem_keys_iff, List.mem_append, List.mem_cons]; grind only)
        | none =>
          dsimp only
          obtain ⟨m1, m2, m3, m4, m5, m6⟩ := makeRoom_moves s size false
          obtain ⟨a1, a2, a3, a4⟩ := admitNew_lists (makeRoom s size false) size s.b1.length s.b2.length k v
          constructor <;> (simp only [all4, not_mem_keys_iff, List.mem_append, List.mem_cons, a1, a2]; grind only)
end ArcSpec

end M
