/- Backbone for `WTinyLfu`: invariant, totality and preservation for every operation, every key hasher. -/
import Caches.Model.WTinyLfu
import Caches.Lemmas.Slru
import Caches.Lemmas.TinyLfu
set_option linter.unusedSectionVars false
set_option linter.unusedVariables false
set_option linter.unusedSimpArgs false
namespace M
variable {κ ν : Type} [DecidableEq κ]
namespace WTinyLfu

structure Inv (c : WTinyLfu κ ν) : Prop where
  wnd : (keys c.window.items).Nodup
  wb : c.window.items.length ≤ c.window.cap
  wpos : 0 < c.window.cap
  mi : c.main.Inv
  dw : ∀ x, x ∈ keys c.window.items → ¬ Slru.Held c.main x
  ei : c.est.WF

/-- capacities and estimator geometry never change -/
def SameCfg (c c' : WTinyLfu κ ν) : Prop :=
  c'.window.cap = c.window.cap ∧ Slru.SameCaps c.main c'.main ∧ TinyLfu.SameGeo c.est c'.est

theorem not_held_of_not_contains (m : Slru κ ν) (k : κ) (h : m.contains k = false) : ¬ Slru.Held m k := by
  unfold Slru.contains RawLru.contains at h
  simp only [Bool.or_eq_false_iff] at h
  intro hc
  rcases hc with hc | hc
  · have := (find_isSome_iff k _).2 hc; rw [h.2] at this; cases this
  · have := (find_isSome_iff k _).2 hc; rw [h.1] at this; cases this

/-- admitting the window's outgoing entry `cand` into the main cache -/
theorem admit_inv (c : WTinyLfu κ ν) (w' : RawLru κ ν) (cand : κ × ν) (hm : c.main.Inv)
    (hcn : ¬ Slru.Held c.main cand.1) :
    ∃ r m' d, c.main.put cand.1 cand.2 = .ok (r, m', d) ∧ m'.Inv ∧ Slru.SameCaps c.main m' ∧
      (∀ x, Slru.Held m' x → x = cand.1 ∨ Slru.Held c.main x) := by
  obtain ⟨r, m', d, hp, hi, hc⟩ := Slru.put_total_inv c.main cand.1 cand.2 hm
  exact ⟨r, m', d, hp, hi, hc, (Slru.put_held c.main m' cand.1 cand.2 r d hm hp).1⟩

theorem put_total_inv (c : WTinyLfu κ ν) (kh : κ → UInt64) (k : κ) (v : ν) (h : c.Inv) :
    ∃ r c' d, c.put kh k v = .ok (r, c', d) ∧ c'.Inv ∧ SameCfg c c' := by
  obtain ⟨wnd, wb, wpos, mi, dw, ei⟩ := h
  unfold WTinyLfu.put RawLru.remove
  cases hw : find k c.window.items with
  | none =>
    have hkw := (find_none_iff k _).1 hw
    simp only
    by_cases hmc : c.main.contains k = true
    · simp only [hmc, if_true]
      obtain ⟨r, m', d, hp, hi, hc⟩ := Slru.put_total_inv c.main k v mi
      have hh := (Slru.put_held c.main m' k v r d mi hp).1
      simp only [hp]
      refine ⟨_, _, _, rfl, ⟨wnd, wb, wpos, hi, ?_, ei⟩, ⟨rfl, hc, TinyLfu.sameGeo_refl _⟩⟩
      intro x hx hhx
      rcases hh x hhx with rfl | hx'
      · exact hkw hx
      · exact dw x hx hx'
    · have hmc' : c.main.contains k = false := by simpa using hmc
      have hknm := not_held_of_not_contains c.main k hmc'
      simp only [hmc', Bool.false_eq_true, if_false]
      have h0 : c.window.cap ≠ 0 := by omega
      by_cases hfull : c.window.items.length = c.window.cap
      · obtain ⟨cand, hl⟩ := getLast?_some_of_pos c.window.items (by omega)
        have lf := last_facts _ _ hl wnd
        simp only [RawLru.put_absent_full c.window k v cand hw hfull h0 hl]
        have hcn : ¬ Slru.Held c.main cand.1 := dw _ lf.1
        have hck : cand.1 ≠ k := fun hc => hkw (hc ▸ lf.1)
        -- the window after the new key went in
        have hwinv : ∀ (m' : Slru κ ν), m'.Inv → (∀ x, Slru.Held m' x → x = cand.1 ∨ Slru.Held c.main x) →
            ({ c with window := { c.window with items := (k, v) :: c.window.items.dropLast }, main := m' } : WTinyLfu κ ν).Inv := by
          intro m' hi hh
          refine ⟨?_, by simp only [List.length_cons]; omega, wpos, hi, ?_, ei⟩
          · simp only [keys_cons, List.nodup_cons]; exact ⟨fun hc => hkw (lf.2.2.2.1 _ hc), lf.2.2.1⟩
          · intro x hx hhx
            simp only [keys_cons, List.mem_cons] at hx
            rcases hh x hhx with rfl | hx'
            · rcases hx with hx | hx
              · exact hck hx
              · exact lf.2.1 hx
            · rcases hx with rfl | hx
              · exact hknm hx'
              · exact dw x (lf.2.2.2.1 x hx) hx'
        obtain ⟨r, m', d, hp, hi, hc, hh⟩ := admit_inv c c.window cand mi hcn
        by_cases hroom : c.main.len < c.main.cap
        · simp only [hroom, if_true, hp]
          exact ⟨_, _, _, rfl, hwinv m' hi hh, ⟨rfl, hc, TinyLfu.sameGeo_refl _⟩⟩
        · simp only [hroom, if_false]
          cases hv : c.main.prob.peekLru with
          | none =>
            simp only [hp]
            exact ⟨_, _, _, rfl, hwinv m' hi hh, ⟨rfl, hc, TinyLfu.sameGeo_refl _⟩⟩
          | some vic =>
            simp only
            obtain ⟨b, hb⟩ := TinyLfu.compare_total c.est ei .lt (kh cand.1) (kh vic.1)
            simp only [TinyLfu.lt, hb]
            cases b with
            | true =>
              refine ⟨_, _, _, rfl, ?_, ⟨rfl, ⟨rfl, rfl⟩, TinyLfu.sameGeo_refl _⟩⟩
              exact hwinv c.main mi (fun x hx => Or.inr hx)
            | false =>
              simp only [hp]
              exact ⟨_, _, _, rfl, hwinv m' hi hh, ⟨rfl, hc, TinyLfu.sameGeo_refl _⟩⟩
      · have hroom : c.window.items.length < c.window.cap := by omega
        simp only [RawLru.put_absent_room c.window k v hw hroom]
        refine ⟨_, _, _, rfl, ⟨?_, by simp only [List.length_cons]; omega, wpos, mi, ?_, ei⟩, ⟨rfl, ⟨rfl, rfl⟩, TinyLfu.sameGeo_refl _⟩⟩
        · simp only [keys_cons, List.nodup_cons]; exact ⟨hkw, wnd⟩
        · intro x hx
          simp only [keys_cons, List.mem_cons] at hx
          rcases hx with rfl | hx
          · exact hknm
          · exact dw x hx
  | some old =>
    have ef := erase_facts _ k old hw wnd
    simp only
    have hknm : ¬ Slru.Held c.main k := dw k ef.1
    -- the state after the optional demotion of protected's LRU into the window
    have step1 : ∃ c2 d1,
        ({ c with window := { c.window with items := erase k c.window.items } } : WTinyLfu κ ν).makeProtectedRoom = .ok (c2, d1) ∧
        c2.Inv ∧ SameCfg c c2 ∧ ¬ Slru.Held c2.main k ∧ k ∉ keys c2.window.items := by
      unfold WTinyLfu.makeProtectedRoom
      by_cases hpf : c.main.prot.items.length ≥ c.main.prot.cap
      · simp only [hpf, if_true]
        obtain ⟨ent, hl⟩ := getLast?_some_of_pos c.main.prot.items (by have := mi.pq; omega)
        have lf := last_facts _ _ hl mi.ndq
        simp only [Slru.removeLruFromProtected_spec c.main ent hl]
        have hentw : find ent.1 (erase k c.window.items) = none := by
          rw [find_none_iff]
          intro hc
          exact dw ent.1 ((ef.2.2.2.1 ent.1).1 hc).1 (Or.inr lf.1)
        have hroom : ({ c.window with items := erase k c.window.items } : RawLru κ ν).items.length <
            ({ c.window with items := erase k c.window.items } : RawLru κ ν).cap := by
          have := ef.2.2.2.2; simp only; omega
        simp only [RawLru.put_absent_room _ ent.1 ent.2 hentw hroom]
        have hentk : ent.1 ≠ k := fun hc => hknm (Or.inr (hc ▸ lf.1))
        refine ⟨_, _, rfl, ⟨?_, by simp only [List.length_cons]; have := ef.2.2.2.2; omega, wpos, ?_, ?_, ei⟩,
          ⟨rfl, ⟨rfl, rfl⟩, TinyLfu.sameGeo_refl _⟩, ?_, ?_⟩
        · simp only [keys_cons', List.nodup_cons]
          exact ⟨(find_none_iff _ _).1 hentw, ef.2.2.1⟩
        · obtain ⟨ndp, ndq, disj, bp, bq, pp, pq⟩ := mi
          constructor <;> simp only <;> first | assumption | omega | grind
        · intro x hx hhx
          simp only [keys_cons', List.mem_cons] at hx
          unfold Slru.Held at hhx; simp only at hhx
          rcases hx with rfl | hx
          · rcases hhx with hhx | hhx
            · exact mi.disj _ hhx lf.1
            · exact lf.2.1 hhx
          · have := (ef.2.2.2.1 x).1 hx
            rcases hhx with hhx | hhx
            · exact dw x this.1 (Or.inl hhx)
            · exact dw x this.1 (Or.inr (lf.2.2.2.1 x hhx))
        · intro hc; unfold Slru.Held at hc; simp only at hc
          rcases hc with hc | hc
          · exact hknm (Or.inl hc)
          · exact hknm (Or.inr (lf.2.2.2.1 k hc))
        · simp only [keys_cons', List.mem_cons, not_or]
          exact ⟨fun hc => hentk hc.symm, ef.2.1⟩
      · simp only [hpf, if_false]
        refine ⟨_, _, rfl, ⟨ef.2.2.1, by have := ef.2.2.2.2; simp only; omega, wpos, mi, ?_, ei⟩,
          ⟨rfl, ⟨rfl, rfl⟩, TinyLfu.sameGeo_refl _⟩, hknm, ef.2.1⟩
        intro x hx
        exact dw x ((ef.2.2.2.1 x).1 hx).1
    obtain ⟨c2, d1, hs1, hi2, hcfg2, hk2, hkw2⟩ := step1
    simp only [hs1]
    obtain ⟨r, m', d2, hpp, hi', hc', hkin, hknotp⟩ := Slru.putProtected_total_inv c2.main k v hi2.mi
    have hh := Slru.putProtected_held c2.main m' k v r d2 hi2.mi hpp
    simp only [hpp]
    refine ⟨_, _, _, rfl, ⟨hi2.wnd, hi2.wb, hi2.wpos, hi', ?_, hi2.ei⟩, ?_⟩
    · intro x hx hhx
      unfold Slru.Held at hhx
      rcases hhx with hhx | hhx
      · exact hi2.dw x hx (Or.inl (hh.1 x hhx).1)
      · rcases hh.2 x hhx with rfl | hx'
        · exact hkw2 hx
        · exact hi2.dw x hx (Or.inr hx')
    · obtain ⟨a1, ⟨a2, a3⟩, a4⟩ := hcfg2
      exact ⟨a1, ⟨by rw [hc'.1, a2], by rw [hc'.2, a3]⟩, a4⟩

theorem getMut_total_inv (c : WTinyLfu κ ν) (kh : κ → UInt64) (k : κ) (w : Option ν) (h : c.Inv) :
    ∃ r c', c.getMut kh k w = .ok (r, c') ∧ c'.Inv ∧ SameCfg c c' := by
  obtain ⟨wnd, wb, wpos, mi, dw, ei⟩ := h
  have tw := TinyLfu.tryReset_wf c.est ei
  obtain ⟨est', hinc, hwf', hgeo'⟩ := TinyLfu.increment_total c.est.tryReset tw.1 (kh k)
  have hgeo := TinyLfu.sameGeo_trans _ _ _ tw.2 hgeo'
  unfold WTinyLfu.getMut WTinyLfu.record
  simp only [hinc, RawLru.getMut]
  cases hw : find k c.window.items with
  | some old =>
    have ef := erase_facts _ k old hw wnd
    refine ⟨_, _, rfl, ⟨?_, ?_, wpos, mi, ?_, hwf'⟩, ⟨rfl, ⟨rfl, rfl⟩, hgeo⟩⟩
    · exact RawLru.nodup_use k _ _ wnd
    · simp only [RawLru.length_use k _ old _ hw]; exact wb
    · intro x hx
      simp only [use, keys_cons, List.mem_cons] at hx
      rcases hx with rfl | hx
      · exact dw _ ef.1
      · exact dw x ((ef.2.2.2.1 x).1 hx).1
  | none =>
    simp only
    obtain ⟨r, m', hg, hi, hc⟩ := Slru.getMut_total_inv c.main k w mi
    have hh := Slru.getMut_held c.main m' k w r mi hg
    simp only [hg]
    refine ⟨_, _, rfl, ⟨wnd, wb, wpos, hi, ?_, hwf'⟩, ⟨rfl, hc, hgeo⟩⟩
    intro x hx hhx
    exact dw x hx ((hh x).1 hhx)

theorem peekMut_inv (c : WTinyLfu κ ν) (k : κ) (w : Option ν) (h : c.Inv) :
    (c.peekMut k w).1.Inv ∧ SameCfg c (c.peekMut k w).1 ∧ (c.peekMut k w).1.est = c.est := by
  obtain ⟨wnd, wb, wpos, mi, dw, ei⟩ := h
  unfold WTinyLfu.peekMut RawLru.peekMut
  cases hw : find k c.window.items with
  | some old =>
    cases w with
    | none => exact ⟨⟨wnd, wb, wpos, mi, dw, ei⟩, ⟨rfl, ⟨rfl, rfl⟩, TinyLfu.sameGeo_refl _⟩, rfl⟩
    | some w =>
      refine ⟨⟨by simp only [keys_setVal]; exact wnd, by simp only [length_setVal]; exact wb, wpos, mi,
        by simp only [keys_setVal]; exact dw, ei⟩, ⟨rfl, ⟨rfl, rfl⟩, TinyLfu.sameGeo_refl _⟩, rfl⟩
  | none =>
    have hm := Slru.peekMut_inv c.main k w mi
    have hkeys : ∀ x, Slru.Held (c.main.peekMut k w).1 x ↔ Slru.Held c.main x := by
      intro x
      unfold Slru.Held Slru.peekMut RawLru.peekMut
      cases hq : find k c.main.prot.items <;> cases hp : find k c.main.prob.items <;> cases w <;> simp [keys_setVal]
    have hinv : ({ c with main := (c.main.peekMut k w).1 } : WTinyLfu κ ν).Inv :=
      ⟨wnd, wb, wpos, hm.1, fun x hx hhx => dw x hx ((hkeys x).1 hhx), ei⟩
    have hcfg : SameCfg c { c with main := (c.main.peekMut k w).1 } := ⟨rfl, hm.2, TinyLfu.sameGeo_refl _⟩
    cases w with
    | none => exact ⟨hinv, hcfg, rfl⟩
    | some w => exact ⟨hinv, hcfg, rfl⟩

theorem remove_inv (c : WTinyLfu κ ν) (k : κ) (h : c.Inv) : (c.remove k).1.Inv ∧ SameCfg c (c.remove k).1 := by
  obtain ⟨wnd, wb, wpos, mi, dw, ei⟩ := h
  unfold WTinyLfu.remove RawLru.remove
  cases hw : find k c.window.items with
  | some old =>
    have ef := erase_facts _ k old hw wnd
    refine ⟨⟨ef.2.2.1, by have := ef.2.2.2.2; simp only; omega, wpos, mi, ?_, ei⟩, ⟨rfl, ⟨rfl, rfl⟩, TinyLfu.sameGeo_refl _⟩⟩
    intro x hx; exact dw x ((ef.2.2.2.1 x).1 hx).1
  | none =>
    simp only
    have hm := Slru.remove_inv c.main k mi
    have hh := Slru.remove_held c.main k mi
    refine ⟨⟨wnd, wb, wpos, hm.1, ?_, ei⟩, ⟨rfl, hm.2, TinyLfu.sameGeo_refl _⟩⟩
    intro x hx hhx
    exact dw x hx (hh x hhx).1

theorem purge_total_inv (c : WTinyLfu κ ν) (h : c.Inv) :
    ∃ c' d, c.purge = .ok (c', d) ∧ c'.Inv ∧ SameCfg c c' ∧ c'.est = c.est.clear ∧
      c'.window.items = [] ∧ c'.main.prob.items = [] ∧ c'.main.prot.items = [] := by
  obtain ⟨wnd, wb, wpos, mi, dw, ei⟩ := h
  obtain ⟨d, hp, hi⟩ := Slru.purge_total_inv c.main mi
  have cs := TinyLfu.clear_spec c.est ei
  unfold WTinyLfu.purge
  simp only [RawLru.purge_spec, hp]
  refine ⟨_, _, rfl, ⟨by simp, by simp, wpos, hi, by simp, cs.1⟩, ⟨rfl, ⟨rfl, rfl⟩, cs.2.1⟩, rfl, rfl, rfl, rfl⟩

theorem clone_eq (c : WTinyLfu κ ν) (h : c.Inv) : c.cloneImpl = .ok c := by
  unfold WTinyLfu.cloneImpl
  rw [RawLru.clone_eq c.window ⟨h.wnd, h.wb⟩, Slru.clone_eq c.main h.mi]

end WTinyLfu
end M
