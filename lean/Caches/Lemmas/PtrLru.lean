/- Refinement: the pointer-level RawLRU (`Model/PtrLru`) computes exactly what the list-level RawLRU (`Model/RawLru`)
   computes, for every index function, every address the allocator may return and every reachable chain. -/
import Caches.Model.PtrLru
import Caches.Lemmas.Chain
import Caches.Lemmas.RawLru
import Caches.Lemmas.Entries
set_option linter.unusedSectionVars false
set_option linter.unusedVariables false
namespace M
open M.Chain
variable {κ ν : Type} [DecidableEq κ]

/-- representation invariant: `l` is the chain between the sentinels (most recent first) -/
structure Rep (p : PLru κ ν) (l : List Nat) : Prop where
  wf : WF p.heap p.head p.tail l
  len : p.len = l.length
  idx : ∀ k n, p.idx k = some n ↔ n ∈ l ∧ (p.ent n).1 = k
  bound : l.length ≤ p.cap

/-- the abstract cache a pointer state represents -/
def PLru.abs (p : PLru κ ν) (l : List Nat) : RawLru κ ν := { cap := p.cap, items := l.map p.ent, hasCb := false }

theorem rep_nodup (p : PLru κ ν) (l : List Nat) (h : Rep p l) : l.Nodup := by
  have := h.wf.1
  simp only [List.nodup_cons, List.nodup_append] at this
  exact this.2.1

theorem rep_key_inj (p : PLru κ ν) (l : List Nat) (h : Rep p l) :
    ∀ a b, a ∈ l → b ∈ l → (p.ent a).1 = (p.ent b).1 → a = b := by
  intro a b ha hb hab
  have h1 := (h.idx (p.ent a).1 a).2 ⟨ha, rfl⟩
  have h2 := (h.idx (p.ent a).1 b).2 ⟨hb, hab.symm⟩
  rw [h1] at h2; injection h2

theorem nodup_keys_map (ent : Nat → κ × ν) (l : List Nat) (hnd : l.Nodup)
    (hinj : ∀ a b, a ∈ l → b ∈ l → (ent a).1 = (ent b).1 → a = b) : (keys (l.map ent)).Nodup := by
  induction l with
  | nil => simp [keys]
  | cons a t ih =>
    simp only [List.map_cons, keys_cons', List.nodup_cons]
    have hnd' := List.nodup_cons.1 hnd
    refine ⟨?_, ih hnd'.2 (fun x y hx hy => hinj x y (List.mem_cons_of_mem _ hx) (List.mem_cons_of_mem _ hy))⟩
    intro hc
    unfold keys at hc
    simp only [List.map_map, List.mem_map, Function.comp] at hc
    obtain ⟨b, hb, hbe⟩ := hc
    have := hinj a b (by simp) (List.mem_cons_of_mem _ hb) hbe.symm
    exact hnd'.1 (this ▸ hb)

theorem rep_keys_nodup (p : PLru κ ν) (l : List Nat) (h : Rep p l) : (keys (l.map p.ent)).Nodup :=
  nodup_keys_map p.ent l (rep_nodup p l h) (rep_key_inj p l h)

/-- the index lookup is the list lookup -/
theorem rep_find (p : PLru κ ν) (l : List Nat) (h : Rep p l) (k : κ) :
    find k (l.map p.ent) = (p.idx k).map (fun n => (p.ent n).2) := by
  have nd := rep_keys_nodup p l h
  cases hi : p.idx k with
  | none =>
    simp only [Option.map_none]
    apply (find_none_iff k _).2
    intro hc
    unfold keys at hc
    simp only [List.map_map, List.mem_map, Function.comp] at hc
    obtain ⟨n, hn, hk⟩ := hc
    have := (h.idx k n).2 ⟨hn, hk⟩
    rw [hi] at this; cases this
  | some n =>
    simp only [Option.map_some]
    obtain ⟨hn, hk⟩ := (h.idx k n).1 hi
    apply (find_iff_mem k _ _ nd).2
    apply List.mem_map.2
    exact ⟨n, hn, by rw [← hk]⟩


/-! ### list helpers -/

theorem map_upd_of_not_mem {β : Type} (f : Nat → β) (n : Nat) (x : β) (l : List Nat) (h : n ∉ l) :
    l.map (upd f n x) = l.map f := by
  apply List.map_congr_left
  intro y hy
  unfold upd
  have : y ≠ n := fun hc => h (hc ▸ hy)
  simp [this]

theorem map_erase_key (ent : Nat → κ × ν) (l : List Nat) (hk : (keys (l.map ent)).Nodup) (n : Nat) (hn : n ∈ l) :
    (l.erase n).map ent = erase (ent n).1 (l.map ent) := by
  induction l with
  | nil => simp at hn
  | cons a t ih =>
    by_cases ha : a = n
    · subst ha; simp [M.erase]
    · have hnt : n ∈ t := by simp only [List.mem_cons] at hn; rcases hn with hn | hn; exact absurd hn.symm ha; exact hn
      have hk' : (ent a).1 ∉ keys (t.map ent) ∧ (keys (t.map ent)).Nodup := by
        unfold keys at hk ⊢; simpa only [List.map_cons, List.nodup_cons] using hk
      have hne : (ent a).1 ≠ (ent n).1 := by
        intro hc; apply hk'.1; rw [hc]; unfold keys; simp only [List.map_map, List.mem_map]; exact ⟨n, hnt, rfl⟩
      rw [List.erase_cons_tail (by simpa using ha)]
      simp only [List.map_cons]
      rw [show ent a = ((ent a).1, (ent a).2) from rfl]
      simp only [M.erase, hne, if_false]
      rw [ih hk'.2 hnt]

theorem erase_getLast (l : List Nat) (hnd : l.Nodup) (hne : l ≠ []) : l.erase (l.getLast hne) = l.dropLast := by
  have hs := List.dropLast_concat_getLast hne
  have hnot : l.getLast hne ∉ l.dropLast := by
    intro hc
    rw [← hs] at hnd
    have := (List.nodup_append.1 hnd).2.2 _ hc (l.getLast hne) (by simp)
    exact this rfl
  generalize hx : l.getLast hne = x at *
  have : l.erase x = (l.dropLast ++ [x]).erase x := by rw [hs]
  rw [this, List.erase_append_right _ hnot]
  simp

theorem getLast_map {β : Type} (f : Nat → β) (l : List Nat) (hne : l ≠ []) :
    (l.map f).getLast? = some (f (l.getLast hne)) := by
  rw [List.getLast?_map, List.getLast?_eq_some_getLast hne]; rfl

theorem dropLast_map {β : Type} (f : Nat → β) (l : List Nat) : (l.map f).dropLast = l.dropLast.map f := by
  simp [List.map_dropLast]

theorem peek_refines (p : PLru κ ν) (l : List Nat) (h : Rep p l) (k : κ) : p.peek k = (p.abs l).peek k := by
  unfold PLru.peek RawLru.peek PLru.abs
  exact (rep_find p l h k).symm

/-! ### each pointer-level operation refines the list-level one -/

theorem rep_front (p : PLru κ ν) (l : List Nat) (h : Rep p l) (n : Nat) (hn : n ∈ l) :
    Rep { p with heap := attach (detach p.heap n) p.head n } (n :: l.erase n) := by
  have hnd := rep_nodup p l h
  refine ⟨move_front_wf _ _ _ _ h.wf n hn, ?_, ?_, ?_⟩
  · simp only [List.length_cons, List.length_erase_of_mem hn]
    have := h.len; have := List.length_pos_of_mem hn; omega
  · intro k m
    rw [h.idx k m]
    simp only [List.mem_cons, List.Nodup.mem_erase_iff hnd]
    constructor
    · rintro ⟨hm, hk⟩
      by_cases hmn : m = n
      · exact ⟨Or.inl hmn, hk⟩
      · exact ⟨Or.inr ⟨hmn, hm⟩, hk⟩
    · rintro ⟨hm | hm, hk⟩
      · exact ⟨hm ▸ hn, hk⟩
      · exact ⟨hm.2, hk⟩
  · simp only [List.length_cons, List.length_erase_of_mem hn]
    have := h.bound; have := List.length_pos_of_mem hn; omega

/-- `get`: same answer, and the chain afterwards represents the list-level result -/
theorem get_refines (p : PLru κ ν) (l : List Nat) (h : Rep p l) (k : κ) :
    ∃ l', Rep (p.get k).1 l' ∧ (p.get k).1.abs l' = ((p.abs l).get k).1 ∧ (p.get k).2 = ((p.abs l).get k).2 := by
  have hf := rep_find p l h k
  have nd := rep_keys_nodup p l h
  unfold PLru.get RawLru.get
  cases hi : p.idx k with
  | none =>
    simp only [hi, Option.map_none] at hf
    simp only [PLru.abs, hf]
    exact ⟨l, h, rfl, trivial⟩
  | some n =>
    simp only [hi, Option.map_some] at hf
    obtain ⟨hn, hk⟩ := (h.idx k n).1 hi
    simp only [PLru.abs, hf]
    refine ⟨n :: l.erase n, rep_front p l h n hn, ?_, trivial⟩
    simp only [PLru.abs, List.map_cons, use, map_erase_key p.ent l nd n hn, hk]
    rw [← hk]

/-- `remove`: same answer; the node is unlinked and un-indexed -/
theorem remove_refines (p : PLru κ ν) (l : List Nat) (h : Rep p l) (k : κ) :
    ∃ l', Rep (p.remove k).1 l' ∧ (p.remove k).1.abs l' = ((p.abs l).remove k).1 ∧
      (p.remove k).2 = ((p.abs l).remove k).2.1 := by
  have hf := rep_find p l h k
  have nd := rep_keys_nodup p l h
  have hnd := rep_nodup p l h
  unfold PLru.remove RawLru.remove
  cases hi : p.idx k with
  | none =>
    simp only [hi, Option.map_none] at hf
    simp only [PLru.abs, hf]
    exact ⟨l, h, rfl, trivial⟩
  | some n =>
    simp only [hi, Option.map_some] at hf
    obtain ⟨hn, hk⟩ := (h.idx k n).1 hi
    simp only [PLru.abs, hf]
    refine ⟨l.erase n, ⟨detach_wf _ _ _ _ h.wf n hn, ?_, ?_, ?_⟩, ?_, trivial⟩
    · simp only [List.length_erase_of_mem hn]; have := h.len; omega
    · intro k' m
      simp only [upd, List.Nodup.mem_erase_iff hnd]
      by_cases hkk : k' = k
      · subst hkk
        simp only [if_true]
        constructor
        · intro hc; cases hc
        · rintro ⟨⟨hmn, hm⟩, hmk⟩
          exact absurd (rep_key_inj p l h m n hm hn (by rw [hmk, hk])) hmn
      · simp only [hkk, if_false]
        rw [h.idx k' m]
        constructor
        · rintro ⟨hm, hmk⟩
          exact ⟨⟨fun hc => hkk (by rw [← hmk, hc, hk]), hm⟩, hmk⟩
        · rintro ⟨⟨_, hm⟩, hmk⟩; exact ⟨hm, hmk⟩
    · simp only [List.length_erase_of_mem hn]; have := h.bound; omega
    · simp only [PLru.abs, map_erase_key p.ent l nd n hn, hk]

/-- `remove_lru`: the node before the tail sentinel is the least recent entry -/
theorem removeLru_refines (p : PLru κ ν) (l : List Nat) (h : Rep p l) :
    ∃ l', Rep p.removeLru.1 l' ∧ p.removeLru.1.abs l' = (p.abs l).removeLru.1 ∧
      p.removeLru.2 = (p.abs l).removeLru.2.1 := by
  have nd := rep_keys_nodup p l h
  have hnd := rep_nodup p l h
  unfold PLru.removeLru RawLru.removeLru RawLru.removeLruIn
  by_cases h0 : p.len = 0
  · have hl : l = [] := List.eq_nil_of_length_eq_zero (by rw [← h.len]; exact h0)
    subst hl
    simp only [h0, if_true, PLru.abs, List.map_nil, List.getLast?_nil]
    exact ⟨[], h, rfl, trivial⟩
  · have hne : l ≠ [] := by intro hc; subst hc; exact h0 (by rw [h.len]; rfl)
    have htp := tail_prev _ _ _ _ h.wf
    rw [List.getLast_cons hne] at htp
    have hn : l.getLast hne ∈ l := List.getLast_mem hne
    simp only [h0, if_false, PLru.abs, getLast_map p.ent l hne, htp]
    refine ⟨l.dropLast, ⟨?_, ?_, ?_, ?_⟩, ?_, trivial⟩
    · rw [← erase_getLast l hnd hne]; exact detach_wf _ _ _ _ h.wf _ hn
    · simp only [List.length_dropLast]; have := h.len; omega
    · intro k' m
      rw [← erase_getLast l hnd hne]
      simp only [upd, List.Nodup.mem_erase_iff hnd]
      by_cases hkk : k' = (p.ent (l.getLast hne)).1
      · subst hkk
        simp only [if_true]
        constructor
        · intro hc; cases hc
        · rintro ⟨⟨hmn, hm⟩, hmk⟩
          exact absurd (rep_key_inj p l h m _ hm hn hmk) hmn
      · simp only [hkk, if_false]
        rw [h.idx k' m]
        constructor
        · rintro ⟨hm, hmk⟩
          exact ⟨⟨fun hc => hkk (by rw [← hmk, hc]), hm⟩, hmk⟩
        · rintro ⟨⟨_, hm⟩, hmk⟩; exact ⟨hm, hmk⟩
    · simp only [List.length_dropLast]; have := h.bound; omega
    · simp only [PLru.abs, dropLast_map]

/-- `put`, for every address `a` the allocator may hand out (any address not in the chain): same result, and the
    chain afterwards represents the list-level result — in particular neither depends on `a` -/
theorem put_refines (p : PLru κ ν) (l : List Nat) (h : Rep p l) (k : κ) (v : ν) (a : Nat)
    (ha : a ∉ p.head :: (l ++ [p.tail])) :
    ∃ l' c' e, Rep (p.put k v a).1 l' ∧ (p.abs l).put k v = .ok (c', (p.put k v a).2, e) ∧ (p.put k v a).1.abs l' = c' := by
  have hf := rep_find p l h k
  have nd := rep_keys_nodup p l h
  have hnd := rep_nodup p l h
  have hal : a ∉ l := fun hc => ha (by simp [hc])
  unfold PLru.put
  cases hi : p.idx k with
  | some n =>
    simp only [hi, Option.map_some] at hf
    obtain ⟨hn, hk⟩ := (h.idx k n).1 hi
    have hput := RawLru.put_present (p.abs l) k v (p.ent n).2 hf
    refine ⟨n :: l.erase n, _, _, ?_, hput, ?_⟩
    · -- the payload update keeps every key, so the index characterisation is untouched
      have hr := rep_front p l h n hn
      refine ⟨hr.wf, hr.len, ?_, hr.bound⟩
      intro k' m
      have : ((upd p.ent n ((p.ent n).1, v)) m).1 = (p.ent m).1 := by
        unfold upd; split
        · rename_i hm; rw [hm]
        · rfl
      simp only [this]
      exact hr.idx k' m
    · simp only [PLru.abs, List.map_cons, use, upd, if_true]
      have hne : n ∉ l.erase n := fun hc => ((List.Nodup.mem_erase_iff hnd).1 hc).1 rfl
      have := map_upd_of_not_mem p.ent n ((p.ent n).1, v) (l.erase n) hne
      rw [this, map_erase_key p.ent l nd n hn, hk]
  | none =>
    simp only [hi, Option.map_none] at hf
    have hkl : ∀ m, m ∈ l → (p.ent m).1 ≠ k := by
      intro m hm hc
      have := (h.idx k m).2 ⟨hm, hc⟩
      rw [hi] at this; cases this
    by_cases h0 : p.cap = 0
    · simp only [h0, if_true]
      exact ⟨l, _, _, h, RawLru.put_cap_zero (p.abs l) k v hf h0, rfl⟩
    · simp only [h0, if_false]
      by_cases hfull : p.len = p.cap
      · simp only [hfull, if_true]
        have hne : l ≠ [] := by
          intro hc; subst hc; apply h0; rw [← hfull, h.len]; rfl
        have htp := tail_prev _ _ _ _ h.wf
        rw [List.getLast_cons hne] at htp
        have hn : l.getLast hne ∈ l := List.getLast_mem hne
        generalize hx : l.getLast hne = n at *
        have hlen : (p.abs l).items.length = (p.abs l).cap := by
          simp only [PLru.abs, List.length_map]; rw [← h.len]; exact hfull
        have hput := RawLru.put_absent_full (p.abs l) k v (p.ent n) hf hlen h0
          (by simp only [PLru.abs]; rw [getLast_map p.ent l hne, hx])
        rw [htp]
        refine ⟨n :: l.erase n, _, _, ?_, hput, ?_⟩
        · have hr := rep_front p l h n hn
          refine ⟨hr.wf, (by have := hr.len; simp only at this ⊢; omega), ?_, hr.bound⟩
          intro k' m
          simp only [upd, List.mem_cons, List.Nodup.mem_erase_iff hnd]
          by_cases hk'k : k' = k
          · subst hk'k
            simp only [if_true]
            constructor
            · intro hc; injection hc with hc; subst hc; simp
            · rintro ⟨hm | ⟨hmn, hm⟩, hmk⟩
              · rw [hm]
              · simp only [hmn, if_false] at hmk
                exact absurd hmk (hkl m hm)
          · simp only [hk'k, if_false]
            by_cases hk'o : k' = (p.ent n).1
            · subst hk'o
              simp only [if_true]
              constructor
              · intro hc; cases hc
              · rintro ⟨hm | ⟨hmn, hm⟩, hmk⟩
                · subst hm; simp only [if_true] at hmk; exact absurd hmk.symm hk'k
                · simp only [hmn, if_false] at hmk
                  exact absurd (rep_key_inj p l h m n hm hn hmk) hmn
            · simp only [hk'o, if_false]
              rw [h.idx k' m]
              constructor
              · rintro ⟨hm, hmk⟩
                have hmn : m ≠ n := fun hc => hk'o (by rw [← hmk, hc])
                exact ⟨Or.inr ⟨hmn, hm⟩, by simp only [hmn, if_false]; exact hmk⟩
              · rintro ⟨hm | ⟨hmn, hm⟩, hmk⟩
                · subst hm; simp only [if_true] at hmk; exact absurd hmk.symm hk'k
                · simp only [hmn, if_false] at hmk; exact ⟨hm, hmk⟩
        · simp only [PLru.abs, List.map_cons, upd, if_true]
          have hne' : n ∉ l.erase n := fun hc => ((List.Nodup.mem_erase_iff hnd).1 hc).1 rfl
          have := map_upd_of_not_mem p.ent n (k, v) (l.erase n) hne'
          rw [this, ← hx, erase_getLast l hnd hne, dropLast_map]
      · simp only [hfull, if_false]
        have hroom : (p.abs l).items.length < (p.abs l).cap := by
          simp only [PLru.abs, List.length_map]; have := h.len; have := h.bound; omega
        have hput := RawLru.put_absent_room (p.abs l) k v hf hroom
        refine ⟨a :: l, _, _, ⟨attach_wf _ _ _ _ _ h.wf ha, ?_, ?_, ?_⟩, hput, ?_⟩
        · simp only [List.length_cons]; have := h.len; omega
        · intro k' m
          simp only [upd, List.mem_cons]
          by_cases hk'k : k' = k
          · subst hk'k
            simp only [if_true]
            constructor
            · intro hc; injection hc with hc; subst hc; simp
            · rintro ⟨hm | hm, hmk⟩
              · rw [hm]
              · have hma : m ≠ a := fun hc => hal (hc ▸ hm)
                simp only [hma, if_false] at hmk
                exact absurd hmk (hkl m hm)
          · simp only [hk'k, if_false]
            rw [h.idx k' m]
            constructor
            · rintro ⟨hm, hmk⟩
              have hma : m ≠ a := fun hc => hal (hc ▸ hm)
              exact ⟨Or.inr hm, by simp only [hma, if_false]; exact hmk⟩
            · rintro ⟨hm | hm, hmk⟩
              · subst hm; simp only [if_true] at hmk; exact absurd hmk.symm hk'k
              · have hma : m ≠ a := fun hc => hal (hc ▸ hm)
                simp only [hma, if_false] at hmk; exact ⟨hm, hmk⟩
        · simp only [List.length_cons]; have := h.len; have := h.bound; omega
        · simp only [PLru.abs, List.map_cons, upd, if_true]
          have := map_upd_of_not_mem p.ent a (k, v) l hal
          rw [this]

end M
