/- Backbone for `Arc`: invariant (incl. `p ≤ size`), totality and preservation for every operation. -/
import Caches.Model.Arc
import Caches.Lemmas.Prims
set_option linter.unusedSectionVars false
set_option linter.unusedVariables false
set_option linter.unusedSimpArgs false
namespace M
variable {κ ν : Type} [DecidableEq κ]
namespace Arc

structure Inv (a : Arc κ ν) : Prop where
  nd1 : (keys a.recent.items).Nodup
  nd2 : (keys a.frequent.items).Nodup
  ndb1 : (keys a.recentEvict.items).Nodup
  ndb2 : (keys a.frequentEvict.items).Nodup
  d12 : ∀ x, x ∈ keys a.recent.items → x ∉ keys a.frequent.items
  d1b1 : ∀ x, x ∈ keys a.recent.items → x ∉ keys a.recentEvict.items
  d1b2 : ∀ x, x ∈ keys a.recent.items → x ∉ keys a.frequentEvict.items
  d2b1 : ∀ x, x ∈ keys a.frequent.items → x ∉ keys a.recentEvict.items
  d2b2 : ∀ x, x ∈ keys a.frequent.items → x ∉ keys a.frequentEvict.items
  db : ∀ x, x ∈ keys a.recentEvict.items → x ∉ keys a.frequentEvict.items
  bound : a.recent.items.length + a.frequent.items.length ≤ a.size
  b1bound : a.recentEvict.items.length ≤ a.size
  b2bound : a.frequentEvict.items.length ≤ a.size
  c1 : a.recent.cap = a.size
  c2 : a.frequent.cap = a.size
  cb1 : a.recentEvict.cap = a.size
  cb2 : a.frequentEvict.cap = a.size
  ple : a.p ≤ a.size
  spos : 0 < a.size

/-- a key retained anywhere (resident or ghost) -/
def Held (a : Arc κ ν) (x : κ) : Prop :=
  x ∈ keys a.recent.items ∨ x ∈ keys a.frequent.items ∨ x ∈ keys a.recentEvict.items ∨ x ∈ keys a.frequentEvict.items

theorem inv_new (size : Nat) (a : Arc κ ν) (h : Arc.new size = some a) : a.Inv ∧ a.size = size ∧ a.p = 0 := by
  unfold Arc.new at h
  split at h
  · simp at h
  · injection h with h; subst h
    refine ⟨?_, rfl, rfl⟩
    constructor <;> simp <;> omega

/-- `replace` on a well-formed, non-empty cache: removes exactly one resident entry, keeps everything well-formed,
    and introduces no new key -/
theorem replace_total_inv (a : Arc κ ν) (hitB2 : Bool) (h : a.Inv)
    (hne : 0 < a.recent.items.length + a.frequent.items.length) :
    ∃ a' d, a.replace hitB2 = .ok (a', d) ∧ a'.Inv ∧ a'.size = a.size ∧ a'.p = a.p ∧
      a'.recent.items.length + a'.frequent.items.length + 1 = a.recent.items.length + a.frequent.items.length ∧
      (∀ x, Held a' x → Held a x) := by
  obtain ⟨nd1, nd2, ndb1, ndb2, d12, d1b1, d1b2, d2b1, d2b2, db, hb, hb1, hb2, c1, c2, cb1, cb2, ple, spos⟩ := h
  unfold Arc.replace
  by_cases hfr : a.replaceFromRecent hitB2 = true
  · simp only [hfr, if_true]
    have hpos : 0 < a.recent.items.length := by
      simp [Arc.replaceFromRecent] at hfr; omega
    obtain ⟨e, he⟩ := getLast?_some_of_pos _ hpos
    have lf := last_facts _ _ he nd1
    simp only [RawLru.removeLruIn_some _ e he]
    by_cases hgfull : a.recentEvict.cap ≤ a.recentEvict.items.length
    · obtain ⟨g, hg⟩ := getLast?_some_of_pos a.recentEvict.items (by omega)
      have lg := last_facts _ _ hg ndb1
      simp only [RawLru.putNonnull_full _ _ g hgfull hg]
      refine ⟨_, _, rfl, ?_, rfl, rfl, by simp only; omega, ?_⟩
      · constructor <;> simp only [keys_cons, keys_cons', List.nodup_cons, List.mem_cons, List.length_cons] <;>
          first | assumption | omega | grind
      · intro x hx; unfold Held at hx ⊢; simp only [keys_cons', List.mem_cons] at hx; grind
    · have hroom : a.recentEvict.items.length < a.recentEvict.cap := by omega
      simp only [RawLru.putNonnull_room _ _ hroom]
      refine ⟨_, _, rfl, ?_, rfl, rfl, by simp only; omega, ?_⟩
      · constructor <;> simp only [keys_cons, keys_cons', List.nodup_cons, List.mem_cons, List.length_cons] <;>
          first | assumption | omega | grind
      · intro x hx; unfold Held at hx ⊢; simp only [keys_cons', List.mem_cons] at hx; grind
  · simp only [hfr, if_false]
    have hpos : 0 < a.frequent.items.length := by
      by_cases hr : 0 < a.recent.items.length
      · simp [Arc.replaceFromRecent, hr, RawLru.isEmpty] at hfr
        have := hfr.2
        exact List.length_pos_iff.2 (by simpa using this)
      · omega
    obtain ⟨e, he⟩ := getLast?_some_of_pos _ hpos
    have lf := last_facts _ _ he nd2
    simp only [RawLru.removeLruIn_some _ e he]
    by_cases hgfull : a.frequentEvict.cap ≤ a.frequentEvict.items.length
    · obtain ⟨g, hg⟩ := getLast?_some_of_pos a.frequentEvict.items (by omega)
      have lg := last_facts _ _ hg ndb2
      simp only [RawLru.putNonnull_full _ _ g hgfull hg]
      refine ⟨_, _, rfl, ?_, rfl, rfl, by simp only; omega, ?_⟩
      · constructor <;> simp only [keys_cons, keys_cons', List.nodup_cons, List.mem_cons, List.length_cons] <;>
          first | assumption | omega | grind
      · intro x hx; unfold Held at hx ⊢; simp only [keys_cons', List.mem_cons] at hx; grind
    · have hroom : a.frequentEvict.items.length < a.frequentEvict.cap := by omega
      simp only [RawLru.putNonnull_room _ _ hroom]
      refine ⟨_, _, rfl, ?_, rfl, rfl, by simp only; omega, ?_⟩
      · constructor <;> simp only [keys_cons, keys_cons', List.nodup_cons, List.mem_cons, List.length_cons] <;>
          first | assumption | omega | grind
      · intro x hx; unfold Held at hx ⊢; simp only [keys_cons', List.mem_cons] at hx; grind

/-- trimming a ghost list keeps the invariant, the resident lists and introduces no key -/
theorem trimRecentGhost_inv (a : Arc κ ν) (b1 : Nat) (h : a.Inv) :
    (a.trimRecentGhost b1).1.Inv ∧ (a.trimRecentGhost b1).1.size = a.size ∧
    (a.trimRecentGhost b1).1.recent = a.recent ∧ (a.trimRecentGhost b1).1.frequent = a.frequent ∧
    (∀ x, Held (a.trimRecentGhost b1).1 x → Held a x) := by
  obtain ⟨nd1, nd2, ndb1, ndb2, d12, d1b1, d1b2, d2b1, d2b2, db, hb, hb1, hb2, c1, c2, cb1, cb2, ple, spos⟩ := h
  have h0 : a.Inv := ⟨nd1, nd2, ndb1, ndb2, d12, d1b1, d1b2, d2b1, d2b2, db, hb, hb1, hb2, c1, c2, cb1, cb2, ple, spos⟩
  unfold Arc.trimRecentGhost
  split
  · unfold RawLru.removeLru RawLru.removeLruIn
    cases hl : a.recentEvict.items.getLast? with
    | none => exact ⟨h0, rfl, rfl, rfl, fun x hx => hx⟩
    | some e =>
      have lf := last_facts _ _ hl ndb1
      refine ⟨?_, rfl, rfl, rfl, ?_⟩
      · constructor <;> simp only <;> first | assumption | omega | grind
      · intro x hx; unfold Held at hx ⊢; simp only at hx; grind
  · exact ⟨h0, rfl, rfl, rfl, fun x hx => hx⟩

theorem trimFrequentGhost_inv (a : Arc κ ν) (b2 : Nat) (h : a.Inv) :
    (a.trimFrequentGhost b2).1.Inv ∧ (a.trimFrequentGhost b2).1.size = a.size ∧
    (a.trimFrequentGhost b2).1.recent = a.recent ∧ (a.trimFrequentGhost b2).1.frequent = a.frequent ∧
    (∀ x, Held (a.trimFrequentGhost b2).1 x → Held a x) := by
  obtain ⟨nd1, nd2, ndb1, ndb2, d12, d1b1, d1b2, d2b1, d2b2, db, hb, hb1, hb2, c1, c2, cb1, cb2, ple, spos⟩ := h
  have h0 : a.Inv := ⟨nd1, nd2, ndb1, ndb2, d12, d1b1, d1b2, d2b1, d2b2, db, hb, hb1, hb2, c1, c2, cb1, cb2, ple, spos⟩
  unfold Arc.trimFrequentGhost
  split
  · unfold RawLru.removeLru RawLru.removeLruIn
    cases hl : a.frequentEvict.items.getLast? with
    | none => exact ⟨h0, rfl, rfl, rfl, fun x hx => hx⟩
    | some e =>
      have lf := last_facts _ _ hl ndb2
      refine ⟨?_, rfl, rfl, rfl, ?_⟩
      · constructor <;> simp only <;> first | assumption | omega | grind
      · intro x hx; unfold Held at hx ⊢; simp only at hx; grind
  · exact ⟨h0, rfl, rfl, rfl, fun x hx => hx⟩

/-- the "make room if full" step used by all three miss/ghost branches of `put` -/
theorem makeRoom (a : Arc κ ν) (hitB2 : Bool) (h : a.Inv) :
    ∃ a' d, (if a.recent.items.length + a.frequent.items.length ≥ a.size then a.replace hitB2 else .ok (a, [])) = .ok (a', d) ∧
      a'.Inv ∧ a'.size = a.size ∧ a'.p = a.p ∧
      a'.recent.items.length + a'.frequent.items.length < a.size ∧ (∀ x, Held a' x → Held a x) := by
  by_cases hfull : a.recent.items.length + a.frequent.items.length ≥ a.size
  · simp only [hfull, if_true]
    have := h.spos
    obtain ⟨a', d, hr, hi, hs, hp, hl, hk⟩ := replace_total_inv a hitB2 h (by omega)
    have := h.bound
    exact ⟨a', d, hr, hi, hs, hp, by omega, hk⟩
  · simp only [hfull, if_false]
    exact ⟨a, [], rfl, h, rfl, rfl, by omega, fun x hx => hx⟩

theorem put_total_inv (a : Arc κ ν) (k : κ) (v : ν) (h : a.Inv) :
    ∃ r a' d, a.put k v = .ok (r, a', d) ∧ a'.Inv ∧ a'.size = a.size := by
  have h0 := h
  obtain ⟨nd1, nd2, ndb1, ndb2, d12, d1b1, d1b2, d2b1, d2b2, db, hb, hb1, hb2, c1, c2, cb1, cb2, ple, spos⟩ := h
  unfold Arc.put
  cases h1 : find k a.recent.items with
  | some old =>
    have e1 := erase_facts _ k old h1 nd1
    have hroom : a.frequent.items.length < a.frequent.cap := by omega
    simp only [RawLru.removeEnt_some _ k old h1, RawLru.putNonnull_room _ _ hroom]
    refine ⟨_, _, _, rfl, ?_, rfl⟩
    constructor <;> simp only [keys_cons, List.nodup_cons, List.mem_cons, List.length_cons] <;>
      first | assumption | omega | grind
  | none =>
    have hk1 := (find_none_iff k _).1 h1
    simp only [RawLru.removeEnt_none _ k h1]
    cases h2 : find k a.frequent.items with
    | some old =>
      have e2 := erase_facts _ k old h2 nd2
      refine ⟨_, _, _, rfl, ?_, rfl⟩
      constructor <;> simp only [RawLru.update, use, keys_cons, List.nodup_cons, List.mem_cons, List.length_cons] <;>
        first | assumption | omega | grind
    | none =>
      have hk2 := (find_none_iff k _).1 h2
      simp only
      cases hb1f : find k a.recentEvict.items with
      | some old =>
        have eb := erase_facts _ k old hb1f ndb1
        simp only [RawLru.removeEnt_some _ k old hb1f]
        have hb1pos : a.recentEvict.items.length ≠ 0 := by
          have := eb.2.2.2.2; omega
        have hdiv : ¬ (a.frequentEvict.items.length > a.recentEvict.items.length ∧ a.recentEvict.items.length = 0) := by
          intro hc; exact hb1pos hc.2
        simp only [hdiv, if_false]
        -- the intermediate state: p raised (capped), ghost entry unlinked
        generalize hp' : (if a.p + (if a.frequentEvict.items.length > a.recentEvict.items.length
              then a.frequentEvict.items.length / a.recentEvict.items.length else 1) ≥ a.size then a.size
            else a.p + (if a.frequentEvict.items.length > a.recentEvict.items.length
              then a.frequentEvict.items.length / a.recentEvict.items.length else 1)) = p'
        have hp'le : p' ≤ a.size := by
          rw [← hp']
          generalize (if a.frequentEvict.items.length > a.recentEvict.items.length
              then a.frequentEvict.items.length / a.recentEvict.items.length else 1) = δ
          split <;> omega
        have hi1 : ({ a with p := p', recentEvict := { a.recentEvict with items := erase k a.recentEvict.items } } : Arc κ ν).Inv := by
          constructor <;> simp only <;> first | assumption | omega | grind
        obtain ⟨a2, d, hr, hi2, hs2, _, hl2, hk2'⟩ := makeRoom _ false hi1
        simp only at hr
        simp only [hr]
        have hknot : ¬ Held a2 k := by
          intro hc
          have := hk2' k hc
          unfold Held at this; simp only at this
          rcases this with h | h | h | h
          · exact hk1 h
          · exact hk2 h
          · exact eb.2.1 h
          · exact db k eb.1 h
        unfold Held at hknot
        obtain ⟨n1, n2, nb1, nb2, e12, e1b1, e1b2, e2b1, e2b2, eb', fb, fb1, fb2, g1, g2, gb1, gb2, gp, gs⟩ := hi2
        have hroom : a2.frequent.items.length < a2.frequent.cap := by simp only at hl2 hs2; omega
        simp only [RawLru.putNonnull_room _ _ hroom]
        refine ⟨_, _, _, rfl, ?_, by simp only; exact hs2⟩
        constructor <;> simp only [keys_cons, List.nodup_cons, List.mem_cons, List.length_cons] <;>
          first | assumption | omega | grind
      | none =>
        have hkb1 := (find_none_iff k _).1 hb1f
        simp only [RawLru.removeEnt_none _ k hb1f]
        cases hb2f : find k a.frequentEvict.items with
        | some old =>
          have eb := erase_facts _ k old hb2f ndb2
          simp only [RawLru.removeEnt_some _ k old hb2f]
          have hb2pos : a.frequentEvict.items.length ≠ 0 := by
            have := eb.2.2.2.2; omega
          have hdiv : ¬ (a.recentEvict.items.length > a.frequentEvict.items.length ∧ a.frequentEvict.items.length = 0) := by
            intro hc; exact hb2pos hc.2
          simp only [hdiv, if_false]
          generalize hp' : (if (if a.recentEvict.items.length > a.frequentEvict.items.length
                then a.recentEvict.items.length / a.frequentEvict.items.length else 1) ≥ a.p then 0
              else a.p - (if a.recentEvict.items.length > a.frequentEvict.items.length
                then a.recentEvict.items.length / a.frequentEvict.items.length else 1)) = p'
          have hp'le : p' ≤ a.size := by
            rw [← hp']
            generalize (if a.recentEvict.items.length > a.frequentEvict.items.length
                then a.recentEvict.items.length / a.frequentEvict.items.length else 1) = δ
            split <;> omega
          have hi1 : ({ a with p := p', frequentEvict := { a.frequentEvict with items := erase k a.frequentEvict.items } } : Arc κ ν).Inv := by
            constructor <;> simp only <;> first | assumption | omega | grind
          obtain ⟨a2, d, hr, hi2, hs2, _, hl2, hk2'⟩ := makeRoom _ true hi1
          simp only at hr
          simp only [hr]
          have hknot : ¬ Held a2 k := by
            intro hc
            have := hk2' k hc
            unfold Held at this; simp only at this
            rcases this with h | h | h | h
            · exact hk1 h
            · exact hk2 h
            · exact hkb1 h
            · exact eb.2.1 h
          unfold Held at hknot
          obtain ⟨n1, n2, nb1, nb2, e12, e1b1, e1b2, e2b1, e2b2, eb', fb, fb1, fb2, g1, g2, gb1, gb2, gp, gs⟩ := hi2
          have hroom : a2.frequent.items.length < a2.frequent.cap := by simp only at hl2 hs2; omega
          simp only [RawLru.putNonnull_room _ _ hroom]
          refine ⟨_, _, _, rfl, ?_, by simp only; exact hs2⟩
          constructor <;> simp only [keys_cons, List.nodup_cons, List.mem_cons, List.length_cons] <;>
            first | assumption | omega | grind
        | none =>
          have hkb2 := (find_none_iff k _).1 hb2f
          simp only [RawLru.removeEnt_none _ k hb2f]
          obtain ⟨a1, d, hr, hi1, hs1, hp1, hl1, hk1'⟩ := makeRoom a false h0
          simp only [hr]
          have hsp : ¬ a1.size < a1.p := by have := hi1.ple; omega
          simp only [hsp, if_false]
          have t2 := trimRecentGhost_inv a1 a.recentEvict.items.length hi1
          rcases hA2 : a1.trimRecentGhost a.recentEvict.items.length with ⟨a2, d2⟩
          rw [hA2] at t2
          obtain ⟨hi2, hs2, hr2, hf2, hk2'⟩ := t2
          simp only at hi2 hs2 hr2 hf2 hk2'
          have t3 := trimFrequentGhost_inv a2 a.frequentEvict.items.length hi2
          rcases hA3 : a2.trimFrequentGhost a.frequentEvict.items.length with ⟨a3, d3⟩
          rw [hA3] at t3
          obtain ⟨hi3, hs3, hr3, hf3, hk3'⟩ := t3
          simp only at hi3 hs3 hr3 hf3 hk3'
          simp only [hA3]
          have hknot : ¬ Held a3 k := by
            intro hc
            have := hk1' k (hk2' k (hk3' k hc))
            unfold Held at this
            rcases this with h | h | h | h
            · exact hk1 h
            · exact hk2 h
            · exact hkb1 h
            · exact hkb2 h
          unfold Held at hknot
          have hf3' : find k a3.recent.items = none := (find_none_iff k _).2 (fun hc => hknot (Or.inl hc))
          obtain ⟨n1, n2, nb1, nb2, e12, e1b1, e1b2, e2b1, e2b2, eb', fb, fb1, fb2, g1, g2, gb1, gb2, gp, gs⟩ := hi3
          have hroom : a3.recent.items.length < a3.recent.cap := by
            rw [hr3, hr2] at *; rw [hf3, hf2] at fb; omega
          simp only [RawLru.put_absent_room _ k v hf3' hroom]
          refine ⟨_, _, _, rfl, ?_, by simp only; omega⟩
          constructor <;> simp only [keys_cons, List.nodup_cons, List.mem_cons, List.length_cons] <;>
            first | assumption | omega | grind

theorem getMut_total_inv (a : Arc κ ν) (k : κ) (w : Option ν) (h : a.Inv) :
    ∃ r a' d, a.getMut k w = .ok (r, a', d) ∧ a'.Inv ∧ a'.size = a.size ∧ a'.p = a.p := by
  obtain ⟨nd1, nd2, ndb1, ndb2, d12, d1b1, d1b2, d2b1, d2b2, db, hb, hb1, hb2, c1, c2, cb1, cb2, ple, spos⟩ := h
  have h0 : a.Inv := ⟨nd1, nd2, ndb1, ndb2, d12, d1b1, d1b2, d2b1, d2b2, db, hb, hb1, hb2, c1, c2, cb1, cb2, ple, spos⟩
  unfold Arc.getMut
  cases h1 : find k a.recent.items with
  | some old =>
    have e1 := erase_facts _ k old h1 nd1
    have hroom : a.frequent.items.length < a.frequent.cap := by omega
    simp only [Arc.moveToFrequent, RawLru.removeEnt_some _ k old h1, RawLru.putNonnull_room _ _ hroom]
    refine ⟨_, _, _, rfl, ?_, rfl, rfl⟩
    constructor <;> simp only [keys_cons, List.nodup_cons, List.mem_cons, List.length_cons] <;>
      first | assumption | omega | grind
  | none =>
    simp only [RawLru.getMut]
    cases h2 : find k a.frequent.items with
    | none => exact ⟨_, _, _, rfl, h0, rfl, rfl⟩
    | some old =>
      have e2 := erase_facts _ k old h2 nd2
      refine ⟨_, _, _, rfl, ?_, rfl, rfl⟩
      constructor <;> simp only [use, keys_cons, List.nodup_cons, List.mem_cons, List.length_cons] <;>
        first | assumption | omega | grind

theorem peekMut_inv (a : Arc κ ν) (k : κ) (w : Option ν) (h : a.Inv) :
    (a.peekMut k w).1.Inv ∧ (a.peekMut k w).1.size = a.size ∧ (a.peekMut k w).1.p = a.p := by
  obtain ⟨nd1, nd2, ndb1, ndb2, d12, d1b1, d1b2, d2b1, d2b2, db, hb, hb1, hb2, c1, c2, cb1, cb2, ple, spos⟩ := h
  have h0 : a.Inv := ⟨nd1, nd2, ndb1, ndb2, d12, d1b1, d1b2, d2b1, d2b2, db, hb, hb1, hb2, c1, c2, cb1, cb2, ple, spos⟩
  unfold Arc.peekMut RawLru.peekMut
  cases h1 : find k a.recent.items with
  | some old =>
    cases w with
    | none => exact ⟨h0, rfl, rfl⟩
    | some w =>
      refine ⟨?_, rfl, rfl⟩
      constructor <;> simp only [keys_setVal, length_setVal] <;> assumption
  | none =>
    cases h2 : find k a.frequent.items with
    | none => cases w <;> exact ⟨h0, rfl, rfl⟩
    | some old =>
      cases w with
      | none => exact ⟨h0, rfl, rfl⟩
      | some w =>
        refine ⟨?_, rfl, rfl⟩
        constructor <;> simp only [keys_setVal, length_setVal] <;> assumption

theorem remove_inv (a : Arc κ ν) (k : κ) (h : a.Inv) :
    (a.remove k).1.Inv ∧ (a.remove k).1.size = a.size ∧ (a.remove k).1.p = a.p := by
  obtain ⟨nd1, nd2, ndb1, ndb2, d12, d1b1, d1b2, d2b1, d2b2, db, hb, hb1, hb2, c1, c2, cb1, cb2, ple, spos⟩ := h
  have h0 : a.Inv := ⟨nd1, nd2, ndb1, ndb2, d12, d1b1, d1b2, d2b1, d2b2, db, hb, hb1, hb2, c1, c2, cb1, cb2, ple, spos⟩
  unfold Arc.remove RawLru.remove
  cases h1 : find k a.recent.items with
  | some v =>
    have ef := erase_facts _ k v h1 nd1
    refine ⟨?_, rfl, rfl⟩
    constructor <;> simp only <;> first | assumption | omega | grind
  | none =>
    cases h2 : find k a.frequent.items with
    | some v =>
      have ef := erase_facts _ k v h2 nd2
      refine ⟨?_, rfl, rfl⟩
      constructor <;> simp only <;> first | assumption | omega | grind
    | none =>
      cases h3 : find k a.recentEvict.items with
      | some v =>
        have ef := erase_facts _ k v h3 ndb1
        refine ⟨?_, rfl, rfl⟩
        constructor <;> simp only <;> first | assumption | omega | grind
      | none =>
        cases h4 : find k a.frequentEvict.items with
        | none => exact ⟨h0, rfl, rfl⟩
        | some v =>
          have ef := erase_facts _ k v h4 ndb2
          refine ⟨?_, rfl, rfl⟩
          constructor <;> simp only <;> first | assumption | omega | grind

theorem purge_total_inv (a : Arc κ ν) (h : a.Inv) :
    ∃ a' d, a.purge = .ok (a', d) ∧ a'.Inv ∧ a'.size = a.size ∧ a'.p = a.p ∧
      a'.recent.items = [] ∧ a'.frequent.items = [] ∧ a'.recentEvict.items = [] ∧ a'.frequentEvict.items = [] := by
  unfold Arc.purge
  simp only [RawLru.purge_spec]
  refine ⟨_, _, rfl, ?_, rfl, rfl, rfl, rfl, rfl, rfl⟩
  constructor <;> simp <;> first | exact h.c1 | exact h.c2 | exact h.cb1 | exact h.cb2 | exact h.ple | exact h.spos

end Arc
end M
