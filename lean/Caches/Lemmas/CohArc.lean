/- ARC pays what it owes (C02): resident entries are T1 ++ T2; ghosts (B1, B2) are not resident. -/
import Caches.Lemmas.CohSlru
import Caches.Properties.C09
set_option linter.unusedSectionVars false
set_option linter.unusedVariables false
namespace M
variable {κ ν : Type} [DecidableEq κ]

namespace ArcSpec

theorem replace_sub (s : St κ ν) (size : Nat) (b : Bool) :
    ∀ e, e ∈ (replace s size b).t1 ++ (replace s size b).t2 → e ∈ s.t1 ++ s.t2 := by
  have d1 := fun x hx => mem_dropLast_of s.t1 x hx
  have d2 := fun x hx => mem_dropLast_of s.t2 x hx
  unfold replace
  repeat' split
  all_goals mem_leaf

theorem makeRoom_sub (s : St κ ν) (size : Nat) (b : Bool) :
    ∀ e, e ∈ (makeRoom s size b).t1 ++ (makeRoom s size b).t2 → e ∈ s.t1 ++ s.t2 := by
  unfold makeRoom
  split
  · exact replace_sub s size b
  · exact fun e he => he

theorem admitNew_t (s1 : St κ ν) (size b1len b2len : Nat) (k : κ) (v : ν) :
    (admitNew s1 size b1len b2len k v).t1 = (k, v) :: s1.t1 ∧ (admitNew s1 size b1len b2len k v).t2 = s1.t2 := by
  unfold admitNew
  dsimp only
  constructor <;> (repeat' split) <;> rfl

theorem put_owes (s : St κ ν) (size : Nat) (k : κ) (v : ν)
    (nd1 : (keys s.t1).Nodup) (nd2 : (keys s.t2).Nodup)
    (dj : ∀ x, x ∈ keys s.t1 → x ∉ keys s.t2) :
    Owes (keyDecl k (some (k, v))) (s.t1 ++ s.t2) ((put s size k v).1.t1 ++ (put s size k v).1.t2) := by
  obtain ⟨er1, dl1, ab1, la1, lk1, fm1, sv1⟩ := facts k s.t1 nd1
  obtain ⟨er2, dl2, ab2, la2, lk2, fm2, sv2⟩ := facts k s.t2 nd2
  have djk : ∀ old, find k s.t1 = some old → ∀ e, e ∈ s.t2 → e.1 ≠ k := by
    intro old ho e he hc
    exact dj k (find_some_mem k old _ ho) (hc ▸ mem_keys_of_mem e _ he)
  apply owes_keyed
  unfold put
  cases h1 : find k s.t1 with
  | some old => simp only; mem_leaf
  | none =>
    have ab1' := ab1 h1
    cases h2 : find k s.t2 with
    | some old => simp only; mem_leaf
    | none =>
      have ab2' := ab2 h2
      cases hb1 : find k s.b1 with
      | some old =>
        simp only
        have := makeRoom_sub { s with p := min size (s.p + max 1 (s.b2.length / s.b1.length)), b1 := erase k s.b1 } size false
        simp only [List.mem_append] at this
        mem_leaf
      | none =>
        cases hb2 : find k s.b2 with
        | some old =>
          simp only
          have := makeRoom_sub { s with p := s.p - min s.p (max 1 (s.b1.length / s.b2.length)), b2 := erase k s.b2 } size true
          simp only [List.mem_append] at this
          mem_leaf
        | none =>
          simp only
          have := makeRoom_sub s size false
          simp only [List.mem_append] at this
          obtain ⟨e1, e2⟩ := admitNew_t (makeRoom s size false) size s.b1.length s.b2.length k v
          rw [e1, e2]
          mem_leaf

theorem get_owes (s : St κ ν) (k : κ) (w : Option ν)
    (nd1 : (keys s.t1).Nodup) (nd2 : (keys s.t2).Nodup)
    (dj : ∀ x, x ∈ keys s.t1 → x ∉ keys s.t2) :
    Owes (RawLru.writeDecl k ((find k s.t1).isSome || (find k s.t2).isSome) w) (s.t1 ++ s.t2)
      ((get s k w).1.t1 ++ (get s k w).1.t2) := by
  obtain ⟨er1, dl1, ab1, la1, lk1, fm1, sv1⟩ := facts k s.t1 nd1
  obtain ⟨er2, dl2, ab2, la2, lk2, fm2, sv2⟩ := facts k s.t2 nd2
  have djk : ∀ old, find k s.t1 = some old → ∀ e, e ∈ s.t2 → e.1 ≠ k := by
    intro old ho e he hc
    exact dj k (find_some_mem k old _ ho) (hc ▸ mem_keys_of_mem e _ he)
  unfold get
  cases h1 : find k s.t1 with
  | some old =>
    have := fm1 old h1
    cases w with
    | none => exact owes_none _ _ (by simp only [Option.getD_none]; mem_leaf)
    | some w =>
      simp only [RawLru.writeDecl, Option.isSome_some, Bool.true_or, if_true, Option.getD_some]
      exact owes_keyed k w _ _ (by mem_leaf)
  | none =>
    have ab1' := ab1 h1
    cases h2 : find k s.t2 with
    | some old =>
      have := fm2 old h2
      cases w with
      | none => exact owes_none _ _ (by simp only [Option.getD_none]; mem_leaf)
      | some w =>
        simp only [RawLru.writeDecl, Option.isSome_some, Option.isSome_none, Bool.false_or, if_true, Option.getD_some]
        exact owes_keyed k w _ _ (by mem_leaf)
    | none =>
      have ab2' := ab2 h2
      cases w with
      | none => exact owes_none _ _ (fun e he => he)
      | some w =>
        simp only [RawLru.writeDecl, Option.isSome_none, Bool.or_false]
        exact owes_keyed_none k _ _ (by mem_leaf)
end ArcSpec
namespace Arc
/-- the resident entries: T1 and T2; the ghost lists B1, B2 are not resident -/
def ents (a : Arc κ ν) : AL κ ν := a.recent.items ++ a.frequent.items

def decl (a : Arc κ ν) : CacheOp κ ν → Decl κ ν
  | .put k v => keyDecl k (some (k, v))
  | .getMut k w => RawLru.writeDecl k ((find k a.recent.items).isSome || (find k a.frequent.items).isSome) w
  | .peekMut k w => RawLru.writeDecl k ((find k a.recent.items).isSome || (find k a.frequent.items).isSome) w
  | .remove k => keyDecl k none
  | .purge => { wr := none, kills := fun _ => true }
  | .read => Decl.none

theorem step_owes (a a' : Arc κ ν) (o : CacheOp κ ν) (h : a.Inv) (hs : a.step o = .ok a') :
    Owes (a.decl o) a.ents a'.ents := by
  have nd1 := h.nd1; have nd2 := h.nd2; have d12 := h.d12
  unfold ents
  cases o with
  | put k v =>
    obtain ⟨r, a1, d, hp, heq⟩ := C09.put_eq_spec a k v h
    simp only [Arc.step, hp] at hs; injection hs with hs; subst hs
    have := ArcSpec.put_owes (C09.view a) a.size k v nd1 nd2 d12
    rw [← heq] at this; exact this
  | getMut k w =>
    obtain ⟨r, a1, d, hp, heq⟩ := C09.get_eq_spec a k w h
    simp only [Arc.step, hp] at hs; injection hs with hs; subst hs
    have := ArcSpec.get_owes (C09.view a) k w nd1 nd2 d12
    rw [← heq] at this; exact this
  | peekMut k w =>
    obtain ⟨er1, dl1, ab1, la1, lk1, fm1, sv1⟩ := facts k a.recent.items nd1
    obtain ⟨er2, dl2, ab2, la2, lk2, fm2, sv2⟩ := facts k a.frequent.items nd2
    have djk : ∀ old, find k a.recent.items = some old → ∀ e, e ∈ a.frequent.items → e.1 ≠ k := by
      intro old ho e he hc
      exact d12 k (find_some_mem k old _ ho) (hc ▸ mem_keys_of_mem e _ he)
    simp only [Arc.step] at hs; injection hs with hs; subst hs
    unfold Arc.peekMut RawLru.peekMut; simp only [decl]
    cases h1 : find k a.recent.items with
    | some old =>
      cases w with
      | none => exact owes_none _ _ (fun e he => he)
      | some w =>
        simp only [RawLru.writeDecl, Option.isSome_some, Bool.true_or, if_true]
        have := sv1 w old h1
        exact owes_keyed k w _ _ (by mem_leaf)
    | none =>
      have ab1' := ab1 h1
      cases h2 : find k a.frequent.items with
      | none =>
        have ab2' := ab2 h2
        cases w with
        | none => exact owes_none _ _ (fun e he => he)
        | some w =>
          simp only [RawLru.writeDecl, Option.isSome_none, Bool.or_false]
          exact owes_keyed_none k _ _ (by mem_leaf)
      | some old =>
        cases w with
        | none => exact owes_none _ _ (fun e he => he)
        | some w =>
          simp only [RawLru.writeDecl, Option.isSome_some, Option.isSome_none, Bool.false_or, if_true]
          have := sv2 w old h2
          exact owes_keyed k w _ _ (by mem_leaf)
  | remove k =>
    obtain ⟨er1, dl1, ab1, la1, lk1, fm1, sv1⟩ := facts k a.recent.items nd1
    obtain ⟨er2, dl2, ab2, la2, lk2, fm2, sv2⟩ := facts k a.frequent.items nd2
    have djk : ∀ old, find k a.recent.items = some old → ∀ e, e ∈ a.frequent.items → e.1 ≠ k := by
      intro old ho e he hc
      exact d12 k (find_some_mem k old _ ho) (hc ▸ mem_keys_of_mem e _ he)
    simp only [Arc.step] at hs; injection hs with hs; subst hs
    unfold Arc.remove RawLru.remove; simp only [decl]
    cases h1 : find k a.recent.items with
    | some old => have := djk old h1; exact owes_keyed_none k _ _ (by mem_leaf)
    | none =>
      have ab1' := ab1 h1
      cases h2 : find k a.frequent.items with
      | some old => exact owes_keyed_none k _ _ (by mem_leaf)
      | none =>
        have ab2' := ab2 h2
        cases hb1 : find k a.recentEvict.items with
        | some old => exact owes_keyed_none k _ _ (by mem_leaf)
        | none => cases hb2 : find k a.frequentEvict.items <;> exact owes_keyed_none k _ _ (by mem_leaf)
  | purge =>
    obtain ⟨a1, d, hp, hi, _, _, hr1, hf1, _⟩ := Arc.purge_total_inv a h
    simp only [Arc.step, hp] at hs; injection hs with hs; subst hs
    rw [hr1, hf1]; exact owes_all _
  | read =>
    simp only [Arc.step] at hs; injection hs with hs; subst hs
    exact owes_none _ _ (fun e he => he)
end Arc

end M
