/- What a `PutResult` claims about the retained entries (C12), and the proof that each policy spec keeps the claim. -/
import Caches.Lemmas.CohSlru
import Caches.Props.TwoQSpec
import Caches.Props.WtSpec
set_option linter.unusedSectionVars false
set_option linter.unusedVariables false
namespace M
variable {κ ν : Type} [DecidableEq κ]

/-- `ret` / `ret'`: the retained entries before / after `put k v`.
    `Put`: the key was not retained and nothing left; `Update old`: the key was retained with value `old`, only its entry
    changed; `Evicted ek ev`: the key was not retained, exactly the retained entry `(ek, ev)` left;
    `EvictedAndUpdate ek ev old`: both. In every case `(k, v)` is retained afterwards. -/
def PutTruth (ret ret' : AL κ ν) (k : κ) (v : ν) : PutResult κ ν → Prop
  | .put => k ∉ keys ret ∧ ∀ e, e ∈ ret' ↔ e = (k, v) ∨ e ∈ ret
  | .update old => (k, old) ∈ ret ∧ ∀ e, e ∈ ret' ↔ e = (k, v) ∨ (e ∈ ret ∧ e.1 ≠ k)
  | .evicted ek ev => k ∉ keys ret ∧ (ek, ev) ∈ ret ∧ ∀ e, e ∈ ret' ↔ e = (k, v) ∨ (e ∈ ret ∧ e ≠ (ek, ev))
  | .evictedAndUpdate ek ev old =>
      (k, old) ∈ ret ∧ (ek, ev) ∈ ret ∧ ek ≠ k ∧ ∀ e, e ∈ ret' ↔ e = (k, v) ∨ (e ∈ ret ∧ e.1 ≠ k ∧ e ≠ (ek, ev))

/-- list facts in both directions -/
structure Facts2 (k : κ) (L : AL κ ν) : Prop where
  er : ∀ e, e ∈ erase k L ↔ e ∈ L ∧ e.1 ≠ k
  ab : find k L = none → ∀ e, e ∈ L → e.1 ≠ k
  sp : ∀ x, L.getLast? = some x → ∀ e, e ∈ L ↔ e ∈ L.dropLast ∨ e = x
  lk : ∀ x, L.getLast? = some x → ∀ e, e ∈ L.dropLast → e.1 ≠ x.1
  fm : ∀ v, find k L = some v → (k, v) ∈ L
  un : ∀ a b, a ∈ L → b ∈ L → a.1 = b.1 → a = b
  nil : L.getLast? = none → ∀ e, e ∉ L

theorem mem_unique (L : AL κ ν) (nd : (keys L).Nodup) : ∀ a b, a ∈ L → b ∈ L → a.1 = b.1 → a = b := by
  induction L with
  | nil => intro a b ha; simp at ha
  | cons x t ih =>
    intro a b ha hb hab
    simp only [keys_cons', List.nodup_cons] at nd
    simp only [List.mem_cons] at ha hb
    rcases ha with rfl | ha <;> rcases hb with rfl | hb
    · rfl
    · exact absurd (hab ▸ mem_keys_of_mem b t hb) nd.1
    · exact absurd (hab ▸ mem_keys_of_mem a t ha) nd.1
    · exact ih nd.2 a b ha hb hab

theorem facts2 (k : κ) (L : AL κ ν) (nd : (keys L).Nodup) : Facts2 k L :=
  ⟨fun e => mem_erase_iff e k L nd,
   fun hf e he hc => (find_none_iff k L).1 hf (hc ▸ mem_keys_of_mem e L he),
   fun x hx e => mem_split_last L x e hx,
   fun x hx e he => last_key_not_in_dropLast L x hx nd e he,
   fun v hv => find_mem k v L hv,
   mem_unique L nd,
   fun hn e he => by cases L with | nil => simp at he | cons a t => simp at hn⟩

theorem not_mem_keys_iff (k : κ) (L : AL κ ν) : k ∉ keys L ↔ ∀ e, e ∈ L → e.1 ≠ k := by
  constructor
  · intro h e he hc; exact h (hc ▸ mem_keys_of_mem e L he)
  · intro h hc; unfold keys at hc; obtain ⟨e, he, rfl⟩ := List.mem_map.1 hc; exact h e he rfl

theorem erase_cons_ite (k : κ) (a : κ × ν) (L : AL κ ν) :
    erase k (a :: L) = if a.1 = k then L else a :: erase k L := by
  obtain ⟨a1, a2⟩ := a; simp only [erase]

theorem mem_erase_cons (k : κ) (a e : κ × ν) (L : AL κ ν) :
    e ∈ erase k (a :: L) ↔ (a.1 = k ∧ e ∈ L) ∨ (a.1 ≠ k ∧ (e = a ∨ e ∈ erase k L)) := by
  rw [erase_cons_ite]; split <;> simp_all

macro "truth_leaf" : tactic => `(tactic|
  (simp only [PutTruth, not_mem_keys_iff, mem_erase_cons, List.mem_append, List.mem_cons, List.mem_nil_iff, or_false, false_or]; grind only))

namespace SlruSpec
theorem put_truth (P Q : AL κ ν) (pcap qcap : Nat) (k : κ) (v : ν) (ndP : (keys P).Nodup) (ndQ : (keys Q).Nodup)
    (dj : ∀ x, x ∈ keys P → x ∉ keys Q)
    (P' Q' : AL κ ν) (r : PutResult κ ν) (h : put P Q pcap qcap k v = (P', Q', r)) :
    PutTruth (P ++ Q) (P' ++ Q') k v r := by
  obtain ⟨erP, abP, spP, lkP, fmP, unP, nilP⟩ := facts2 k P ndP
  obtain ⟨erQ, abQ, spQ, lkQ, fmQ, unQ, nilQ⟩ := facts2 k Q ndQ
  have dj' : ∀ a b, a ∈ P → b ∈ Q → a.1 ≠ b.1 := by
    intro a b ha hb hc; exact dj a.1 (mem_keys_of_mem a P ha) (hc ▸ mem_keys_of_mem b Q hb)
  unfold put promote at h
  cases hq : find k Q with
  | some old =>
    simp only [hq] at h; obtain ⟨rfl, rfl, rfl⟩ := by simpa using h
    truth_leaf
  | none =>
    simp only [hq] at h
    cases hp : find k P with
    | some old =>
      simp only [hp] at h
      by_cases hfull : Q.length ≥ qcap
      · simp only [hfull, if_true] at h
        cases hl : Q.getLast? with
        | none => simp only [hl] at h; obtain ⟨rfl, rfl, rfl⟩ := by simpa using h
                  truth_leaf
        | some dem => simp only [hl] at h; obtain ⟨rfl, rfl, rfl⟩ := by simpa using h
                      truth_leaf
      · simp only [hfull, if_false] at h; obtain ⟨rfl, rfl, rfl⟩ := by simpa using h
        truth_leaf
    | none =>
      simp only [hp] at h
      by_cases hfull : P.length ≥ pcap
      · simp only [hfull, if_true] at h
        cases hl : P.getLast? with
        | none => simp only [hl] at h; obtain ⟨rfl, rfl, rfl⟩ := by simpa using h
                  truth_leaf
        | some dem => simp only [hl] at h; obtain ⟨rfl, rfl, rfl⟩ := by simpa using h
                      truth_leaf
      · simp only [hfull, if_false] at h; obtain ⟨rfl, rfl, rfl⟩ := by simpa using h
        truth_leaf
end SlruSpec
namespace TwoQSpec
/-- 2Q: the retained entries are recent ++ frequent ++ ghost; an entry pushed out of the ghost list is the one reported -/
theorem put_truth (R F G : AL κ ν) (size rs gcap : Nat) (k : κ) (v : ν)
    (ndR : (keys R).Nodup) (ndF : (keys F).Nodup) (ndG : (keys G).Nodup)
    (drf : ∀ x, x ∈ keys R → x ∉ keys F) (drg : ∀ x, x ∈ keys R → x ∉ keys G) (dfg : ∀ x, x ∈ keys F → x ∉ keys G)
    (hg : 0 < gcap) (hsz : 0 < size)
    (R' F' G' : AL κ ν) (r : PutResult κ ν) (h : put R F G size rs gcap k v = (R', F', G', r)) :
    PutTruth (R ++ (F ++ G)) (R' ++ (F' ++ G')) k v r ∧ (k, v) ∈ R' ++ F' := by
  obtain ⟨erR, abR, spR, lkR, fmR, unR, nilR⟩ := facts2 k R ndR
  obtain ⟨erF, abF, spF, lkF, fmF, unF, nilF⟩ := facts2 k F ndF
  obtain ⟨erG, abG, spG, lkG, fmG, unG, nilG⟩ := facts2 k G ndG
  have drf' : ∀ a b, a ∈ R → b ∈ F → a.1 ≠ b.1 := by
    intro a b ha hb hc; exact drf a.1 (mem_keys_of_mem a R ha) (hc ▸ mem_keys_of_mem b F hb)
  have drg' : ∀ a b, a ∈ R → b ∈ G → a.1 ≠ b.1 := by
    intro a b ha hb hc; exact drg a.1 (mem_keys_of_mem a R ha) (hc ▸ mem_keys_of_mem b G hb)
  have dfg' : ∀ a b, a ∈ F → b ∈ G → a.1 ≠ b.1 := by
    intro a b ha hb hc; exact dfg a.1 (mem_keys_of_mem a F ha) (hc ▸ mem_keys_of_mem b G hb)
  have gne : G.length ≥ gcap → G.getLast? = none → False := by
    intro h1 h2; cases G with | nil => simp at h1; omega | cons a t => simp at h2
  have erGd : ∀ e, e ∈ erase k G.dropLast ↔ e ∈ G.dropLast ∧ e.1 ≠ k :=
    fun e => mem_erase_iff e k _ (by rw [keys_dropLast]; exact nodup_dropLast _ ndG)
  have nlR : R.getLast? = none → R.length = 0 := by intro h; cases R with | nil => rfl | cons a t => simp at h
  have nlF : F.getLast? = none → F.length = 0 := by intro h; cases F with | nil => rfl | cons a t => simp at h
  unfold put pushGhost at h
  simp only [] at h
  cases hF : find k F with
  | some old =>
    simp only [hF] at h; obtain ⟨rfl, rfl, rfl, rfl⟩ := by simpa using h
    constructor <;> truth_leaf
  | none =>
  simp only [hF] at h
  cases hR : find k R with
  | some old =>
    simp only [hR] at h; obtain ⟨rfl, rfl, rfl, rfl⟩ := by simpa using h
    constructor <;> truth_leaf
  | none =>
  simp only [hR] at h
  cases hG : find k G with
  | some old =>
    simp only [hG] at h
    cases hfr1 : fromRecent R F rs false <;>
      simp only [hfr1, if_true, if_false, Bool.false_eq_true] at h <;>
      simp only [fromRecent, Bool.and_eq_true, Bool.or_eq_true, Bool.and_eq_false_iff, Bool.or_eq_false_iff,
        decide_eq_true_eq, decide_eq_false_iff_not, if_true, if_false, Bool.false_eq_true] at hfr1 <;>
      (repeat' split at h) <;>
      (obtain ⟨rfl, rfl, rfl, rfl⟩ := by simpa using h) <;>
      (try dsimp only at *) <;>
      (constructor <;> truth_leaf)
  | none =>
    simp only [hG] at h
    cases hfr2 : fromRecent R F rs true <;>
      simp only [hfr2, if_true, if_false, Bool.false_eq_true] at h <;>
      simp only [fromRecent, Bool.and_eq_true, Bool.or_eq_true, Bool.and_eq_false_iff, Bool.or_eq_false_iff,
        decide_eq_true_eq, decide_eq_false_iff_not, if_true, if_false, Bool.false_eq_true] at hfr2 <;>
      (repeat' split at h) <;>
      (obtain ⟨rfl, rfl, rfl, rfl⟩ := by simpa using h) <;>
      (try dsimp only at *) <;>
      (constructor <;> truth_leaf)
end TwoQSpec

namespace WtSpec
/-- W-TinyLFU: retained = window ++ probationary ++ protected; a rejected candidate is reported as `Evicted` -/
theorem put_truth (s : St κ ν) (wcap pcap qcap : Nat) (lt : κ → κ → Bool) (k : κ) (v : ν)
    (ndW : (keys s.w).Nodup) (ndP : (keys s.p).Nodup) (ndQ : (keys s.q).Nodup)
    (dpq : ∀ x, x ∈ keys s.p → x ∉ keys s.q)
    (dwp : ∀ x, x ∈ keys s.w → x ∉ keys s.p) (dwq : ∀ x, x ∈ keys s.w → x ∉ keys s.q)
    (s' : St κ ν) (r : PutResult κ ν) (h : put s wcap pcap qcap lt k v = (s', r)) :
    PutTruth (s.w ++ (s.p ++ s.q)) (s'.w ++ (s'.p ++ s'.q)) k v r := by
  obtain ⟨erW, abW, spW, lkW, fmW, unW, nilW⟩ := facts2 k s.w ndW
  obtain ⟨erP, abP, spP, lkP, fmP, unP, nilP⟩ := facts2 k s.p ndP
  obtain ⟨erQ, abQ, spQ, lkQ, fmQ, unQ, nilQ⟩ := facts2 k s.q ndQ
  have dpq' : ∀ a b, a ∈ s.p → b ∈ s.q → a.1 ≠ b.1 := by
    intro a b ha hb hc; exact dpq a.1 (mem_keys_of_mem a _ ha) (hc ▸ mem_keys_of_mem b _ hb)
  have dwp' : ∀ a b, a ∈ s.w → b ∈ s.p → a.1 ≠ b.1 := by
    intro a b ha hb hc; exact dwp a.1 (mem_keys_of_mem a _ ha) (hc ▸ mem_keys_of_mem b _ hb)
  have dwq' : ∀ a b, a ∈ s.w → b ∈ s.q → a.1 ≠ b.1 := by
    intro a b ha hb hc; exact dwq a.1 (mem_keys_of_mem a _ ha) (hc ▸ mem_keys_of_mem b _ hb)
  unfold put at h
  cases hw : find k s.w with
  | some old =>
    simp only [hw] at h
    repeat' split at h
    all_goals (obtain ⟨rfl, rfl⟩ := by simpa using h)
    all_goals truth_leaf
  | none =>
    simp only [hw] at h
    by_cases hm : ((find k s.q).isSome || (find k s.p).isSome) = true
    · simp only [hm, if_true] at h
      generalize hsp : SlruSpec.put s.p s.q pcap qcap k v = res at h
      obtain ⟨p', q', r'⟩ := res
      have ht := SlruSpec.put_truth s.p s.q pcap qcap k v ndP ndQ dpq p' q' r' hsp
      obtain ⟨rfl, rfl⟩ := by simpa using h
      cases r' <;> (simp only [PutTruth, not_mem_keys_iff, List.mem_append] at ht ⊢; grind only)
    · simp only [hm] at h
      have hq : find k s.q = none := by
        cases hx : find k s.q with
        | none => rfl
        | some _ => simp [hx] at hm
      have hp : find k s.p = none := by
        cases hx : find k s.p with
        | none => rfl
        | some _ => simp [hx] at hm
      by_cases hroom : s.w.length < wcap
      · simp only [hroom, if_true] at h; obtain ⟨rfl, rfl⟩ := by simpa using h
        truth_leaf
      · simp only [hroom] at h
        cases hl : s.w.getLast? with
        | none => simp only [hl] at h; obtain ⟨rfl, rfl⟩ := by simpa using h
                  truth_leaf
        | some cand =>
          simp only [hl] at h
          generalize hsp : SlruSpec.put s.p s.q pcap qcap cand.1 cand.2 = res at h
          obtain ⟨p', q', r'⟩ := res
          have ht := SlruSpec.put_truth s.p s.q pcap qcap cand.1 cand.2 ndP ndQ dpq p' q' r' hsp
          have hce : (cand.1, cand.2) = cand := rfl
          repeat' split at h
          all_goals (obtain ⟨rfl, rfl⟩ := by simpa using h)
          all_goals first
            | (cases r' <;> (simp only [PutTruth, not_mem_keys_iff, List.mem_append, List.mem_cons] at ht ⊢; grind only))
            | truth_leaf
end WtSpec

end M
