/- Lemmas about the packed counter rows and the count-min sketch: an abstract counter view `ctr`,
   point-wise effect of increment / reset / clear, and well-formedness (no index out of bounds). -/
import Caches.Model.Sketch
set_option linter.unusedSectionVars false
set_option linter.unusedVariables false
set_option linter.unusedSimpArgs false
namespace M

/-! ### nibble tables: complete over all 256 byte values -/
theorem Nib.inc_spec : ∀ b, b < 256 → ∀ odd : Bool,
    Nib.inc b odd < 256 ∧ Nib.get (Nib.inc b odd) odd = min 15 (Nib.get b odd + 1) ∧
    Nib.get (Nib.inc b odd) (!odd) = Nib.get b (!odd) := by decide +kernel
theorem Nib.halve_spec : ∀ b, b < 256 → ∀ odd : Bool,
    Nib.halve b < 256 ∧ Nib.get (Nib.halve b) odd = Nib.get b odd / 2 := by decide +kernel
theorem Nib.get_le : ∀ b, b < 256 → ∀ odd : Bool, Nib.get b odd ≤ 15 := by decide +kernel
theorem Nib.get_zero (odd : Bool) : Nib.get 0 odd = 0 := by cases odd <;> decide

namespace Row

def WF (r : Row) : Prop := ∀ b ∈ r, b < 256

/-- the counter at position `i` (0 when out of range) -/
def ctr (r : Row) (i : Nat) : Nat :=
  match r[i / 2]? with
  | none => 0
  | some b => Nib.get b (i % 2 == 1)

theorem get_eq (r : Row) (i : Nat) (h : i / 2 < r.length) : r.get i = .ok (r.ctr i) := by
  unfold Row.get Row.ctr; simp [List.getElem?_eq_getElem h]

theorem ctr_le (r : Row) (hwf : r.WF) (i : Nat) : r.ctr i ≤ 15 := by
  unfold Row.ctr
  cases hb : r[i / 2]? with
  | none => simp
  | some b => exact Nib.get_le b (hwf b (List.mem_of_getElem? hb)) _

theorem inc_spec (r : Row) (c : Nat) (hwf : r.WF) (h : c / 2 < r.length) :
    ∃ r', r.inc c = .ok r' ∧ r'.WF ∧ r'.length = r.length ∧
      ∀ c', r'.ctr c' = if c' = c then min 15 (r.ctr c' + 1) else r.ctr c' := by
  unfold Row.inc
  have hb : r[c / 2] < 256 := hwf _ (List.getElem_mem h)
  have sp := Nib.inc_spec _ hb (c % 2 == 1)
  refine ⟨r.set (c / 2) (Nib.inc r[c / 2] (c % 2 == 1)), by simp [List.getElem?_eq_getElem h], ?_, by simp, ?_⟩
  · intro b hbm
    rcases List.mem_or_eq_of_mem_set hbm with hm | he
    · exact hwf _ hm
    · rw [he]; exact sp.1
  · intro c'
    unfold Row.ctr
    by_cases hsame : c' / 2 = c / 2
    · rw [hsame]
      simp only [List.getElem?_set_self h, List.getElem?_eq_getElem h]
      by_cases hcc : c' = c
      · subst hcc; simp only [if_true]; exact sp.2.1
      · have hpar : (c' % 2 == 1) = !(c % 2 == 1) := by
          have : c' % 2 ≠ c % 2 := by omega
          rcases Nat.mod_two_eq_zero_or_one c' with h1 | h1 <;>
          rcases Nat.mod_two_eq_zero_or_one c with h2 | h2 <;> simp_all
        simp only [hcc, if_false]; rw [hpar, sp.2.2]
    · have hne : c' ≠ c := fun hc => hsame (by rw [hc])
      have : c / 2 ≠ c' / 2 := fun hc => hsame hc.symm
      simp only [List.getElem?_set_ne this, hne, if_false]

theorem reset_spec (r : Row) (hwf : r.WF) :
    r.reset.WF ∧ r.reset.length = r.length ∧ ∀ c, r.reset.ctr c = r.ctr c / 2 := by
  unfold Row.reset
  refine ⟨?_, by simp, ?_⟩
  · intro b hb
    obtain ⟨a, ha, rfl⟩ := List.mem_map.1 hb
    exact (Nib.halve_spec a (hwf a ha) true).1
  · intro c
    unfold Row.ctr
    simp only [List.getElem?_map]
    cases hb : r[c / 2]? with
    | none => simp
    | some b => simp only [Option.map_some]; exact (Nib.halve_spec b (hwf b (List.mem_of_getElem? hb)) _).2

theorem clear_spec (r : Row) : r.clear.WF ∧ r.clear.length = r.length ∧ ∀ c, r.clear.ctr c = 0 := by
  unfold Row.clear
  refine ⟨?_, by simp, ?_⟩
  · intro b hb
    obtain ⟨a, ha, rfl⟩ := List.mem_map.1 hb
    omega
  · intro c
    unfold Row.ctr
    simp only [List.getElem?_map]
    cases hb : r[c / 2]? with
    | none => simp
    | some b => simp [Nib.get_zero]

theorem new_spec (w : Nat) : (Row.new w).WF ∧ (Row.new w).length = w ∧ ∀ c, (Row.new w).ctr c = 0 := by
  unfold Row.new
  refine ⟨?_, by simp, ?_⟩
  · intro b hb; have := List.eq_of_mem_replicate hb; omega
  · intro c
    unfold Row.ctr
    cases hb : (List.replicate w 0)[c / 2]? with
    | none => rfl
    | some b =>
      have := List.eq_of_mem_replicate (List.mem_of_getElem? hb)
      subst this; simp [Nib.get_zero]

end Row
end M

namespace M
namespace Sketch

/-- rows are byte-valid, wide enough for every masked position, and every row has a seed (std scheme) -/
structure WF (s : Sketch) : Prop where
  rowsWF : ∀ r ∈ s.rows, Row.WF r ∧ s.mask.toNat / 2 < r.length
  seeds : match s.scheme with | .std seeds => s.rows.length ≤ seeds.length | .core => True
  nonempty : s.rows ≠ []

/-- the position of row `i` as a total function (0 where the scheme has no seed; excluded by `WF`) -/
def posN (s : Sketch) (i : Nat) (h : UInt64) : Nat :=
  match s.scheme.pos s.mask i h with
  | .ok p => p
  | .error _ => 0

/-- counter of row `i` at position `p` -/
def ctr (s : Sketch) (i p : Nat) : Nat :=
  match s.rows[i]? with
  | none => 0
  | some r => r.ctr p

theorem pos_ok (s : Sketch) (hwf : s.WF) (i : Nat) (hi : i < s.rows.length) (h : UInt64) :
    s.scheme.pos s.mask i h = .ok (s.posN i h) ∧ s.posN i h ≤ s.mask.toNat := by
  have key : ∃ p, s.scheme.pos s.mask i h = .ok p ∧ p ≤ s.mask.toNat := by
    unfold Scheme.pos
    cases hs : s.scheme with
    | std seeds =>
      have := hwf.seeds; rw [hs] at this; simp only at this
      have hlt : i < seeds.length := by omega
      refine ⟨((h ^^^ seeds[i]) &&& s.mask).toNat, by simp only [List.getElem?_eq_getElem hlt], ?_⟩
      simp only [UInt64.toNat_and]; exact Nat.and_le_right
    | core =>
      refine ⟨_, rfl, ?_⟩
      simp only [UInt64.toNat_and]; exact Nat.and_le_right
  obtain ⟨p, hp, hle⟩ := key
  have : s.posN i h = p := by unfold posN; rw [hp]
  rw [this]; exact ⟨hp, hle⟩

theorem incRows_spec (s : Sketch) (h : UInt64) (rows : List Row) (i : Nat)
    (hr : ∀ r ∈ rows, Row.WF r ∧ s.mask.toNat / 2 < r.length)
    (hp : ∀ j, j < rows.length → s.scheme.pos s.mask (i + j) h = .ok (s.posN (i + j) h) ∧ s.posN (i + j) h ≤ s.mask.toNat) :
    ∃ rows', s.incRows h i rows = .ok rows' ∧ rows'.length = rows.length ∧
      (∀ r ∈ rows', Row.WF r ∧ s.mask.toNat / 2 < r.length) ∧
      ∀ j, j < rows.length → ∀ p,
        (match rows'[j]? with | none => 0 | some r => r.ctr p) =
          if p = s.posN (i + j) h then min 15 ((match rows[j]? with | none => 0 | some r => r.ctr p) + 1)
          else (match rows[j]? with | none => 0 | some r => r.ctr p) := by
  induction rows generalizing i with
  | nil => exact ⟨[], rfl, rfl, by simp, by intro j hj; simp at hj⟩
  | cons r t ih =>
    have h0 := hp 0 (by simp)
    simp only [Nat.add_zero] at h0
    have hrw := hr r (List.mem_cons_self)
    have hlt : s.posN i h / 2 < r.length := by
      have : s.posN i h / 2 ≤ s.mask.toNat / 2 := Nat.div_le_div_right h0.2
      omega
    obtain ⟨r', hinc, hwf', hlen', hctr⟩ := Row.inc_spec r (s.posN i h) hrw.1 hlt
    obtain ⟨t', ht, htl, htwf, htc⟩ := ih (i + 1) (fun x hx => hr x (List.mem_cons_of_mem _ hx))
      (by intro j hj; have := hp (j + 1) (by simp; omega); rw [show i + (j + 1) = i + 1 + j by omega] at this; exact this)
    refine ⟨r' :: t', ?_, by simp [htl], ?_, ?_⟩
    · unfold Sketch.incRows; simp only [h0.1, hinc, ht]
    · intro x hx
      simp only [List.mem_cons] at hx
      rcases hx with rfl | hx
      · exact ⟨hwf', by rw [hlen']; exact hrw.2⟩
      · exact htwf x hx
    · intro j hj p
      cases j with
      | zero =>
        simp only [List.getElem?_cons_zero, Nat.add_zero]
        exact hctr p
      | succ j =>
        simp only [List.getElem?_cons_succ]
        have := htc j (by simp at hj; omega) p
        rw [show i + 1 + j = i + (j + 1) by omega] at this
        exact this

theorem estRows_spec (s : Sketch) (h : UInt64) (rows : List Row) (i m : Nat)
    (hr : ∀ r ∈ rows, Row.WF r ∧ s.mask.toNat / 2 < r.length)
    (hp : ∀ j, j < rows.length → s.scheme.pos s.mask (i + j) h = .ok (s.posN (i + j) h) ∧ s.posN (i + j) h ≤ s.mask.toNat) :
    ∃ e, s.estRows h i rows m = .ok e ∧ e ≤ m ∧
      (∀ j, j < rows.length → e ≤ (match rows[j]? with | none => 0 | some r => r.ctr (s.posN (i + j) h))) ∧
      (e = m ∨ ∃ j, j < rows.length ∧ e = (match rows[j]? with | none => 0 | some r => r.ctr (s.posN (i + j) h))) := by
  induction rows generalizing i m with
  | nil => exact ⟨m, rfl, Nat.le_refl _, by intro j hj; simp at hj, Or.inl rfl⟩
  | cons r t ih =>
    have h0 := hp 0 (by simp)
    simp only [Nat.add_zero] at h0
    have hrw := hr r (List.mem_cons_self)
    have hlt : s.posN i h / 2 < r.length := by
      have : s.posN i h / 2 ≤ s.mask.toNat / 2 := Nat.div_le_div_right h0.2
      omega
    obtain ⟨e, he, hem, hej, hex⟩ := ih (i + 1) (if r.ctr (s.posN i h) < m then r.ctr (s.posN i h) else m)
      (fun x hx => hr x (List.mem_cons_of_mem _ hx))
      (by intro j hj; have := hp (j + 1) (by simp; omega); rw [show i + (j + 1) = i + 1 + j by omega] at this; exact this)
    refine ⟨e, ?_, ?_, ?_, ?_⟩
    · unfold Sketch.estRows; simp only [h0.1, Row.get_eq r _ hlt, he]
    · split at hem <;> omega
    · intro j hj
      cases j with
      | zero =>
        simp only [List.getElem?_cons_zero]
        show e ≤ r.ctr (s.posN (i + 0) h)
        rw [Nat.add_zero]
        split at hem <;> omega
      | succ j =>
        simp only [List.getElem?_cons_succ]
        have := hej j (by simp at hj; omega)
        rw [show i + 1 + j = i + (j + 1) by omega] at this
        exact this
    · rcases hex with hex | ⟨j, hj, hex⟩
      · by_cases hc : r.ctr (s.posN i h) < m
        · simp only [hc, if_true] at hex
          exact Or.inr ⟨0, by simp, by simp only [List.getElem?_cons_zero, Nat.add_zero]; exact hex⟩
        · simp only [hc, if_false] at hex; exact Or.inl hex
      · refine Or.inr ⟨j + 1, by simp; omega, ?_⟩
        simp only [List.getElem?_cons_succ]
        rw [show i + 1 + j = i + (j + 1) by omega] at hex
        exact hex

/-- `increment` on a well-formed sketch: no fault; row `i` gains one (saturating) at its position, nothing else changes -/
theorem increment_spec (s : Sketch) (hwf : s.WF) (h : UInt64) :
    ∃ s', s.increment h = .ok s' ∧ s'.WF ∧ s'.mask = s.mask ∧ s'.scheme = s.scheme ∧ s'.rows.length = s.rows.length ∧
      ∀ i, i < s.rows.length → ∀ p, s'.ctr i p = if p = s.posN i h then min 15 (s.ctr i p + 1) else s.ctr i p := by
  obtain ⟨rows', hinc, hlen, hrw, hctr⟩ := incRows_spec s h s.rows 0 hwf.rowsWF
    (by intro j hj; simpa using pos_ok s hwf j hj h)
  refine ⟨{ s with rows := rows' }, by unfold Sketch.increment; simp only [hinc], ?_, rfl, rfl, hlen, ?_⟩
  · refine ⟨hrw, ?_, ?_⟩
    · have := hwf.seeds
      cases hs : s.scheme with
      | std seeds => rw [hs] at this; simp only at this ⊢; omega
      | core => trivial
    · intro hc
      simp only at hc
      rw [hc] at hlen
      exact hwf.nonempty (List.length_eq_zero_iff.1 (by simpa using hlen.symm))
  · intro i hi p
    have := hctr i hi p
    simp only [Nat.zero_add] at this
    unfold Sketch.ctr
    exact this

/-- `estimate` on a well-formed sketch: the minimum of the four addressed counters -/
theorem estimate_spec (s : Sketch) (hwf : s.WF) (h : UInt64) :
    ∃ e, s.estimate h = .ok e ∧ e ≤ 15 ∧ (∀ i, i < s.rows.length → e ≤ s.ctr i (s.posN i h)) ∧
      (∃ i, i < s.rows.length ∧ e = s.ctr i (s.posN i h)) := by
  obtain ⟨e, he, hem, hej, hex⟩ := estRows_spec s h s.rows 0 255 hwf.rowsWF
    (by intro j hj; simpa using pos_ok s hwf j hj h)
  have hpos : 0 < s.rows.length := List.length_pos_iff.2 hwf.nonempty
  have hle0 : e ≤ s.ctr 0 (s.posN 0 h) := by
    have := hej 0 hpos; simp only [Nat.zero_add] at this; exact this
  have hc15 : s.ctr 0 (s.posN 0 h) ≤ 15 := by
    unfold Sketch.ctr
    cases hr : s.rows[0]? with
    | none => simp
    | some r => exact Row.ctr_le r (hwf.rowsWF r (List.mem_of_getElem? hr)).1 _
  refine ⟨e, he, by omega, ?_, ?_⟩
  · intro i hi; have := hej i hi; simp only [Nat.zero_add] at this; exact this
  · rcases hex with hex | ⟨j, hj, hex⟩
    · omega
    · exact ⟨j, hj, by simp only [Nat.zero_add] at hex; exact hex⟩

theorem reset_spec (s : Sketch) (hwf : s.WF) :
    s.reset.WF ∧ s.reset.rows.length = s.rows.length ∧ ∀ i p, s.reset.ctr i p = s.ctr i p / 2 := by
  unfold Sketch.reset
  refine ⟨⟨?_, ?_, ?_⟩, by simp, ?_⟩
  · intro r hr
    obtain ⟨r0, hr0, rfl⟩ := List.mem_map.1 hr
    have := hwf.rowsWF r0 hr0
    have sp := Row.reset_spec r0 this.1
    exact ⟨sp.1, by rw [sp.2.1]; exact this.2⟩
  · have := hwf.seeds
    cases hs : s.scheme with
    | std seeds => rw [hs] at this; simp only [List.length_map] at this ⊢; exact this
    | core => trivial
  · simp only [ne_eq, List.map_eq_nil_iff]; exact hwf.nonempty
  · intro i p
    unfold Sketch.ctr
    simp only [List.getElem?_map]
    cases hr : s.rows[i]? with
    | none => simp
    | some r => simp only [Option.map_some]; exact (Row.reset_spec r (hwf.rowsWF r (List.mem_of_getElem? hr)).1).2.2 p

theorem clear_spec (s : Sketch) (hwf : s.WF) :
    s.clear.WF ∧ s.clear.rows.length = s.rows.length ∧ ∀ i p, s.clear.ctr i p = 0 := by
  unfold Sketch.clear
  refine ⟨⟨?_, ?_, ?_⟩, by simp, ?_⟩
  · intro r hr
    obtain ⟨r0, hr0, rfl⟩ := List.mem_map.1 hr
    have := hwf.rowsWF r0 hr0
    have sp := Row.clear_spec r0
    exact ⟨sp.1, by rw [sp.2.1]; exact this.2⟩
  · have := hwf.seeds
    cases hs : s.scheme with
    | std seeds => rw [hs] at this; simp only [List.length_map] at this ⊢; exact this
    | core => trivial
  · simp only [ne_eq, List.map_eq_nil_iff]; exact hwf.nonempty
  · intro i p
    unfold Sketch.ctr
    simp only [List.getElem?_map]
    cases hr : s.rows[i]? with
    | none => simp
    | some r => simp only [Option.map_some]; exact (Row.clear_spec r).2.2 p

theorem ctr_le (s : Sketch) (hwf : s.WF) (i p : Nat) : s.ctr i p ≤ 15 := by
  unfold Sketch.ctr
  cases hr : s.rows[i]? with
  | none => simp
  | some r => exact Row.ctr_le r (hwf.rowsWF r (List.mem_of_getElem? hr)).1 _

end Sketch
end M
