/- SLRU pays what it owes (C02) -/
import Caches.Lemmas.CohRaw
import Caches.Props.SlruSpec
import Caches.Lemmas.Slru
import Caches.Properties.C07
set_option linter.unusedSectionVars false
set_option linter.unusedVariables false
namespace M
variable {κ ν : Type} [DecidableEq κ]

def keyDecl (k : κ) (wr : Option (κ × ν)) : Decl κ ν := { wr := wr, kills := fun x => decide (x = k) }

theorem owes_keyed (k : κ) (v : ν) (A B : AL κ ν) (h : ∀ e ∈ B, e = (k, v) ∨ (e ∈ A ∧ e.1 ≠ k)) :
    Owes (keyDecl k (some (k, v))) A B := by
  refine ⟨by intro k' v' hw; simp only [keyDecl] at hw; injection hw with hw; injection hw with hw _; simp [keyDecl, hw], ?_, ?_⟩
  · intro e he; rcases h e he with h1 | h1
    · exact Or.inr (by simp [keyDecl, h1])
    · exact Or.inl h1.1
  · intro e he hk; simp only [keyDecl, decide_eq_true_eq] at hk
    rcases h e he with h1 | h1
    · simp [keyDecl, h1]
    · exact absurd hk h1.2

theorem owes_keyed_none (k : κ) (A B : AL κ ν) (h : ∀ e ∈ B, e ∈ A ∧ e.1 ≠ k) :
    Owes (keyDecl k (none : Option (κ × ν))) A B :=
  ⟨by intro k' v' hw; simp [keyDecl] at hw, fun e he => Or.inl (h e he).1,
   by intro e he hk; simp only [keyDecl, decide_eq_true_eq] at hk; exact absurd hk (h e he).2⟩

/-- everything the leaf goals need to know about one list -/
structure Facts (k : κ) (L : AL κ ν) : Prop where
  er : ∀ e, e ∈ erase k L → e ∈ L ∧ e.1 ≠ k
  dl : ∀ e, e ∈ L.dropLast → e ∈ L
  ab : find k L = none → ∀ e, e ∈ L → e.1 ≠ k
  la : ∀ x, L.getLast? = some x → x ∈ L
  lk : ∀ x, L.getLast? = some x → ∀ e, e ∈ L.dropLast → e.1 ≠ x.1
  fm : ∀ v, find k L = some v → (k, v) ∈ L
  sv : ∀ w old, find k L = some old → ∀ e, e ∈ setVal k w L → e = (k, w) ∨ (e ∈ L ∧ e.1 ≠ k)

theorem facts (k : κ) (L : AL κ ν) (nd : (keys L).Nodup) : Facts k L :=
  ⟨fun e he => (mem_erase_iff e k L nd).1 he, fun e he => mem_dropLast_of _ _ he,
   fun hf e he hc => (find_none_iff k L).1 hf (hc ▸ mem_keys_of_mem e L he),
   fun x hx => mem_getLast? L x hx, fun x hx e he => last_key_not_in_dropLast L x hx nd e he,
   fun v hv => find_mem k v L hv,
   fun w old ho e he => by
     rcases (mem_setVal_iff e k w L nd (find_some_mem k old L ho)).1 he with h1 | h1
     · exact Or.inr h1
     · exact Or.inl h1⟩

macro "mem_leaf" : tactic => `(tactic|
  (intro e he; (try simp only [List.mem_append, List.mem_cons, List.mem_nil_iff, or_false, false_or] at he ⊢); grind only))

namespace SlruSpec

theorem put_mem (P Q : AL κ ν) (pcap qcap : Nat) (k : κ) (v : ν) (ndP : (keys P).Nodup) (ndQ : (keys Q).Nodup)
    (dj : ∀ x, x ∈ keys P → x ∉ keys Q)
    (P' Q' : AL κ ν) (r : PutResult κ ν) (h : put P Q pcap qcap k v = (P', Q', r)) :
    ∀ e ∈ P' ++ Q', e = (k, v) ∨ (e ∈ P ++ Q ∧ e.1 ≠ k) := by
  obtain ⟨erP, dlP, abP, laP, lkP, fmP, svP⟩ := facts k P ndP
  obtain ⟨erQ, dlQ, abQ, laQ, lkQ, fmQ, svQ⟩ := facts k Q ndQ
  have djk : ∀ old, find k Q = some old → ∀ e, e ∈ P → e.1 ≠ k := by
    intro old ho e he hc
    exact dj e.1 (mem_keys_of_mem e P he) (hc ▸ find_some_mem k old Q ho)
  unfold put promote at h
  cases hq : find k Q with
  | some old =>
    simp only [hq] at h; obtain ⟨rfl, rfl, rfl⟩ := by simpa using h
    mem_leaf
  | none =>
    simp only [hq] at h
    have abQ' := abQ hq
    cases hp : find k P with
    | some old =>
      simp only [hp] at h
      by_cases hfull : Q.length ≥ qcap
      · simp only [hfull, if_true] at h
        cases hl : Q.getLast? with
        | none => simp only [hl] at h; obtain ⟨rfl, rfl, rfl⟩ := by simpa using h
                  mem_leaf
        | some dem => simp only [hl] at h; obtain ⟨rfl, rfl, rfl⟩ := by simpa using h
                      have := laQ dem hl
                      mem_leaf
      · simp only [hfull, if_false] at h; obtain ⟨rfl, rfl, rfl⟩ := by simpa using h
        mem_leaf
    | none =>
      simp only [hp] at h
      have abP' := abP hp
      by_cases hfull : P.length ≥ pcap
      · simp only [hfull, if_true] at h
        cases hl : P.getLast? with
        | none => simp only [hl] at h; obtain ⟨rfl, rfl, rfl⟩ := by simpa using h
                  mem_leaf
        | some dem => simp only [hl] at h; obtain ⟨rfl, rfl, rfl⟩ := by simpa using h
                      mem_leaf
      · simp only [hfull, if_false] at h; obtain ⟨rfl, rfl, rfl⟩ := by simpa using h
        mem_leaf

theorem put_owes (P Q : AL κ ν) (pcap qcap : Nat) (k : κ) (v : ν) (ndP : (keys P).Nodup) (ndQ : (keys Q).Nodup)
    (dj : ∀ x, x ∈ keys P → x ∉ keys Q)
    (P' Q' : AL κ ν) (r : PutResult κ ν) (h : put P Q pcap qcap k v = (P', Q', r)) :
    Owes (keyDecl k (some (k, v))) (P ++ Q) (P' ++ Q') :=
  owes_keyed k v _ _ (put_mem P Q pcap qcap k v ndP ndQ dj P' Q' r h)

/-- `get` / `get_mut` on the policy: a hit moves (and possibly rewrites) the entry, a miss changes nothing -/
theorem get_owes (P Q : AL κ ν) (qcap : Nat) (k : κ) (w : Option ν) (ndP : (keys P).Nodup) (ndQ : (keys Q).Nodup)
    (dj : ∀ x, x ∈ keys P → x ∉ keys Q)
    (P' Q' : AL κ ν) (r : Option ν) (h : get P Q qcap k w = (P', Q', r)) :
    Owes (RawLru.writeDecl k ((find k Q).isSome || (find k P).isSome) w) (P ++ Q) (P' ++ Q') := by
  obtain ⟨erP, dlP, abP, laP, lkP, fmP, svP⟩ := facts k P ndP
  obtain ⟨erQ, dlQ, abQ, laQ, lkQ, fmQ, svQ⟩ := facts k Q ndQ
  have djk : ∀ old, find k Q = some old → ∀ e, e ∈ P → e.1 ≠ k := by
    intro old ho e he hc
    exact dj e.1 (mem_keys_of_mem e P he) (hc ▸ find_some_mem k old Q ho)
  unfold get promote at h
  cases w with
  | none =>
    refine owes_none _ _ ?_
    cases hq : find k Q with
    | some old =>
      simp only [hq] at h; obtain ⟨rfl, rfl, rfl⟩ := by simpa using h
      have := fmQ old hq
      mem_leaf
    | none =>
      simp only [hq] at h
      cases hp : find k P with
      | none => simp only [hp] at h; obtain ⟨rfl, rfl, rfl⟩ := by simpa using h
                exact fun e he => he
      | some old =>
        simp only [hp] at h
        have := fmP old hp
        by_cases hfull : Q.length ≥ qcap
        · simp only [hfull, if_true] at h
          cases hl : Q.getLast? with
          | none => simp only [hl] at h; obtain ⟨rfl, rfl, rfl⟩ := by simpa using h
                    mem_leaf
          | some dem => simp only [hl] at h; obtain ⟨rfl, rfl, rfl⟩ := by simpa using h
                        have := laQ dem hl
                        mem_leaf
        · simp only [hfull, if_false] at h; obtain ⟨rfl, rfl, rfl⟩ := by simpa using h
          mem_leaf
  | some w =>
    cases hq : find k Q with
    | some old =>
      simp only [hq] at h; obtain ⟨rfl, rfl, rfl⟩ := by simpa using h
      simp only [RawLru.writeDecl, Option.isSome_some, Bool.true_or, if_true]
      apply owes_keyed
      mem_leaf
    | none =>
      simp only [hq] at h
      have abQ' := abQ hq
      cases hp : find k P with
      | none =>
        simp only [hp] at h; obtain ⟨rfl, rfl, rfl⟩ := by simpa using h
        have abP' := abP hp
        simp only [RawLru.writeDecl, Option.isSome_none, Bool.or_false]
        apply owes_keyed_none
        mem_leaf
      | some old =>
        simp only [hp] at h
        simp only [RawLru.writeDecl, Option.isSome_some, Option.isSome_none, Bool.false_or, if_true]
        apply owes_keyed
        by_cases hfull : Q.length ≥ qcap
        · simp only [hfull, if_true] at h
          cases hl : Q.getLast? with
          | none => simp only [hl] at h; obtain ⟨rfl, rfl, rfl⟩ := by simpa using h
                    mem_leaf
          | some dem => simp only [hl] at h; obtain ⟨rfl, rfl, rfl⟩ := by simpa using h
                        have := laQ dem hl
                        mem_leaf
        · simp only [hfull, if_false] at h; obtain ⟨rfl, rfl, rfl⟩ := by simpa using h
          mem_leaf
end SlruSpec
theorem owes_append (d : Decl κ ν) (A A' B B' : AL κ ν) (ha : Owes d A A') (hb : Owes d B B') :
    Owes d (A ++ B) (A' ++ B') := by
  refine ⟨ha.wk, ?_, ?_⟩
  · intro e he; simp only [List.mem_append] at he ⊢
    rcases he with he | he
    · rcases ha.from_ e he with h | h
      · exact Or.inl (Or.inl h)
      · exact Or.inr h
    · rcases hb.from_ e he with h | h
      · exact Or.inl (Or.inr h)
      · exact Or.inr h
  · intro e he hk; simp only [List.mem_append] at he
    rcases he with he | he
    · exact ha.fresh e he hk
    · exact hb.fresh e he hk

theorem owes_all (A : AL κ ν) : Owes ({ wr := none, kills := fun _ => true } : Decl κ ν) A [] :=
  ⟨by intro k v hw; simp at hw, by intro e he; simp at he, by intro e he; simp at he⟩

namespace Slru
def ents (s : Slru κ ν) : AL κ ν := s.prob.items ++ s.prot.items

/-- what each SegmentedCache operation declares -/
def decl (s : Slru κ ν) : SlruOp κ ν → Decl κ ν
  | .put k v => keyDecl k (some (k, v))
  | .putProtected k v => keyDecl k (some (k, v))
  | .getMut k w => RawLru.writeDecl k ((find k s.prot.items).isSome || (find k s.prob.items).isSome) w
  | .peekMut k w => RawLru.writeDecl k ((find k s.prot.items).isSome || (find k s.prob.items).isSome) w
  | .remove k => keyDecl k none
  | .purge => { wr := none, kills := fun _ => true }
  | .removeLruProb | .removeLruProt | .clone | .read => Decl.none

theorem step_owes (s s' : Slru κ ν) (o : SlruOp κ ν) (h : s.Inv) (hs : s.step o = .ok s') :
    Owes (s.decl o) s.ents s'.ents := by
  obtain ⟨ndp, ndq, disj, bp, bq, pp, pq⟩ := id h
  unfold ents
  cases o with
  | put k v =>
    obtain ⟨r, s1, d, hp, heq⟩ := C07.put_eq_spec s k v h
    simp only [Slru.step, hp] at hs; injection hs with hs; subst hs
    exact SlruSpec.put_owes _ _ _ _ k v ndp ndq disj _ _ _ heq.symm
  | getMut k w =>
    obtain ⟨r, s1, hp, heq⟩ := C07.get_eq_spec s k w h
    simp only [Slru.step, hp] at hs; injection hs with hs; subst hs
    exact SlruSpec.get_owes _ _ _ k w ndp ndq disj _ _ _ heq.symm
  | putProtected k v =>
    obtain ⟨erP, dlP, abP, laP, lkP, fmP, svP⟩ := facts k s.prob.items ndp
    obtain ⟨q', r0, e, hput, hqi, hqc, _⟩ := RawLru.put_total_inv s.prot k v ⟨ndq, bq⟩
    have hq := RawLru.put_owes s.prot q' k v r0 e ⟨ndq, bq⟩ hput
    have hcap : s.prot.cap ≠ 0 := by omega
    simp only [RawLru.putDecl, hcap, if_false] at hq
    simp only [Slru.step] at hs
    unfold Slru.putProtected RawLru.remove at hs
    simp only [decl]
    cases hpf : find k s.prob.items with
    | none =>
      simp only [hpf, hput] at hs; injection hs with hs; subst hs
      have abP' := abP hpf
      exact owes_append _ _ _ _ _ (owes_keyed k v _ _ (by mem_leaf)) hq
    | some old =>
      simp only [hpf, hput] at hs
      have hpr : Owes (keyDecl k (some (k, v))) s.prob.items (erase k s.prob.items) := owes_keyed k v _ _ (by mem_leaf)
      cases r0 <;> (first | (simp only at hs; injection hs with hs) | (injection hs with hs)) <;> (subst hs; exact owes_append _ _ _ _ _ hpr hq)
  | peekMut k w =>
    obtain ⟨erP, dlP, abP, laP, lkP, fmP, svP⟩ := facts k s.prob.items ndp
    obtain ⟨erQ, dlQ, abQ, laQ, lkQ, fmQ, svQ⟩ := facts k s.prot.items ndq
    have djk : ∀ old, find k s.prot.items = some old → ∀ e, e ∈ s.prob.items → e.1 ≠ k := by
      intro old ho e he hc
      exact disj e.1 (mem_keys_of_mem e _ he) (hc ▸ find_some_mem k old _ ho)
    simp only [Slru.step] at hs; injection hs with hs; subst hs
    unfold Slru.peekMut RawLru.peekMut; simp only [decl]
    cases hq : find k s.prot.items with
    | some old =>
      cases w with
      | none => exact owes_none _ _ (fun e he => he)
      | some w =>
        simp only [RawLru.writeDecl, Option.isSome_some, Bool.true_or, if_true]
        have := svQ w old hq
        exact owes_keyed k w _ _ (by mem_leaf)
    | none =>
      have abQ' := abQ hq
      cases hp : find k s.prob.items with
      | none =>
        have abP' := abP hp
        cases w with
        | none => exact owes_none _ _ (fun e he => he)
        | some w =>
          simp only [RawLru.writeDecl, Option.isSome_none, Bool.or_false]
          exact owes_keyed_none k _ _ (by mem_leaf)
      | some old =>
        cases w with
        | none => exact owes_none _ _ (fun e he => he)
        | some w =>
          simp only [RawLru.writeDecl, Option.isSome_some, Option.isSome_none, Bool.false_or, if_true]
          have := svP w old hp
          exact owes_keyed k w _ _ (by mem_leaf)
  | remove k =>
    obtain ⟨erP, dlP, abP, laP, lkP, fmP, svP⟩ := facts k s.prob.items ndp
    obtain ⟨erQ, dlQ, abQ, laQ, lkQ, fmQ, svQ⟩ := facts k s.prot.items ndq
    simp only [Slru.step] at hs; injection hs with hs; subst hs
    unfold Slru.remove RawLru.remove; simp only [decl]
    cases hp : find k s.prob.items with
    | some old =>
      have : ∀ e, e ∈ s.prot.items → e.1 ≠ k := by
        intro e he hc
        exact disj k (find_some_mem k old _ hp) (hc ▸ mem_keys_of_mem e _ he)
      exact owes_keyed_none k _ _ (by mem_leaf)
    | none =>
      have abP' := abP hp
      cases hq : find k s.prot.items with
      | none => have abQ' := abQ hq; exact owes_keyed_none k _ _ (by mem_leaf)
      | some old => exact owes_keyed_none k _ _ (by mem_leaf)
  | purge =>
    obtain ⟨d, hp, _⟩ := Slru.purge_total_inv s h
    simp only [Slru.step, hp] at hs; injection hs with hs; subst hs
    exact owes_all _
  | removeLruProb =>
    simp only [Slru.step] at hs; injection hs with hs; subst hs
    unfold Slru.removeLruFromProbationary RawLru.removeLru RawLru.removeLruIn
    cases hl : s.prob.items.getLast? with
    | none => exact owes_none _ _ (fun e he => he)
    | some e =>
      refine owes_none _ _ ?_
      have := fun x hx => mem_dropLast_of s.prob.items x hx
      mem_leaf
  | removeLruProt =>
    simp only [Slru.step] at hs; injection hs with hs; subst hs
    unfold Slru.removeLruFromProtected RawLru.removeLru RawLru.removeLruIn
    cases hl : s.prot.items.getLast? with
    | none => exact owes_none _ _ (fun e he => he)
    | some e =>
      refine owes_none _ _ ?_
      have := fun x hx => mem_dropLast_of s.prot.items x hx
      mem_leaf
  | clone =>
    simp only [Slru.step, Slru.clone_eq s h] at hs; injection hs with hs; subst hs
    exact owes_none _ _ (fun e he => he)
  | read =>
    simp only [Slru.step] at hs; injection hs with hs; subst hs
    exact owes_none _ _ (fun e he => he)
end Slru

end M
