/- Backbone for `Sampled`: `used = Σ costs` is an invariant of every operation. -/
import Caches.Model.Sampled
import Caches.Lemmas.Assoc
set_option linter.unusedSectionVars false
namespace M
namespace Sampled

def total : AL UInt64 Int → Int
  | [] => 0
  | (_, c) :: t => c + total t

/-- the running total equals the sum of the recorded costs, and a key is recorded once -/
structure Inv (s : Sampled) : Prop where
  used_eq : s.used = total s.costs
  nd : (keys s.costs).Nodup

theorem total_setVal (h : UInt64) (c prev : Int) (l : AL UInt64 Int) (hf : find h l = some prev) :
    total (setVal h c l) = total l - prev + c := by
  fun_induction setVal h c l <;> simp_all [total, find] <;> omega

theorem total_erase (h : UInt64) (c : Int) (l : AL UInt64 Int) (hf : find h l = some c) :
    total (erase h l) = total l - c := by
  fun_induction erase h l <;> simp_all [total, find] <;> omega

theorem inv_new (mc : Int) (n : Nat) : (Sampled.new mc n).Inv := ⟨rfl, by simp [Sampled.new]⟩

theorem inv_increment (s : Sampled) (h : UInt64) (c : Int) (hi : s.Inv) : (s.increment h c).Inv := by
  unfold Sampled.increment
  cases hf : find h s.costs with
  | some prev =>
    exact ⟨by simp only [total_setVal h c prev _ hf, hi.used_eq], by simp only [keys_setVal]; exact hi.nd⟩
  | none =>
    refine ⟨by simp only [total, hi.used_eq]; omega, ?_⟩
    simp only [keys_cons, List.nodup_cons]; exact ⟨(find_none_iff h _).1 hf, hi.nd⟩

theorem inv_update (s : Sampled) (h : UInt64) (c : Int) (hi : s.Inv) : (s.update h c).1.Inv := by
  unfold Sampled.update
  cases hf : find h s.costs with
  | none => exact hi
  | some prev =>
    exact ⟨by simp only [total_setVal h c prev _ hf, hi.used_eq]; omega, by simp only [keys_setVal]; exact hi.nd⟩

theorem inv_remove (s : Sampled) (h : UInt64) (hi : s.Inv) : (s.remove h).1.Inv := by
  unfold Sampled.remove
  cases hf : find h s.costs with
  | none => exact hi
  | some c => exact ⟨by simp only [total_erase h c _ hf, hi.used_eq], nodup_erase h _ hi.nd⟩

theorem inv_clear (s : Sampled) : s.clear.Inv := ⟨rfl, by simp [Sampled.clear]⟩
theorem inv_updateMaxCost (s : Sampled) (mc : Int) (hi : s.Inv) : (s.updateMaxCost mc).Inv := ⟨hi.used_eq, hi.nd⟩


end Sampled
end M
