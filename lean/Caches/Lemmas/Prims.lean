/- Rewrite lemmas ("triples") for the crate-internal node primitives of `RawLru`. -/
import Caches.Lemmas.RawLru
set_option linter.unusedSectionVars false
set_option linter.unusedVariables false
namespace M
variable {κ ν : Type} [DecidableEq κ]
namespace RawLru

theorem putNonnull_room (c : RawLru κ ν) (e : κ × ν) (h : c.items.length < c.cap) :
    c.putNonnull e = .ok (.put, { c with items := e :: c.items }) := by
  simp [RawLru.putNonnull]; omega
theorem putNonnull_full (c : RawLru κ ν) (e old : κ × ν) (h : c.cap ≤ c.items.length)
    (hl : c.items.getLast? = some old) :
    c.putNonnull e = .ok (.evicted old.1 old.2, { c with items := e :: c.items.dropLast }) := by
  simp [RawLru.putNonnull, h, hl]
theorem putOrEvict_room (c : RawLru κ ν) (e : κ × ν) (h : c.items.length < c.cap) :
    c.putOrEvict e = .ok (none, { c with items := e :: c.items }) := by
  simp [RawLru.putOrEvict]; omega
theorem putOrEvict_full (c : RawLru κ ν) (e old : κ × ν) (h : c.cap ≤ c.items.length)
    (hl : c.items.getLast? = some old) :
    c.putOrEvict e = .ok (some old, { c with items := e :: c.items.dropLast }) := by
  simp [RawLru.putOrEvict, h, hl]
theorem removeEnt_some (c : RawLru κ ν) (k : κ) (v : ν) (h : find k c.items = some v) :
    c.removeEnt k = some ((k, v), { c with items := erase k c.items }) := by
  simp [RawLru.removeEnt, h]
theorem removeEnt_none (c : RawLru κ ν) (k : κ) (h : find k c.items = none) : c.removeEnt k = none := by
  simp [RawLru.removeEnt, h]
theorem removeLruIn_some (c : RawLru κ ν) (e : κ × ν) (h : c.items.getLast? = some e) :
    c.removeLruIn = some (e, { c with items := c.items.dropLast }) := by
  simp [RawLru.removeLruIn, h]
theorem removeLruIn_none (c : RawLru κ ν) (h : c.items = []) : c.removeLruIn = none := by
  simp [RawLru.removeLruIn, h]

end RawLru
end M
