/- Runs of the pointer-level RawLRU and their refinement to list-level runs (used by C03 and C17) -/
import Caches.Lemmas.PtrLru
import Caches.Lemmas.Reach
set_option linter.unusedSectionVars false
namespace M
open M.RawLru M.Chain
variable {κ ν : Type} [DecidableEq κ] [DecidableEq ν]

inductive POp (κ ν : Type) where
  | get (k : κ) | put (k : κ) (v : ν) | remove (k : κ) | removeLru

def POp.toRaw : POp κ ν → RawOp κ ν
  | .get k => .get k
  | .put k v => .put k v
  | .remove k => .remove k
  | .removeLru => .removeLru

/-- one pointer-level step; `alloc` is the allocator: whatever it answers for the current state -/
def pstep (alloc : PLru κ ν → Nat) (p : PLru κ ν) : POp κ ν → PLru κ ν
  | .get k => (p.get k).1
  | .put k v => (p.put k v (alloc p)).1
  | .remove k => (p.remove k).1
  | .removeLru => p.removeLru.1

/-- the answer of one pointer-level step, as the caller sees it -/
inductive Ans (κ ν : Type) where
  | val (r : Option ν) | res (r : PutResult κ ν) | ent (r : Option (κ × ν))
deriving DecidableEq

def pans (alloc : PLru κ ν → Nat) (p : PLru κ ν) : POp κ ν → Ans κ ν
  | .get k => .val (p.get k).2
  | .put k v => .res (p.put k v (alloc p)).2
  | .remove k => .val (p.remove k).2
  | .removeLru => .ent p.removeLru.2

/-- the list-level answer to the same operation (`put` is total on well-formed caches) -/
def lans (c : RawLru κ ν) : POp κ ν → Ans κ ν
  | .get k => .val (c.get k).2
  | .put k v => match c.put k v with | .ok (_, r, _) => .res r | .error _ => .res .put
  | .remove k => .val (c.remove k).2.1
  | .removeLru => .ent c.removeLru.2.1

/-- an allocator is admissible when it never returns an address that is in use -/
def Admissible (alloc : PLru κ ν → Nat) : Prop :=
  ∀ p l, Rep p l → alloc p ∉ p.head :: (l ++ [p.tail])

/-- one step: same answer, and the new pointer state represents the new list state -/
theorem ptr_refines_step (alloc : PLru κ ν → Nat) (ha : Admissible alloc) (p : PLru κ ν) (l : List Nat)
    (h : Rep p l) (o : POp κ ν) :
    ∃ l' c', Rep (pstep alloc p o) l' ∧ (p.abs l).step o.toRaw = .ok c' ∧ (pstep alloc p o).abs l' = c' ∧
      pans alloc p o = lans (p.abs l) o := by
  cases o with
  | get k =>
    obtain ⟨l', hr, ha', hans⟩ := get_refines p l h k
    exact ⟨l', _, hr, rfl, ha', by simp only [pans, lans, hans]⟩
  | put k v =>
    obtain ⟨l', c', e, hr, hput, ha'⟩ := put_refines p l h k v (alloc p) (ha p l h)
    exact ⟨l', c', hr, by simp only [POp.toRaw, RawLru.step, hput], ha', by simp only [pans, lans, hput]⟩
  | remove k =>
    obtain ⟨l', hr, ha', hans⟩ := remove_refines p l h k
    exact ⟨l', _, hr, rfl, ha', by simp only [pans, lans, hans]⟩
  | removeLru =>
    obtain ⟨l', hr, ha', hans⟩ := removeLru_refines p l h
    exact ⟨l', _, hr, rfl, ha', by simp only [pans, lans, hans]⟩

/-- every history: the pointer-level run and the list-level run end in corresponding states, for every index function
    and every admissible allocator -/
theorem ptr_refines_history (alloc : PLru κ ν → Nat) (ha : Admissible alloc) (ops : List (POp κ ν))
    (p : PLru κ ν) (l : List Nat) (h : Rep p l) :
    ∃ l' c', Rep (ops.foldl (pstep alloc) p) l' ∧ runOps RawLru.step (p.abs l) (ops.map POp.toRaw) = .ok c' ∧
      (ops.foldl (pstep alloc) p).abs l' = c' := by
  induction ops generalizing p l with
  | nil => exact ⟨l, _, h, rfl, rfl⟩
  | cons o rest ih =>
    obtain ⟨l1, c1, hr1, hs1, ha1, _⟩ := ptr_refines_step alloc ha p l h o
    obtain ⟨l2, c2, hr2, hs2, ha2⟩ := ih (pstep alloc p o) l1 hr1
    refine ⟨l2, c2, hr2, ?_, ha2⟩
    simp only [List.map_cons, runOps, hs1]
    rw [← ha1]; exact hs2


end M
