/- Ownership conservation for WTinyLFUCache (C04) -/
import Caches.Lemmas.ConserveSlru
import Caches.Lemmas.WTinyLfu
set_option linter.unusedSectionVars false
set_option linter.unusedVariables false
namespace M
variable {κ ν : Type} [DecidableEq κ] [DecidableEq ν]
namespace WTinyLfu

def heldAll (c : WTinyLfu κ ν) : List (Obj κ ν) := held c.window.items ++ c.main.heldAll

theorem makeProtectedRoom_count (c c' : WTinyLfu κ ν) (d : List (Obj κ ν))
    (h : c.makeProtectedRoom = .ok (c', d)) (o : Obj κ ν) :
    c.heldAll.count o = c'.heldAll.count o + d.count o := by
  unfold WTinyLfu.makeProtectedRoom at h
  split at h
  · have c1 := (Slru.removeLru_count c.main o).2
    rcases hx : c.main.removeLruFromProtected with ⟨m', r⟩
    rw [hx] at c1 h
    cases r with
    | none => simp at h
    | some ent =>
      simp only at h
      cases hq : c.window.put ent.1 ent.2 with
      | error f => simp [hq] at h
      | ok y =>
        obtain ⟨w'', r, e⟩ := y
        simp only [hq] at h; injection h with h; injection h with e1 e2; subst e1; subst e2
        have c2 := RawLru.put_count _ _ _ _ _ _ hq o
        simp only [heldAll, objsE, dropEnt, List.count_append] at *; omega
  · injection h with h; injection h with e1 e2; subst e1; subst e2; simp

/-- a `put` of an absent key on a plain LRU reports `Put` or `Evicted`, never an update -/
theorem put_absent_result (c c' : RawLru κ ν) (k : κ) (v : ν) (r : PutResult κ ν) (e : Eff κ ν)
    (hf : find k c.items = none) (h : c.put k v = .ok (c', r, e)) :
    r = .put ∨ ∃ ek ev, r = .evicted ek ev := by
  unfold RawLru.put at h
  simp only [hf] at h
  split at h
  · injection h with h; injection h with _ h; injection h with h _; exact Or.inr ⟨_, _, h.symm⟩
  · split at h
    · cases hl : c.items.getLast? with
      | none => simp [hl] at h
      | some x => simp only [hl] at h; injection h with h; injection h with _ h; injection h with h _; exact Or.inr ⟨_, _, h.symm⟩
    · injection h with h; injection h with _ h; injection h with h _; exact Or.inl h.symm

/-- `put`: held-before + the pair handed in = held-after + what the result hands back + what was dropped;
    a candidate rejected by the admission gate is handed back in `Evicted` -/
theorem put_count (c c' : WTinyLfu κ ν) (kh : κ → UInt64) (k : κ) (v : ν) (r : PutResult κ ν) (d : List (Obj κ ν))
    (hi : c.Inv) (hp : c.put kh k v = .ok (r, c', d)) (o : Obj κ ν) :
    c.heldAll.count o + ([Obj.key k, Obj.val v] : List (Obj κ ν)).count o =
      c'.heldAll.count o + r.drops.count o + d.count o := by
  have mi := hi.mi
  unfold WTinyLfu.put at hp
  have cw := RawLru.remove_count c.window k o
  cases hw : find k c.window.items with
  | none =>
    have hrm : c.window.remove k = (c.window, none, {}) := by unfold RawLru.remove; simp only [hw]
    simp only [hrm] at hp
    split at hp
    · cases hm : c.main.put k v with
      | error f => simp [hm] at hp
      | ok y =>
        obtain ⟨r', m', d'⟩ := y
        simp only [hm] at hp; injection hp with hp; injection hp with e1 hp; injection hp with e2 e3
        subst e1; subst e2; subst e3
        have := Slru.put_count c.main m' k v r' d' mi hm o
        simp only [heldAll, List.count_append] at *; omega
    · cases hq : c.window.put k v with
      | error f => simp [hq] at hp
      | ok y =>
        obtain ⟨w', r', e⟩ := y
        have cq := RawLru.put_count _ _ _ _ _ _ hq o
        rcases put_absent_result _ _ _ _ _ _ hw hq with rfl | ⟨ck, cv, rfl⟩
        · simp only [hq] at hp; injection hp with hp; injection hp with e1 hp; injection hp with e2 e3
          subst e1; subst e2; subst e3
          simp only [heldAll, List.count_append] at *; omega
        · simp only [hq] at hp
          have key : ∀ r2 m2 d2, c.main.put ck cv = .ok (r2, m2, d2) →
              c.heldAll.count o + ([Obj.key k, Obj.val v] : List (Obj κ ν)).count o =
                ({ c with window := w', main := m2 } : WTinyLfu κ ν).heldAll.count o + r2.drops.count o +
                  (e.drops ++ d2).count o := by
            intro r2 m2 d2 hm
            have := Slru.put_count c.main m2 ck cv r2 d2 mi hm o
            simp only [heldAll, PutResult.drops, List.count_append, List.count_cons, List.count_nil] at *; omega
          split at hp
          · cases hm : c.main.put ck cv with
            | error f => simp [hm] at hp
            | ok z =>
              obtain ⟨r2, m2, d2⟩ := z
              simp only [hm] at hp; injection hp with hp; injection hp with e1 hp; injection hp with e2 e3
              subst e1; subst e2; subst e3
              exact key _ _ _ hm
          · split at hp
            · cases hm : c.main.put ck cv with
              | error f => simp [hm] at hp
              | ok z =>
                obtain ⟨r2, m2, d2⟩ := z
                simp only [hm] at hp; injection hp with hp; injection hp with e1 hp; injection hp with e2 e3
                subst e1; subst e2; subst e3
                exact key _ _ _ hm
            · split at hp
              · simp at hp
              · injection hp with hp; injection hp with e1 hp; injection hp with e2 e3
                subst e1; subst e2; subst e3
                simp only [heldAll, PutResult.drops, List.count_append, List.count_cons, List.count_nil] at *; omega
              · cases hm : c.main.put ck cv with
                | error f => simp [hm] at hp
                | ok z =>
                  obtain ⟨r2, m2, d2⟩ := z
                  simp only [hm] at hp; injection hp with hp; injection hp with e1 hp; injection hp with e2 e3
                  subst e1; subst e2; subst e3
                  exact key _ _ _ hm
  | some old =>
    have hrm : c.window.remove k = ({ c.window with items := erase k c.window.items }, some old,
        { cbs := c.window.cbOf (k, old), drops := [.key k] }) := by unfold RawLru.remove; simp only [hw]
    rw [hrm] at cw
    simp only [hrm] at hp
    cases hmr : ({ c with window := { c.window with items := erase k c.window.items } } : WTinyLfu κ ν).makeProtectedRoom with
    | error f => simp [hmr] at hp
    | ok y =>
      obtain ⟨c2, d1⟩ := y
      simp only [hmr] at hp
      cases hpp : c2.main.putProtected k v with
      | error f => simp [hpp] at hp
      | ok z =>
        obtain ⟨r2, m', d2⟩ := z
        simp only [hpp] at hp; injection hp with hp; injection hp with e1 hp; injection hp with e2 e3
        subst e1; subst e2; subst e3
        have c1 := makeProtectedRoom_count _ _ _ hmr o
        have c3 := Slru.putProtected_count _ _ _ _ _ _ hpp o
        simp only [heldAll, objsV, PutResult.drops, List.count_append, List.count_cons, List.count_nil] at *; omega

theorem getMut_count (c c' : WTinyLfu κ ν) (kh : κ → UInt64) (k : κ) (w : Option ν) (r : Option ν)
    (hi : c.Inv) (hp : c.getMut kh k w = .ok (r, c')) (o : Obj κ ν) :
    c.heldAll.count o + (wrIn r w : List (Obj κ ν)).count o = c'.heldAll.count o + (wrOut r w : List (Obj κ ν)).count o := by
  unfold WTinyLfu.getMut WTinyLfu.record at hp
  cases he : c.est.tryReset.increment (kh k) with
  | error f => simp [he] at hp
  | ok est' =>
    simp only [he, RawLru.getMut] at hp
    cases hw : find k c.window.items with
    | some old =>
      simp only [hw] at hp; injection hp with hp; injection hp with e1 e2; subst e1; subst e2
      have c1 := held_erase _ k old hw o
      cases w <;> (simp only [heldAll, wrIn, wrOut, use, held_cons, Option.getD_none, Option.getD_some, List.count_append,
        List.count_cons, List.count_nil] at *; omega)
    | none =>
      simp only [hw] at hp
      cases hm : c.main.getMut k w with
      | error f => simp [hm] at hp
      | ok y =>
        obtain ⟨r', m'⟩ := y
        simp only [hm] at hp; injection hp with hp; injection hp with e1 e2; subst e1; subst e2
        have := Slru.getMut_count c.main m' k w r' hi.mi hm o
        simp only [heldAll, List.count_append] at *; omega

theorem remove_count (c : WTinyLfu κ ν) (k : κ) (o : Obj κ ν) :
    c.heldAll.count o =
      (c.remove k).1.heldAll.count o + (objsV (c.remove k).2.1 : List (Obj κ ν)).count o + (c.remove k).2.2.count o := by
  unfold WTinyLfu.remove
  have c1 := RawLru.remove_count c.window k o
  have c2 := Slru.remove_count c.main k o
  unfold RawLru.remove at *
  cases hw : find k c.window.items with
  | some v => simp only [hw, heldAll, List.count_append] at *; omega
  | none =>
    simp only [hw] at *
    rcases hx : c.main.remove k with ⟨m', r, d⟩
    rw [hx] at c2
    simp only [heldAll, List.count_append] at *; omega

theorem purge_count (c : WTinyLfu κ ν) :
    ∃ c' d, c.purge = .ok (c', d) ∧ c'.heldAll = [] ∧ ∀ o : Obj κ ν, c.heldAll.count o = d.count o := by
  obtain ⟨w', e1, h1, hw0, hc1⟩ := RawLru.purge_count c.window
  obtain ⟨m', d2, h2, hm0, hc2⟩ := Slru.purge_count c.main
  refine ⟨{ est := c.est.clear, window := w', main := m' }, e1.drops ++ d2, by simp only [WTinyLfu.purge, h1, h2], ?_, fun o => ?_⟩
  · simp only [heldAll, hw0, hm0, held_nil, List.append_nil]
  · have := hc1 o; have := hc2 o
    simp only [heldAll, List.count_append]; omega

theorem drop_count (c : WTinyLfu κ ν) : c.dropCache = c.heldAll := rfl
end WTinyLfu
end M
