/- Lemmas for ownership accounting under abort (C18): counting objects through unlink / recycle / fresh-node steps. -/
import Caches.Lemmas.Abort
import Caches.Model.AbortOwn
set_option linter.unusedSectionVars false
set_option linter.unusedVariables false
set_option linter.unusedSimpArgs false
namespace M.Abort
variable {κ ν : Type} [DecidableEq κ] [DecidableEq ν]

theorem payload_nil : payload ([] : List (Node κ ν)) = [] := rfl
theorem payload_cons (n : Node κ ν) (l : List (Node κ ν)) : payload (n :: l) = objs n ++ payload l := by
  simp [payload, objs]

theorem unlink_of_not_mem (i : Nat) (l : List (Node κ ν)) (h : i ∉ ids l) : unlink i l = l := by
  unfold unlink
  apply List.filter_eq_self.2
  intro n hn
  simp only [ne_eq, decide_eq_true_eq]
  intro hc
  exact h (List.mem_map.2 ⟨n, hn, hc⟩)

/-- unlinking the node with id `i` takes exactly that node's objects out of the chain -/
theorem payload_unlink (i : Nat) (l : List (Node κ ν)) (n : Node κ ν) (hnd : (ids l).Nodup)
    (hn : nodeOf i l = some n) (o : Obj κ ν) :
    (payload l).count o = (payload (unlink i l)).count o + (objs n).count o := by
  induction l with
  | nil => simp [nodeOf] at hn
  | cons x t ih =>
    simp only [ids, List.map_cons, List.nodup_cons] at hnd
    by_cases hx : x.id = i
    · have hxn : x = n := by
        unfold nodeOf at hn
        simp only [List.find?_cons, hx, decide_true] at hn
        exact Option.some.inj hn
      subst hxn
      have : unlink i (x :: t) = t := by
        have h1 : unlink i t = t := unlink_of_not_mem i t (by rw [← hx]; exact hnd.1)
        unfold unlink at h1 ⊢
        simp only [List.filter_cons, ne_eq, hx, not_true_eq_false, decide_false]
        exact h1
      rw [this, payload_cons, List.count_append]; omega
    · have hn' : nodeOf i t = some n := by
        unfold nodeOf at hn ⊢
        simp only [List.find?_cons, hx, decide_false] at hn
        exact hn
      have : unlink i (x :: t) = x :: unlink i t := by
        unfold unlink
        simp only [List.filter_cons, ne_eq, hx, not_false_eq_true, decide_true, if_true]
      rw [this, payload_cons, payload_cons, List.count_append, List.count_append, ih hnd.2 hn']; omega

/-- an indexed id names a linked node carrying the indexed key -/
theorem nodeOf_of_indexed (w : W κ ν) (h : WInv w) (k : κ) (i : Nat) (hm : (k, i) ∈ w.index) :
    ∃ n, nodeOf i w.chain = some n ∧ n.id = i ∧ n.key = k := by
  obtain ⟨n, hnm, hni, hnk⟩ := h.idx_in_chain k i hm
  cases hf : nodeOf i w.chain with
  | none =>
    unfold nodeOf at hf
    have := List.find?_eq_none.1 hf n hnm
    simp [hni] at this
  | some m =>
    obtain ⟨hmm, hmi⟩ := nodeOf_mem i _ m hf
    have : m = n := node_unique _ h.ids_nd m n hmm hnm (by rw [hmi, hni])
    exact ⟨m, rfl, hmi, by rw [this]; exact hnk⟩

theorem nodeOf_of_lookup (w : W κ ν) (h : WInv w) (k : κ) (i : Nat) (hl : lookup k w.index = some i) :
    ∃ n, nodeOf i w.chain = some n ∧ n.id = i ∧ n.key = k :=
  nodeOf_of_indexed w h k i (lookup_mem k _ i hl)

theorem count_objs_val (n : Node κ ν) (v : ν) (o : Obj κ ν) :
    (objs ({ n with val := v } : Node κ ν)).count o + ([Obj.val n.val] : List (Obj κ ν)).count o =
      (objs n).count o + ([Obj.val v] : List (Obj κ ν)).count o := by
  simp only [objs, List.count_cons, List.count_nil]; omega


theorem nodeOf_unlink_ne (i j : Nat) (l : List (Node κ ν)) (h : j ≠ i) : nodeOf j (unlink i l) = nodeOf j l := by
  induction l with
  | nil => rfl
  | cons x t ih =>
    unfold nodeOf unlink at *
    by_cases hx : x.id = i
    · have hj : decide (x.id = j) = false := by
        simp only [decide_eq_false_iff_not]; intro hc; exact h (hc ▸ hx)
      have hf : decide (x.id ≠ i) = false := by simp [hx]
      rw [List.filter_cons, hf]
      simp only [Bool.false_eq_true, if_false]
      rw [List.find?_cons, hj]; exact ih
    · have hf : decide (x.id ≠ i) = true := by simp [hx]
      rw [List.filter_cons, hf]
      simp only [if_true]
      rw [List.find?_cons, List.find?_cons]
      cases decide (x.id = j)
      · exact ih
      · rfl

theorem filterMap_congr' {α β : Type} (f g : α → Option β) (l : List α) (h : ∀ a ∈ l, f a = g a) :
    l.filterMap f = l.filterMap g := by
  induction l with
  | nil => rfl
  | cons a t ih =>
    have ha := h a List.mem_cons_self
    have ht := ih (fun b hb => h b (List.mem_cons_of_mem _ hb))
    simp only [List.filterMap_cons, ha, ht]

/-- nodes selected by distinct ids own no more than the chain does -/
theorem payload_select (l : List (Node κ ν)) (hnd : (ids l).Nodup) (is : List Nat) (his : is.Nodup) (o : Obj κ ν) :
    (payload (is.filterMap fun i => nodeOf i l)).count o ≤ (payload l).count o := by
  induction is generalizing l with
  | nil => simp [payload]
  | cons i t ih =>
    simp only [List.nodup_cons] at his
    cases hn : nodeOf i l with
    | none =>
      simp only [List.filterMap_cons, hn]
      exact ih l hnd his.2
    | some n =>
      simp only [List.filterMap_cons, hn, payload_cons, List.count_append]
      have hcongr : (t.filterMap fun j => nodeOf j l) = t.filterMap fun j => nodeOf j (unlink i l) := by
        apply filterMap_congr'
        intro j hj
        have : j ≠ i := by intro hc; exact his.1 (hc ▸ hj)
        exact (nodeOf_unlink_ne i j l this).symm
      rw [hcongr]
      have h1 := ih (unlink i l) (ids_unlink_nd i l hnd) his.2
      have h2 := payload_unlink i l n hnd hn o
      omega

end M.Abort
