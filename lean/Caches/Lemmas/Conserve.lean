/- Ownership conservation (C04): counting every key and value object through the composite caches. -/
import Caches.Lemmas.RawLru
import Caches.Model.Api
set_option linter.unusedSectionVars false
set_option linter.unusedVariables false
namespace M
variable {κ ν : Type} [DecidableEq κ] [DecidableEq ν]

/-- all key and value objects a list retains -/
def held (l : AL κ ν) : List (Obj κ ν) := l.flatMap dropEnt

theorem held_nil : held ([] : AL κ ν) = [] := rfl
theorem held_cons (e : κ × ν) (t : AL κ ν) : held (e :: t) = [Obj.key e.1, Obj.val e.2] ++ held t := by
  simp [held, dropEnt]
theorem held_append (a b : AL κ ν) : held (a ++ b) = held a ++ held b := by simp [held]

theorem held_erase (l : AL κ ν) (k : κ) (old : ν) (h : find k l = some old) (o : Obj κ ν) :
    (held l).count o = (held (erase k l)).count o + ([Obj.key k, Obj.val old] : List (Obj κ ν)).count o := by
  induction l with
  | nil => simp [find] at h
  | cons a t ih =>
    obtain ⟨ak, av⟩ := a
    by_cases hk : ak = k
    · subst hk
      simp only [find, if_true] at h; injection h with h; subst h
      simp only [erase, if_true, held_cons, List.count_append]; omega
    · simp only [find, hk, if_false] at h
      simp only [erase, hk, if_false, held_cons, List.count_append, ih h]; omega

theorem held_dropLast (l : AL κ ν) (e : κ × ν) (h : l.getLast? = some e) (o : Obj κ ν) :
    (held l).count o = (held l.dropLast).count o + ([Obj.key e.1, Obj.val e.2] : List (Obj κ ν)).count o := by
  have hne : l ≠ [] := by intro hc; simp [hc] at h
  have h2 := List.getLast?_eq_some_getLast hne
  rw [h] at h2
  have hs := List.dropLast_concat_getLast hne
  rw [← Option.some.inj h2] at hs
  conv => lhs; rw [← hs]
  simp [held, dropEnt, List.flatMap_append, List.count_append]

/-- the objects of an optional entry / optional value handed to the caller -/
def objsE : Option (κ × ν) → List (Obj κ ν)
  | some e => dropEnt e
  | none => []
def objsV : Option ν → List (Obj κ ν)
  | some v => [Obj.val v]
  | none => []

/-- a write through a returned `&mut V`: the new value enters, the old one is released by the assignment -/
def wrIn : Option ν → Option ν → List (Obj κ ν)
  | some _, some x => [Obj.val x]
  | _, _ => []
def wrOut : Option ν → Option ν → List (Obj κ ν)
  | some old, some _ => [Obj.val old]
  | _, _ => []

/-! ### the primitives -/
namespace RawLru

theorem removeEnt_count (c c' : RawLru κ ν) (k : κ) (e : κ × ν) (h : c.removeEnt k = some (e, c')) (o : Obj κ ν) :
    (held c.items).count o = (held c'.items).count o + (dropEnt e).count o := by
  unfold RawLru.removeEnt at h
  cases hf : find k c.items with
  | none => simp [hf] at h
  | some v =>
    simp only [hf] at h; injection h with h; injection h with h1 h2; subst h1; subst h2
    exact held_erase _ k v hf o

theorem putOrEvict_count (c c' : RawLru κ ν) (e : κ × ν) (out : Option (κ × ν))
    (h : c.putOrEvict e = .ok (out, c')) (o : Obj κ ν) :
    (held c.items).count o + (dropEnt e).count o =
      (held c'.items).count o + (objsE out).count o := by
  unfold RawLru.putOrEvict at h
  split at h
  · cases hl : c.items.getLast? with
    | none => simp [hl] at h
    | some old =>
      simp only [hl] at h; injection h with h; injection h with h1 h2; subst h1; subst h2
      have := held_dropLast _ old hl o
      simp only [held_cons, List.count_append, dropEnt, objsE] at *; omega
  · injection h with h; injection h with h1 h2; subst h1; subst h2
    simp only [held_cons, List.count_append, dropEnt, objsE, List.count_nil]; omega

theorem putNonnull_count (c c' : RawLru κ ν) (e : κ × ν) (r : PutResult κ ν)
    (h : c.putNonnull e = .ok (r, c')) (o : Obj κ ν) :
    (held c.items).count o + (dropEnt e).count o = (held c'.items).count o + r.drops.count o := by
  unfold RawLru.putNonnull at h
  split at h
  · cases hl : c.items.getLast? with
    | none => simp [hl] at h
    | some old =>
      simp only [hl] at h; injection h with h; injection h with h1 h2; subst h1; subst h2
      have := held_dropLast _ old hl o
      simp only [held_cons, List.count_append, dropEnt, PutResult.drops] at *; omega
  · injection h with h; injection h with h1 h2; subst h1; subst h2
    simp only [held_cons, List.count_append, dropEnt, PutResult.drops, List.count_nil]; omega

theorem update_count (c : RawLru κ ν) (k : κ) (v old : ν) (hf : find k c.items = some old) (o : Obj κ ν) :
    (held c.items).count o + ([Obj.val v] : List (Obj κ ν)).count o =
      (held (c.update k v).items).count o + ([Obj.val old] : List (Obj κ ν)).count o := by
  have := held_erase _ k old hf o
  simp only [RawLru.update, use, held_cons, List.count_append, List.count_cons, List.count_nil] at *; omega

theorem put_count (c c' : RawLru κ ν) (k : κ) (v : ν) (r : PutResult κ ν) (e : Eff κ ν)
    (hp : c.put k v = .ok (c', r, e)) (o : Obj κ ν) :
    (held c.items).count o + ([Obj.key k, Obj.val v] : List (Obj κ ν)).count o =
      (held c'.items).count o + r.drops.count o + e.drops.count o := by
  unfold RawLru.put at hp
  cases hf : find k c.items with
  | some old =>
    simp [hf] at hp; obtain ⟨rfl, rfl, rfl⟩ := hp
    simp only [use, held_cons, List.count_append, PutResult.drops, held_erase _ k old hf o]
    simp only [List.count_cons, List.count_nil]; omega
  | none =>
    simp only [hf] at hp
    by_cases h0 : c.cap = 0
    · simp [h0] at hp; obtain ⟨rfl, rfl, rfl⟩ := hp
      simp only [PutResult.drops, List.count_nil]; omega
    · simp only [h0, if_false] at hp
      by_cases hfull : c.items.length = c.cap
      · simp only [hfull, if_true] at hp
        cases hl : c.items.getLast? with
        | none => simp [hl] at hp
        | some lru =>
          simp [hl] at hp; obtain ⟨rfl, rfl, rfl⟩ := hp
          simp only [held_cons, List.count_append, PutResult.drops, held_dropLast _ lru hl o]
          simp only [List.count_cons, List.count_nil]; omega
      · simp [hfull] at hp; obtain ⟨rfl, rfl, rfl⟩ := hp
        simp only [held_cons, List.count_append, PutResult.drops, List.count_nil]; omega

theorem remove_count (c : RawLru κ ν) (k : κ) (o : Obj κ ν) :
    (held c.items).count o =
      (held (c.remove k).1.items).count o + (objsV (c.remove k).2.1).count o +
        (c.remove k).2.2.drops.count o := by
  unfold RawLru.remove
  cases hf : find k c.items with
  | none => simp [objsV]
  | some v =>
    have := held_erase _ k v hf o
    simp only [objsV, List.count_cons, List.count_nil] at *; omega

theorem removeLru_count (c : RawLru κ ν) (o : Obj κ ν) :
    (held c.items).count o =
      (held c.removeLru.1.items).count o + (objsE c.removeLru.2.1).count o := by
  unfold RawLru.removeLru RawLru.removeLruIn
  cases hl : c.items.getLast? with
  | none => simp [objsE]
  | some e =>
    have := held_dropLast _ e hl o
    simp only [dropEnt, objsE] at *; omega

theorem held_reverse (l : AL κ ν) (o : Obj κ ν) : (held l.reverse).count o = (held l).count o := by
  induction l with
  | nil => rfl
  | cons a t ih => simp only [List.reverse_cons, held_append, held_cons, held_nil, List.count_append, ih, List.append_nil]; omega

theorem purge_count (c : RawLru κ ν) :
    ∃ c' e, c.purge = .ok (c', e) ∧ c'.items = [] ∧ ∀ o : Obj κ ν, (held c.items).count o = e.drops.count o := by
  refine ⟨_, _, purge_spec c, rfl, fun o => ?_⟩
  have : (goneEff c c.items.reverse).drops = held c.items.reverse := rfl
  rw [this, held_reverse]

end RawLru

/-- closes a counting goal: collects the `erase` / `dropLast` equations available for the lists named, then `omega` -/
syntax "count_leaf" "[" term,* "]" ident : tactic
macro_rules
  | `(tactic| count_leaf [$ls,*] $o) => do
    let mut tacs : Array (Lean.TSyntax `tactic) := #[]
    for l in ls.getElems do
      tacs := tacs.push (← `(tactic| try (have := held_erase $l _ _ (by assumption) $o)))
      tacs := tacs.push (← `(tactic| try (have := held_dropLast $l _ (by assumption) $o)))
    `(tactic| ($[$tacs];*; simp only [held_append, held_cons, held_nil, List.count_append, PutResult.drops, dropEnt,
        List.count_cons, List.count_nil, List.flatMap_cons, List.flatMap_nil, List.append_nil] at *; omega))

end M
