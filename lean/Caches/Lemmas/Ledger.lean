/- The ownership ledger over whole histories (C04): what was handed to the cache = what it still holds + what it handed
   back + what it dropped, counted per object, after any sequence of `put` / `get` / `remove` / `purge`. -/
import Caches.Lemmas.ConserveSlru
import Caches.Lemmas.ConserveTwoQ
import Caches.Lemmas.ConserveArc
import Caches.Lemmas.ConserveWt
import Caches.Lemmas.Reach
set_option linter.unusedSectionVars false
set_option linter.unusedVariables false
namespace M
variable {κ ν : Type} [DecidableEq κ] [DecidableEq ν]

/-- the operations of the ledger: the `Cache` trait's ownership-relevant calls -/
inductive LOp (κ ν : Type) where
  | put (k : κ) (v : ν) | get (k : κ) | remove (k : κ) | purge

/-- one step with its books: new state, objects handed in, objects handed back or dropped -/
abbrev LStep (σ κ ν : Type) := σ → LOp κ ν → Res (σ × List (Obj κ ν) × List (Obj κ ν))

/-- run a history, accumulating both columns -/
def runLedger {σ : Type} (step : LStep σ κ ν) : σ → List (LOp κ ν) → Res (σ × List (Obj κ ν) × List (Obj κ ν))
  | s, [] => .ok (s, [], [])
  | s, o :: rest =>
    match step s o with
    | .error f => .error f
    | .ok (s1, i1, o1) =>
      match runLedger step s1 rest with
      | .error f => .error f
      | .ok (s2, i2, o2) => .ok (s2, i1 ++ i2, o1 ++ o2)

/-- if every step is total on the invariant, keeps it and balances its own books, every history balances -/
theorem ledger_history {σ : Type} (step : LStep σ κ ν) (I : σ → Prop) (heldOf : σ → List (Obj κ ν))
    (hstep : ∀ s o, I s → ∃ s' ins outs, step s o = .ok (s', ins, outs) ∧ I s' ∧
      ∀ x, (heldOf s).count x + ins.count x = (heldOf s').count x + outs.count x)
    (ops : List (LOp κ ν)) (s : σ) (hi : I s) :
    ∃ s' ins outs, runLedger step s ops = .ok (s', ins, outs) ∧ I s' ∧
      ∀ x, (heldOf s).count x + ins.count x = (heldOf s').count x + outs.count x := by
  induction ops generalizing s with
  | nil => exact ⟨s, [], [], rfl, hi, fun x => by simp⟩
  | cons o rest ih =>
    obtain ⟨s1, i1, o1, h1, hi1, e1⟩ := hstep s o hi
    obtain ⟨s2, i2, o2, h2, hi2, e2⟩ := ih s1 hi1
    refine ⟨s2, i1 ++ i2, o1 ++ o2, by simp only [runLedger, h1, h2], hi2, fun x => ?_⟩
    have := e1 x; have := e2 x
    simp only [List.count_append]; omega

/-! ### the four composite caches -/

def Slru.lstep : LStep (Slru κ ν) κ ν
  | s, .put k v => match s.put k v with
    | .error f => .error f | .ok (r, s', d) => .ok (s', [.key k, .val v], r.drops ++ d)
  | s, .get k => match s.getMut k none with
    | .error f => .error f | .ok (_, s') => .ok (s', [], [])
  | s, .remove k => .ok ((s.remove k).1, [], objsV (s.remove k).2.1 ++ (s.remove k).2.2)
  | s, .purge => match s.purge with
    | .error f => .error f | .ok (s', d) => .ok (s', [], d)

theorem Slru.lstep_ok (s : Slru κ ν) (o : LOp κ ν) (h : s.Inv) :
    ∃ s' ins outs, Slru.lstep s o = .ok (s', ins, outs) ∧ s'.Inv ∧
      ∀ x, s.heldAll.count x + ins.count x = s'.heldAll.count x + outs.count x := by
  cases o with
  | put k v =>
    obtain ⟨r, s', d, hp, hi, _⟩ := Slru.put_total_inv s k v h
    refine ⟨s', [.key k, .val v], r.drops ++ d, by simp only [Slru.lstep, hp], hi, fun x => ?_⟩
    have := Slru.put_count s s' k v r d h hp x
    simp only [List.count_append]; omega
  | get k =>
    obtain ⟨r, s', hp, hi, _⟩ := Slru.getMut_total_inv s k none h
    refine ⟨s', [], [], by simp only [Slru.lstep, hp], hi, fun x => ?_⟩
    have := Slru.getMut_count s s' k none r h hp x
    cases r <;> simpa [wrIn, wrOut] using this
  | remove k =>
    refine ⟨(s.remove k).1, [], objsV (s.remove k).2.1 ++ (s.remove k).2.2, rfl, (Slru.remove_inv s k h).1, fun x => ?_⟩
    have := Slru.remove_count s k x
    simp only [List.count_append, List.count_nil]; omega
  | purge =>
    obtain ⟨s', d, hp, h0, hc⟩ := Slru.purge_count s
    have hi : s'.Inv := by
      obtain ⟨x, he, hx⟩ := Slru.step_inv s .purge h
      simp only [Slru.step, hp] at he; injection he with he; subst he; exact hx
    refine ⟨s', [], d, by simp only [Slru.lstep, hp], hi, fun x => ?_⟩
    have := hc x
    simp only [h0, List.count_nil]; omega

def TwoQ.lstep : LStep (TwoQ κ ν) κ ν
  | q, .put k v => match q.put k v with
    | .error f => .error f | .ok (r, q', d) => .ok (q', [.key k, .val v], r.drops ++ d)
  | q, .get k => match q.getMut k none with
    | .error f => .error f | .ok (_, q') => .ok (q', [], [])
  | q, .remove k => .ok ((q.remove k).1, [], objsV (q.remove k).2.1 ++ (q.remove k).2.2)
  | q, .purge => match q.purge with
    | .error f => .error f | .ok (q', d) => .ok (q', [], d)

theorem TwoQ.lstep_ok (q : TwoQ κ ν) (o : LOp κ ν) (h : q.Inv) :
    ∃ q' ins outs, TwoQ.lstep q o = .ok (q', ins, outs) ∧ q'.Inv ∧
      ∀ x, q.heldAll.count x + ins.count x = q'.heldAll.count x + outs.count x := by
  cases o with
  | put k v =>
    obtain ⟨r, q', d, hp, hc⟩ := TwoQ.put_count q k v h
    obtain ⟨r0, q0, d0, hp0, hi, _⟩ := TwoQ.put_total_inv q k v h
    rw [hp] at hp0; injection hp0 with hp0; injection hp0 with e1 hp0; injection hp0 with e2 e3; subst e2
    refine ⟨q', [.key k, .val v], r.drops ++ d, by simp only [TwoQ.lstep, hp], hi, fun x => ?_⟩
    have := hc x
    simp only [List.count_append]; omega
  | get k =>
    obtain ⟨r, q', hp, hc⟩ := TwoQ.getMut_count q k none h
    obtain ⟨r0, q0, hp0, hi, _⟩ := TwoQ.getMut_total_inv q k none h
    rw [hp] at hp0; injection hp0 with hp0; injection hp0 with e1 e2; subst e2
    refine ⟨q', [], [], by simp only [TwoQ.lstep, hp], hi, fun x => ?_⟩
    have := hc x
    cases r <;> simpa [wrIn, wrOut] using this
  | remove k =>
    refine ⟨(q.remove k).1, [], objsV (q.remove k).2.1 ++ (q.remove k).2.2, rfl, (TwoQ.remove_inv q k h).1, fun x => ?_⟩
    have := TwoQ.remove_count q k x
    simp only [List.count_append, List.count_nil]; omega
  | purge =>
    obtain ⟨q', d, hp, h0, hc⟩ := TwoQ.purge_count q
    have hi : q'.Inv := by
      obtain ⟨x, he, hx⟩ := TwoQ.step_inv q .purge h
      simp only [TwoQ.step, hp] at he; injection he with he; subst he; exact hx
    refine ⟨q', [], d, by simp only [TwoQ.lstep, hp], hi, fun x => ?_⟩
    have := hc x
    simp only [h0, List.count_nil]; omega

def Arc.lstep : LStep (Arc κ ν) κ ν
  | a, .put k v => match a.put k v with
    | .error f => .error f | .ok (r, a', d) => .ok (a', [.key k, .val v], r.drops ++ d)
  | a, .get k => match a.getMut k none with
    | .error f => .error f | .ok (_, a', d) => .ok (a', [], d)
  | a, .remove k => .ok ((a.remove k).1, [], objsV (a.remove k).2.1 ++ (a.remove k).2.2)
  | a, .purge => match a.purge with
    | .error f => .error f | .ok (a', d) => .ok (a', [], d)

theorem Arc.lstep_ok (a : Arc κ ν) (o : LOp κ ν) (h : a.Inv) :
    ∃ a' ins outs, Arc.lstep a o = .ok (a', ins, outs) ∧ a'.Inv ∧
      ∀ x, a.heldAll.count x + ins.count x = a'.heldAll.count x + outs.count x := by
  cases o with
  | put k v =>
    obtain ⟨r, a', d, hp, hi, _⟩ := Arc.put_total_inv a k v h
    refine ⟨a', [.key k, .val v], r.drops ++ d, by simp only [Arc.lstep, hp], hi, fun x => ?_⟩
    have := Arc.put_count a a' k v r d hp x
    simp only [List.count_append]; omega
  | get k =>
    obtain ⟨r, a', d, hp, hi, _⟩ := Arc.getMut_total_inv a k none h
    refine ⟨a', [], d, by simp only [Arc.lstep, hp], hi, fun x => ?_⟩
    have := Arc.getMut_count a a' k none r d hp x
    cases r <;> simpa [wrIn, wrOut] using this
  | remove k =>
    refine ⟨(a.remove k).1, [], objsV (a.remove k).2.1 ++ (a.remove k).2.2, rfl, (Arc.remove_inv a k h).1, fun x => ?_⟩
    have := Arc.remove_count a k x
    simp only [List.count_append, List.count_nil]; omega
  | purge =>
    obtain ⟨a', d, hp, h0, hc⟩ := Arc.purge_count a
    have hi : a'.Inv := by
      obtain ⟨x, he, hx⟩ := Arc.step_inv a .purge h
      simp only [Arc.step, hp] at he; injection he with he; subst he; exact hx
    refine ⟨a', [], d, by simp only [Arc.lstep, hp], hi, fun x => ?_⟩
    have := hc x
    simp only [h0, List.count_nil]; omega

def WTinyLfu.lstep (kh : κ → UInt64) : LStep (WTinyLfu κ ν) κ ν
  | c, .put k v => match c.put kh k v with
    | .error f => .error f | .ok (r, c', d) => .ok (c', [.key k, .val v], r.drops ++ d)
  | c, .get k => match c.getMut kh k none with
    | .error f => .error f | .ok (_, c') => .ok (c', [], [])
  | c, .remove k => .ok ((c.remove k).1, [], objsV (c.remove k).2.1 ++ (c.remove k).2.2)
  | c, .purge => match c.purge with
    | .error f => .error f | .ok (c', d) => .ok (c', [], d)

theorem WTinyLfu.lstep_ok (kh : κ → UInt64) (c : WTinyLfu κ ν) (o : LOp κ ν) (h : c.Inv) :
    ∃ c' ins outs, WTinyLfu.lstep kh c o = .ok (c', ins, outs) ∧ c'.Inv ∧
      ∀ x, c.heldAll.count x + ins.count x = c'.heldAll.count x + outs.count x := by
  cases o with
  | put k v =>
    obtain ⟨r, c', d, hp, hi, _⟩ := WTinyLfu.put_total_inv c kh k v h
    refine ⟨c', [.key k, .val v], r.drops ++ d, by simp only [WTinyLfu.lstep, hp], hi, fun x => ?_⟩
    have := WTinyLfu.put_count c c' kh k v r d h hp x
    simp only [List.count_append]; omega
  | get k =>
    obtain ⟨r, c', hp, hi, _⟩ := WTinyLfu.getMut_total_inv c kh k none h
    refine ⟨c', [], [], by simp only [WTinyLfu.lstep, hp], hi, fun x => ?_⟩
    have := WTinyLfu.getMut_count c c' kh k none r h hp x
    cases r <;> simpa [wrIn, wrOut] using this
  | remove k =>
    refine ⟨(c.remove k).1, [], objsV (c.remove k).2.1 ++ (c.remove k).2.2, rfl, (WTinyLfu.remove_inv c k h).1, fun x => ?_⟩
    have := WTinyLfu.remove_count c k x
    simp only [List.count_append, List.count_nil]; omega
  | purge =>
    obtain ⟨c', d, hp, h0, hc⟩ := WTinyLfu.purge_count c
    have hi : c'.Inv := by
      obtain ⟨x, he, hx⟩ := WTinyLfu.step_inv kh c .purge h
      simp only [WTinyLfu.step, hp] at he; injection he with he; subst he; exact hx
    refine ⟨c', [], d, by simp only [WTinyLfu.lstep, hp], hi, fun x => ?_⟩
    have := hc x
    simp only [h0, List.count_nil]; omega

end M
