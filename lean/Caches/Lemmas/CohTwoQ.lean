/- 2Q pays what it owes (C02): only the resident queues (recent, frequent) count as entries; ghosts do not. -/
import Caches.Lemmas.CohSlru
import Caches.Properties.C08
set_option linter.unusedSectionVars false
set_option linter.unusedVariables false
namespace M
variable {κ ν : Type} [DecidableEq κ]

namespace TwoQSpec

theorem put_owes (R F G : AL κ ν) (size rs gcap : Nat) (k : κ) (v : ν)
    (ndR : (keys R).Nodup) (ndF : (keys F).Nodup)
    (dj : ∀ x, x ∈ keys R → x ∉ keys F)
    (R' F' G' : AL κ ν) (r : PutResult κ ν) (h : put R F G size rs gcap k v = (R', F', G', r)) :
    Owes (keyDecl k (some (k, v))) (R ++ F) (R' ++ F') := by
  obtain ⟨erR, dlR, abR, laR, lkR, fmR, svR⟩ := facts k R ndR
  obtain ⟨erF, dlF, abF, laF, lkF, fmF, svF⟩ := facts k F ndF
  have djk : ∀ old, find k F = some old → ∀ e, e ∈ R → e.1 ≠ k := by
    intro old ho e he hc
    exact dj e.1 (mem_keys_of_mem e R he) (hc ▸ find_some_mem k old F ho)
  apply owes_keyed
  unfold put pushGhost at h
  simp only [] at h
  repeat' split at h
  all_goals (obtain ⟨rfl, rfl, rfl, rfl⟩ := by simpa using h)
  all_goals mem_leaf

theorem get_owes (R F G : AL κ ν) (k : κ) (w : Option ν)
    (ndR : (keys R).Nodup) (ndF : (keys F).Nodup)
    (dj : ∀ x, x ∈ keys R → x ∉ keys F)
    (R' F' G' : AL κ ν) (r : Option ν) (h : get R F G k w = (R', F', G', r)) :
    Owes (RawLru.writeDecl k ((find k F).isSome || (find k R).isSome) w) (R ++ F) (R' ++ F') := by
  obtain ⟨erR, dlR, abR, laR, lkR, fmR, svR⟩ := facts k R ndR
  obtain ⟨erF, dlF, abF, laF, lkF, fmF, svF⟩ := facts k F ndF
  have djk : ∀ old, find k F = some old → ∀ e, e ∈ R → e.1 ≠ k := by
    intro old ho e he hc
    exact dj e.1 (mem_keys_of_mem e R he) (hc ▸ find_some_mem k old F ho)
  unfold get at h
  cases w with
  | none =>
    refine owes_none _ _ ?_
    repeat' split at h
    all_goals (obtain ⟨rfl, rfl, rfl, rfl⟩ := by simpa using h)
    all_goals mem_leaf
  | some w =>
    cases hf : find k F with
    | some old =>
      simp only [hf] at h; obtain ⟨rfl, rfl, rfl, rfl⟩ := by simpa using h
      simp only [RawLru.writeDecl, Option.isSome_some, Bool.true_or, if_true]
      exact owes_keyed k w _ _ (by mem_leaf)
    | none =>
      have abF' := abF hf
      simp only [hf] at h
      cases hr : find k R with
      | some old =>
        simp only [hr] at h; obtain ⟨rfl, rfl, rfl, rfl⟩ := by simpa using h
        simp only [RawLru.writeDecl, Option.isSome_some, Option.isSome_none, Bool.false_or, if_true]
        exact owes_keyed k w _ _ (by mem_leaf)
      | none =>
        have abR' := abR hr
        simp only [hr] at h; obtain ⟨rfl, rfl, rfl, rfl⟩ := by simpa using h
        simp only [RawLru.writeDecl, Option.isSome_none, Bool.or_false]
        exact owes_keyed_none k _ _ (by mem_leaf)
end TwoQSpec
namespace TwoQ
/-- the resident entries: recent and frequent; ghosts are not resident -/
def ents (q : TwoQ κ ν) : AL κ ν := q.recent.items ++ q.frequent.items

def decl (q : TwoQ κ ν) : CacheOp κ ν → Decl κ ν
  | .put k v => keyDecl k (some (k, v))
  | .getMut k w => RawLru.writeDecl k ((find k q.frequent.items).isSome || (find k q.recent.items).isSome) w
  | .peekMut k w => RawLru.writeDecl k ((find k q.frequent.items).isSome || (find k q.recent.items).isSome) w
  | .remove k => keyDecl k none
  | .purge => { wr := none, kills := fun _ => true }
  | .read => Decl.none

theorem step_owes (q q' : TwoQ κ ν) (o : CacheOp κ ν) (h : q.Inv) (hs : q.step o = .ok q') :
    Owes (q.decl o) q.ents q'.ents := by
  have ndr := h.ndr; have ndf := h.ndf; have drf := h.drf
  unfold ents
  cases o with
  | put k v =>
    obtain ⟨r, q1, d, hp, heq⟩ := C08.put_eq_spec q k v h
    simp only [TwoQ.step, hp] at hs; injection hs with hs; subst hs
    exact TwoQSpec.put_owes _ _ _ _ _ _ k v ndr ndf drf _ _ _ _ heq.symm
  | getMut k w =>
    obtain ⟨r, q1, hp, heq⟩ := C08.get_eq_spec q k w h
    simp only [TwoQ.step, hp] at hs; injection hs with hs; subst hs
    exact TwoQSpec.get_owes _ _ _ k w ndr ndf drf _ _ _ _ heq.symm
  | peekMut k w =>
    obtain ⟨erR, dlR, abR, laR, lkR, fmR, svR⟩ := facts k q.recent.items ndr
    obtain ⟨erF, dlF, abF, laF, lkF, fmF, svF⟩ := facts k q.frequent.items ndf
    have djk : ∀ old, find k q.frequent.items = some old → ∀ e, e ∈ q.recent.items → e.1 ≠ k := by
      intro old ho e he hc
      exact drf e.1 (mem_keys_of_mem e _ he) (hc ▸ find_some_mem k old _ ho)
    simp only [TwoQ.step] at hs; injection hs with hs; subst hs
    unfold TwoQ.peekMut RawLru.peekMut; simp only [decl]
    cases hf : find k q.frequent.items with
    | some old =>
      cases w with
      | none => exact owes_none _ _ (fun e he => he)
      | some w =>
        simp only [RawLru.writeDecl, Option.isSome_some, Bool.true_or, if_true]
        have := svF w old hf
        exact owes_keyed k w _ _ (by mem_leaf)
    | none =>
      have abF' := abF hf
      cases hr : find k q.recent.items with
      | none =>
        have abR' := abR hr
        cases w with
        | none => exact owes_none _ _ (fun e he => he)
        | some w =>
          simp only [RawLru.writeDecl, Option.isSome_none, Bool.or_false]
          exact owes_keyed_none k _ _ (by mem_leaf)
      | some old =>
        cases w with
        | none => exact owes_none _ _ (fun e he => he)
        | some w =>
          simp only [RawLru.writeDecl, Option.isSome_some, Option.isSome_none, Bool.false_or, if_true]
          have := svR w old hr
          exact owes_keyed k w _ _ (by mem_leaf)
  | remove k =>
    obtain ⟨erR, dlR, abR, laR, lkR, fmR, svR⟩ := facts k q.recent.items ndr
    obtain ⟨erF, dlF, abF, laF, lkF, fmF, svF⟩ := facts k q.frequent.items ndf
    simp only [TwoQ.step] at hs; injection hs with hs; subst hs
    unfold TwoQ.remove RawLru.remove; simp only [decl]
    cases hf : find k q.frequent.items with
    | some old =>
      have : ∀ e, e ∈ q.recent.items → e.1 ≠ k := by
        intro e he hc
        exact drf e.1 (mem_keys_of_mem e _ he) (hc ▸ find_some_mem k old _ hf)
      exact owes_keyed_none k _ _ (by mem_leaf)
    | none =>
      have abF' := abF hf
      cases hr : find k q.recent.items with
      | some old => exact owes_keyed_none k _ _ (by mem_leaf)
      | none =>
        have abR' := abR hr
        cases hg : find k q.ghost.items <;> exact owes_keyed_none k _ _ (by mem_leaf)
  | purge =>
    obtain ⟨q1, d, hp, hi, _, hr1, hf1, _⟩ := TwoQ.purge_total_inv q h
    simp only [TwoQ.step, hp] at hs; injection hs with hs; subst hs
    rw [hr1, hf1]; exact owes_all _
  | read =>
    simp only [TwoQ.step] at hs; injection hs with hs; subst hs
    exact owes_none _ _ (fun e he => he)
end TwoQ

end M
