/- Backbone for `Slru`: invariant, totality and preservation for every operation. -/
import Caches.Model.Slru
import Caches.Lemmas.Prims
set_option linter.unusedSectionVars false
set_option linter.unusedVariables false
set_option linter.unusedSimpArgs false
namespace M
variable {κ ν : Type} [DecidableEq κ]
namespace Slru

structure Inv (s : Slru κ ν) : Prop where
  ndp : (keys s.prob.items).Nodup
  ndq : (keys s.prot.items).Nodup
  disj : ∀ x, x ∈ keys s.prob.items → x ∉ keys s.prot.items
  bp : s.prob.items.length ≤ s.prob.cap
  bq : s.prot.items.length ≤ s.prot.cap
  pp : 0 < s.prob.cap
  pq : 0 < s.prot.cap

/-- capacities never change -/
def SameCaps (s s' : Slru κ ν) : Prop := s'.prob.cap = s.prob.cap ∧ s'.prot.cap = s.prot.cap

theorem inv_new (p q : Nat) (s : Slru κ ν) (h : Slru.new p q = some s) : s.Inv ∧ s.prob.cap = p ∧ s.prot.cap = q := by
  unfold Slru.new at h
  split at h
  · simp at h
  · split at h
    · simp at h
    · injection h with h; subst h
      exact ⟨⟨by simp, by simp, by simp, by simp, by simp, by simp; omega, by simp; omega⟩, rfl, rfl⟩

/-- the promotion of a probationary entry: explicit form of the two outcomes -/
theorem promote_spec (s : Slru κ ν) (k : κ) (w : Option ν) (old : ν) (h : s.Inv)
    (hf : find k s.prob.items = some old) :
    (s.prot.items.length < s.prot.cap ∧
      s.promote k w = .ok (some old, { prob := { s.prob with items := erase k s.prob.items },
                                        prot := { s.prot with items := (k, w.getD old) :: s.prot.items } })) ∨
    (s.prot.items.length = s.prot.cap ∧ ∃ dem, s.prot.items.getLast? = some dem ∧
      s.promote k w = .ok (some old, { prob := { s.prob with items := dem :: erase k s.prob.items },
                                        prot := { s.prot with items := (k, w.getD old) :: s.prot.items.dropLast } })) := by
  obtain ⟨ndp, ndq, disj, bp, bq, pp, pq⟩ := h
  unfold Slru.promote
  simp only [RawLru.removeEnt_some _ k old hf]
  by_cases hfull : s.prot.items.length < s.prot.cap
  · left
    refine ⟨hfull, ?_⟩
    simp only [RawLru.putOrEvict_room _ _ hfull]
  · right
    have heq : s.prot.items.length = s.prot.cap := by omega
    obtain ⟨dem, hd⟩ := getLast?_some_of_pos s.prot.items (by omega)
    refine ⟨heq, dem, hd, ?_⟩
    simp only [RawLru.putOrEvict_full _ _ dem (by omega) hd]
    have hlen := length_erase_of_find k _ old hf
    have hroom : ({ s.prob with items := erase k s.prob.items } : RawLru κ ν).items.length <
        ({ s.prob with items := erase k s.prob.items } : RawLru κ ν).cap := by simp only; omega
    simp only [RawLru.putNonnull_room _ _ hroom]

theorem promote_inv (s : Slru κ ν) (k : κ) (w : Option ν) (old : ν) (h : s.Inv)
    (hf : find k s.prob.items = some old) :
    ∃ s', s.promote k w = .ok (some old, s') ∧ s'.Inv ∧ SameCaps s s' := by
  have h' := h
  obtain ⟨ndp, ndq, disj, bp, bq, pp, pq⟩ := h
  have ef := erase_facts _ k old hf ndp
  rcases promote_spec s k w old h' hf with ⟨hroom, hp⟩ | ⟨hfull, dem, hd, hp⟩
  · refine ⟨_, hp, ?_, rfl, rfl⟩
    constructor <;> simp only [keys_cons, List.nodup_cons, List.mem_cons, List.length_cons] <;>
      first | assumption | omega | grind
  · have lf := last_facts _ _ hd ndq
    refine ⟨_, hp, ?_, rfl, rfl⟩
    constructor <;> simp only [keys_cons, keys_cons', List.nodup_cons, List.mem_cons, List.length_cons] <;>
      first | assumption | omega | grind

theorem put_total_inv (s : Slru κ ν) (k : κ) (v : ν) (h : s.Inv) :
    ∃ r s' d, s.put k v = .ok (r, s', d) ∧ s'.Inv ∧ SameCaps s s' := by
  have h' := h
  obtain ⟨ndp, ndq, disj, bp, bq, pp, pq⟩ := h
  unfold Slru.put
  cases hq : find k s.prot.items with
  | some old =>
    have ef := erase_facts _ k old hq ndq
    refine ⟨_, _, _, rfl, ?_, rfl, rfl⟩
    constructor <;> simp only [RawLru.update, use, keys_cons, List.nodup_cons, List.mem_cons, List.length_cons] <;>
      first | assumption | omega | grind
  | none =>
    simp only
    cases hp : find k s.prob.items with
    | some old =>
      obtain ⟨s', hpr, hi, hc⟩ := promote_inv s k (some v) old h' hp
      simp only [RawLru.contains, hp, Option.isSome_some, if_true, hpr]
      exact ⟨_, _, _, rfl, hi, hc⟩
    | none =>
      simp only [RawLru.contains, hp, Option.isSome_none, Bool.false_eq_true, if_false]
      obtain ⟨c', r, e, hput, hci, hcc, _⟩ := RawLru.put_total_inv s.prob k v ⟨ndp, bp⟩
      simp only [hput]
      refine ⟨_, _, _, rfl, ?_, hcc, rfl⟩
      have hkq := (find_none_iff k _).1 hq
      have hsub := (RawLru.put_keys s.prob c' k v r e ⟨ndp, bp⟩ hput).2
      refine ⟨hci.nd, ndq, ?_, hci.bound, bq, by rw [hcc]; exact pp, pq⟩
      intro x hx
      rcases hsub x hx with rfl | hx'
      · exact hkq
      · exact disj x hx'

theorem getMut_total_inv (s : Slru κ ν) (k : κ) (w : Option ν) (h : s.Inv) :
    ∃ r s', s.getMut k w = .ok (r, s') ∧ s'.Inv ∧ SameCaps s s' := by
  have h' := h
  obtain ⟨ndp, ndq, disj, bp, bq, pp, pq⟩ := h
  unfold Slru.getMut RawLru.getMut
  cases hq : find k s.prot.items with
  | some old =>
    have ef := erase_facts _ k old hq ndq
    refine ⟨_, _, rfl, ?_, rfl, rfl⟩
    constructor <;> simp only [use, keys_cons, List.nodup_cons, List.mem_cons, List.length_cons] <;>
      first | assumption | omega | grind
  | none =>
    simp only
    cases hp : find k s.prob.items with
    | none => exact ⟨_, _, rfl, h', rfl, rfl⟩
    | some old =>
      obtain ⟨s', hpr, hi, hc⟩ := promote_inv s k w old h' hp
      simp only [hpr]
      exact ⟨_, _, rfl, hi, hc⟩

theorem peekMut_inv (s : Slru κ ν) (k : κ) (w : Option ν) (h : s.Inv) :
    (s.peekMut k w).1.Inv ∧ SameCaps s (s.peekMut k w).1 := by
  obtain ⟨ndp, ndq, disj, bp, bq, pp, pq⟩ := h
  unfold Slru.peekMut RawLru.peekMut
  cases hq : find k s.prot.items with
  | some old =>
    cases w with
    | none => exact ⟨⟨ndp, ndq, disj, bp, bq, pp, pq⟩, rfl, rfl⟩
    | some w =>
      refine ⟨⟨ndp, by simp only [keys_setVal]; exact ndq, by simp only [keys_setVal]; exact disj, bp,
        by simp only [length_setVal]; exact bq, pp, pq⟩, rfl, rfl⟩
  | none =>
    cases hp : find k s.prob.items with
    | none => cases w <;> exact ⟨⟨ndp, ndq, disj, bp, bq, pp, pq⟩, rfl, rfl⟩
    | some old =>
      cases w with
      | none => exact ⟨⟨ndp, ndq, disj, bp, bq, pp, pq⟩, rfl, rfl⟩
      | some w =>
        refine ⟨⟨by simp only [keys_setVal]; exact ndp, ndq, by simp only [keys_setVal]; exact disj,
          by simp only [length_setVal]; exact bp, bq, pp, pq⟩, rfl, rfl⟩

theorem remove_inv (s : Slru κ ν) (k : κ) (h : s.Inv) : (s.remove k).1.Inv ∧ SameCaps s (s.remove k).1 := by
  obtain ⟨ndp, ndq, disj, bp, bq, pp, pq⟩ := h
  unfold Slru.remove RawLru.remove
  cases hp : find k s.prob.items with
  | some v =>
    have ef := erase_facts _ k v hp ndp
    refine ⟨?_, rfl, rfl⟩
    constructor <;> simp only <;> first | assumption | omega | grind
  | none =>
    cases hq : find k s.prot.items with
    | none => exact ⟨⟨ndp, ndq, disj, bp, bq, pp, pq⟩, rfl, rfl⟩
    | some v =>
      have ef := erase_facts _ k v hq ndq
      refine ⟨?_, rfl, rfl⟩
      constructor <;> simp only <;> first | assumption | omega | grind

theorem purge_total_inv (s : Slru κ ν) (h : s.Inv) :
    ∃ d, s.purge = .ok ({ prob := { s.prob with items := [] }, prot := { s.prot with items := [] } }, d) ∧
      ({ prob := { s.prob with items := [] }, prot := { s.prot with items := [] } } : Slru κ ν).Inv := by
  unfold Slru.purge
  simp only [RawLru.purge_spec]
  exact ⟨_, rfl, ⟨by simp, by simp, by simp, by simp, by simp, h.pp, h.pq⟩⟩

theorem putProtected_total_inv (s : Slru κ ν) (k : κ) (v : ν) (h : s.Inv) :
    ∃ r s' d, s.putProtected k v = .ok (r, s', d) ∧ s'.Inv ∧ SameCaps s s' ∧
      k ∈ keys s'.prot.items ∧ k ∉ keys s'.prob.items := by
  have h' := h
  obtain ⟨ndp, ndq, disj, bp, bq, pp, pq⟩ := h
  -- facts about `prot.put`
  obtain ⟨q', r, e, hput, hqi, hqc, _⟩ := RawLru.put_total_inv s.prot k v ⟨ndq, bq⟩
  have hq0 : s.prot.cap ≠ 0 := by omega
  have hk := RawLru.put_keys s.prot q' k v r e ⟨ndq, bq⟩ hput
  have hkq' : k ∈ keys q'.items ∧ ∀ x, x ∈ keys q'.items → x = k ∨ x ∈ keys s.prot.items := ⟨hk.1 hq0, hk.2⟩
  unfold Slru.putProtected RawLru.remove
  cases hp : find k s.prob.items with
  | none =>
    simp only [hput]
    have hkp := (find_none_iff k _).1 hp
    refine ⟨_, _, _, rfl, ⟨ndp, hqi.nd, ?_, bp, hqi.bound, pp, by rw [hqc]; exact pq⟩, ⟨rfl, hqc⟩, hkq'.1, hkp⟩
    intro x hx hxq
    rcases hkq'.2 x hxq with rfl | hx'
    · exact hkp hx
    · exact disj x hx hx'
  | some old =>
    have ef := erase_facts _ k old hp ndp
    simp only [hput]
    have hinv : ({ prob := { s.prob with items := erase k s.prob.items }, prot := q' } : Slru κ ν).Inv := by
      refine ⟨ef.2.2.1, hqi.nd, ?_, by simp only; omega, hqi.bound, pp, by rw [hqc]; exact pq⟩
      intro x hx hxq
      have hx' := (ef.2.2.2.1 x).1 hx
      rcases hkq'.2 x hxq with rfl | hxq'
      · exact hx'.2 rfl
      · exact disj x hx'.1 hxq'
    cases r with
    | put => exact ⟨_, _, _, rfl, hinv, ⟨rfl, hqc⟩, hkq'.1, ef.2.1⟩
    | evicted ek ev => exact ⟨_, _, _, rfl, hinv, ⟨rfl, hqc⟩, hkq'.1, ef.2.1⟩
    | update o => exact ⟨_, _, _, rfl, hinv, ⟨rfl, hqc⟩, hkq'.1, ef.2.1⟩
    | evictedAndUpdate a b c => exact ⟨_, _, _, rfl, hinv, ⟨rfl, hqc⟩, hkq'.1, ef.2.1⟩

theorem removeLruFrom_inv (s : Slru κ ν) (h : s.Inv) :
    (s.removeLruFromProbationary).1.Inv ∧ (s.removeLruFromProtected).1.Inv := by
  obtain ⟨ndp, ndq, disj, bp, bq, pp, pq⟩ := h
  unfold Slru.removeLruFromProbationary Slru.removeLruFromProtected RawLru.removeLru RawLru.removeLruIn
  constructor
  · cases hl : s.prob.items.getLast? with
    | none => exact ⟨ndp, ndq, disj, bp, bq, pp, pq⟩
    | some e =>
      have lf := last_facts _ _ hl ndp
      constructor <;> simp only <;> first | assumption | omega | grind
  · cases hl : s.prot.items.getLast? with
    | none => exact ⟨ndp, ndq, disj, bp, bq, pp, pq⟩
    | some e =>
      have lf := last_facts _ _ hl ndq
      constructor <;> simp only <;> first | assumption | omega | grind

/-- a key held in one of the two segments -/
def Held (s : Slru κ ν) (x : κ) : Prop := x ∈ keys s.prob.items ∨ x ∈ keys s.prot.items

theorem promote_held (s s' : Slru κ ν) (k : κ) (w : Option ν) (old : ν) (h : s.Inv)
    (hf : find k s.prob.items = some old) (hp : s.promote k w = .ok (some old, s')) :
    ∀ x, Held s' x ↔ Held s x := by
  have ef := erase_facts _ k old hf h.ndp
  rcases promote_spec s k w old h hf with ⟨_, hp'⟩ | ⟨_, dem, hd, hp'⟩
  · rw [hp'] at hp; injection hp with hp; injection hp with _ hp; subst hp
    intro x; unfold Held; simp only [keys_cons, List.mem_cons]
    have := ef.2.2.2.1 x
    constructor
    · rintro (hx | hx | hx)
      · exact Or.inl (this.1 hx).1
      · subst hx; exact Or.inl ef.1
      · exact Or.inr hx
    · rintro (hx | hx)
      · by_cases hxk : x = k
        · exact Or.inr (Or.inl hxk)
        · exact Or.inl (this.2 ⟨hx, hxk⟩)
      · exact Or.inr (Or.inr hx)
  · rw [hp'] at hp; injection hp with hp; injection hp with _ hp; subst hp
    have lf := last_facts _ _ hd h.ndq
    intro x; unfold Held; simp only [keys_cons, keys_cons', List.mem_cons]
    have := ef.2.2.2.1 x
    constructor
    · rintro ((hx | hx) | hx | hx)
      · subst hx; exact Or.inr lf.1
      · exact Or.inl (this.1 hx).1
      · subst hx; exact Or.inl ef.1
      · exact Or.inr (lf.2.2.2.1 x hx)
    · rintro (hx | hx)
      · by_cases hxk : x = k
        · exact Or.inr (Or.inl hxk)
        · exact Or.inl (Or.inr (this.2 ⟨hx, hxk⟩))
      · rcases lf.2.2.2.2.2 x hx with hx' | hx'
        · exact Or.inl (Or.inl hx')
        · exact Or.inr (Or.inr hx')

/-- `put` introduces no key but `k` -/
theorem put_held (s s' : Slru κ ν) (k : κ) (v : ν) (r : PutResult κ ν) (d : List (Obj κ ν)) (h : s.Inv)
    (hp : s.put k v = .ok (r, s', d)) : (∀ x, Held s' x → x = k ∨ Held s x) ∧ Held s' k := by
  unfold Slru.put at hp
  cases hq : find k s.prot.items with
  | some old =>
    simp only [hq] at hp; injection hp with hp; injection hp with _ hp; injection hp with hp _; subst hp
    refine ⟨?_, Or.inr (by simp [RawLru.update, use])⟩
    intro x hx; unfold Held at hx ⊢
    simp only [RawLru.update, use, keys_cons, List.mem_cons] at hx
    rcases hx with hx | hx | hx
    · exact Or.inr (Or.inl hx)
    · exact Or.inl hx
    · exact Or.inr (Or.inr (keys_erase_subset k x _ hx))
  | none =>
    simp only [hq] at hp
    cases hpf : find k s.prob.items with
    | some old =>
      obtain ⟨s1, hpr, _, _⟩ := promote_inv s k (some v) old h hpf
      simp only [RawLru.contains, hpf, Option.isSome_some, if_true, hpr] at hp
      injection hp with hp; injection hp with _ hp; injection hp with hp _; subst hp
      have hh := promote_held s s1 k (some v) old h hpf hpr
      exact ⟨fun x hx => Or.inr ((hh x).1 hx), (hh k).2 (Or.inl (find_some_mem k old _ hpf))⟩
    | none =>
      simp only [RawLru.contains, hpf, Option.isSome_none, Bool.false_eq_true, if_false] at hp
      cases hput : s.prob.put k v with
      | error f => simp [hput] at hp
      | ok res =>
        obtain ⟨c', r', e⟩ := res
        simp only [hput] at hp
        injection hp with hp; injection hp with _ hp; injection hp with hp _; subst hp
        have hk := RawLru.put_keys s.prob c' k v r' e ⟨h.ndp, h.bp⟩ hput
        refine ⟨?_, Or.inl (hk.1 (by have := h.pp; omega))⟩
        intro x hx; unfold Held at hx ⊢; simp only at hx
        rcases hx with hx | hx
        · rcases hk.2 x hx with hx' | hx'
          · exact Or.inl hx'
          · exact Or.inr (Or.inl hx')
        · exact Or.inr (Or.inr hx)

theorem getMut_held (s s' : Slru κ ν) (k : κ) (w : Option ν) (r : Option ν) (h : s.Inv)
    (hp : s.getMut k w = .ok (r, s')) : ∀ x, Held s' x ↔ Held s x := by
  unfold Slru.getMut RawLru.getMut at hp
  cases hq : find k s.prot.items with
  | some old =>
    simp only [hq] at hp; injection hp with hp; injection hp with _ hp; subst hp
    intro x; unfold Held; simp only [use, keys_cons, List.mem_cons]
    have := mem_keys_erase k x s.prot.items h.ndq
    constructor
    · rintro (hx | hx | hx)
      · exact Or.inl hx
      · subst hx; exact Or.inr (find_some_mem _ old _ hq)
      · exact Or.inr (this.1 hx).1
    · rintro (hx | hx)
      · exact Or.inl hx
      · by_cases hxk : x = k
        · exact Or.inr (Or.inl hxk)
        · exact Or.inr (Or.inr (this.2 ⟨hx, hxk⟩))
  | none =>
    simp only [hq] at hp
    cases hpf : find k s.prob.items with
    | none => simp only [hpf] at hp; injection hp with hp; injection hp with _ hp; subst hp; intro x; rfl
    | some old =>
      simp only [hpf] at hp
      obtain ⟨s1, hpr, _, _⟩ := promote_inv s k w old h hpf
      rw [hpr] at hp; injection hp with hp; injection hp with _ hp; subst hp
      exact promote_held s s1 k w old h hpf hpr

theorem remove_held (s : Slru κ ν) (k : κ) (h : s.Inv) : ∀ x, Held (s.remove k).1 x → Held s x ∧ x ≠ k := by
  unfold Slru.remove RawLru.remove
  cases hp : find k s.prob.items with
  | some v =>
    intro x hx; unfold Held at hx ⊢; simp only at hx
    have hkq : k ∉ keys s.prot.items := h.disj k (find_some_mem k v _ hp)
    rcases hx with hx | hx
    · have := (mem_keys_erase k x _ h.ndp).1 hx; exact ⟨Or.inl this.1, this.2⟩
    · exact ⟨Or.inr hx, fun hc => hkq (hc ▸ hx)⟩
  | none =>
    have hkp := (find_none_iff k _).1 hp
    cases hq : find k s.prot.items with
    | none =>
      have hkq := (find_none_iff k _).1 hq
      intro x hx; unfold Held at hx; simp only at hx
      refine ⟨hx, fun hc => ?_⟩
      subst hc; rcases hx with hx | hx
      · exact hkp hx
      · exact hkq hx
    | some v =>
      intro x hx; unfold Held at hx ⊢; simp only at hx
      rcases hx with hx | hx
      · exact ⟨Or.inl hx, fun hc => hkp (hc ▸ hx)⟩
      · have := (mem_keys_erase k x _ h.ndq).1 hx; exact ⟨Or.inr this.1, this.2⟩

theorem putProtected_held (s s' : Slru κ ν) (k : κ) (v : ν) (r : PutResult κ ν) (d : List (Obj κ ν)) (h : s.Inv)
    (hp : s.putProtected k v = .ok (r, s', d)) :
    (∀ x, x ∈ keys s'.prob.items → x ∈ keys s.prob.items ∧ x ≠ k) ∧
    (∀ x, x ∈ keys s'.prot.items → x = k ∨ x ∈ keys s.prot.items) := by
  obtain ⟨q', r0, e, hput, hqi, hqc, _⟩ := RawLru.put_total_inv s.prot k v ⟨h.ndq, h.bq⟩
  have hk := RawLru.put_keys s.prot q' k v r0 e ⟨h.ndq, h.bq⟩ hput
  unfold Slru.putProtected RawLru.remove at hp
  cases hpf : find k s.prob.items with
  | none =>
    have hkp := (find_none_iff k _).1 hpf
    simp only [hpf, hput] at hp
    injection hp with hp; injection hp with _ hp; injection hp with hp _; subst hp
    exact ⟨fun x hx => ⟨hx, fun hc => hkp (hc ▸ hx)⟩, hk.2⟩
  | some old =>
    simp only [hpf, hput] at hp
    have key : s' = { prob := { s.prob with items := erase k s.prob.items }, prot := q' } := by
      cases r0 <;> (simp only at hp; injection hp with hp; injection hp with _ hp; injection hp with hp _; exact hp.symm)
    subst key
    exact ⟨fun x hx => (mem_keys_erase k x _ h.ndp).1 hx, hk.2⟩

theorem removeLruFromProtected_spec (s : Slru κ ν) (e : κ × ν) (hl : s.prot.items.getLast? = some e) :
    s.removeLruFromProtected = ({ s with prot := { s.prot with items := s.prot.items.dropLast } }, some e) := by
  simp [Slru.removeLruFromProtected, RawLru.removeLru, RawLru.removeLruIn, hl]

theorem clone_eq (s : Slru κ ν) (h : s.Inv) : s.cloneImpl = .ok s := by
  unfold Slru.cloneImpl
  rw [RawLru.clone_eq s.prob ⟨h.ndp, h.bp⟩, RawLru.clone_eq s.prot ⟨h.ndq, h.bq⟩]

end Slru
end M
