/-
  Backbone for `RawLru`: invariant, totality (no `Fault`), closed forms of the loops.
-/
import Caches.Model.RawLru
import Caches.Lemmas.Assoc
set_option linter.unusedSectionVars false
set_option linter.unusedSimpArgs false
set_option linter.unusedVariables false
namespace M
variable {κ ν : Type} [DecidableEq κ]

namespace RawLru

/-- keys are distinct and the list fits the (current) capacity -/
structure Inv (c : RawLru κ ν) : Prop where
  nd : (keys c.items).Nodup
  bound : c.items.length ≤ c.cap

theorem inv_new (cap : Nat) (cb : Bool) (c : RawLru κ ν) (h : RawLru.new cap cb = some c) : c.Inv := by
  unfold RawLru.new at h
  split at h
  · simp at h
  · injection h with h; subst h; exact ⟨by simp, by simp⟩

theorem nodup_use (k : κ) (v : ν) (l : AL κ ν) (h : (keys l).Nodup) : (keys (use k v l)).Nodup := by
  unfold use
  simp only [keys_cons, List.nodup_cons]
  refine ⟨?_, nodup_erase k l h⟩
  intro hm; exact ((mem_keys_erase k k l h).1 hm).2 rfl

theorem length_use (k : κ) (v w : ν) (l : AL κ ν) (h : find k l = some w) : (use k v l).length = l.length := by
  unfold use
  have := length_erase_of_find k l w h
  simp only [List.length_cons]; omega

/-! ### `put` -/

theorem put_present (c : RawLru κ ν) (k : κ) (v old : ν) (h : find k c.items = some old) :
    c.put k v = .ok ({ c with items := use k v c.items }, .update old, { drops := [.key k] }) := by
  simp [RawLru.put, h]

theorem put_absent_room (c : RawLru κ ν) (k : κ) (v : ν)
    (hk : find k c.items = none) (hroom : c.items.length < c.cap) :
    c.put k v = .ok ({ c with items := (k, v) :: c.items }, .put, {}) := by
  have h0 : c.cap ≠ 0 := by omega
  have h1 : c.items.length ≠ c.cap := by omega
  simp [RawLru.put, hk, h0, h1]

theorem put_absent_full (c : RawLru κ ν) (k : κ) (v : ν) (e : κ × ν)
    (hk : find k c.items = none) (hfull : c.items.length = c.cap) (h0 : c.cap ≠ 0)
    (hl : c.items.getLast? = some e) :
    c.put k v = .ok ({ c with items := (k, v) :: c.items.dropLast }, .evicted e.1 e.2, { cbs := c.cbOf e }) := by
  simp [RawLru.put, hk, h0, hfull, hl]

theorem put_cap_zero (c : RawLru κ ν) (k : κ) (v : ν) (hk : find k c.items = none) (h0 : c.cap = 0) :
    c.put k v = .ok (c, .evicted k v, {}) := by
  simp [RawLru.put, hk, h0]

/-- `put` never faults on a well-formed cache and keeps it well-formed (any capacity, including 0) -/
theorem put_total_inv (c : RawLru κ ν) (k : κ) (v : ν) (h : c.Inv) :
    ∃ c' r e, c.put k v = .ok (c', r, e) ∧ c'.Inv ∧ c'.cap = c.cap ∧ c'.hasCb = c.hasCb := by
  obtain ⟨nd, bd⟩ := h
  cases hf : find k c.items with
  | some old =>
    refine ⟨_, _, _, put_present c k v old hf, ⟨nodup_use k v _ nd, ?_⟩, rfl, rfl⟩
    simp only [length_use k v old _ hf]; exact bd
  | none =>
    by_cases h0 : c.cap = 0
    · exact ⟨_, _, _, put_cap_zero c k v hf h0, ⟨nd, bd⟩, rfl, rfl⟩
    · by_cases hfull : c.items.length = c.cap
      · obtain ⟨e, he⟩ := getLast?_some_of_pos c.items (by omega)
        have lf := last_facts _ _ he nd
        have hk := (find_none_iff k _).1 hf
        refine ⟨_, _, _, put_absent_full c k v e hf hfull h0 he, ⟨?_, ?_⟩, rfl, rfl⟩
        · simp only [keys_cons, List.nodup_cons]
          exact ⟨fun hm => hk (lf.2.2.2.1 _ hm), lf.2.2.1⟩
        · simp only [List.length_cons]; omega
      · have hroom : c.items.length < c.cap := by omega
        have hk := (find_none_iff k _).1 hf
        refine ⟨_, _, _, put_absent_room c k v hf hroom, ⟨?_, ?_⟩, rfl, rfl⟩
        · simp only [keys_cons, List.nodup_cons]; exact ⟨hk, nd⟩
        · simp only [List.length_cons]; omega

/-- keys after a `put`: the new key plus (a subset of) the old ones -/
theorem put_keys (c c' : RawLru κ ν) (k : κ) (v : ν) (r : PutResult κ ν) (e : Eff κ ν) (h : c.Inv)
    (hp : c.put k v = .ok (c', r, e)) :
    (c.cap ≠ 0 → k ∈ keys c'.items) ∧ (∀ x, x ∈ keys c'.items → x = k ∨ x ∈ keys c.items) := by
  unfold RawLru.put at hp
  cases hf : find k c.items with
  | some old =>
    simp [hf] at hp; obtain ⟨rfl, _, _⟩ := hp
    refine ⟨fun _ => by simp [use], ?_⟩
    intro x hx; simp only [use, keys_cons, List.mem_cons] at hx
    rcases hx with hx | hx
    · exact Or.inl hx
    · exact Or.inr (keys_erase_subset k x _ hx)
  | none =>
    simp only [hf] at hp
    by_cases h0 : c.cap = 0
    · simp [h0] at hp; obtain ⟨rfl, _, _⟩ := hp
      exact ⟨fun hc => absurd h0 hc, fun x hx => Or.inr hx⟩
    · simp only [h0, if_false] at hp
      split at hp
      · cases hl : c.items.getLast? with
        | none => simp [hl] at hp
        | some e' =>
          simp [hl] at hp; obtain ⟨rfl, _, _⟩ := hp
          refine ⟨fun _ => by simp, ?_⟩
          intro x hx; simp only [keys_cons, List.mem_cons] at hx
          rcases hx with hx | hx
          · exact Or.inl hx
          · exact Or.inr ((last_facts _ _ hl h.nd).2.2.2.1 x hx)
      · simp at hp; obtain ⟨rfl, _, _⟩ := hp
        refine ⟨fun _ => by simp, ?_⟩
        intro x hx; simp only [keys_cons, List.mem_cons] at hx; exact hx

/-! ### lookups and removals -/

theorem get_inv (c : RawLru κ ν) (k : κ) (h : c.Inv) : (c.get k).1.Inv ∧ (c.get k).1.cap = c.cap := by
  unfold RawLru.get
  cases hf : find k c.items with
  | none => exact ⟨h, rfl⟩
  | some v => exact ⟨⟨nodup_use k v _ h.nd, by simp only [length_use k v v _ hf]; exact h.bound⟩, rfl⟩

theorem getMut_inv (c : RawLru κ ν) (k : κ) (w : Option ν) (h : c.Inv) :
    (c.getMut k w).1.Inv ∧ (c.getMut k w).1.cap = c.cap := by
  unfold RawLru.getMut
  cases hf : find k c.items with
  | none => exact ⟨h, rfl⟩
  | some v => exact ⟨⟨nodup_use k _ _ h.nd, by simp only [length_use k _ v _ hf]; exact h.bound⟩, rfl⟩

theorem peekMut_inv (c : RawLru κ ν) (k : κ) (w : Option ν) (h : c.Inv) :
    (c.peekMut k w).1.Inv ∧ (c.peekMut k w).1.cap = c.cap := by
  unfold RawLru.peekMut
  cases hf : find k c.items with
  | none => cases w <;> exact ⟨h, rfl⟩
  | some v =>
    cases w with
    | none => exact ⟨h, rfl⟩
    | some w =>
      exact ⟨⟨by simp only [keys_setVal]; exact h.nd, by simp only [length_setVal]; exact h.bound⟩, rfl⟩

theorem remove_inv (c : RawLru κ ν) (k : κ) (h : c.Inv) :
    (c.remove k).1.Inv ∧ (c.remove k).1.cap = c.cap := by
  unfold RawLru.remove
  cases hf : find k c.items with
  | none => exact ⟨h, rfl⟩
  | some v =>
    have := length_erase_of_find k _ v hf
    exact ⟨⟨nodup_erase k _ h.nd, by simp only; have := h.bound; omega⟩, rfl⟩

theorem dropLast_inv (c : RawLru κ ν) (h : c.Inv) : ({ c with items := c.items.dropLast } : RawLru κ ν).Inv :=
  ⟨by simp only [keys_dropLast]; exact nodup_dropLast _ h.nd,
   by simp only [List.length_dropLast]; have := h.bound; omega⟩

theorem removeLru_inv (c : RawLru κ ν) (h : c.Inv) :
    (c.removeLru).1.Inv ∧ (c.removeLru).1.cap = c.cap := by
  unfold RawLru.removeLru RawLru.removeLruIn
  cases hl : c.items.getLast? with
  | none => exact ⟨h, rfl⟩
  | some e => exact ⟨dropLast_inv c h, rfl⟩

theorem removeLru_some (c : RawLru κ ν) (e : κ × ν) (hl : c.items.getLast? = some e) :
    c.removeLru = ({ c with items := c.items.dropLast }, some e, { cbs := c.cbOf e }) := by
  simp [RawLru.removeLru, RawLru.removeLruIn, hl]

theorem removeLru_none (c : RawLru κ ν) (hl : c.items = []) : c.removeLru = (c, none, {}) := by
  simp [RawLru.removeLru, RawLru.removeLruIn, hl]

/-! ### `purge` and `resize`: the loops terminate and have the expected closed forms -/

/-- effects of discarding the entries `gone` (given in leaving order) -/
def goneEff (c : RawLru κ ν) (gone : AL κ ν) : Eff κ ν :=
  { cbs := if c.hasCb then gone else [], drops := gone.flatMap dropEnt }

theorem eff_append_eq (a b : Eff κ ν) : a ++ b = { cbs := a.cbs ++ b.cbs, drops := a.drops ++ b.drops } := rfl

theorem goneEff_snoc (c c' : RawLru κ ν) (gone : AL κ ν) (e : κ × ν) (hcb : c'.hasCb = c.hasCb) :
    goneEff c gone ++ ({ cbs := c'.cbOf e } : Eff κ ν) ++ ({ drops := dropEnt e } : Eff κ ν) = goneEff c (gone ++ [e]) := by
  simp only [eff_append_eq, goneEff, RawLru.cbOf, hcb, List.flatMap_append, List.flatMap_cons, List.flatMap_nil,
    List.append_nil]
  cases c.hasCb <;> simp

theorem purgeLoop_spec (n : Nat) (c0 c : RawLru κ ν) (gone : AL κ ν) (hn : c.items.length < n)
    (hcb : c.hasCb = c0.hasCb) :
    purgeLoop n c (goneEff c0 gone) = .ok ({ c with items := [] }, goneEff c0 (gone ++ c.items.reverse)) := by
  induction n generalizing c gone with
  | zero => omega
  | succ n ih =>
    unfold purgeLoop
    cases hl : c.items.getLast? with
    | none =>
      have : c.items = [] := by simpa using hl
      simp [removeLru_none c this, this]
      cases c; simp_all
    | some e =>
      rw [removeLru_some c e hl]
      simp only
      rw [goneEff_snoc c0 c gone e hcb]
      have hne : c.items ≠ [] := by intro hc; simp [hc] at hl
      have hlen : c.items.dropLast.length < n := by
        simp only [List.length_dropLast]
        have : 0 < c.items.length := List.length_pos_iff.2 hne
        omega
      rw [ih { c with items := c.items.dropLast } (gone ++ [e]) hlen hcb]
      have hsplit : c.items = c.items.dropLast ++ [e] := by
        have := List.dropLast_concat_getLast hne
        have h2 := List.getLast?_eq_some_getLast hne
        rw [hl] at h2
        rw [← Option.some.inj h2] at this
        exact this.symm
      have : (gone ++ [e]) ++ c.items.dropLast.reverse = gone ++ c.items.reverse := by
        conv => rhs; rw [hsplit]
        simp
      simp only [this]

/-- `purge` empties the cache; callbacks and drops are all entries, least recent first -/
theorem purge_spec (c : RawLru κ ν) :
    c.purge = .ok ({ c with items := [] }, goneEff c c.items.reverse) := by
  have h := purgeLoop_spec (c.items.length + 1) c c [] (by omega) rfl
  simp only [List.nil_append] at h
  unfold RawLru.purge
  have h0 : (goneEff c [] : Eff κ ν) = {} := by simp [goneEff]
  rw [h0] at h
  exact h

theorem resizeLoop_spec (n cap : Nat) (c0 c : RawLru κ ν) (ev : Nat) (gone : AL κ ν)
    (hn : c.items.length < n) (hcb : c.hasCb = c0.hasCb) :
    resizeLoop n cap c ev (goneEff c0 gone) =
      .ok ({ c with items := c.items.take cap }, ev + (c.items.length - cap),
           goneEff c0 (gone ++ (c.items.drop cap).reverse)) := by
  induction n generalizing c ev gone with
  | zero => omega
  | succ n ih =>
    unfold resizeLoop
    by_cases hgt : c.items.length > cap
    · simp only [hgt, if_true]
      have hne : c.items ≠ [] := by intro hc; simp [hc] at hgt
      obtain ⟨e, hl⟩ := getLast?_some_of_pos c.items (by omega)
      rw [removeLru_some c e hl]
      simp only
      rw [goneEff_snoc c0 c gone e hcb]
      have hlen : c.items.dropLast.length < n := by
        simp only [List.length_dropLast]; omega
      rw [ih { c with items := c.items.dropLast } (ev + 1) (gone ++ [e]) hlen hcb]
      have hsplit : c.items = c.items.dropLast ++ [e] := by
        have := List.dropLast_concat_getLast hne
        have h2 := List.getLast?_eq_some_getLast hne
        rw [hl] at h2
        rw [← Option.some.inj h2] at this
        exact this.symm
      have hdl : c.items.dropLast.length = c.items.length - 1 := by simp
      have htake : c.items.dropLast.take cap = c.items.take cap := by
        conv => rhs; rw [hsplit]
        rw [List.take_append_of_le_length (by omega)]
      have hdrop : (gone ++ [e]) ++ (c.items.dropLast.drop cap).reverse = gone ++ (c.items.drop cap).reverse := by
        conv => rhs; rw [hsplit]
        rw [List.drop_append_of_le_length (by omega)]
        simp
      have harith : ev + 1 + (c.items.length - 1 - cap) = ev + (c.items.length - cap) := by omega
      simp only [htake, hdrop, hdl, harith]
    · simp only [hgt, if_false]
      have h1 : c.items.take cap = c.items := List.take_of_length_le (by omega)
      have h2 : c.items.drop cap = [] := List.drop_of_length_le (by omega)
      have h3 : c.items.length - cap = 0 := by omega
      simp only [h1, h2, h3, List.reverse_nil, List.append_nil, Nat.add_zero]

/-- `resize n`: keeps the `n` most recent entries in order, returns the number discarded,
    reports the discarded ones least-recent first, and installs `n` as the capacity -/
theorem resize_spec (c : RawLru κ ν) (n : Nat) (hne : n ≠ c.cap) :
    c.resize n = .ok ({ c with cap := n, items := c.items.take n }, c.items.length - n,
                      goneEff c (c.items.drop n).reverse) := by
  unfold RawLru.resize
  simp only [hne, if_false]
  have h := resizeLoop_spec (c.items.length + 1) n c c 0 [] (by omega) rfl
  have h0 : (goneEff c [] : Eff κ ν) = {} := by simp [goneEff]
  rw [h0] at h
  rw [h]
  simp

theorem resize_same (c : RawLru κ ν) : c.resize c.cap = .ok (c, 0, {}) := by
  simp [RawLru.resize]

theorem resize_total_inv (c : RawLru κ ν) (n : Nat) (h : c.Inv) :
    ∃ c' ev e, c.resize n = .ok (c', ev, e) ∧ c'.Inv ∧ c'.cap = n := by
  by_cases hne : n = c.cap
  · subst hne; exact ⟨_, _, _, resize_same c, h, rfl⟩
  · refine ⟨_, _, _, resize_spec c n hne, ⟨?_, ?_⟩, rfl⟩
    · simp only [keys, List.map_take]
      exact List.Sublist.nodup (List.take_sublist _ _) h.nd
    · simp only [List.length_take]; omega

/-! ### `*_or_put` -/

theorem peekOrPut_total_inv (c : RawLru κ ν) (k : κ) (v : ν) (h : c.Inv) :
    ∃ c' cur r e, c.peekOrPut k v = .ok (c', cur, r, e) ∧ c'.Inv ∧ c'.cap = c.cap := by
  unfold RawLru.peekOrPut
  cases hf : find k c.items with
  | some cur => exact ⟨_, _, _, _, rfl, h, rfl⟩
  | none =>
    obtain ⟨c', r, e, hp, hi, hc, _⟩ := put_total_inv c k v h
    simp only [hp]; exact ⟨_, _, _, _, rfl, hi, hc⟩

theorem containsOrPut_total_inv (c : RawLru κ ν) (k : κ) (v : ν) (h : c.Inv) :
    ∃ c' b r e, c.containsOrPut k v = .ok (c', b, r, e) ∧ c'.Inv ∧ c'.cap = c.cap := by
  unfold RawLru.containsOrPut
  by_cases hf : (find k c.items).isSome
  · simp only [hf, if_true]; exact ⟨_, _, _, _, rfl, h, rfl⟩
  · obtain ⟨c', r, e, hp, hi, hc, _⟩ := put_total_inv c k v h
    simp only [hf, hp]; exact ⟨_, _, _, _, rfl, hi, hc⟩

theorem peekMutOrPut_total_inv (c : RawLru κ ν) (k : κ) (v : ν) (w : Option ν) (h : c.Inv) :
    ∃ c' cur r e, c.peekMutOrPut k v w = .ok (c', cur, r, e) ∧ c'.Inv ∧ c'.cap = c.cap := by
  unfold RawLru.peekMutOrPut
  cases hf : find k c.items with
  | some cur =>
    cases w with
    | none => exact ⟨_, _, _, _, rfl, h, rfl⟩
    | some w => exact ⟨_, _, _, _, rfl, ⟨by simp only [keys_setVal]; exact h.nd, by simp only [length_setVal]; exact h.bound⟩, rfl⟩
  | none =>
    obtain ⟨c', r, e, hp, hi, hc, _⟩ := put_total_inv c k v h
    simp only [hp]; exact ⟨_, _, _, _, rfl, hi, hc⟩

/-! ### `clone` -/

/-- re-putting fresh keys one by one just conses them -/
theorem refill_fresh (r : AL κ ν) (acc : RawLru κ ν) (eff : Eff κ ν)
    (hnd : (keys r).Nodup) (hdis : ∀ x, x ∈ keys r → x ∉ keys acc.items)
    (hb : r.length + acc.items.length ≤ acc.cap) :
    ∃ eff', RawLru.refill r acc eff = .ok ({ acc with items := r.reverse ++ acc.items }, eff') := by
  induction r generalizing acc eff with
  | nil => exact ⟨eff, by simp [RawLru.refill]⟩
  | cons e t ih =>
    obtain ⟨ek, ev⟩ := e
    simp only [keys_cons, List.nodup_cons, List.mem_cons, List.length_cons] at hnd hdis hb
    have hk : ek ∉ keys acc.items := hdis ek (Or.inl rfl)
    have hroom : acc.items.length < acc.cap := by omega
    have hf := (find_none_iff ek acc.items).2 hk
    simp only [RawLru.refill, put_absent_room _ ek ev hf hroom]
    obtain ⟨eff', h⟩ := ih { acc with items := (ek, ev) :: acc.items } (eff ++ {} ++ { drops := PutResult.drops (κ := κ) (ν := ν) .put }) hnd.2
      (by intro x hx; simp only [keys_cons, List.mem_cons]; grind) (by simp only [List.length_cons]; omega)
    refine ⟨eff', ?_⟩
    rw [h]; simp

/-- `clone` rebuilds exactly the same cache: same capacity, same entries, same order -/
theorem clone_eq (c : RawLru κ ν) (h : c.Inv) : c.cloneImpl = .ok c := by
  unfold RawLru.cloneImpl
  obtain ⟨eff', hr⟩ := refill_fresh c.items.reverse { c with items := [] } {}
    (by
      have := h.nd
      simp only [keys, List.map_reverse, List.Nodup, List.pairwise_reverse] at this ⊢
      exact this.imp (fun h => Ne.symm h))
    (by simp) (by simpa using h.bound)
  rw [hr]; simp

end RawLru
end M
