/- Lemmas for the abort-semantics model: the weak invariant survives every operation aborted at every site. -/
import Caches.Model.Abort
set_option linter.unusedSectionVars false
set_option linter.unusedVariables false
set_option linter.unusedSimpArgs false
namespace M.Abort
variable {κ ν : Type} [DecidableEq κ]

theorem lookup_mem (k : κ) (l : List (κ × Nat)) (i : Nat) (h : lookup k l = some i) : (k, i) ∈ l := by
  fun_induction lookup k l <;> grind
theorem lookup_none_iff (k : κ) (l : List (κ × Nat)) : lookup k l = none ↔ k ∉ l.map (·.1) := by
  fun_induction lookup k l <;> grind
theorem unindex_sublist (k : κ) (l : List (κ × Nat)) : (unindex k l).Sublist l := by
  fun_induction unindex k l <;> grind
theorem mem_unindex (k : κ) (l : List (κ × Nat)) (e : κ × Nat) (h : e ∈ unindex k l) : e ∈ l :=
  (unindex_sublist k l).subset h
/-- with distinct keys `unindex k` removes exactly the entries of `k` -/
theorem mem_unindex_ne (k : κ) (l : List (κ × Nat)) (hnd : (l.map (·.1)).Nodup) (e : κ × Nat)
    (h : e ∈ unindex k l) : e.1 ≠ k := by
  fun_induction unindex k l <;> grind
theorem mem_unindex_of (k : κ) (l : List (κ × Nat)) (e : κ × Nat) (h : e ∈ l) (hk : e.1 ≠ k) : e ∈ unindex k l := by
  fun_induction unindex k l <;> grind

theorem unindex_keys_nd (k : κ) (l : List (κ × Nat)) (h : (l.map (·.1)).Nodup) : ((unindex k l).map (·.1)).Nodup :=
  List.Sublist.nodup (List.Sublist.map _ (unindex_sublist k l)) h
theorem unindex_ids_nd (k : κ) (l : List (κ × Nat)) (h : (l.map (·.2)).Nodup) : ((unindex k l).map (·.2)).Nodup :=
  List.Sublist.nodup (List.Sublist.map _ (unindex_sublist k l)) h

omit [DecidableEq κ] in
theorem mem_unlink (i : Nat) (l : List (Node κ ν)) (n : Node κ ν) : n ∈ unlink i l ↔ n ∈ l ∧ n.id ≠ i := by
  simp [unlink]
omit [DecidableEq κ] in
theorem ids_unlink_nd (i : Nat) (l : List (Node κ ν)) (h : (ids l).Nodup) : (ids (unlink i l)).Nodup := by
  unfold ids unlink
  exact List.Sublist.nodup (List.Sublist.map _ List.filter_sublist) h
omit [DecidableEq κ] in
theorem not_mem_ids_unlink (i : Nat) (l : List (Node κ ν)) : i ∉ ids (unlink i l) := by
  simp [ids, unlink]
omit [DecidableEq κ] in
theorem nodeOf_mem (i : Nat) (l : List (Node κ ν)) (n : Node κ ν) (h : nodeOf i l = some n) : n ∈ l ∧ n.id = i := by
  unfold nodeOf at h
  exact ⟨List.mem_of_find?_eq_some h, by simpa using List.find?_some h⟩
omit [DecidableEq κ] in
/-- in a chain with distinct ids a node is determined by its id -/
theorem node_unique (l : List (Node κ ν)) (h : (ids l).Nodup) (a b : Node κ ν) (ha : a ∈ l) (hb : b ∈ l)
    (hid : a.id = b.id) : a = b := by
  induction l with
  | nil => simp at ha
  | cons x t ih =>
    simp only [ids, List.map_cons, List.nodup_cons, List.mem_map, not_exists, not_and] at h
    simp only [List.mem_cons] at ha hb
    rcases ha with rfl | ha <;> rcases hb with rfl | hb
    · rfl
    · exact absurd hid.symm (h.1 b hb)
    · exact absurd hid (h.1 a ha)
    · exact ih h.2 ha hb

/-- distinct ids in the index: the entry of a key is the only one with its id -/
theorem idx_id_unique (l : List (κ × Nat)) (h : (l.map (·.2)).Nodup) (a b : κ × Nat) (ha : a ∈ l) (hb : b ∈ l)
    (hid : a.2 = b.2) : a = b := by
  induction l with
  | nil => simp at ha
  | cons x t ih =>
    simp only [List.map_cons, List.nodup_cons, List.mem_map, not_exists, not_and] at h
    simp only [List.mem_cons] at ha hb
    rcases ha with rfl | ha <;> rcases hb with rfl | hb
    · rfl
    · exact absurd hid.symm (h.1 b hb)
    · exact absurd hid (h.1 a ha)
    · exact ih h.2 ha hb

/-! ### the weak invariant is preserved at every abort site -/

theorem winv_update (w : W κ ν) (h : WInv w) (k : κ) (i : Nat) (n : Node κ ν) (v : ν)
    (hl : lookup k w.index = some i) (hn : nodeOf i w.chain = some n) :
    WInv { w with chain := { n with val := v } :: unlink i w.chain } := by
  obtain ⟨hnm, hni⟩ := nodeOf_mem i _ n hn
  refine ⟨?_, h.idx_keys_nd, h.idx_ids_nd, ?_, ?_⟩
  · simp only [ids, List.map_cons, List.nodup_cons]
    exact ⟨by rw [hni]; exact not_mem_ids_unlink i _, ids_unlink_nd i _ h.ids_nd⟩
  · intro k' i' hm
    obtain ⟨n', hn'm, hn'i, hn'k⟩ := h.idx_in_chain k' i' hm
    by_cases he : i' = i
    · have : n' = n := node_unique _ h.ids_nd n' n hn'm hnm (by rw [hn'i, he, hni])
      subst this
      exact ⟨_, List.mem_cons_self, by simpa using hn'i, by simpa using hn'k⟩
    · exact ⟨n', List.mem_cons_of_mem _ ((mem_unlink i _ n').2 ⟨hn'm, by rw [hn'i]; exact he⟩), hn'i, hn'k⟩
  · intro m hm
    simp only [List.mem_cons] at hm
    rcases hm with rfl | hm
    · exact h.live n hnm
    · exact h.live m ((mem_unlink i _ m).1 hm).1

theorem winv_recycle (w : W κ ν) (h : WInv w) (k okey : κ) (i : Nat) (v : ν) (indexed : Bool)
    (hk : lookup k w.index = none) (hl : lookup okey w.index = some i) :
    WInv { w with chain := (⟨i, k, v⟩ : Node κ ν) :: unlink i w.chain,
                  index := if indexed then (k, i) :: unindex okey w.index else unindex okey w.index } := by
  have hmem := lookup_mem okey _ i hl
  have hkn := (lookup_none_iff k _).1 hk
  obtain ⟨n0, hn0m, hn0i, _⟩ := h.idx_in_chain okey i hmem
  -- no other index entry carries the id `i`
  have hother : ∀ e ∈ unindex okey w.index, e.2 ≠ i := by
    intro e he hc
    have hem := mem_unindex okey _ e he
    have := idx_id_unique _ h.idx_ids_nd e (okey, i) hem hmem hc
    exact mem_unindex_ne okey _ h.idx_keys_nd e he (by rw [this])
  have base_in : ∀ k' i', (k', i') ∈ unindex okey w.index →
      ∃ n ∈ (⟨i, k, v⟩ : Node κ ν) :: unlink i w.chain, n.id = i' ∧ n.key = k' := by
    intro k' i' hm
    obtain ⟨n', hn'm, hn'i, hn'k⟩ := h.idx_in_chain k' i' (mem_unindex okey _ _ hm)
    have hne : i' ≠ i := hother _ hm
    exact ⟨n', List.mem_cons_of_mem _ ((mem_unlink i _ n').2 ⟨hn'm, by rw [hn'i]; exact hne⟩), hn'i, hn'k⟩
  have hids : (ids ((⟨i, k, v⟩ : Node κ ν) :: unlink i w.chain)).Nodup := by
    simp only [ids, List.map_cons, List.nodup_cons]
    exact ⟨not_mem_ids_unlink i _, ids_unlink_nd i _ h.ids_nd⟩
  have hlive : ∀ m ∈ (⟨i, k, v⟩ : Node κ ν) :: unlink i w.chain, m.id ∉ w.freed := by
    intro m hm
    simp only [List.mem_cons] at hm
    rcases hm with rfl | hm
    · have := h.live n0 hn0m; rw [hn0i] at this; exact this
    · exact h.live m ((mem_unlink i _ m).1 hm).1
  cases indexed with
  | false =>
    exact ⟨hids, unindex_keys_nd okey _ h.idx_keys_nd, unindex_ids_nd okey _ h.idx_ids_nd, base_in, hlive⟩
  | true =>
    refine ⟨hids, ?_, ?_, ?_, hlive⟩
    · simp only [if_true, List.map_cons, List.nodup_cons]
      refine ⟨?_, unindex_keys_nd okey _ h.idx_keys_nd⟩
      intro hc
      obtain ⟨e, he, hek⟩ := List.mem_map.1 hc
      exact hkn (List.mem_map.2 ⟨e, mem_unindex okey _ e he, hek⟩)
    · simp only [if_true, List.map_cons, List.nodup_cons]
      refine ⟨?_, unindex_ids_nd okey _ h.idx_ids_nd⟩
      intro hc
      obtain ⟨e, he, hei⟩ := List.mem_map.1 hc
      exact hother e he hei
    · intro k' i' hm
      simp only [if_true, List.mem_cons, Prod.mk.injEq] at hm
      rcases hm with ⟨rfl, rfl⟩ | hm
      · exact ⟨_, List.mem_cons_self, rfl, rfl⟩
      · exact base_in k' i' hm

theorem winv_fresh (w : W κ ν) (h : WInv w) (k : κ) (v : ν) (fresh : Nat) (indexed : Bool)
    (hk : lookup k w.index = none) (hf : fresh ∉ ids w.chain) :
    WInv { w with chain := (⟨fresh, k, v⟩ : Node κ ν) :: w.chain,
                  index := if indexed then (k, fresh) :: w.index else w.index,
                  freed := w.freed.filter (· ≠ fresh) } := by
  have hkn := (lookup_none_iff k _).1 hk
  have hids : (ids ((⟨fresh, k, v⟩ : Node κ ν) :: w.chain)).Nodup := by
    simp only [ids, List.map_cons, List.nodup_cons]; exact ⟨hf, h.ids_nd⟩
  have hin : ∀ k' i', (k', i') ∈ w.index → ∃ n ∈ (⟨fresh, k, v⟩ : Node κ ν) :: w.chain, n.id = i' ∧ n.key = k' := by
    intro k' i' hm
    obtain ⟨n, hnm, hni, hnk⟩ := h.idx_in_chain k' i' hm
    exact ⟨n, List.mem_cons_of_mem _ hnm, hni, hnk⟩
  have hlive : ∀ m ∈ (⟨fresh, k, v⟩ : Node κ ν) :: w.chain, m.id ∉ w.freed.filter (· ≠ fresh) := by
    intro m hm hc
    simp only [List.mem_filter, decide_eq_true_eq] at hc
    simp only [List.mem_cons] at hm
    rcases hm with rfl | hm
    · exact hc.2 rfl
    · exact h.live m hm hc.1
  cases indexed with
  | false => exact ⟨hids, h.idx_keys_nd, h.idx_ids_nd, hin, hlive⟩
  | true =>
    refine ⟨hids, ?_, ?_, ?_, hlive⟩
    · simp only [if_true, List.map_cons, List.nodup_cons]; exact ⟨hkn, h.idx_keys_nd⟩
    · simp only [if_true, List.map_cons, List.nodup_cons]
      refine ⟨?_, h.idx_ids_nd⟩
      intro hc
      obtain ⟨e, he, hei⟩ := List.mem_map.1 hc
      obtain ⟨n, hnm, hni, _⟩ := h.idx_in_chain e.1 e.2 he
      exact hf (List.mem_map.2 ⟨n, hnm, by rw [hni, hei]⟩)
    · intro k' i' hm
      simp only [if_true, List.mem_cons, Prod.mk.injEq] at hm
      rcases hm with ⟨rfl, rfl⟩ | hm
      · exact ⟨_, List.mem_cons_self, rfl, rfl⟩
      · exact hin k' i' hm

theorem winv_unlinked (w : W κ ν) (h : WInv w) (k : κ) (i : Nat) (hl : lookup k w.index = some i) :
    WInv { w with chain := unlink i w.chain, index := unindex k w.index, freed := i :: w.freed } := by
  have hmem := lookup_mem k _ i hl
  refine ⟨ids_unlink_nd i _ h.ids_nd, unindex_keys_nd k _ h.idx_keys_nd, unindex_ids_nd k _ h.idx_ids_nd, ?_, ?_⟩
  · intro k' i' hm
    obtain ⟨n', hn'm, hn'i, hn'k⟩ := h.idx_in_chain k' i' (mem_unindex k _ _ hm)
    have hne : i' ≠ i := by
      intro hc
      have := idx_id_unique _ h.idx_ids_nd (k', i') (k, i) (mem_unindex k _ _ hm) hmem hc
      exact mem_unindex_ne k _ h.idx_keys_nd _ hm (by rw [this])
    exact ⟨n', (mem_unlink i _ n').2 ⟨hn'm, by rw [hn'i]; exact hne⟩, hn'i, hn'k⟩
  · intro m hm hc
    have := (mem_unlink i _ m).1 hm
    simp only [List.mem_cons] at hc
    rcases hc with hc | hc
    · exact this.2 hc
    · exact h.live m this.1 hc

end M.Abort
