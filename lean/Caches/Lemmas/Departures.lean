/- C15 support: with a callback installed, the callback log of an operation is *exactly* the set of entries that
   left the cache during it — each once, with its current value — for every operation that can make entries leave. -/
import Caches.Lemmas.PutTruth
import Caches.Lemmas.Reach
set_option linter.unusedSectionVars false
set_option linter.unusedVariables false
namespace M
variable {κ ν : Type} [DecidableEq κ]
namespace RawLru

/-- `cbs` lists exactly the entries of `items` whose key is no longer in `items'`, without repetition -/
def Departures (items items' cbs : AL κ ν) : Prop :=
  (keys cbs).Nodup ∧ ∀ e, e ∈ cbs ↔ e ∈ items ∧ e.1 ∉ keys items'

theorem departures_nil (items items' : AL κ ν) (h : ∀ e, e ∈ items → e.1 ∈ keys items') : Departures items items' [] :=
  ⟨List.nodup_nil, fun e => ⟨fun he => by simp at he, fun he => absurd (h e he.1) he.2⟩⟩

theorem put_departures (c c' : RawLru κ ν) (k : κ) (v : ν) (r : PutResult κ ν) (e : Eff κ ν) (h : c.Inv)
    (hcb : c.hasCb = true) (hp : c.put k v = .ok (c', r, e)) : Departures c.items c'.items e.cbs := by
  obtain ⟨er, ab, sp, lk, fm, un, nil⟩ := facts2 k c.items h.nd
  unfold RawLru.put at hp
  cases hf : find k c.items with
  | some old =>
    simp only [hf] at hp; injection hp with hp; injection hp with h1 hp; injection hp with h2 h3
    subst h1; subst h3
    refine departures_nil _ _ ?_
    intro x hx
    by_cases hxk : x.1 = k
    · simp [use, hxk]
    · simp only [use, keys_cons, List.mem_cons]; right
      exact mem_keys_of_mem x _ ((er x).2 ⟨hx, hxk⟩)
  | none =>
    simp only [hf] at hp
    by_cases h0 : c.cap = 0
    · simp only [h0, if_true] at hp; injection hp with hp; injection hp with h1 hp; injection hp with h2 h3
      subst h1; subst h3
      exact departures_nil _ _ (fun x hx => mem_keys_of_mem x _ hx)
    · simp only [h0, if_false] at hp
      by_cases hfull : c.items.length = c.cap
      · simp only [hfull, if_true] at hp
        cases hl : c.items.getLast? with
        | none => simp [hl] at hp
        | some lru =>
          simp only [hl] at hp; injection hp with hp; injection hp with h1 hp; injection hp with h2 h3
          subst h1; subst h3
          simp only [RawLru.cbOf, hcb, if_true]
          have hlm := mem_getLast? _ _ hl
          have hlk : lru.1 ≠ k := ab hf lru hlm
          refine ⟨by simp, fun x => ?_⟩
          simp only [List.mem_cons, List.mem_nil_iff, or_false, keys_cons, not_or]
          constructor
          · rintro rfl
            refine ⟨hlm, hlk, fun hc => ?_⟩
            unfold keys at hc; obtain ⟨y, hy, hye⟩ := List.mem_map.1 hc
            exact lk x hl y hy hye
          · rintro ⟨hx, hxk, hxd⟩
            rcases (sp lru hl x).1 hx with h1 | h1
            · exact absurd (mem_keys_of_mem x _ h1) hxd
            · exact h1
      · simp only [hfull, if_false] at hp; injection hp with hp; injection hp with h1 hp; injection hp with h2 h3
        subst h1; subst h3
        refine departures_nil _ _ (fun x hx => ?_)
        simp only [keys_cons, List.mem_cons]; right; exact mem_keys_of_mem x _ hx

theorem remove_departures (c : RawLru κ ν) (k : κ) (h : c.Inv) (hcb : c.hasCb = true) :
    Departures c.items (c.remove k).1.items (c.remove k).2.2.cbs := by
  obtain ⟨er, ab, sp, lk, fm, un, nil⟩ := facts2 k c.items h.nd
  unfold RawLru.remove
  cases hf : find k c.items with
  | none => exact departures_nil _ _ (fun x hx => mem_keys_of_mem x _ hx)
  | some v =>
    simp only [RawLru.cbOf, hcb, if_true]
    have hm := fm v hf
    refine ⟨by simp, fun x => ?_⟩
    simp only [List.mem_singleton]
    constructor
    · rintro rfl
      exact ⟨hm, fun hc => by
        unfold keys at hc; obtain ⟨y, hy, hye⟩ := List.mem_map.1 hc
        exact ((er y).1 hy).2 hye⟩
    · rintro ⟨hx, hxd⟩
      by_cases hxk : x.1 = k
      · exact un x (k, v) hx hm hxk
      · exact absurd (mem_keys_of_mem x _ ((er x).2 ⟨hx, hxk⟩)) hxd

theorem removeLru_departures (c : RawLru κ ν) (h : c.Inv) (hcb : c.hasCb = true) :
    Departures c.items c.removeLru.1.items c.removeLru.2.2.cbs := by
  unfold RawLru.removeLru RawLru.removeLruIn
  cases hl : c.items.getLast? with
  | none => exact departures_nil _ _ (fun x hx => mem_keys_of_mem x _ hx)
  | some lru =>
    simp only [RawLru.cbOf, hcb, if_true]
    have hlm := mem_getLast? _ _ hl
    refine ⟨by simp, fun x => ?_⟩
    simp only [List.mem_singleton]
    constructor
    · rintro rfl
      refine ⟨hlm, fun hc => ?_⟩
      unfold keys at hc; obtain ⟨y, hy, hye⟩ := List.mem_map.1 hc
      exact last_key_not_in_dropLast _ x hl h.nd y hy hye
    · rintro ⟨hx, hxd⟩
      rcases (mem_split_last _ lru x hl).1 hx with h1 | h1
      · exact absurd (mem_keys_of_mem x _ h1) hxd
      · exact h1

theorem nodup_reverse_keys (l : AL κ ν) (h : (keys l).Nodup) : (keys l.reverse).Nodup := by
  unfold keys at *; rw [List.map_reverse]
  unfold List.Nodup at *
  rw [List.pairwise_reverse]
  exact h.imp (fun hab => fun hc => hab hc.symm)

theorem purge_departures (c : RawLru κ ν) (h : c.Inv) (hcb : c.hasCb = true) :
    ∃ c' e, c.purge = .ok (c', e) ∧ Departures c.items c'.items e.cbs ∧ e.cbs = c.items.reverse := by
  refine ⟨_, _, purge_spec c, ?_, by simp [goneEff, hcb]⟩
  simp only [goneEff, hcb, if_true]
  exact ⟨nodup_reverse_keys _ h.nd, fun x => by simp⟩

theorem resize_departures (c : RawLru κ ν) (n : Nat) (h : c.Inv) (hcb : c.hasCb = true) :
    ∃ c' ev e, c.resize n = .ok (c', ev, e) ∧ Departures c.items c'.items e.cbs := by
  by_cases hne : n = c.cap
  · subst hne
    exact ⟨_, _, _, resize_same c, departures_nil _ _ (fun x hx => mem_keys_of_mem x _ hx)⟩
  · refine ⟨_, _, _, resize_spec c n hne, ?_⟩
    simp only [goneEff, hcb, if_true]
    have hsplit : c.items = c.items.take n ++ c.items.drop n := (List.take_append_drop n c.items).symm
    have hnd := h.nd
    rw [hsplit, keys_append] at hnd
    have hnd' := List.nodup_append.1 hnd
    refine ⟨nodup_reverse_keys _ hnd'.2.1, fun x => ?_⟩
    simp only [List.mem_reverse]
    constructor
    · intro hx
      refine ⟨List.mem_of_mem_drop hx, fun hc => ?_⟩
      exact hnd'.2.2 x.1 hc x.1 (mem_keys_of_mem x _ hx) rfl
    · rintro ⟨hx, hxd⟩
      rw [hsplit] at hx
      rcases List.mem_append.1 hx with h1 | h1
      · exact absurd (mem_keys_of_mem x _ h1) hxd
      · exact h1

/-- no operation installs or removes the callback -/
theorem step_hasCb (c c' : RawLru κ ν) (o : RawOp κ ν) (h : c.Inv) (hs : c.step o = .ok c') : c'.hasCb = c.hasCb := by
  cases o with
  | put k v =>
    obtain ⟨c1, r, e, hp, _, _, hcb⟩ := put_total_inv c k v h
    simp only [RawLru.step, hp] at hs; injection hs with hs; subst hs; exact hcb
  | get k => simp only [RawLru.step] at hs; injection hs with hs; subst hs; unfold RawLru.get; split <;> rfl
  | getMut k w => simp only [RawLru.step] at hs; injection hs with hs; subst hs; unfold RawLru.getMut; split <;> rfl
  | peekMut k w => simp only [RawLru.step] at hs; injection hs with hs; subst hs; unfold RawLru.peekMut; split <;> rfl
  | remove k => simp only [RawLru.step] at hs; injection hs with hs; subst hs; unfold RawLru.remove; split <;> rfl
  | purge => simp only [RawLru.step, purge_spec] at hs; injection hs with hs; subst hs; rfl
  | resize n =>
    simp only [RawLru.step] at hs
    by_cases hne : n = c.cap
    · subst hne; simp only [resize_same] at hs; injection hs with hs; subst hs; rfl
    · simp only [resize_spec c n hne] at hs; injection hs with hs; subst hs; rfl
  | getLru => simp only [RawLru.step] at hs; injection hs with hs; subst hs; unfold RawLru.getLru; split <;> rfl
  | getLruMut w => simp only [RawLru.step] at hs; injection hs with hs; subst hs; unfold RawLru.getLruMut; split <;> rfl
  | getMruMut w => simp only [RawLru.step] at hs; injection hs with hs; subst hs; unfold RawLru.getMruMut; split <;> rfl
  | peekLruMut w => simp only [RawLru.step] at hs; injection hs with hs; subst hs; unfold RawLru.peekLruMut; split <;> rfl
  | peekMruMut w =>
    simp only [RawLru.step] at hs; injection hs with hs; subst hs; unfold RawLru.peekMruMut RawLru.getMruMut; split <;> rfl
  | removeLru =>
    simp only [RawLru.step] at hs; injection hs with hs; subst hs
    unfold RawLru.removeLru RawLru.removeLruIn; cases c.items.getLast? <;> rfl
  | peekOrPut k v =>
    simp only [RawLru.step] at hs; unfold RawLru.peekOrPut at hs
    cases hf : find k c.items with
    | some cur => simp only [hf] at hs; injection hs with hs; subst hs; rfl
    | none =>
      obtain ⟨c1, r, e, hp, _, _, hcb⟩ := put_total_inv c k v h
      simp only [hf, hp] at hs; injection hs with hs; subst hs; exact hcb
  | containsOrPut k v =>
    simp only [RawLru.step] at hs; unfold RawLru.containsOrPut at hs
    cases hf : find k c.items with
    | some cur => simp only [hf, Option.isSome_some, if_true] at hs; injection hs with hs; subst hs; rfl
    | none =>
      obtain ⟨c1, r, e, hp, _, _, hcb⟩ := put_total_inv c k v h
      simp only [hf, hp] at hs; simp at hs; subst hs; exact hcb
  | peekMutOrPut k v w =>
    simp only [RawLru.step] at hs; unfold RawLru.peekMutOrPut at hs
    cases hf : find k c.items with
    | some cur => simp only [hf] at hs; injection hs with hs; subst hs; cases w <;> rfl
    | none =>
      obtain ⟨c1, r, e, hp, _, _, hcb⟩ := put_total_inv c k v h
      simp only [hf, hp] at hs; injection hs with hs; subst hs; exact hcb
  | clone => simp only [RawLru.step, clone_eq c h] at hs; injection hs with hs; subst hs; rfl
  | read => simp only [RawLru.step] at hs; injection hs with hs; subst hs; rfl

end RawLru
end M
