/- The coherence framework (C02): a ghost "truth" map `κ → Option ν` is updated from what each operation
   *declares* (the entry it writes, the keys whose old value it invalidates); `Coh` says every entry the cache
   holds carries the true value. One generic step lemma and one generic induction over histories; each cache
   only has to supply, per operation, where its entries can come from. -/
import Caches.Model.Api
import Caches.Lemmas.Entries
namespace M
variable {κ ν : Type} [DecidableEq κ]

/-- what one operation declares: the entry it stores (if any) and the keys whose previous value it invalidates
    (the written key, a removed key, every key for `purge`) -/
structure Decl (κ ν : Type) where
  wr : Option (κ × ν)
  kills : κ → Bool

def Decl.none : Decl κ ν := { wr := Option.none, kills := fun _ => false }

/-- the truth after the operation: the written value, nothing for an invalidated key, unchanged otherwise -/
def Decl.upd (d : Decl κ ν) (t : κ → Option ν) : κ → Option ν := fun x =>
  match d.wr with
  | some (k, v) => if x = k then some v else if d.kills x then Option.none else t x
  | Option.none => if d.kills x then Option.none else t x

/-- every entry held carries the value most recently stored for its key -/
def Coh (ents : AL κ ν) (t : κ → Option ν) : Prop := ∀ k v, (k, v) ∈ ents → t k = some v

/-- the three facts an operation owes: it invalidates the key it writes; every entry afterwards was there before
    or is the written one; an entry whose key was invalidated is the written one -/
structure Owes (d : Decl κ ν) (ents ents' : AL κ ν) : Prop where
  wk : ∀ k v, d.wr = some (k, v) → d.kills k = true
  from_ : ∀ e ∈ ents', e ∈ ents ∨ d.wr = some e
  fresh : ∀ e ∈ ents', d.kills e.1 = true → d.wr = some e

theorem coh_step (ents ents' : AL κ ν) (t : κ → Option ν) (d : Decl κ ν) (ho : Owes d ents ents')
    (hc : Coh ents t) : Coh ents' (d.upd t) := by
  intro k v hm
  unfold Decl.upd
  by_cases hk : d.kills k = true
  · have := ho.fresh (k, v) hm hk
    simp [this]
  · rcases ho.from_ (k, v) hm with h1 | h1
    · have ht := hc k v h1
      cases hw : d.wr with
      | none => simp [hk, ht]
      | some e =>
        obtain ⟨k', v'⟩ := e
        have hne : k ≠ k' := by
          intro hc'; subst hc'; exact hk (ho.wk k v' hw)
        simp [hne, hk, ht]
    · simp [h1]

theorem owes_none (ents ents' : AL κ ν) (h : ∀ e ∈ ents', e ∈ ents) : Owes (Decl.none : Decl κ ν) ents ents' :=
  ⟨by intro k v hc; simp [Decl.none] at hc, fun e he => Or.inl (h e he), by intro e _ hc; simp [Decl.none] at hc⟩

/-- run a history together with the ghost truth -/
def runTruth {σ ω : Type} (step : σ → ω → Res σ) (decl : σ → ω → Decl κ ν) :
    σ → (κ → Option ν) → List ω → Res (σ × (κ → Option ν))
  | s, t, [] => .ok (s, t)
  | s, t, o :: rest =>
    match step s o with
    | .error f => .error f
    | .ok s' => runTruth step decl s' ((decl s o).upd t) rest

/-- coherence over every history: if each step is total, keeps the invariant and pays what it owes, then after any
    operation sequence every held entry carries the true value -/
theorem coherent_history {σ ω : Type} (step : σ → ω → Res σ) (decl : σ → ω → Decl κ ν) (I : σ → Prop)
    (ents : σ → AL κ ν)
    (hstep : ∀ s o, I s → ∃ s', step s o = .ok s' ∧ I s' ∧ Owes (decl s o) (ents s) (ents s'))
    (ops : List ω) (s : σ) (t : κ → Option ν) (hi : I s) (hc : Coh (ents s) t) :
    ∃ s' t', runTruth step decl s t ops = .ok (s', t') ∧ runOps step s ops = .ok s' ∧ I s' ∧ Coh (ents s') t' := by
  induction ops generalizing s t with
  | nil => exact ⟨s, t, rfl, rfl, hi, hc⟩
  | cons o rest ih =>
    obtain ⟨s1, h1, hi1, ho⟩ := hstep s o hi
    obtain ⟨s2, t2, hr, hr2, hi2, hc2⟩ := ih s1 ((decl s o).upd t) hi1 (coh_step _ _ t _ ho hc)
    exact ⟨s2, t2, by simp only [runTruth, h1, hr], by simp only [runOps, h1, hr2], hi2, hc2⟩

end M
