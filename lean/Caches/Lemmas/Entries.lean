/- Membership view of association lists: which (key, value) pairs a list holds, through every list surgery
   the specs use. These lemmas carry the coherence (C02), PutResult (C12) and conservation (C04) theorems. -/
import Caches.Lemmas.Assoc
namespace M
variable {κ ν : Type} [DecidableEq κ]

theorem mem_keys_of_mem (e : κ × ν) (l : AL κ ν) (h : e ∈ l) : e.1 ∈ keys l := by
  unfold keys; exact List.mem_map.2 ⟨e, h, rfl⟩

theorem mem_erase_sub (e : κ × ν) (k : κ) (l : AL κ ν) (h : e ∈ erase k l) : e ∈ l := by
  fun_induction erase k l <;> grind

theorem mem_erase_iff (e : κ × ν) (k : κ) (l : AL κ ν) (nd : (keys l).Nodup) :
    e ∈ erase k l ↔ e ∈ l ∧ e.1 ≠ k := by
  fun_induction erase k l <;> grind [keys, mem_keys_of_mem]

theorem find_iff_mem (k : κ) (v : ν) (l : AL κ ν) (nd : (keys l).Nodup) : find k l = some v ↔ (k, v) ∈ l := by
  fun_induction find k l <;> grind [keys, mem_keys_of_mem]

theorem mem_getLast? {α} (l : List α) (x : α) (h : l.getLast? = some x) : x ∈ l :=
  List.mem_of_getLast? h

theorem mem_split_last {α} (l : List α) (x e : α) (h : l.getLast? = some x) : e ∈ l ↔ e ∈ l.dropLast ∨ e = x := by
  have hne : l ≠ [] := by intro hc; simp [hc] at h
  have h2 := List.getLast?_eq_some_getLast hne
  rw [h] at h2
  have hs := List.dropLast_concat_getLast hne
  rw [← Option.some.inj h2] at hs
  conv => lhs; rw [← hs]
  simp

theorem last_key_not_in_dropLast (l : AL κ ν) (x : κ × ν) (h : l.getLast? = some x) (nd : (keys l).Nodup) :
    ∀ e ∈ l.dropLast, e.1 ≠ x.1 := by
  intro e he hc
  have := getLast_not_mem_dropLast (keys l) x.1 nd (keys_getLast? l x h)
  rw [← keys_dropLast] at this
  exact this (hc ▸ mem_keys_of_mem e _ he)

end M
