/-
  Vocabulary of the C19 table (regenerated from rustdoc JSON): method signatures with the origin of
  every lifetime in the return type, and `Send`/`Sync` impls with their bounds.
  `tied` is Rust's lifetime-elision discipline as a function; `boundsSufficient` the auto-trait rules.
-/
namespace M.Api19

inductive Recv | none | ref | refMut | value
deriving Repr, DecidableEq

/-- the public types of the table (`refTo` / `refMutTo`: `IntoIterator for &T` / `&mut T`) -/
inductive Ty
  | RawLRU | SegmentedCache | TwoQueueCache | AdaptiveCache | WTinyLFUCache
  | MRUIter | LRUIter | MRUIterMut | LRUIterMut | KeysMRUIter | KeysLRUIter
  | ValuesMRUIter | ValuesLRUIter | ValuesMRUIterMut | ValuesLRUIterMut
  | refRawLRU | refMutRawLRU
deriving Repr, DecidableEq

/-- role of a type parameter in a `Send`/`Sync` impl -/
inductive Param | key | val | other
deriving Repr, DecidableEq

/-- where a lifetime in the return type comes from -/
inductive Origin
  | elided      -- omitted: by the elision rules it is the receiver's borrow
  | recv        -- spelled out and equal to the receiver's named lifetime
  | selfParam   -- a lifetime parameter of the `Self` type (iterators: `MRUIter<'a, K, V>`)
  | fnParam     -- a lifetime parameter declared on the function: the caller may pick ANY lifetime
  | static
deriving Repr, DecidableEq

structure Sig where
  ty : Ty
  trait : String
  method : String
  recv : Recv
  outs : List Origin
  selfSealed : Bool     -- the Self type has only private fields (can only be obtained through constructors)
  exclOut : Bool := false   -- the result gives exclusive access: it contains a `&mut`, or is one of the `*IterMut` types
deriving Repr

/-- a single output lifetime is bound to the borrow of the cache -/
def Origin.tiedTo (o : Origin) (recv : Recv) (selfSealed : Bool) : Bool :=
  match o with
  | .elided => recv = .ref || recv = .refMut
  | .recv => recv = .ref || recv = .refMut
  | .selfParam => selfSealed          -- carried by the value itself, which came from a tied constructor
  | .fnParam => false
  | .static => false

/-- exclusive access may only be handed out against an exclusive borrow: `&mut self`, or `self` where `Self = &mut RawLRU`
    (`IntoIterator for &mut RawLRU`). A `&self` method returning `&mut V` would let safe code hold two live `&mut V`. -/
def exclOk (s : Sig) : Bool :=
  !s.exclOut || s.recv = .refMut || (s.recv = .value && s.ty = .refMutRawLRU)

/-- every lifetime handed out is tied to the receiver's borrow (or carried by a sealed borrowed handle), and exclusive
    access only comes out of an exclusive borrow -/
def tied (s : Sig) : Bool := s.outs.all (fun o => o.tiedTo s.recv s.selfSealed) && exclOk s

inductive Marker | send | sync
deriving Repr, DecidableEq

inductive Kind
  | owner        -- owns its keys, values, callback and hashers (the caches)
  | sharedIter   -- hands out `&K`, `&V`
  | mutIter      -- hands out `&K`, `&mut V`
deriving Repr, DecidableEq

structure MarkerImpl where
  ty : Ty
  kind : Kind
  marker : Marker
  synthetic : Bool
  bounds : List (Param × List Marker)
deriving Repr

/-- what the definitional auto-trait rules demand of a type parameter:
    owner: `T: Send ⇐ X: Send`, `T: Sync ⇐ X: Sync`;
    `&X: Send ⇔ X: Sync`, `&X: Sync ⇔ X: Sync`; `&mut X: Send ⇔ X: Send`, `&mut X: Sync ⇔ X: Sync` -/
def required (k : Kind) (m : Marker) (param : Param) : Marker :=
  match k, m with
  | .owner, .send => .send
  | .owner, .sync => .sync
  | .sharedIter, _ => .sync
  | .mutIter, .sync => .sync
  | .mutIter, .send => if param = .val then .send else .sync

def boundsSufficient (i : MarkerImpl) : Bool :=
  i.bounds.all (fun pb => pb.2.contains (required i.kind i.marker pb.1)) && !i.bounds.isEmpty

end M.Api19
