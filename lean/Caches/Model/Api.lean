/-
  The public API of each cache as an operation language, and `step` / `run` over it.
  A history is a list of operations; "every reachable state" = the result of `run` from a constructed cache.
  Read-only entry points (`peek`, `contains`, `len`, `cap`, `is_empty`, `peek_lru`, `peek_mru`, `get_mru`, iterators,
  `Debug`, per-segment lengths and peeks) are pure functions of the state in the model; they appear here as `read`.
  Writes through a returned `&mut V` are the `w : Option ν` arguments.
-/
import Caches.Model.RawLru
import Caches.Model.Slru
import Caches.Model.TwoQ
import Caches.Model.Arc
import Caches.Model.WTinyLfu
namespace M
variable {κ ν : Type} [DecidableEq κ]

inductive RawOp (κ ν : Type) where
  | put (k : κ) (v : ν) | get (k : κ) | getMut (k : κ) (w : Option ν) | peekMut (k : κ) (w : Option ν)
  | remove (k : κ) | purge | resize (n : Nat) | getLru | getLruMut (w : Option ν) | getMruMut (w : Option ν)
  | peekLruMut (w : Option ν) | peekMruMut (w : Option ν) | removeLru
  | peekOrPut (k : κ) (v : ν) | peekMutOrPut (k : κ) (v : ν) (w : Option ν) | containsOrPut (k : κ) (v : ν)
  | clone | read

def RawLru.step (c : RawLru κ ν) : RawOp κ ν → Res (RawLru κ ν)
  | .put k v => match c.put k v with | .error f => .error f | .ok (c', _, _) => .ok c'
  | .get k => .ok (c.get k).1
  | .getMut k w => .ok (c.getMut k w).1
  | .peekMut k w => .ok (c.peekMut k w).1
  | .remove k => .ok (c.remove k).1
  | .purge => match c.purge with | .error f => .error f | .ok (c', _) => .ok c'
  | .resize n => match c.resize n with | .error f => .error f | .ok (c', _, _) => .ok c'
  | .getLru => .ok c.getLru.1
  | .getLruMut w => .ok (c.getLruMut w).1
  | .getMruMut w => .ok (c.getMruMut w).1
  | .peekLruMut w => .ok (c.peekLruMut w).1
  | .peekMruMut w => .ok (c.peekMruMut w).1
  | .removeLru => .ok c.removeLru.1
  | .peekOrPut k v => match c.peekOrPut k v with | .error f => .error f | .ok (c', _, _, _) => .ok c'
  | .peekMutOrPut k v w => match c.peekMutOrPut k v w with | .error f => .error f | .ok (c', _, _, _) => .ok c'
  | .containsOrPut k v => match c.containsOrPut k v with | .error f => .error f | .ok (c', _, _, _) => .ok c'
  | .clone => c.cloneImpl
  | .read => .ok c

inductive SlruOp (κ ν : Type) where
  | put (k : κ) (v : ν) | putProtected (k : κ) (v : ν) | getMut (k : κ) (w : Option ν) | peekMut (k : κ) (w : Option ν)
  | remove (k : κ) | purge | removeLruProb | removeLruProt | clone | read

def Slru.step (s : Slru κ ν) : SlruOp κ ν → Res (Slru κ ν)
  | .put k v => match s.put k v with | .error f => .error f | .ok (_, s', _) => .ok s'
  | .putProtected k v => match s.putProtected k v with | .error f => .error f | .ok (_, s', _) => .ok s'
  | .getMut k w => match s.getMut k w with | .error f => .error f | .ok (_, s') => .ok s'
  | .peekMut k w => .ok (s.peekMut k w).1
  | .remove k => .ok (s.remove k).1
  | .purge => match s.purge with | .error f => .error f | .ok (s', _) => .ok s'
  | .removeLruProb => .ok s.removeLruFromProbationary.1
  | .removeLruProt => .ok s.removeLruFromProtected.1
  | .clone => s.cloneImpl
  | .read => .ok s

inductive CacheOp (κ ν : Type) where
  | put (k : κ) (v : ν) | getMut (k : κ) (w : Option ν) | peekMut (k : κ) (w : Option ν)
  | remove (k : κ) | purge | read

def TwoQ.step (q : TwoQ κ ν) : CacheOp κ ν → Res (TwoQ κ ν)
  | .put k v => match q.put k v with | .error f => .error f | .ok (_, q', _) => .ok q'
  | .getMut k w => match q.getMut k w with | .error f => .error f | .ok (_, q') => .ok q'
  | .peekMut k w => .ok (q.peekMut k w).1
  | .remove k => .ok (q.remove k).1
  | .purge => match q.purge with | .error f => .error f | .ok (q', _) => .ok q'
  | .read => .ok q

def Arc.step (a : Arc κ ν) : CacheOp κ ν → Res (Arc κ ν)
  | .put k v => match a.put k v with | .error f => .error f | .ok (_, a', _) => .ok a'
  | .getMut k w => match a.getMut k w with | .error f => .error f | .ok (_, a', _) => .ok a'
  | .peekMut k w => .ok (a.peekMut k w).1
  | .remove k => .ok (a.remove k).1
  | .purge => match a.purge with | .error f => .error f | .ok (a', _) => .ok a'
  | .read => .ok a

def WTinyLfu.step (kh : κ → UInt64) (c : WTinyLfu κ ν) : CacheOp κ ν → Res (WTinyLfu κ ν)
  | .put k v => match c.put kh k v with | .error f => .error f | .ok (_, c', _) => .ok c'
  | .getMut k w => match c.getMut kh k w with | .error f => .error f | .ok (_, c') => .ok c'
  | .peekMut k w => .ok (c.peekMut k w).1
  | .remove k => .ok (c.remove k).1
  | .purge => match c.purge with | .error f => .error f | .ok (c', _) => .ok c'
  | .read => .ok c

/-- run a history -/
def runOps {σ ω : Type} (step : σ → ω → Res σ) : σ → List ω → Res σ
  | s, [] => .ok s
  | s, o :: rest => match step s o with
    | .error f => .error f
    | .ok s' => runOps step s' rest

end M
