/-
  Model of the RawLRU iterators (raw.rs:1670-2093). An iterator is the triple
  `(len, ptr, end)`; node positions are indices into `head :: items ++ [tail]`
  (0 = head sentinel, 1..n = entries MRU→LRU, n+1 = tail sentinel).
  Reading a sentinel as an entry is a fault, not a default.
-/
import Caches.Model.RawLru
namespace M
variable {κ ν : Type}

structure Iter where
  len : Nat
  ptr : Nat      -- walks by `.next`
  endp : Nat     -- walks by `.prev`
deriving Repr, DecidableEq

namespace Iter

/-- `iter()`, `iter_lru()`, `iter_mut()`, `iter_lru_mut()`:
    `len = self.len()`, `ptr = (*head).next`, `end = (*tail).prev` -/
def start (items : AL κ ν) : Iter := { len := items.length, ptr := 1, endp := items.length }

/-- dereference a node position as an entry -/
def entryAt (items : AL κ ν) (pos : Nat) (site : String) : Res (κ × ν) :=
  if pos = 0 then .error (.sentinelRead site)
  else match items[pos - 1]? with
    | none => .error (.sentinelRead site)
    | some e => .ok e

/-- the `ptr` side: `MRUIter::next`, `LRUIter::next_back` -/
def stepPtr (it : Iter) (items : AL κ ν) : Res (Option (κ × ν) × Iter) :=
  if it.len = 0 then .ok (none, it)
  else match entryAt items it.ptr "iter ptr" with
    | .error f => .error f
    | .ok e => .ok (some e, { it with len := it.len - 1, ptr := it.ptr + 1 })

/-- the `end` side: `MRUIter::next_back`, `LRUIter::next`; `.prev` of the head sentinel is null -/
def stepEnd (it : Iter) (items : AL κ ν) : Res (Option (κ × ν) × Iter) :=
  if it.len = 0 then .ok (none, it)
  else match entryAt items it.endp "iter end" with
    | .error f => .error f
    | .ok e => .ok (some e, { it with len := it.len - 1, endp := it.endp - 1 })

/-- `lru = false`: MRU family (`next` = ptr side); `lru = true`: LRU family (`next` = end side) -/
def next (lru : Bool) (it : Iter) (items : AL κ ν) : Res (Option (κ × ν) × Iter) :=
  if lru then it.stepEnd items else it.stepPtr items
def nextBack (lru : Bool) (it : Iter) (items : AL κ ν) : Res (Option (κ × ν) × Iter) :=
  if lru then it.stepPtr items else it.stepEnd items

/-- run a script of `next` (`false`) / `next_back` (`true`) calls; collects `(yield, size_hint after)` -/
def run (lru : Bool) (items : AL κ ν) : List Bool → Iter → Res (List (Option (κ × ν) × Nat))
  | [], _ => .ok []
  | b :: t, it =>
    match (if b then nextBack lru it items else next lru it items) with
    | .error f => .error f
    | .ok (y, it') =>
      match run lru items t it' with
      | .error f => .error f
      | .ok ys => .ok ((y, it'.len) :: ys)

end Iter

/-- position-wise write of the `i`-th yielded entry of a mutable iterator: value := `wbase + i` -/
def writeYields [DecidableEq κ] (items : AL κ Nat) (wbase : Nat) :
    List (Option (κ × Nat) × Nat) → Nat → AL κ Nat
  | [], _ => items
  | (none, _) :: t, i => writeYields items wbase t (i + 1)
  | (some e, _) :: t, i => writeYields (setVal e.1 (wbase + i) items) wbase t (i + 1)

end M
