/-
  Model of the doorkeeper Bloom filter (src/lfu/tinylfu/bloom.rs).
  The sizing (`Bloom::new`: `ln`, `ceil` in `f64`) is not modelled: the parameters
  `sizeMask`, `setLocs`, `shift` and the number of words are read from the implementation
  and the theorems quantify over every parameter tuple satisfying `Bloom.WF`.
  Words are naturals `< 2^64`.
-/
import Caches.Model.Basic
namespace M

structure Bloom where
  bits : List Nat          -- `bitset: Vec<u64>`
  sizeMask : Nat           -- `size` field (= 2^exp - 1)
  setLocs : Nat
  shift : Nat              -- 64 - exp
deriving Repr

namespace Bloom

def clear (b : Bloom) : Bloom := { b with bits := b.bits.map (fun _ => 0) }

/-- `set(idx)`: `bitset[idx >> 6] |= 1 << (idx % 64)` -/
def set (b : Bloom) (idx : Nat) : Res Bloom :=
  match b.bits[idx >>> 6]? with
  | none => .error (.indexOOB "Bloom::set")
  | some w => .ok { b with bits := b.bits.set (idx >>> 6) (w ||| (1 <<< (idx % 64))) }

/-- `is_set(idx)` -/
def isSet (b : Bloom) (idx : Nat) : Res Bool :=
  match b.bits[idx >>> 6]? with
  | none => .error (.indexOOB "Bloom::is_set")
  | some w => .ok ((w &&& (1 <<< (idx % 64))) != 0)

/-- `h = hash >> shift`, `l = (hash << shift) >> shift` -/
def hl (b : Bloom) (hash : UInt64) : Nat × Nat :=
  let s := UInt64.ofNat b.shift
  ((hash >>> s).toNat, ((hash <<< s) >>> s).toNat)

/-- `(h + i * l) & size` in checked `u64` arithmetic -/
def index (b : Bloom) (h l i : Nat) : Res Nat :=
  if i * l ≥ 2 ^ 64 then .error (.overflow "Bloom i * l")
  else if h + i * l ≥ 2 ^ 64 then .error (.overflow "Bloom h + i * l")
  else .ok ((h + i * l) &&& b.sizeMask)

/-- `add`: `for i in 0..set_locs { set(index i) }` -/
def addLoop (h l : Nat) : Nat → Nat → Bloom → Res Bloom
  | 0, _, b => .ok b
  | n + 1, i, b =>
    match b.index h l i with
    | .error f => .error f
    | .ok idx =>
      match b.set idx with
      | .error f => .error f
      | .ok b' => addLoop h l n (i + 1) b'

def add (b : Bloom) (hash : UInt64) : Res Bloom :=
  let (h, l) := b.hl hash
  addLoop h l b.setLocs 0 b

/-- `contains`: all `set_locs` bits set (early exit on the first clear bit) -/
def containsLoop (b : Bloom) (h l : Nat) : Nat → Nat → Res Bool
  | 0, _ => .ok true
  | n + 1, i =>
    match b.index h l i with
    | .error f => .error f
    | .ok idx =>
      match b.isSet idx with
      | .error f => .error f
      | .ok false => .ok false
      | .ok true => containsLoop b h l n (i + 1)

def contains (b : Bloom) (hash : UInt64) : Res Bool :=
  let (h, l) := b.hl hash
  b.containsLoop h l b.setLocs 0

/-- `contains_or_add`: returns `true` when it *added* the hash -/
def containsOrAdd (b : Bloom) (hash : UInt64) : Res (Bool × Bloom) :=
  match b.contains hash with
  | .error f => .error f
  | .ok true => .ok (false, b)
  | .ok false =>
    match b.add hash with
    | .error f => .error f
    | .ok b' => .ok (true, b')

end Bloom
end M
