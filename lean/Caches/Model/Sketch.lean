/-
  Model of the 4-row count-min sketch with packed 4-bit counters
  (src/lfu/tinylfu/sketch.rs, sketch/count_min_row.rs, count_min_sketch_std.rs, count_min_sketch_core.rs).
  Bytes are naturals `< 256` (`Row.WF`); 64-bit hash arithmetic is done in `UInt64`.
-/
import Caches.Model.Basic
namespace M

/-! ### one byte = two counters -/
namespace Nib
/-- `(b >> shift) & 0x0f` with `shift = (i & 1) * 4` -/
def get (b : Nat) (odd : Bool) : Nat := (b >>> (if odd then 4 else 0)) &&& 0x0f
/-- `if v < 15 { b += 1 << shift }` -/
def inc (b : Nat) (odd : Bool) : Nat :=
  let shift := if odd then 4 else 0
  let v := (b >>> shift) &&& 0x0f
  if v < 15 then b + (1 <<< shift) else b
/-- `(b >> 1) & 0x77` -/
def halve (b : Nat) : Nat := (b >>> 1) &&& 0x77
end Nib

/-! ### `CountMinRow` -/
abbrev Row := List Nat

namespace Row
def new (width : Nat) : Row := List.replicate width 0

/-- `get(i)`: `(self[i / 2] >> ((i & 1) * 4)) & 0x0f`; slice index may be out of bounds -/
def get (r : Row) (i : Nat) : Res Nat :=
  match r[i / 2]? with
  | none => .error (.indexOOB "CountMinRow::get")
  | some b => .ok (Nib.get b (i % 2 == 1))

/-- `increment(i)` -/
def inc (r : Row) (i : Nat) : Res Row :=
  match r[i / 2]? with
  | none => .error (.indexOOB "CountMinRow::increment")
  | some b => .ok (r.set (i / 2) (Nib.inc b (i % 2 == 1)))

def reset (r : Row) : Row := r.map Nib.halve
def clear (r : Row) : Row := r.map (fun _ => 0)
end Row

/-! ### position functions -/

/-- how the counter position of row `i` is derived from a 64-bit key hash -/
inductive Scheme where
  | std (seeds : List UInt64)      -- `(hashed ^ seeds[i]) & mask`   (feature `std`, time-seeded)
  | core                           -- `(h +ʷ i *ʷ (h >> 32)) & mask` (no_std, repaired: wrapping)
deriving Repr

def Scheme.pos (s : Scheme) (mask : UInt64) (i : Nat) (h : UInt64) : Res Nat :=
  match s with
  | .std seeds =>
    match seeds[i]? with
    | none => .error (.indexOOB "CountMinSketch seeds")
    | some seed => .ok ((h ^^^ seed) &&& mask).toNat
  | .core => .ok ((h + (UInt64.ofNat i) * (h >>> 32)) &&& mask).toNat

/-- `next_power_of_2` (sketch.rs, repaired: all 64 bits are smeared; the final `+ 1` wraps); `num ≥ 1` -/
def nextPow2 (num : UInt64) : UInt64 :=
  let n := num - 1
  let n := n ||| (n >>> 1)
  let n := n ||| (n >>> 2)
  let n := n ||| (n >>> 4)
  let n := n ||| (n >>> 8)
  let n := n ||| (n >>> 16)
  let n := n ||| (n >>> 32)
  n + 1

structure Sketch where
  rows : List Row          -- DEPTH = 4 rows
  mask : UInt64
  scheme : Scheme
deriving Repr

namespace Sketch

/-- `CountMinSketch::new` (repaired: at least two counters per row so a row is never empty).
    `none` = `InvalidCountMinWidth`. -/
def new (ctrs : Nat) (scheme : Scheme) : Option Sketch :=
  if ctrs < 1 then none
  else
    let c := nextPow2 (UInt64.ofNat ctrs)
    let c := if c < 2 then 2 else c
    let h := (c / 2).toNat
    some { rows := [Row.new h, Row.new h, Row.new h, Row.new h], mask := c - 1, scheme := scheme }

/-- `increment`: every row's counter at its own position -/
def incRows (s : Sketch) (h : UInt64) : Nat → List Row → Res (List Row)
  | _, [] => .ok []
  | i, r :: t =>
    match s.scheme.pos s.mask i h with
    | .error f => .error f
    | .ok p =>
      match r.inc p with
      | .error f => .error f
      | .ok r' =>
        match incRows s h (i + 1) t with
        | .error f => .error f
        | .ok t' => .ok (r' :: t')

def increment (s : Sketch) (h : UInt64) : Res Sketch :=
  match s.incRows h 0 s.rows with
  | .error f => .error f
  | .ok rows => .ok { s with rows := rows }

/-- `estimate`: minimum over the rows, starting from `255u8` -/
def estRows (s : Sketch) (h : UInt64) : Nat → List Row → Nat → Res Nat
  | _, [], m => .ok m
  | i, r :: t, m =>
    match s.scheme.pos s.mask i h with
    | .error f => .error f
    | .ok p =>
      match r.get p with
      | .error f => .error f
      | .ok v => estRows s h (i + 1) t (if v < m then v else m)

def estimate (s : Sketch) (h : UInt64) : Res Nat := s.estRows h 0 s.rows 255

def reset (s : Sketch) : Sketch := { s with rows := s.rows.map Row.reset }
def clear (s : Sketch) : Sketch := { s with rows := s.rows.map Row.clear }

end Sketch
end M
