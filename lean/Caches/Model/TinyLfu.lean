/-
  Model of `TinyLFU` (src/lfu/tinylfu.rs): count-min sketch + Bloom doorkeeper + window counter.
  All operations take the already hashed key (`*_hashed_key` methods; the keyed methods only
  apply the `KeyHasher` first).
-/
import Caches.Model.Sketch
import Caches.Model.Bloom
namespace M

structure TinyLfu where
  sketch : Sketch
  door : Bloom
  samples : Nat
  w : Nat
deriving Repr

/-- executable well-formedness of the geometry (checked by the driver on every constructed estimator) -/
def Sketch.wfb (s : Sketch) : Bool :=
  s.rows.all (fun r => r.all (fun b => decide (b < 256)) && decide (s.mask.toNat / 2 < r.length)) &&
  (match s.scheme with | .std seeds => decide (s.rows.length ≤ seeds.length) | .core => true) &&
  !s.rows.isEmpty

def Bloom.wfb (b : Bloom) : Bool :=
  decide (b.shift < 64) && decide (b.sizeMask >>> 6 < b.bits.length) &&
  decide (b.setLocs * 2 ^ (64 - b.shift) + 2 ^ (64 - b.shift) ≤ 2 ^ 64) && decide (0 < b.setLocs)

namespace TinyLfu

def wfb (t : TinyLfu) : Bool := t.sketch.wfb && t.door.wfb

/-- `estimate_hashed_key`: sketch minimum, plus one if the doorkeeper holds the hash -/
def estimate (t : TinyLfu) (h : UInt64) : Res Nat :=
  match t.sketch.estimate h with
  | .error f => .error f
  | .ok hits =>
    match t.door.contains h with
    | .error f => .error f
    | .ok true => .ok (hits + 1)
    | .ok false => .ok hits

def contains (t : TinyLfu) (h : UInt64) : Res Bool := t.door.contains h

/-- `reset`: `w = 0`, doorkeeper cleared, counters halved -/
def reset (t : TinyLfu) : TinyLfu :=
  { t with w := 0, door := t.door.clear, sketch := t.sketch.reset }

/-- `try_reset`: `w += 1; if w >= samples { reset }` -/
def tryReset (t : TinyLfu) : TinyLfu :=
  let t' := { t with w := t.w + 1 }
  if t'.w ≥ t'.samples then t'.reset else t'

/-- `increment_hashed_key`: doorkeeper first, sketch only on a doorkeeper hit, then `try_reset` -/
def increment (t : TinyLfu) (h : UInt64) : Res TinyLfu :=
  match t.door.containsOrAdd h with
  | .error f => .error f
  | .ok (true, door') => .ok ({ t with door := door' }).tryReset
  | .ok (false, door') =>
    match t.sketch.increment h with
    | .error f => .error f
    | .ok sk' => .ok ({ t with door := door', sketch := sk' }).tryReset

def clear (t : TinyLfu) : TinyLfu :=
  { t with w := 0, door := t.door.clear, sketch := t.sketch.clear }

/-- `compare_helper` (repaired): the two estimates -/
def compareHelper (t : TinyLfu) (a b : UInt64) : Res (Nat × Nat) :=
  match t.estimate a with
  | .error f => .error f
  | .ok ea =>
    match t.estimate b with
    | .error f => .error f
    | .ok eb => .ok (ea, eb)

inductive Cmp | eq | le | lt | gt | ge
deriving Repr, DecidableEq

def Cmp.eval : Cmp → Nat → Nat → Bool
  | .eq, a, b => a == b
  | .le, a, b => decide (a ≤ b)
  | .lt, a, b => decide (a < b)
  | .gt, a, b => decide (a > b)
  | .ge, a, b => decide (a ≥ b)

def compare (t : TinyLfu) (c : Cmp) (a b : UInt64) : Res Bool :=
  match t.compareHelper a b with
  | .error f => .error f
  | .ok (ea, eb) => .ok (c.eval ea eb)

def lt (t : TinyLfu) (a b : UInt64) : Res Bool := t.compare .lt a b

end TinyLfu
end M
