/-
  Association lists: the abstract content of one intrusive recency list.
  Head of the list = most recently used (the node right after the `head`
  sentinel), last element = least recently used (the node before `tail`).
  Core Lean only (this file is linked into the compiled model driver).
-/
namespace M
variable {κ ν : Type} [DecidableEq κ]

abbrev AL (κ ν : Type) := List (κ × ν)

def keys (l : AL κ ν) : List κ := l.map Prod.fst

/-- hash-index lookup: the value stored under `k` -/
def find (k : κ) : AL κ ν → Option ν
  | [] => none
  | (k', v) :: t => if k' = k then some v else find k t

/-- unlink the node of `k` (index remove + `detach`) -/
def erase (k : κ) : AL κ ν → AL κ ν
  | [] => []
  | (k', v) :: t => if k' = k then t else (k', v) :: erase k t

/-- overwrite the value of `k` in place (a write through `&mut V`), order unchanged -/
def setVal (k : κ) (w : ν) : AL κ ν → AL κ ν
  | [] => []
  | (k', v) :: t => if k' = k then (k', w) :: t else (k', v) :: setVal k w t

/-- move-to-front on use, with the value stored afterwards -/
def use (k : κ) (v : ν) (l : AL κ ν) : AL κ ν := (k, v) :: erase k l

end M
