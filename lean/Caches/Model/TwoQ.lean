/-
  Layer A model of `TwoQueueCache` (src/lru/two_queue.rs).
  `recent` and `frequent` have capacity `size`, `ghost` has capacity `es ≥ 1`
  (ghost nodes keep their values); `rs` is the recent quota.
-/
import Caches.Model.RawLru
namespace M
variable {κ ν : Type} [DecidableEq κ]

structure TwoQ (κ ν : Type) where
  size : Nat
  rs : Nat
  recent : RawLru κ ν
  frequent : RawLru κ ν
  ghost : RawLru κ ν

/-- classification of an `f64` ratio as the validation code sees it -/
structure RatioClass where
  inUnit : Bool            -- `(0.0..=1.0).contains(&r)` (false for NaN)
deriving Repr, DecidableEq

inductive TwoQErr | invalidSize | invalidRecentRatio | invalidGhostRatio
deriving Repr, DecidableEq

namespace TwoQ

/-- `with_2q_parameters` / `TwoQueueCacheBuilder::finalize` (repaired: a ghost bound of 0 is
    `InvalidSize(0)` on both paths). `rs`/`es` are `floor(size·ratio)` computed in `f64` by the caller. -/
def new (size : Nat) (rr gr : RatioClass) (rs es : Nat) : Except TwoQErr (TwoQ κ ν) :=
  if size = 0 then .error .invalidSize
  else if !rr.inUnit then .error .invalidRecentRatio
  else if !gr.inUnit then .error .invalidGhostRatio
  else if es = 0 then .error .invalidSize
  else .ok { size := size, rs := rs,
             recent := { cap := size, items := [] },
             frequent := { cap := size, items := [] },
             ghost := { cap := es, items := [] } }

def len (q : TwoQ κ ν) : Nat := q.recent.items.length + q.frequent.items.length
def cap (q : TwoQ κ ν) : Nat := q.size
def isEmpty (q : TwoQ κ ν) : Bool := q.frequent.isEmpty && q.recent.isEmpty && q.ghost.isEmpty

/-- victim choice of `put` (repaired): recent's LRU if recent is over quota
    (`newKey`: at quota also counts), falling back to whichever queue is non-empty -/
def fromRecent (q : TwoQ κ ν) (rl fl : Nat) (newKey : Bool) : Bool :=
  decide (rl > 0) && ((if newKey then decide (rl ≥ q.rs) else decide (rl > q.rs)) || decide (fl = 0))

def takeVictim (q : TwoQ κ ν) (rl fl : Nat) (newKey : Bool) : Res ((κ × ν) × TwoQ κ ν) :=
  if q.fromRecent rl fl newKey then
    match q.recent.removeLruIn with
    | none => .error (.unwrapNone "2q victim recent")
    | some (e, r') => .ok (e, { q with recent := r' })
  else
    match q.frequent.removeLruIn with
    | none => .error (.unwrapNone "2q victim frequent")
    | some (e, f') => .ok (e, { q with frequent := f' })

/-- `Cache::put` (two_queue.rs:433), same case order -/
def put (q : TwoQ κ ν) (k : κ) (v : ν) : Res (PutResult κ ν × TwoQ κ ν × List (Obj κ ν)) :=
  match find k q.frequent.items with
  | some old => .ok (.update old, { q with frequent := q.frequent.update k v }, [.key k])
  | none =>
  match q.recent.removeEnt k with
  | some ((k', old), r') =>
    match q.frequent.putNonnull (k', v) with
    | .error f => .error f
    | .ok (res, f') => .ok (.update old, { q with recent := r', frequent := f' }, [.key k] ++ res.drops)
  | none =>
  let rl := q.recent.items.length
  let fl := q.frequent.items.length
  match find k q.ghost.items with
  | some old =>
    if rl + fl ≥ q.size then
      match q.takeVictim rl fl false with
      | .error f => .error f
      | .ok (vic, q1) =>
      match q1.ghost.putOrEvict vic with
      | .error f => .error f
      | .ok (rst, g1) =>
      match find k g1.items with
      | none =>
        -- the ghost list pushed out the very key being revived
        match rst with
        | none => .ok (.put, { q1 with ghost := g1 }, [.key k, .val v])
        | some gone =>
          match q1.frequent.putNonnull (gone.1, v) with
          | .error f => .error f
          | .ok (res, f') => .ok (.update gone.2, { q1 with ghost := g1, frequent := f' }, [.key k] ++ res.drops)
      | some _ =>
        let g2 := { g1 with items := erase k g1.items }
        match q1.frequent.putNonnull (k, v) with
        | .error f => .error f
        | .ok (res, f') =>
          match rst with
          | none => .ok (.update old, { q1 with ghost := g2, frequent := f' }, [.key k] ++ res.drops)
          | some ev => .ok (.evictedAndUpdate ev.1 ev.2 old, { q1 with ghost := g2, frequent := f' }, [.key k] ++ res.drops)
    else
      let g2 := { q.ghost with items := erase k q.ghost.items }
      match q.frequent.putNonnull (k, v) with
      | .error f => .error f
      | .ok (res, f') => .ok (.update old, { q with ghost := g2, frequent := f' }, [.key k] ++ res.drops)
  | none =>
    if fl + rl < q.size then
      match q.recent.putOrEvict (k, v) with
      | .error f => .error f
      | .ok (none, r') => .ok (.put, { q with recent := r' }, [])
      | .ok (some ev, r') =>
        match q.ghost.putNonnull ev with
        | .error f => .error f
        | .ok (res, g') => .ok (res, { q with recent := r', ghost := g' }, [])
    else
      match q.takeVictim rl fl true with
      | .error f => .error f
      | .ok (vic, q1) =>
      match q1.recent.putNonnull (k, v) with
      | .error f => .error f
      | .ok (res0, r') =>
      match q1.ghost.putNonnull vic with
      | .error f => .error f
      | .ok (res, g') => .ok (res, { q1 with recent := r', ghost := g' }, res0.drops)

/-- `move_to_frequent` (two_queue.rs:1579) -/
def moveToFrequent (q : TwoQ κ ν) (k : κ) (w : Option ν) : Res (Option ν × TwoQ κ ν) :=
  match q.recent.removeEnt k with
  | none => .ok (none, q)
  | some ((k', old), r') =>
    match q.frequent.putOrEvict (k', w.getD old) with
    | .error f => .error f
    | .ok (_, f') => .ok (some old, { q with recent := r', frequent := f' })

/-- `Cache::get` / `get_mut` (+ optional write) -/
def getMut (q : TwoQ κ ν) (k : κ) (w : Option ν) : Res (Option ν × TwoQ κ ν) :=
  match q.frequent.getMut k w with
  | (f', some v) => .ok (some v, { q with frequent := f' })
  | (_, none) =>
    match find k q.recent.items with
    | none => .ok (none, q)
    | some _ => q.moveToFrequent k w

def get (q : TwoQ κ ν) (k : κ) : Res (Option ν × TwoQ κ ν) := q.getMut k none

def peek (q : TwoQ κ ν) (k : κ) : Option ν :=
  match q.frequent.peek k with
  | some v => some v
  | none => q.recent.peek k

def peekMut (q : TwoQ κ ν) (k : κ) (w : Option ν) : TwoQ κ ν × Option ν :=
  match q.frequent.peekMut k w with
  | (f', some v) => ({ q with frequent := f' }, some v)
  | (_, none) =>
    match q.recent.peekMut k w with
    | (r', res) => ({ q with recent := r' }, res)

def contains (q : TwoQ κ ν) (k : κ) : Bool := q.frequent.contains k || q.recent.contains k

/-- `Cache::remove`: frequent, recent, then the ghost list (whose value is returned) -/
def remove (q : TwoQ κ ν) (k : κ) : TwoQ κ ν × Option ν × List (Obj κ ν) :=
  match q.frequent.remove k with
  | (f', some v, e) => ({ q with frequent := f' }, some v, e.drops)
  | (_, none, _) =>
    match q.recent.remove k with
    | (r', some v, e) => ({ q with recent := r' }, some v, e.drops)
    | (_, none, _) =>
      match q.ghost.remove k with
      | (g', res, e) => ({ q with ghost := g' }, res, e.drops)

def purge (q : TwoQ κ ν) : Res (TwoQ κ ν × List (Obj κ ν)) :=
  match q.frequent.purge with
  | .error f => .error f
  | .ok (f', e1) =>
    match q.recent.purge with
    | .error f => .error f
    | .ok (r', e2) =>
      match q.ghost.purge with
      | .error f => .error f
      | .ok (g', e3) => .ok ({ q with frequent := f', recent := r', ghost := g' }, e1.drops ++ e2.drops ++ e3.drops)

def dropCache (q : TwoQ κ ν) : List (Obj κ ν) :=
  q.recent.dropCache.drops ++ q.frequent.dropCache.drops ++ q.ghost.dropCache.drops

end TwoQ
end M
