/-
  Layer A model of `WTinyLFUCache` (src/lfu/wtinylfu.rs):
  window `LRUCache` + `SegmentedCache` main + `TinyLFU` estimator.
  `kh` is the `KeyHasher` (a parameter: the property holds for every key hasher).
-/
import Caches.Model.Slru
import Caches.Model.TinyLfu
namespace M
variable {κ ν : Type} [DecidableEq κ]

structure WTinyLfu (κ ν : Type) where
  est : TinyLfu
  window : RawLru κ ν
  main : Slru κ ν

namespace WTinyLfu

def len (c : WTinyLfu κ ν) : Nat := c.window.len + c.main.len
def cap (c : WTinyLfu κ ν) : Nat := c.window.cap + c.main.cap
def isEmpty (c : WTinyLfu κ ν) : Bool := c.window.isEmpty && c.main.isEmpty

/-- `if protected_len >= protected_cap { let ent = remove_lru_from_protected().unwrap(); self.lru.put(ent.0, ent.1); }` -/
def makeProtectedRoom (c1 : WTinyLfu κ ν) : Res (WTinyLfu κ ν × List (Obj κ ν)) :=
  if c1.main.prot.items.length ≥ c1.main.prot.cap then
    match c1.main.removeLruFromProtected with
    | (_, none) => .error (.unwrapNone "wtinylfu remove_lru_from_protected")
    | (m', some ent) =>
      match c1.window.put ent.1 ent.2 with
      | .error f => .error f
      | .ok (w'', r, e) => .ok ({ c1 with window := w'', main := m' }, e.drops ++ r.drops)
  else .ok (c1, [])

/-- `Cache::put` (wtinylfu.rs:502) -/
def put (c : WTinyLfu κ ν) (kh : κ → UInt64) (k : κ) (v : ν) :
    Res (PutResult κ ν × WTinyLfu κ ν × List (Obj κ ν)) :=
  match c.window.remove k with
  | (_, none, _) =>
    if c.main.contains k then
      match c.main.put k v with
      | .error f => .error f
      | .ok (r, m', d) => .ok (r, { c with main := m' }, d)
    else
      match c.window.put k v with
      | .error f => .error f
      | .ok (w', .put, e) => .ok (.put, { c with window := w' }, e.drops)
      | .ok (w', .update old, e) => .ok (.update old, { c with window := w' }, e.drops)
      | .ok (w', .evictedAndUpdate _ _ _, e) => .ok (.put, { c with window := w' }, e.drops)
      | .ok (w', .evicted ck cv, e) =>
        let c1 := { c with window := w' }
        if c1.main.len < c1.main.cap then
          match c1.main.put ck cv with
          | .error f => .error f
          | .ok (r, m', d) => .ok (r, { c1 with main := m' }, e.drops ++ d)
        else
          match c1.main.prob.peekLru with
          | none =>
            match c1.main.put ck cv with
            | .error f => .error f
            | .ok (r, m', d) => .ok (r, { c1 with main := m' }, e.drops ++ d)
          | some vic =>
            match c1.est.lt (kh ck) (kh vic.1) with
            | .error f => .error f
            | .ok true => .ok (.evicted ck cv, c1, e.drops)
            | .ok false =>
              match c1.main.put ck cv with
              | .error f => .error f
              | .ok (r, m', d) => .ok (r, { c1 with main := m' }, e.drops ++ d)
  | (w', some old, e0) =>
    match ({ c with window := w' } : WTinyLfu κ ν).makeProtectedRoom with
    | .error f => .error f
    | .ok (c2, d1) =>
      match c2.main.putProtected k v with
      | .error f => .error f
      | .ok (r, m', d2) => .ok (.update old, { c2 with main := m' }, e0.drops ++ d1 ++ d2 ++ r.drops)

/-- the estimator part of `get`/`get_mut`: `try_reset` then `increment` -/
def record (c : WTinyLfu κ ν) (h : UInt64) : Res (WTinyLfu κ ν) :=
  match c.est.tryReset.increment h with
  | .error f => .error f
  | .ok est' => .ok { c with est := est' }

/-- `Cache::get` / `get_mut` (+ optional write): record the access, then window, then main -/
def getMut (c : WTinyLfu κ ν) (kh : κ → UInt64) (k : κ) (w : Option ν) : Res (Option ν × WTinyLfu κ ν) :=
  match c.record (kh k) with
  | .error f => .error f
  | .ok c1 =>
    match c1.window.getMut k w with
    | (w', some v) => .ok (some v, { c1 with window := w' })
    | (_, none) =>
      match c1.main.getMut k w with
      | .error f => .error f
      | .ok (r, m') => .ok (r, { c1 with main := m' })

def get (c : WTinyLfu κ ν) (kh : κ → UInt64) (k : κ) : Res (Option ν × WTinyLfu κ ν) := c.getMut kh k none

def peek (c : WTinyLfu κ ν) (k : κ) : Option ν :=
  match c.window.peek k with
  | some v => some v
  | none => c.main.peek k

def peekMut (c : WTinyLfu κ ν) (k : κ) (w : Option ν) : WTinyLfu κ ν × Option ν :=
  match c.window.peekMut k w with
  | (w', some v) => ({ c with window := w' }, some v)
  | (_, none) =>
    match c.main.peekMut k w with
    | (m', r) => ({ c with main := m' }, r)

def contains (c : WTinyLfu κ ν) (k : κ) : Bool := c.window.contains k || c.main.contains k

def remove (c : WTinyLfu κ ν) (k : κ) : WTinyLfu κ ν × Option ν × List (Obj κ ν) :=
  match c.window.remove k with
  | (w', some v, e) => ({ c with window := w' }, some v, e.drops)
  | (_, none, _) =>
    match c.main.remove k with
    | (m', r, d) => ({ c with main := m' }, r, d)

def purge (c : WTinyLfu κ ν) : Res (WTinyLfu κ ν × List (Obj κ ν)) :=
  match c.window.purge with
  | .error f => .error f
  | .ok (w', e) =>
    match c.main.purge with
    | .error f => .error f
    | .ok (m', d) => .ok ({ est := c.est.clear, window := w', main := m' }, e.drops ++ d)

def cloneImpl (c : WTinyLfu κ ν) : Res (WTinyLfu κ ν) :=
  match c.window.cloneImpl with
  | .error f => .error f
  | .ok w' =>
    match c.main.cloneImpl with
    | .error f => .error f
    | .ok m' => .ok { est := c.est, window := w', main := m' }

def dropCache (c : WTinyLfu κ ν) : List (Obj κ ν) := c.window.dropCache.drops ++ c.main.dropCache

end WTinyLfu
end M
