/-
  Shared vocabulary of the model: faults (what a Rust panic / UB site becomes),
  `PutResult`, and the side effects of one public call.
-/
import Caches.Model.Assoc
namespace M
variable {κ ν : Type}

/-- A point where the Rust code would panic or read memory it must not read.
    Nothing in the model is totalised: every `unwrap()`, every read of a
    sentinel's (uninitialised) key, every slice index and every checked
    arithmetic operation yields one of these instead of a default value. -/
inductive Fault where
  | unwrapNone (site : String)
  | sentinelRead (site : String)
  | indexOOB (site : String)
  | overflow (site : String)
  | diverge (site : String)      -- a loop that would never terminate
deriving Repr, DecidableEq

abbrev Res (α : Type) := Except Fault α

inductive PutResult (κ ν : Type) where
  | put
  | update (old : ν)
  | evicted (k : κ) (v : ν)
  | evictedAndUpdate (k : κ) (v : ν) (old : ν)
deriving DecidableEq, Repr

/-- the hand-written `PartialEq` of `PutResult` (lib.rs), branch by branch, over the payloads' own `==` -/
def PutResult.peq {κ ν : Type} (eqk : κ → κ → Bool) (eqv : ν → ν → Bool) : PutResult κ ν → PutResult κ ν → Bool
  | .put, .put => true
  | .put, _ => false
  | .update a, .update b => eqv b a
  | .update _, _ => false
  | .evicted k v, .evicted k' v' => eqk k k' && eqv v v'
  | .evicted _ _, _ => false
  | .evictedAndUpdate k v o, .evictedAndUpdate k' v' o' => eqk k k' && eqv v v' && eqv o o'
  | .evictedAndUpdate _ _ _, _ => false

/-- the hand-written `Clone` of `PutResult` over the payloads' own `clone` -/
def PutResult.pclone {κ ν : Type} (ck : κ → κ) (cv : ν → ν) : PutResult κ ν → PutResult κ ν
  | .put => .put
  | .update o => .update (cv o)
  | .evicted k v => .evicted (ck k) (cv v)
  | .evictedAndUpdate k v o => .evictedAndUpdate (ck k) (cv v) (cv o)

/-- a key object or a value object (for ownership accounting, C04) -/
inductive Obj (κ ν : Type) where
  | key (k : κ)
  | val (v : ν)
deriving DecidableEq, Repr

/-- side effects of one public call besides its return value -/
structure Eff (κ ν : Type) where
  cbs : List (κ × ν) := []        -- eviction-callback invocations, in order (C15)
  drops : List (Obj κ ν) := []    -- objects the cache itself destroyed (C04)
deriving Repr

def Eff.none : Eff κ ν := {}
def Eff.append (a b : Eff κ ν) : Eff κ ν := { cbs := a.cbs ++ b.cbs, drops := a.drops ++ b.drops }
instance : Append (Eff κ ν) := ⟨Eff.append⟩

def dropEnt (e : κ × ν) : List (Obj κ ν) := [Obj.key e.1, Obj.val e.2]

def PutResult.drops : PutResult κ ν → List (Obj κ ν)
  | .put => []
  | .update o => [Obj.val o]
  | .evicted k v => [Obj.key k, Obj.val v]
  | .evictedAndUpdate k v o => [Obj.key k, Obj.val v, Obj.val o]

end M
