/-
  Model of `SampledLFU` (src/lfu/sampled.rs): hashed key -> cost map with a running total.
  Costs are mathematical integers; `i64` overflow is outside the model (explicit hypothesis in C20).
  Hash-map iteration order is an explicit oracle argument of `fillSample`.
-/
import Caches.Model.Basic
namespace M

structure Sampled where
  samples : Nat
  maxCost : Int
  used : Int
  costs : AL UInt64 Int        -- key_costs; list order is NOT the map's iteration order
deriving Repr

namespace Sampled

def new (maxCost : Int) (samples : Nat) : Sampled :=
  { samples := samples, maxCost := maxCost, used := 0, costs := [] }

def updateMaxCost (s : Sampled) (mc : Int) : Sampled := { s with maxCost := mc }
def roomLeft (s : Sampled) (cost : Int) : Int := s.maxCost - (s.used + cost)

/-- `increment_hashed_key` (repaired: a replaced cost is subtracted) -/
def increment (s : Sampled) (h : UInt64) (cost : Int) : Sampled :=
  match find h s.costs with
  | some prev => { s with costs := setVal h cost s.costs, used := s.used - prev + cost }
  | none => { s with costs := (h, cost) :: s.costs, used := s.used + cost }

def remove (s : Sampled) (h : UInt64) : Sampled × Option Int :=
  match find h s.costs with
  | some c => ({ s with costs := erase h s.costs, used := s.used - c }, some c)
  | none => (s, none)

def clear (s : Sampled) : Sampled := { s with used := 0, costs := [] }

def update (s : Sampled) (h : UInt64) (cost : Int) : Sampled × Bool :=
  match find h s.costs with
  | none => (s, false)
  | some prev => ({ s with costs := setVal h cost s.costs, used := s.used + (cost - prev) }, true)

/-- `fill_sample`: `order` is the map's iteration order (an enumeration of `costs`) -/
def fillLoop (samples : Nat) : List (UInt64 × Int) → List (UInt64 × Int) → List (UInt64 × Int)
  | [], pairs => pairs
  | e :: t, pairs =>
    let pairs' := pairs ++ [e]
    if pairs'.length ≥ samples then pairs' else fillLoop samples t pairs'

def fillSample (s : Sampled) (order : List (UInt64 × Int)) (pairs : List (UInt64 × Int)) : List (UInt64 × Int) :=
  if pairs.length ≥ s.samples then pairs else fillLoop s.samples order pairs

end Sampled
end M
