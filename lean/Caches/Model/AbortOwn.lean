/-
  Ownership of keys and values under abort (C18, second half: "no key or value is dropped twice").
  `Model/Abort.lean` says which nodes are linked/indexed/freed after a panic at each site; this file says what
  happens to the *payloads*: for the same operations and sites, which key and value objects the unwinding frames
  (or the normal return) drop, which are handed to the caller, and which are leaked (owned by nobody: never dropped).
  Objects are tokens (`Obj.key k` / `Obj.val v`); the harness gives every object a serial number, so a token is one
  object. The accounting theorems (Properties/C18.lean) state, per object,

      linked-after + dropped + returned + leaked = linked-before + passed-in

  so no object is ever owned twice: a double drop, or a dropped object still reachable through the list, would make
  the left side exceed the right.

  Sites are finer than in `Abort.lean`: a panicking `Drop` has already counted as a drop of that object, and the
  unwinding then drops everything else the frame still owns. A return value already written to the caller's return
  place when a *parameter's* destructor unwinds is not dropped (observed behaviour of rustc, checked against the code
  by `abortcheck` on every run): it is leaked.
-/
import Caches.Model.Abort
namespace M.Abort
variable {κ ν : Type} [DecidableEq κ]

/-- what one (possibly aborted) call does with the objects it had in hand -/
structure Fx (κ ν : Type) where
  dropped : List (Obj κ ν) := []
  returned : List (Obj κ ν) := []
  leaked : List (Obj κ ν) := []

def Fx.all (f : Fx κ ν) : List (Obj κ ν) := f.dropped ++ f.returned ++ f.leaked

/-- the objects owned by the linked nodes -/
def payload (l : List (Node κ ν)) : List (Obj κ ν) := l.flatMap fun n => [Obj.key n.key, Obj.val n.val]

def objs (n : Node κ ν) : List (Obj κ ν) := [Obj.key n.key, Obj.val n.val]

/-- user-code call sites of `put`, with the panicking `Drop` of the surplus key of an update -/
inductive PutFx
  | lookup | removeOld | insertNew | callback
  | inDrop      -- `Drop` of the key argument at the end of an update
  | done
deriving DecidableEq

def PutFx.site : PutFx → PutSite
  | .lookup => .lookup
  | .removeOld => .removeOld
  | .insertNew => .insertNew
  | .callback => .callback
  | .inDrop => .done
  | .done => .done

/-- `capturing_put(k, v)`: `k` and `v` are owned by the frame until they are written into a node -/
def putFx (w : W κ ν) (k : κ) (v : ν) (s : PutFx) : Fx κ ν :=
  let args : List (Obj κ ν) := [Obj.key k, Obj.val v]
  if s = .lookup then { dropped := args } else
  match lookup k w.index with
  | some i =>
    match nodeOf i w.chain with
    | none => { dropped := args }
    | some n =>
      -- the values are swapped, the node keeps ITS key; the surplus key is dropped at the end of the call,
      -- the old value is the return value (already in the return place: leaked if that `Drop` panics)
      if s = .inDrop then { dropped := [Obj.key k], leaked := [Obj.val n.val] }
      else { dropped := [Obj.key k], returned := [Obj.val n.val] }
  | none =>
    if w.cap = 0 then { returned := args }
    else if w.index.length = w.cap then
      match w.chain.getLast? with
      | none => { dropped := args }
      | some old =>
        if s = .removeOld then { dropped := args } else
        match lookup old.key w.index with
        | none => { dropped := args }                      -- `unwrap()` on `None` panics: the frame drops both
        | some i =>
          match nodeOf i w.chain with
          | none => { dropped := args }
          | some n =>
            -- `mem::replace` moved k, v into the node and the old pair into the frame
            if s = .insertNew ∨ s = .callback then { dropped := objs n } else { returned := objs n }
    else {}                                                -- fresh node owns k and v whether or not it got indexed

/-- which sites exist on the path `put(k, ·)` takes from `w` (the enumeration `abortcheck` uses; the theorems hold for
    every site, applicable or not) -/
def putApplies (w : W κ ν) (k : κ) (s : PutFx) : Bool :=
  s = .lookup ||
  match lookup k w.index with
  | some _ => s = .inDrop
  | none =>
    if w.cap = 0 then false
    else if w.index.length = w.cap then (s = .removeOld || s = .insertNew || s = .callback)
    else s = .insertNew

inductive RmFx
  | lookup
  | callback     -- the eviction callback panics
  | keyDrop      -- `Drop` of the removed key (`remove`) / of the discarded pair (`purge`, `resize`) panics
  | done
deriving DecidableEq

def RmFx.site : RmFx → RemoveSite
  | .lookup => .lookup
  | .callback => .afterUnlink
  | .keyDrop => .afterUnlink
  | .done => .done

/-- `remove(&k)`: node unboxed, `val` moved to a local, callback, `drop_in_place(key)`, `Some(val)` -/
def removeFx (w : W κ ν) (k : κ) (s : RmFx) : Fx κ ν :=
  if s = .lookup then {} else
  match lookup k w.index with
  | none => {}
  | some i =>
    match nodeOf i w.chain with
    | none => {}
    | some n =>
      match s with
      | .callback => { dropped := [Obj.val n.val], leaked := [Obj.key n.key] }   -- key sits in a `MaybeUninit`: never dropped
      | .keyDrop => { dropped := objs n }
      | _ => { dropped := [Obj.key n.key], returned := [Obj.val n.val] }

/-- `remove_lru()`: node unboxed, key and value moved to locals, callback, `Some((key, val))` -/
def removeLruFx (w : W κ ν) (s : RmFx) : Fx κ ν :=
  match w.chain.getLast? with
  | none => {}
  | some old =>
    if s = .lookup then {} else
    match lookup old.key w.index with
    | none => {}
    | some i =>
      match nodeOf i w.chain with
      | none => {}
      | some n => if s = .done then { returned := objs n } else { dropped := objs n }

/-- objects released by `j` complete iterations of `remove_lru()` whose result the loop drops -/
def removeLruNDrops (w : W κ ν) : Nat → List (Obj κ ν)
  | 0 => []
  | j + 1 => (removeLruFx w .done).returned ++ removeLruNDrops (removeLru w .done) j

/-- `purge` aborted in iteration `j+1` at `s`: the loop drops what each iteration returns -/
def purgeFx (w : W κ ν) (j : Nat) (s : RmFx) : Fx κ ν :=
  let f := removeLruFx (removeLruN w j) s
  { dropped := removeLruNDrops w j ++ f.dropped ++ f.returned }

/-- `resize(n)`, same cases as `Abort.resize` -/
def resizeFx (w : W κ ν) (n : Nat) (j : Nat) (s : RmFx) (fin : Bool) : Fx κ ν :=
  if n = w.cap then {}
  else
    let need := w.index.length - n
    if fin then { dropped := removeLruNDrops w need }
    else if j < need then
      let f := removeLruFx (removeLruN w j) s
      { dropped := removeLruNDrops w j ++ f.dropped ++ f.returned }
    else { dropped := removeLruNDrops w need }

/-- `Drop for RawLRU`: the index is drained; per entry the node is unboxed, key then value dropped in place.
    `processed` entries complete; if `panicIn = some inKey` the next entry's key (`inKey`) or value `Drop` panics:
    a panicking key `Drop` leaves that entry's value undropped. Everything else still linked leaks. -/
def dropFx (w : W κ ν) (processed : Nat) (panicIn : Option Bool) : List (Obj κ ν) :=
  let nodes := (w.index.take processed).filterMap fun e => nodeOf e.2 w.chain
  let last : List (Obj κ ν) :=
    match panicIn, (w.index.drop processed).head? with
    | some inKey, some e =>
      match nodeOf e.2 w.chain with
      | some n => if inKey then [Obj.key n.key] else objs n
      | none => []
    | _, _ => []
  payload nodes ++ last

end M.Abort
