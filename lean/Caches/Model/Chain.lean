/-
  Layer B — the pointer model of one intrusive list (raw.rs:1534-1548): nodes are addresses (`Nat`), each with a
  `prev` and a `next` link; `head` and `tail` are the two sentinels. `attach` / `detach` are the Rust statements,
  executed in order on the heap.
-/
namespace M.Chain

structure Links where
  prev : Nat
  next : Nat
deriving Repr, DecidableEq

abbrev Heap := Nat → Links

def setNext (h : Heap) (a : Nat) (v : Nat) : Heap := fun x => if x = a then { h x with next := v } else h x
def setPrev (h : Heap) (a : Nat) (v : Nat) : Heap := fun x => if x = a then { h x with prev := v } else h x

/-- `detach(node)`: `(*(*node).prev).next = (*node).next; (*(*node).next).prev = (*node).prev;` -/
def detach (h : Heap) (n : Nat) : Heap :=
  let h1 := setNext h (h n).prev (h n).next
  setPrev h1 (h1 n).next (h1 n).prev

/-- `attach(node)`: `(*node).next = (*head).next; (*node).prev = head; (*head).next = node; (*(*node).next).prev = node;` -/
def attach (h : Heap) (head n : Nat) : Heap :=
  let h1 := setNext h n (h head).next
  let h2 := setPrev h1 n head
  let h3 := setNext h2 head n
  setPrev h3 (h3 n).next n

/-- consecutive nodes of the list point at each other -/
def Linked (h : Heap) : List Nat → Prop
  | [] => True
  | [_] => True
  | a :: b :: t => (h a).next = b ∧ (h b).prev = a ∧ Linked h (b :: t)

/-- the chain `head → l → tail` is well formed: all addresses distinct, neighbours linked both ways -/
def WF (h : Heap) (head tail : Nat) (l : List Nat) : Prop :=
  (head :: (l ++ [tail])).Nodup ∧ Linked h (head :: (l ++ [tail]))

/-- walk `n` steps along `next` (the iterator's `ptr` side) -/
def walkNext (h : Heap) : Nat → Nat → List Nat
  | 0, _ => []
  | n + 1, p => p :: walkNext h n (h p).next

/-- walk `n` steps along `prev` (the iterator's `end` side) -/
def walkPrev (h : Heap) : Nat → Nat → List Nat
  | 0, _ => []
  | n + 1, p => p :: walkPrev h n (h p).prev

end M.Chain
