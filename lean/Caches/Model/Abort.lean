/-
  Abort semantics of the RawLRU primitives (C18): the state a panic in user code leaves behind.
  Nodes have identities (their addresses); the hash index maps a key to a node id and is kept apart
  from the chain, because after an unwind the two may disagree (a node linked but not indexed).
  Every operation takes the *site* at which user code panics (`Site.done` = no panic).
-/
import Caches.Model.Basic
namespace M.Abort
variable {κ ν : Type} [DecidableEq κ]

structure Node (κ ν : Type) where
  id : Nat
  key : κ
  val : ν

structure W (κ ν : Type) where
  chain : List (Node κ ν)      -- nodes linked between the sentinels, MRU first
  index : List (κ × Nat)       -- hash index: key ↦ node id
  cap : Nat
  freed : List Nat             -- node ids whose memory has been released (Box::from_raw ... dropped)

def ids (l : List (Node κ ν)) : List Nat := l.map (·.id)
def lookup (k : κ) : List (κ × Nat) → Option Nat
  | [] => none
  | (k', i) :: t => if k' = k then some i else lookup k t
def unindex (k : κ) : List (κ × Nat) → List (κ × Nat)
  | [] => []
  | (k', i) :: t => if k' = k then t else (k', i) :: unindex k t
def unlink (i : Nat) (l : List (Node κ ν)) : List (Node κ ν) := l.filter (fun n => n.id ≠ i)
def nodeOf (i : Nat) (l : List (Node κ ν)) : Option (Node κ ν) := l.find? (fun n => n.id = i)

/-- user-code call sites of `put` in program order -/
inductive PutSite
  | lookup        -- Hash/Eq of the new key during `map.get_mut`
  | removeOld     -- Hash/Eq of the LRU key during `map.remove(&old_key)`
  | insertNew     -- Hash of the key during `map.insert` (the node is already attached)
  | callback      -- the eviction callback
  | done
deriving DecidableEq

/-- `capturing_put` + `replace_or_create_node`, aborted at `site`. `fresh` is the address the allocator
    hands out for a new node. Returns the state the unwind (or the normal return) leaves. -/
def put (w : W κ ν) (k : κ) (v : ν) (fresh : Nat) (site : PutSite) : W κ ν :=
  if site = .lookup then w else
  match lookup k w.index with
  | some i =>
    -- update: swap value, detach, attach (no user code runs)
    match nodeOf i w.chain with
    | none => w
    | some n => { w with chain := { n with val := v } :: unlink i w.chain }
  | none =>
    if w.cap = 0 then w
    else if w.index.length = w.cap then
      match w.chain.getLast? with
      | none => w                                   -- unreachable: index ⊆ chain
      | some old =>
        if site = .removeOld then w else
        match lookup old.key w.index with
        | none => w                                 -- `unwrap()` on `None`: a panic, state untouched
        | some i =>
          let idx1 := unindex old.key w.index
          let chain1 := (⟨i, k, v⟩ : Node κ ν) :: unlink i w.chain      -- node recycled, detached, attached
          if site = .insertNew then { w with chain := chain1, index := idx1 }
          else { w with chain := chain1, index := (k, i) :: idx1 }          -- callback / done
    else
      let chain1 := (⟨fresh, k, v⟩ : Node κ ν) :: w.chain
      let freed1 := w.freed.filter (· ≠ fresh)     -- the allocator may reuse a released address
      if site = .insertNew then { w with chain := chain1, freed := freed1 }
      else { w with chain := chain1, index := (k, fresh) :: w.index, freed := freed1 }

inductive RemoveSite | lookup | afterUnlink | done
deriving DecidableEq

/-- `remove`: index removal, detach, unbox; the callback and the key's `Drop` run after the node is
    unlinked and owned by the frame, so every later abort leaves the same state -/
def remove (w : W κ ν) (k : κ) (site : RemoveSite) : W κ ν :=
  if site = .lookup then w else
  match lookup k w.index with
  | none => w
  | some i => { w with chain := unlink i w.chain, index := unindex k w.index, freed := i :: w.freed }

/-- `remove_lru`: guarded by `tail.prev != head`; the key of the last linked node is looked up -/
def removeLru (w : W κ ν) (site : RemoveSite) : W κ ν :=
  match w.chain.getLast? with
  | none => w
  | some old =>
    if site = .lookup then w else
    match lookup old.key w.index with
    | none => w
    | some i => { w with chain := unlink i w.chain, index := unindex old.key w.index, freed := i :: w.freed }

/-- `j` complete iterations of `remove_lru` (the loop body of `purge` and `resize`) -/
def removeLruN (w : W κ ν) : Nat → W κ ν
  | 0 => w
  | j + 1 => removeLruN (removeLru w .done) j

/-- `purge` (`while self.remove_lru().is_some() {}`) aborted in its `(j+1)`-th iteration at `site`
    (`.done` = that iteration completed; the entry it returned is dropped by the loop) -/
def purge (w : W κ ν) (j : Nat) (site : RemoveSite) : W κ ν := removeLru (removeLruN w j) site

/-- `resize(n)`: `while map.len() > n { if remove_lru().is_none() { break } }` (an iteration that finds no index entry
    for the LRU key changes nothing, and neither do the ones the model still applies after it), `map.shrink_to_fit()` (re-hashes every remaining key: user
    code again), and only then `self.cap = n`. `fin = true`: ran to completion. Otherwise aborted in iteration `j+1` at
    `site`, or — all iterations done — inside the re-hash: the capacity is still the old one. -/
def resize (w : W κ ν) (n : Nat) (j : Nat) (site : RemoveSite) (fin : Bool) : W κ ν :=
  if n = w.cap then w
  else
    let need := w.index.length - n
    if fin then { removeLruN w need with cap := n }
    else if j < need then removeLru (removeLruN w j) site
    else removeLruN w need

/-- `get_`: lookup, detach, attach -/
def get (w : W κ ν) (k : κ) (site : RemoveSite) : W κ ν :=
  if site = .lookup then w else
  match lookup k w.index with
  | none => w
  | some i =>
    match nodeOf i w.chain with
    | none => w
    | some n => { w with chain := n :: unlink i w.chain }

/-- `Drop`: the index is drained; entry by entry the node is unboxed and its key and value dropped.
    A panic in a `Drop` after `processed` entries stops the loop: the rest leaks (nodes and sentinels). -/
def dropCache (w : W κ ν) (processed : Nat) : List Nat := w.freed ++ (w.index.take processed).map (·.2)

/-- the weak invariant every state satisfies, also after an unwind -/
structure WInv (w : W κ ν) : Prop where
  ids_nd : (ids w.chain).Nodup
  idx_keys_nd : (w.index.map (·.1)).Nodup
  idx_ids_nd : (w.index.map (·.2)).Nodup
  idx_in_chain : ∀ k i, (k, i) ∈ w.index → ∃ n ∈ w.chain, n.id = i ∧ n.key = k
  live : ∀ n ∈ w.chain, n.id ∉ w.freed

/-- the strong invariant of panic-free histories: moreover every linked node is indexed -/
structure SInv (w : W κ ν) : Prop extends WInv w where
  all_indexed : ∀ n ∈ w.chain, (n.key, n.id) ∈ w.index

end M.Abort
