/-
  Layer A model of `AdaptiveCache` (src/lru/adaptive.rs).
  T1 = `recent`, T2 = `frequent`, B1 = `recentEvict`, B2 = `frequentEvict` (all capacity `size`),
  adaptation target `p`.
-/
import Caches.Model.RawLru
namespace M
variable {κ ν : Type} [DecidableEq κ]

structure Arc (κ ν : Type) where
  size : Nat
  p : Nat
  recent : RawLru κ ν
  recentEvict : RawLru κ ν
  frequent : RawLru κ ν
  frequentEvict : RawLru κ ν

namespace Arc

/-- `AdaptiveCacheBuilder::finalize` -/
def new (size : Nat) : Option (Arc κ ν) :=
  if size = 0 then none
  else some { size := size, p := 0,
              recent := { cap := size, items := [] }, recentEvict := { cap := size, items := [] },
              frequent := { cap := size, items := [] }, frequentEvict := { cap := size, items := [] } }

def len (a : Arc κ ν) : Nat := a.recent.items.length + a.frequent.items.length
def cap (a : Arc κ ν) : Nat := a.size
def isEmpty (a : Arc κ ν) : Bool :=
  a.recent.isEmpty && a.recentEvict.isEmpty && a.frequent.isEmpty && a.frequentEvict.isEmpty

/-- the list `replace` takes its victim from (repaired: falls back to `recent` when `frequent` is empty) -/
def replaceFromRecent (a : Arc κ ν) (hitB2 : Bool) : Bool :=
  let rl := a.recent.items.length
  decide (rl > 0) && (decide (rl > a.p) || (decide (rl = a.p) && hitB2) || a.frequent.isEmpty)

/-- `replace` (adaptive.rs:1728): the victim node moves to the matching ghost list; a ghost entry
    pushed out of a full ghost list is dropped silently -/
def replace (a : Arc κ ν) (hitB2 : Bool) : Res (Arc κ ν × List (Obj κ ν)) :=
  if a.replaceFromRecent hitB2 then
    match a.recent.removeLruIn with
    | none => .ok (a, [])
    | some (e, r') =>
      match a.recentEvict.putNonnull e with
      | .error f => .error f
      | .ok (res, b1') => .ok ({ a with recent := r', recentEvict := b1' }, res.drops)
  else
    match a.frequent.removeLruIn with
    | none => .ok (a, [])
    | some (e, f') =>
      match a.frequentEvict.putNonnull e with
      | .error f => .error f
      | .ok (res, b2') => .ok ({ a with frequent := f', frequentEvict := b2' }, res.drops)

/-- `if recent_evict_len > self.size - self.p { self.recent_evict.remove_lru(); }` -/
def trimRecentGhost (a : Arc κ ν) (b1 : Nat) : Arc κ ν × List (Obj κ ν) :=
  if b1 > a.size - a.p then
    match a.recentEvict.removeLru with
    | (b1', some e, _) => ({ a with recentEvict := b1' }, dropEnt e)
    | (_, none, _) => (a, [])
  else (a, [])

/-- `if freq_evict_len > self.p { self.frequent_evict.remove_lru(); }` -/
def trimFrequentGhost (a : Arc κ ν) (b2 : Nat) : Arc κ ν × List (Obj κ ν) :=
  if b2 > a.p then
    match a.frequentEvict.removeLru with
    | (b2', some e, _) => ({ a with frequentEvict := b2' }, dropEnt e)
    | (_, none, _) => (a, [])
  else (a, [])

/-- `Cache::put` (adaptive.rs:327, repaired: the ghost entry is unlinked before `replace`) -/
def put (a : Arc κ ν) (k : κ) (v : ν) : Res (PutResult κ ν × Arc κ ν × List (Obj κ ν)) :=
  match a.recent.removeEnt k with
  | some ((k', old), r') =>
    match a.frequent.putNonnull (k', v) with
    | .error f => .error f
    | .ok (res, f') => .ok (.update old, { a with recent := r', frequent := f' }, [.key k] ++ res.drops)
  | none =>
  match find k a.frequent.items with
  | some old => .ok (.update old, { a with frequent := a.frequent.update k v }, [.key k])
  | none =>
  let t1 := a.recent.items.length
  let t2 := a.frequent.items.length
  let b1 := a.recentEvict.items.length
  let b2 := a.frequentEvict.items.length
  match a.recentEvict.removeEnt k with
  | some ((k', old), b1') =>
    if b2 > b1 ∧ b1 = 0 then .error (.overflow "arc b2 / b1") else
    let delta := if b2 > b1 then b2 / b1 else 1
    let p' := if a.p + delta ≥ a.size then a.size else a.p + delta
    let a1 := { a with p := p', recentEvict := b1' }
    match (if t1 + t2 ≥ a.size then a1.replace false else .ok (a1, [])) with
    | .error f => .error f
    | .ok (a2, d) =>
      match a2.frequent.putNonnull (k', v) with
      | .error f => .error f
      | .ok (res, f') => .ok (.update old, { a2 with frequent := f' }, d ++ [.key k] ++ res.drops)
  | none =>
  match a.frequentEvict.removeEnt k with
  | some ((k', old), b2') =>
    if b1 > b2 ∧ b2 = 0 then .error (.overflow "arc b1 / b2") else
    let delta := if b1 > b2 then b1 / b2 else 1
    let p' := if delta ≥ a.p then 0 else a.p - delta
    let a1 := { a with p := p', frequentEvict := b2' }
    match (if t1 + t2 ≥ a.size then a1.replace true else .ok (a1, [])) with
    | .error f => .error f
    | .ok (a2, d) =>
      match a2.frequent.putNonnull (k', v) with
      | .error f => .error f
      | .ok (res, f') => .ok (.update old, { a2 with frequent := f' }, d ++ [.key k] ++ res.drops)
  | none =>
    match (if t1 + t2 ≥ a.size then a.replace false else .ok (a, [])) with
    | .error f => .error f
    | .ok (a1, d) =>
      -- keep the ghost lists trim; lengths are the ones captured before `replace`
      if a1.size < a1.p then .error (.overflow "arc size - p") else
      match a1.trimRecentGhost b1 with
      | (a2, d2) =>
      match a2.trimFrequentGhost b2 with
      | (a3, d3) =>
      match a3.recent.put k v with
      | .error f => .error f
      | .ok (r', res, e) => .ok (res, { a3 with recent := r' }, d ++ d2 ++ d3 ++ e.drops)

/-- `move_to_frequent` (adaptive.rs:1745) -/
def moveToFrequent (a : Arc κ ν) (k : κ) (w : Option ν) : Res (Option ν × Arc κ ν × List (Obj κ ν)) :=
  match a.recent.removeEnt k with
  | none => .ok (none, a, [])
  | some ((k', old), r') =>
    match a.frequent.putNonnull (k', w.getD old) with
    | .error f => .error f
    | .ok (res, f') => .ok (some old, { a with recent := r', frequent := f' }, res.drops)

/-- `Cache::get` / `get_mut` (+ optional write): recent first, then frequent -/
def getMut (a : Arc κ ν) (k : κ) (w : Option ν) : Res (Option ν × Arc κ ν × List (Obj κ ν)) :=
  match find k a.recent.items with
  | some _ => a.moveToFrequent k w
  | none =>
    match a.frequent.getMut k w with
    | (f', r) => .ok (r, { a with frequent := f' }, [])

def get (a : Arc κ ν) (k : κ) : Res (Option ν × Arc κ ν × List (Obj κ ν)) := a.getMut k none

def peek (a : Arc κ ν) (k : κ) : Option ν :=
  match a.recent.peek k with
  | some v => some v
  | none => a.frequent.peek k

def peekMut (a : Arc κ ν) (k : κ) (w : Option ν) : Arc κ ν × Option ν :=
  match a.recent.peekMut k w with
  | (r', some v) => ({ a with recent := r' }, some v)
  | (_, none) =>
    match a.frequent.peekMut k w with
    | (f', res) => ({ a with frequent := f' }, res)

def contains (a : Arc κ ν) (k : κ) : Bool := a.recent.contains k || a.frequent.contains k

/-- `Cache::remove`: T1, T2, B1, B2 in that order -/
def remove (a : Arc κ ν) (k : κ) : Arc κ ν × Option ν × List (Obj κ ν) :=
  match a.recent.remove k with
  | (r', some v, e) => ({ a with recent := r' }, some v, e.drops)
  | (_, none, _) =>
  match a.frequent.remove k with
  | (f', some v, e) => ({ a with frequent := f' }, some v, e.drops)
  | (_, none, _) =>
  match a.recentEvict.remove k with
  | (b1', some v, e) => ({ a with recentEvict := b1' }, some v, e.drops)
  | (_, none, _) =>
  match a.frequentEvict.remove k with
  | (b2', res, e) => ({ a with frequentEvict := b2' }, res, e.drops)

def purge (a : Arc κ ν) : Res (Arc κ ν × List (Obj κ ν)) :=
  match a.recent.purge with
  | .error f => .error f
  | .ok (r', e1) =>
  match a.frequent.purge with
  | .error f => .error f
  | .ok (f', e2) =>
  match a.recentEvict.purge with
  | .error f => .error f
  | .ok (b1', e3) =>
  match a.frequentEvict.purge with
  | .error f => .error f
  | .ok (b2', e4) =>
    .ok ({ a with recent := r', frequent := f', recentEvict := b1', frequentEvict := b2' },
         e1.drops ++ e2.drops ++ e3.drops ++ e4.drops)

def dropCache (a : Arc κ ν) : List (Obj κ ν) :=
  a.recent.dropCache.drops ++ a.recentEvict.dropCache.drops ++
  a.frequent.dropCache.drops ++ a.frequentEvict.dropCache.drops

end Arc
end M
