/-
  Layer A model of `SegmentedCache` (src/lru/segmented.rs), written over the
  `RawLru` primitives in the order the Rust methods call them.
-/
import Caches.Model.RawLru
namespace M
variable {κ ν : Type} [DecidableEq κ]

structure Slru (κ ν : Type) where
  prob : RawLru κ ν        -- probationary segment
  prot : RawLru κ ν        -- protected segment

namespace Slru

/-- `SegmentedCacheBuilder::finalize` -/
def new (pcap qcap : Nat) : Option (Slru κ ν) :=
  if qcap = 0 then none else if pcap = 0 then none
  else some { prob := { cap := pcap, items := [] }, prot := { cap := qcap, items := [] } }

def len (s : Slru κ ν) : Nat := s.prot.items.length + s.prob.items.length
def cap (s : Slru κ ν) : Nat := s.prot.cap + s.prob.cap
def isEmpty (s : Slru κ ν) : Bool := s.prot.isEmpty && s.prob.isEmpty

/-- `move_to_protected` (segmented.rs:317) and the promotion half of `put`:
    the node of `k` leaves probationary, goes to the protected head; a node pushed out of
    a full protected segment goes back to the probationary head -/
def promote (s : Slru κ ν) (k : κ) (w : Option ν) : Res (Option ν × Slru κ ν) :=
  match s.prob.removeEnt k with
  | none => .ok (none, s)
  | some ((k', old), prob1) =>
    match s.prot.putOrEvict (k', w.getD old) with
    | .error f => .error f
    | .ok (none, prot1) => .ok (some old, { prob := prob1, prot := prot1 })
    | .ok (some dem, prot1) =>
      match prob1.putNonnull dem with
      | .error f => .error f
      | .ok (_, prob2) => .ok (some old, { prob := prob2, prot := prot1 })

/-- `Cache::put` (segmented.rs:360, repaired: a probationary hit reports `Update(old)`) -/
def put (s : Slru κ ν) (k : κ) (v : ν) : Res (PutResult κ ν × Slru κ ν × List (Obj κ ν)) :=
  match find k s.prot.items with
  | some old => .ok (.update old, { s with prot := s.prot.update k v }, [.key k])
  | none =>
    if s.prob.contains k then
      match s.promote k (some v) with
      | .error f => .error f
      | .ok (some old, s') => .ok (.update old, s', [.key k])
      | .ok (none, _) => .ok (.update v, s, [.key k])      -- `remove_and_return_ent` found nothing (unreachable)
    else
      match s.prob.put k v with
      | .error f => .error f
      | .ok (prob', r, e) => .ok (r, { s with prob := prob' }, e.drops)

/-- `Cache::get` / `get_mut` (+ optional write) -/
def getMut (s : Slru κ ν) (k : κ) (w : Option ν) : Res (Option ν × Slru κ ν) :=
  match s.prot.getMut k w with
  | (prot', some v) => .ok (some v, { s with prot := prot' })
  | (_, none) =>
    match find k s.prob.items with
    | none => .ok (none, s)
    | some _ => s.promote k w

def get (s : Slru κ ν) (k : κ) : Res (Option ν × Slru κ ν) := s.getMut k none

def peek (s : Slru κ ν) (k : κ) : Option ν :=
  match s.prot.peek k with
  | some v => some v
  | none => s.prob.peek k

def peekMut (s : Slru κ ν) (k : κ) (w : Option ν) : Slru κ ν × Option ν :=
  match s.prot.peekMut k w with
  | (prot', some v) => ({ s with prot := prot' }, some v)
  | (_, none) =>
    match s.prob.peekMut k w with
    | (prob', r) => ({ s with prob := prob' }, r)

def contains (s : Slru κ ν) (k : κ) : Bool := s.prot.contains k || s.prob.contains k

/-- `Cache::remove`: probationary first, then protected -/
def remove (s : Slru κ ν) (k : κ) : Slru κ ν × Option ν × List (Obj κ ν) :=
  match s.prob.remove k with
  | (prob', some v, e) => ({ s with prob := prob' }, some v, e.drops)
  | (_, none, _) =>
    match s.prot.remove k with
    | (prot', r, e) => ({ s with prot := prot' }, r, e.drops)

def purge (s : Slru κ ν) : Res (Slru κ ν × List (Obj κ ν)) :=
  match s.prob.purge with
  | .error f => .error f
  | .ok (prob', e1) =>
    match s.prot.purge with
    | .error f => .error f
    | .ok (prot', e2) => .ok ({ prob := prob', prot := prot' }, e1.drops ++ e2.drops)

/-- `put_protected` (segmented.rs:232, repaired): the key is unlinked from probationary
    first (its old value is reported), then stored in the protected segment -/
def putProtected (s : Slru κ ν) (k : κ) (v : ν) : Res (PutResult κ ν × Slru κ ν × List (Obj κ ν)) :=
  match s.prob.remove k with
  | (_, none, _) =>
    match s.prot.put k v with
    | .error f => .error f
    | .ok (prot', r, e) => .ok (r, { s with prot := prot' }, e.drops)
  | (prob', some old, e0) =>
    match s.prot.put k v with
    | .error f => .error f
    | .ok (prot', .put, e) => .ok (.update old, { prob := prob', prot := prot' }, e0.drops ++ e.drops)
    | .ok (prot', .evicted ek ev, e) =>
      .ok (.evictedAndUpdate ek ev old, { prob := prob', prot := prot' }, e0.drops ++ e.drops)
    | .ok (prot', r, e) => .ok (r, { prob := prob', prot := prot' }, e0.drops ++ e.drops ++ [.val old])

def removeLruFromProbationary (s : Slru κ ν) : Slru κ ν × Option (κ × ν) :=
  match s.prob.removeLru with
  | (prob', r, _) => ({ s with prob := prob' }, r)

def removeLruFromProtected (s : Slru κ ν) : Slru κ ν × Option (κ × ν) :=
  match s.prot.removeLru with
  | (prot', r, _) => ({ s with prot := prot' }, r)

/-- `Clone::clone`: both segments cloned -/
def cloneImpl (s : Slru κ ν) : Res (Slru κ ν) :=
  match s.prob.cloneImpl with
  | .error f => .error f
  | .ok p =>
    match s.prot.cloneImpl with
    | .error f => .error f
    | .ok q => .ok { prob := p, prot := q }

def dropCache (s : Slru κ ν) : List (Obj κ ν) := s.prob.dropCache.drops ++ s.prot.dropCache.drops

end Slru
end M
