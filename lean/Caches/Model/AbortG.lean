/-
  Abort semantics of the COMPOSITE caches (C18): several intrusive lists sharing one heap of nodes, with nodes "in
  flight" between lists (raw `NonNull` with no owner) while user code runs.

  State `G`: one `pool` of live nodes, each tagged with where it is — linked in list `c` (`Tag.inL c`; the chain of
  list `c` is the sub-list of the pool with that tag, MRU first) or detached and referenced only by a local variable
  of the running operation or leaked by an earlier unwind (`Tag.flight`); a hash index per list; capacities; a tick
  counter: `userCall` is a call into user code (Hash/Eq/BuildHasher of a map operation) and panics when the counter
  is 0 — exactly how the fault-injection executor works ("the i-th user call panics"). `Act` is a state monad whose
  `none` result means "unwinding": the state is what the panic leaves behind.

  The primitives are the crate-internal ones the composite caches are written with (`raw.rs`): `map.get`,
  `remove_and_return_ent`, `remove_lru_in`, `put_nonnull`, `put_or_evict_nonnull`, `update`, `detach`/`attach`,
  `Box::from_raw`; each checks its own contract and sets the ghost flag `fault` when it is used outside it (linking a
  node that is linked, freeing a node that is not owned, reading the sentinel as an entry): `fault` = undefined
  behaviour. The operations of SegmentedCache, TwoQueueCache and AdaptiveCache are transcribed statement by statement.
  Theorems (Properties/C18.lean): from every state satisfying the invariant, every operation, aborted at every tick or
  completing, ends in a state satisfying the invariant with `fault = false`.
-/
import Caches.Model.Abort
namespace M.AG
open M.Abort (lookup unindex)
variable {κ ν : Type} [DecidableEq κ]

inductive Tag
  | inL (c : Nat)
  | flight
deriving DecidableEq, Repr

structure Ent (κ ν : Type) where
  tag : Tag
  id : Nat
  key : κ
  val : ν

structure G (κ ν : Type) where
  pool : List (Ent κ ν)
  idx : Nat → List (κ × Nat)
  cap : Nat → Nat
  next : Nat                 -- every id handed out so far is below `next`
  ticks : Nat                -- user calls left before the injected panic
  fault : Bool               -- ghost: a primitive was used outside its contract (undefined behaviour)
  p : Nat := 0               -- ARC's adaptation parameter

/-- `none` = the operation is unwinding; the state component is what the unwind leaves -/
def Act (κ ν : Type) (α : Type) := G κ ν → Option α × G κ ν

instance : Monad (Act κ ν) where
  pure a := fun g => (some a, g)
  bind m f := fun g => match m g with
    | (some a, g') => f a g'
    | (none, g') => (none, g')

def userCall : Act κ ν Unit := fun g =>
  if g.ticks = 0 then (none, g) else (some (), { g with ticks := g.ticks - 1 })
/-- a panic raised by the library itself (`unwrap()` on `None`) -/
def panic {α : Type} : Act κ ν α := fun g => (none, g)
/-- undefined behaviour: the ghost flag is raised -/
def ub {α : Type} : Act κ ν α := fun g => (none, { g with fault := true })
def getG : Act κ ν (G κ ν) := fun g => (some g, g)
def setG (g' : G κ ν) : Act κ ν Unit := fun _ => (some (), g')

def entOf (g : G κ ν) (i : Nat) : Option (Ent κ ν) := g.pool.find? (·.id = i)
def chain (g : G κ ν) (c : Nat) : List (Ent κ ν) := g.pool.filter (·.tag = .inL c)
def len (g : G κ ν) (c : Nat) : Nat := (g.idx c).length
def upd {β : Type} (f : Nat → β) (c : Nat) (b : β) : Nat → β := fun c' => if c' = c then b else f c'

def retag (i : Nat) (t : Tag) (pool : List (Ent κ ν)) : List (Ent κ ν) :=
  pool.map fun e => if e.id = i then { e with tag := t } else e
def toFront (i : Nat) (pool : List (Ent κ ν)) : List (Ent κ ν) :=
  pool.filter (fun e => decide (e.id = i)) ++ pool.filter (fun e => !decide (e.id = i))
def setVal (i : Nat) (v : ν) (pool : List (Ent κ ν)) : List (Ent κ ν) :=
  pool.map fun e => if e.id = i then { e with val := v } else e
def setKV (i : Nat) (k : κ) (v : ν) (pool : List (Ent κ ν)) : List (Ent κ ν) :=
  pool.map fun e => if e.id = i then { e with key := k, val := v } else e

/-! ### atomic steps (no user code inside) -/

/-- `detach` of a node found through list `c`'s index, whose entry has just been removed -/
def unlinkNode (c : Nat) (i : Nat) : Act κ ν Unit := fun g =>
  match entOf g i with
  | some e => if e.tag = .inL c then (some (), { g with pool := retag i .flight g.pool }) else ub g
  | none => ub g

/-- `attach`: the node must be detached (owned by the frame) -/
def attach (c : Nat) (i : Nat) : Act κ ν Unit := fun g =>
  match entOf g i with
  | some e => if e.tag = .flight then (some (), { g with pool := toFront i (retag i (.inL c) g.pool) }) else ub g
  | none => ub g

/-- `detach` + `attach` of a node of list `c` (move to front) -/
def moveFront (c : Nat) (i : Nat) : Act κ ν Unit := fun g =>
  match entOf g i with
  | some e => if e.tag = .inL c then (some (), { g with pool := toFront i g.pool }) else ub g
  | none => ub g

/-- `Box::from_raw` + moving key and value out: the node must be owned by the frame -/
def freeNode (i : Nat) : Act κ ν (κ × ν) := fun g =>
  match entOf g i with
  | some e => if e.tag = .flight then (some (e.key, e.val), { g with pool := g.pool.filter (·.id ≠ i) }) else ub g
  | none => ub g

/-- `mem::swap` with the value stored in a live node -/
def swapVal (i : Nat) (v : ν) : Act κ ν ν := fun g =>
  match entOf g i with
  | some e => (some e.val, { g with pool := setVal i v g.pool })
  | none => ub g

/-- `Box::into_raw(Box::new(EntryNode::new(k, v)))` -/
def alloc (k : κ) (v : ν) : Act κ ν Nat := fun g =>
  (some g.next, { g with pool := ⟨.flight, g.next, k, v⟩ :: g.pool, next := g.next + 1 })

/-- key of the node before the tail sentinel; with an empty chain the code would read the sentinel's uninitialised key -/
def lastKey (c : Nat) : Act κ ν κ := fun g =>
  match (chain g c).getLast? with
  | some e => (some e.key, g)
  | none => ub g

/-- the part of `map.insert(KeyRef(&node.key), node)` after hashing: the node's own key is the map key -/
def indexNode (c : Nat) (i : Nat) : Act κ ν Unit := fun g =>
  match entOf g i with
  | some e =>
    if e.tag = .inL c then (some (), { g with idx := upd g.idx c ((e.key, i) :: unindex e.key (g.idx c)) }) else ub g
  | none => ub g

def unindexKey (c : Nat) (k : κ) : Act κ ν Unit := fun g =>
  (some (), { g with idx := upd g.idx c (unindex k (g.idx c)) })

/-! ### the crate-internal primitives of `RawLRU` (raw.rs) -/

/-- `map.get(k)` / `map.get_mut(k)` / `contains_key` -/
def mapGet (c : Nat) (k : κ) : Act κ ν (Option Nat) := do
  userCall
  let g ← getG
  pure (lookup k (g.idx c))

/-- `map.remove(k)` followed by `detach` (`remove_and_return_ent`, and the inlined copies) -/
def takeByKey (c : Nat) (k : κ) : Act κ ν (Option Nat) := do
  userCall
  let g ← getG
  match lookup k (g.idx c) with
  | none => pure none
  | some i => do
    unindexKey c k
    unlinkNode c i
    pure (some i)

/-- `remove_lru_in` -/
def takeLru (c : Nat) : Act κ ν (Option Nat) := do
  let g ← getG
  if (chain g c).isEmpty then pure none
  else do
    let k ← lastKey c
    takeByKey c k

/-- `attach` + `map.insert` -/
def linkFront (c : Nat) (i : Nat) : Act κ ν Unit := do
  attach c i
  userCall
  indexNode c i

/-- `put_or_evict_nonnull` -/
def putOrEvict (c : Nat) (i : Nat) : Act κ ν (Option Nat) := do
  let g ← getG
  if len g c ≥ g.cap c then do
    let k ← lastKey c
    match ← takeByKey c k with
    | none => panic                      -- `unwrap()` on `None`
    | some old => do
      linkFront c i
      pure (some old)
  else do
    linkFront c i
    pure none

/-- `put_nonnull`: as above, and the displaced node is unboxed -/
def putNonnull (c : Nat) (i : Nat) : Act κ ν (PutResult κ ν) := do
  match ← putOrEvict c i with
  | none => pure .put
  | some old => do
    let (k, v) ← freeNode old
    pure (.evicted k v)

/-- a `PutResult` that is dropped on the spot: `Drop` of an evicted key and value is user code -/
def discard (r : PutResult κ ν) : Act κ ν Unit :=
  match r with
  | .put => pure ()
  | _ => userCall
/-- `Drop` of a key or value the operation releases itself -/
def dropObj : Act κ ν Unit := userCall

/-- `update`: swap the value, move to front -/
def update (c : Nat) (i : Nat) (v : ν) : Act κ ν ν := do
  let old ← swapVal i v
  moveFront c i
  pure old

/-- swap the new value into a node the frame owns and link it at the front of list `c` (`swap_value` + `put_nonnull`,
    the displaced entry, if any, is dropped on the spot) -/
def reviveInto (c : Nat) (ent : Nat) (v : ν) : Act κ ν ν := do
  let old ← swapVal ent v
  discard (← putNonnull c ent)
  pure old

/-! ### public `RawLRU` operations on one list of a composite cache (no eviction callback there) -/

def rawPut (c : Nat) (k : κ) (v : ν) : Act κ ν (PutResult κ ν) := do
  match ← mapGet c k with
  | some i => do
    let old ← update c i v
    pure (.update old)
  | none => do
    let g ← getG
    if g.cap c = 0 then pure (.evicted k v)
    else if len g c = g.cap c then do
      -- `replace_or_create_node`: the LRU node is recycled
      let okey ← lastKey c
      match ← takeByKey c okey with
      | none => panic
      | some i => do
        let g ← getG
        match entOf g i with
        | none => ub
        | some e => do
          setG { g with pool := setKV i k v g.pool }
          linkFront c i
          pure (.evicted e.key e.val)
    else do
      let i ← alloc k v
      linkFront c i
      pure .put

/-- `get_` / `get_mut_` / `get`: lookup and move to front -/
def rawGet (c : Nat) (k : κ) : Act κ ν (Option Nat) := do
  match ← mapGet c k with
  | none => pure none
  | some i => do
    moveFront c i
    pure (some i)

def rawRemove (c : Nat) (k : κ) : Act κ ν (Option ν) := do
  match ← takeByKey c k with
  | none => pure none
  | some i => do
    let (_, v) ← freeNode i
    dropObj                              -- `ptr::drop_in_place(key)`
    pure (some v)

def rawRemoveLru (c : Nat) : Act κ ν (Option (κ × ν)) := do
  match ← takeLru c with
  | none => pure none
  | some i => do
    let e ← freeNode i
    pure (some e)

/-- `purge`: `while self.remove_lru().is_some() {}`; the fuel is the number of live nodes -/
def rawPurgeLoop (c : Nat) : Nat → Act κ ν Unit
  | 0 => pure ()
  | n + 1 => do
    match ← rawRemoveLru c with
    | none => pure ()
    | some _ => do
      dropObj                            -- the loop drops the pair
      rawPurgeLoop c n

def rawPurge (c : Nat) : Act κ ν Unit := do
  let g ← getG
  rawPurgeLoop c (g.pool.length + 1)

/-! ### SegmentedCache (segmented.rs): list 0 = probationary, 1 = protected -/
namespace Slru

def moveToProtected (k : κ) : Act κ ν Bool := do
  match ← takeByKey 0 k with
  | none => pure false
  | some ent => do
    match ← putOrEvict 1 ent with
    | none => pure true
    | some old => do
      discard (← putNonnull 0 old)
      pure true

def put (k : κ) (v : ν) : Act κ ν (PutResult κ ν) := do
  match ← mapGet 1 k with
  | some i => do
    let old ← update 1 i v
    pure (.update old)
  | none => do
    match ← mapGet 0 k with                       -- `probationary.contains(&k)`
    | some _ => do
      match ← takeByKey 0 k with
      | some ent => do
        let old ← swapVal ent v
        match ← putOrEvict 1 ent with
        | some demoted => do
          discard (← putNonnull 0 demoted)
          pure (.update old)
        | none => pure (.update old)
      | none => pure (.update v)
    | none => rawPut 0 k v

/-- `get` / `get_mut` -/
def get (k : κ) : Act κ ν Bool := do
  match ← rawGet 1 k with
  | some _ => pure true
  | none => do
    match ← mapGet 0 k with                       -- `probationary.peek_(k)`
    | some _ => moveToProtected k
    | none => pure false

def putProtected (k : κ) (v : ν) : Act κ ν (PutResult κ ν) := do
  match ← rawRemove 0 k with
  | none => rawPut 1 k v
  | some old => do
    match ← rawPut 1 k v with
    | .put => pure (.update old)
    | .evicted ek ev => pure (.evictedAndUpdate ek ev old)
    | other => pure other

def remove (k : κ) : Act κ ν (Option ν) := do
  match ← rawRemove 0 k with
  | some v => pure (some v)
  | none => rawRemove 1 k

def purge : Act κ ν Unit := do
  rawPurge 0
  rawPurge 1

end Slru

/-! ### TwoQueueCache (two_queue.rs): list 0 = recent, 1 = frequent, 2 = ghost -/
namespace TwoQ

structure Params where
  size : Nat
  recentSize : Nat

def moveToFrequent (k : κ) : Act κ ν Bool := do
  match ← takeByKey 0 k with
  | none => pure false
  | some ent => do
    let _ ← putOrEvict 1 ent                      -- a displaced node would be leaked (never happens in strong states)
    pure true

def put (q : Params) (k : κ) (v : ν) : Act κ ν (PutResult κ ν) := do
  match ← mapGet 1 k with
  | some i => do
    let old ← update 1 i v
    pure (.update old)
  | none => do
    match ← takeByKey 0 k with
    | some ent => do
      let old ← reviveInto 1 ent v
      pure (.update old)
    | none => do
      let g ← getG
      let recentLen := len g 0
      let freqLen := len g 1
      match ← mapGet 2 k with                     -- `ghost.contains(&k)`
      | some _ => do
        if recentLen + freqLen ≥ q.size then do
          let victim ←
            (if recentLen > 0 ∧ (recentLen > q.recentSize ∨ freqLen = 0) then takeLru 0 else takeLru 1)
          match victim with
          | none => panic                         -- `unwrap()` on `None`
          | some ent => do
            let rst ← putOrEvict 2 ent
            match ← takeByKey 2 k with            -- `ghost.map.remove(&key_ref)` + `detach`
            | none =>
              match rst with
              | none => pure .put
              | some gent => do
                let old ← reviveInto 1 gent v
                pure (.update old)
            | some gent => do
              let old ← reviveInto 1 gent v
              match rst with
              | none => pure (.update old)
              | some ev => do
                let (ek, evv) ← freeNode ev
                pure (.evictedAndUpdate ek evv old)
        else do
          match ← takeByKey 2 k with
          | none => panic
          | some gent => do
            let old ← reviveInto 1 gent v
            pure (.update old)
      | none => do
        let bks ← alloc k v
        if freqLen + recentLen < q.size then do
          match ← putOrEvict 0 bks with
          | none => pure .put
          | some evicted => putNonnull 2 evicted
        else do
          let victim ←
            (if recentLen > 0 ∧ (recentLen ≥ q.recentSize ∨ freqLen = 0) then takeLru 0 else takeLru 1)
          match victim with
          | none => panic
          | some ent => do
            discard (← putNonnull 0 bks)
            putNonnull 2 ent

/-- `get` / `get_mut` -/
def get (k : κ) : Act κ ν Bool := do
  match ← rawGet 1 k with
  | some _ => pure true
  | none => do
    match ← mapGet 0 k with
    | some _ => moveToFrequent k
    | none => pure false

def remove (k : κ) : Act κ ν (Option ν) := do
  match ← rawRemove 1 k with
  | some v => pure (some v)
  | none => do
    match ← rawRemove 0 k with
    | some v => pure (some v)
    | none => rawRemove 2 k

def purge : Act κ ν Unit := do
  rawPurge 1
  rawPurge 0
  rawPurge 2

end TwoQ

/-! ### AdaptiveCache (adaptive.rs): 0 = recent, 1 = frequent, 2 = recent_evict, 3 = frequent_evict -/
namespace Arc

def replace (freqContainsKey : Bool) : Act κ ν Unit := do
  let g ← getG
  let recentLen := len g 0
  if recentLen > 0 ∧ (recentLen > g.p ∨ (recentLen = g.p ∧ freqContainsKey) ∨ len g 1 = 0) then do
    match ← takeLru 0 with
    | none => pure ()
    | some ent => do
      discard (← putNonnull 2 ent)
      pure ()
  else do
    match ← takeLru 1 with
    | none => pure ()
    | some ent => do
      discard (← putNonnull 3 ent)
      pure ()

def moveToFrequent (k : κ) : Act κ ν Bool := do
  match ← takeByKey 0 k with
  | none => pure false
  | some ent => do
    discard (← putNonnull 1 ent)
    pure true

def setP (p : Nat) : Act κ ν Unit := fun g => (some (), { g with p := p })

/-- `if b { m }` as one statement -/
def whenA (b : Bool) (m : Act κ ν Unit) : Act κ ν Unit := if b then m else pure ()

/-- `self.<ghost>.remove_lru();` — the pair it returns is dropped on the spot -/
def trimGhost (c : Nat) : Act κ ν Unit := do
  if (← rawRemoveLru c).isSome then dropObj

def put (size : Nat) (k : κ) (v : ν) : Act κ ν (PutResult κ ν) := do
  match ← takeByKey 0 k with
  | some ent => do
    let old ← reviveInto 1 ent v
    pure (.update old)
  | none => do
    match ← mapGet 1 k with
    | some i => do
      let old ← update 1 i v
      pure (.update old)
    | none => do
      let g ← getG
      let recentLen := len g 0
      let freqLen := len g 1
      let recentEvictLen := len g 2
      let freqEvictLen := len g 3
      match ← mapGet 2 k with                     -- `recent_evict.contains(&k)`
      | some _ => do
        whenA (decide (freqEvictLen > recentEvictLen ∧ recentEvictLen = 0)) panic   -- division by zero
        let delta := if freqEvictLen > recentEvictLen then freqEvictLen / recentEvictLen else 1
        setP (if g.p + delta ≥ size then size else g.p + delta)
        match ← takeByKey 2 k with
        | none => panic
        | some ent => do
          let g' ← getG
          whenA (decide (len g' 0 + len g' 1 ≥ size)) (replace false)
          let old ← reviveInto 1 ent v
          pure (.update old)
      | none => do
        match ← mapGet 3 k with                   -- `frequent_evict.map.contains_key(&key_ref)`
        | some _ => do
          whenA (decide (recentEvictLen > freqEvictLen ∧ freqEvictLen = 0)) panic   -- division by zero
          let delta := if recentEvictLen > freqEvictLen then recentEvictLen / freqEvictLen else 1
          setP (if delta ≥ g.p then 0 else g.p - delta)
          match ← takeByKey 3 k with
          | none => panic
          | some ent => do
            whenA (decide (recentLen + freqLen ≥ size)) (replace true)
            let old ← reviveInto 1 ent v
            pure (.update old)
        | none => do
          whenA (decide (recentLen + freqLen ≥ size)) (replace false)
          let g' ← getG
          whenA (decide (recentEvictLen > size - g'.p)) (trimGhost 2)
          whenA (decide (freqEvictLen > g'.p)) (trimGhost 3)
          rawPut 0 k v

/-- `get` / `get_mut` -/
def get (k : κ) : Act κ ν Bool := do
  match ← mapGet 0 k with                         -- `recent.peek_(k)`
  | some _ => moveToFrequent k
  | none => do
    match ← rawGet 1 k with
    | some _ => pure true
    | none => pure false

def remove (k : κ) : Act κ ν (Option ν) := do
  match ← rawRemove 0 k with
  | some v => pure (some v)
  | none => do
    match ← rawRemove 1 k with
    | some v => pure (some v)
    | none => do
      match ← rawRemove 2 k with
      | some v => pure (some v)
      | none => rawRemove 3 k

def purge : Act κ ν Unit := do
  rawPurge 0
  rawPurge 1
  rawPurge 2
  rawPurge 3

end Arc

/-! ### WTinyLFUCache (wtinylfu.rs): lists 0, 1 = the SegmentedCache (probationary, protected), 2 = the window LRU.
    Only public operations of the parts are used; the TinyLFU estimator is not a list: its `KeyHasher` is user code
    (`userCall`), and the admission verdict `lt(candidate, victim)` is a parameter (both verdicts are explored). -/
namespace Wt

def slruContains (k : κ) : Act κ ν Bool := do
  match ← mapGet 1 k with
  | some _ => pure true
  | none => do
    match ← mapGet 0 k with
    | some _ => pure true
    | none => pure false

def put (admitLt : Bool) (k : κ) (v : ν) : Act κ ν (PutResult κ ν) := do
  match ← rawRemove 2 k with
  | none => do
    if ← slruContains k then Slru.put k v
    else do
      match ← rawPut 2 k v with
      | .put => pure .put
      | .update o => pure (.update o)
      | .evicted ek ev => do
        let g ← getG
        if len g 0 + len g 1 < g.cap 0 + g.cap 1 then Slru.put ek ev
        else if (chain g 0).isEmpty then Slru.put ek ev           -- `peek_lru_from_probationary()` is `None`
        else do
          userCall                                                  -- `tinylfu.lt`: `KeyHasher::hash_key`
          if admitLt then pure (.evicted ek ev)                    -- the candidate is handed back to the caller
          else Slru.put ek ev
      | other => pure other
  | some old => do
    let g ← getG
    if len g 1 ≥ g.cap 1 then do
      match ← rawRemoveLru 1 with
      | none => panic                                               -- `unwrap()` on `None`
      | some (ek, ev) => do
        discard (← rawPut 2 ek ev)
        discard (← Slru.putProtected k v)
        pure (.update old)
    else do
      discard (← Slru.putProtected k v)
      pure (.update old)

/-- `get` / `get_mut`: `try_reset`, `increment` (hashes the key), window first -/
def get (k : κ) : Act κ ν Bool := do
  userCall
  match ← rawGet 2 k with
  | some _ => pure true
  | none => Slru.get k

def remove (k : κ) : Act κ ν (Option ν) := do
  match ← rawRemove 2 k with
  | some v => pure (some v)
  | none => Slru.remove k

def purge : Act κ ν Unit := do
  rawPurge 2
  Slru.purge

end Wt
end M.AG
