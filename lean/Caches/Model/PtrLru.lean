/-
  Layer B model of `RawLRU` at the level the code is written at (raw.rs): a heap of link cells, node payloads, the
  hash index used only through `get` / `insert` / `remove` (so: a function `κ → Option address`, whatever the
  `BuildHasher`, the bucket layout or the collisions), two sentinels and `len`. Fresh nodes get whatever address the
  allocator returns (`a`, any address not in use). Statement order follows the Rust functions.
-/
import Caches.Model.Chain
import Caches.Model.Basic
namespace M
open M.Chain
variable {κ ν : Type} [DecidableEq κ]

def upd {α β : Type} [DecidableEq α] (f : α → β) (a : α) (b : β) : α → β := fun x => if x = a then b else f x

structure PLru (κ ν : Type) where
  cap : Nat
  heap : Heap
  ent : Nat → κ × ν          -- payload of the node at an address
  idx : κ → Option Nat       -- the hash index, as the function it implements
  head : Nat
  tail : Nat
  len : Nat                  -- `map.len()`

namespace PLru

/-- `get` (raw.rs:1382): index lookup, `detach`, `attach` -/
def get (p : PLru κ ν) (k : κ) : PLru κ ν × Option ν :=
  match p.idx k with
  | none => (p, none)
  | some n => ({ p with heap := attach (detach p.heap n) p.head n }, some (p.ent n).2)

/-- `capturing_put` (raw.rs:311) with `replace_or_create_node` (raw.rs:352) -/
def put (p : PLru κ ν) (k : κ) (v : ν) (a : Nat) : PLru κ ν × PutResult κ ν :=
  match p.idx k with
  | some n =>
    -- value swapped in place, node moved to the front; the caller's key is dropped
    ({ p with ent := upd p.ent n ((p.ent n).1, v), heap := attach (detach p.heap n) p.head n }, .update (p.ent n).2)
  | none =>
    if p.cap = 0 then (p, .evicted k v)
    else if p.len = p.cap then
      -- recycle the node before the tail sentinel: un-index its key, overwrite, index the new key, move to front
      let n := (p.heap p.tail).prev
      let old := p.ent n
      ({ p with idx := upd (upd p.idx old.1 none) k (some n), ent := upd p.ent n (k, v),
                heap := attach (detach p.heap n) p.head n }, .evicted old.1 old.2)
    else
      -- `Box::into_raw(Box::new(..))` at address `a`, `attach`
      ({ p with idx := upd p.idx k (some a), ent := upd p.ent a (k, v), heap := attach p.heap p.head a,
                len := p.len + 1 }, .put)

/-- `remove` (raw.rs:550): index remove, `detach`, un-box -/
def remove (p : PLru κ ν) (k : κ) : PLru κ ν × Option ν :=
  match p.idx k with
  | none => (p, none)
  | some n => ({ p with idx := upd p.idx k none, heap := detach p.heap n, len := p.len - 1 }, some (p.ent n).2)

/-- `remove_lru` (raw.rs:1088): guarded by the length, then the node before the tail sentinel -/
def removeLru (p : PLru κ ν) : PLru κ ν × Option (κ × ν) :=
  if p.len = 0 then (p, none)
  else
    let n := (p.heap p.tail).prev
    ({ p with idx := upd p.idx (p.ent n).1 none, heap := detach p.heap n, len := p.len - 1 }, some (p.ent n))

/-- `peek` (raw.rs): index lookup only -/
def peek (p : PLru κ ν) (k : κ) : Option ν := (p.idx k).map (fun n => (p.ent n).2)

end PLru
end M
