/-
  Layer A model of `RawLRU` (src/lru/raw.rs).
  `items` is the linked list between the two sentinels, MRU first.
  Each definition names the Rust function it mirrors; branch order follows the code.
-/
import Caches.Model.Basic
namespace M
variable {κ ν : Type} [DecidableEq κ]

structure RawLru (κ ν : Type) where
  cap : Nat
  items : AL κ ν            -- head = MRU, last = LRU
  hasCb : Bool := false     -- an eviction callback is installed

namespace RawLru

/-- `cb()` (raw.rs:1551): calls the callback if one is installed -/
def cbOf (c : RawLru κ ν) (e : κ × ν) : List (κ × ν) := if c.hasCb then [e] else []

def len (c : RawLru κ ν) : Nat := c.items.length
def isEmpty (c : RawLru κ ν) : Bool := c.items.length == 0

/-- `check_size` + `construct` -/
def new (cap : Nat) (hasCb : Bool) : Option (RawLru κ ν) :=
  if cap = 0 then none else some { cap := cap, items := [], hasCb := hasCb }

/-- `capturing_put` (raw.rs:311) with `replace_or_create_node` (raw.rs:352) inlined.
    The full-cache branch reads `(*tail).prev` as an entry and unwraps the index removal. -/
def put (c : RawLru κ ν) (k : κ) (v : ν) : Res (RawLru κ ν × PutResult κ ν × Eff κ ν) :=
  match find k c.items with
  | some old => .ok ({ c with items := use k v c.items }, .update old, { drops := [.key k] })
  | none =>
    if c.cap = 0 then .ok (c, .evicted k v, {})
    else if c.items.length = c.cap then
      match c.items.getLast? with
      | none => .error (.sentinelRead "replace_or_create_node")
      | some e => .ok ({ c with items := (k, v) :: c.items.dropLast }, .evicted e.1 e.2, { cbs := c.cbOf e })
    else .ok ({ c with items := (k, v) :: c.items }, .put, {})

/-- `get_` (raw.rs:1382): detach + attach on a hit -/
def get (c : RawLru κ ν) (k : κ) : RawLru κ ν × Option ν :=
  match find k c.items with
  | some v => ({ c with items := use k v c.items }, some v)
  | none => (c, none)

/-- `get_mut_` followed by an optional write `w` through the returned `&mut V`;
    the value reported is the one seen before the write -/
def getMut (c : RawLru κ ν) (k : κ) (w : Option ν) : RawLru κ ν × Option ν :=
  match find k c.items with
  | some v => ({ c with items := use k (w.getD v) c.items }, some v)
  | none => (c, none)

def peek (c : RawLru κ ν) (k : κ) : Option ν := find k c.items

/-- `peek_mut` + optional write -/
def peekMut (c : RawLru κ ν) (k : κ) (w : Option ν) : RawLru κ ν × Option ν :=
  match find k c.items, w with
  | some v, some w => ({ c with items := setVal k w c.items }, some v)
  | some v, none => (c, some v)
  | none, _ => (c, none)

def contains (c : RawLru κ ν) (k : κ) : Bool := (find k c.items).isSome

/-- `remove` (raw.rs:550): index remove, detach, unbox, callback, drop the stored key -/
def remove (c : RawLru κ ν) (k : κ) : RawLru κ ν × Option ν × Eff κ ν :=
  match find k c.items with
  | some v => ({ c with items := erase k c.items }, some v, { cbs := c.cbOf (k, v), drops := [.key k] })
  | none => (c, none, {})

/-- `remove_lru_in` (raw.rs:1513): guarded by `tail.prev != head` -/
def removeLruIn (c : RawLru κ ν) : Option ((κ × ν) × RawLru κ ν) :=
  match c.items.getLast? with
  | none => none
  | some e => some (e, { c with items := c.items.dropLast })

/-- `remove_lru` (raw.rs:1088) -/
def removeLru (c : RawLru κ ν) : RawLru κ ν × Option (κ × ν) × Eff κ ν :=
  match c.removeLruIn with
  | some (e, c') => (c', some e, { cbs := c.cbOf e })
  | none => (c, none, {})

/-- `purge`: `while self.remove_lru().is_some() {}`; one iteration per unit of fuel -/
def purgeLoop : Nat → RawLru κ ν → Eff κ ν → Res (RawLru κ ν × Eff κ ν)
  | 0, _, _ => .error (.diverge "purge")
  | n + 1, c, acc =>
    match c.removeLru with
    | (c', some e, eff) => purgeLoop n c' (acc ++ eff ++ { drops := dropEnt e })
    | (c', none, _) => .ok (c', acc)

def purge (c : RawLru κ ν) : Res (RawLru κ ν × Eff κ ν) := purgeLoop (c.items.length + 1) c {}

/-- `resize` loop: `while self.map.len() > cap { self.remove_lru(); evicted += 1 }` -/
def resizeLoop : Nat → Nat → RawLru κ ν → Nat → Eff κ ν → Res (RawLru κ ν × Nat × Eff κ ν)
  | 0, _, _, _, _ => .error (.diverge "resize")
  | n + 1, cap, c, ev, acc =>
    if c.items.length > cap then
      match c.removeLru with
      | (c', some e, eff) => resizeLoop n cap c' (ev + 1) (acc ++ eff ++ { drops := dropEnt e })
      | (c', none, _) => resizeLoop n cap c' (ev + 1) acc
    else .ok (c, ev, acc)

/-- `resize` (raw.rs:666) -/
def resize (c : RawLru κ ν) (cap : Nat) : Res (RawLru κ ν × Nat × Eff κ ν) :=
  if cap = c.cap then .ok (c, 0, {})
  else
    match resizeLoop (c.items.length + 1) cap c 0 {} with
    | .error f => .error f
    | .ok (c', ev, eff) => .ok ({ c' with cap := cap }, ev, eff)

/-- `get_lru` (raw.rs:763): guarded by `is_empty`, then detach/attach of `tail.prev` -/
def getLru (c : RawLru κ ν) : RawLru κ ν × Option (κ × ν) :=
  match c.items.getLast? with
  | some e => ({ c with items := use e.1 e.2 c.items }, some e)
  | none => (c, none)

def getLruMut (c : RawLru κ ν) (w : Option ν) : RawLru κ ν × Option (κ × ν) :=
  match c.items.getLast? with
  | some e => ({ c with items := use e.1 (w.getD e.2) c.items }, some e)
  | none => (c, none)

/-- `get_mru` (raw.rs:794): no reordering -/
def getMru (c : RawLru κ ν) : Option (κ × ν) := c.items.head?

def getMruMut (c : RawLru κ ν) (w : Option ν) : RawLru κ ν × Option (κ × ν) :=
  match c.items, w with
  | e :: t, some w => ({ c with items := (e.1, w) :: t }, some e)
  | e :: _, none => (c, some e)
  | [], _ => (c, none)

def peekLru (c : RawLru κ ν) : Option (κ × ν) := c.items.getLast?
def peekMru (c : RawLru κ ν) : Option (κ × ν) := c.items.head?

def peekLruMut (c : RawLru κ ν) (w : Option ν) : RawLru κ ν × Option (κ × ν) :=
  match c.items.getLast?, w with
  | some e, some w => ({ c with items := c.items.dropLast ++ [(e.1, w)] }, some e)
  | some e, none => (c, some e)
  | none, _ => (c, none)

def peekMruMut (c : RawLru κ ν) (w : Option ν) : RawLru κ ν × Option (κ × ν) := c.getMruMut w

/-- `peek_or_put` (raw.rs:886): a hit neither promotes nor stores; both arguments are dropped -/
def peekOrPut (c : RawLru κ ν) (k : κ) (v : ν) :
    Res (RawLru κ ν × Option ν × Option (PutResult κ ν) × Eff κ ν) :=
  match find k c.items with
  | some cur => .ok (c, some cur, none, { drops := [.key k, .val v] })
  | none =>
    match c.put k v with
    | .error f => .error f
    | .ok (c', r, e) => .ok (c', none, some r, e)

/-- `peek_mut_or_put` + optional write through the returned reference -/
def peekMutOrPut (c : RawLru κ ν) (k : κ) (v : ν) (w : Option ν) :
    Res (RawLru κ ν × Option ν × Option (PutResult κ ν) × Eff κ ν) :=
  match find k c.items with
  | some cur =>
    .ok ((match w with | some w => { c with items := setVal k w c.items } | none => c),
         some cur, none, { drops := [.key k, .val v] })
  | none =>
    match c.put k v with
    | .error f => .error f
    | .ok (c', r, e) => .ok (c', none, some r, e)

/-- `contains_or_put` (raw.rs:1061) -/
def containsOrPut (c : RawLru κ ν) (k : κ) (v : ν) :
    Res (RawLru κ ν × Bool × Option (PutResult κ ν) × Eff κ ν) :=
  if (find k c.items).isSome then .ok (c, true, none, { drops := [.key k, .val v] })
  else
    match c.put k v with
    | .error f => .error f
    | .ok (c', r, e) => .ok (c', false, some r, e)

/-- re-`put` a list of entries in order (the loop of `clone` and of `from_iter`) -/
def refill : AL κ ν → RawLru κ ν → Eff κ ν → Res (RawLru κ ν × Eff κ ν)
  | [], acc, eff => .ok (acc, eff)
  | e :: t, acc, eff =>
    match acc.put e.1 e.2 with
    | .error f => .error f
    | .ok (acc', r, e1) => refill t acc' (eff ++ e1 ++ { drops := r.drops })

/-- `Clone::clone` (raw.rs:200, repaired): a fresh cache with the same capacity and callback,
    every entry re-`put` from least to most recently used -/
def cloneImpl (c : RawLru κ ν) : Res (RawLru κ ν) :=
  match refill c.items.reverse { c with items := [] } {} with
  | .error f => .error f
  | .ok (c', _) => .ok c'

/-- `FromIterator::from_iter` (raw.rs:1595, repaired): capacity `max 1 size_hint().0` -/
def fromIter (hint : Nat) (l : AL κ ν) : Res (RawLru κ ν × Eff κ ν) :=
  match (RawLru.new (max 1 hint) false : Option (RawLru κ ν)) with
  | none => .error (.unwrapNone "from_iter new")
  | some c => refill l c {}

/-- `Drop::drop` (raw.rs:1558): every indexed node is unboxed, key and value dropped;
    the callback is not called -/
def dropCache (c : RawLru κ ν) : Eff κ ν := { drops := c.items.flatMap dropEnt }

/-! ### crate-internal node primitives used by the composite caches -/

/-- `remove_and_return_ent` (raw.rs:1498) -/
def removeEnt (c : RawLru κ ν) (k : κ) : Option ((κ × ν) × RawLru κ ν) :=
  match find k c.items with
  | none => none
  | some v => some ((k, v), { c with items := erase k c.items })

/-- `put_or_evict_nonnull` (raw.rs:1465): the pushed-out node is handed back -/
def putOrEvict (c : RawLru κ ν) (e : κ × ν) : Res (Option (κ × ν) × RawLru κ ν) :=
  if c.items.length ≥ c.cap then
    match c.items.getLast? with
    | none => .error (.sentinelRead "put_or_evict_nonnull")
    | some old => .ok (some old, { c with items := e :: c.items.dropLast })
  else .ok (none, { c with items := e :: c.items })

/-- `put_nonnull` (raw.rs:1421): the pushed-out node is unboxed and returned as `Evicted` -/
def putNonnull (c : RawLru κ ν) (e : κ × ν) : Res (PutResult κ ν × RawLru κ ν) :=
  if c.items.length ≥ c.cap then
    match c.items.getLast? with
    | none => .error (.sentinelRead "put_nonnull")
    | some old => .ok (.evicted old.1 old.2, { c with items := e :: c.items.dropLast })
  else .ok (.put, { c with items := e :: c.items })

/-- `update` (raw.rs:1457): swap the value, detach, attach -/
def update (c : RawLru κ ν) (k : κ) (v : ν) : RawLru κ ν := { c with items := use k v c.items }

end RawLru
end M
