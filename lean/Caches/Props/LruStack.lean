/-
  Layer S — the unbounded recency stack of a history of uses (property C06): what "exact recency order" means
  without any capacity. The bounded cache must be its first `cap` entries.
-/
import Caches.Model.Api
namespace M.LruStack
variable {κ ν : Type} [DecidableEq κ]

/-- the operations that count as a use -/
inductive UseOp (κ ν : Type) where
  | put (k : κ) (v : ν)
  | get (k : κ) (w : Option ν)      -- `get` / `get_mut` (+ optional write through the reference)

def UseOp.toRaw : UseOp κ ν → RawOp κ ν
  | .put k v => .put k v
  | .get k w => .getMut k w

/-- the unbounded recency stack: every key ever used, most recent first; a lookup counts only when the key is
    among the first `cap` (resident) -/
def step (cap : Nat) (D : AL κ ν) : UseOp κ ν → AL κ ν
  | .put k v => (k, v) :: erase k D
  | .get k w =>
    match find k (D.take cap) with
    | some old => (k, w.getD old) :: erase k D
    | none => D

end M.LruStack
