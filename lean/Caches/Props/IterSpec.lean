/-
  Layer S — what a double-ended iterator over a list must yield: `next` pops the front, `next_back` pops the back,
  the size hint is the number of entries left, and an exhausted iterator keeps answering `none`.
-/
namespace M.IterSpec
variable {α : Type}

/-- script: `false` = `next`, `true` = `next_back`; result: (yielded item, size hint afterwards) per call -/
def popEnds : List α → List Bool → List (Option α × Nat)
  | _, [] => []
  | l, false :: t =>
    match l with
    | [] => (none, 0) :: popEnds [] t
    | x :: r => (some x, r.length) :: popEnds r t
  | l, true :: t =>
    match l.getLast? with
    | none => (none, 0) :: popEnds [] t
    | some x => (some x, l.length - 1) :: popEnds l.dropLast t

/-- what is left after the script -/
def remaining : List α → List Bool → List α
  | l, [] => l
  | l, false :: t => remaining l.tail t
  | l, true :: t => remaining l.dropLast t

/-- the items yielded, in call order -/
def yielded (l : List α) (s : List Bool) : List α := (popEnds l s).filterMap (·.1)

end M.IterSpec
