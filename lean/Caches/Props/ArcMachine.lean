/-
  Layer S — the rest of the ARC policy (property C09) and the policy as one state machine over `ArcSpec.St`
  (T1, T2, B1, B2, p), for the operation alphabet `CacheOp` of the public API.
-/
import Caches.Model.Api
import Caches.Props.ArcSpec
namespace M.ArcSpec
variable {κ ν : Type} [DecidableEq κ]

/-- `remove k`: the entry leaves whichever list holds it (T1, T2, then the ghost lists); `p` and everything else stay -/
def remove (s : St κ ν) (k : κ) : St κ ν × Option ν :=
  match find k s.t1 with
  | some v => ({ s with t1 := erase k s.t1 }, some v)
  | none =>
  match find k s.t2 with
  | some v => ({ s with t2 := erase k s.t2 }, some v)
  | none =>
  match find k s.b1 with
  | some v => ({ s with b1 := erase k s.b1 }, some v)
  | none =>
  match find k s.b2 with
  | some v => ({ s with b2 := erase k s.b2 }, some v)
  | none => (s, none)

/-- `peek_mut k` with an optional write: a resident value changes in place; ghosts are not visible; nothing moves -/
def peekMut (s : St κ ν) (k : κ) (w : Option ν) : St κ ν :=
  match find k s.t1 with
  | some _ => (match w with | some w => { s with t1 := setVal k w s.t1 } | none => s)
  | none =>
    match find k s.t2 with
    | some _ => (match w with | some w => { s with t2 := setVal k w s.t2 } | none => s)
    | none => s

/-- `purge` empties all four lists and keeps the adaptation target -/
def purge (s : St κ ν) : St κ ν := { t1 := [], t2 := [], b1 := [], b2 := [], p := s.p }

def step (size : Nat) (s : St κ ν) : CacheOp κ ν → St κ ν
  | .put k v => (put s size k v).1
  | .getMut k w => (get s k w).1
  | .peekMut k w => peekMut s k w
  | .remove k => (remove s k).1
  | .purge => purge s
  | .read => s

end M.ArcSpec
