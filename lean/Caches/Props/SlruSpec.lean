/-
  Layer S — the segmented-LRU policy written from the text of property C07, over plain lists (MRU first).
  Independent of the model's primitives: no `putNonnull`, no `removeEnt`, just list surgery.
-/
import Caches.Model.Basic
namespace M.SlruSpec
variable {κ ν : Type} [DecidableEq κ]

/-- a probationary entry is promoted to the most-recent end of protected; when that overflows, protected's
    least-recent entry is demoted to the most-recent end of probationary (never evicted) -/
def promote (P Q : AL κ ν) (qcap : Nat) (k : κ) (val : ν) : AL κ ν × AL κ ν :=
  if Q.length ≥ qcap then
    match Q.getLast? with
    | some dem => (dem :: erase k P, (k, val) :: Q.dropLast)
    | none => (erase k P, (k, val) :: Q)
  else (erase k P, (k, val) :: Q)

/-- `put k v` -/
def put (P Q : AL κ ν) (pcap qcap : Nat) (k : κ) (v : ν) : AL κ ν × AL κ ν × PutResult κ ν :=
  match find k Q with
  | some old => (P, (k, v) :: erase k Q, .update old)                 -- protected hit: refresh only
  | none =>
    match find k P with
    | some old => let (P', Q') := promote P Q qcap k v; (P', Q', .update old)   -- probationary hit: promote
    | none =>                                                          -- new key: probationary, evicting only its LRU
      if P.length ≥ pcap then
        match P.getLast? with
        | some lru => ((k, v) :: P.dropLast, Q, .evicted lru.1 lru.2)
        | none => ((k, v) :: P, Q, .put)
      else ((k, v) :: P, Q, .put)

/-- `get k` / `get_mut k` (with the value written through the reference, if any) -/
def get (P Q : AL κ ν) (qcap : Nat) (k : κ) (w : Option ν) : AL κ ν × AL κ ν × Option ν :=
  match find k Q with
  | some old => (P, (k, w.getD old) :: erase k Q, some old)
  | none =>
    match find k P with
    | some old => let (P', Q') := promote P Q qcap k (w.getD old); (P', Q', some old)
    | none => (P, Q, none)

end M.SlruSpec
