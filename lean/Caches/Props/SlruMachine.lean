/-
  Layer S — the rest of the segmented-LRU policy (property C07) and the policy as one state machine over the
  two lists, for the operation alphabet `SlruOp` of the public API.
-/
import Caches.Model.Api
import Caches.Props.SlruSpec

/-! ### the remaining entry points, and the policy as one state machine over the two lists -/
namespace M.SlruSpec
variable {κ ν : Type} [DecidableEq κ]

/-- `remove k`: the entry leaves whichever segment holds it; nothing else moves -/
def remove (P Q : AL κ ν) (k : κ) : AL κ ν × AL κ ν × Option ν :=
  match find k P with
  | some v => (erase k P, Q, some v)
  | none =>
    match find k Q with
    | some v => (P, erase k Q, some v)
    | none => (P, Q, none)

/-- `put_protected k v`: the key leaves probationary if it was there and is stored at the most-recent end of
    protected; an overflowing protected segment loses its least-recent entry (it is evicted, not demoted) -/
def putProtected (P Q : AL κ ν) (qcap : Nat) (k : κ) (v : ν) : AL κ ν × AL κ ν :=
  let P' := match find k P with | some _ => erase k P | none => P
  match find k Q with
  | some _ => (P', (k, v) :: erase k Q)
  | none => if Q.length ≥ qcap then (P', (k, v) :: Q.dropLast) else (P', (k, v) :: Q)

/-- `peek_mut k` with an optional write: the value changes in place, no entry moves -/
def peekMut (P Q : AL κ ν) (k : κ) (w : Option ν) : AL κ ν × AL κ ν :=
  match find k Q with
  | some _ => (match w with | some w => (P, setVal k w Q) | none => (P, Q))
  | none =>
    match find k P with
    | some _ => (match w with | some w => (setVal k w P, Q) | none => (P, Q))
    | none => (P, Q)

/-- operations of the public API that can change the state (`Api.SlruOp`), as the policy states them -/
def step (pcap qcap : Nat) (PQ : AL κ ν × AL κ ν) : SlruOp κ ν → AL κ ν × AL κ ν
  | .put k v => let r := put PQ.1 PQ.2 pcap qcap k v; (r.1, r.2.1)
  | .putProtected k v => putProtected PQ.1 PQ.2 qcap k v
  | .getMut k w => let r := get PQ.1 PQ.2 qcap k w; (r.1, r.2.1)
  | .peekMut k w => peekMut PQ.1 PQ.2 k w
  | .remove k => let r := remove PQ.1 PQ.2 k; (r.1, r.2.1)
  | .purge => ([], [])
  | .removeLruProb => (PQ.1.dropLast, PQ.2)
  | .removeLruProt => (PQ.1, PQ.2.dropLast)
  | .clone => PQ
  | .read => PQ

end M.SlruSpec
