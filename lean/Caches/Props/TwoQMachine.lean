/-
  Layer S — the rest of the 2Q policy (property C08) and the policy as one state machine over the three lists
  (recent, frequent, ghost), for the operation alphabet `CacheOp` of the public API.
-/
import Caches.Model.Api
import Caches.Props.TwoQSpec
namespace M.TwoQSpec
variable {κ ν : Type} [DecidableEq κ]

/-- `remove k`: the entry leaves whichever list holds it (a ghost is forgotten too); nothing else moves -/
def remove (R F G : AL κ ν) (k : κ) : AL κ ν × AL κ ν × AL κ ν × Option ν :=
  match find k F with
  | some v => (R, erase k F, G, some v)
  | none =>
    match find k R with
    | some v => (erase k R, F, G, some v)
    | none =>
      match find k G with
      | some v => (R, F, erase k G, some v)
      | none => (R, F, G, none)

/-- `peek_mut k` with an optional write: a resident value changes in place; ghosts are not visible; no entry moves -/
def peekMut (R F G : AL κ ν) (k : κ) (w : Option ν) : AL κ ν × AL κ ν × AL κ ν :=
  match find k F with
  | some _ => (match w with | some w => (R, setVal k w F, G) | none => (R, F, G))
  | none =>
    match find k R with
    | some _ => (match w with | some w => (setVal k w R, F, G) | none => (R, F, G))
    | none => (R, F, G)

def step (size rs gcap : Nat) (S : AL κ ν × AL κ ν × AL κ ν) : CacheOp κ ν → AL κ ν × AL κ ν × AL κ ν
  | .put k v => let r := put S.1 S.2.1 S.2.2 size rs gcap k v; (r.1, r.2.1, r.2.2.1)
  | .getMut k w => let r := get S.1 S.2.1 S.2.2 k w; (r.1, r.2.1, r.2.2.1)
  | .peekMut k w => peekMut S.1 S.2.1 S.2.2 k w
  | .remove k => let r := remove S.1 S.2.1 S.2.2 k; (r.1, r.2.1, r.2.2.1)
  | .purge => ([], [], [])
  | .read => S

end M.TwoQSpec
