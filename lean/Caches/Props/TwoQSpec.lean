/-
  Layer S — the 2Q policy written from the text of property C08, over plain lists (MRU first).
-/
import Caches.Model.Basic
namespace M.TwoQSpec
variable {κ ν : Type} [DecidableEq κ]

/-- when the cache is full: the victim is the least-recent entry of the recent queue if that queue is over its quota
    (at quota also counts for a brand-new key), otherwise of the frequent queue, falling back to whichever is non-empty -/
def fromRecent (R F : AL κ ν) (rs : Nat) (newKey : Bool) : Bool :=
  decide (R.length > 0) && ((if newKey then decide (R.length ≥ rs) else decide (R.length > rs)) || decide (F.length = 0))

/-- an entry pushed out of either queue becomes the most recent ghost; the ghost list drops its own least-recent
    entry when it overflows -/
def pushGhost (G : AL κ ν) (gcap : Nat) (vic : κ × ν) : AL κ ν × Option (κ × ν) :=
  if G.length ≥ gcap then (vic :: G.dropLast, G.getLast?) else (vic :: G, none)

def put (R F G : AL κ ν) (size rs gcap : Nat) (k : κ) (v : ν) : AL κ ν × AL κ ν × AL κ ν × PutResult κ ν :=
  match find k F with
  | some old => (R, (k, v) :: erase k F, G, .update old)               -- already frequent: refresh
  | none =>
  match find k R with
  | some old => (erase k R, (k, v) :: F, G, .update old)               -- second access: recent → frequent
  | none =>
  let full := decide (R.length + F.length ≥ size)
  match find k G with
  | some old =>                                                        -- ghost: revived directly into frequent
    if full then
      let fr := fromRecent R F rs false
      let vic := if fr then R.getLast? else F.getLast?
      let R1 := if fr then R.dropLast else R
      let F1 := if fr then F else F.dropLast
      match vic with
      | none => (R, F, G, .put)
      | some vic =>
        let (G1, dropped) := pushGhost G gcap vic
        let res := match dropped with
          | some g => if g.1 = k then PutResult.update old else .evictedAndUpdate g.1 g.2 old
          | none => .update old
        (R1, (k, v) :: F1, erase k G1, res)
    else (R, (k, v) :: F, erase k G, .update old)
  | none =>                                                            -- first sight: recent
    if full then
      let fr := fromRecent R F rs true
      let vic := if fr then R.getLast? else F.getLast?
      let R1 := if fr then R.dropLast else R
      let F1 := if fr then F else F.dropLast
      match vic with
      | none => (R, F, G, .put)
      | some vic =>
        let (G1, dropped) := pushGhost G gcap vic
        ((k, v) :: R1, F1, G1, match dropped with | some g => .evicted g.1 g.2 | none => .put)
    else ((k, v) :: R, F, G, .put)

def get (R F G : AL κ ν) (k : κ) (w : Option ν) : AL κ ν × AL κ ν × AL κ ν × Option ν :=
  match find k F with
  | some old => (R, (k, w.getD old) :: erase k F, G, some old)
  | none =>
    match find k R with
    | some old => (erase k R, (k, w.getD old) :: F, G, some old)
    | none => (R, F, G, none)

end M.TwoQSpec
