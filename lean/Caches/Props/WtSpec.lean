/-
  Layer S — the W-TinyLFU policy written from the text of property C10, over plain lists (MRU first).
  `lt a b` is the estimator's verdict "estimated frequency of `a` is strictly lower than that of `b`",
  taken from the real sketch at decision time.
-/
import Caches.Props.SlruSpec
namespace M.WtSpec
variable {κ ν : Type} [DecidableEq κ]

structure St (κ ν : Type) where
  w : AL κ ν      -- window
  p : AL κ ν      -- probationary
  q : AL κ ν      -- protected

def put (s : St κ ν) (wcap pcap qcap : Nat) (lt : κ → κ → Bool) (k : κ) (v : ν) : St κ ν × PutResult κ ν :=
  match find k s.w with
  | some old =>
    -- a put on a window-resident key moves it into the protected segment, demoting protected's least-recent
    -- entry into the window when protected is full
    if s.q.length ≥ qcap then
      match s.q.getLast? with
      | some dem => ({ s with w := dem :: erase k s.w, q := (k, v) :: s.q.dropLast }, .update old)
      | none => ({ s with w := erase k s.w, q := (k, v) :: s.q }, .update old)
    else ({ s with w := erase k s.w, q := (k, v) :: s.q }, .update old)
  | none =>
    if (find k s.q).isSome || (find k s.p).isSome then
      let (p', q', r) := SlruSpec.put s.p s.q pcap qcap k v
      ({ s with p := p', q := q' }, r)
    else if s.w.length < wcap then ({ s with w := (k, v) :: s.w }, .put)      -- new keys enter the window
    else
      match s.w.getLast? with
      | none => ({ s with w := (k, v) :: s.w }, .put)
      | some cand =>
        let w' := (k, v) :: s.w.dropLast
        let letIn : St κ ν × PutResult κ ν :=
          let (p', q', r) := SlruSpec.put s.p s.q pcap qcap cand.1 cand.2
          ({ w := w', p := p', q := q' }, r)
        if s.q.length + s.p.length < qcap + pcap then letIn               -- admitted freely while main has room
        else
          match s.p.getLast? with
          | none => letIn
          | some vic =>
            if lt cand.1 vic.1 then ({ s with w := w' }, .evicted cand.1 cand.2)   -- strictly lower: rejected
            else letIn                                                              -- otherwise it replaces the victim

def get (s : St κ ν) (qcap : Nat) (k : κ) (w : Option ν) : St κ ν × Option ν :=
  match find k s.w with
  | some old => ({ s with w := (k, w.getD old) :: erase k s.w }, some old)
  | none =>
    let (p', q', r) := SlruSpec.get s.p s.q qcap k w
    ({ s with p := p', q := q' }, r)

end M.WtSpec
