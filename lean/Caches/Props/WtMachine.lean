/-
  Layer S — the rest of the W-TinyLFU policy (property C10) and the policy as one state machine over
  (window, probationary, protected) × estimator, for the operation alphabet `CacheOp` of the public API.
  The lists see the estimator only through its verdict `lt`; the estimator is touched only by `get`/`get_mut`
  (one recorded access, after the reset check) and by `purge` (cleared).
-/
import Caches.Model.Api
import Caches.Props.WtSpec
import Caches.Props.SlruMachine
namespace M.WtSpec
variable {κ ν : Type} [DecidableEq κ]

/-- `remove k`: the entry leaves the window if it is there, otherwise the main cache's segment that holds it -/
def remove (s : St κ ν) (k : κ) : St κ ν × Option ν :=
  match find k s.w with
  | some v => ({ s with w := erase k s.w }, some v)
  | none => let r := SlruSpec.remove s.p s.q k; ({ s with p := r.1, q := r.2.1 }, r.2.2)

/-- `peek_mut k` with an optional write: the value changes in place, no entry moves -/
def peekMut (s : St κ ν) (k : κ) (w : Option ν) : St κ ν :=
  match find k s.w with
  | some _ => (match w with | some w => { s with w := setVal k w s.w } | none => s)
  | none => let r := SlruSpec.peekMut s.p s.q k w; { s with p := r.1, q := r.2 }

/-- the lists under one operation, given the estimator's verdict at that moment -/
def step (wcap pcap qcap : Nat) (lt : κ → κ → Bool) (s : St κ ν) : CacheOp κ ν → St κ ν
  | .put k v => (put s wcap pcap qcap lt k v).1
  | .getMut k w => (get s qcap k w).1
  | .peekMut k w => peekMut s k w
  | .remove k => (remove s k).1
  | .purge => { w := [], p := [], q := [] }
  | .read => s

/-- the estimator under one operation: only a lookup records an access, only `purge` clears -/
def estStep (kh : κ → UInt64) (e : TinyLfu) : CacheOp κ ν → TinyLfu
  | .getMut k _ => (match e.tryReset.increment (kh k) with | .ok e' => e' | .error _ => e)
  | .purge => e.clear
  | _ => e

/-- the estimator's verdict as a boolean -/
def verdict (kh : κ → UInt64) (e : TinyLfu) (a b : κ) : Bool :=
  match e.lt (kh a) (kh b) with
  | .ok r => r
  | .error _ => false

/-- the whole policy: lists and estimator together -/
def stepE (kh : κ → UInt64) (wcap pcap qcap : Nat) (S : St κ ν × TinyLfu) (o : CacheOp κ ν) : St κ ν × TinyLfu :=
  (step wcap pcap qcap (verdict kh S.2) S.1 o, estStep kh S.2 o)

end M.WtSpec
