/-
  Layer S — the ARC policy written from the text of property C09, over plain lists (MRU first).
-/
import Caches.Model.Basic
namespace M.ArcSpec
variable {κ ν : Type} [DecidableEq κ]

structure St (κ ν : Type) where
  t1 : AL κ ν     -- recent
  t2 : AL κ ν     -- frequent
  b1 : AL κ ν     -- recent ghosts
  b2 : AL κ ν     -- frequent ghosts
  p : Nat

/-- a ghost list remembers the evicted entry at its most-recent end and forgets its own least-recent one when full -/
def remember (B : AL κ ν) (size : Nat) (vic : κ × ν) : AL κ ν := vic :: (if B.length ≥ size then B.dropLast else B)

/-- when full, the victim comes from the recent list if it is longer than `p` (or equal to `p` on a frequent-ghost
    hit) and otherwise from the frequent list, falling back to whichever list is non-empty -/
def fromRecent (s : St κ ν) (hitB2 : Bool) : Bool :=
  decide (s.t1.length > 0) && (decide (s.t1.length > s.p) || (decide (s.t1.length = s.p) && hitB2) || decide (s.t2.length = 0))

def replace (s : St κ ν) (size : Nat) (hitB2 : Bool) : St κ ν :=
  if fromRecent s hitB2 then
    match s.t1.getLast? with
    | some vic => { s with t1 := s.t1.dropLast, b1 := remember s.b1 size vic }
    | none => s
  else
    match s.t2.getLast? with
    | some vic => { s with t2 := s.t2.dropLast, b2 := remember s.b2 size vic }
    | none => s

def makeRoom (s : St κ ν) (size : Nat) (hitB2 : Bool) : St κ ν :=
  if s.t1.length + s.t2.length ≥ size then replace s size hitB2 else s

/-- a miss after room was made: keep the ghost lists trim (with the lengths from before `replace`), admit to recent -/
def admitNew (s1 : St κ ν) (size b1len b2len : Nat) (k : κ) (v : ν) : St κ ν :=
  let s2 := if b1len > size - s1.p then { s1 with b1 := s1.b1.dropLast } else s1
  let s3 := if b2len > s2.p then { s2 with b2 := s2.b2.dropLast } else s2
  { s3 with t1 := (k, v) :: s3.t1 }

def put (s : St κ ν) (size : Nat) (k : κ) (v : ν) : St κ ν × PutResult κ ν :=
  match find k s.t1 with
  | some old => ({ s with t1 := erase k s.t1, t2 := (k, v) :: s.t2 }, .update old)       -- second access
  | none =>
  match find k s.t2 with
  | some old => ({ s with t2 := (k, v) :: erase k s.t2 }, .update old)
  | none =>
  match find k s.b1 with
  | some old =>                      -- recent-ghost hit: raise p by max 1 (|B2| / |B1|), capped at the size
    let p' := min size (s.p + max 1 (s.b2.length / s.b1.length))
    let s1 := makeRoom { s with p := p', b1 := erase k s.b1 } size false
    ({ s1 with t2 := (k, v) :: s1.t2 }, .update old)
  | none =>
  match find k s.b2 with
  | some old =>                      -- frequent-ghost hit: lower p by max 1 (|B1| / |B2|), floored at 0
    let p' := s.p - min s.p (max 1 (s.b1.length / s.b2.length))
    let s1 := makeRoom { s with p := p', b2 := erase k s.b2 } size true
    ({ s1 with t2 := (k, v) :: s1.t2 }, .update old)
  | none => (admitNew (makeRoom s size false) size s.b1.length s.b2.length k v, .put)   -- miss

def get (s : St κ ν) (k : κ) (w : Option ν) : St κ ν × Option ν :=
  match find k s.t1 with
  | some old => ({ s with t1 := erase k s.t1, t2 := (k, w.getD old) :: s.t2 }, some old)
  | none =>
    match find k s.t2 with
    | some old => ({ s with t2 := (k, w.getD old) :: erase k s.t2 }, some old)
    | none => (s, none)

end M.ArcSpec
