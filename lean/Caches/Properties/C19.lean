/-
  C19 — API soundness: borrows and Send/Sync markers cannot be abused from safe code.
  The table `M.Gen.methods` / `M.Gen.markerImpls` is regenerated from rustdoc JSON of /repo's current
  source on every run, so these theorems are re-checked against what the signatures say now.
  (rustc's borrow checker and auto-trait solver are trusted; the probe programs of `bin/check C19`
  check that the compiler agrees with `tied` / `boundsSufficient` row by row.)
-/
import Caches.Generated.Signatures
namespace C19
open M.Api19 M.Gen

/-- every public method that hands out a reference or a lifetime-carrying value ties it to the borrow of the cache -/
theorem all_tied : ∀ s ∈ methods, tied s = true := by decide +kernel

/-- every `Send`/`Sync` impl (hand-written or synthesised) demands what the auto-trait rules demand -/
theorem all_bounds_sufficient : ∀ i ∈ markerImpls, boundsSufficient i = true := by decide +kernel

/-- exclusive access (`&mut V`, a mutable iterator) is only ever handed out against an exclusive borrow of the cache:
    no `&self` method returns it, so safe code cannot hold two live `&mut` to one value -/
theorem exclusive_needs_exclusive_borrow :
    ∀ s ∈ methods, s.exclOut = true → s.recv = .refMut ∨ (s.recv = .value ∧ s.ty = .refMutRawLRU) := by decide +kernel

/-- an iterator that hands out `&mut V` is never `Clone`: a copy would yield a second `&mut` to every value -/
theorem mutable_iterators_not_clone : ∀ p ∈ clonedIters, p.2 = Kind.sharedIter := by decide +kernel

/-- a lifetime parameter declared on the function itself is never tied (the pre-repair `peek_lru_mut<'a>`) -/
theorem fnParam_untied (s : Sig) (h : Origin.fnParam ∈ s.outs) : tied s = false := by
  unfold tied
  rw [Bool.eq_false_iff]
  intro hall
  have := List.all_eq_true.1 (Bool.and_eq_true_iff.1 hall).1 _ h
  simp [Origin.tiedTo] at this

/-- the table is not empty and covers all five caches -/
theorem table_covers : methods.length ≥ 100 ∧ markerImpls.length ≥ 20 ∧
    (∀ t ∈ [Ty.RawLRU, .SegmentedCache, .TwoQueueCache, .AdaptiveCache, .WTinyLFUCache], methods.any (fun s => s.ty == t) = true) := by
  decide +kernel

/-- non-vacuity: the pre-repair signature of `peek_lru_mut` is rejected by `tied` -/
example : tied { ty := .RawLRU, trait := "", method := "peek_lru_mut", recv := .refMut, outs := [.fnParam, .fnParam], selfSealed := true } = false := by
  decide
/-- non-vacuity: `get_mru_mut(&self) -> Option<(&K, &mut V)>` (exclusive result from a shared borrow) is rejected -/
example : tied { ty := .RawLRU, trait := "", method := "get_mru_mut", recv := .ref, outs := [.elided, .elided], selfSealed := true, exclOut := true } = false := by
  decide
/-- non-vacuity: pre-repair bounds of the shared iterators are rejected -/
def preRepairIterSend : MarkerImpl :=
  { ty := .MRUIter, kind := .sharedIter, marker := .send, synthetic := false, bounds := [(.key, [.send]), (.val, [.send])] }
example : boundsSufficient preRepairIterSend = false := by decide
end C19
