/- C16 — clone (initial: RawLRU; the clone is rebuilt by `put`s, so equality is a real statement) -/
import Caches.Lemmas.RawLru
namespace C16
open M M.RawLru
variable {κ ν : Type} [DecidableEq κ]

/-- the clone of a well-formed RawLRU is the same cache: capacity, entries, values, order, callback flag -/
theorem rawlru_clone_eq (c : RawLru κ ν) (h : c.Inv) : c.cloneImpl = .ok c := clone_eq c h

/-- hence every operation gives the same answer on both (the model is a pure function of the state) -/
theorem rawlru_clone_lockstep (c c' : RawLru κ ν) (h : c.Inv) (hc : c.cloneImpl = .ok c') (k : κ) (v : ν) :
    c'.put k v = c.put k v ∧ c'.get k = c.get k ∧ c'.remove k = c.remove k := by
  rw [clone_eq c h] at hc; injection hc with hc; subst hc; exact ⟨rfl, rfl, rfl⟩

example : (⟨3, [(1, 10), (2, 20)], true⟩ : RawLru Nat Nat).cloneImpl = .ok ⟨3, [(1, 10), (2, 20)], true⟩ := by rfl
end C16
