/-
  C16 — a clone is observationally identical to the original, then independent.

  `RawLRU::clone` rebuilds the cache entry by entry with `put` (raw.rs:200, repaired to walk the list and not the
  hash index); `SegmentedCache` and `WTinyLFUCache` clone their parts; `TinyLFU`, the sketch rows and the doorkeeper
  are plain data. The theorems say the rebuilt object *equals* the original as a model state — same capacities,
  contents, values, recency order in every segment, callback flag, estimator — for every well-formed state, so every
  operation sequence applied to both gives identical results (`*_lockstep`, any history). Independence afterwards is
  structural in the model (values, no sharing); on the real code it is the harness's job: clone, drive both, drop one
  (`clone` / `clonefrom` / `swap` / `dropalt` operations, allocator balance at the end).
-/
import Caches.Lemmas.Reach
set_option linter.unusedSectionVars false
namespace C16
open M M.RawLru
variable {κ ν : Type} [DecidableEq κ]

/-- the clone of a well-formed RawLRU is the same cache: capacity, entries, values, order, callback flag -/
theorem rawlru_clone_eq (c : RawLru κ ν) (h : c.Inv) : c.cloneImpl = .ok c := clone_eq c h

/-- hence every operation gives the same answer on both (the model is a pure function of the state) -/
theorem rawlru_clone_lockstep (c c' : RawLru κ ν) (h : c.Inv) (hc : c.cloneImpl = .ok c') (k : κ) (v : ν) :
    c'.put k v = c.put k v ∧ c'.get k = c.get k ∧ c'.remove k = c.remove k := by
  rw [clone_eq c h] at hc; injection hc with hc; subst hc; exact ⟨rfl, rfl, rfl⟩

/-- any history applied to the clone and to the original ends in the same state -/
theorem rawlru_clone_history (c c' : RawLru κ ν) (h : c.Inv) (hc : c.cloneImpl = .ok c') (ops : List (RawOp κ ν)) :
    runOps RawLru.step c' ops = runOps RawLru.step c ops := by
  rw [clone_eq c h] at hc; injection hc with hc; subst hc; rfl

/-- the clone of a clone taken at any point of any history equals the state at that point -/
theorem rawlru_clone_anywhere (cap : Nat) (cb : Bool) (c0 : RawLru κ ν) (h0 : RawLru.new cap cb = some c0)
    (ops : List (RawOp κ ν)) : ∃ c, runOps RawLru.step c0 ops = .ok c ∧ c.cloneImpl = .ok c := by
  obtain ⟨c, hr, hi⟩ := runOps_inv RawLru.step RawLru.Inv RawLru.step_inv ops c0 (RawLru.inv_new cap cb c0 h0)
  exact ⟨c, hr, clone_eq c hi⟩

/-- SegmentedCache: both segments, with their own capacities -/
theorem slru_clone_eq (s : Slru κ ν) (h : s.Inv) : s.cloneImpl = .ok s := Slru.clone_eq s h

theorem slru_clone_history (s s' : Slru κ ν) (h : s.Inv) (hc : s.cloneImpl = .ok s') (ops : List (SlruOp κ ν)) :
    runOps Slru.step s' ops = runOps Slru.step s ops ∧ s'.cap = s.cap ∧ s'.prot.cap = s.prot.cap := by
  rw [Slru.clone_eq s h] at hc; injection hc with hc; subst hc; exact ⟨rfl, rfl, rfl⟩

/-- WTinyLFUCache: window, main cache and the estimator (sketch rows, doorkeeper bits, window counter) -/
theorem wtinylfu_clone_eq (c : WTinyLfu κ ν) (h : c.Inv) : c.cloneImpl = .ok c := WTinyLfu.clone_eq c h

theorem wtinylfu_clone_history (kh : κ → UInt64) (c c' : WTinyLfu κ ν) (h : c.Inv) (hc : c.cloneImpl = .ok c')
    (ops : List (CacheOp κ ν)) :
    runOps (WTinyLfu.step kh) c' ops = runOps (WTinyLfu.step kh) c ops ∧ c'.est = c.est := by
  rw [WTinyLfu.clone_eq c h] at hc; injection hc with hc; subst hc; exact ⟨rfl, rfl⟩

example : (⟨3, [(1, 10), (2, 20)], true⟩ : RawLru Nat Nat).cloneImpl = .ok ⟨3, [(1, 10), (2, 20)], true⟩ := by rfl
example : ({ prob := ⟨2, [(1, 10)], false⟩, prot := ⟨3, [(2, 20)], false⟩ } : Slru Nat Nat).cloneImpl
    = .ok { prob := ⟨2, [(1, 10)], false⟩, prot := ⟨3, [(2, 20)], false⟩ } := by rfl
end C16
