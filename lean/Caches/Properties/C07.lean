/- C07 — segmented LRU policy (initial statements; the full step = spec theorems follow the SLRU backbone) -/
import Caches.Model.Slru
import Caches.Lemmas.RawLru
namespace C07
open M
variable {κ ν : Type} [DecidableEq κ]

/-- a key found in neither segment enters the probationary segment (as `RawLru.put` there), protected is untouched -/
theorem new_enters_probationary (s : Slru κ ν) (k : κ) (v : ν)
    (hq : find k s.prot.items = none) (hp : find k s.prob.items = none) :
    s.put k v = (match s.prob.put k v with
      | .error f => .error f
      | .ok (prob', r, e) => .ok (r, { s with prob := prob' }, e.drops)) := by
  unfold Slru.put RawLru.contains; simp only [hq, hp]; rfl

/-- a hit on a protected entry only refreshes it: probationary unchanged, entry at the protected head -/
theorem hit_protected_refreshes (s : Slru κ ν) (k : κ) (v old : ν) (hq : find k s.prot.items = some old) :
    s.put k v = .ok (.update old, { s with prot := { s.prot with items := (k, v) :: erase k s.prot.items } }, [.key k]) := by
  unfold Slru.put; simp [hq, RawLru.update, use]
end C07
