/-
  C07 — SegmentedCache follows the segmented-LRU policy.
  `SlruSpec` is the policy as the property text states it; the theorems say that on every well-formed cache
  (all capacity pairs ≥ 1, all contents) the model of the code computes exactly that, and draw the corollaries
  the property names: new keys enter probationary; a hit in probationary promotes; a hit in protected only refreshes;
  a demotion never evicts; only probationary's LRU is ever evicted for a new key; `put_protected` places the key in
  protected and nowhere else.
-/
import Caches.Lemmas.Slru
import Caches.Props.SlruSpec
import Caches.Props.SlruMachine
import Caches.Lemmas.Reach
set_option linter.unusedSectionVars false
set_option linter.unusedVariables false
namespace C07
open M
variable {κ ν : Type} [DecidableEq κ]

theorem promote_eq_spec (s : Slru κ ν) (k : κ) (w : Option ν) (old : ν) (h : s.Inv) (hf : find k s.prob.items = some old) :
    ∃ s', s.promote k w = .ok (some old, s') ∧
      (s'.prob.items, s'.prot.items) = SlruSpec.promote s.prob.items s.prot.items s.prot.cap k (w.getD old) ∧
      s'.prob.cap = s.prob.cap ∧ s'.prot.cap = s.prot.cap := by
  rcases Slru.promote_spec s k w old h hf with ⟨hroom, hp⟩ | ⟨hfull, dem, hd, hp⟩
  · refine ⟨_, hp, ?_, rfl, rfl⟩
    unfold SlruSpec.promote
    have : ¬ s.prot.items.length ≥ s.prot.cap := by omega
    simp only [this, if_false]
  · refine ⟨_, hp, ?_, rfl, rfl⟩
    unfold SlruSpec.promote
    have : s.prot.items.length ≥ s.prot.cap := by omega
    simp only [this, if_true, hd]

/-- **`put` = the policy** -/
theorem put_eq_spec (s : Slru κ ν) (k : κ) (v : ν) (h : s.Inv) :
    ∃ r s' d, s.put k v = .ok (r, s', d) ∧
      (s'.prob.items, s'.prot.items, r) = SlruSpec.put s.prob.items s.prot.items s.prob.cap s.prot.cap k v := by
  unfold Slru.put SlruSpec.put
  cases hq : find k s.prot.items with
  | some old => exact ⟨_, _, _, rfl, by simp [RawLru.update, use]⟩
  | none =>
    simp only
    cases hp : find k s.prob.items with
    | some old =>
      obtain ⟨s', hpr, heq, _, _⟩ := promote_eq_spec s k (some v) old h hp
      simp only [RawLru.contains, hp, Option.isSome_some, if_true, hpr]
      refine ⟨_, _, _, rfl, ?_⟩
      simp only [Option.getD_some] at heq
      rw [← heq]
    | none =>
      simp only [RawLru.contains, hp, Option.isSome_none, Bool.false_eq_true, if_false]
      have hp0 : s.prob.cap ≠ 0 := by have := h.pp; omega
      by_cases hfull : s.prob.items.length = s.prob.cap
      · obtain ⟨lru, hl⟩ := getLast?_some_of_pos s.prob.items (by have := h.pp; omega)
        simp only [RawLru.put_absent_full s.prob k v lru hp hfull hp0 hl]
        refine ⟨_, _, _, rfl, ?_⟩
        have : s.prob.items.length ≥ s.prob.cap := by omega
        simp only [this, if_true, hl]
      · have hroom : s.prob.items.length < s.prob.cap := by have := h.bp; omega
        simp only [RawLru.put_absent_room s.prob k v hp hroom]
        refine ⟨_, _, _, rfl, ?_⟩
        have : ¬ s.prob.items.length ≥ s.prob.cap := by omega
        simp only [this, if_false]

/-- **`get` / `get_mut` = the policy** -/
theorem get_eq_spec (s : Slru κ ν) (k : κ) (w : Option ν) (h : s.Inv) :
    ∃ r s', s.getMut k w = .ok (r, s') ∧
      (s'.prob.items, s'.prot.items, r) = SlruSpec.get s.prob.items s.prot.items s.prot.cap k w := by
  unfold Slru.getMut RawLru.getMut SlruSpec.get
  cases hq : find k s.prot.items with
  | some old => exact ⟨_, _, rfl, by simp [use]⟩
  | none =>
    simp only
    cases hp : find k s.prob.items with
    | none => exact ⟨_, _, rfl, rfl⟩
    | some old =>
      obtain ⟨s', hpr, heq, _, _⟩ := promote_eq_spec s k w old h hp
      simp only [hpr]
      refine ⟨_, _, rfl, ?_⟩
      rw [← heq]

/-- new keys enter the probationary segment (its most-recent end); protected is untouched -/
theorem new_enters_probationary (s : Slru κ ν) (k : κ) (v : ν) (h : s.Inv)
    (hq : find k s.prot.items = none) (hp : find k s.prob.items = none) :
    ∃ r s' d, s.put k v = .ok (r, s', d) ∧ s'.prob.items.head? = some (k, v) ∧ s'.prot.items = s.prot.items := by
  obtain ⟨r, s', d, hput, heq⟩ := put_eq_spec s k v h
  refine ⟨r, s', d, hput, ?_⟩
  unfold SlruSpec.put at heq
  simp only [hq, hp] at heq
  split at heq
  · split at heq <;> (injection heq with h1 h2; injection h2 with h2 _; rw [h1, h2]; simp)
  · injection heq with h1 h2; injection h2 with h2 _; rw [h1, h2]; simp

/-- only the least-recent probationary entry is ever evicted to admit a new key -/
theorem only_prob_lru_evicted (s : Slru κ ν) (k : κ) (v : ν) (h : s.Inv) (r : PutResult κ ν) (s' : Slru κ ν) (d : List (Obj κ ν))
    (hput : s.put k v = .ok (r, s', d)) (ek : κ) (ev : ν) (hr : r = .evicted ek ev) :
    s.prob.items.getLast? = some (ek, ev) ∧ find k s.prob.items = none ∧ find k s.prot.items = none ∧
      s'.prot.items = s.prot.items := by
  obtain ⟨r0, s0, d0, hput0, heq⟩ := put_eq_spec s k v h
  rw [hput] at hput0; injection hput0 with h1; injection h1 with hr0 h2; injection h2 with hs0 _
  subst hr0; subst hs0; subst hr
  unfold SlruSpec.put at heq
  cases hq : find k s.prot.items with
  | some old => simp [hq] at heq
  | none =>
    cases hp : find k s.prob.items with
    | some old => simp [hq, hp] at heq
    | none =>
      simp only [hq, hp] at heq
      split at heq
      · cases hl : s.prob.items.getLast? with
        | none => simp [hl] at heq
        | some lru =>
          simp only [hl] at heq
          injection heq with h1 h2; injection h2 with h2 h3
          injection h3 with h3 h4
          exact ⟨by rw [h3, h4], rfl, rfl, h2⟩
      · simp at heq

/-- a demotion never evicts: a hit (get / get_mut / put on a resident key) keeps exactly the same set of keys -/
theorem hit_keeps_all_keys (s : Slru κ ν) (k : κ) (w : Option ν) (h : s.Inv) (r : Option ν) (s' : Slru κ ν)
    (hg : s.getMut k w = .ok (r, s')) : ∀ x, Slru.Held s' x ↔ Slru.Held s x :=
  Slru.getMut_held s s' k w r h hg

/-- a hit on a protected entry only refreshes it: probationary unchanged, the entry moves to protected's most-recent end -/
theorem hit_protected_refreshes (s : Slru κ ν) (k : κ) (v old : ν) (hq : find k s.prot.items = some old) :
    s.put k v = .ok (.update old, { s with prot := { s.prot with items := (k, v) :: erase k s.prot.items } }, [.key k]) := by
  unfold Slru.put; simp [hq, RawLru.update, use]

/-- a hit on a probationary entry promotes it to the most-recent end of protected -/
theorem hit_probationary_promotes (s : Slru κ ν) (k : κ) (w : Option ν) (old : ν) (h : s.Inv)
    (hq : find k s.prot.items = none) (hp : find k s.prob.items = some old) :
    ∃ s', s.getMut k w = .ok (some old, s') ∧ s'.prot.items.head? = some (k, w.getD old) ∧ k ∉ keys s'.prob.items := by
  have ef := erase_facts _ k old hp h.ndp
  have hkq := (find_none_iff k _).1 hq
  unfold Slru.getMut RawLru.getMut
  simp only [hq, hp]
  rcases Slru.promote_spec s k w old h hp with ⟨_, hpr⟩ | ⟨_, dem, hd, hpr⟩
  · exact ⟨_, hpr, by simp, ef.2.1⟩
  · refine ⟨_, hpr, by simp, ?_⟩
    have lf := last_facts _ _ hd h.ndq
    simp only [keys_cons', List.mem_cons, not_or]
    exact ⟨fun hc => hkq (hc ▸ lf.1), ef.2.1⟩

/-- `put_protected` places the key in the protected segment and nowhere else -/
theorem putProtected_only_protected (s : Slru κ ν) (k : κ) (v : ν) (h : s.Inv) :
    ∃ r s' d, s.putProtected k v = .ok (r, s', d) ∧ s'.Inv ∧ k ∈ keys s'.prot.items ∧ k ∉ keys s'.prob.items := by
  obtain ⟨r, s', d, hp, hi, _, hin, hnot⟩ := Slru.putProtected_total_inv s k v h
  exact ⟨r, s', d, hp, hi, hin, hnot⟩

/-- the per-segment accessors behave as the plain-LRU ones on the named segment -/
theorem segment_accessors (s : Slru κ ν) :
    s.prob.peekLru = s.prob.items.getLast? ∧ s.prob.peekMru = s.prob.items.head? ∧
    s.prot.peekLru = s.prot.items.getLast? ∧ s.prot.peekMru = s.prot.items.head? := ⟨rfl, rfl, rfl, rfl⟩

/-- non-vacuity: promotion with demotion on a concrete full cache -/
example : SlruSpec.promote [(1, 10), (2, 20)] [(3, 30)] 1 2 (20 : Nat) = ([(3, 30), (1, 10)], [(2, 20)]) := by decide
/-! ### the other entry points, and every history -/

/-- **`remove` = the policy** (the repaired code looks in probationary first) -/
theorem remove_eq_spec (s : Slru κ ν) (k : κ) :
    ((s.remove k).1.prob.items, (s.remove k).1.prot.items, (s.remove k).2.1) = SlruSpec.remove s.prob.items s.prot.items k := by
  unfold Slru.remove RawLru.remove SlruSpec.remove
  cases hp : find k s.prob.items <;> cases hq : find k s.prot.items <;> simp

/-- **`put_protected` = the policy** -/
theorem putProtected_eq_spec (s : Slru κ ν) (k : κ) (v : ν) (h : s.Inv) :
    ∃ r s' d, s.putProtected k v = .ok (r, s', d) ∧
      (s'.prob.items, s'.prot.items) = SlruSpec.putProtected s.prob.items s.prot.items s.prot.cap k v := by
  have hq0 : s.prot.cap ≠ 0 := by have := h.pq; omega
  unfold Slru.putProtected RawLru.remove SlruSpec.putProtected
  cases hp : find k s.prob.items <;> cases hq : find k s.prot.items
  all_goals simp only []
  all_goals first
    | (simp only [RawLru.put_present _ k v _ hq]; exact ⟨_, _, _, rfl, rfl⟩)
    | (by_cases hfull : s.prot.items.length = s.prot.cap
       · obtain ⟨lru, hl⟩ := getLast?_some_of_pos s.prot.items (by have := h.pq; omega)
         simp only [RawLru.put_absent_full s.prot k v lru hq hfull hq0 hl]
         have : s.prot.items.length ≥ s.prot.cap := by omega
         simp only [this, if_true]
         exact ⟨_, _, _, rfl, rfl⟩
       · have hroom : s.prot.items.length < s.prot.cap := by have := h.bq; omega
         simp only [RawLru.put_absent_room s.prot k v hq hroom]
         have : ¬ s.prot.items.length ≥ s.prot.cap := by omega
         simp only [this, if_false]
         exact ⟨_, _, _, rfl, rfl⟩)

/-- **`peek_mut` (+ write) = the policy**: values change in place, nothing moves -/
theorem peekMut_eq_spec (s : Slru κ ν) (k : κ) (w : Option ν) :
    ((s.peekMut k w).1.prob.items, (s.peekMut k w).1.prot.items) = SlruSpec.peekMut s.prob.items s.prot.items k w := by
  unfold Slru.peekMut RawLru.peekMut SlruSpec.peekMut
  cases hp : find k s.prob.items <;> cases hq : find k s.prot.items <;> cases w <;> simp

/-- **every operation = the policy**, on every well-formed cache -/
theorem step_eq_spec (s : Slru κ ν) (o : SlruOp κ ν) (h : s.Inv) :
    ∃ s', s.step o = .ok s' ∧
      (s'.prob.items, s'.prot.items) = SlruSpec.step s.prob.cap s.prot.cap (s.prob.items, s.prot.items) o := by
  cases o with
  | put k v =>
    obtain ⟨r, s', d, hp, he⟩ := put_eq_spec s k v h
    exact ⟨s', by simp only [Slru.step, hp], by simp only [SlruSpec.step, ← he]⟩
  | putProtected k v =>
    obtain ⟨r, s', d, hp, he⟩ := putProtected_eq_spec s k v h
    exact ⟨s', by simp only [Slru.step, hp], by simp only [SlruSpec.step, ← he]⟩
  | getMut k w =>
    obtain ⟨r, s', hp, he⟩ := get_eq_spec s k w h
    exact ⟨s', by simp only [Slru.step, hp], by simp only [SlruSpec.step, ← he]⟩
  | peekMut k w => exact ⟨_, rfl, by simp only [SlruSpec.step, ← peekMut_eq_spec]⟩
  | remove k => exact ⟨_, rfl, by simp only [SlruSpec.step, ← remove_eq_spec]⟩
  | purge =>
    refine ⟨{ prob := { s.prob with items := [] }, prot := { s.prot with items := [] } }, ?_, rfl⟩
    simp only [Slru.step, Slru.purge, RawLru.purge_spec]
  | removeLruProb =>
    refine ⟨_, rfl, ?_⟩
    simp only [SlruSpec.step, Slru.removeLruFromProbationary, RawLru.removeLru, RawLru.removeLruIn]
    cases hl : s.prob.items.getLast? with
    | none => simp only [List.getLast?_eq_none_iff.1 hl, List.dropLast_nil]
    | some e => rfl
  | removeLruProt =>
    refine ⟨_, rfl, ?_⟩
    simp only [SlruSpec.step, Slru.removeLruFromProtected, RawLru.removeLru, RawLru.removeLruIn]
    cases hl : s.prot.items.getLast? with
    | none => simp only [List.getLast?_eq_none_iff.1 hl, List.dropLast_nil]
    | some e => rfl
  | clone => exact ⟨s, Slru.clone_eq s h, rfl⟩
  | read => exact ⟨s, rfl, rfl⟩

/-- **refinement over every history**: from any accepted constructor, any sequence of public operations runs
    without a fault and leaves the two segments holding exactly what the segmented-LRU policy, folded over the
    same sequence from two empty lists, says — entry by entry, in recency order -/
theorem history_eq_spec (p q : Nat) (s0 : Slru κ ν) (hn : Slru.new p q = some s0) (ops : List (SlruOp κ ν)) :
    ∃ s', runOps Slru.step s0 ops = .ok s' ∧
      (s'.prob.items, s'.prot.items) = ops.foldl (SlruSpec.step p q) ([], []) := by
  obtain ⟨hi0, hp0, hq0⟩ := Slru.inv_new p q s0 hn
  have hl0 : (s0.prob.items, s0.prot.items) = (([], []) : AL κ ν × AL κ ν) := by
    unfold Slru.new at hn; split at hn; · cases hn
    split at hn; · cases hn
    injection hn with hn; subst hn; rfl
  suffices H : ∀ (ops : List (SlruOp κ ν)) (s : Slru κ ν) (PQ : AL κ ν × AL κ ν), Slru.InvC p q s →
      (s.prob.items, s.prot.items) = PQ →
      ∃ s', runOps Slru.step s ops = .ok s' ∧ (s'.prob.items, s'.prot.items) = ops.foldl (SlruSpec.step p q) PQ from
    H ops s0 _ ⟨hi0, hp0, hq0⟩ hl0
  intro ops
  induction ops with
  | nil => intro s PQ _ he; exact ⟨s, rfl, he⟩
  | cons o rest ih =>
    intro s PQ hc he
    obtain ⟨s1, h1, hc1⟩ := Slru.step_invC p q s o hc
    obtain ⟨s1', h1', he1⟩ := step_eq_spec s o hc.1
    rw [h1] at h1'; injection h1' with h1'; subst h1'
    rw [hc.2.1, hc.2.2, he] at he1
    obtain ⟨s2, h2, he2⟩ := ih s1 _ hc1 he1
    exact ⟨s2, by simp only [runOps, h1, h2], by simp only [List.foldl_cons, he2]⟩

/-- non-vacuity of the history theorem: a concrete history through promotion, demotion, `put_protected`, removal -/
example : [SlruOp.put 1 10, .put 2 20, .getMut 1 none, .getMut 2 none, .putProtected 3 30, .put 4 40, .remove 2].foldl
    (SlruSpec.step 2 1) (([], []) : AL Nat Nat × AL Nat Nat) = ([(4, 40), (1, 10)], [(3, 30)]) := by decide
end C07
