/-
  C10 — WTinyLFUCache: window → TinyLFU admission filter → segmented main cache.
  `WtSpec` is the policy as the property text states it; on every well-formed cache (all capacity triples ≥ 1, every
  well-formed estimator, every key hasher `kh`) the model of the code computes exactly that, with the verdict being the
  estimator's own `lt` at decision time.
-/
import Caches.Lemmas.WTinyLfu
import Caches.Props.WtSpec
import Caches.Props.WtMachine
import Caches.Lemmas.Reach
import Caches.Properties.C07
set_option linter.unusedSectionVars false
set_option linter.unusedVariables false
set_option linter.unusedSimpArgs false
namespace C10
open M
variable {κ ν : Type} [DecidableEq κ]

def view (c : WTinyLfu κ ν) : WtSpec.St κ ν := { w := c.window.items, p := c.main.prob.items, q := c.main.prot.items }

/-- the estimator's verdict as a boolean (total on well-formed estimators, see `TinyLfu.compare_total`) -/
def ltOf (c : WTinyLfu κ ν) (kh : κ → UInt64) (a b : κ) : Bool :=
  match c.est.lt (kh a) (kh b) with
  | .ok r => r
  | .error _ => false

/-- the verdict is exactly "estimate of the candidate < estimate of the victim" -/
theorem ltOf_spec (c : WTinyLfu κ ν) (kh : κ → UInt64) (a b : κ) (h : c.est.WF) :
    ∃ ea eb, c.est.estimate (kh a) = .ok ea ∧ c.est.estimate (kh b) = .ok eb ∧ ltOf c kh a b = decide (ea < eb) := by
  obtain ⟨ea, ba, ha, _⟩ := TinyLfu.estimate_spec c.est h (kh a)
  obtain ⟨eb, bb, hb, _⟩ := TinyLfu.estimate_spec c.est h (kh b)
  refine ⟨_, _, ha, hb, ?_⟩
  unfold ltOf TinyLfu.lt TinyLfu.compare TinyLfu.compareHelper
  rw [ha, hb]; rfl

/-- `put_protected` of a key that is in neither segment, protected having room: the key goes to protected's head -/
theorem putProtected_fresh (s : Slru κ ν) (k : κ) (v : ν)
    (hp : find k s.prob.items = none) (hq : find k s.prot.items = none) (hroom : s.prot.items.length < s.prot.cap) :
    s.putProtected k v = .ok (.put, { s with prot := { s.prot with items := (k, v) :: s.prot.items } }, []) := by
  unfold Slru.putProtected RawLru.remove
  simp only [hp, RawLru.put_absent_room s.prot k v hq hroom]

theorem slru_put_view (m : Slru κ ν) (k : κ) (v : ν) (h : m.Inv) :
    ∃ r m' d, m.put k v = .ok (r, m', d) ∧
      (m'.prob.items, m'.prot.items, r) = SlruSpec.put m.prob.items m.prot.items m.prob.cap m.prot.cap k v :=
  C07.put_eq_spec m k v h

/-- **`put` = the policy** -/
theorem put_eq_spec (c : WTinyLfu κ ν) (kh : κ → UInt64) (k : κ) (v : ν) (h : c.Inv) :
    ∃ r c' d, c.put kh k v = .ok (r, c', d) ∧
      (view c', r) = WtSpec.put (view c) c.window.cap c.main.prob.cap c.main.prot.cap (ltOf c kh) k v ∧ c'.est = c.est := by
  obtain ⟨wnd, wb, wpos, mi, dw, ei⟩ := h
  unfold WTinyLfu.put RawLru.remove WtSpec.put
  simp only [view]
  cases hw : find k c.window.items with
  | none =>
    simp only
    by_cases hmc : c.main.contains k = true
    · have hspec : ((find k c.main.prot.items).isSome || (find k c.main.prob.items).isSome) = true := by
        unfold Slru.contains RawLru.contains at hmc; exact hmc
      simp only [hmc, if_true, hspec]
      obtain ⟨r, m', d, hp, heq⟩ := slru_put_view c.main k v mi
      simp only [hp]
      refine ⟨_, _, _, rfl, ?_, rfl⟩
      rw [← heq]
    · have hmc' : c.main.contains k = false := by simpa using hmc
      have hspec : ((find k c.main.prot.items).isSome || (find k c.main.prob.items).isSome) = false := by
        unfold Slru.contains RawLru.contains at hmc'; exact hmc'
      simp only [hmc', Bool.false_eq_true, if_false, hspec]
      have h0 : c.window.cap ≠ 0 := by omega
      by_cases hfull : c.window.items.length = c.window.cap
      · obtain ⟨cand, hl⟩ := getLast?_some_of_pos c.window.items (by omega)
        have hnl : ¬ c.window.items.length < c.window.cap := by omega
        simp only [RawLru.put_absent_full c.window k v cand hw hfull h0 hl, hnl, if_false, hl]
        obtain ⟨r, m', d, hp, heq⟩ := slru_put_view c.main cand.1 cand.2 mi
        have hlen : (c.main.len < c.main.cap) = (c.main.prot.items.length + c.main.prob.items.length < c.main.prot.cap + c.main.prob.cap) := rfl
        by_cases hroom : c.main.len < c.main.cap
        · have hroom' : c.main.prot.items.length + c.main.prob.items.length < c.main.prot.cap + c.main.prob.cap := hroom
          simp only [hroom, if_true, hp, hroom']
          refine ⟨_, _, _, rfl, ?_, rfl⟩
          rw [← heq]
        · have hroom' : ¬ c.main.prot.items.length + c.main.prob.items.length < c.main.prot.cap + c.main.prob.cap := hroom
          simp only [hroom, if_false, hroom', RawLru.peekLru]
          cases hv : c.main.prob.items.getLast? with
          | none =>
            simp only [hp]
            refine ⟨_, _, _, rfl, ?_, rfl⟩
            rw [← heq]
          | some vic =>
            simp only
            obtain ⟨b, hb⟩ := TinyLfu.compare_total c.est ei .lt (kh cand.1) (kh vic.1)
            have hlt : ltOf c kh cand.1 vic.1 = b := by unfold ltOf TinyLfu.lt; rw [hb]
            simp only [TinyLfu.lt, hb, hlt]
            cases b with
            | true => exact ⟨_, _, _, rfl, rfl, rfl⟩
            | false =>
              simp only [hp, Bool.false_eq_true, if_false]
              refine ⟨_, _, _, rfl, ?_, rfl⟩
              rw [← heq]
      · have hroom : c.window.items.length < c.window.cap := by omega
        simp only [RawLru.put_absent_room c.window k v hw hroom, hroom, if_true]
        exact ⟨_, _, _, rfl, rfl, rfl⟩
  | some old =>
    have ef := erase_facts _ k old hw wnd
    have hknm : ¬ Slru.Held c.main k := dw k ef.1
    have hkp : find k c.main.prob.items = none := (find_none_iff k _).2 (fun hc => hknm (Or.inl hc))
    have hkq : find k c.main.prot.items = none := (find_none_iff k _).2 (fun hc => hknm (Or.inr hc))
    simp only
    unfold WTinyLfu.makeProtectedRoom
    by_cases hpf : c.main.prot.items.length ≥ c.main.prot.cap
    · simp only [hpf, if_true]
      obtain ⟨ent, hl⟩ := getLast?_some_of_pos c.main.prot.items (by have := mi.pq; omega)
      have lf := last_facts _ _ hl mi.ndq
      simp only [Slru.removeLruFromProtected_spec c.main ent hl, hl]
      have hentw : find ent.1 (erase k c.window.items) = none := by
        rw [find_none_iff]
        intro hc
        exact dw ent.1 ((ef.2.2.2.1 ent.1).1 hc).1 (Or.inr lf.1)
      have hroom : ({ c.window with items := erase k c.window.items } : RawLru κ ν).items.length <
          ({ c.window with items := erase k c.window.items } : RawLru κ ν).cap := by
        have := ef.2.2.2.2; simp only; omega
      simp only [RawLru.put_absent_room _ ent.1 ent.2 hentw hroom]
      have hkq' : find k c.main.prot.items.dropLast = none := by
        rw [find_none_iff]; intro hc; exact hknm (Or.inr (lf.2.2.2.1 k hc))
      have hr2 : c.main.prot.items.dropLast.length < c.main.prot.cap := by have := lf.2.2.2.2.1; have := mi.bq; omega
      have := putProtected_fresh ({ c.main with prot := { c.main.prot with items := c.main.prot.items.dropLast } }) k v hkp hkq' hr2
      simp only [this]
      exact ⟨_, _, _, rfl, rfl, rfl⟩
    · simp only [hpf, if_false]
      have hr2 : c.main.prot.items.length < c.main.prot.cap := by omega
      simp only [putProtected_fresh c.main k v hkp hkq hr2]
      exact ⟨_, _, _, rfl, rfl, rfl⟩

/-- **`get` / `get_mut` = the policy**, and every one of them (hit or miss) records exactly one access for the key:
    the estimator becomes `increment (tryReset est) (hash k)` -/
theorem get_eq_spec (c : WTinyLfu κ ν) (kh : κ → UInt64) (k : κ) (w : Option ν) (h : c.Inv) :
    ∃ r c' est', c.getMut kh k w = .ok (r, c') ∧ c.est.tryReset.increment (kh k) = .ok est' ∧ c'.est = est' ∧
      (view c', r) = WtSpec.get (view c) c.main.prot.cap k w := by
  obtain ⟨wnd, wb, wpos, mi, dw, ei⟩ := h
  have tw := TinyLfu.tryReset_wf c.est ei
  obtain ⟨est', hinc, _, _⟩ := TinyLfu.increment_total c.est.tryReset tw.1 (kh k)
  unfold WTinyLfu.getMut WTinyLfu.record WtSpec.get
  simp only [hinc, RawLru.getMut, view]
  cases hw : find k c.window.items with
  | some old => exact ⟨_, _, _, rfl, rfl, rfl, by simp [use]⟩
  | none =>
    simp only
    obtain ⟨r, m', hg, heq⟩ := C07.get_eq_spec c.main k w mi
    simp only [hg]
    refine ⟨_, _, _, rfl, rfl, rfl, ?_⟩
    rw [← heq]

/-- `purge` clears the estimator -/
theorem purge_clears (c c' : WTinyLfu κ ν) (d : List (Obj κ ν)) (h : c.purge = .ok (c', d)) : c'.est = c.est.clear := by
  unfold WTinyLfu.purge at h
  split at h
  · simp at h
  · split at h
    · simp at h
    · injection h with h; injection h with h _; subst h; rfl

/-- peeks and `contains` do not touch the estimator (they return no state at all, or a state with the same estimator) -/
theorem peekMut_keeps_estimator (c : WTinyLfu κ ν) (k : κ) (w : Option ν) : (c.peekMut k w).1.est = c.est := by
  unfold WTinyLfu.peekMut; split <;> (try split) <;> rfl

/-- `put`, `remove` leave the estimator alone as well (only `get`/`get_mut` record, only `purge` clears) -/
theorem remove_keeps_estimator (c : WTinyLfu κ ν) (k : κ) : (c.remove k).1.est = c.est := by
  unfold WTinyLfu.remove; split <;> (try split) <;> rfl

/-- non-vacuity: main full, candidate strictly less frequent than the victim ⇒ the candidate is handed back -/
example : WtSpec.put ⟨[(3, 30)], [(2, 20)], [(1, 10)]⟩ 1 1 1 (fun a b => a == 3 && b == 2) 4 (40 : Nat) =
    (⟨[(4, 40)], [(2, 20)], [(1, 10)]⟩, .evicted 3 30) := by rfl
/-! ### the other entry points, and every history -/

/-- **`remove` = the policy** -/
theorem remove_eq_spec (c : WTinyLfu κ ν) (k : κ) :
    (view (c.remove k).1, (c.remove k).2.1) = WtSpec.remove (view c) k := by
  unfold WTinyLfu.remove RawLru.remove WtSpec.remove view
  cases hw : find k c.window.items with
  | some v => simp
  | none =>
    have := C07.remove_eq_spec c.main k
    simp only [← this]

/-- **`peek_mut` (+ write) = the policy** -/
theorem peekMut_eq_spec (c : WTinyLfu κ ν) (k : κ) (w : Option ν) :
    view (c.peekMut k w).1 = WtSpec.peekMut (view c) k w := by
  unfold WTinyLfu.peekMut RawLru.peekMut WtSpec.peekMut view
  cases hw : find k c.window.items with
  | some v => cases w <;> simp
  | none =>
    have := C07.peekMut_eq_spec c.main k w
    cases w <;> simp only [← this]

/-- **every operation = the policy**, lists and estimator, on every well-formed cache -/
theorem step_eq_spec (kh : κ → UInt64) (c : WTinyLfu κ ν) (o : CacheOp κ ν) (h : c.Inv) :
    ∃ c', WTinyLfu.step kh c o = .ok c' ∧
      (view c', c'.est) = WtSpec.stepE kh c.window.cap c.main.prob.cap c.main.prot.cap (view c, c.est) o := by
  cases o with
  | put k v =>
    obtain ⟨r, c', d, hp, he, hest⟩ := put_eq_spec c kh k v h
    refine ⟨c', by simp only [WTinyLfu.step, hp], ?_⟩
    have hv : WtSpec.verdict kh c.est = ltOf c kh := rfl
    simp only [WtSpec.stepE, WtSpec.step, WtSpec.estStep, hv, ← he, hest]
  | getMut k w =>
    obtain ⟨r, c', est', hp, hinc, hest, he⟩ := get_eq_spec c kh k w h
    refine ⟨c', by simp only [WTinyLfu.step, hp], ?_⟩
    simp only [WtSpec.stepE, WtSpec.step, WtSpec.estStep, ← he, hinc, hest]
  | peekMut k w =>
    exact ⟨_, rfl, by simp only [WtSpec.stepE, WtSpec.step, WtSpec.estStep, ← peekMut_eq_spec, peekMut_keeps_estimator]⟩
  | remove k =>
    exact ⟨_, rfl, by simp only [WtSpec.stepE, WtSpec.step, WtSpec.estStep, ← remove_eq_spec, remove_keeps_estimator]⟩
  | purge =>
    refine ⟨{ est := c.est.clear, window := { c.window with items := [] },
              main := { prob := { c.main.prob with items := [] }, prot := { c.main.prot with items := [] } } }, ?_, rfl⟩
    simp only [WTinyLfu.step, WTinyLfu.purge, Slru.purge, RawLru.purge_spec]
  | read => exact ⟨c, rfl, rfl⟩

/-- **refinement over every history**: from any well-formed cache (any part sizes, any estimator), any sequence of
    public operations runs without a fault; window, probationary and protected (entry by entry, in recency order)
    and the estimator are exactly what the W-TinyLFU policy folded over the same sequence says — the lists see the
    estimator only through its verdict, the estimator changes only on lookups and `purge` -/
theorem history_eq_spec (kh : κ → UInt64) (c0 : WTinyLfu κ ν) (h0 : c0.Inv) (ops : List (CacheOp κ ν)) :
    ∃ c', runOps (WTinyLfu.step kh) c0 ops = .ok c' ∧
      (view c', c'.est) =
        ops.foldl (WtSpec.stepE kh c0.window.cap c0.main.prob.cap c0.main.prot.cap) (view c0, c0.est) := by
  suffices H : ∀ (ops : List (CacheOp κ ν)) (c : WTinyLfu κ ν),
      WTinyLfu.InvC c0.window.cap c0.main.prob.cap c0.main.prot.cap c →
      ∃ c', runOps (WTinyLfu.step kh) c ops = .ok c' ∧
        (view c', c'.est) = ops.foldl (WtSpec.stepE kh c0.window.cap c0.main.prob.cap c0.main.prot.cap) (view c, c.est) from
    H ops c0 ⟨h0, rfl, rfl, rfl⟩
  intro ops
  induction ops with
  | nil => intro c _; exact ⟨c, rfl, rfl⟩
  | cons o rest ih =>
    intro c hc
    obtain ⟨c1, hs1, hc1⟩ := WTinyLfu.step_invC kh _ _ _ c o hc
    obtain ⟨c1', hs1', he1⟩ := step_eq_spec kh c o hc.1
    rw [hs1] at hs1'; injection hs1' with hs1'; subst hs1'
    rw [hc.2.1, hc.2.2.1, hc.2.2.2] at he1
    obtain ⟨c2, hs2, he2⟩ := ih c1 hc1
    exact ⟨c2, by simp only [runOps, hs1, hs2], by simp only [List.foldl_cons, ← he1, he2]⟩
end C10
