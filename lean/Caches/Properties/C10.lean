/- C10 — W-TinyLFU (initial statements; the full step = spec theorems follow the backbone) -/
import Caches.Model.WTinyLfu
namespace C10
open M
variable {κ ν : Type} [DecidableEq κ]

/-- every `get`/`get_mut`, hit or miss, records exactly one access: `try_reset` then `increment` on the key's hash -/
theorem get_records_access (c c1 : WTinyLfu κ ν) (kh : κ → UInt64) (k : κ) (w : Option ν)
    (r : Option ν) (c' : WTinyLfu κ ν) (h : c.getMut kh k w = .ok (r, c')) :
    ∃ est', c.est.tryReset.increment (kh k) = .ok est' ∧ c'.est = est' := by
  unfold WTinyLfu.getMut WTinyLfu.record at h
  cases hi : c.est.tryReset.increment (kh k) with
  | error f => simp [hi] at h
  | ok est' =>
    refine ⟨est', rfl, ?_⟩
    simp only [hi] at h
    split at h
    · injection h with h; injection h with _ h; subst h; rfl
    · split at h
      · simp at h
      · injection h with h; injection h with _ h; subst h; rfl

/-- `purge` clears the estimator -/
theorem purge_clears (c c' : WTinyLfu κ ν) (d : List (Obj κ ν)) (h : c.purge = .ok (c', d)) : c'.est = c.est.clear := by
  unfold WTinyLfu.purge at h
  split at h
  · simp at h
  · split at h
    · simp at h
    · injection h with h; injection h with h _; subst h; rfl

/-- peeks and `contains` do not touch the estimator (they return no state at all, or a state with the same estimator) -/
theorem peekMut_keeps_estimator (c : WTinyLfu κ ν) (k : κ) (w : Option ν) : (c.peekMut k w).1.est = c.est := by
  unfold WTinyLfu.peekMut; split <;> (try split) <;> rfl
end C10
