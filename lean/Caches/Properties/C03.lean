/-
  C03 — memory safety of the intrusive lists.
  Layer A: on every reachable list-level state no operation reads a sentinel as an entry or unwraps `None`.
  Layer B: the pointer chain (`Model/Chain`) — `attach`, `detach`, move-to-front, the reads of `(*tail).prev`, the two
  cursor walks — on chains of every length; and the pointer-level RawLRU (`Model/PtrLru`: heap of link cells, node
  payloads, hash index as a function, allocator-chosen addresses): after **every history** the chain between the two
  sentinels is well formed (distinct addresses, forward and backward links agree), the index holds exactly the chained
  nodes under their own keys, `len` is the chain length, and every address an operation dereferences is a chained node
  or a sentinel (`ptr_safe_history`, `ptr_derefs`). The real chain is audited through the `verif_audit` hook after every
  operation of every trace (forward walk = reverse of backward walk, sentinels at the ends, index ↔ chain), and freed
  memory is poisoned and quarantined by the harness allocator so that a stale read cannot go unnoticed.
-/
import Caches.Lemmas.RawLru
import Caches.Lemmas.Chain
import Caches.Lemmas.PtrRun
import Caches.Lemmas.AbortG
namespace C03
open M M.RawLru
variable {κ ν : Type} [DecidableEq κ]

/-- the read of `(*tail).prev` as an entry in `replace_or_create_node` is never a sentinel read:
    on a well-formed cache `put` cannot fail with any `Fault` -/
theorem rawlru_put_no_sentinel_read (c : RawLru κ ν) (k : κ) (v : ν) (h : c.Inv) (f : Fault) :
    c.put k v ≠ .error f := by
  obtain ⟨c', r, e, hp, _⟩ := put_total_inv c k v h
  rw [hp]; exact fun hc => by cases hc

/-- `remove_lru` on an empty list returns `None` without dereferencing the head sentinel -/
theorem rawlru_removeLru_guard (c : RawLru κ ν) (h : c.items = []) : c.removeLru = (c, none, {}) :=
  removeLru_none c h

/-- dropping the cache releases every node exactly once: the drop list has two objects per entry -/
theorem rawlru_drop_all (c : RawLru κ ν) : c.dropCache.drops.length = 2 * c.items.length := by
  unfold RawLru.dropCache
  induction c.items with
  | nil => rfl
  | cons e t ih => simp only [List.flatMap_cons, List.length_append, dropEnt, List.length_cons, List.length_nil, ih]; omega

/-! ## Layer B: the pointer chain (`head ⇄ n₁ ⇄ … ⇄ tail`), every chain length, every position -/
open M.Chain

/-- `attach` (raw.rs:1543) of a node that is not in the chain: well formed, node first -/
theorem chain_attach (h : Heap) (head tail n : Nat) (l : List Nat) (hw : WF h head tail l)
    (hn : n ∉ head :: (l ++ [tail])) : WF (attach h head n) head tail (n :: l) := attach_wf h head tail n l hw hn

/-- `detach` (raw.rs:1536) of any entry: well formed, exactly that entry unlinked -/
theorem chain_detach (h : Heap) (head tail : Nat) (l : List Nat) (hw : WF h head tail l) (n : Nat) (hn : n ∈ l) :
    WF (detach h n) head tail (l.erase n) := detach_wf h head tail l hw n hn

/-- `detach` dereferences only the node, its predecessor (head or an entry) and its successor (an entry or tail):
    never a freed or foreign address -/
theorem chain_detach_derefs (h : Heap) (head tail : Nat) (l : List Nat) (hw : WF h head tail l) (n : Nat) (hn : n ∈ l) :
    (h n).prev ∈ head :: l ∧ (h n).next ∈ l ++ [tail] := detach_derefs h head tail l hw n hn

/-- the hit path `detach; attach` is move-to-front -/
theorem chain_move_front (h : Heap) (head tail : Nat) (l : List Nat) (hw : WF h head tail l) (n : Nat) (hn : n ∈ l) :
    WF (attach (detach h n) head n) head tail (n :: l.erase n) := move_front_wf h head tail l hw n hn

/-- `(*tail).prev` read as an entry (remove_lru_in, replace_or_create_node) is an entry whenever the list is
    non-empty, and is the head sentinel exactly when it is empty — which is why both call sites test `len` first -/
theorem chain_tail_prev (h : Heap) (head tail : Nat) (l : List Nat) (hw : WF h head tail l) :
    (l ≠ [] → (h tail).prev ∈ l) ∧ (l = [] → (h tail).prev = head) := by
  have := tail_prev h head tail l hw
  constructor
  · intro hne
    rw [this, List.getLast_cons hne]; exact List.getLast_mem hne
  · intro he; subst he; simpa using this

/-- the iterator's two cursors walk exactly the entries: forwards from `(*head).next`, backwards from `(*tail).prev` -/
theorem chain_walks (h : Heap) (head tail : Nat) (l : List Nat) (hw : WF h head tail l) :
    walkNext h l.length (h head).next = l ∧ walkPrev h l.length (h tail).prev = l.reverse :=
  ⟨walkNext_wf h head tail l hw, walkPrev_wf h head tail l hw⟩

/-- refinement: unlinking node `n` is `erase` of its key on the abstract recency list -/
theorem view_erase (ent : Nat → κ × ν) (l : List Nat) (hk : (keys (l.map ent)).Nodup) (n : Nat) (hn : n ∈ l) :
    (l.erase n).map ent = erase (ent n).1 (l.map ent) := by
  induction l with
  | nil => simp at hn
  | cons a t ih =>
    by_cases ha : a = n
    · subst ha; simp [M.erase]
    · have hnt : n ∈ t := by simp only [List.mem_cons] at hn; rcases hn with hn | hn; exact absurd hn.symm ha; exact hn
      have hk' : (ent a).1 ∉ keys (t.map ent) ∧ (keys (t.map ent)).Nodup := by
        unfold keys at hk ⊢; simpa only [List.map_cons, List.nodup_cons] using hk
      have hne : (ent a).1 ≠ (ent n).1 := by
        intro hc; apply hk'.1; rw [hc]; unfold keys; simp only [List.map_map, List.mem_map]; exact ⟨n, hnt, rfl⟩
      rw [List.erase_cons_tail (by simpa using ha)]
      simp only [List.map_cons]
      rw [show ent a = ((ent a).1, (ent a).2) from rfl]
      simp only [M.erase, hne, if_false]
      rw [ih hk'.2 hnt]


/-! ## pointer-level RawLRU: every history keeps the representation invariant -/

/-- after any history, with any index function and any admissible allocator: chain well formed, index = chained nodes
    under their keys, `len` = chain length ≤ capacity -/
theorem ptr_safe_history [DecidableEq ν] (alloc : PLru κ ν → Nat) (ha : Admissible alloc) (ops : List (POp κ ν))
    (p : PLru κ ν) (l : List Nat) (h : Rep p l) :
    ∃ l', Rep (ops.foldl (pstep alloc) p) l' := by
  obtain ⟨l', _, hr, _, _⟩ := ptr_refines_history alloc ha ops p l h
  exact ⟨l', hr⟩

/-- the addresses the operations dereference are chained nodes: the index only ever answers with a chained node, and
    the node before the tail sentinel is an entry whenever `len ≠ 0` (the guard both call sites test) -/
theorem ptr_derefs (p : PLru κ ν) (l : List Nat) (h : Rep p l) :
    (∀ k n, p.idx k = some n → n ∈ l ∧ (p.heap n).prev ∈ p.head :: l ∧ (p.heap n).next ∈ l ++ [p.tail]) ∧
    (p.len ≠ 0 → (p.heap p.tail).prev ∈ l) := by
  constructor
  · intro k n hi
    have hn := ((h.idx k n).1 hi).1
    exact ⟨hn, detach_derefs _ _ _ _ h.wf n hn⟩
  · intro h0
    have hne : l ≠ [] := by intro hc; subst hc; exact h0 (by rw [h.len]; rfl)
    exact (chain_tail_prev _ _ _ _ h.wf).1 hne

/-- non-vacuity: a concrete three-node chain is well formed, and detaching its middle node leaves the two others -/
example : let h : Heap := fun x => match x with
            | 0 => ⟨0, 2⟩ | 2 => ⟨0, 3⟩ | 3 => ⟨2, 4⟩ | 4 => ⟨3, 1⟩ | _ => ⟨4, 1⟩
          WF h 0 1 [2, 3, 4] ∧ WF (detach h 3) 0 1 [2, 4] := by
  refine ⟨⟨by decide, by simp [Linked]⟩, ⟨by decide, by simp [Linked, detach, setNext, setPrev]⟩⟩

/-- non-vacuity of `Rep`: a two-node pointer-level cache whose index, payloads and links agree -/
example : Rep ({ cap := 3, heap := fun x => match x with | 0 => ⟨0, 5⟩ | 5 => ⟨0, 7⟩ | 7 => ⟨5, 1⟩ | _ => ⟨7, 1⟩,
                 ent := fun x => if x = 5 then (1, 10) else (2, 20),
                 idx := fun k => if k = 1 then some 5 else if k = 2 then some 7 else none,
                 head := 0, tail := 1, len := 2 } : PLru Nat Nat) [5, 7] := by
  refine ⟨⟨by decide, by simp [Chain.Linked]⟩, rfl, ?_, by decide⟩
  intro k n
  simp only [List.mem_cons, List.mem_nil_iff, or_false]
  constructor
  · intro h
    split at h
    · injection h with h; subst h; simp_all
    · split at h
      · injection h with h; subst h; simp_all
      · cases h
  · rintro ⟨h | h, hk⟩ <;> subst h <;> simp at hk <;> subst hk <;> simp

/-! ### composite caches: nodes moved between lists

  `Model/AbortG.lean` is a heap of nodes shared by the lists of SegmentedCache / TwoQueueCache / AdaptiveCache; the
  crate-internal node primitives (`put_nonnull`, `put_or_evict_nonnull`, `remove_and_return_ent`, `remove_lru_in`,
  attach/detach, `Box::from_raw`) raise the ghost flag `fault` when used outside their contract: linking a node that
  is already linked, unboxing a node that is still linked or already freed, reading the sentinel as an entry.
  The theorem proved for C18 (every operation from every invariant heap, aborted at any user call) contains the
  panic-free case: the flag is never raised, the node ids stay distinct (no node in two lists) and every index entry
  names a node linked in its own list. -/
section Composite
open M.AG
variable [DecidableEq κ]

/-- every history of composite-cache operations (panic-free or not) from a freshly built cache -/
theorem composite_never_misuses_nodes (cap : Nat → Nat) (hc : ∀ c, 0 < cap c) (ops : List (COp κ ν × Nat)) :
    let g := ops.foldl (fun g o => o.1.runAt o.2 g) (emptyG cap)
    g.fault = false ∧ (g.pool.map (·.id)).Nodup ∧
      ∀ c k i, (k, i) ∈ g.idx c → ∃ e ∈ chain g c, e.id = i ∧ e.key = k := by
  intro g
  have hI : AG.Inv g := history_inv ops _ (emptyG_inv cap hc)
  refine ⟨hI.nofault, hI.ids_nd, ?_⟩
  intro c k i hm
  obtain ⟨e, he, ht, hid, hk⟩ := hI.idx_in c k i hm
  exact ⟨e, List.mem_filter.2 ⟨he, by simp [ht]⟩, hid, hk⟩
end Composite

end C03
