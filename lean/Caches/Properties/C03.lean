/- C03 — memory safety of the intrusive lists (initial: Layer A guards; Layer B chain lemmas are in Lemmas/Chain) -/
import Caches.Lemmas.RawLru
namespace C03
open M M.RawLru
variable {κ ν : Type} [DecidableEq κ]

/-- the read of `(*tail).prev` as an entry in `replace_or_create_node` is never a sentinel read:
    on a well-formed cache `put` cannot fail with any `Fault` -/
theorem rawlru_put_no_sentinel_read (c : RawLru κ ν) (k : κ) (v : ν) (h : c.Inv) (f : Fault) :
    c.put k v ≠ .error f := by
  obtain ⟨c', r, e, hp, _⟩ := put_total_inv c k v h
  rw [hp]; exact fun hc => by cases hc

/-- `remove_lru` on an empty list returns `None` without dereferencing the head sentinel -/
theorem rawlru_removeLru_guard (c : RawLru κ ν) (h : c.items = []) : c.removeLru = (c, none, {}) :=
  removeLru_none c h

/-- dropping the cache releases every node exactly once: the drop list has two objects per entry -/
theorem rawlru_drop_all (c : RawLru κ ν) : c.dropCache.drops.length = 2 * c.items.length := by
  unfold RawLru.dropCache
  induction c.items with
  | nil => rfl
  | cons e t ih => simp only [List.flatMap_cons, List.length_append, dropEnt, List.length_cons, List.length_nil, ih]; omega
end C03
