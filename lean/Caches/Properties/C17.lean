/- C17 — independence of hasher, collisions and addresses.
   The model has no hasher, no hash index order and no addresses: every result is a function of the configuration and
   the history by construction. The one place where the Rust code iterates a hash map for an observable purpose is
   `Drop` (the order in which entries are released); `clone` iterates the recency list (after the repair). -/
import Caches.Lemmas.RawLru
namespace C17
open M M.RawLru
variable {κ ν : Type} [DecidableEq κ] [DecidableEq ν]

/-- whatever order the index is drained in, dropping the cache releases the same objects (as a multiset) -/
theorem drop_order_irrelevant (c : RawLru κ ν) (order : AL κ ν) (h : order.Perm c.items) (o : Obj κ ν) :
    (order.flatMap dropEnt).count o = c.dropCache.drops.count o := by
  unfold RawLru.dropCache
  exact (List.Perm.flatMap_right dropEnt h).count_eq o

/-- the clone does not depend on anything but the list: it is the cache itself -/
theorem clone_is_function_of_list (c : RawLru κ ν) (h : c.Inv) : c.cloneImpl = .ok c := clone_eq c h
end C17
