/-
  C17 — behaviour is independent of hasher, collisions and allocation addresses.

  Two layers. (1) The list-level model (Layer A) has no hasher, no bucket order and no addresses: every result is a
  function of the configuration and the history by construction; the composite caches are built from it, and the one
  place the Rust code walks a hash map for an observable purpose is `Drop` (`drop_order_irrelevant`).
  (2) The pointer-level model of RawLRU (`Model/PtrLru`, Layer B) *does* have the things the property names: a heap of
  link cells, node addresses handed out by an allocator, and a hash index used only through get / insert / remove — i.e.
  an arbitrary function `κ → Option address`. `ptr_refines_history`: for every index function, every allocator (any
  function of the state that returns an unused address) and every history, the pointer-level cache returns exactly
  what the list-level cache returns and ends in a state representing the list-level state. Hence results, eviction
  choices and order do not depend on the hasher, on collisions, or on where nodes happen to be allocated.
  On the real code the same statement is exercised by running every case under five `BuildHasher`s (incl. constant
  zero) and three key kinds and requiring identical traces.
-/
import Caches.Lemmas.PtrRun
set_option linter.unusedSectionVars false
namespace C17
open M M.RawLru M.Chain
variable {κ ν : Type} [DecidableEq κ] [DecidableEq ν]

/-- whatever order the index is drained in, dropping the cache releases the same objects (as a multiset) -/
theorem drop_order_irrelevant (c : RawLru κ ν) (order : AL κ ν) (h : order.Perm c.items) (o : Obj κ ν) :
    (order.flatMap dropEnt).count o = c.dropCache.drops.count o := by
  unfold RawLru.dropCache
  exact (List.Perm.flatMap_right dropEnt h).count_eq o

/-- the clone does not depend on anything but the list: it is the cache itself -/
theorem clone_is_function_of_list (c : RawLru κ ν) (h : c.Inv) : c.cloneImpl = .ok c := clone_eq c h

/-! ## pointer level: any index function, any allocator -/

/-- every history, any index function, any admissible allocator: the pointer-level cache ends in a state that represents
    the list-level result of the same history (restated from `Lemmas/PtrRun` so that it is audited here) -/
theorem ptr_level_equals_list_level (alloc : PLru κ ν → Nat) (ha : Admissible alloc) (ops : List (POp κ ν))
    (p : PLru κ ν) (l : List Nat) (h : Rep p l) :
    ∃ l' c', Rep (ops.foldl (pstep alloc) p) l' ∧ runOps RawLru.step (p.abs l) (ops.map POp.toRaw) = .ok c' ∧
      (ops.foldl (pstep alloc) p).abs l' = c' := ptr_refines_history alloc ha ops p l h

/-- each single operation returns at pointer level exactly what it returns at list level -/
theorem ptr_level_same_answers (alloc : PLru κ ν → Nat) (ha : Admissible alloc) (p : PLru κ ν) (l : List Nat)
    (h : Rep p l) (o : POp κ ν) : pans alloc p o = lans (p.abs l) o :=
  (ptr_refines_step alloc ha p l h o).choose_spec.choose_spec.2.2.2

/-- two runs of the same history with different allocators and different (but equally valid) index functions and
    payload placement end in the same abstract cache -/
theorem allocator_and_index_irrelevant (alloc1 alloc2 : PLru κ ν → Nat) (h1 : Admissible alloc1) (h2 : Admissible alloc2)
    (ops : List (POp κ ν)) (p1 p2 : PLru κ ν) (l1 l2 : List Nat) (r1 : Rep p1 l1) (r2 : Rep p2 l2)
    (hsame : p1.abs l1 = p2.abs l2) :
    ∃ l1' l2', Rep (ops.foldl (pstep alloc1) p1) l1' ∧ Rep (ops.foldl (pstep alloc2) p2) l2' ∧
      (ops.foldl (pstep alloc1) p1).abs l1' = (ops.foldl (pstep alloc2) p2).abs l2' := by
  obtain ⟨a1, c1, hr1, hs1, ha1⟩ := ptr_refines_history alloc1 h1 ops p1 l1 r1
  obtain ⟨a2, c2, hr2, hs2, ha2⟩ := ptr_refines_history alloc2 h2 ops p2 l2 r2
  rw [hsame, hs2] at hs1
  injection hs1 with hs1
  exact ⟨a1, a2, hr1, hr2, by rw [ha1, ha2, hs1]⟩

/-- non-vacuity: an empty pointer-level cache satisfies `Rep`, and "one past the largest address in use" is admissible
    there -/
example : Rep ({ cap := 2, heap := fun x => if x = 0 then ⟨0, 1⟩ else ⟨0, 1⟩, ent := fun _ => (0, 0), idx := fun _ => none,
                 head := 0, tail := 1, len := 0 } : PLru Nat Nat) [] :=
  ⟨⟨by decide, by simp [Linked]⟩, rfl, by intro k n; simp, by simp⟩
end C17
