/- C12 — PutResult tells the truth (initial: RawLRU) -/
import Caches.Lemmas.RawLru
namespace C12
open M M.RawLru
variable {κ ν : Type} [DecidableEq κ]

/-- the four cases of `put` on a RawLRU, each with its exact effect on the retained entries -/
theorem rawlru_put_truth (c : RawLru κ ν) (k : κ) (v : ν) (h : c.Inv) :
    (∃ old, find k c.items = some old ∧ ∃ e, c.put k v = .ok ({ c with items := (k, v) :: erase k c.items }, .update old, e)) ∨
    (find k c.items = none ∧ c.cap = 0 ∧ c.put k v = .ok (c, .evicted k v, {})) ∨
    (find k c.items = none ∧ c.items.length < c.cap ∧ ∃ e, c.put k v = .ok ({ c with items := (k, v) :: c.items }, .put, e)) ∨
    (find k c.items = none ∧ c.cap ≠ 0 ∧ ∃ lru e, c.items.getLast? = some lru ∧ lru.1 ≠ k ∧
        c.put k v = .ok ({ c with items := (k, v) :: c.items.dropLast }, .evicted lru.1 lru.2, e)) := by
  cases hf : find k c.items with
  | some old => exact Or.inl ⟨old, rfl, _, put_present c k v old hf⟩
  | none =>
    right
    by_cases h0 : c.cap = 0
    · exact Or.inl ⟨rfl, h0, put_cap_zero c k v hf h0⟩
    · right
      by_cases hfull : c.items.length = c.cap
      · right
        obtain ⟨lru, hl⟩ := getLast?_some_of_pos c.items (by omega)
        have hk := (find_none_iff k _).1 hf
        have lf := last_facts _ _ hl h.nd
        exact ⟨rfl, h0, lru, _, hl, fun hc => hk (hc ▸ lf.1), put_absent_full c k v lru hf hfull h0 hl⟩
      · have := h.bound
        exact Or.inl ⟨rfl, by omega, _, put_absent_room c k v hf (by omega)⟩

/-! `PutResult` itself: the hand-written `PartialEq`/`Clone` mirrored branch by branch -/
def peq (eqk : κ → κ → Bool) (eqv : ν → ν → Bool) : PutResult κ ν → PutResult κ ν → Bool
  | .put, .put => true
  | .put, _ => false
  | .update a, .update b => eqv b a
  | .update _, _ => false
  | .evicted k v, .evicted k' v' => eqk k k' && eqv v v'
  | .evicted _ _, _ => false
  | .evictedAndUpdate k v o, .evictedAndUpdate k' v' o' => eqk k k' && eqv v v' && eqv o o'
  | .evictedAndUpdate _ _ _, _ => false

def pclone (ck : κ → κ) (cv : ν → ν) : PutResult κ ν → PutResult κ ν
  | .put => .put
  | .update o => .update (cv o)
  | .evicted k v => .evicted (ck k) (cv v)
  | .evictedAndUpdate k v o => .evictedAndUpdate (ck k) (cv v) (cv o)

/-- with lawful payload equality, two results are `==` exactly when they are the same variant with equal payloads -/
theorem peq_iff_eq [DecidableEq ν] (a b : PutResult κ ν) :
    peq (fun x y => decide (x = y)) (fun x y => decide (x = y)) a b = true ↔ a = b := by
  cases a <;> cases b <;> simp [peq] <;> grind

theorem pclone_eq (a : PutResult κ ν) : pclone id id a = a := by cases a <;> rfl
end C12
