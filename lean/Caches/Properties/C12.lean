/-
  C12 — PutResult tells the truth about what a put did.

  `PutTruth ret ret' k v r` (Lemmas/PutTruth.lean) is the claim a `PutResult` makes about the retained entries before
  and after: `Put` — key not retained, nothing left; `Update old` — key retained with `old`, only its entry changed;
  `Evicted ek ev` — key not retained, exactly `(ek, ev)` left; `EvictedAndUpdate` — both.
  Retained = resident ∪ ghost (2Q, ARC). The theorems hold for every well-formed state, hence (C01/C05 reachability)
  after every history. ARC never reports an eviction; what may leave silently is characterised in `arc_put_truth`.
-/
import Caches.Lemmas.RawLru
import Caches.Lemmas.PutTruth
import Caches.Lemmas.ArcTruth
import Caches.Lemmas.CohWt
import Caches.Lemmas.CohTwoQ
import Caches.Lemmas.CohArc
import Caches.Lemmas.Reach
set_option linter.unusedSectionVars false
set_option linter.unusedVariables false
namespace C12
open M M.RawLru
variable {κ ν : Type} [DecidableEq κ]

/-- the four cases of `put` on a RawLRU, each with its exact effect on the retained entries -/
theorem rawlru_put_truth (c : RawLru κ ν) (k : κ) (v : ν) (h : c.Inv) :
    (∃ old, find k c.items = some old ∧ ∃ e, c.put k v = .ok ({ c with items := (k, v) :: erase k c.items }, .update old, e)) ∨
    (find k c.items = none ∧ c.cap = 0 ∧ c.put k v = .ok (c, .evicted k v, {})) ∨
    (find k c.items = none ∧ c.items.length < c.cap ∧ ∃ e, c.put k v = .ok ({ c with items := (k, v) :: c.items }, .put, e)) ∨
    (find k c.items = none ∧ c.cap ≠ 0 ∧ ∃ lru e, c.items.getLast? = some lru ∧ lru.1 ≠ k ∧
        c.put k v = .ok ({ c with items := (k, v) :: c.items.dropLast }, .evicted lru.1 lru.2, e)) := by
  cases hf : find k c.items with
  | some old => exact Or.inl ⟨old, rfl, _, put_present c k v old hf⟩
  | none =>
    right
    by_cases h0 : c.cap = 0
    · exact Or.inl ⟨rfl, h0, put_cap_zero c k v hf h0⟩
    · right
      by_cases hfull : c.items.length = c.cap
      · right
        obtain ⟨lru, hl⟩ := getLast?_some_of_pos c.items (by omega)
        have hk := (find_none_iff k _).1 hf
        have lf := last_facts _ _ hl h.nd
        exact ⟨rfl, h0, lru, _, hl, fun hc => hk (hc ▸ lf.1), put_absent_full c k v lru hf hfull h0 hl⟩
      · have := h.bound
        exact Or.inl ⟨rfl, by omega, _, put_absent_room c k v hf (by omega)⟩

/-! `PutResult` itself: the hand-written `PartialEq`/`Clone` mirrored branch by branch -/
/-- with lawful payload equality, two results are `==` exactly when they are the same variant with equal payloads -/
theorem peq_iff_eq [DecidableEq ν] (a b : PutResult κ ν) :
    PutResult.peq (fun x y => decide (x = y)) (fun x y => decide (x = y)) a b = true ↔ a = b := by
  cases a <;> cases b <;> simp [PutResult.peq] <;> grind

theorem pclone_eq (a : PutResult κ ν) : PutResult.pclone id id a = a := by cases a <;> rfl
/-! ## the claim of the result against the retained entries, every cache -/

/-- RawLRU (capacity ≥ 1): the result is true of the list before and after -/
theorem rawlru_put_claim (c : RawLru κ ν) (k : κ) (v : ν) (h : c.Inv) (h0 : c.cap ≠ 0) :
    ∃ c' r e, c.put k v = .ok (c', r, e) ∧ PutTruth c.items c'.items k v r ∧ c'.peek k = some v := by
  obtain ⟨er, ab, sp, lk, fm, un, nil⟩ := facts2 k c.items h.nd
  rcases rawlru_put_truth c k v h with ⟨old, hf, e, hp⟩ | ⟨hf, hc, _⟩ | ⟨hf, hroom, e, hp⟩ | ⟨hf, _, lru, e, hl, hne, hp⟩
  · refine ⟨_, _, _, hp, ?_, by simp [RawLru.peek, find]⟩
    truth_leaf
  · exact absurd hc h0
  · refine ⟨_, _, _, hp, ?_, by simp [RawLru.peek, find]⟩
    truth_leaf
  · refine ⟨_, _, _, hp, ?_, by simp [RawLru.peek, find]⟩
    have hce : (lru.1, lru.2) = lru := rfl
    truth_leaf

/-- SegmentedCache -/
theorem slru_put_claim (s : Slru κ ν) (k : κ) (v : ν) (h : s.Inv) :
    ∃ r s' d, s.put k v = .ok (r, s', d) ∧ PutTruth s.ents s'.ents k v r ∧ (k, v) ∈ s'.ents := by
  obtain ⟨r, s', d, hp, heq⟩ := C07.put_eq_spec s k v h
  have ht := SlruSpec.put_truth _ _ _ _ k v h.ndp h.ndq h.disj _ _ _ heq.symm
  refine ⟨r, s', d, hp, ht, ?_⟩
  unfold Slru.ents at ht ⊢
  cases r <;> (simp only [PutTruth] at ht; grind only)

/-- TwoQueueCache: retained = recent ++ frequent ++ ghost; an entry pushed out of the ghost list is the one reported;
    the key ends up resident (recent or frequent), never left as a ghost -/
theorem twoq_put_claim (q : TwoQ κ ν) (k : κ) (v : ν) (h : q.Inv) :
    ∃ r q' d, q.put k v = .ok (r, q', d) ∧
      PutTruth (q.recent.items ++ (q.frequent.items ++ q.ghost.items))
               (q'.recent.items ++ (q'.frequent.items ++ q'.ghost.items)) k v r ∧ (k, v) ∈ q'.ents := by
  obtain ⟨r, q', d, hp, heq⟩ := C08.put_eq_spec q k v h
  have ht := TwoQSpec.put_truth _ _ _ _ _ _ k v h.ndr h.ndf h.ndg h.drf h.drg h.dfg h.gpos h.spos _ _ _ _ heq.symm
  exact ⟨r, q', d, hp, ht.1, ht.2⟩

/-- WTinyLFUCache: retained = window ++ probationary ++ protected; a candidate rejected by the admission gate is
    reported as `Evicted` -/
theorem wtinylfu_put_claim (c : WTinyLfu κ ν) (kh : κ → UInt64) (k : κ) (v : ν) (h : c.Inv) :
    ∃ r c' d, c.put kh k v = .ok (r, c', d) ∧ PutTruth c.ents c'.ents k v r ∧ (k, v) ∈ c'.ents := by
  obtain ⟨r, c', d, hp, heq, _⟩ := C10.put_eq_spec c kh k v h
  have dwp : ∀ x, x ∈ keys c.window.items → x ∉ keys c.main.prob.items := fun x hx hc => h.dw x hx (Or.inl hc)
  have dwq : ∀ x, x ∈ keys c.window.items → x ∉ keys c.main.prot.items := fun x hx hc => h.dw x hx (Or.inr hc)
  have ht := WtSpec.put_truth (C10.view c) _ _ _ _ k v h.wnd h.mi.ndp h.mi.ndq h.mi.disj dwp dwq _ _ heq.symm
  refine ⟨r, c', d, hp, ht, ?_⟩
  have ht' : PutTruth c.ents c'.ents k v r := ht
  cases r <;> (simp only [PutTruth] at ht'; grind only)

/-- AdaptiveCache: `put` reports `Put` exactly for a key retained nowhere and `Update old` exactly for a key retained
    (resident or ghost) with value `old`; nothing appears from nowhere; the key ends up resident; and the only entries
    that leave without being named are ghost-list entries — residents other than the least-recent of T1/T2 stay resident -/
theorem arc_put_claim (a : Arc κ ν) (k : κ) (v : ν) (h : a.Inv) :
    ∃ r a' d, a.put k v = .ok (r, a', d) ∧ ArcSpec.ArcTruth (C09.view a) (C09.view a') k v r := by
  obtain ⟨r, a', d, hp, heq⟩ := C09.put_eq_spec a k v h
  have ht := ArcSpec.put_truth (C09.view a) a.size k v h.nd1 h.nd2 h.ndb1 h.ndb2 h.d12 h.d1b1 h.d1b2 h.d2b1 h.d2b2 h.db
  rw [← heq] at ht
  exact ⟨r, a', d, hp, ht⟩

/-- ARC never reports an eviction -/
theorem arc_never_evicted (a : Arc κ ν) (k : κ) (v : ν) (h : a.Inv) (r : PutResult κ ν) (a' : Arc κ ν) (d : List (Obj κ ν))
    (hp : a.put k v = .ok (r, a', d)) : r = .put ∨ ∃ old, r = .update old := by
  obtain ⟨r0, a0, d0, hp0, ht⟩ := arc_put_claim a k v h
  rw [hp] at hp0; injection hp0 with hp0; injection hp0 with hr _; subst hr
  rcases ht.result with ⟨h1, _⟩ | ⟨old, h1, _⟩
  · exact Or.inl h1
  · exact Or.inr ⟨old, h1⟩

/-! ## every history: the claim holds for the next `put` at every reachable state -/

theorem slru_claim_every_history (p q : Nat) (s0 : Slru κ ν) (hc : Slru.new p q = some s0) (ops : List (SlruOp κ ν)) :
    ∃ s, runOps Slru.step s0 ops = .ok s ∧
      ∀ k v, ∃ r s' d, s.put k v = .ok (r, s', d) ∧ PutTruth s.ents s'.ents k v r ∧ (k, v) ∈ s'.ents := by
  obtain ⟨s, hr, hi⟩ := runOps_inv Slru.step Slru.Inv Slru.step_inv ops s0 (Slru.inv_new p q s0 hc).1
  exact ⟨s, hr, fun k v => slru_put_claim s k v hi⟩

theorem twoq_claim_every_history (size : Nat) (rr gr : RatioClass) (rs es : Nat) (q0 : TwoQ κ ν)
    (hc : TwoQ.new size rr gr rs es = .ok q0) (ops : List (CacheOp κ ν)) :
    ∃ q, runOps TwoQ.step q0 ops = .ok q ∧
      ∀ k v, ∃ r q' d, q.put k v = .ok (r, q', d) ∧
        PutTruth (q.recent.items ++ (q.frequent.items ++ q.ghost.items))
                 (q'.recent.items ++ (q'.frequent.items ++ q'.ghost.items)) k v r ∧ (k, v) ∈ q'.ents := by
  obtain ⟨q, hr, hi⟩ := runOps_inv TwoQ.step TwoQ.Inv TwoQ.step_inv ops q0 (TwoQ.inv_new size rr gr rs es q0 hc)
  exact ⟨q, hr, fun k v => twoq_put_claim q k v hi⟩

theorem arc_claim_every_history (size : Nat) (a0 : Arc κ ν) (hc : Arc.new size = some a0) (ops : List (CacheOp κ ν)) :
    ∃ a, runOps Arc.step a0 ops = .ok a ∧
      ∀ k v, ∃ r a' d, a.put k v = .ok (r, a', d) ∧ ArcSpec.ArcTruth (C09.view a) (C09.view a') k v r := by
  obtain ⟨a, hr, hi⟩ := runOps_inv Arc.step Arc.Inv Arc.step_inv ops a0 (Arc.inv_new size a0 hc).1
  exact ⟨a, hr, fun k v => arc_put_claim a k v hi⟩

theorem wtinylfu_claim_every_history (kh : κ → UInt64) (c0 : WTinyLfu κ ν) (h0 : c0.Inv) (ops : List (CacheOp κ ν)) :
    ∃ c, runOps (WTinyLfu.step kh) c0 ops = .ok c ∧
      ∀ k v, ∃ r c' d, c.put kh k v = .ok (r, c', d) ∧ PutTruth c.ents c'.ents k v r ∧ (k, v) ∈ c'.ents := by
  obtain ⟨c, hr, hi⟩ := runOps_inv (WTinyLfu.step kh) WTinyLfu.Inv (WTinyLfu.step_inv kh) ops c0 h0
  exact ⟨c, hr, fun k v => wtinylfu_put_claim c kh k v hi⟩

theorem rawlru_claim_every_history (cap : Nat) (cb : Bool) (c0 : RawLru κ ν) (hc : RawLru.new cap cb = some c0)
    (ops : List (RawOp κ ν)) :
    ∃ c, runOps RawLru.step c0 ops = .ok c ∧
      (c.cap ≠ 0 → ∀ k v, ∃ c' r e, c.put k v = .ok (c', r, e) ∧ PutTruth c.items c'.items k v r ∧ c'.peek k = some v) ∧
      (c.cap = 0 → ∀ k v, c.put k v = .ok (c, .evicted k v, {})) := by
  obtain ⟨c, hr, hi⟩ := runOps_inv RawLru.step RawLru.Inv RawLru.step_inv ops c0 (RawLru.inv_new cap cb c0 hc)
  refine ⟨c, hr, fun h0 k v => rawlru_put_claim c k v hi h0, fun h0 k v => ?_⟩
  have : c.items = [] := List.eq_nil_of_length_eq_zero (by have := hi.bound; omega)
  exact put_cap_zero c k v (by rw [this]; rfl) h0

/-- non-vacuity: a full 2Q whose ghost list overflows reports the ghost that was pushed out -/
example : (TwoQSpec.put [(3, 30)] [(2, 20)] [(1, 10)] 2 1 1 4 (40 : Nat)).2.2.2 = PutResult.evicted 1 10 := by decide
end C12
