/-
  C06 — RawLRU keeps exact recency order; eviction and resize take the true LRU.

  Declarative reading of the property text (Layer S), all over the list `items` (MRU first):
    use k      := the entry of k moved to the front
    victim     := the last entry
  Every theorem is for every capacity, every list satisfying `Inv` and every key/value.
-/
import Caches.Lemmas.RawLru
import Caches.Lemmas.LruStack
set_option linter.unusedSectionVars false
set_option linter.unusedVariables false
namespace C06
open M M.RawLru
variable {κ ν : Type} [DecidableEq κ]

/-- `put` on a present key is a use: entry to the front with the new value, old value reported -/
theorem put_present_spec (c : RawLru κ ν) (k : κ) (v old : ν) (h : find k c.items = some old) :
    ∃ e, c.put k v = .ok ({ c with items := (k, v) :: erase k c.items }, .update old, e) :=
  ⟨_, put_present c k v old h⟩

/-- absent key, room left: the new entry becomes the most recent one, nothing leaves -/
theorem put_absent_room_spec (c : RawLru κ ν) (k : κ) (v : ν)
    (hk : find k c.items = none) (hroom : c.items.length < c.cap) :
    ∃ e, c.put k v = .ok ({ c with items := (k, v) :: c.items }, .put, e) :=
  ⟨_, put_absent_room c k v hk hroom⟩

/-- absent key, full cache: exactly the least recently used entry is evicted and reported -/
theorem put_evicts_lru (c : RawLru κ ν) (k : κ) (v : ν) (h : c.Inv)
    (hk : find k c.items = none) (hfull : c.items.length = c.cap) (h0 : c.cap ≠ 0) :
    ∃ lru e, c.items.getLast? = some lru ∧
      c.put k v = .ok ({ c with items := (k, v) :: c.items.dropLast }, .evicted lru.1 lru.2, e) := by
  obtain ⟨lru, hl⟩ := getLast?_some_of_pos c.items (by omega)
  exact ⟨lru, _, hl, put_absent_full c k v lru hk hfull h0 hl⟩

/-- `get`/`get_mut` are uses -/
theorem get_spec (c : RawLru κ ν) (k : κ) :
    c.get k = match find k c.items with
      | some v => ({ c with items := (k, v) :: erase k c.items }, some v)
      | none => (c, none) := by
  unfold RawLru.get use; cases find k c.items <;> rfl

theorem getMut_spec (c : RawLru κ ν) (k : κ) (w : Option ν) :
    c.getMut k w = match find k c.items with
      | some v => ({ c with items := (k, w.getD v) :: erase k c.items }, some v)
      | none => (c, none) := by
  unfold RawLru.getMut use; cases find k c.items <;> rfl

/-- `get_lru` returns the least recent entry and makes it the most recent one -/
theorem getLru_spec (c : RawLru κ ν) (h : c.Inv) (e : κ × ν) (hl : c.items.getLast? = some e) :
    c.getLru = ({ c with items := e :: c.items.dropLast }, some e) := by
  unfold RawLru.getLru use
  simp only [hl, erase_last c.items e hl h.nd]

/-- `peek*`, `contains`, `get_mru`, size queries: answers only, no new state is produced at all;
    the `&mut` peeks keep the key order (values may be overwritten through the reference) -/
theorem peekMut_keeps_order (c : RawLru κ ν) (k : κ) (w : Option ν) :
    keys (c.peekMut k w).1.items = keys c.items := by
  unfold RawLru.peekMut
  cases find k c.items <;> cases w <;> simp [keys_setVal]

theorem peekLruMut_keeps_order (c : RawLru κ ν) (w : Option ν) :
    keys (c.peekLruMut w).1.items = keys c.items := by
  unfold RawLru.peekLruMut
  cases hl : c.items.getLast? with
  | none => cases w <;> rfl
  | some e =>
    cases w with
    | none => rfl
    | some w =>
      have hne : c.items ≠ [] := by intro hc; simp [hc] at hl
      have h2 := List.getLast?_eq_some_getLast hne
      rw [hl] at h2
      have hs := List.dropLast_concat_getLast hne
      rw [← Option.some.inj h2] at hs
      simp only [keys_append, keys_cons, keys_nil]
      conv => rhs; rw [← hs]
      simp [keys_append]

theorem getMruMut_keeps_order (c : RawLru κ ν) (w : Option ν) :
    keys (c.getMruMut w).1.items = keys c.items := by
  unfold RawLru.getMruMut
  cases h : c.items with
  | nil => cases w <;> simp [h]
  | cons e t => cases w <;> simp [h]

/-- `peek_lru` / `remove_lru` name the least recent entry, `peek_mru` / `get_mru` the most recent one -/
theorem peekLru_last (c : RawLru κ ν) : c.peekLru = c.items.getLast? := rfl
theorem peekMru_head (c : RawLru κ ν) : c.peekMru = c.items.head? ∧ c.getMru = c.items.head? := ⟨rfl, rfl⟩

theorem removeLru_spec (c : RawLru κ ν) (e : κ × ν) (hl : c.items.getLast? = some e) :
    ∃ eff, c.removeLru = ({ c with items := c.items.dropLast }, some e, eff) :=
  ⟨_, removeLru_some c e hl⟩

theorem removeLru_empty (c : RawLru κ ν) (hl : c.items = []) : c.removeLru = (c, none, {}) :=
  removeLru_none c hl

/-- `resize n` discards exactly the `len - n` least recent entries, returns that count, keeps the order
    of the rest and installs `n` as the capacity (which `Inv` then enforces for every later state) -/
theorem resize_spec (c : RawLru κ ν) (n : Nat) :
    ∃ eff, c.resize n = .ok ({ c with cap := n, items := c.items.take n }, c.items.length - n, eff) ∨
      (n = c.cap ∧ c.resize n = .ok (c, 0, eff)) := by
  by_cases hne : n = c.cap
  · exact ⟨{}, Or.inr ⟨hne, by subst hne; exact resize_same c⟩⟩
  · exact ⟨_, Or.inl (RawLru.resize_spec c n hne)⟩

/-- when nothing has to go (`n = cap` short-cut) the closed form agrees as well -/
theorem resize_same_agrees (c : RawLru κ ν) (h : c.Inv) :
    ({ c with cap := c.cap, items := c.items.take c.cap } : RawLru κ ν) = c ∧ c.items.length - c.cap = 0 := by
  have := h.bound
  refine ⟨?_, by omega⟩
  cases c; simp_all [List.take_of_length_le]

/-- `purge` leaves nothing -/
theorem purge_spec (c : RawLru κ ν) : ∃ eff, c.purge = .ok ({ c with items := [] }, eff) :=
  ⟨_, RawLru.purge_spec c⟩

/-- `*_or_put`: a hit is a peek (no promotion, nothing stored), a miss is a `put` -/
theorem peekOrPut_hit (c : RawLru κ ν) (k : κ) (v cur : ν) (h : find k c.items = some cur) :
    ∃ e, c.peekOrPut k v = .ok (c, some cur, none, e) := by
  simp [RawLru.peekOrPut, h]

theorem peekOrPut_miss (c c' : RawLru κ ν) (k : κ) (v : ν) (r : PutResult κ ν) (e : Eff κ ν)
    (h : find k c.items = none) (hp : c.put k v = .ok (c', r, e)) :
    c.peekOrPut k v = .ok (c', none, some r, e) := by
  unfold RawLru.peekOrPut; simp only [h, hp]

theorem containsOrPut_hit (c : RawLru κ ν) (k : κ) (v cur : ν) (h : find k c.items = some cur) :
    ∃ e, c.containsOrPut k v = .ok (c, true, none, e) := by
  simp [RawLru.containsOrPut, h]

theorem containsOrPut_miss (c c' : RawLru κ ν) (k : κ) (v : ν) (r : PutResult κ ν) (e : Eff κ ν)
    (h : find k c.items = none) (hp : c.put k v = .ok (c', r, e)) :
    c.containsOrPut k v = .ok (c', false, some r, e) := by
  unfold RawLru.containsOrPut; simp [h, hp]

/-- non-vacuity: a concrete full cache on which the eviction theorem applies -/
example : (⟨2, [(1, 10), (2, 20)], false⟩ : RawLru Nat Nat).Inv ∧
    (⟨2, [(1, 10), (2, 20)], false⟩ : RawLru Nat Nat).put 3 30 =
      .ok (⟨2, [(3, 30), (1, 10)], false⟩, .evicted 2 20, {}) := by
  refine ⟨⟨by decide, by decide⟩, by rfl⟩

/-! ### every history of uses: the cache is the prefix of the unbounded recency stack -/

/-- **the stack (inclusion) property of LRU, over every history of uses**: after any sequence of `put` / `get` /
    `get_mut` on a plain LRU of any capacity, the cache holds exactly the first `cap` entries of the unbounded recency
    stack of the same history — the `cap` most recently used distinct keys, most recent first, each with its
    current value. (Hence a larger LRU always contains a smaller one run on the same history, and the evicted entry
    is always the least recently used.) -/
theorem lru_is_stack_prefix (cap : Nat) (cb : Bool) (c0 : RawLru κ ν) (hn : RawLru.new cap cb = some c0)
    (ops : List (LruStack.UseOp κ ν)) :
    ∃ c, runOps RawLru.step c0 (ops.map LruStack.UseOp.toRaw) = .ok c ∧
      c.items = (ops.foldl (LruStack.step cap) []).take cap := by
  unfold RawLru.new at hn
  split at hn
  · cases hn
  · rename_i h0
    injection hn with hn; subst hn
    suffices H : ∀ (ops : List (LruStack.UseOp κ ν)) (c : RawLru κ ν) (D : AL κ ν), c.cap = cap → c.items = D.take cap →
        ∃ c', runOps RawLru.step c (ops.map LruStack.UseOp.toRaw) = .ok c' ∧
          c'.items = (ops.foldl (LruStack.step cap) D).take cap from
      H ops _ [] rfl (by simp)
    intro ops
    induction ops with
    | nil => intro c D _ hi; exact ⟨c, rfl, hi⟩
    | cons o rest ih =>
      intro c D hc hi
      obtain ⟨c1, h1, hc1, hi1⟩ := LruStack.step_prefix cap (by omega) c D hc hi o
      obtain ⟨c2, h2, hi2⟩ := ih c1 _ hc1 hi1
      exact ⟨c2, by simp only [List.map_cons, runOps, h1, h2], by simp only [List.foldl_cons, hi2]⟩

/-- the stack of a history of `put`s does not depend on the capacity -/
theorem stack_puts_cap_free (cap cap' : Nat) (ps : List (κ × ν)) (D : AL κ ν) :
    (ps.map fun e => LruStack.UseOp.put e.1 e.2).foldl (LruStack.step cap) D =
      (ps.map fun e => LruStack.UseOp.put e.1 e.2).foldl (LruStack.step cap') D := by
  induction ps generalizing D with
  | nil => rfl
  | cons e t ih => simp only [List.map_cons, List.foldl_cons, LruStack.step]; exact ih _

/-- **inclusion (no Belady anomaly)**: on the same history of `put`s a smaller plain LRU holds exactly the most
    recent part of what a larger one holds — same entries, same order, same values -/
theorem lru_inclusion_puts (cap cap' : Nat) (hle : cap ≤ cap') (cb : Bool) (c0 c0' : RawLru κ ν)
    (hn : RawLru.new cap cb = some c0) (hn' : RawLru.new cap' cb = some c0') (ps : List (κ × ν)) :
    ∃ c c', runOps RawLru.step c0 (ps.map fun e => RawOp.put e.1 e.2) = .ok c ∧
      runOps RawLru.step c0' (ps.map fun e => RawOp.put e.1 e.2) = .ok c' ∧ c.items = c'.items.take cap := by
  obtain ⟨c, h, hi⟩ := lru_is_stack_prefix cap cb c0 hn (ps.map fun e => LruStack.UseOp.put e.1 e.2)
  obtain ⟨c', h', hi'⟩ := lru_is_stack_prefix cap' cb c0' hn' (ps.map fun e => LruStack.UseOp.put e.1 e.2)
  have hm : ∀ l : List (κ × ν), (l.map fun e => LruStack.UseOp.put e.1 e.2).map LruStack.UseOp.toRaw =
      l.map fun e => RawOp.put e.1 e.2 := by
    intro l; simp only [List.map_map]; rfl
  rw [hm] at h h'
  refine ⟨c, c', h, h', ?_⟩
  rw [hi, hi', stack_puts_cap_free cap cap' ps [], List.take_take, Nat.min_eq_left hle]

example : ([LruStack.UseOp.put 1 10, .put 2 20, .get 1 none, .put 3 30, .get 2 none].foldl (LruStack.step 2) ([] : AL Nat Nat)).take 2
    = [(3, 30), (1, 10)] := by decide
end C06
