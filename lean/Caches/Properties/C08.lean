/-
  C08 — TwoQueueCache follows the 2Q policy (recent / frequent / ghost).
  `TwoQSpec` is the policy as the property text states it; on every well-formed cache (all sizes ≥ 1, all quotas
  including 0 and `= size`, all ghost bounds ≥ 1) the model of the code computes exactly that.
-/
import Caches.Lemmas.TwoQ
import Caches.Props.TwoQSpec
import Caches.Props.TwoQMachine
import Caches.Lemmas.Reach
set_option linter.unusedSectionVars false
set_option linter.unusedVariables false
set_option linter.unusedSimpArgs false
namespace C08
open M
variable {κ ν : Type} [DecidableEq κ]

/-- victim rule: recent's LRU if recent is over quota (at quota for a brand-new key), otherwise frequent's,
    falling back to whichever queue is non-empty -/
theorem victim_rule (q : TwoQ κ ν) (rl fl : Nat) (newKey : Bool) :
    q.fromRecent rl fl newKey = true ↔
      rl > 0 ∧ ((if newKey then rl ≥ q.rs else rl > q.rs) ∨ fl = 0) := by
  unfold TwoQ.fromRecent; cases newKey <;> simp

theorem fromRecent_eq_spec (q : TwoQ κ ν) (b : Bool) :
    q.fromRecent q.recent.items.length q.frequent.items.length b = TwoQSpec.fromRecent q.recent.items q.frequent.items q.rs b := rfl

/-- constructor: quota and ghost bound are the supplied floors; a zero ghost bound or bad ratio is rejected -/
theorem ctor_spec (size : Nat) (rr gr : RatioClass) (rs es : Nat) (q : TwoQ κ ν)
    (h : TwoQ.new size rr gr rs es = .ok q) :
    q.size = size ∧ q.rs = rs ∧ q.ghost.cap = es ∧ 0 < size ∧ 0 < es ∧ rr.inUnit = true ∧ gr.inUnit = true ∧
    q.recent.cap = size ∧ q.frequent.cap = size := by
  unfold TwoQ.new at h
  repeat (split at h; · simp at h)
  injection h with h; subst h
  simp_all; omega

/-- **`put` = the policy** -/
theorem put_eq_spec (q : TwoQ κ ν) (k : κ) (v : ν) (h : q.Inv) :
    ∃ r q' d, q.put k v = .ok (r, q', d) ∧
      (q'.recent.items, q'.frequent.items, q'.ghost.items, r) =
        TwoQSpec.put q.recent.items q.frequent.items q.ghost.items q.size q.rs q.ghost.cap k v := by
  obtain ⟨ndr, ndf, ndg, drf, drg, dfg, hb, hgb, hrc, hfc, hsp, hgp⟩ := h
  have h : q.Inv := ⟨ndr, ndf, ndg, drf, drg, dfg, hb, hgb, hrc, hfc, hsp, hgp⟩
  unfold TwoQ.put TwoQSpec.put
  cases hf : find k q.frequent.items with
  | some old => exact ⟨_, _, _, rfl, by simp [RawLru.update, use]⟩
  | none =>
    have hkf := (find_none_iff k _).1 hf
    cases hr : find k q.recent.items with
    | some old =>
      have hroom : q.frequent.items.length < q.frequent.cap := by
        have := length_erase_of_find k _ old hr; omega
      simp only [RawLru.removeEnt, hr, RawLru.putNonnull_room _ _ hroom]
      exact ⟨_, _, _, rfl, rfl⟩
    | none =>
      have hkr := (find_none_iff k _).1 hr
      simp only [RawLru.removeEnt, hr]
      cases hg : find k q.ghost.items with
      | some old =>
        by_cases hfull : q.recent.items.length + q.frequent.items.length ≥ q.size
        · simp only [hfull, if_true, decide_true]
          obtain ⟨vic, q1, hv, hq1⟩ := TwoQ.takeVictim_ok q false (by omega)
          simp only [hv]
          rcases hq1 with ⟨hfr, hlast, rfl⟩ | ⟨hfr, hlast, rfl⟩
          · -- victim from recent
            have lf := last_facts _ _ hlast ndr
            have hvk : vic.1 ≠ k := fun hc => hkr (hc ▸ lf.1)
            have hroom : q.frequent.items.length < q.frequent.cap := by have := lf.2.2.2.2.1; omega
            simp only [← fromRecent_eq_spec, hfr, if_true, hlast]
            by_cases hgfull : q.ghost.cap ≤ q.ghost.items.length
            · obtain ⟨gl, hgl⟩ := getLast?_some_of_pos q.ghost.items (by omega)
              simp only [RawLru.putOrEvict_full _ _ gl hgfull hgl, find_cons_ne _ _ _ hvk,
                find_dropLast _ k gl hgl ndg, TwoQSpec.pushGhost, ge_iff_le, hgfull, if_true, hgl]
              by_cases hglk : gl.1 = k
              · simp only [hglk, if_true, RawLru.putNonnull_room _ _ hroom]
                refine ⟨_, _, _, rfl, ?_⟩
                have hgl2 : gl.2 = old := by
                  have := find_last _ gl hgl ndg; rw [hglk, hg] at this; exact (Option.some.inj this).symm
                have he : erase k (vic :: q.ghost.items.dropLast) = vic :: q.ghost.items.dropLast := by
                  rw [erase_cons_ne _ _ _ hvk, erase_of_not_mem]
                  have := (last_facts _ _ hgl ndg).2.1; rw [hglk] at this; exact this
                simp only [he, hgl2, hglk]
              · simp only [hglk, if_false, hg, erase_cons_ne _ _ _ hvk, RawLru.putNonnull_room _ _ hroom]
                exact ⟨_, _, _, rfl, rfl⟩
            · have hgroom : q.ghost.items.length < q.ghost.cap := by omega
              have hng : ¬ q.ghost.cap ≤ q.ghost.items.length := by omega
              simp only [RawLru.putOrEvict_room _ _ hgroom, find_cons_ne _ _ _ hvk, hg,
                RawLru.putNonnull_room _ _ hroom, erase_cons_ne _ _ _ hvk, TwoQSpec.pushGhost, ge_iff_le, hng, if_false]
              exact ⟨_, _, _, rfl, rfl⟩
          · -- victim from frequent
            have lf := last_facts _ _ hlast ndf
            have hvk : vic.1 ≠ k := fun hc => hkf (hc ▸ lf.1)
            have hroom : q.frequent.items.dropLast.length < q.frequent.cap := by have := lf.2.2.2.2.1; omega
            simp only [← fromRecent_eq_spec, hfr, Bool.false_eq_true, if_false, hlast]
            by_cases hgfull : q.ghost.cap ≤ q.ghost.items.length
            · obtain ⟨gl, hgl⟩ := getLast?_some_of_pos q.ghost.items (by omega)
              simp only [RawLru.putOrEvict_full _ _ gl hgfull hgl, find_cons_ne _ _ _ hvk,
                find_dropLast _ k gl hgl ndg, TwoQSpec.pushGhost, ge_iff_le, hgfull, if_true, hgl]
              by_cases hglk : gl.1 = k
              · have hroom' : ({ q.frequent with items := q.frequent.items.dropLast } : RawLru κ ν).items.length <
                    ({ q.frequent with items := q.frequent.items.dropLast } : RawLru κ ν).cap := hroom
                simp only [hglk, if_true, RawLru.putNonnull_room _ _ hroom']
                refine ⟨_, _, _, rfl, ?_⟩
                have hgl2 : gl.2 = old := by
                  have := find_last _ gl hgl ndg; rw [hglk, hg] at this; exact (Option.some.inj this).symm
                have he : erase k (vic :: q.ghost.items.dropLast) = vic :: q.ghost.items.dropLast := by
                  rw [erase_cons_ne _ _ _ hvk, erase_of_not_mem]
                  have := (last_facts _ _ hgl ndg).2.1; rw [hglk] at this; exact this
                simp only [he, hgl2, hglk]
              · have hroom' : ({ q.frequent with items := q.frequent.items.dropLast } : RawLru κ ν).items.length <
                    ({ q.frequent with items := q.frequent.items.dropLast } : RawLru κ ν).cap := hroom
                simp only [hglk, if_false, hg, erase_cons_ne _ _ _ hvk, RawLru.putNonnull_room _ _ hroom']
                exact ⟨_, _, _, rfl, rfl⟩
            · have hgroom : q.ghost.items.length < q.ghost.cap := by omega
              have hng : ¬ q.ghost.cap ≤ q.ghost.items.length := by omega
              have hroom' : ({ q.frequent with items := q.frequent.items.dropLast } : RawLru κ ν).items.length <
                  ({ q.frequent with items := q.frequent.items.dropLast } : RawLru κ ν).cap := hroom
              simp only [RawLru.putOrEvict_room _ _ hgroom, find_cons_ne _ _ _ hvk, hg,
                RawLru.putNonnull_room _ _ hroom', erase_cons_ne _ _ _ hvk, TwoQSpec.pushGhost, ge_iff_le, hng, if_false]
              exact ⟨_, _, _, rfl, rfl⟩
        · have hroom : q.frequent.items.length < q.frequent.cap := by omega
          simp only [hfull, if_false, decide_false, Bool.false_eq_true, RawLru.putNonnull_room _ _ hroom]
          exact ⟨_, _, _, rfl, rfl⟩
      | none =>
        by_cases hroomy : q.frequent.items.length + q.recent.items.length < q.size
        · have hrr : q.recent.items.length < q.recent.cap := by omega
          have hnf : ¬ q.recent.items.length + q.frequent.items.length ≥ q.size := by omega
          simp only [hroomy, if_true, RawLru.putOrEvict_room _ _ hrr, hnf, decide_false, Bool.false_eq_true, if_false]
          exact ⟨_, _, _, rfl, rfl⟩
        · have hfl : q.recent.items.length + q.frequent.items.length ≥ q.size := by omega
          simp only [hroomy, if_false, hfl, decide_true, if_true]
          obtain ⟨vic, q1, hv, hq1⟩ := TwoQ.takeVictim_ok q true (by omega)
          simp only [hv]
          rcases hq1 with ⟨hfr, hlast, rfl⟩ | ⟨hfr, hlast, rfl⟩
          · have lf := last_facts _ _ hlast ndr
            have hrroom : ({ q.recent with items := q.recent.items.dropLast } : RawLru κ ν).items.length <
                ({ q.recent with items := q.recent.items.dropLast } : RawLru κ ν).cap := by
              have := lf.2.2.2.2.1; simp only; omega
            simp only [← fromRecent_eq_spec, hfr, if_true, hlast, RawLru.putNonnull_room _ _ hrroom]
            by_cases hgfull : q.ghost.cap ≤ q.ghost.items.length
            · obtain ⟨gl, hgl⟩ := getLast?_some_of_pos q.ghost.items (by omega)
              simp only [RawLru.putNonnull_full _ _ gl hgfull hgl, TwoQSpec.pushGhost, ge_iff_le, hgfull, if_true, hgl]
              exact ⟨_, _, _, rfl, rfl⟩
            · have hgroom : q.ghost.items.length < q.ghost.cap := by omega
              have hng : ¬ q.ghost.cap ≤ q.ghost.items.length := by omega
              simp only [RawLru.putNonnull_room _ _ hgroom, TwoQSpec.pushGhost, ge_iff_le, hng, if_false]
              exact ⟨_, _, _, rfl, rfl⟩
          · have lf := last_facts _ _ hlast ndf
            have hrroom : q.recent.items.length < q.recent.cap := by have := lf.2.2.2.2.1; omega
            simp only [← fromRecent_eq_spec, hfr, Bool.false_eq_true, if_false, hlast, RawLru.putNonnull_room _ _ hrroom]
            by_cases hgfull : q.ghost.cap ≤ q.ghost.items.length
            · obtain ⟨gl, hgl⟩ := getLast?_some_of_pos q.ghost.items (by omega)
              simp only [RawLru.putNonnull_full _ _ gl hgfull hgl, TwoQSpec.pushGhost, ge_iff_le, hgfull, if_true, hgl]
              exact ⟨_, _, _, rfl, rfl⟩
            · have hgroom : q.ghost.items.length < q.ghost.cap := by omega
              have hng : ¬ q.ghost.cap ≤ q.ghost.items.length := by omega
              simp only [RawLru.putNonnull_room _ _ hgroom, TwoQSpec.pushGhost, ge_iff_le, hng, if_false]
              exact ⟨_, _, _, rfl, rfl⟩

/-- **`get` / `get_mut` = the policy**: a second access moves the entry to the frequent queue -/
theorem get_eq_spec (q : TwoQ κ ν) (k : κ) (w : Option ν) (h : q.Inv) :
    ∃ r q', q.getMut k w = .ok (r, q') ∧
      (q'.recent.items, q'.frequent.items, q'.ghost.items, r) = TwoQSpec.get q.recent.items q.frequent.items q.ghost.items k w := by
  unfold TwoQ.getMut RawLru.getMut TwoQSpec.get
  cases hf : find k q.frequent.items with
  | some old => exact ⟨_, _, rfl, by simp [use]⟩
  | none =>
    simp only
    cases hr : find k q.recent.items with
    | none => exact ⟨_, _, rfl, rfl⟩
    | some old =>
      have hroom : q.frequent.items.length < q.frequent.cap := by
        have := length_erase_of_find k _ old hr; have := h.bound; have := h.fcap; omega
      simp only [TwoQ.moveToFrequent, RawLru.removeEnt, hr, RawLru.putOrEvict_room _ _ hroom]
      exact ⟨_, _, rfl, rfl⟩

/-- a put on a ghost key revives it directly into the frequent queue with `Update(ghost value)`-style result -/
theorem ghost_revives_frequent (q : TwoQ κ ν) (k : κ) (v old : ν) (h : q.Inv)
    (hf : find k q.frequent.items = none) (hr : find k q.recent.items = none) (hg : find k q.ghost.items = some old) :
    ∃ r q' d, q.put k v = .ok (r, q', d) ∧ q'.frequent.items.head? = some (k, v) ∧ k ∉ keys q'.ghost.items ∧
      (r = .update old ∨ ∃ ek ev, r = .evictedAndUpdate ek ev old) := by
  obtain ⟨r, q', d, hput, heq⟩ := put_eq_spec q k v h
  obtain ⟨r2, q2, d2, hput2, hi2, _⟩ := TwoQ.put_total_inv q k v h
  rw [hput] at hput2; injection hput2 with e1; injection e1 with e1 e2; injection e2 with e2 _
  subst e1; subst e2
  refine ⟨r, q', d, hput, ?_⟩
  unfold TwoQSpec.put at heq
  simp only [hf, hr, hg] at heq
  have lpos : q.recent.items.length + q.frequent.items.length ≥ q.size →
      (if TwoQSpec.fromRecent q.recent.items q.frequent.items q.rs false = true then q.recent.items.getLast? else q.frequent.items.getLast?).isSome = true := by
    intro hfull
    obtain ⟨vic, q1, _, hq1⟩ := TwoQ.takeVictim_ok q false (by have := h.spos; omega)
    rcases hq1 with ⟨hfr, hl, _⟩ | ⟨hfr, hl, _⟩
    · rw [← fromRecent_eq_spec, hfr]; simp [hl]
    · rw [← fromRecent_eq_spec, hfr]; simp [hl]
  split at heq
  · rename_i hfull
    simp only [decide_eq_true_eq] at hfull
    have := lpos hfull
    cases hvic : (if TwoQSpec.fromRecent q.recent.items q.frequent.items q.rs false = true then q.recent.items.getLast? else q.frequent.items.getLast?) with
    | none => rw [hvic] at this; cases this
    | some vic =>
      simp only [hvic] at heq
      cases hpg : TwoQSpec.pushGhost q.ghost.items q.ghost.cap vic with
      | mk G1 dropped =>
        simp only [hpg] at heq
        injection heq with h1 h2; injection h2 with h2 h3; injection h3 with h3 h4
        refine ⟨by rw [h2]; rfl, ?_, ?_⟩
        · rw [h3]
          have hnd : (keys G1).Nodup := by
            have := hi2.ndg; rw [h3] at this
            -- G1 has distinct keys because `erase k G1` does and ... use membership argument instead
            exact by
              unfold TwoQSpec.pushGhost at hpg
              split at hpg
              · injection hpg with hg1 _; subst hg1
                obtain ⟨vicq, q1, _, hq1⟩ := TwoQ.takeVictim_ok q false (by have := h.spos; omega)
                simp only [keys_cons', List.nodup_cons]
                refine ⟨?_, by rw [keys_dropLast]; exact nodup_dropLast _ h.ndg⟩
                intro hc
                have hin : vic.1 ∈ keys q.ghost.items := by rw [keys_dropLast] at hc; exact mem_dropLast_of _ _ hc
                split at hvic
                · exact h.drg _ (List.mem_of_getLast? (keys_getLast? _ _ hvic)) hin
                · exact h.dfg _ (List.mem_of_getLast? (keys_getLast? _ _ hvic)) hin
              · injection hpg with hg1 _; subst hg1
                simp only [keys_cons', List.nodup_cons]
                refine ⟨?_, h.ndg⟩
                intro hin
                split at hvic
                · exact h.drg _ (List.mem_of_getLast? (keys_getLast? _ _ hvic)) hin
                · exact h.dfg _ (List.mem_of_getLast? (keys_getLast? _ _ hvic)) hin
          intro hc
          exact ((mem_keys_erase k k G1 hnd).1 hc).2 rfl
        · rw [h4]
          cases dropped with
          | none => exact Or.inl rfl
          | some g =>
            simp only
            by_cases hgk : g.1 = k
            · simp [hgk]
            · simp only [hgk, if_false]; exact Or.inr ⟨_, _, rfl⟩
  · injection heq with h1 h2; injection h2 with h2 h3; injection h3 with h3 h4
    refine ⟨by rw [h2]; rfl, ?_, Or.inl h4⟩
    rw [h3]; intro hc
    exact ((mem_keys_erase k k _ h.ndg).1 hc).2 rfl

/-- non-vacuity: at quota, a brand-new key takes its victim from recent, a ghost hit from frequent -/
example : TwoQSpec.fromRecent [(1, 1), (2, 2)] [(3, 3)] 2 true = true ∧
          TwoQSpec.fromRecent [(1, 1), (2, 2)] [(3, (3 : Nat))] 2 false = false := by decide

/-- non-vacuity of `Inv`: a 2Q state with recent over quota and a ghost -/
example : ({ size := 3, rs := 1, recent := ⟨3, [(1, 10), (5, 50)], false⟩, frequent := ⟨3, [(2, 20)], false⟩,
             ghost := ⟨2, [(3, 30)], false⟩ } : TwoQ Nat Nat).Inv := by
  constructor <;> decide
/-! ### the other entry points, and every history -/

/-- **`remove` = the policy**: frequent, recent, then the ghost list -/
theorem remove_eq_spec (q : TwoQ κ ν) (k : κ) :
    ((q.remove k).1.recent.items, (q.remove k).1.frequent.items, (q.remove k).1.ghost.items, (q.remove k).2.1) =
      TwoQSpec.remove q.recent.items q.frequent.items q.ghost.items k := by
  unfold TwoQ.remove RawLru.remove TwoQSpec.remove
  cases hf : find k q.frequent.items <;> cases hr : find k q.recent.items <;> cases hg : find k q.ghost.items <;> simp

/-- **`peek_mut` (+ write) = the policy** -/
theorem peekMut_eq_spec (q : TwoQ κ ν) (k : κ) (w : Option ν) :
    ((q.peekMut k w).1.recent.items, (q.peekMut k w).1.frequent.items, (q.peekMut k w).1.ghost.items) =
      TwoQSpec.peekMut q.recent.items q.frequent.items q.ghost.items k w := by
  unfold TwoQ.peekMut RawLru.peekMut TwoQSpec.peekMut
  cases hf : find k q.frequent.items <;> cases hr : find k q.recent.items <;> cases w <;> simp

/-- **every operation = the policy**, on every well-formed cache -/
theorem step_eq_spec (q : TwoQ κ ν) (o : CacheOp κ ν) (h : q.Inv) :
    ∃ q', q.step o = .ok q' ∧
      (q'.recent.items, q'.frequent.items, q'.ghost.items) =
        TwoQSpec.step q.size q.rs q.ghost.cap (q.recent.items, q.frequent.items, q.ghost.items) o := by
  cases o with
  | put k v =>
    obtain ⟨r, q', d, hp, he⟩ := put_eq_spec q k v h
    exact ⟨q', by simp only [TwoQ.step, hp], by simp only [TwoQSpec.step, ← he]⟩
  | getMut k w =>
    obtain ⟨r, q', hp, he⟩ := get_eq_spec q k w h
    exact ⟨q', by simp only [TwoQ.step, hp], by simp only [TwoQSpec.step, ← he]⟩
  | peekMut k w => exact ⟨_, rfl, by simp only [TwoQSpec.step, ← peekMut_eq_spec]⟩
  | remove k => exact ⟨_, rfl, by simp only [TwoQSpec.step, ← remove_eq_spec]⟩
  | purge =>
    refine ⟨{ q with frequent := { q.frequent with items := [] }, recent := { q.recent with items := [] },
                     ghost := { q.ghost with items := [] } }, ?_, rfl⟩
    simp only [TwoQ.step, TwoQ.purge, RawLru.purge_spec]
  | read => exact ⟨q, rfl, rfl⟩

/-- **refinement over every history**: from any accepted constructor, any sequence of public operations runs
    without a fault and leaves recent, frequent and ghost holding exactly what the 2Q policy, folded over the same
    sequence from three empty lists, says — entry by entry, in recency order -/
theorem history_eq_spec (size : Nat) (rr gr : RatioClass) (rs es : Nat) (q0 : TwoQ κ ν)
    (hn : TwoQ.new size rr gr rs es = .ok q0) (ops : List (CacheOp κ ν)) :
    ∃ q', runOps TwoQ.step q0 ops = .ok q' ∧
      (q'.recent.items, q'.frequent.items, q'.ghost.items) = ops.foldl (TwoQSpec.step size rs es) ([], [], []) := by
  have hi0 := TwoQ.inv_new size rr gr rs es q0 hn
  obtain ⟨h1, h2, h3, _⟩ := ctor_spec size rr gr rs es q0 hn
  have hl0 : (q0.recent.items, q0.frequent.items, q0.ghost.items) = (([], [], []) : AL κ ν × AL κ ν × AL κ ν) := by
    unfold TwoQ.new at hn
    repeat (split at hn; · simp at hn)
    injection hn with hn; subst hn; rfl
  suffices H : ∀ (ops : List (CacheOp κ ν)) (q : TwoQ κ ν) (S : AL κ ν × AL κ ν × AL κ ν), TwoQ.InvC size rs es q →
      (q.recent.items, q.frequent.items, q.ghost.items) = S →
      ∃ q', runOps TwoQ.step q ops = .ok q' ∧
        (q'.recent.items, q'.frequent.items, q'.ghost.items) = ops.foldl (TwoQSpec.step size rs es) S from
    H ops q0 _ ⟨hi0, h1, h2, h3⟩ hl0
  intro ops
  induction ops with
  | nil => intro q S _ he; exact ⟨q, rfl, he⟩
  | cons o rest ih =>
    intro q S hc he
    obtain ⟨q1, hs1, hc1⟩ := TwoQ.step_invC size rs es q o hc
    obtain ⟨q1', hs1', he1⟩ := step_eq_spec q o hc.1
    rw [hs1] at hs1'; injection hs1' with hs1'; subst hs1'
    rw [hc.2.1, hc.2.2.1, hc.2.2.2, he] at he1
    obtain ⟨q2, hs2, he2⟩ := ih q1 _ hc1 he1
    exact ⟨q2, by simp only [runOps, hs1, hs2], by simp only [List.foldl_cons, he2]⟩

/-- non-vacuity of the history theorem: first sight, second access, eviction to ghost, ghost revival, removal -/
example : [CacheOp.put 1 10, .put 2 20, .getMut 1 none, .put 3 30, .put 4 40, .put 2 21, .remove 3].foldl
    (TwoQSpec.step 2 1 2) (([], [], []) : AL Nat Nat × AL Nat Nat × AL Nat Nat) = ([(4, 40)], [(2, 21)], [(1, 10)]) := by decide
end C08
