/- C08 — 2Q policy (initial statements; the full step = spec theorems follow the 2Q backbone) -/
import Caches.Model.TwoQ
namespace C08
open M
variable {κ ν : Type} [DecidableEq κ]

/-- victim rule: recent's LRU if recent is over quota (at quota for a brand-new key), otherwise frequent's,
    falling back to whichever queue is non-empty -/
theorem victim_rule (q : TwoQ κ ν) (rl fl : Nat) (newKey : Bool) :
    q.fromRecent rl fl newKey = true ↔
      rl > 0 ∧ ((if newKey then rl ≥ q.rs else rl > q.rs) ∨ fl = 0) := by
  unfold TwoQ.fromRecent; cases newKey <;> simp

/-- constructor: quota and ghost bound are the supplied floors; a zero ghost bound or bad ratio is rejected -/
theorem ctor_spec (size : Nat) (rr gr : RatioClass) (rs es : Nat) (q : TwoQ κ ν)
    (h : TwoQ.new size rr gr rs es = .ok q) :
    q.size = size ∧ q.rs = rs ∧ q.ghost.cap = es ∧ 0 < size ∧ 0 < es ∧ rr.inUnit = true ∧ gr.inUnit = true ∧
    q.recent.cap = size ∧ q.frequent.cap = size := by
  unfold TwoQ.new at h
  repeat (split at h; · simp at h)
  injection h with h; subst h
  simp_all; omega
end C08
