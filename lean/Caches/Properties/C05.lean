/- C05 — totality (initial: RawLRU; no `Fault` is reachable from a well-formed cache) -/
import Caches.Lemmas.RawLru
namespace C05
open M M.RawLru
variable {κ ν : Type} [DecidableEq κ]

theorem rawlru_ctor (cap : Nat) (cb : Bool) :
    ((RawLru.new cap cb : Option (RawLru κ ν)) = none ↔ cap = 0) := by
  unfold RawLru.new; split <;> simp_all

theorem rawlru_put_total (c : RawLru κ ν) (k : κ) (v : ν) (h : c.Inv) :
    ∃ c' r e, c.put k v = .ok (c', r, e) ∧ c'.Inv := by
  obtain ⟨c', r, e, hp, hi, _, _⟩ := put_total_inv c k v h; exact ⟨c', r, e, hp, hi⟩

theorem rawlru_purge_total (c : RawLru κ ν) : ∃ c' e, c.purge = .ok (c', e) := ⟨_, _, purge_spec c⟩

theorem rawlru_resize_total (c : RawLru κ ν) (n : Nat) (h : c.Inv) :
    ∃ c' ev e, c.resize n = .ok (c', ev, e) ∧ c'.Inv := by
  obtain ⟨c', ev, e, hr, hi, _⟩ := resize_total_inv c n h; exact ⟨c', ev, e, hr, hi⟩

theorem rawlru_orput_total (c : RawLru κ ν) (k : κ) (v : ν) (w : Option ν) (h : c.Inv) :
    (∃ x, c.peekOrPut k v = .ok x) ∧ (∃ x, c.peekMutOrPut k v w = .ok x) ∧ (∃ x, c.containsOrPut k v = .ok x) := by
  obtain ⟨a, b, c1, d, h1, _⟩ := peekOrPut_total_inv c k v h
  obtain ⟨a2, b2, c2, d2, h2, _⟩ := peekMutOrPut_total_inv c k v w h
  obtain ⟨a3, b3, c3, d3, h3, _⟩ := containsOrPut_total_inv c k v h
  exact ⟨⟨_, h1⟩, ⟨_, h2⟩, ⟨_, h3⟩⟩

theorem rawlru_clone_total (c : RawLru κ ν) (h : c.Inv) : c.cloneImpl = .ok c := clone_eq c h
end C05
