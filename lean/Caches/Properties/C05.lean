/-
  C05 — totality: constructors validate, and no operation ever panics.

  In the model every `unwrap()`, every read of a sentinel as an entry, every slice index and every checked arithmetic
  operation of the Rust source is an explicit `Fault` (nothing is totalised). The theorems below say that from every
  successfully constructed cache / estimator / cost tracker, every finite history of operations returns `.ok`
  (no `Fault` is reachable), for every capacity, quota, key, raw hash, sample size and sketch geometry,
  and that constructors reject exactly the documented argument tuples.
  Out of reach, stated: sizes `< 2^32` (`next_power_of_2` smears 32 bits), allocation failure, `i64`/`usize` overflow of
  running counters; the Bloom/sketch geometry computed in `f64` enters as any well-formed tuple (`TinyLfu.WF`,
  checked on every real configuration by the driver through `TinyLfu.wfb`).
-/
import Caches.Lemmas.Reach
import Caches.Properties.C11
import Caches.Lemmas.Pow2
set_option linter.unusedSectionVars false
set_option linter.unusedVariables false
namespace C05
open M
variable {κ ν : Type} [DecidableEq κ]

/-! ### constructors -/
theorem rawlru_ctor (cap : Nat) (cb : Bool) : ((RawLru.new cap cb : Option (RawLru κ ν)) = none ↔ cap = 0) := by
  unfold RawLru.new; split <;> simp_all

theorem slru_ctor (p q : Nat) : ((Slru.new p q : Option (Slru κ ν)) = none ↔ p = 0 ∨ q = 0) := by
  unfold Slru.new
  by_cases hq : q = 0 <;> by_cases hp : p = 0 <;> simp [hq, hp]

theorem arc_ctor (size : Nat) : ((Arc.new size : Option (Arc κ ν)) = none ↔ size = 0) := by
  unfold Arc.new; split <;> simp_all

/-- 2Q: `InvalidSize` for size 0 or a ghost bound that floors to 0, `InvalidRecentRatio` / `InvalidGhostRatio` for ratios outside
    [0,1] or NaN (checked in this order); accepted otherwise -/
theorem twoq_ctor (size : Nat) (rr gr : RatioClass) (rs es : Nat) :
    (TwoQ.new size rr gr rs es : Except TwoQErr (TwoQ κ ν)) =
      if size = 0 then .error .invalidSize
      else if rr.inUnit = false then .error .invalidRecentRatio
      else if gr.inUnit = false then .error .invalidGhostRatio
      else if es = 0 then .error .invalidSize
      else .ok { size := size, rs := rs, recent := { cap := size, items := [] },
                 frequent := { cap := size, items := [] }, ghost := { cap := es, items := [] } } := by
  unfold TwoQ.new
  by_cases h1 : size = 0 <;> by_cases h2 : rr.inUnit <;> by_cases h3 : gr.inUnit <;> by_cases h4 : es = 0 <;> simp [h1, h2, h3, h4]

/-- an accepted configuration gives every internal list exactly the requested capacity — for every size, also beyond any
    power of two one might clamp at (compared with the real lists' capacities by the `innercaps` operation) -/
theorem rawlru_ctor_caps (cap : Nat) (cb : Bool) (c : RawLru κ ν) (h : RawLru.new cap cb = some c) :
    c.cap = cap ∧ c.items = [] := by
  unfold RawLru.new at h
  split at h
  · cases h
  · cases h; exact ⟨rfl, rfl⟩

theorem slru_ctor_caps (p q : Nat) (s : Slru κ ν) (h : Slru.new p q = some s) :
    s.prob.cap = p ∧ s.prot.cap = q ∧ s.prob.items = [] ∧ s.prot.items = [] := by
  unfold Slru.new at h
  split at h
  · cases h
  · split at h
    · cases h
    · cases h; exact ⟨rfl, rfl, rfl, rfl⟩

theorem arc_ctor_caps (size : Nat) (a : Arc κ ν) (h : Arc.new size = some a) :
    a.recent.cap = size ∧ a.frequent.cap = size ∧ a.recentEvict.cap = size ∧ a.frequentEvict.cap = size ∧ a.p = 0 := by
  unfold Arc.new at h
  split at h
  · cases h
  · cases h; exact ⟨rfl, rfl, rfl, rfl, rfl⟩


theorem sketch_ctor (ctrs : Nat) (sch : Scheme) : (Sketch.new ctrs sch = none ↔ ctrs = 0) := by
  unfold Sketch.new; split <;> simp_all <;> omega

/-! ### every history runs without a fault -/
theorem rawlru_total (cap : Nat) (cb : Bool) (c0 : RawLru κ ν) (hc : RawLru.new cap cb = some c0) (ops : List (RawOp κ ν)) :
    ∃ c, runOps RawLru.step c0 ops = .ok c :=
  let ⟨c, h, _⟩ := runOps_inv RawLru.step RawLru.Inv RawLru.step_inv ops c0 (RawLru.inv_new cap cb c0 hc); ⟨c, h⟩

/-- `resize` to any value (0 included) followed by anything -/
theorem rawlru_total_from_inv (c0 : RawLru κ ν) (h : c0.Inv) (ops : List (RawOp κ ν)) :
    ∃ c, runOps RawLru.step c0 ops = .ok c ∧ c.Inv := runOps_inv RawLru.step RawLru.Inv RawLru.step_inv ops c0 h

/-- `from_iter`: capacity `max 1 hint`, never a fault, for every input including the empty one -/
theorem fromIter_total (hint : Nat) (l : AL κ ν) : ∃ c e, RawLru.fromIter hint l = .ok (c, e) := by
  unfold RawLru.fromIter RawLru.new
  have : max 1 hint ≠ 0 := by omega
  simp only [this, if_false]
  suffices ∀ (l : AL κ ν) (acc : RawLru κ ν) (eff : Eff κ ν), acc.Inv → ∃ c e, RawLru.refill l acc eff = .ok (c, e) from
    this l _ _ ⟨by simp, by simp⟩
  intro l
  induction l with
  | nil => intro acc eff _; exact ⟨acc, eff, rfl⟩
  | cons e t ih =>
    intro acc eff hi
    obtain ⟨c', r, e', hp, hi', _⟩ := RawLru.put_total_inv acc e.1 e.2 hi
    simp only [RawLru.refill, hp]
    exact ih c' _ hi'

theorem slru_total (p q : Nat) (s0 : Slru κ ν) (hc : Slru.new p q = some s0) (ops : List (SlruOp κ ν)) :
    ∃ s, runOps Slru.step s0 ops = .ok s :=
  let ⟨s, h, _⟩ := runOps_inv Slru.step Slru.Inv Slru.step_inv ops s0 (Slru.inv_new p q s0 hc).1; ⟨s, h⟩

/-- 2Q: every accepted configuration — every size ≥ 1, every quota `rs` (0 and `= size` included), every ghost bound ≥ 1 -/
theorem twoq_total (size : Nat) (rr gr : RatioClass) (rs es : Nat) (q0 : TwoQ κ ν)
    (hc : TwoQ.new size rr gr rs es = .ok q0) (ops : List (CacheOp κ ν)) : ∃ q, runOps TwoQ.step q0 ops = .ok q :=
  let ⟨q, h, _⟩ := runOps_inv TwoQ.step TwoQ.Inv TwoQ.step_inv ops q0 (TwoQ.inv_new size rr gr rs es q0 hc); ⟨q, h⟩

theorem arc_total (size : Nat) (a0 : Arc κ ν) (hc : Arc.new size = some a0) (ops : List (CacheOp κ ν)) :
    ∃ a, runOps Arc.step a0 ops = .ok a :=
  let ⟨a, h, _⟩ := runOps_inv Arc.step Arc.Inv Arc.step_inv ops a0 (Arc.inv_new size a0 hc).1; ⟨a, h⟩

/-- W-TinyLFU: every capacity triple ≥ 1, every well-formed estimator, every key hasher (any 64-bit hashes) -/
theorem wtinylfu_total (kh : κ → UInt64) (c0 : WTinyLfu κ ν) (h0 : c0.Inv) (ops : List (CacheOp κ ν)) :
    ∃ c, runOps (WTinyLfu.step kh) c0 ops = .ok c :=
  let ⟨c, h, _⟩ := runOps_inv (WTinyLfu.step kh) WTinyLfu.Inv (WTinyLfu.step_inv kh) ops c0 h0; ⟨c, h⟩

/-- TinyLFU: every raw hash (0 and `u64::MAX` included), both position schemes, every sample size -/
theorem tinylfu_total (ops : List C11.Op) (t : TinyLfu) (hwf : t.WF) :
    ∃ t', C11.runT t.clear ops = .ok t' ∧ t'.WF :=
  let ⟨t', h, hw, _⟩ := C11.sim_run ops t.clear TinyLfu.Ref.zero (TinyLfu.clear_spec t hwf).1 (TinyLfu.sim_clear t hwf); ⟨t', h, hw⟩

theorem tinylfu_queries_total (t : TinyLfu) (hwf : t.WF) (a b : UInt64) (c : TinyLfu.Cmp) :
    (∃ e, t.estimate a = .ok e) ∧ (∃ r, t.contains a = .ok r) ∧ (∃ r, t.compare c a b = .ok r) := by
  obtain ⟨e, bb, he, _⟩ := TinyLfu.estimate_spec t hwf a
  obtain ⟨r, hr, _⟩ := TinyLfu.contains_spec t hwf a
  exact ⟨⟨_, he⟩, ⟨_, hr⟩, TinyLfu.compare_total t hwf c a b⟩

/-- the count-min sketch built for ANY requested width `1 ≤ ctrs < 2^64` (`next_power_of_2`, repaired to smear all 64 bits)
    has four rows, each long enough for every position its mask lets through: the row part of `Sketch.WF` holds by
    construction, not by inspection of the built value. (With the original 32-bit smear this failed just above 2^32:
    `TinyLFU::new(2^32 + 1, ..)` indexed one byte past its rows — reported by the `bigsketch` probe, then repaired.) -/
theorem sketch_geometry (ctrs : Nat) (sch : Scheme) (h1 : 1 ≤ ctrs) (h2 : ctrs < 2 ^ 64) :
    ∃ s, Sketch.new ctrs sch = some s ∧ s.rows.length = 4 ∧ s.scheme = sch ∧
      ∀ r ∈ s.rows, Row.WF r ∧ s.mask.toNat / 2 < r.length := Sketch.new_geometry ctrs sch h1 h2

/-- sketch and Bloom indices stay in bounds: the row index of every masked position is inside the row,
    the word index of every probe is inside the bitset -/
theorem sketch_index_in_bounds (s : Sketch) (hwf : s.WF) (i : Nat) (hi : i < s.rows.length) (h : UInt64) (r : Row)
    (hr : s.rows[i]? = some r) : s.posN i h / 2 < r.length := by
  have hp := (Sketch.pos_ok s hwf i hi h).2
  have := (hwf.rowsWF r (List.mem_of_getElem? hr)).2
  exact Nat.lt_of_le_of_lt (Nat.div_le_div_right hp) this

theorem bloom_index_in_bounds (b : Bloom) (hwf : b.WF) (hash : UInt64) (i : Nat) (hi : i < b.setLocs) :
    b.index (b.hl hash).1 (b.hl hash).2 i = .ok (b.idxOf hash i) ∧ (b.idxOf hash i) >>> 6 < b.bits.length :=
  Bloom.index_ok b hwf hash i hi

/-- the no_std position function `(h + i·(h >> 32)) & mask` is computed with wrapping arithmetic and is always `≤ mask` -/
theorem core_pos_total (mask : UInt64) (i : Nat) (h : UInt64) :
    ∃ p, Scheme.core.pos mask i h = .ok p ∧ p ≤ mask.toNat := by
  refine ⟨_, rfl, ?_⟩
  simp only [UInt64.toNat_and]; exact Nat.and_le_right

example : ∃ c, runOps RawLru.step (⟨2, [], false⟩ : RawLru Nat Nat) [.put 1 1, .resize 0, .put 2 2, .peekOrPut 3 3] = .ok c :=
  ⟨_, rfl⟩
end C05
