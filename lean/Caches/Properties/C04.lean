/-
  C04 — ownership conservation: every key and value is released exactly once, none leak.

  `held l` is the list of key and value *objects* a list retains; `heldAll` of a composite cache adds up all its
  lists, ghost lists included. Every theorem is a counting equation that holds for **each** object `o`:

      #held-before + #handed-in  =  #held-after + #handed-back-in-the-result + #dropped-by-the-cache

  so nothing is dropped twice (a second drop would make the right side too big), nothing leaks (a lost object would
  make it too small) and nothing is dropped while still retained. They hold for every well-formed state — after every
  history, by the reachability theorems of C01/C05. `purge` and `Drop` release exactly everything that is held.
  The model's drop list is what the harness compares with the real drop log (serial numbers per object) and the
  allocator balance after `drop`.
-/
import Caches.Lemmas.Conserve
import Caches.Lemmas.ConserveSlru
import Caches.Lemmas.ConserveTwoQ
import Caches.Lemmas.ConserveArc
import Caches.Lemmas.ConserveWt
import Caches.Lemmas.Ledger
set_option linter.unusedSectionVars false
namespace C04
open M M.RawLru
variable {κ ν : Type} [DecidableEq κ] [DecidableEq ν]

/-! ## RawLRU -/

/-- `purge` releases everything it held: the dropped objects are exactly the retained ones (least recent first) -/
theorem rawlru_purge_releases (c : RawLru κ ν) :
    ∃ c' e, c.purge = .ok (c', e) ∧ c'.items = [] ∧ e.drops = held c.items.reverse :=
  ⟨_, _, purge_spec c, rfl, rfl⟩

/-- dropping the cache releases exactly what is retained -/
theorem rawlru_drop_releases (c : RawLru κ ν) : c.dropCache.drops = held c.items := rfl

/-- `remove` of a present key: the value is handed back, the stored key object is dropped, nothing else -/
theorem rawlru_remove_conserves (c : RawLru κ ν) (k : κ) (v : ν) (h : find k c.items = some v) :
    c.remove k = ({ c with items := erase k c.items }, some v, { cbs := c.cbOf (k, v), drops := [.key k] }) := by
  simp [RawLru.remove, h]

theorem rawlru_put_conserves (c c' : RawLru κ ν) (k : κ) (v : ν) (r : PutResult κ ν) (e : Eff κ ν)
    (hp : c.put k v = .ok (c', r, e)) (o : Obj κ ν) :
    (held c.items).count o + ([Obj.key k, Obj.val v] : List (Obj κ ν)).count o =
      (held c'.items).count o + r.drops.count o + e.drops.count o := RawLru.put_count c c' k v r e hp o

theorem rawlru_remove_counts (c : RawLru κ ν) (k : κ) (o : Obj κ ν) :
    (held c.items).count o = (held (c.remove k).1.items).count o + (objsV (c.remove k).2.1 : List (Obj κ ν)).count o +
      (c.remove k).2.2.drops.count o := RawLru.remove_count c k o

theorem rawlru_removeLru_counts (c : RawLru κ ν) (o : Obj κ ν) :
    (held c.items).count o = (held c.removeLru.1.items).count o + (objsE c.removeLru.2.1 : List (Obj κ ν)).count o :=
  RawLru.removeLru_count c o

/-! ## SegmentedCache -/

theorem slru_put_conserves (s s' : Slru κ ν) (k : κ) (v : ν) (r : PutResult κ ν) (d : List (Obj κ ν)) (h : s.Inv)
    (hp : s.put k v = .ok (r, s', d)) (o : Obj κ ν) :
    s.heldAll.count o + ([Obj.key k, Obj.val v] : List (Obj κ ν)).count o =
      s'.heldAll.count o + r.drops.count o + d.count o := Slru.put_count s s' k v r d h hp o

theorem slru_putProtected_conserves (s s' : Slru κ ν) (k : κ) (v : ν) (r : PutResult κ ν) (d : List (Obj κ ν))
    (hp : s.putProtected k v = .ok (r, s', d)) (o : Obj κ ν) :
    s.heldAll.count o + ([Obj.key k, Obj.val v] : List (Obj κ ν)).count o =
      s'.heldAll.count o + r.drops.count o + d.count o := Slru.putProtected_count s s' k v r d hp o

theorem slru_get_conserves (s s' : Slru κ ν) (k : κ) (w r : Option ν) (h : s.Inv) (hp : s.getMut k w = .ok (r, s'))
    (o : Obj κ ν) :
    s.heldAll.count o + (wrIn r w : List (Obj κ ν)).count o = s'.heldAll.count o + (wrOut r w : List (Obj κ ν)).count o :=
  Slru.getMut_count s s' k w r h hp o

theorem slru_remove_conserves (s : Slru κ ν) (k : κ) (o : Obj κ ν) :
    s.heldAll.count o = (s.remove k).1.heldAll.count o + (objsV (s.remove k).2.1 : List (Obj κ ν)).count o +
      (s.remove k).2.2.count o := Slru.remove_count s k o

theorem slru_purge_releases (s : Slru κ ν) :
    ∃ s' d, s.purge = .ok (s', d) ∧ s'.heldAll = [] ∧ ∀ o : Obj κ ν, s.heldAll.count o = d.count o := Slru.purge_count s

theorem slru_drop_releases (s : Slru κ ν) : s.dropCache = s.heldAll := rfl

/-! ## TwoQueueCache (ghost entries keep their values and are owned like any other entry) -/

theorem twoq_put_conserves (q : TwoQ κ ν) (k : κ) (v : ν) (h : q.Inv) :
    ∃ r q' d, q.put k v = .ok (r, q', d) ∧ ∀ o : Obj κ ν,
      q.heldAll.count o + ([Obj.key k, Obj.val v] : List (Obj κ ν)).count o =
        q'.heldAll.count o + r.drops.count o + d.count o := TwoQ.put_count q k v h

theorem twoq_get_conserves (q : TwoQ κ ν) (k : κ) (w : Option ν) (h : q.Inv) :
    ∃ r q', q.getMut k w = .ok (r, q') ∧ ∀ o : Obj κ ν,
      q.heldAll.count o + (wrIn r w : List (Obj κ ν)).count o = q'.heldAll.count o + (wrOut r w : List (Obj κ ν)).count o :=
  TwoQ.getMut_count q k w h

theorem twoq_remove_conserves (q : TwoQ κ ν) (k : κ) (o : Obj κ ν) :
    q.heldAll.count o = (q.remove k).1.heldAll.count o + (objsV (q.remove k).2.1 : List (Obj κ ν)).count o +
      (q.remove k).2.2.count o := TwoQ.remove_count q k o

theorem twoq_purge_releases (q : TwoQ κ ν) :
    ∃ q' d, q.purge = .ok (q', d) ∧ q'.heldAll = [] ∧ ∀ o : Obj κ ν, q.heldAll.count o = d.count o := TwoQ.purge_count q

theorem twoq_drop_releases (q : TwoQ κ ν) (o : Obj κ ν) : q.dropCache.count o = q.heldAll.count o := TwoQ.drop_count q o

/-! ## AdaptiveCache (ghost entries pushed out or trimmed are dropped by the cache, and counted) -/

theorem arc_put_conserves (a a' : Arc κ ν) (k : κ) (v : ν) (r : PutResult κ ν) (d : List (Obj κ ν))
    (hp : a.put k v = .ok (r, a', d)) (o : Obj κ ν) :
    a.heldAll.count o + ([Obj.key k, Obj.val v] : List (Obj κ ν)).count o =
      a'.heldAll.count o + r.drops.count o + d.count o := Arc.put_count a a' k v r d hp o

theorem arc_get_conserves (a a' : Arc κ ν) (k : κ) (w r : Option ν) (d : List (Obj κ ν))
    (hp : a.getMut k w = .ok (r, a', d)) (o : Obj κ ν) :
    a.heldAll.count o + (wrIn r w : List (Obj κ ν)).count o =
      a'.heldAll.count o + (wrOut r w : List (Obj κ ν)).count o + d.count o := Arc.getMut_count a a' k w r d hp o

theorem arc_remove_conserves (a : Arc κ ν) (k : κ) (o : Obj κ ν) :
    a.heldAll.count o = (a.remove k).1.heldAll.count o + (objsV (a.remove k).2.1 : List (Obj κ ν)).count o +
      (a.remove k).2.2.count o := Arc.remove_count a k o

theorem arc_purge_releases (a : Arc κ ν) :
    ∃ a' d, a.purge = .ok (a', d) ∧ a'.heldAll = [] ∧ ∀ o : Obj κ ν, a.heldAll.count o = d.count o := Arc.purge_count a

theorem arc_drop_releases (a : Arc κ ν) (o : Obj κ ν) : a.dropCache.count o = a.heldAll.count o := Arc.drop_count a o

/-! ## WTinyLFUCache -/

theorem wtinylfu_put_conserves (c c' : WTinyLfu κ ν) (kh : κ → UInt64) (k : κ) (v : ν) (r : PutResult κ ν)
    (d : List (Obj κ ν)) (hi : c.Inv) (hp : c.put kh k v = .ok (r, c', d)) (o : Obj κ ν) :
    c.heldAll.count o + ([Obj.key k, Obj.val v] : List (Obj κ ν)).count o =
      c'.heldAll.count o + r.drops.count o + d.count o := WTinyLfu.put_count c c' kh k v r d hi hp o

theorem wtinylfu_get_conserves (c c' : WTinyLfu κ ν) (kh : κ → UInt64) (k : κ) (w r : Option ν) (hi : c.Inv)
    (hp : c.getMut kh k w = .ok (r, c')) (o : Obj κ ν) :
    c.heldAll.count o + (wrIn r w : List (Obj κ ν)).count o = c'.heldAll.count o + (wrOut r w : List (Obj κ ν)).count o :=
  WTinyLfu.getMut_count c c' kh k w r hi hp o

theorem wtinylfu_remove_conserves (c : WTinyLfu κ ν) (k : κ) (o : Obj κ ν) :
    c.heldAll.count o = (c.remove k).1.heldAll.count o + (objsV (c.remove k).2.1 : List (Obj κ ν)).count o +
      (c.remove k).2.2.count o := WTinyLfu.remove_count c k o

theorem wtinylfu_purge_releases (c : WTinyLfu κ ν) :
    ∃ c' d, c.purge = .ok (c', d) ∧ c'.heldAll = [] ∧ ∀ o : Obj κ ν, c.heldAll.count o = d.count o := WTinyLfu.purge_count c

theorem wtinylfu_drop_releases (c : WTinyLfu κ ν) : c.dropCache = c.heldAll := rfl

/-! ## the ledger over whole histories ("at any moment …")

`runLedger` runs a history of `put` / `get` / `remove` / `purge` and keeps two columns: every object handed to the cache,
and every object the cache handed back (in a `PutResult`, from `remove`) or dropped itself. For every history from a
well-formed cache and for every object `o`: `#held at the start + #handed in = #held at the end + #handed back or dropped`.
Starting from an empty cache this says each object handed in is, at that moment, exactly once in exactly one of the three
places — nothing dropped twice, nothing leaked, nothing dropped while still held. -/

theorem slru_ledger (p q : Nat) (s0 : Slru κ ν) (hc : Slru.new p q = some s0) (ops : List (LOp κ ν)) :
    ∃ s ins outs, runLedger Slru.lstep s0 ops = .ok (s, ins, outs) ∧
      ∀ o, ins.count o = s.heldAll.count o + outs.count o := by
  obtain ⟨s, ins, outs, hr, _, he⟩ := ledger_history Slru.lstep Slru.Inv Slru.heldAll Slru.lstep_ok ops s0 (Slru.inv_new p q s0 hc).1
  refine ⟨s, ins, outs, hr, fun o => ?_⟩
  have h0 : s0.heldAll = [] := by
    unfold Slru.new at hc; split at hc <;> try simp at hc
    rw [← hc.2]; rfl
  have := he o; rw [h0] at this; simpa using this

theorem twoq_ledger (size : Nat) (rr gr : RatioClass) (rs es : Nat) (q0 : TwoQ κ ν)
    (hc : TwoQ.new size rr gr rs es = .ok q0) (h0 : q0.heldAll = []) (ops : List (LOp κ ν)) :
    ∃ q ins outs, runLedger TwoQ.lstep q0 ops = .ok (q, ins, outs) ∧
      ∀ o, ins.count o = q.heldAll.count o + outs.count o := by
  obtain ⟨q, ins, outs, hr, _, he⟩ := ledger_history TwoQ.lstep TwoQ.Inv TwoQ.heldAll TwoQ.lstep_ok ops q0 (TwoQ.inv_new size rr gr rs es q0 hc)
  refine ⟨q, ins, outs, hr, fun o => ?_⟩
  have := he o; rw [h0] at this; simpa using this

theorem arc_ledger (size : Nat) (a0 : Arc κ ν) (hc : Arc.new size = some a0) (ops : List (LOp κ ν)) :
    ∃ a ins outs, runLedger Arc.lstep a0 ops = .ok (a, ins, outs) ∧
      ∀ o, ins.count o = a.heldAll.count o + outs.count o := by
  obtain ⟨a, ins, outs, hr, _, he⟩ := ledger_history Arc.lstep Arc.Inv Arc.heldAll Arc.lstep_ok ops a0 (Arc.inv_new size a0 hc).1
  refine ⟨a, ins, outs, hr, fun o => ?_⟩
  have h0 : a0.heldAll = [] := by
    unfold Arc.new at hc; split at hc <;> simp at hc; rw [← hc]; rfl
  have := he o; rw [h0] at this; simpa using this

theorem wtinylfu_ledger (kh : κ → UInt64) (c0 : WTinyLfu κ ν) (hi : c0.Inv) (h0 : c0.heldAll = []) (ops : List (LOp κ ν)) :
    ∃ c ins outs, runLedger (WTinyLfu.lstep kh) c0 ops = .ok (c, ins, outs) ∧
      ∀ o, ins.count o = c.heldAll.count o + outs.count o := by
  obtain ⟨c, ins, outs, hr, _, he⟩ := ledger_history (WTinyLfu.lstep kh) WTinyLfu.Inv WTinyLfu.heldAll (WTinyLfu.lstep_ok kh) ops c0 hi
  refine ⟨c, ins, outs, hr, fun o => ?_⟩
  have := he o; rw [h0] at this; simpa using this

/-- after a final `purge` (or `Drop`) nothing is held: everything handed in has been handed back or dropped, once -/
theorem arc_ledger_closed (size : Nat) (a0 : Arc κ ν) (hc : Arc.new size = some a0) (ops : List (LOp κ ν)) :
    ∃ a ins outs, runLedger Arc.lstep a0 (ops ++ [.purge]) = .ok (a, ins, outs) ∧ a.heldAll = [] ∧
      ∀ o, ins.count o = outs.count o := by
  obtain ⟨a, ins, outs, hr, he⟩ := arc_ledger size a0 hc (ops ++ [.purge])
  -- the last step is a purge, so the final state holds nothing
  have hlast : a.heldAll = [] := by
    have key : ∀ (l : List (LOp κ ν)) (s : Arc κ ν) (a : Arc κ ν) (i o : List (Obj κ ν)), s.Inv →
        runLedger Arc.lstep s (l ++ [.purge]) = .ok (a, i, o) → a.heldAll = [] := by
      intro l
      induction l with
      | nil =>
        intro s a i o hs hrun
        obtain ⟨a', d, hp, h0, _⟩ := Arc.purge_count s
        simp only [List.nil_append, runLedger, Arc.lstep, hp] at hrun
        injection hrun with hrun; injection hrun with e1 _; rw [← e1]; exact h0
      | cons x t ih =>
        intro s a i o hs hrun
        obtain ⟨s1, i1, o1, h1, hs1, _⟩ := Arc.lstep_ok s x hs
        simp only [List.cons_append, runLedger, h1] at hrun
        cases hr2 : runLedger Arc.lstep s1 (t ++ [.purge]) with
        | error f => simp [hr2] at hrun
        | ok res =>
          obtain ⟨a2, i2, o2⟩ := res
          simp only [hr2] at hrun; injection hrun with hrun; injection hrun with e1 _
          rw [← e1]; exact ih s1 a2 i2 o2 hs1 hr2
    exact key ops a0 a ins outs (Arc.inv_new size a0 hc).1 hr
  refine ⟨a, ins, outs, hr, hlast, fun o => ?_⟩
  have := he o; rw [hlast] at this; simpa using this

/-- non-vacuity: an ARC `put` that pushes an entry out of a full ghost list drops exactly that entry -/
example : (match ({ size := 1, p := 0, recent := ⟨1, [(1, 10)], false⟩, frequent := ⟨1, [], false⟩,
                    recentEvict := ⟨1, [(2, 20)], false⟩, frequentEvict := ⟨1, [], false⟩ } : Arc Nat Nat).put 3 30 with
           | .ok (r, a', d) => (a'.recent.items, a'.recentEvict.items, d) | .error _ => ([], [], []))
          = ([(3, 30)], [(1, 10)], [Obj.key 2, Obj.val 20]) := by decide
end C04
