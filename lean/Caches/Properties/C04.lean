/- C04 — ownership conservation (initial: RawLRU put/remove/purge/drop as multiset equations) -/
import Caches.Lemmas.RawLru
set_option linter.unusedSectionVars false
namespace C04
open M M.RawLru
variable {κ ν : Type} [DecidableEq κ] [DecidableEq ν]

/-- all key and value objects a list retains -/
def held (l : AL κ ν) : List (Obj κ ν) := l.flatMap dropEnt

/-- `purge` releases everything it held: the dropped objects are exactly the retained ones (least recent first) -/
theorem rawlru_purge_releases (c : RawLru κ ν) :
    ∃ c' e, c.purge = .ok (c', e) ∧ c'.items = [] ∧ e.drops = held c.items.reverse :=
  ⟨_, _, purge_spec c, rfl, rfl⟩

/-- dropping the cache releases exactly what is retained -/
theorem rawlru_drop_releases (c : RawLru κ ν) : c.dropCache.drops = held c.items := rfl

/-- `remove` of a present key: the value is handed back, the stored key object is dropped, nothing else -/
theorem rawlru_remove_conserves (c : RawLru κ ν) (k : κ) (v : ν) (h : find k c.items = some v) :
    c.remove k = ({ c with items := erase k c.items }, some v, { cbs := c.cbOf (k, v), drops := [.key k] }) := by
  simp [RawLru.remove, h]

theorem held_cons (e : κ × ν) (t : AL κ ν) : held (e :: t) = [Obj.key e.1, Obj.val e.2] ++ held t := by
  simp [held, dropEnt]

theorem held_erase (l : AL κ ν) (k : κ) (old : ν) (h : find k l = some old) (o : Obj κ ν) :
    (held l).count o = (held (erase k l)).count o + ([Obj.key k, Obj.val old] : List (Obj κ ν)).count o := by
  induction l with
  | nil => simp [find] at h
  | cons a t ih =>
    obtain ⟨ak, av⟩ := a
    by_cases hk : ak = k
    · subst hk
      simp only [find, if_true] at h; injection h with h; subst h
      simp only [erase, if_true, held_cons, List.count_append]; omega
    · simp only [find, hk, if_false] at h
      simp only [erase, hk, if_false, held_cons, List.count_append, ih h]; omega

theorem held_dropLast (l : AL κ ν) (e : κ × ν) (h : l.getLast? = some e) (o : Obj κ ν) :
    (held l).count o = (held l.dropLast).count o + ([Obj.key e.1, Obj.val e.2] : List (Obj κ ν)).count o := by
  have hne : l ≠ [] := by intro hc; simp [hc] at h
  have h2 := List.getLast?_eq_some_getLast hne
  rw [h] at h2
  have hs := List.dropLast_concat_getLast hne
  rw [← Option.some.inj h2] at hs
  conv => lhs; rw [← hs]
  simp [held, dropEnt, List.flatMap_append, List.count_append]

/-- `put` conserves objects: counting every object, retained-before + handed-in = retained-after + handed-back + dropped -/
theorem rawlru_put_conserves (c c' : RawLru κ ν) (k : κ) (v : ν) (r : PutResult κ ν) (e : Eff κ ν)
    (hp : c.put k v = .ok (c', r, e)) (o : Obj κ ν) :
    (held c.items).count o + ([Obj.key k, Obj.val v] : List (Obj κ ν)).count o =
      (held c'.items).count o + r.drops.count o + e.drops.count o := by
  unfold RawLru.put at hp
  cases hf : find k c.items with
  | some old =>
    simp [hf] at hp; obtain ⟨rfl, rfl, rfl⟩ := hp
    simp only [use, held_cons, List.count_append, PutResult.drops, held_erase _ k old hf o]
    simp only [List.count_cons, List.count_nil]; omega
  | none =>
    simp only [hf] at hp
    by_cases h0 : c.cap = 0
    · simp [h0] at hp; obtain ⟨rfl, rfl, rfl⟩ := hp
      simp only [PutResult.drops, List.count_nil]; omega
    · simp only [h0, if_false] at hp
      by_cases hfull : c.items.length = c.cap
      · simp only [hfull, if_true] at hp
        cases hl : c.items.getLast? with
        | none => simp [hl] at hp
        | some lru =>
          simp [hl] at hp; obtain ⟨rfl, rfl, rfl⟩ := hp
          simp only [held_cons, List.count_append, PutResult.drops, held_dropLast _ lru hl o]
          simp only [List.count_cons, List.count_nil]; omega
      · simp [hfull] at hp; obtain ⟨rfl, rfl, rfl⟩ := hp
        simp only [held_cons, List.count_append, PutResult.drops, List.count_nil]; omega
end C04
