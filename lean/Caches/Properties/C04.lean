/-
  C04 — ownership conservation: every key and value is released exactly once, none leak.

  `held l` is the list of key and value *objects* a list retains; `heldAll` of a composite cache adds up all its
  lists, ghost lists included. Every theorem is a counting equation that holds for **each** object `o`:

      #held-before + #handed-in  =  #held-after + #handed-back-in-the-result + #dropped-by-the-cache

  so nothing is dropped twice (a second drop would make the right side too big), nothing leaks (a lost object would
  make it too small) and nothing is dropped while still retained. They hold for every well-formed state — after every
  history, by the reachability theorems of C01/C05. `purge` and `Drop` release exactly everything that is held.
  The model's drop list is what the harness compares with the real drop log (serial numbers per object) and the
  allocator balance after `drop`.
-/
import Caches.Lemmas.Conserve
import Caches.Lemmas.ConserveSlru
import Caches.Lemmas.ConserveTwoQ
import Caches.Lemmas.ConserveArc
import Caches.Lemmas.ConserveWt
set_option linter.unusedSectionVars false
namespace C04
open M M.RawLru
variable {κ ν : Type} [DecidableEq κ] [DecidableEq ν]

/-! ## RawLRU -/

/-- `purge` releases everything it held: the dropped objects are exactly the retained ones (least recent first) -/
theorem rawlru_purge_releases (c : RawLru κ ν) :
    ∃ c' e, c.purge = .ok (c', e) ∧ c'.items = [] ∧ e.drops = held c.items.reverse :=
  ⟨_, _, purge_spec c, rfl, rfl⟩

/-- dropping the cache releases exactly what is retained -/
theorem rawlru_drop_releases (c : RawLru κ ν) : c.dropCache.drops = held c.items := rfl

/-- `remove` of a present key: the value is handed back, the stored key object is dropped, nothing else -/
theorem rawlru_remove_conserves (c : RawLru κ ν) (k : κ) (v : ν) (h : find k c.items = some v) :
    c.remove k = ({ c with items := erase k c.items }, some v, { cbs := c.cbOf (k, v), drops := [.key k] }) := by
  simp [RawLru.remove, h]

theorem rawlru_put_conserves (c c' : RawLru κ ν) (k : κ) (v : ν) (r : PutResult κ ν) (e : Eff κ ν)
    (hp : c.put k v = .ok (c', r, e)) (o : Obj κ ν) :
    (held c.items).count o + ([Obj.key k, Obj.val v] : List (Obj κ ν)).count o =
      (held c'.items).count o + r.drops.count o + e.drops.count o := RawLru.put_count c c' k v r e hp o

theorem rawlru_remove_counts (c : RawLru κ ν) (k : κ) (o : Obj κ ν) :
    (held c.items).count o = (held (c.remove k).1.items).count o + (objsV (c.remove k).2.1 : List (Obj κ ν)).count o +
      (c.remove k).2.2.drops.count o := RawLru.remove_count c k o

theorem rawlru_removeLru_counts (c : RawLru κ ν) (o : Obj κ ν) :
    (held c.items).count o = (held c.removeLru.1.items).count o + (objsE c.removeLru.2.1 : List (Obj κ ν)).count o :=
  RawLru.removeLru_count c o

/-! ## SegmentedCache -/

theorem slru_put_conserves (s s' : Slru κ ν) (k : κ) (v : ν) (r : PutResult κ ν) (d : List (Obj κ ν)) (h : s.Inv)
    (hp : s.put k v = .ok (r, s', d)) (o : Obj κ ν) :
    s.heldAll.count o + ([Obj.key k, Obj.val v] : List (Obj κ ν)).count o =
      s'.heldAll.count o + r.drops.count o + d.count o := Slru.put_count s s' k v r d h hp o

theorem slru_putProtected_conserves (s s' : Slru κ ν) (k : κ) (v : ν) (r : PutResult κ ν) (d : List (Obj κ ν))
    (hp : s.putProtected k v = .ok (r, s', d)) (o : Obj κ ν) :
    s.heldAll.count o + ([Obj.key k, Obj.val v] : List (Obj κ ν)).count o =
      s'.heldAll.count o + r.drops.count o + d.count o := Slru.putProtected_count s s' k v r d hp o

theorem slru_get_conserves (s s' : Slru κ ν) (k : κ) (w r : Option ν) (h : s.Inv) (hp : s.getMut k w = .ok (r, s'))
    (o : Obj κ ν) :
    s.heldAll.count o + (wrIn r w : List (Obj κ ν)).count o = s'.heldAll.count o + (wrOut r w : List (Obj κ ν)).count o :=
  Slru.getMut_count s s' k w r h hp o

theorem slru_remove_conserves (s : Slru κ ν) (k : κ) (o : Obj κ ν) :
    s.heldAll.count o = (s.remove k).1.heldAll.count o + (objsV (s.remove k).2.1 : List (Obj κ ν)).count o +
      (s.remove k).2.2.count o := Slru.remove_count s k o

theorem slru_purge_releases (s : Slru κ ν) (o : Obj κ ν) :
    ∃ s' d, s.purge = .ok (s', d) ∧ s'.heldAll = [] ∧ s.heldAll.count o = d.count o := Slru.purge_count s o

theorem slru_drop_releases (s : Slru κ ν) : s.dropCache = s.heldAll := rfl

/-! ## TwoQueueCache (ghost entries keep their values and are owned like any other entry) -/

theorem twoq_put_conserves (q : TwoQ κ ν) (k : κ) (v : ν) (h : q.Inv) :
    ∃ r q' d, q.put k v = .ok (r, q', d) ∧ ∀ o : Obj κ ν,
      q.heldAll.count o + ([Obj.key k, Obj.val v] : List (Obj κ ν)).count o =
        q'.heldAll.count o + r.drops.count o + d.count o := TwoQ.put_count q k v h

theorem twoq_get_conserves (q : TwoQ κ ν) (k : κ) (w : Option ν) (h : q.Inv) :
    ∃ r q', q.getMut k w = .ok (r, q') ∧ ∀ o : Obj κ ν,
      q.heldAll.count o + (wrIn r w : List (Obj κ ν)).count o = q'.heldAll.count o + (wrOut r w : List (Obj κ ν)).count o :=
  TwoQ.getMut_count q k w h

theorem twoq_remove_conserves (q : TwoQ κ ν) (k : κ) (o : Obj κ ν) :
    q.heldAll.count o = (q.remove k).1.heldAll.count o + (objsV (q.remove k).2.1 : List (Obj κ ν)).count o +
      (q.remove k).2.2.count o := TwoQ.remove_count q k o

theorem twoq_purge_releases (q : TwoQ κ ν) (o : Obj κ ν) :
    ∃ q' d, q.purge = .ok (q', d) ∧ q'.heldAll = [] ∧ q.heldAll.count o = d.count o := TwoQ.purge_count q o

theorem twoq_drop_releases (q : TwoQ κ ν) (o : Obj κ ν) : q.dropCache.count o = q.heldAll.count o := TwoQ.drop_count q o

/-! ## AdaptiveCache (ghost entries pushed out or trimmed are dropped by the cache, and counted) -/

theorem arc_put_conserves (a a' : Arc κ ν) (k : κ) (v : ν) (r : PutResult κ ν) (d : List (Obj κ ν))
    (hp : a.put k v = .ok (r, a', d)) (o : Obj κ ν) :
    a.heldAll.count o + ([Obj.key k, Obj.val v] : List (Obj κ ν)).count o =
      a'.heldAll.count o + r.drops.count o + d.count o := Arc.put_count a a' k v r d hp o

theorem arc_get_conserves (a a' : Arc κ ν) (k : κ) (w r : Option ν) (d : List (Obj κ ν))
    (hp : a.getMut k w = .ok (r, a', d)) (o : Obj κ ν) :
    a.heldAll.count o + (wrIn r w : List (Obj κ ν)).count o =
      a'.heldAll.count o + (wrOut r w : List (Obj κ ν)).count o + d.count o := Arc.getMut_count a a' k w r d hp o

theorem arc_remove_conserves (a : Arc κ ν) (k : κ) (o : Obj κ ν) :
    a.heldAll.count o = (a.remove k).1.heldAll.count o + (objsV (a.remove k).2.1 : List (Obj κ ν)).count o +
      (a.remove k).2.2.count o := Arc.remove_count a k o

theorem arc_purge_releases (a : Arc κ ν) (o : Obj κ ν) :
    ∃ a' d, a.purge = .ok (a', d) ∧ a'.heldAll = [] ∧ a.heldAll.count o = d.count o := Arc.purge_count a o

theorem arc_drop_releases (a : Arc κ ν) (o : Obj κ ν) : a.dropCache.count o = a.heldAll.count o := Arc.drop_count a o

/-! ## WTinyLFUCache -/

theorem wtinylfu_put_conserves (c c' : WTinyLfu κ ν) (kh : κ → UInt64) (k : κ) (v : ν) (r : PutResult κ ν)
    (d : List (Obj κ ν)) (hi : c.Inv) (hp : c.put kh k v = .ok (r, c', d)) (o : Obj κ ν) :
    c.heldAll.count o + ([Obj.key k, Obj.val v] : List (Obj κ ν)).count o =
      c'.heldAll.count o + r.drops.count o + d.count o := WTinyLfu.put_count c c' kh k v r d hi hp o

theorem wtinylfu_get_conserves (c c' : WTinyLfu κ ν) (kh : κ → UInt64) (k : κ) (w r : Option ν) (hi : c.Inv)
    (hp : c.getMut kh k w = .ok (r, c')) (o : Obj κ ν) :
    c.heldAll.count o + (wrIn r w : List (Obj κ ν)).count o = c'.heldAll.count o + (wrOut r w : List (Obj κ ν)).count o :=
  WTinyLfu.getMut_count c c' kh k w r hi hp o

theorem wtinylfu_remove_conserves (c : WTinyLfu κ ν) (k : κ) (o : Obj κ ν) :
    c.heldAll.count o = (c.remove k).1.heldAll.count o + (objsV (c.remove k).2.1 : List (Obj κ ν)).count o +
      (c.remove k).2.2.count o := WTinyLfu.remove_count c k o

theorem wtinylfu_purge_releases (c : WTinyLfu κ ν) (o : Obj κ ν) :
    ∃ c' d, c.purge = .ok (c', d) ∧ c'.heldAll = [] ∧ c.heldAll.count o = d.count o := WTinyLfu.purge_count c o

theorem wtinylfu_drop_releases (c : WTinyLfu κ ν) : c.dropCache = c.heldAll := rfl

/-- non-vacuity: an ARC `put` that pushes an entry out of a full ghost list drops exactly that entry -/
example : (match ({ size := 1, p := 0, recent := ⟨1, [(1, 10)], false⟩, frequent := ⟨1, [], false⟩,
                    recentEvict := ⟨1, [(2, 20)], false⟩, frequentEvict := ⟨1, [], false⟩ } : Arc Nat Nat).put 3 30 with
           | .ok (r, a', d) => (a'.recent.items, a'.recentEvict.items, d) | .error _ => ([], [], []))
          = ([(3, 30)], [(1, 10)], [Obj.key 2, Obj.val 20]) := by decide
end C04
