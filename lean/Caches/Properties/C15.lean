/- C15 — eviction callback (RawLRU): `Eff.cbs` of every operation = the departing entries, in leaving order,
   with their current values; nothing for updates, reads, hits of `*_or_put`; nothing at all without a callback. -/
import Caches.Lemmas.RawLru
import Caches.Lemmas.Departures
import Caches.Lemmas.Reach
set_option linter.unusedSectionVars false
set_option linter.unusedVariables false
namespace C15
open M M.RawLru
variable {κ ν : Type} [DecidableEq κ]

/-- `put`: exactly one call, for the evicted least-recent entry, and only when the cache was full;
    none for an update, a plain insert, or the hand-back at capacity 0 -/
theorem put_cbs (c c' : RawLru κ ν) (k : κ) (v : ν) (r : PutResult κ ν) (e : Eff κ ν)
    (hp : c.put k v = .ok (c', r, e)) :
    e.cbs = (if find k c.items = none ∧ c.cap ≠ 0 ∧ c.items.length = c.cap
             then (match c.items.getLast? with | some lru => c.cbOf lru | none => []) else []) := by
  unfold RawLru.put at hp
  cases hf : find k c.items with
  | some old => simp [hf] at hp; obtain ⟨_, _, rfl⟩ := hp; simp
  | none =>
    simp only [hf] at hp
    by_cases h0 : c.cap = 0
    · simp [h0] at hp; obtain ⟨_, _, rfl⟩ := hp; simp [h0]
    · simp only [h0, if_false] at hp
      by_cases hfull : c.items.length = c.cap
      · simp only [hfull, if_true] at hp
        cases hl : c.items.getLast? with
        | none => simp [hl] at hp
        | some lru => simp [hl] at hp; obtain ⟨_, _, rfl⟩ := hp; simp [h0, hfull]
      · simp [hfull] at hp; obtain ⟨_, _, rfl⟩ := hp; simp [hfull]

theorem cbOf_spec (c : RawLru κ ν) (e : κ × ν) : c.cbOf e = if c.hasCb then [e] else [] := rfl

/-- `remove` of a present key: one call with the key and its current value; none on a miss -/
theorem remove_cbs (c : RawLru κ ν) (k : κ) :
    (c.remove k).2.2.cbs = match find k c.items with
      | some v => c.cbOf (k, v)
      | none => [] := by
  unfold RawLru.remove; cases find k c.items <;> rfl

/-- `remove_lru`: one call for the least recent entry -/
theorem removeLru_cbs (c : RawLru κ ν) :
    (c.removeLru).2.2.cbs = match c.items.getLast? with
      | some e => c.cbOf e
      | none => [] := by
  unfold RawLru.removeLru RawLru.removeLruIn; cases c.items.getLast? <;> rfl

/-- `purge`: every entry, least recent first -/
theorem purge_cbs (c : RawLru κ ν) :
    ∃ c' e, c.purge = .ok (c', e) ∧ e.cbs = if c.hasCb then c.items.reverse else [] :=
  ⟨_, _, purge_spec c, rfl⟩

/-- `resize n`: the discarded entries (those beyond the `n` most recent), least recent first; none if nothing goes -/
theorem resize_cbs (c : RawLru κ ν) (n : Nat) :
    ∃ c' ev e, c.resize n = .ok (c', ev, e) ∧
      e.cbs = if c.hasCb ∧ n ≠ c.cap then (c.items.drop n).reverse else [] := by
  by_cases hne : n = c.cap
  · subst hne; exact ⟨_, _, _, resize_same c, by simp⟩
  · refine ⟨_, _, _, RawLru.resize_spec c n hne, ?_⟩
    simp only [goneEff]; cases c.hasCb <;> simp [hne]

/-- reads never call the callback: `get`, `get_mut`, `peek*`, `get_lru*`, `get_mru*` return no effects at all (their model
    functions have no `Eff` component); the hit branch of `*_or_put` reports none -/
theorem orput_hit_cbs (c : RawLru κ ν) (k : κ) (v cur : ν) (h : find k c.items = some cur) :
    ∃ e, c.peekOrPut k v = .ok (c, some cur, none, e) ∧ e.cbs = [] := by
  simp [RawLru.peekOrPut, h]

/-- without a callback nothing is ever logged -/
theorem no_callback_no_calls (c : RawLru κ ν) (e : κ × ν) (h : c.hasCb = false) : c.cbOf e = [] := by
  simp [RawLru.cbOf, h]

/-! ## exactly once per departing entry, never otherwise

`Departures items items' cbs`: the log has no repeated key and lists exactly the entries of `items` whose key is no
longer present in `items'` (with the value they had). Proved for every operation that can make an entry leave, on
every well-formed cache with a callback installed; `stepCb` packages them as one step function and
`departures_every_step` lifts the statement to every state reachable by any history. -/

theorem put_exactly_departures (c c' : RawLru κ ν) (k : κ) (v : ν) (r : PutResult κ ν) (e : Eff κ ν) (h : c.Inv)
    (hcb : c.hasCb = true) (hp : c.put k v = .ok (c', r, e)) : Departures c.items c'.items e.cbs :=
  put_departures c c' k v r e h hcb hp

theorem remove_exactly_departures (c : RawLru κ ν) (k : κ) (h : c.Inv) (hcb : c.hasCb = true) :
    Departures c.items (c.remove k).1.items (c.remove k).2.2.cbs := remove_departures c k h hcb

theorem removeLru_exactly_departures (c : RawLru κ ν) (h : c.Inv) (hcb : c.hasCb = true) :
    Departures c.items c.removeLru.1.items c.removeLru.2.2.cbs := removeLru_departures c h hcb

theorem purge_exactly_departures (c : RawLru κ ν) (h : c.Inv) (hcb : c.hasCb = true) :
    ∃ c' e, c.purge = .ok (c', e) ∧ Departures c.items c'.items e.cbs ∧ e.cbs = c.items.reverse :=
  purge_departures c h hcb

theorem resize_exactly_departures (c : RawLru κ ν) (n : Nat) (h : c.Inv) (hcb : c.hasCb = true) :
    ∃ c' ev e, c.resize n = .ok (c', ev, e) ∧ Departures c.items c'.items e.cbs := resize_departures c n h hcb

/-- one step together with its callback log (reads and in-place writes log nothing by construction) -/
def stepCb (c : RawLru κ ν) : RawOp κ ν → Res (RawLru κ ν × List (κ × ν))
  | .put k v => match c.put k v with | .error f => .error f | .ok (c', _, e) => .ok (c', e.cbs)
  | .remove k => .ok ((c.remove k).1, (c.remove k).2.2.cbs)
  | .removeLru => .ok (c.removeLru.1, c.removeLru.2.2.cbs)
  | .purge => match c.purge with | .error f => .error f | .ok (c', e) => .ok (c', e.cbs)
  | .resize n => match c.resize n with | .error f => .error f | .ok (c', _, e) => .ok (c', e.cbs)
  | .peekOrPut k v => match c.peekOrPut k v with | .error f => .error f | .ok (c', _, _, e) => .ok (c', e.cbs)
  | .peekMutOrPut k v w => match c.peekMutOrPut k v w with | .error f => .error f | .ok (c', _, _, e) => .ok (c', e.cbs)
  | .containsOrPut k v => match c.containsOrPut k v with | .error f => .error f | .ok (c', _, _, e) => .ok (c', e.cbs)
  | o => match c.step o with | .error f => .error f | .ok c' => .ok (c', [])

/-- the log of the capacity-evicting / removing operations, at every state reachable by any history of a cache built
    with a callback: exactly the departing entries, each once -/
theorem departures_every_step (cap : Nat) (c0 : RawLru κ ν) (h0 : RawLru.new cap true = some c0)
    (ops : List (RawOp κ ν)) :
    ∃ c, runOps RawLru.step c0 ops = .ok c ∧ c.hasCb = true ∧
      (∀ k v, ∃ c' log, stepCb c (.put k v) = .ok (c', log) ∧ Departures c.items c'.items log) ∧
      (∀ k, ∃ c' log, stepCb c (.remove k) = .ok (c', log) ∧ Departures c.items c'.items log) ∧
      (∃ c' log, stepCb c .removeLru = .ok (c', log) ∧ Departures c.items c'.items log) ∧
      (∃ c' log, stepCb c .purge = .ok (c', log) ∧ Departures c.items c'.items log) ∧
      (∀ n, ∃ c' log, stepCb c (.resize n) = .ok (c', log) ∧ Departures c.items c'.items log) := by
  have hcb0 : c0.hasCb = true := by
    unfold RawLru.new at h0; split at h0 <;> simp at h0; rw [← h0]
  obtain ⟨c, hr, hi, hcb⟩ := runOps_inv RawLru.step (fun c => c.Inv ∧ c.hasCb = true)
    (fun s o hs => by
      obtain ⟨s', h1, h2⟩ := RawLru.step_inv s o hs.1
      refine ⟨s', h1, h2, ?_⟩
      have := RawLru.step_hasCb s s' o hs.1 h1
      rw [this]; exact hs.2) ops c0 ⟨RawLru.inv_new cap true c0 h0, hcb0⟩
  refine ⟨c, hr, hcb, ?_, ?_, ?_, ?_, ?_⟩
  · intro k v
    obtain ⟨c', r, e, hp, _⟩ := put_total_inv c k v hi
    exact ⟨c', e.cbs, by simp only [stepCb, hp], put_departures c c' k v r e hi hcb hp⟩
  · intro k; exact ⟨_, _, rfl, remove_departures c k hi hcb⟩
  · exact ⟨_, _, rfl, removeLru_departures c hi hcb⟩
  · obtain ⟨c', e, hp, hd, _⟩ := purge_departures c hi hcb
    exact ⟨c', e.cbs, by simp only [stepCb, hp], hd⟩
  · intro n
    obtain ⟨c', ev, e, hp, hd⟩ := resize_departures c n hi hcb
    exact ⟨c', e.cbs, by simp only [stepCb, hp], hd⟩

example : ((⟨2, [(1, 10), (2, 20)], true⟩ : RawLru Nat Nat).removeLru).2.2.cbs = [(2, 20)] := by rfl
end C15
