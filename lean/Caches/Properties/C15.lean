/- C15 — eviction callback (RawLRU): `Eff.cbs` of every operation = the departing entries, in leaving order,
   with their current values; nothing for updates, reads, hits of `*_or_put`; nothing at all without a callback. -/
import Caches.Lemmas.RawLru
set_option linter.unusedSectionVars false
set_option linter.unusedVariables false
namespace C15
open M M.RawLru
variable {κ ν : Type} [DecidableEq κ]

/-- `put`: exactly one call, for the evicted least-recent entry, and only when the cache was full;
    none for an update, a plain insert, or the hand-back at capacity 0 -/
theorem put_cbs (c c' : RawLru κ ν) (k : κ) (v : ν) (r : PutResult κ ν) (e : Eff κ ν)
    (hp : c.put k v = .ok (c', r, e)) :
    e.cbs = (if find k c.items = none ∧ c.cap ≠ 0 ∧ c.items.length = c.cap
             then (match c.items.getLast? with | some lru => c.cbOf lru | none => []) else []) := by
  unfold RawLru.put at hp
  cases hf : find k c.items with
  | some old => simp [hf] at hp; obtain ⟨_, _, rfl⟩ := hp; simp
  | none =>
    simp only [hf] at hp
    by_cases h0 : c.cap = 0
    · simp [h0] at hp; obtain ⟨_, _, rfl⟩ := hp; simp [h0]
    · simp only [h0, if_false] at hp
      by_cases hfull : c.items.length = c.cap
      · simp only [hfull, if_true] at hp
        cases hl : c.items.getLast? with
        | none => simp [hl] at hp
        | some lru => simp [hl] at hp; obtain ⟨_, _, rfl⟩ := hp; simp [h0, hfull]
      · simp [hfull] at hp; obtain ⟨_, _, rfl⟩ := hp; simp [hfull]

theorem cbOf_spec (c : RawLru κ ν) (e : κ × ν) : c.cbOf e = if c.hasCb then [e] else [] := rfl

/-- `remove` of a present key: one call with the key and its current value; none on a miss -/
theorem remove_cbs (c : RawLru κ ν) (k : κ) :
    (c.remove k).2.2.cbs = match find k c.items with
      | some v => c.cbOf (k, v)
      | none => [] := by
  unfold RawLru.remove; cases find k c.items <;> rfl

/-- `remove_lru`: one call for the least recent entry -/
theorem removeLru_cbs (c : RawLru κ ν) :
    (c.removeLru).2.2.cbs = match c.items.getLast? with
      | some e => c.cbOf e
      | none => [] := by
  unfold RawLru.removeLru RawLru.removeLruIn; cases c.items.getLast? <;> rfl

/-- `purge`: every entry, least recent first -/
theorem purge_cbs (c : RawLru κ ν) :
    ∃ c' e, c.purge = .ok (c', e) ∧ e.cbs = if c.hasCb then c.items.reverse else [] :=
  ⟨_, _, purge_spec c, rfl⟩

/-- `resize n`: the discarded entries (those beyond the `n` most recent), least recent first; none if nothing goes -/
theorem resize_cbs (c : RawLru κ ν) (n : Nat) :
    ∃ c' ev e, c.resize n = .ok (c', ev, e) ∧
      e.cbs = if c.hasCb ∧ n ≠ c.cap then (c.items.drop n).reverse else [] := by
  by_cases hne : n = c.cap
  · subst hne; exact ⟨_, _, _, resize_same c, by simp⟩
  · refine ⟨_, _, _, RawLru.resize_spec c n hne, ?_⟩
    simp only [goneEff]; cases c.hasCb <;> simp [hne]

/-- reads never call the callback: `get`, `get_mut`, `peek*`, `get_lru*`, `get_mru*` return no effects at all (their model
    functions have no `Eff` component); the hit branch of `*_or_put` reports none -/
theorem orput_hit_cbs (c : RawLru κ ν) (k : κ) (v cur : ν) (h : find k c.items = some cur) :
    ∃ e, c.peekOrPut k v = .ok (c, some cur, none, e) ∧ e.cbs = [] := by
  simp [RawLru.peekOrPut, h]

/-- without a callback nothing is ever logged -/
theorem no_callback_no_calls (c : RawLru κ ν) (e : κ × ν) (h : c.hasCb = false) : c.cbOf e = [] := by
  simp [RawLru.cbOf, h]

example : ((⟨2, [(1, 10), (2, 20)], true⟩ : RawLru Nat Nat).removeLru).2.2.cbs = [(2, 20)] := by rfl
end C15
