/-
  C18 — a panic in user code never leads to double free or dangling nodes (model of RawLRU's primitives).

  `M.Abort` models the chain of nodes (with identities = addresses), the hash index and the set of freed
  nodes separately, and gives every operation a *site* argument: the call into user code (Hash, Eq, Clone,
  Drop, BuildHasher, callback) at which a panic unwinds. The weak invariant `WInv` is what memory safety
  needs: node ids in the chain are distinct, every index entry points at a linked, live node carrying that
  key, no linked node is freed. Theorems: `WInv` holds after every operation aborted at every site,
  *starting from any `WInv` state* (so also for the operations that follow an earlier panic), and dropping
  the cache frees no node twice. Second half (section `Own`, model `Model/AbortOwn.lean`): which keys and values the
  unwinding frames drop, hand back or leak at each site; per object `linked-after + dropped + returned + leaked =
  linked-before + passed-in` for every operation aborted anywhere, lifted to whole histories followed by the drop of
  the cache: no object is dropped twice (`no_double_drop`), no dropped object stays reachable (`dropped_not_reachable`).
  What is modelled rather than verified: unwinding itself (which locals a frame still owns at each call into user
  code, that a return value already in the return place is leaked when a parameter's destructor unwinds) and the
  behaviour of `HashMap` under a panicking `Hash`/`Eq` (lookup/remove leave the map unchanged; a failed insert leaves
  the new entry absent) — both are compared with the real code on every run (`abortcheck`: post-panic state and drop
  log of every injection into a plain LRU). Third part (section `Composite`, model `Model/AbortG.lean`): the composite
  caches with nodes in flight between lists — every operation from every invariant heap state, aborted at any user
  call, keeps the heap invariant and never uses a node primitive outside its contract.
-/
import Caches.Lemmas.Abort
import Caches.Lemmas.AbortOwn
import Caches.Lemmas.AbortG
set_option linter.unusedSectionVars false
set_option linter.unusedVariables false
namespace C18
open M M.Abort
variable {κ ν : Type} [DecidableEq κ]

/-- panic-free histories stay inside the weak invariant -/
theorem strong_is_weak (w : W κ ν) (h : SInv w) : WInv w := h.toWInv

/-- `put`, aborted at any site (or completing), from any weak state -/
theorem put_winv (w : W κ ν) (k : κ) (v : ν) (fresh : Nat) (site : PutSite) (h : WInv w)
    (hfresh : fresh ∉ ids w.chain) : WInv (put w k v fresh site) := by
  unfold put
  by_cases h1 : site = .lookup
  · simp [h1]; exact h
  · simp only [h1, if_false]
    cases hl : lookup k w.index with
    | some i =>
      simp only
      cases hn : nodeOf i w.chain with
      | none => exact h
      | some n => exact winv_update w h k i n v hl hn
    | none =>
      simp only
      by_cases h0 : w.cap = 0
      · simp [h0]; exact h
      · simp only [h0, if_false]
        by_cases hfull : w.index.length = w.cap
        · simp only [hfull, if_true]
          cases hlast : w.chain.getLast? with
          | none => exact h
          | some old =>
            simp only
            by_cases h2 : site = .removeOld
            · simp [h2]; exact h
            · simp only [h2, if_false]
              cases hlo : lookup old.key w.index with
              | none => exact h
              | some i =>
                simp only
                by_cases h3 : site = .insertNew
                · simp only [h3, if_true]
                  exact winv_recycle w h k old.key i v false hl hlo
                · simp only [h3, if_false]
                  exact winv_recycle w h k old.key i v true hl hlo
        · simp only [hfull, if_false]
          by_cases h3 : site = .insertNew
          · simp only [h3, if_true]
            have := winv_fresh w h k v fresh false hl hfresh
            simpa using this
          · simp only [h3, if_false]
            have := winv_fresh w h k v fresh true hl hfresh
            simpa using this

/-- `remove`, aborted at any site, from any weak state; the freed node is no longer reachable -/
theorem remove_winv (w : W κ ν) (k : κ) (site : RemoveSite) (h : WInv w) : WInv (remove w k site) := by
  unfold remove
  by_cases h1 : site = .lookup
  · simp [h1]; exact h
  · simp only [h1, if_false]
    cases hl : lookup k w.index with
    | none => exact h
    | some i => exact winv_unlinked w h k i hl

theorem removeLru_winv (w : W κ ν) (site : RemoveSite) (h : WInv w) : WInv (removeLru w site) := by
  unfold removeLru
  cases hlast : w.chain.getLast? with
  | none => exact h
  | some old =>
    simp only
    by_cases h1 : site = .lookup
    · simp [h1]; exact h
    · simp only [h1, if_false]
      cases hl : lookup old.key w.index with
      | none => exact h
      | some i => exact winv_unlinked w h old.key i hl

theorem removeLruN_winv (w : W κ ν) (j : Nat) (h : WInv w) : WInv (removeLruN w j) := by
  induction j generalizing w with
  | zero => exact h
  | succ j ih => exact ih _ (removeLru_winv w .done h)

/-- `purge` aborted in any iteration at any site -/
theorem purge_winv (w : W κ ν) (j : Nat) (site : RemoveSite) (h : WInv w) : WInv (purge w j site) :=
  removeLru_winv _ site (removeLruN_winv w j h)

/-- `resize` aborted in any iteration at any site, in the re-hash, or completed -/
theorem resize_winv (w : W κ ν) (n j : Nat) (site : RemoveSite) (fin : Bool) (h : WInv w) : WInv (resize w n j site fin) := by
  unfold resize
  split
  · exact h
  · simp only
    split
    · have := removeLruN_winv w (w.index.length - n) h
      exact ⟨this.ids_nd, this.idx_keys_nd, this.idx_ids_nd, this.idx_in_chain, this.live⟩
    · split
      · exact removeLru_winv _ site (removeLruN_winv w j h)
      · exact removeLruN_winv w _ h

theorem get_winv (w : W κ ν) (k : κ) (site : RemoveSite) (h : WInv w) : WInv (Abort.get w k site) := by
  unfold Abort.get
  by_cases h1 : site = .lookup
  · simp [h1]; exact h
  · simp only [h1, if_false]
    cases hl : lookup k w.index with
    | none => exact h
    | some i =>
      simp only
      cases hn : nodeOf i w.chain with
      | none => exact h
      | some n =>
        have := winv_update w h k i n n.val hl hn
        simpa using this

/-- no freed node stays reachable: in every weak state the freed set is disjoint from the chain and the index -/
theorem freed_unreachable (w : W κ ν) (h : WInv w) :
    (∀ n ∈ w.chain, n.id ∉ w.freed) ∧ (∀ e ∈ w.index, e.2 ∉ w.freed) := by
  refine ⟨h.live, ?_⟩
  intro e he
  obtain ⟨n, hn, hi, _⟩ := h.idx_in_chain e.1 e.2 he
  rw [← hi]; exact h.live n hn

/-- dropping the cache (also when a `Drop` panics after `processed` entries) frees no node twice -/
theorem drop_no_double_free (w : W κ ν) (processed : Nat) (h : WInv w) (hf : w.freed.Nodup) :
    (dropCache w processed).Nodup := by
  unfold dropCache
  rw [List.nodup_append]
  refine ⟨hf, ?_, ?_⟩
  · exact List.Sublist.nodup (List.Sublist.map _ (List.take_sublist _ _)) h.idx_ids_nd
  · intro a ha b hb hab
    subst hab
    obtain ⟨e, he, rfl⟩ := List.mem_map.1 hb
    exact (freed_unreachable w h).2 e (List.mem_of_mem_take he) ha

/-- the countdown iterators take `map.len()` steps through the chain: the index never outgrows the chain -/
theorem index_le_chain (w : W κ ν) (h : WInv w) : w.index.length ≤ w.chain.length := by
  have hsub : ∀ i ∈ w.index.map (·.2), i ∈ ids w.chain := by
    intro i hi
    obtain ⟨e, he, rfl⟩ := List.mem_map.1 hi
    obtain ⟨n, hn, hni, _⟩ := h.idx_in_chain e.1 e.2 he
    exact List.mem_map.2 ⟨n, hn, hni⟩
  have := List.Nodup.length_le_of_subset h.idx_ids_nd hsub  -- needs Subset
  simpa [ids] using this

/-- non-vacuity: a state with a linked but un-indexed node (what a panic in `map.insert` leaves) is weak, not strong -/
example : WInv ({ chain := [⟨7, 1, 10⟩, ⟨3, 2, 20⟩], index := [(2, 3)], cap := 2, freed := [] } : W Nat Nat) := by
  refine ⟨by decide, by decide, by decide, ?_, by simp⟩
  intro k i hm
  simp at hm
  obtain ⟨rfl, rfl⟩ := hm
  exact ⟨⟨3, 2, 20⟩, by simp, rfl, rfl⟩

/-! ### ownership of keys and values under abort: every object is owned exactly once

  `payload` = objects owned by linked nodes; `Fx` = what the (possibly aborted) call dropped, handed to the caller, or
  leaked (owned by nobody, never dropped). Per object: after + dropped + returned + leaked = before + passed in. -/
section Own
variable [DecidableEq ν]

def cnt (f : Fx κ ν) (o : Obj κ ν) : Nat := f.dropped.count o + f.returned.count o + f.leaked.count o

/-- `put` aborted at any site (or completing): the two arguments and the displaced pair are each accounted for once -/
theorem put_accounts (w : W κ ν) (k : κ) (v : ν) (fresh : Nat) (s : PutFx) (h : WInv w) (o : Obj κ ν) :
    (payload (put w k v fresh s.site).chain).count o + cnt (putFx w k v s) o =
      (payload w.chain).count o + ([Obj.key k, Obj.val v] : List (Obj κ ν)).count o := by
  refine (?_ : _ ∧ True).1
  unfold put putFx cnt
  by_cases h1 : s = .lookup
  · subst h1; simp [PutFx.site]
  · have h1' : s.site ≠ .lookup := by cases s <;> simp_all [PutFx.site]
    simp only [h1, h1', if_false]
    cases hl : lookup k w.index with
    | some i =>
      obtain ⟨n, hn, -, -⟩ := nodeOf_of_lookup w h k i hl
      simp only [hn]
      have hu := payload_unlink i w.chain n h.ids_nd hn o
      have hv := count_objs_val n v o
      split <;> simp only [payload_cons, List.count_append, List.count_cons, List.count_nil, objs] at * <;>
        refine ⟨by omega, by first | rfl | trivial⟩
    | none =>
      simp only
      by_cases h0 : w.cap = 0
      · simp [h0]
      · simp only [h0, if_false]
        by_cases hfull : w.index.length = w.cap
        · simp only [hfull, if_true]
          cases hlast : w.chain.getLast? with
          | none => simp
          | some old =>
            simp only
            by_cases h2 : s = .removeOld
            · subst h2; simp [PutFx.site]
            · have h2' : s.site ≠ .removeOld := by cases s <;> simp_all [PutFx.site]
              simp only [h2, h2', if_false]
              cases hlo : lookup old.key w.index with
              | none => simp
              | some i =>
                obtain ⟨n, hn, -, -⟩ := nodeOf_of_lookup w h old.key i hlo
                simp only [hn]
                have hu := payload_unlink i w.chain n h.ids_nd hn o
                cases s <;> simp only [PutFx.site, reduceCtorEq, if_false, if_true, or_false, or_true,
                    payload_cons, List.count_append, List.count_cons, List.count_nil, objs] at * <;>
                  refine ⟨by omega, by first | rfl | trivial⟩
        · simp only [hfull, if_false]
          cases s <;> simp [PutFx.site, payload_cons, objs, List.count_cons] <;> omega

/-- `remove`: after a panicking callback the key is leaked (it sits in a `MaybeUninit` nobody drops), never dropped twice -/
theorem remove_accounts (w : W κ ν) (k : κ) (s : RmFx) (h : WInv w) (o : Obj κ ν) :
    (payload (remove w k s.site).chain).count o + cnt (removeFx w k s) o = (payload w.chain).count o := by
  unfold remove removeFx cnt
  by_cases h1 : s = .lookup
  · subst h1; simp [RmFx.site]
  · have h1' : s.site ≠ .lookup := by cases s <;> simp_all [RmFx.site]
    simp only [h1, h1', if_false]
    cases hl : lookup k w.index with
    | none => simp
    | some i =>
      obtain ⟨n, hn, -, -⟩ := nodeOf_of_lookup w h k i hl
      simp only [hn]
      have hu := payload_unlink i w.chain n h.ids_nd hn o
      cases s <;> simp only [objs, List.count_cons, List.count_nil] at * <;> omega

theorem removeLru_accounts (w : W κ ν) (s : RmFx) (h : WInv w) (o : Obj κ ν) :
    (payload (removeLru w s.site).chain).count o + cnt (removeLruFx w s) o = (payload w.chain).count o ∧
      (removeLruFx w s).leaked = [] := by
  unfold removeLru removeLruFx cnt
  cases hlast : w.chain.getLast? with
  | none => simp
  | some old =>
    simp only
    by_cases h1 : s = .lookup
    · subst h1; simp [RmFx.site]
    · have h1' : s.site ≠ .lookup := by cases s <;> simp_all [RmFx.site]
      simp only [h1, h1', if_false]
      cases hl : lookup old.key w.index with
      | none => simp
      | some i =>
        obtain ⟨n, hn, -, -⟩ := nodeOf_of_lookup w h old.key i hl
        simp only [hn]
        have hu := payload_unlink i w.chain n h.ids_nd hn o
        cases s <;> simp only [reduceCtorEq, if_false, if_true, objs, List.count_cons, List.count_nil] at * <;>
          refine ⟨by omega, by first | rfl | trivial⟩

/-- `j` complete loop iterations release exactly the pairs they unlink -/
theorem removeLruN_accounts (w : W κ ν) (j : Nat) (h : WInv w) (o : Obj κ ν) :
    (payload (removeLruN w j).chain).count o + (removeLruNDrops w j).count o = (payload w.chain).count o := by
  induction j generalizing w with
  | zero => simp [removeLruN, removeLruNDrops]
  | succ j ih =>
    have h1 := (removeLru_accounts w .done h o).1
    have hfx : cnt (removeLruFx w .done) o = (removeLruFx w .done).returned.count o := by
      have hd : (removeLruFx w .done).dropped = [] := by
        unfold removeLruFx
        cases w.chain.getLast? with
        | none => rfl
        | some old =>
          simp only [reduceCtorEq, if_false, if_true]
          cases lookup old.key w.index with
          | none => rfl
          | some i =>
            simp only
            cases nodeOf i w.chain <;> rfl
      have hl := (removeLru_accounts w .done h o).2
      simp [cnt, hd, hl]
    have h2 := ih (removeLru w .done) (removeLru_winv w .done h)
    simp only [RmFx.site] at h1
    simp only [removeLruN, removeLruNDrops, List.count_append]
    omega

/-- `purge` aborted in any iteration at any site -/
theorem purge_accounts (w : W κ ν) (j : Nat) (s : RmFx) (h : WInv w) (o : Obj κ ν) :
    (payload (purge w j s.site).chain).count o + cnt (purgeFx w j s) o = (payload w.chain).count o := by
  have h1 := removeLruN_accounts w j h o
  have h2 := removeLru_accounts (removeLruN w j) s (removeLruN_winv w j h) o
  unfold purge purgeFx
  simp only [cnt, List.count_append, List.count_nil, h2.2] at *
  omega

/-- `resize` aborted in any iteration at any site, in the re-hash, or completed -/
theorem resize_accounts (w : W κ ν) (n j : Nat) (s : RmFx) (fin : Bool) (h : WInv w) (o : Obj κ ν) :
    (payload (resize w n j s.site fin).chain).count o + cnt (resizeFx w n j s fin) o = (payload w.chain).count o := by
  unfold resize resizeFx
  split
  · simp [cnt]
  · simp only
    split
    · have := removeLruN_accounts w (w.index.length - n) h o
      simp only [cnt, List.count_nil]; omega
    · split
      · have h1 := removeLruN_accounts w j h o
        have h2 := removeLru_accounts (removeLruN w j) s (removeLruN_winv w j h) o
        simp only [cnt, List.count_append, List.count_nil, h2.2] at *
        omega
      · have := removeLruN_accounts w (w.index.length - n) h o
        simp only [cnt, List.count_nil]; omega

/-- `get` moves a node, no object changes hands -/
theorem get_accounts (w : W κ ν) (k : κ) (site : RemoveSite) (h : WInv w) (o : Obj κ ν) :
    (payload (Abort.get w k site).chain).count o = (payload w.chain).count o := by
  unfold Abort.get
  split
  · rfl
  · cases hl : lookup k w.index with
    | none => rfl
    | some i =>
      obtain ⟨n, hn, -, -⟩ := nodeOf_of_lookup w h k i hl
      simp only [hn]
      have hu := payload_unlink i w.chain n h.ids_nd hn o
      simp only [payload_cons, List.count_append]; omega

/-- `Drop for RawLRU` (also when a key's or value's `Drop` panics part-way): it drops objects of distinct linked nodes
    only, so nothing that is not owned by the list, and nothing twice; the rest leaks -/
theorem drop_accounts (w : W κ ν) (p : Nat) (panicIn : Option Bool) (h : WInv w) (o : Obj κ ν) :
    (dropFx w p panicIn).count o ≤ (payload w.chain).count o := by
  have hnd : ((w.index.take (p + 1)).map (·.2)).Nodup :=
    List.Sublist.nodup (List.Sublist.map _ (List.take_sublist _ _)) h.idx_ids_nd
  have hsel := payload_select w.chain h.ids_nd _ hnd o
  rw [List.filterMap_map, List.take_add_one, List.filterMap_append] at hsel
  have happ : ∀ a b : List (Node κ ν), payload (a ++ b) = payload a ++ payload b := by
    intro a b; simp [payload]
  rw [happ, List.count_append] at hsel
  unfold dropFx
  simp only [List.count_append, List.head?_drop]
  refine Nat.le_trans (Nat.add_le_add_left ?_ _) hsel
  cases he : w.index[p]? with
  | none => cases panicIn <;> simp
  | some e =>
    cases panicIn with
    | none => simp
    | some inKey =>
      simp only [Option.toList_some, List.filterMap_cons, List.filterMap_nil, Function.comp]
      cases hn : nodeOf e.2 w.chain with
      | none => simp
      | some n =>
        simp only [payload_cons, payload_nil, List.append_nil]
        cases inKey <;> simp only [objs, Bool.false_eq_true, if_false, if_true, List.count_cons, List.count_nil] <;> omega

/-! #### whole histories: any sequence of calls, each aborted at any site or completing, then the drop of the cache -/

/-- one call of a history together with the site at which it is aborted (`done` = it completes) -/
inductive Call (κ ν : Type)
  | put (k : κ) (v : ν) (fresh : Nat) (s : PutFx)
  | remove (k : κ) (s : RmFx)
  | removeLru (s : RmFx)
  | purge (j : Nat) (s : RmFx)
  | resize (n j : Nat) (s : RmFx) (fin : Bool)
  | get (k : κ) (site : RemoveSite)

def Call.next (w : W κ ν) : Call κ ν → W κ ν
  | .put k v fresh s => Abort.put w k v fresh s.site
  | .remove k s => Abort.remove w k s.site
  | .removeLru s => Abort.removeLru w s.site
  | .purge j s => Abort.purge w j s.site
  | .resize n j s fin => Abort.resize w n j s.site fin
  | .get k site => Abort.get w k site

def Call.fx (w : W κ ν) : Call κ ν → Fx κ ν
  | .put k v _ s => putFx w k v s
  | .remove k s => removeFx w k s
  | .removeLru s => removeLruFx w s
  | .purge j s => purgeFx w j s
  | .resize n j s fin => resizeFx w n j s fin
  | .get _ _ => {}

/-- the objects the caller passes in -/
def Call.inputs : Call κ ν → List (Obj κ ν)
  | .put k v _ _ => [Obj.key k, Obj.val v]
  | _ => []

/-- the allocator hands out an address that is not the address of a linked node -/
def Call.ok (w : W κ ν) : Call κ ν → Prop
  | .put _ _ fresh _ => fresh ∉ ids w.chain
  | _ => True

def Valid (w : W κ ν) : List (Call κ ν) → Prop
  | [] => True
  | c :: cs => c.ok w ∧ Valid (c.next w) cs

def final (w : W κ ν) : List (Call κ ν) → W κ ν
  | [] => w
  | c :: cs => final (c.next w) cs

/-- everything the calls of the history dropped (by unwinding or normally) -/
def droppedBy (w : W κ ν) : List (Call κ ν) → List (Obj κ ν)
  | [] => []
  | c :: cs => (c.fx w).dropped ++ droppedBy (c.next w) cs
/-- everything handed back to the caller or leaked -/
def releasedBy (w : W κ ν) : List (Call κ ν) → List (Obj κ ν)
  | [] => []
  | c :: cs => (c.fx w).returned ++ (c.fx w).leaked ++ releasedBy (c.next w) cs
def inputsOf : List (Call κ ν) → List (Obj κ ν)
  | [] => []
  | c :: cs => c.inputs ++ inputsOf cs

theorem call_winv (w : W κ ν) (c : Call κ ν) (h : WInv w) (hok : c.ok w) : WInv (c.next w) := by
  cases c with
  | put k v fresh s => exact put_winv w k v fresh s.site h hok
  | remove k s => exact remove_winv w k s.site h
  | removeLru s => exact removeLru_winv w s.site h
  | purge j s => exact purge_winv w j s.site h
  | resize n j s fin => exact resize_winv w n j s.site fin h
  | get k site => exact get_winv w k site h

theorem call_accounts (w : W κ ν) (c : Call κ ν) (h : WInv w) (o : Obj κ ν) :
    (payload (c.next w).chain).count o + cnt (c.fx w) o = (payload w.chain).count o + c.inputs.count o := by
  cases c with
  | put k v fresh s => exact put_accounts w k v fresh s h o
  | remove k s => simpa [Call.inputs, Call.next, Call.fx] using remove_accounts w k s h o
  | removeLru s => simpa [Call.inputs, Call.next, Call.fx] using (removeLru_accounts w s h o).1
  | purge j s => simpa [Call.inputs, Call.next, Call.fx] using purge_accounts w j s h o
  | resize n j s fin => simpa [Call.inputs, Call.next, Call.fx] using resize_accounts w n j s fin h o
  | get k site => simpa [Call.inputs, Call.next, Call.fx, cnt] using get_accounts w k site h o

/-- every history of calls, each aborted anywhere: the weak invariant holds at the end and every object that ever
    entered is in exactly one place — still linked, dropped, or released (handed back / leaked) -/
theorem history_accounts (w : W κ ν) (cs : List (Call κ ν)) (h : WInv w) (hv : Valid w cs) (o : Obj κ ν) :
    WInv (final w cs) ∧
    (payload (final w cs).chain).count o + (droppedBy w cs).count o + (releasedBy w cs).count o =
      (payload w.chain).count o + (inputsOf cs).count o := by
  induction cs generalizing w with
  | nil => simp [final, droppedBy, releasedBy, inputsOf]; exact h
  | cons c cs ih =>
    obtain ⟨hok, hv'⟩ := hv
    have hw := call_winv w c h hok
    obtain ⟨hf, hc⟩ := ih (c.next w) hw hv'
    have ha := call_accounts w c h o
    refine ⟨hf, ?_⟩
    simp only [final, droppedBy, releasedBy, inputsOf, List.count_append, cnt] at *
    omega

/-- **No key or value is dropped twice** — over a whole life of the cache: it starts empty, any calls follow, each
    aborted by a panic at any site or completing; finally the cache is dropped (its `Drop` may be cut short by a
    panicking destructor as well). If the caller never passes the same object twice (objects are tokens: `Nodup`),
    then the list of all drops the library performs has no duplicate, and it contains only objects that were passed in. -/
theorem no_double_drop (cap : Nat) (cs : List (Call κ ν)) (p : Nat) (panicIn : Option Bool)
    (hv : Valid ({ chain := [], index := [], cap := cap, freed := [] } : W κ ν) cs) (hin : (inputsOf cs).Nodup) :
    let w0 : W κ ν := { chain := [], index := [], cap := cap, freed := [] }
    (droppedBy w0 cs ++ dropFx (final w0 cs) p panicIn).Nodup ∧
      ∀ o ∈ droppedBy w0 cs ++ dropFx (final w0 cs) p panicIn, o ∈ inputsOf cs := by
  intro w0
  have h0 : WInv w0 := ⟨by simp [w0, ids], by simp [w0], by simp [w0], by simp [w0], by simp [w0]⟩
  have key : ∀ o, (droppedBy w0 cs ++ dropFx (final w0 cs) p panicIn).count o ≤ (inputsOf cs).count o := by
    intro o
    obtain ⟨hf, hc⟩ := history_accounts w0 cs h0 hv o
    have hd := drop_accounts (final w0 cs) p panicIn hf o
    have : (payload w0.chain).count o = 0 := by simp [w0, payload]
    simp only [List.count_append]
    omega
  refine ⟨List.nodup_iff_count.2 fun o => Nat.le_trans (key o) (List.nodup_iff_count.1 hin o), ?_⟩
  intro o ho
  have := key o
  have hpos : 0 < (droppedBy w0 cs ++ dropFx (final w0 cs) p panicIn).count o := List.count_pos_iff.2 ho
  exact List.count_pos_iff.1 (Nat.lt_of_lt_of_le hpos this)

/-- **No dropped key or value stays reachable**: at every point of such a life, an object the library has already
    dropped (or handed back, or leaked) is not owned by any linked node — iterators and peeks cannot hand it out -/
theorem dropped_not_reachable (cap : Nat) (cs : List (Call κ ν))
    (hv : Valid ({ chain := [], index := [], cap := cap, freed := [] } : W κ ν) cs) (hin : (inputsOf cs).Nodup) :
    let w0 : W κ ν := { chain := [], index := [], cap := cap, freed := [] }
    ∀ o ∈ droppedBy w0 cs ++ releasedBy w0 cs, o ∉ payload (final w0 cs).chain := by
  intro w0 o ho hp
  have h0 : WInv w0 := ⟨by simp [w0, ids], by simp [w0], by simp [w0], by simp [w0], by simp [w0]⟩
  obtain ⟨-, hc⟩ := history_accounts w0 cs h0 hv o
  have h1 : 0 < (droppedBy w0 cs ++ releasedBy w0 cs).count o := List.count_pos_iff.2 ho
  have h2 : 0 < (payload (final w0 cs).chain).count o := List.count_pos_iff.2 hp
  have h3 := List.nodup_iff_count.1 hin o
  have : (payload w0.chain).count o = 0 := by simp [w0, payload]
  simp only [List.count_append] at h1
  omega

/-- non-vacuity: a put whose `map.insert` panics (node linked, not indexed), then a completed put that evicts nothing,
    then a `remove` whose callback panics (key leaked) — a valid history over distinct tokens -/
example : Valid ({ chain := [], index := [], cap := 2, freed := [] } : W Nat Nat)
      [.put 1 10 100 .insertNew, .put 2 20 101 .done, .remove 2 .callback] ∧
    (inputsOf ([.put 1 10 100 .insertNew, .put 2 20 101 .done, .remove 2 .callback] : List (Call Nat Nat))).Nodup := by
  refine ⟨⟨by simp [Call.ok, ids], by simp [Call.ok, Call.next, Abort.put, PutFx.site, lookup, ids], trivial, trivial⟩, by decide⟩
end Own


/-! ### the composite caches: nodes in flight between lists while user code runs

  Model `Model/AbortG.lean`: one heap of nodes shared by the lists of a cache, each node tagged with the list it is
  linked in or `flight` (detached: referenced only by a local of the running operation, or leaked by an earlier
  unwind); the crate-internal primitives check their own contract and raise the ghost flag `fault` (undefined
  behaviour) when it is violated; a tick counter makes the `t`-th call into user code panic. `AG.Inv` is the weak
  invariant over the whole heap: node ids distinct (so no node is in two lists, or in a list and owned by a frame),
  every index entry of list `c` names a node linked in list `c` with that key, `fault = false`.
  Every operation of SegmentedCache, TwoQueueCache, AdaptiveCache, WTinyLFUCache (and every public RawLRU operation on
  one of their lists), started in ANY invariant state — in particular one left behind by an earlier
  panic — and aborted at ANY tick or completing, ends in an invariant state: no primitive is ever used outside its
  contract (no node linked twice, none freed twice or while linked, no sentinel read as an entry). -/
section Composite
open M.AG

theorem composite_op_safe (op : COp κ ν) (t : Nat) (g : G κ ν) (h : AG.Inv g) :
    AG.Inv (op.runAt t g) ∧ (op.runAt t g).fault = false := by
  have h' : AG.Inv { g with ticks := t } := h.of_same rfl rfl rfl rfl rfl
  have := (composite_op_spec op).ok h' trivial
  exact ⟨this.1, this.1.nofault⟩

/-- any history of operations, each with a panic injected at an arbitrary call into user code (or none): the
    invariant holds throughout and no primitive is ever used outside its contract -/
theorem composite_history_safe (ops : List (COp κ ν × Nat)) (g : G κ ν) (h : AG.Inv g) :
    AG.Inv (ops.foldl (fun g o => o.1.runAt o.2 g) g) ∧ (ops.foldl (fun g o => o.1.runAt o.2 g) g).fault = false := by
  induction ops generalizing g with
  | nil => exact ⟨h, h.nofault⟩
  | cons o os ih => exact ih _ (composite_op_safe o.1 o.2 g h).1

/-- dropping the cache after any such history (each list drains its index and unboxes what it finds): no node is
    unboxed twice, and every unboxed node is live and linked in the list that unboxes it -/
theorem composite_drop_safe (ops : List (COp κ ν × Nat)) (g : G κ ν) (h : AG.Inv g) (cs : List Nat) (hcs : cs.Nodup) :
    let g' := ops.foldl (fun g o => o.1.runAt o.2 g) g
    (dropAll g' cs).Nodup ∧ ∀ c i, i ∈ (g'.idx c).map (·.2) → Has g' i (.inL c) := by
  intro g'
  have hI := history_inv ops g h
  exact ⟨dropAll_nodup hI cs hcs, fun c i hi => dropAll_live hI c i hi⟩

/-- what the invariant buys (1): a node is in at most one place — two lists never share a node, and a node owned by
    a frame is in no list -/
theorem node_in_one_place (g : G κ ν) (h : AG.Inv g) (i : Nat) (t t' : Tag) (h1 : Has g i t) (h2 : Has g i t') : t = t' :=
  Has.tag_unique h h1 h2

/-- what the invariant buys (2): every index entry points at a live node linked in its own list and carrying the
    indexed key — no dangling `KeyRef`, no dangling node pointer -/
theorem index_entries_live (g : G κ ν) (h : AG.Inv g) (c : Nat) (k : κ) (i : Nat) (hm : (k, i) ∈ g.idx c) :
    ∃ e ∈ chain g c, e.id = i ∧ e.key = k := by
  obtain ⟨e, he, ht, hid, hk⟩ := h.idx_in c k i hm
  exact ⟨e, List.mem_filter.2 ⟨he, by simp [ht]⟩, hid, hk⟩

/-- non-vacuity: a TwoQueueCache `put` into a full cache whose `recent.put_nonnull(new)` panics while hashing leaves
    the new node linked in `recent` but not indexed, and the victim it had already taken out leaked in flight — a weak
    state; the invariant holds there and the history goes on (the next `put` links a second node into `recent`) -/
example :
    let g0 : G Nat Nat := emptyG (fun _ => 1)
    let ops : List (COp Nat Nat × Nat) :=
      [(.twoqPut ⟨1, 1⟩ 1 10, 100), (.twoqPut ⟨1, 1⟩ 2 20, 4), (.twoqPut ⟨1, 1⟩ 3 30, 100)]
    let g := ops.foldl (fun g o => o.1.runAt o.2 g) g0
    g.fault = false ∧ (g.pool.map (·.id)).length = 3 := by
  decide
end Composite

end C18
