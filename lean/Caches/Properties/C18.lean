/-
  C18 — a panic in user code never leads to double free or dangling nodes (model of RawLRU's primitives).

  `M.Abort` models the chain of nodes (with identities = addresses), the hash index and the set of freed
  nodes separately, and gives every operation a *site* argument: the call into user code (Hash, Eq, Clone,
  Drop, BuildHasher, callback) at which a panic unwinds. The weak invariant `WInv` is what memory safety
  needs: node ids in the chain are distinct, every index entry points at a linked, live node carrying that
  key, no linked node is freed. Theorems: `WInv` holds after every operation aborted at every site,
  *starting from any `WInv` state* (so also for the operations that follow an earlier panic), and dropping
  the cache frees no node twice. What is modelled rather than verified: unwinding itself and the behaviour of
  `HashMap` under a panicking `Hash`/`Eq` (lookup/remove leave the map unchanged; a failed insert leaves the
  new entry absent). K/V double drops and the composite caches are covered by the fault-injection runs.
-/
import Caches.Lemmas.Abort
set_option linter.unusedSectionVars false
set_option linter.unusedVariables false
namespace C18
open M M.Abort
variable {κ ν : Type} [DecidableEq κ]

/-- panic-free histories stay inside the weak invariant -/
theorem strong_is_weak (w : W κ ν) (h : SInv w) : WInv w := h.toWInv

/-- `put`, aborted at any site (or completing), from any weak state -/
theorem put_winv (w : W κ ν) (k : κ) (v : ν) (fresh : Nat) (site : PutSite) (h : WInv w)
    (hfresh : fresh ∉ ids w.chain) : WInv (put w k v fresh site) := by
  unfold put
  by_cases h1 : site = .lookup
  · simp [h1]; exact h
  · simp only [h1, if_false]
    cases hl : lookup k w.index with
    | some i =>
      simp only
      cases hn : nodeOf i w.chain with
      | none => exact h
      | some n => exact winv_update w h k i n v hl hn
    | none =>
      simp only
      by_cases h0 : w.cap = 0
      · simp [h0]; exact h
      · simp only [h0, if_false]
        by_cases hfull : w.index.length = w.cap
        · simp only [hfull, if_true]
          cases hlast : w.chain.getLast? with
          | none => exact h
          | some old =>
            simp only
            by_cases h2 : site = .removeOld
            · simp [h2]; exact h
            · simp only [h2, if_false]
              cases hlo : lookup old.key w.index with
              | none => exact h
              | some i =>
                simp only
                by_cases h3 : site = .insertNew
                · simp only [h3, if_true]
                  exact winv_recycle w h k old.key i v false hl hlo
                · simp only [h3, if_false]
                  exact winv_recycle w h k old.key i v true hl hlo
        · simp only [hfull, if_false]
          by_cases h3 : site = .insertNew
          · simp only [h3, if_true]
            have := winv_fresh w h k v fresh false hl hfresh
            simpa using this
          · simp only [h3, if_false]
            have := winv_fresh w h k v fresh true hl hfresh
            simpa using this

/-- `remove`, aborted at any site, from any weak state; the freed node is no longer reachable -/
theorem remove_winv (w : W κ ν) (k : κ) (site : RemoveSite) (h : WInv w) : WInv (remove w k site) := by
  unfold remove
  by_cases h1 : site = .lookup
  · simp [h1]; exact h
  · simp only [h1, if_false]
    cases hl : lookup k w.index with
    | none => exact h
    | some i => exact winv_unlinked w h k i hl

theorem removeLru_winv (w : W κ ν) (site : RemoveSite) (h : WInv w) : WInv (removeLru w site) := by
  unfold removeLru
  cases hlast : w.chain.getLast? with
  | none => exact h
  | some old =>
    simp only
    by_cases h1 : site = .lookup
    · simp [h1]; exact h
    · simp only [h1, if_false]
      cases hl : lookup old.key w.index with
      | none => exact h
      | some i => exact winv_unlinked w h old.key i hl

theorem removeLruN_winv (w : W κ ν) (j : Nat) (h : WInv w) : WInv (removeLruN w j) := by
  induction j generalizing w with
  | zero => exact h
  | succ j ih => exact ih _ (removeLru_winv w .done h)

/-- `purge` aborted in any iteration at any site -/
theorem purge_winv (w : W κ ν) (j : Nat) (site : RemoveSite) (h : WInv w) : WInv (purge w j site) :=
  removeLru_winv _ site (removeLruN_winv w j h)

/-- `resize` aborted in any iteration at any site, in the re-hash, or completed -/
theorem resize_winv (w : W κ ν) (n j : Nat) (site : RemoveSite) (fin : Bool) (h : WInv w) : WInv (resize w n j site fin) := by
  unfold resize
  split
  · exact h
  · simp only
    split
    · have := removeLruN_winv w (w.index.length - n) h
      exact ⟨this.ids_nd, this.idx_keys_nd, this.idx_ids_nd, this.idx_in_chain, this.live⟩
    · split
      · exact removeLru_winv _ site (removeLruN_winv w j h)
      · exact removeLruN_winv w _ h

theorem get_winv (w : W κ ν) (k : κ) (site : RemoveSite) (h : WInv w) : WInv (Abort.get w k site) := by
  unfold Abort.get
  by_cases h1 : site = .lookup
  · simp [h1]; exact h
  · simp only [h1, if_false]
    cases hl : lookup k w.index with
    | none => exact h
    | some i =>
      simp only
      cases hn : nodeOf i w.chain with
      | none => exact h
      | some n =>
        have := winv_update w h k i n n.val hl hn
        simpa using this

/-- no freed node stays reachable: in every weak state the freed set is disjoint from the chain and the index -/
theorem freed_unreachable (w : W κ ν) (h : WInv w) :
    (∀ n ∈ w.chain, n.id ∉ w.freed) ∧ (∀ e ∈ w.index, e.2 ∉ w.freed) := by
  refine ⟨h.live, ?_⟩
  intro e he
  obtain ⟨n, hn, hi, _⟩ := h.idx_in_chain e.1 e.2 he
  rw [← hi]; exact h.live n hn

/-- dropping the cache (also when a `Drop` panics after `processed` entries) frees no node twice -/
theorem drop_no_double_free (w : W κ ν) (processed : Nat) (h : WInv w) (hf : w.freed.Nodup) :
    (dropCache w processed).Nodup := by
  unfold dropCache
  rw [List.nodup_append]
  refine ⟨hf, ?_, ?_⟩
  · exact List.Sublist.nodup (List.Sublist.map _ (List.take_sublist _ _)) h.idx_ids_nd
  · intro a ha b hb hab
    subst hab
    obtain ⟨e, he, rfl⟩ := List.mem_map.1 hb
    exact (freed_unreachable w h).2 e (List.mem_of_mem_take he) ha

/-- the countdown iterators take `map.len()` steps through the chain: the index never outgrows the chain -/
theorem index_le_chain (w : W κ ν) (h : WInv w) : w.index.length ≤ w.chain.length := by
  have hsub : ∀ i ∈ w.index.map (·.2), i ∈ ids w.chain := by
    intro i hi
    obtain ⟨e, he, rfl⟩ := List.mem_map.1 hi
    obtain ⟨n, hn, hni, _⟩ := h.idx_in_chain e.1 e.2 he
    exact List.mem_map.2 ⟨n, hn, hni⟩
  have := List.Nodup.length_le_of_subset h.idx_ids_nd hsub  -- needs Subset
  simpa [ids] using this

/-- non-vacuity: a state with a linked but un-indexed node (what a panic in `map.insert` leaves) is weak, not strong -/
example : WInv ({ chain := [⟨7, 1, 10⟩, ⟨3, 2, 20⟩], index := [(2, 3)], cap := 2, freed := [] } : W Nat Nat) := by
  refine ⟨by decide, by decide, by decide, ?_, by simp⟩
  intro k i hm
  simp at hm
  obtain ⟨rfl, rfl⟩ := hm
  exact ⟨⟨3, 2, 20⟩, by simp, rfl, rfl⟩
end C18
