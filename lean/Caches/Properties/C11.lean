/- C11 — TinyLFU estimates (initial: the packed-counter arithmetic, complete finite tables by `decide +kernel`) -/
import Caches.Model.TinyLfu
namespace C11
open M

/-- saturating increment of one nibble leaves the other nibble alone; result stays a byte -/
theorem nib_inc_spec : ∀ b, b < 256 → ∀ odd : Bool,
    Nib.inc b odd < 256 ∧ Nib.get (Nib.inc b odd) odd = min 15 (Nib.get b odd + 1) ∧
    Nib.get (Nib.inc b odd) (!odd) = Nib.get b (!odd) := by decide +kernel

/-- `(b >> 1) & 0x77` halves both nibbles -/
theorem nib_halve_spec : ∀ b, b < 256 → ∀ odd : Bool,
    Nib.halve b < 256 ∧ Nib.get (Nib.halve b) odd = Nib.get b odd / 2 := by decide +kernel

theorem nib_le : ∀ b, b < 256 → ∀ odd : Bool, Nib.get b odd ≤ 15 := by decide +kernel

/-- a reset happens exactly when the window counter reaches the sample size -/
theorem tryReset_schedule (t : TinyLfu) :
    t.tryReset.w = (if t.w + 1 ≥ t.samples then 0 else t.w + 1) := by
  unfold TinyLfu.tryReset TinyLfu.reset
  by_cases h : t.w + 1 ≥ t.samples <;> simp [h]

/-- the five comparison helpers order two keys exactly as their estimates do -/
theorem compare_consistent (t : TinyLfu) (c : TinyLfu.Cmp) (a b : UInt64) (ea eb : Nat)
    (ha : t.estimate a = .ok ea) (hb : t.estimate b = .ok eb) :
    t.compare c a b = .ok (c.eval ea eb) := by
  simp [TinyLfu.compare, TinyLfu.compareHelper, ha, hb]
end C11
