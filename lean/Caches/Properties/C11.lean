/-
  C11 — TinyLFU estimates never under-count, age on schedule, and compare consistently.

  Reference (`TinyLfu.Ref`): exact per-hash bookkeeping written from the property text — the first access in a
  sample window sets the doorkeeper bit, further ones count up to 15, every reset halves the counts and clears
  the doorkeeper; a reset happens exactly when the number of recorded accesses plus explicit `try_reset` calls
  reaches the sample size.
  Theorems hold for every well-formed estimator (`TinyLfu.WF`: any number of rows ≥ 1, any row width covering
  the mask, any seeds, any Bloom geometry without overflow), both position schemes, every raw 64-bit hash and every
  interleaving of `increment`, `try_reset`, `clear` — by induction over the history.
-/
import Caches.Lemmas.TinyLfu
set_option linter.unusedSectionVars false
set_option linter.unusedVariables false
namespace C11
open M M.TinyLfu

/-- saturating increment of one nibble leaves the other nibble alone; result stays a byte (all 256 bytes) -/
theorem nib_inc_spec : ∀ b, b < 256 → ∀ odd : Bool,
    Nib.inc b odd < 256 ∧ Nib.get (Nib.inc b odd) odd = min 15 (Nib.get b odd + 1) ∧
    Nib.get (Nib.inc b odd) (!odd) = Nib.get b (!odd) := Nib.inc_spec

/-- `(b >> 1) & 0x77` halves both nibbles (all 256 bytes) -/
theorem nib_halve_spec : ∀ b, b < 256 → ∀ odd : Bool,
    Nib.halve b < 256 ∧ Nib.get (Nib.halve b) odd = Nib.get b odd / 2 := Nib.halve_spec

/-- the operations that change the estimator -/
inductive Op | inc (h : UInt64) | tryReset | clear

def stepT (t : TinyLfu) : Op → Res TinyLfu
  | .inc h => t.increment h
  | .tryReset => .ok t.tryReset
  | .clear => .ok t.clear

def stepR (samples : Nat) (r : Ref) : Op → Ref
  | .inc h => r.increment samples h
  | .tryReset => r.tryReset samples
  | .clear => Ref.zero

def runT : TinyLfu → List Op → Res TinyLfu
  | t, [] => .ok t
  | t, o :: rest => match stepT t o with
    | .error f => .error f
    | .ok t' => runT t' rest

def runR (samples : Nat) : Ref → List Op → Ref
  | r, [] => r
  | r, o :: rest => runR samples (stepR samples r o) rest

/-- one step keeps the estimator well-formed (no fault), its geometry, and the simulation -/
theorem sim_step (t : TinyLfu) (r : Ref) (o : Op) (hwf : t.WF) (hs : Sim t r) :
    ∃ t', stepT t o = .ok t' ∧ t'.WF ∧ SameGeo t t' ∧ Sim t' (stepR t.samples r o) := by
  cases o with
  | inc h => exact sim_increment t r hwf hs h
  | tryReset =>
    have := tryReset_wf t hwf
    exact ⟨_, rfl, this.1, this.2, sim_tryReset t r hwf hs⟩
  | clear =>
    have := clear_spec t hwf
    exact ⟨_, rfl, this.1, this.2.1, sim_clear t hwf⟩

/-- **simulation over every history**: no operation faults (C05 for the estimator) and the estimator dominates the reference -/
theorem sim_run (ops : List Op) (t : TinyLfu) (r : Ref) (hwf : t.WF) (hs : Sim t r) :
    ∃ t', runT t ops = .ok t' ∧ t'.WF ∧ SameGeo t t' ∧ Sim t' (runR t.samples r ops) := by
  induction ops generalizing t r with
  | nil => exact ⟨t, rfl, hwf, sameGeo_refl t, hs⟩
  | cons o rest ih =>
    obtain ⟨t1, h1, hwf1, hg1, hs1⟩ := sim_step t r o hwf hs
    obtain ⟨t2, h2, hwf2, hg2, hs2⟩ := ih t1 _ hwf1 hs1
    refine ⟨t2, by simp only [runT, h1, h2], hwf2, sameGeo_trans _ _ _ hg1 hg2, ?_⟩
    have : t1.samples = t.samples := hg1.2.2.2.2
    rw [this] at hs2
    exact hs2

/-- a freshly cleared (or constructed: all counters and bits zero) estimator simulates the zero reference -/
theorem sim_fresh (t : TinyLfu) (hwf : t.WF) : Sim t.clear Ref.zero := sim_clear t hwf

/-- **never under-counts, never exceeds 16**: after any history from a cleared estimator, for every hash -/
theorem never_undercount (ops : List Op) (t : TinyLfu) (hwf : t.WF) (h : UInt64) :
    ∃ t' e, runT t.clear ops = .ok t' ∧ t'.estimate h = .ok e ∧
      (runR t.samples Ref.zero ops).estimate h ≤ e ∧ e ≤ 16 := by
  have cs := clear_spec t hwf
  obtain ⟨t', hr, hwf', hg, hs⟩ := sim_run ops t.clear Ref.zero cs.1 (sim_clear t hwf)
  have hsm : t.clear.samples = t.samples := cs.2.1.2.2.2.2
  rw [hsm] at hs
  obtain ⟨e, he, hlo, hhi⟩ := estimate_bounds t' _ hwf' hs h
  exact ⟨t', e, hr, he, hlo, hhi⟩

/-- **no false negatives**: a hash recorded since the last reset is reported by the doorkeeper -/
theorem no_false_negative (ops : List Op) (t : TinyLfu) (hwf : t.WF) (h : UInt64)
    (hd : (runR t.samples Ref.zero ops).door h = true) :
    ∃ t', runT t.clear ops = .ok t' ∧ t'.contains h = .ok true := by
  have cs := clear_spec t hwf
  obtain ⟨t', hr, hwf', hg, hs⟩ := sim_run ops t.clear Ref.zero cs.1 (sim_clear t hwf)
  have hsm : t.clear.samples = t.samples := cs.2.1.2.2.2.2
  rw [hsm] at hs
  exact ⟨t', hr, contains_of_ref t' _ hwf' hs h hd⟩

/-- **0 for every key right after clear** -/
theorem zero_after_clear (t : TinyLfu) (hwf : t.WF) (h : UInt64) : t.clear.estimate h = .ok 0 := by
  have := estimate_exact t.clear Ref.zero h (clear_spec t hwf).1 (exact_clear t hwf h)
  simpa [Ref.estimate, Ref.zero] using this

/-- histories that only ever record the hash `h0` -/
def onlyHash (h0 : UInt64) : List Op → Prop
  | [] => True
  | .inc h :: rest => h = h0 ∧ onlyHash h0 rest
  | _ :: rest => onlyHash h0 rest

theorem exact_run (ops : List Op) (h0 : UInt64) (t : TinyLfu) (r : Ref) (hwf : t.WF) (hs : Exact t r h0)
    (ho : onlyHash h0 ops) :
    ∃ t', runT t ops = .ok t' ∧ t'.WF ∧ t'.samples = t.samples ∧ Exact t' (runR t.samples r ops) h0 := by
  induction ops generalizing t r with
  | nil => exact ⟨t, rfl, hwf, rfl, hs⟩
  | cons o rest ih =>
    cases o with
    | inc h =>
      obtain ⟨rfl, ho'⟩ := ho
      obtain ⟨t1, h1, hwf1, hg1, hs1⟩ := exact_increment t r h hwf hs
      obtain ⟨t2, h2, hwf2, hsm2, hs2⟩ := ih t1 _ hwf1 hs1 ho'
      have : t1.samples = t.samples := hg1.2.2.2.2
      rw [this] at hs2 hsm2
      exact ⟨t2, by simp only [runT, stepT, h1, h2], hwf2, hsm2, hs2⟩
    | tryReset =>
      have tw := tryReset_wf t hwf
      obtain ⟨t2, h2, hwf2, hsm2, hs2⟩ := ih t.tryReset _ tw.1 (exact_tryReset t r h0 hwf hs) ho
      have : t.tryReset.samples = t.samples := tw.2.2.2.2.2
      rw [this] at hs2 hsm2
      exact ⟨t2, by simp only [runT, stepT, h2], hwf2, hsm2, hs2⟩
    | clear =>
      have cs := clear_spec t hwf
      obtain ⟨t2, h2, hwf2, hsm2, hs2⟩ := ih t.clear _ cs.1 (exact_clear t hwf h0) ho
      have : t.clear.samples = t.samples := cs.2.1.2.2.2.2
      rw [this] at hs2 hsm2
      exact ⟨t2, by simp only [runT, stepT, h2], hwf2, hsm2, hs2⟩

/-- **exact when only one key has ever been recorded** -/
theorem exact_single_key (ops : List Op) (h0 : UInt64) (t : TinyLfu) (hwf : t.WF) (ho : onlyHash h0 ops) :
    ∃ t', runT t.clear ops = .ok t' ∧ t'.estimate h0 = .ok ((runR t.samples Ref.zero ops).estimate h0) := by
  have cs := clear_spec t hwf
  obtain ⟨t', hr, hwf', _, hs⟩ := exact_run ops h0 t.clear Ref.zero cs.1 (exact_clear t hwf h0) ho
  have hsm : t.clear.samples = t.samples := cs.2.1.2.2.2.2
  rw [hsm] at hs
  exact ⟨t', hr, estimate_exact t' _ h0 hwf' hs⟩

/-- **reset schedule**: the window counter counts `increment`s and explicit `try_reset`s since the last reset,
    and a reset (counter back to 0, doorkeeper cleared, counts halved) happens exactly when it reaches `samples` -/
theorem tryReset_schedule (t : TinyLfu) :
    (t.w + 1 ≥ t.samples → t.tryReset = ({ t with w := t.w + 1 } : TinyLfu).reset ∧ t.tryReset.w = 0) ∧
    (t.w + 1 < t.samples → t.tryReset = { t with w := t.w + 1 }) := by
  rcases tryReset_cases t with ⟨h1, h2⟩ | ⟨h1, h2⟩
  · exact ⟨fun _ => ⟨h2, by rw [h2]; rfl⟩, fun hc => by omega⟩
  · exact ⟨fun hc => by omega, fun _ => h2⟩

theorem window_counter_tracks (ops : List Op) (t : TinyLfu) (hwf : t.WF) :
    ∃ t', runT t.clear ops = .ok t' ∧ t'.w = (runR t.samples Ref.zero ops).w := by
  have cs := clear_spec t hwf
  obtain ⟨t', hr, _, _, hs⟩ := sim_run ops t.clear Ref.zero cs.1 (sim_clear t hwf)
  have hsm : t.clear.samples = t.samples := cs.2.1.2.2.2.2
  rw [hsm] at hs
  exact ⟨t', hr, hs.w_eq⟩

/-- **comparisons**: `lt/le/gt/ge/eq` order two keys exactly as their estimates do, and never fault -/
theorem compare_consistent (t : TinyLfu) (hwf : t.WF) (c : TinyLfu.Cmp) (a b : UInt64) :
    ∃ ea eb, t.estimate a = .ok ea ∧ t.estimate b = .ok eb ∧ t.compare c a b = .ok (c.eval ea eb) := by
  obtain ⟨ea, ba, ha, _⟩ := estimate_spec t hwf a
  obtain ⟨eb, bb, hb, _⟩ := estimate_spec t hwf b
  refine ⟨_, _, ha, hb, ?_⟩
  unfold TinyLfu.compare TinyLfu.compareHelper
  rw [ha, hb]

theorem cmp_eval_spec (a b : Nat) :
    TinyLfu.Cmp.eq.eval a b = decide (a = b) ∧ TinyLfu.Cmp.le.eval a b = decide (a ≤ b) ∧ TinyLfu.Cmp.lt.eval a b = decide (a < b) ∧
    TinyLfu.Cmp.gt.eval a b = decide (a > b) ∧ TinyLfu.Cmp.ge.eval a b = decide (a ≥ b) := by
  refine ⟨?_, rfl, rfl, rfl, rfl⟩
  show (a == b) = decide (a = b)
  by_cases h : a = b <;> simp [h]

/-- the driver's executable geometry check implies the hypothesis `WF` of every theorem above -/
theorem wfb_sound (t : TinyLfu) (h : t.wfb = true) : t.WF := TinyLfu.wfb_sound t h

/-- non-vacuity: a concrete well-formed estimator (2 counters per row, 512-bit doorkeeper with 1 probe) -/
def sample : TinyLfu :=
  { sketch := { rows := [[0], [0], [0], [0]], mask := 1, scheme := .core },
    door := { bits := List.replicate 8 0, sizeMask := 511, setLocs := 1, shift := 55 }, samples := 4, w := 0 }

example : sample.WF := by
  refine ⟨⟨?_, trivial, by decide⟩, ⟨by decide, by decide, by decide, by decide⟩⟩
  intro r hr
  simp [sample] at hr
  subst hr
  exact ⟨by intro b hb; simp at hb; omega, by decide⟩
end C11
