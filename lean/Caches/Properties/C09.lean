/-
  C09 — AdaptiveCache follows the ARC policy and keeps 0 ≤ p ≤ size.
  `ArcSpec` is the policy as the property text states it; on every well-formed cache (all sizes ≥ 1, all contents,
  all values of p) the model of the code computes exactly that. `p ≤ size` in every reachable state is part of the
  invariant (C01.arc_reachable).
-/
import Caches.Lemmas.Arc
import Caches.Lemmas.Reach
import Caches.Props.ArcSpec
import Caches.Props.ArcMachine
import Caches.Lemmas.Reach
set_option linter.unusedSectionVars false
set_option linter.unusedVariables false
set_option linter.unusedSimpArgs false
namespace C09
open M
variable {κ ν : Type} [DecidableEq κ]

/-- the abstract view of a model state -/
def view (a : Arc κ ν) : ArcSpec.St κ ν :=
  { t1 := a.recent.items, t2 := a.frequent.items, b1 := a.recentEvict.items, b2 := a.frequentEvict.items, p := a.p }

/-- `replace` takes its victim from the recent list iff it is non-empty and longer than `p`
    (or equal to `p` on a frequent-ghost hit), or the frequent list is empty -/
theorem replace_rule (a : Arc κ ν) (hitB2 : Bool) :
    a.replaceFromRecent hitB2 = true ↔
      a.recent.items.length > 0 ∧ (a.recent.items.length > a.p ∨ (a.recent.items.length = a.p ∧ hitB2 = true) ∨
        a.frequent.items = []) := by
  unfold Arc.replaceFromRecent RawLru.isEmpty; simp [or_assoc]

theorem fromRecent_eq_spec (a : Arc κ ν) (b : Bool) : a.replaceFromRecent b = ArcSpec.fromRecent (view a) b := by
  unfold Arc.replaceFromRecent ArcSpec.fromRecent view RawLru.isEmpty
  have : (a.frequent.items.length == 0) = decide (a.frequent.items.length = 0) := by
    by_cases h : a.frequent.items.length = 0 <;> simp [h]
  simp only [this]

/-- the adaptation amounts of the code are the ones of the statement: `max 1 (|other ghosts| / |hit ghosts|)` -/
theorem delta_eq (x y : Nat) (hy : 0 < y) : (if x > y then x / y else 1) = max 1 (x / y) := by
  by_cases h : x > y
  · simp only [h, if_true]
    have : 1 ≤ x / y := (Nat.le_div_iff_mul_le hy).2 (by omega)
    omega
  · simp only [h, if_false]
    have : x / y ≤ 1 := by
      have : x ≤ y := by omega
      calc x / y ≤ y / y := Nat.div_le_div_right this
        _ = 1 := Nat.div_self hy
    omega

theorem replace_eq_spec (a : Arc κ ν) (hitB2 : Bool) (h : a.Inv) :
    ∃ a' d, a.replace hitB2 = .ok (a', d) ∧ view a' = ArcSpec.replace (view a) a.size hitB2 ∧ a'.size = a.size := by
  unfold Arc.replace ArcSpec.replace
  rw [← fromRecent_eq_spec]
  by_cases hfr : a.replaceFromRecent hitB2 = true
  · simp only [hfr, if_true, view]
    cases hl : a.recent.items.getLast? with
    | none => simp only [RawLru.removeLruIn, hl]; exact ⟨_, _, rfl, rfl, rfl⟩
    | some e =>
      simp only [RawLru.removeLruIn_some _ e hl]
      by_cases hgfull : a.recentEvict.cap ≤ a.recentEvict.items.length
      · obtain ⟨g, hg⟩ := getLast?_some_of_pos a.recentEvict.items (by have := h.cb1; have := h.spos; omega)
        simp only [RawLru.putNonnull_full _ _ g hgfull hg]
        refine ⟨_, _, rfl, ?_, rfl⟩
        have : a.recentEvict.items.length ≥ a.size := by have := h.cb1; omega
        simp only [ArcSpec.remember, this, if_true]
      · have hroom : a.recentEvict.items.length < a.recentEvict.cap := by omega
        simp only [RawLru.putNonnull_room _ _ hroom]
        refine ⟨_, _, rfl, ?_, rfl⟩
        have : ¬ a.recentEvict.items.length ≥ a.size := by have := h.cb1; omega
        simp only [ArcSpec.remember, this, if_false]
  · simp only [hfr, if_false, Bool.false_eq_true, view]
    cases hl : a.frequent.items.getLast? with
    | none => simp only [RawLru.removeLruIn, hl]; exact ⟨_, _, rfl, rfl, rfl⟩
    | some e =>
      simp only [RawLru.removeLruIn_some _ e hl]
      by_cases hgfull : a.frequentEvict.cap ≤ a.frequentEvict.items.length
      · obtain ⟨g, hg⟩ := getLast?_some_of_pos a.frequentEvict.items (by have := h.cb2; have := h.spos; omega)
        simp only [RawLru.putNonnull_full _ _ g hgfull hg]
        refine ⟨_, _, rfl, ?_, rfl⟩
        have : a.frequentEvict.items.length ≥ a.size := by have := h.cb2; omega
        simp only [ArcSpec.remember, this, if_true]
      · have hroom : a.frequentEvict.items.length < a.frequentEvict.cap := by omega
        simp only [RawLru.putNonnull_room _ _ hroom]
        refine ⟨_, _, rfl, ?_, rfl⟩
        have : ¬ a.frequentEvict.items.length ≥ a.size := by have := h.cb2; omega
        simp only [ArcSpec.remember, this, if_false]

theorem makeRoom_eq_spec (a : Arc κ ν) (hitB2 : Bool) (h : a.Inv) :
    ∃ a' d, (if a.recent.items.length + a.frequent.items.length ≥ a.size then a.replace hitB2 else .ok (a, [])) = .ok (a', d) ∧
      view a' = ArcSpec.makeRoom (view a) a.size hitB2 ∧ a'.size = a.size ∧ a'.Inv ∧
      a'.recent.items.length + a'.frequent.items.length < a.size ∧ (∀ x, Arc.Held a' x → Arc.Held a x) := by
  obtain ⟨a1, d1, hr1, hi1, hs1, _, hl1, hheld⟩ := Arc.makeRoom a hitB2 h
  unfold ArcSpec.makeRoom
  by_cases hfull : a.recent.items.length + a.frequent.items.length ≥ a.size
  · simp only [hfull, if_true] at hr1 ⊢
    obtain ⟨a', d, hr, hv, hs⟩ := replace_eq_spec a hitB2 h
    rw [hr] at hr1; injection hr1 with e1; injection e1 with e1 _; subst e1
    have : (view a).t1.length + (view a).t2.length ≥ a.size := hfull
    simp only [this, if_true]
    exact ⟨a', d, hr, hv, hs, hi1, hl1, hheld⟩
  · simp only [hfull, if_false] at hr1 ⊢
    injection hr1 with e1; injection e1 with e1 _; subst e1
    have : ¬ (view a).t1.length + (view a).t2.length ≥ a.size := hfull
    simp only [this, if_false]
    exact ⟨a, [], rfl, rfl, rfl, h, by omega, fun x hx => hx⟩

theorem dropLast_removeLru (c : RawLru κ ν) : (c.removeLru).1.items = c.items.dropLast ∧ (c.removeLru).1.cap = c.cap := by
  unfold RawLru.removeLru RawLru.removeLruIn
  cases hl : c.items.getLast? with
  | none => have : c.items = [] := by simpa using hl
            simp [this]
  | some e => exact ⟨rfl, rfl⟩

theorem trimRecent_view (a1 : Arc κ ν) (b1 : Nat) :
    view (a1.trimRecentGhost b1).1 =
      (if b1 > a1.size - a1.p then { view a1 with b1 := (view a1).b1.dropLast } else view a1) := by
  unfold Arc.trimRecentGhost
  by_cases hc : b1 > a1.size - a1.p
  · simp only [hc, if_true]
    have := dropLast_removeLru a1.recentEvict
    unfold RawLru.removeLru RawLru.removeLruIn at this ⊢
    cases hl : a1.recentEvict.items.getLast? with
    | none => have he : a1.recentEvict.items = [] := by simpa using hl
              simp [view, he]
    | some e => simp [view]
  · simp only [hc, if_false]

theorem trimFrequent_view (a1 : Arc κ ν) (b2 : Nat) :
    view (a1.trimFrequentGhost b2).1 =
      (if b2 > a1.p then { view a1 with b2 := (view a1).b2.dropLast } else view a1) := by
  unfold Arc.trimFrequentGhost
  by_cases hc : b2 > a1.p
  · simp only [hc, if_true]
    unfold RawLru.removeLru RawLru.removeLruIn
    cases hl : a1.frequentEvict.items.getLast? with
    | none => have he : a1.frequentEvict.items = [] := by simpa using hl
              simp [view, he]
    | some e => simp [view]
  · simp only [hc, if_false]

/-- **`put` = the policy** (resident lists, ghost lists, adaptation target and result) -/
theorem put_eq_spec (a : Arc κ ν) (k : κ) (v : ν) (h : a.Inv) :
    ∃ r a' d, a.put k v = .ok (r, a', d) ∧ (view a', r) = ArcSpec.put (view a) a.size k v := by
  have h0 := h
  obtain ⟨nd1, nd2, ndb1, ndb2, d12, d1b1, d1b2, d2b1, d2b2, db, hb, hb1, hb2, c1, c2, cb1, cb2, ple, spos⟩ := h
  unfold Arc.put ArcSpec.put
  simp only [view]
  cases h1 : find k a.recent.items with
  | some old =>
    have hroom : a.frequent.items.length < a.frequent.cap := by
      have := length_erase_of_find k _ old h1; omega
    simp only [RawLru.removeEnt_some _ k old h1, RawLru.putNonnull_room _ _ hroom]
    exact ⟨_, _, _, rfl, rfl⟩
  | none =>
    simp only [RawLru.removeEnt_none _ k h1]
    cases h2 : find k a.frequent.items with
    | some old => exact ⟨_, _, _, rfl, by simp [RawLru.update, use]⟩
    | none =>
      simp only
      cases hb1f : find k a.recentEvict.items with
      | some old =>
        have eb := erase_facts _ k old hb1f ndb1
        simp only [RawLru.removeEnt_some _ k old hb1f]
        have hb1pos : 0 < a.recentEvict.items.length := by have := eb.2.2.2.2; omega
        have hdiv : ¬ (a.frequentEvict.items.length > a.recentEvict.items.length ∧ a.recentEvict.items.length = 0) := by
          intro hc; omega
        simp only [hdiv, if_false, delta_eq _ _ hb1pos]
        have hpeq : (if a.p + max 1 (a.frequentEvict.items.length / a.recentEvict.items.length) ≥ a.size then a.size
            else a.p + max 1 (a.frequentEvict.items.length / a.recentEvict.items.length)) =
            min a.size (a.p + max 1 (a.frequentEvict.items.length / a.recentEvict.items.length)) := by
          split <;> omega
        rw [hpeq]
        generalize hp' : min a.size (a.p + max 1 (a.frequentEvict.items.length / a.recentEvict.items.length)) = p'
        have hp'le : p' ≤ a.size := by rw [← hp']; omega
        have hi1 : ({ a with p := p', recentEvict := { a.recentEvict with items := erase k a.recentEvict.items } } : Arc κ ν).Inv := by
          constructor <;> simp only <;> first | assumption | omega | grind
        obtain ⟨a2, d, hr, hv, hs2, hi2, hl2, _⟩ := makeRoom_eq_spec _ false hi1
        simp only at hr
        simp only [hr]
        have hroom : a2.frequent.items.length < a2.frequent.cap := by have := hi2.c2; simp only at hl2 hs2; omega
        simp only [RawLru.putNonnull_room _ _ hroom]
        refine ⟨_, _, _, rfl, ?_⟩
        simp only [view] at hv
        rw [← hv]
      | none =>
        simp only [RawLru.removeEnt_none _ k hb1f]
        cases hb2f : find k a.frequentEvict.items with
        | some old =>
          have eb := erase_facts _ k old hb2f ndb2
          simp only [RawLru.removeEnt_some _ k old hb2f]
          have hb2pos : 0 < a.frequentEvict.items.length := by have := eb.2.2.2.2; omega
          have hdiv : ¬ (a.recentEvict.items.length > a.frequentEvict.items.length ∧ a.frequentEvict.items.length = 0) := by
            intro hc; omega
          simp only [hdiv, if_false, delta_eq _ _ hb2pos]
          have hpeq : (if max 1 (a.recentEvict.items.length / a.frequentEvict.items.length) ≥ a.p then 0
              else a.p - max 1 (a.recentEvict.items.length / a.frequentEvict.items.length)) =
              a.p - min a.p (max 1 (a.recentEvict.items.length / a.frequentEvict.items.length)) := by
            split <;> omega
          rw [hpeq]
          generalize hp' : a.p - min a.p (max 1 (a.recentEvict.items.length / a.frequentEvict.items.length)) = p'
          have hp'le : p' ≤ a.size := by rw [← hp']; omega
          have hi1 : ({ a with p := p', frequentEvict := { a.frequentEvict with items := erase k a.frequentEvict.items } } : Arc κ ν).Inv := by
            constructor <;> simp only <;> first | assumption | omega | grind
          obtain ⟨a2, d, hr, hv, hs2, hi2, hl2, _⟩ := makeRoom_eq_spec _ true hi1
          simp only at hr
          simp only [hr]
          have hroom : a2.frequent.items.length < a2.frequent.cap := by have := hi2.c2; simp only at hl2 hs2; omega
          simp only [RawLru.putNonnull_room _ _ hroom]
          refine ⟨_, _, _, rfl, ?_⟩
          simp only [view] at hv
          rw [← hv]
        | none =>
          simp only [RawLru.removeEnt_none _ k hb2f]
          obtain ⟨a1, d, hr, hv, hs1, hi1, hl1, hheld1⟩ := makeRoom_eq_spec a false h0
          simp only [hr]
          have hsp : ¬ a1.size < a1.p := by have := hi1.ple; omega
          simp only [hsp, if_false]
          have t2 := Arc.trimRecentGhost_inv a1 a.recentEvict.items.length hi1
          have v2 := trimRecent_view a1 a.recentEvict.items.length
          rcases hA2 : a1.trimRecentGhost a.recentEvict.items.length with ⟨a2, d2⟩
          rw [hA2] at t2 v2
          obtain ⟨hi2, hs2, hr2, hf2, _⟩ := t2
          simp only at hi2 hs2 hr2 hf2 v2
          have t3 := Arc.trimFrequentGhost_inv a2 a.frequentEvict.items.length hi2
          have v3 := trimFrequent_view a2 a.frequentEvict.items.length
          rcases hA3 : a2.trimFrequentGhost a.frequentEvict.items.length with ⟨a3, d3⟩
          rw [hA3] at t3 v3
          obtain ⟨hi3, hs3, hr3, hf3, hk3⟩ := t3
          simp only at hi3 hs3 hr3 hf3 v3
          simp only [hA3]
          -- `k` is new to `a3.recent`, and there is room
          have hk1 := (find_none_iff k _).1 h1
          have hf3' : find k a3.recent.items = none := by
            rw [hr3, hr2, find_none_iff]
            intro hc
            have := hheld1 k (Or.inl hc)
            unfold Arc.Held at this
            rcases this with h | h | h | h
            · exact hk1 h
            · exact (find_none_iff k _).1 h2 h
            · exact (find_none_iff k _).1 hb1f h
            · exact (find_none_iff k _).1 hb2f h
          have hroom : a3.recent.items.length < a3.recent.cap := by
            have := hi3.c1; have := hi3.bound
            rw [hr3, hr2] at *
            have hf : a3.frequent = a1.frequent := by rw [hf3, hf2]
            rw [hf] at *
            omega
          simp only [RawLru.put_absent_room _ k v hf3' hroom]
          refine ⟨_, _, _, rfl, ?_⟩
          have e2 : view a2 = (if a.recentEvict.items.length > a.size - (view a1).p
              then { view a1 with b1 := (view a1).b1.dropLast } else view a1) := by rw [v2, hs1]; rfl
          have e3 : view a3 = (if a.frequentEvict.items.length > (view a2).p
              then { view a2 with b2 := (view a2).b2.dropLast } else view a2) := v3
          have hfin : view ({ a3 with recent := { a3.recent with items := (k, v) :: a3.recent.items } } : Arc κ ν) =
              ArcSpec.admitNew (view a1) a.size a.recentEvict.items.length a.frequentEvict.items.length k v := by
            unfold ArcSpec.admitNew
            simp only
            rw [← e2, ← e3]
            rfl
          rw [hv] at hfin
          exact congrArg (fun s => (s, (PutResult.put : PutResult κ ν))) hfin

/-- **`get` / `get_mut` = the policy**: a second access moves the entry to the frequent list -/
theorem get_eq_spec (a : Arc κ ν) (k : κ) (w : Option ν) (h : a.Inv) :
    ∃ r a' d, a.getMut k w = .ok (r, a', d) ∧ (view a', r) = ArcSpec.get (view a) k w := by
  unfold Arc.getMut ArcSpec.get
  simp only [view]
  cases h1 : find k a.recent.items with
  | some old =>
    have hroom : a.frequent.items.length < a.frequent.cap := by
      have := length_erase_of_find k _ old h1; have := h.bound; have := h.c2; omega
    simp only [Arc.moveToFrequent, RawLru.removeEnt_some _ k old h1, RawLru.putNonnull_room _ _ hroom]
    exact ⟨_, _, _, rfl, rfl⟩
  | none =>
    simp only [RawLru.getMut]
    cases h2 : find k a.frequent.items with
    | none => exact ⟨_, _, _, rfl, rfl⟩
    | some old => exact ⟨_, _, _, rfl, by simp [use]⟩

/-- `0 ≤ p ≤ size` in every reachable state, for every size ≥ 1 and every history -/
theorem p_le_size (size : Nat) (a0 : Arc κ ν) (hc : Arc.new size = some a0) (ops : List (CacheOp κ ν)) :
    ∃ a, runOps Arc.step a0 ops = .ok a ∧ a.p ≤ size ∧ a.recent.items.length + a.frequent.items.length ≤ size := by
  have h0 := Arc.inv_new size a0 hc
  obtain ⟨a, hr, hi, h1⟩ := runOps_inv Arc.step (Arc.InvC size) (Arc.step_invC size) ops a0 ⟨h0.1, h0.2.1⟩
  have := hi.ple; have := hi.bound
  exact ⟨a, hr, by omega, by omega⟩

/-- a full cache always makes room before admitting: `replace` on a full, well-formed cache removes exactly one resident entry -/
theorem full_makes_room (a : Arc κ ν) (hitB2 : Bool) (h : a.Inv) (hfull : a.recent.items.length + a.frequent.items.length ≥ a.size) :
    ∃ a' d, a.replace hitB2 = .ok (a', d) ∧
      a'.recent.items.length + a'.frequent.items.length + 1 = a.recent.items.length + a.frequent.items.length := by
  obtain ⟨a', d, hr, _, _, _, hl, _⟩ := Arc.replace_total_inv a hitB2 h (by have := h.spos; omega)
  exact ⟨a', d, hr, hl⟩

/-- non-vacuity: size 1, `put a, put b, put a` ends with exactly one resident entry (the pre-repair code kept two) -/
example : (ArcSpec.put ⟨[(2, 20)], [], [(1, 10)], [], 0⟩ 1 1 (11 : Nat)).1.t1 = [] ∧
          (ArcSpec.put ⟨[(2, 20)], [], [(1, 10)], [], 0⟩ 1 1 (11 : Nat)).1.t2 = [(1, 11)] := by decide

/-- non-vacuity of `Inv`: an ARC state with both ghost lists populated and `p = 1` -/
example : ({ size := 2, p := 1, recent := ⟨2, [(1, 10)], false⟩, frequent := ⟨2, [(2, 20)], false⟩,
             recentEvict := ⟨2, [(3, 30)], false⟩, frequentEvict := ⟨2, [(4, 40)], false⟩ } : Arc Nat Nat).Inv := by
  constructor <;> decide
/-! ### the other entry points, and every history -/

/-- **`remove` = the policy**: T1, T2, then the two ghost lists; `p` untouched -/
theorem remove_eq_spec (a : Arc κ ν) (k : κ) :
    (view (a.remove k).1, (a.remove k).2.1) = ArcSpec.remove (view a) k := by
  unfold Arc.remove RawLru.remove ArcSpec.remove view
  cases h1 : find k a.recent.items <;> cases h2 : find k a.frequent.items <;>
    cases h3 : find k a.recentEvict.items <;> cases h4 : find k a.frequentEvict.items <;> simp

/-- **`peek_mut` (+ write) = the policy** -/
theorem peekMut_eq_spec (a : Arc κ ν) (k : κ) (w : Option ν) :
    view (a.peekMut k w).1 = ArcSpec.peekMut (view a) k w := by
  unfold Arc.peekMut RawLru.peekMut ArcSpec.peekMut view
  cases h1 : find k a.recent.items <;> cases h2 : find k a.frequent.items <;> cases w <;> simp

/-- **every operation = the policy**, on every well-formed cache -/
theorem step_eq_spec (a : Arc κ ν) (o : CacheOp κ ν) (h : a.Inv) :
    ∃ a', a.step o = .ok a' ∧ view a' = ArcSpec.step a.size (view a) o := by
  cases o with
  | put k v =>
    obtain ⟨r, a', d, hp, he⟩ := put_eq_spec a k v h
    exact ⟨a', by simp only [Arc.step, hp], by simp only [ArcSpec.step, ← he]⟩
  | getMut k w =>
    obtain ⟨r, a', d, hp, he⟩ := get_eq_spec a k w h
    exact ⟨a', by simp only [Arc.step, hp], by simp only [ArcSpec.step, ← he]⟩
  | peekMut k w => exact ⟨_, rfl, by simp only [ArcSpec.step, ← peekMut_eq_spec]⟩
  | remove k => exact ⟨_, rfl, by simp only [ArcSpec.step, ← remove_eq_spec]⟩
  | purge =>
    refine ⟨{ a with recent := { a.recent with items := [] }, frequent := { a.frequent with items := [] },
                     recentEvict := { a.recentEvict with items := [] },
                     frequentEvict := { a.frequentEvict with items := [] } }, ?_, rfl⟩
    simp only [Arc.step, Arc.purge, RawLru.purge_spec]
  | read => exact ⟨a, rfl, rfl⟩

/-- **refinement over every history**: from the constructor, any sequence of public operations runs without a
    fault and leaves T1, T2, B1, B2 (entry by entry, in recency order) and the adaptation target `p` exactly as
    the ARC policy, folded over the same sequence from the empty state, says -/
theorem history_eq_spec (size : Nat) (a0 : Arc κ ν) (hn : Arc.new size = some a0) (ops : List (CacheOp κ ν)) :
    ∃ a', runOps Arc.step a0 ops = .ok a' ∧
      view a' = ops.foldl (ArcSpec.step size) { t1 := [], t2 := [], b1 := [], b2 := [], p := 0 } := by
  obtain ⟨hi0, hs0, _⟩ := Arc.inv_new size a0 hn
  have hl0 : view a0 = ({ t1 := [], t2 := [], b1 := [], b2 := [], p := 0 } : ArcSpec.St κ ν) := by
    unfold Arc.new at hn
    split at hn
    · cases hn
    · injection hn with hn; subst hn; rfl
  suffices H : ∀ (ops : List (CacheOp κ ν)) (a : Arc κ ν) (S : ArcSpec.St κ ν), Arc.InvC size a → view a = S →
      ∃ a', runOps Arc.step a ops = .ok a' ∧ view a' = ops.foldl (ArcSpec.step size) S from
    H ops a0 _ ⟨hi0, hs0⟩ hl0
  intro ops
  induction ops with
  | nil => intro a S _ he; exact ⟨a, rfl, he⟩
  | cons o rest ih =>
    intro a S hc he
    obtain ⟨a1, hs1, hc1⟩ := Arc.step_invC size a o hc
    obtain ⟨a1', hs1', he1⟩ := step_eq_spec a o hc.1
    rw [hs1] at hs1'; injection hs1' with hs1'; subst hs1'
    rw [hc.2, he] at he1
    obtain ⟨a2, hs2, he2⟩ := ih a1 _ hc1 he1
    exact ⟨a2, by simp only [runOps, hs1, hs2], by simp only [List.foldl_cons, he2]⟩

/-- non-vacuity of the history theorem: a history through eviction to B1, a recent-ghost hit that raises `p`, removal -/
example :
    let s := [CacheOp.put 1 10, .put 2 20, .getMut 1 none, .put 3 30, .put 2 21, .remove 3].foldl
      (ArcSpec.step 2) ({ t1 := [], t2 := [], b1 := [], b2 := [], p := 0 } : ArcSpec.St Nat Nat)
    (s.t1, s.t2, s.b1, s.b2, s.p) = ([], [(2, 21)], [], [(1, 10)], 1) := by decide
end C09
