/- C09 — ARC policy (initial statements; the full step = spec theorems follow the ARC backbone) -/
import Caches.Model.Arc
namespace C09
open M
variable {κ ν : Type} [DecidableEq κ]

/-- `replace` takes its victim from the recent list iff it is non-empty and longer than `p`
    (or equal to `p` on a frequent-ghost hit), or the frequent list is empty -/
theorem replace_rule (a : Arc κ ν) (hitB2 : Bool) :
    a.replaceFromRecent hitB2 = true ↔
      a.recent.items.length > 0 ∧ (a.recent.items.length > a.p ∨ (a.recent.items.length = a.p ∧ hitB2 = true) ∨
        a.frequent.items = []) := by
  unfold Arc.replaceFromRecent RawLru.isEmpty; simp [or_assoc]
end C09
