/-
  C01 — capacity bound and size accounting hold in every cache at every step.

  For each of the five caches: every state reachable from a successfully constructed cache by ANY finite history of
  public operations (`runOps step`, by induction over the history; every capacity ≥ 1, every quota, every key pattern)
  satisfies the invariant, and the invariant gives: the resident count never exceeds `cap()`, every partition stays
  within its configured bound, a key is held in at most one partition, `len()` = number of distinct keys for which
  `contains()` is true, `is_empty()` ⇔ nothing (resident or ghost) is retained. `clone` is part of the history
  (RawLRU, SLRU); `resize` installs the new bound at once (RawLRU).
-/
import Caches.Lemmas.Reach
set_option linter.unusedSectionVars false
set_option linter.unusedVariables false
namespace C01
open M
variable {κ ν : Type} [DecidableEq κ]

/-! ### RawLRU -/
theorem rawlru_reachable (cap : Nat) (cb : Bool) (c0 : RawLru κ ν) (hc : RawLru.new cap cb = some c0)
    (ops : List (RawOp κ ν)) :
    ∃ c, runOps RawLru.step c0 ops = .ok c ∧ c.items.length ≤ c.cap ∧ (keys c.items).Nodup := by
  obtain ⟨c, hr, hi⟩ := runOps_inv RawLru.step RawLru.Inv RawLru.step_inv ops c0 (RawLru.inv_new cap cb c0 hc)
  exact ⟨c, hr, hi.bound, hi.nd⟩

/-- `len` counts exactly the keys for which `contains` is true; `is_empty` iff nothing is held -/
theorem rawlru_accounting (c : RawLru κ ν) (h : c.Inv) :
    c.len = (keys c.items).length ∧ (keys c.items).Nodup ∧ (∀ k, c.contains k = true ↔ k ∈ keys c.items) ∧
    (c.isEmpty = true ↔ c.items = []) ∧ c.len ≤ c.cap := by
  refine ⟨by simp [RawLru.len], h.nd, fun k => ?_, by unfold RawLru.isEmpty; simp, h.bound⟩
  unfold RawLru.contains; exact find_isSome_iff k c.items

/-- the capacity installed by `resize` is enforced at once -/
theorem rawlru_resize_bound (c : RawLru κ ν) (n : Nat) (h : c.Inv) :
    ∃ c' ev e, c.resize n = .ok (c', ev, e) ∧ c'.items.length ≤ n ∧ c'.cap = n := by
  obtain ⟨c', ev, e, hr, hi, hc⟩ := RawLru.resize_total_inv c n h
  exact ⟨c', ev, e, hr, hc ▸ hi.bound, hc⟩

/-! ### SegmentedCache -/
theorem slru_reachable (p q : Nat) (s0 : Slru κ ν) (hc : Slru.new p q = some s0) (ops : List (SlruOp κ ν)) :
    ∃ s, runOps Slru.step s0 ops = .ok s ∧
      s.prob.items.length ≤ p ∧ s.prot.items.length ≤ q ∧ s.len ≤ p + q ∧ s.cap = p + q ∧
      (keys s.prob.items).Nodup ∧ (keys s.prot.items).Nodup ∧ (∀ x, x ∈ keys s.prob.items → x ∉ keys s.prot.items) := by
  have h0 := Slru.inv_new p q s0 hc
  obtain ⟨s, hr, hi, hp, hq⟩ := runOps_inv Slru.step (Slru.InvC p q) (Slru.step_invC p q) ops s0 ⟨h0.1, h0.2.1, h0.2.2⟩
  have b1 := hi.bp; have b2 := hi.bq
  rw [hp] at b1; rw [hq] at b2
  exact ⟨s, hr, b1, b2, by unfold Slru.len; omega, by unfold Slru.cap; omega, hi.ndp, hi.ndq, hi.disj⟩

theorem slru_accounting (s : Slru κ ν) (h : s.Inv) :
    s.len = (keys s.prot.items ++ keys s.prob.items).length ∧ (keys s.prot.items ++ keys s.prob.items).Nodup ∧
    (∀ k, s.contains k = true ↔ k ∈ keys s.prot.items ++ keys s.prob.items) ∧
    (s.isEmpty = true ↔ s.prot.items = [] ∧ s.prob.items = []) := by
  refine ⟨by simp [Slru.len], ?_, ?_, ?_⟩
  · rw [List.nodup_append]
    exact ⟨h.ndq, h.ndp, fun a ha b hb hab => h.disj b hb (hab ▸ ha)⟩
  · intro k
    unfold Slru.contains RawLru.contains
    simp only [Bool.or_eq_true, find_isSome_iff, List.mem_append]
  · unfold Slru.isEmpty RawLru.isEmpty; simp

/-! ### TwoQueueCache -/
theorem twoq_reachable (size : Nat) (rr gr : RatioClass) (rs es : Nat) (q0 : TwoQ κ ν)
    (hc : TwoQ.new size rr gr rs es = .ok q0) (ops : List (CacheOp κ ν)) :
    ∃ q, runOps TwoQ.step q0 ops = .ok q ∧
      q.recent.items.length + q.frequent.items.length ≤ size ∧ q.ghost.items.length ≤ es ∧ q.cap = size ∧
      (keys q.recent.items).Nodup ∧ (keys q.frequent.items).Nodup ∧ (keys q.ghost.items).Nodup ∧
      (∀ x, x ∈ keys q.recent.items → x ∉ keys q.frequent.items ∧ x ∉ keys q.ghost.items) ∧
      (∀ x, x ∈ keys q.frequent.items → x ∉ keys q.ghost.items) := by
  have h0 := TwoQ.inv_new size rr gr rs es q0 hc
  have hcfg : q0.size = size ∧ q0.rs = rs ∧ q0.ghost.cap = es := by
    unfold TwoQ.new at hc
    repeat (split at hc; · simp at hc)
    injection hc with hc; subst hc; exact ⟨rfl, rfl, rfl⟩
  obtain ⟨q, hr, hi, h1, h2, h3⟩ := runOps_inv TwoQ.step (TwoQ.InvC size rs es) (TwoQ.step_invC size rs es) ops q0
    ⟨h0, hcfg.1, hcfg.2.1, hcfg.2.2⟩
  have b := hi.bound; have g := hi.gbound
  rw [h1] at b; rw [h3] at g
  exact ⟨q, hr, b, g, h1, hi.ndr, hi.ndf, hi.ndg, fun x hx => ⟨hi.drf x hx, hi.drg x hx⟩, hi.dfg⟩

theorem twoq_accounting (q : TwoQ κ ν) (h : q.Inv) :
    q.len = (keys q.frequent.items ++ keys q.recent.items).length ∧ (keys q.frequent.items ++ keys q.recent.items).Nodup ∧
    (∀ k, q.contains k = true ↔ k ∈ keys q.frequent.items ++ keys q.recent.items) ∧
    (q.isEmpty = true ↔ q.frequent.items = [] ∧ q.recent.items = [] ∧ q.ghost.items = []) ∧ q.len ≤ q.cap := by
  refine ⟨by simp [TwoQ.len]; omega, ?_, ?_, ?_, by unfold TwoQ.len TwoQ.cap; exact h.bound⟩
  · rw [List.nodup_append]
    exact ⟨h.ndf, h.ndr, fun a ha b hb hab => h.drf b hb (hab ▸ ha)⟩
  · intro k
    unfold TwoQ.contains RawLru.contains
    simp only [Bool.or_eq_true, find_isSome_iff, List.mem_append]
  · unfold TwoQ.isEmpty RawLru.isEmpty; simp [and_assoc]

/-! ### AdaptiveCache -/
theorem arc_reachable (size : Nat) (a0 : Arc κ ν) (hc : Arc.new size = some a0) (ops : List (CacheOp κ ν)) :
    ∃ a, runOps Arc.step a0 ops = .ok a ∧
      a.recent.items.length + a.frequent.items.length ≤ size ∧ a.recentEvict.items.length ≤ size ∧
      a.frequentEvict.items.length ≤ size ∧ a.p ≤ size ∧ a.cap = size ∧ a.Inv := by
  have h0 := Arc.inv_new size a0 hc
  obtain ⟨a, hr, hi, h1⟩ := runOps_inv Arc.step (Arc.InvC size) (Arc.step_invC size) ops a0 ⟨h0.1, h0.2.1⟩
  have b := hi.bound; have b1 := hi.b1bound; have b2 := hi.b2bound; have pl := hi.ple
  rw [h1] at b b1 b2 pl
  exact ⟨a, hr, b, b1, b2, pl, h1, hi⟩

theorem arc_accounting (a : Arc κ ν) (h : a.Inv) :
    a.len = (keys a.recent.items ++ keys a.frequent.items).length ∧ (keys a.recent.items ++ keys a.frequent.items).Nodup ∧
    (∀ k, a.contains k = true ↔ k ∈ keys a.recent.items ++ keys a.frequent.items) ∧
    (a.isEmpty = true ↔ a.recent.items = [] ∧ a.recentEvict.items = [] ∧ a.frequent.items = [] ∧ a.frequentEvict.items = []) ∧
    a.len ≤ a.cap ∧
    (∀ x, x ∈ keys a.recent.items ++ keys a.frequent.items → x ∉ keys a.recentEvict.items ∧ x ∉ keys a.frequentEvict.items) ∧
    (∀ x, x ∈ keys a.recentEvict.items → x ∉ keys a.frequentEvict.items) := by
  refine ⟨by simp [Arc.len], ?_, ?_, ?_, by unfold Arc.len Arc.cap; exact h.bound, ?_, h.db⟩
  · rw [List.nodup_append]
    exact ⟨h.nd1, h.nd2, fun x hx b hb hab => h.d12 x hx (hab ▸ hb)⟩
  · intro k
    unfold Arc.contains RawLru.contains
    simp only [Bool.or_eq_true, find_isSome_iff, List.mem_append]
  · unfold Arc.isEmpty RawLru.isEmpty; simp [and_assoc]
  · intro x hx
    rcases List.mem_append.1 hx with hx | hx
    · exact ⟨h.d1b1 x hx, h.d1b2 x hx⟩
    · exact ⟨h.d2b1 x hx, h.d2b2 x hx⟩

/-! ### WTinyLFUCache (for every key hasher `kh`) -/
theorem wtinylfu_reachable (kh : κ → UInt64) (w p q : Nat) (c0 : WTinyLfu κ ν) (h0 : WTinyLfu.InvC w p q c0)
    (ops : List (CacheOp κ ν)) :
    ∃ c, runOps (WTinyLfu.step kh) c0 ops = .ok c ∧
      c.window.items.length ≤ w ∧ c.main.prob.items.length ≤ p ∧ c.main.prot.items.length ≤ q ∧
      c.len ≤ w + p + q ∧ c.cap = w + (q + p) ∧
      (keys c.window.items).Nodup ∧ (∀ x, x ∈ keys c.window.items → x ∉ keys c.main.prob.items ∧ x ∉ keys c.main.prot.items) ∧
      (∀ x, x ∈ keys c.main.prob.items → x ∉ keys c.main.prot.items) := by
  obtain ⟨c, hr, hi, h1, h2, h3⟩ := runOps_inv (WTinyLfu.step kh) (WTinyLfu.InvC w p q) (WTinyLfu.step_invC kh w p q) ops c0 h0
  have b0 := hi.wb; have b1 := hi.mi.bp; have b2 := hi.mi.bq
  rw [h1] at b0; rw [h2] at b1; rw [h3] at b2
  refine ⟨c, hr, b0, b1, b2, by unfold WTinyLfu.len RawLru.len Slru.len; omega,
    by unfold WTinyLfu.cap Slru.cap; rw [h1, h2, h3], hi.wnd, ?_, hi.mi.disj⟩
  intro x hx
  exact ⟨fun hc => hi.dw x hx (Or.inl hc), fun hc => hi.dw x hx (Or.inr hc)⟩

/-- a freshly built W-TinyLFU (non-zero capacities, well-formed estimator) satisfies the invariant -/
theorem wtinylfu_init (w p q : Nat) (est : TinyLfu) (m : Slru κ ν) (hw : 0 < w) (hm : Slru.new p q = some m) (he : est.WF) :
    WTinyLfu.InvC w p q ({ est := est, window := { cap := w, items := [] }, main := m } : WTinyLfu κ ν) := by
  have h0 := Slru.inv_new p q m hm
  exact ⟨⟨by simp, by simp, hw, h0.1, by simp, he⟩, rfl, h0.2.1, h0.2.2⟩

example : (⟨1, [(1, 10)], false⟩ : RawLru Nat Nat).Inv := ⟨by decide, by decide⟩
end C01
