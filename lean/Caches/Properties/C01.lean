/- C01 — capacity bound and size accounting (initial: RawLRU; composites are added by the backbone files) -/
import Caches.Lemmas.RawLru
namespace C01
open M M.RawLru
variable {κ ν : Type} [DecidableEq κ]

/-- a well-formed RawLRU stays within its capacity after `put`, for every capacity (0 included) -/
theorem rawlru_put_bound (c : RawLru κ ν) (k : κ) (v : ν) (h : c.Inv) :
    ∃ c' r e, c.put k v = .ok (c', r, e) ∧ c'.items.length ≤ c'.cap ∧ (keys c'.items).Nodup := by
  obtain ⟨c', r, e, hp, hi, _, _⟩ := put_total_inv c k v h
  exact ⟨c', r, e, hp, hi.bound, hi.nd⟩

/-- the capacity installed by `resize` is enforced at once -/
theorem rawlru_resize_bound (c : RawLru κ ν) (n : Nat) (h : c.Inv) :
    ∃ c' ev e, c.resize n = .ok (c', ev, e) ∧ c'.items.length ≤ n ∧ c'.cap = n := by
  obtain ⟨c', ev, e, hr, hi, hc⟩ := resize_total_inv c n h
  exact ⟨c', ev, e, hr, hc ▸ hi.bound, hc⟩

/-- `len` counts exactly the keys for which `contains` is true -/
theorem rawlru_len_eq_contains (c : RawLru κ ν) (h : c.Inv) :
    c.len = (keys c.items).length ∧ (keys c.items).Nodup ∧ ∀ k, c.contains k = true ↔ k ∈ keys c.items := by
  refine ⟨by simp [RawLru.len], h.nd, fun k => ?_⟩
  unfold RawLru.contains; exact find_isSome_iff k c.items

theorem rawlru_isEmpty_iff (c : RawLru κ ν) : c.isEmpty = true ↔ c.items = [] := by
  unfold RawLru.isEmpty; simp

example : (⟨1, [(1, 10)], false⟩ : RawLru Nat Nat).Inv := ⟨by decide, by decide⟩
end C01
