/- C02 — coherence (initial: RawLRU lookups agree and return the stored value) -/
import Caches.Lemmas.RawLru
namespace C02
open M M.RawLru
variable {κ ν : Type} [DecidableEq κ]

/-- `get`, `get_mut`, `peek`, `peek_mut`, `contains` agree on residency and on the value -/
theorem rawlru_lookup_agree (c : RawLru κ ν) (k : κ) :
    (c.get k).2 = c.peek k ∧ (c.getMut k none).2 = c.peek k ∧ (c.peekMut k none).2 = c.peek k ∧
    c.contains k = (c.peek k).isSome := by
  unfold RawLru.get RawLru.getMut RawLru.peekMut RawLru.peek RawLru.contains
  cases find k c.items <;> simp

/-- after `put k v` every lookup of `k` sees `v` (capacity ≥ 1) -/
theorem rawlru_put_then_peek (c c' : RawLru κ ν) (k : κ) (v : ν) (r : PutResult κ ν) (e : Eff κ ν)
    (h0 : c.cap ≠ 0) (hp : c.put k v = .ok (c', r, e)) : c'.peek k = some v := by
  unfold RawLru.put at hp
  unfold RawLru.peek
  cases hf : find k c.items with
  | some old => simp [hf] at hp; obtain ⟨rfl, _, _⟩ := hp; simp [use, find]
  | none =>
    simp only [hf, h0, if_false] at hp
    split at hp
    · cases hl : c.items.getLast? with
      | none => simp [hl] at hp
      | some e' => simp [hl] at hp; obtain ⟨rfl, _, _⟩ := hp; simp [find]
    · simp at hp; obtain ⟨rfl, _, _⟩ := hp; simp [find]

/-- `remove` hands the stored value back and the key is gone afterwards: a second remove finds nothing -/
theorem rawlru_remove_once (c : RawLru κ ν) (k : κ) (h : c.Inv) :
    (c.remove k).2.1 = c.peek k ∧ ((c.remove k).1.remove k).2.1 = none := by
  unfold RawLru.remove RawLru.peek
  cases hf : find k c.items with
  | none => simp [hf]
  | some v => simp [hf, find_erase_self k c.items h.nd]

/-- operations on other keys never change what is stored under `k` (put) -/
theorem rawlru_put_other (c c' : RawLru κ ν) (k x : κ) (v : ν) (r : PutResult κ ν) (e : Eff κ ν) (h : c.Inv)
    (hx : x ≠ k) (hp : c.put k v = .ok (c', r, e)) : c'.peek x = c.peek x ∨ c'.peek x = none := by
  unfold RawLru.put at hp
  unfold RawLru.peek
  cases hf : find k c.items with
  | some old =>
    simp [hf] at hp; obtain ⟨rfl, _, _⟩ := hp
    left; simp only [use]; rw [find_cons_ne _ _ _ (by exact fun hc => hx hc.symm), find_erase_ne k x _ hx]
  | none =>
    simp only [hf] at hp
    split at hp
    · simp at hp; obtain ⟨rfl, _, _⟩ := hp; left; rfl
    · split at hp
      · cases hl : c.items.getLast? with
        | none => simp [hl] at hp
        | some e' =>
          simp [hl] at hp; obtain ⟨rfl, _, _⟩ := hp
          simp only
          rw [find_cons_ne _ _ _ (by exact fun hc => hx hc.symm), find_dropLast _ x e' hl h.nd]
          by_cases he : e'.1 = x <;> simp [he]
      · simp at hp; obtain ⟨rfl, _, _⟩ := hp
        left; simp only; rw [find_cons_ne _ _ _ (by exact fun hc => hx hc.symm)]
end C02
