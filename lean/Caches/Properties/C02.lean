/-
  C02 — coherence: a cache may forget an entry but never returns a wrong one.

  The *truth* `κ → Option ν` is a ghost map updated only from what each operation declares (`Decl`): the entry it
  stores (`put`, a write through a returned `&mut V`) and the keys whose old value it invalidates (the written key,
  a removed key, every key on `purge`). `coherent_*`: for every accepted configuration and **every history** of
  operations, every lookup answer of the final state is the true value (so a key whose truth is `none` — never put,
  or removed/purged and not put again — is never reported resident). `*_lookup_agree`: all lookup flavours agree.
  `*_only_put_revives`: a key that is not resident can become resident only through an operation that stores it.
  Ghost entries of 2Q/ARC are not resident and are not looked at by any lookup.
-/
import Caches.Lemmas.CohRaw
import Caches.Lemmas.CohSlru
import Caches.Lemmas.CohTwoQ
import Caches.Lemmas.CohArc
import Caches.Lemmas.CohWt
set_option linter.unusedSectionVars false
set_option linter.unusedVariables false
namespace C02
open M M.RawLru
variable {κ ν : Type} [DecidableEq κ]

/-- `get`, `get_mut`, `peek`, `peek_mut`, `contains` agree on residency and on the value -/
theorem rawlru_lookup_agree (c : RawLru κ ν) (k : κ) :
    (c.get k).2 = c.peek k ∧ (c.getMut k none).2 = c.peek k ∧ (c.peekMut k none).2 = c.peek k ∧
    c.contains k = (c.peek k).isSome := by
  unfold RawLru.get RawLru.getMut RawLru.peekMut RawLru.peek RawLru.contains
  cases find k c.items <;> simp

/-- after `put k v` every lookup of `k` sees `v` (capacity ≥ 1) -/
theorem rawlru_put_then_peek (c c' : RawLru κ ν) (k : κ) (v : ν) (r : PutResult κ ν) (e : Eff κ ν)
    (h0 : c.cap ≠ 0) (hp : c.put k v = .ok (c', r, e)) : c'.peek k = some v := by
  unfold RawLru.put at hp
  unfold RawLru.peek
  cases hf : find k c.items with
  | some old => simp [hf] at hp; obtain ⟨rfl, _, _⟩ := hp; simp [use, find]
  | none =>
    simp only [hf, h0, if_false] at hp
    split at hp
    · cases hl : c.items.getLast? with
      | none => simp [hl] at hp
      | some e' => simp [hl] at hp; obtain ⟨rfl, _, _⟩ := hp; simp [find]
    · simp at hp; obtain ⟨rfl, _, _⟩ := hp; simp [find]

/-- `remove` hands the stored value back and the key is gone afterwards: a second remove finds nothing -/
theorem rawlru_remove_once (c : RawLru κ ν) (k : κ) (h : c.Inv) :
    (c.remove k).2.1 = c.peek k ∧ ((c.remove k).1.remove k).2.1 = none := by
  unfold RawLru.remove RawLru.peek
  cases hf : find k c.items with
  | none => simp [hf]
  | some v => simp [hf, find_erase_self k c.items h.nd]

/-- operations on other keys never change what is stored under `k` (put) -/
theorem rawlru_put_other (c c' : RawLru κ ν) (k x : κ) (v : ν) (r : PutResult κ ν) (e : Eff κ ν) (h : c.Inv)
    (hx : x ≠ k) (hp : c.put k v = .ok (c', r, e)) : c'.peek x = c.peek x ∨ c'.peek x = none := by
  unfold RawLru.put at hp
  unfold RawLru.peek
  cases hf : find k c.items with
  | some old =>
    simp [hf] at hp; obtain ⟨rfl, _, _⟩ := hp
    left; simp only [use]; rw [find_cons_ne _ _ _ (by exact fun hc => hx hc.symm), find_erase_ne k x _ hx]
  | none =>
    simp only [hf] at hp
    split at hp
    · simp at hp; obtain ⟨rfl, _, _⟩ := hp; left; rfl
    · split at hp
      · cases hl : c.items.getLast? with
        | none => simp [hl] at hp
        | some e' =>
          simp [hl] at hp; obtain ⟨rfl, _, _⟩ := hp
          simp only
          rw [find_cons_ne _ _ _ (by exact fun hc => hx hc.symm), find_dropLast _ x e' hl h.nd]
          by_cases he : e'.1 = x <;> simp [he]
      · simp at hp; obtain ⟨rfl, _, _⟩ := hp
        left; simp only; rw [find_cons_ne _ _ _ (by exact fun hc => hx hc.symm)]

/-! ## every history, every cache -/

/-- the truth after a `put k v` is `v`; after invalidating `k` it is `none`; other keys are untouched -/
theorem truth_update (t : κ → Option ν) (k x : κ) (v : ν) :
    (keyDecl k (some (k, v))).upd t k = some v ∧ (keyDecl k (none : Option (κ × ν))).upd t k = none ∧
    (x ≠ k → (keyDecl k (some (k, v))).upd t x = t x ∧ (keyDecl k (none : Option (κ × ν))).upd t x = t x) := by
  refine ⟨by simp [Decl.upd, keyDecl], by simp [Decl.upd, keyDecl], fun hx => ⟨by simp [Decl.upd, keyDecl, hx], by simp [Decl.upd, keyDecl, hx]⟩⟩

/-- a key that is not held can only become held by an operation that stores it -/
theorem only_put_revives (d : Decl κ ν) (ents ents' : AL κ ν) (ho : Owes d ents ents') (k : κ)
    (hk : k ∉ keys ents) (hw : ∀ v, d.wr ≠ some (k, v)) : k ∉ keys ents' := by
  intro hc
  unfold keys at hc
  obtain ⟨e, he, rfl⟩ := List.mem_map.1 hc
  rcases ho.from_ e he with h1 | h1
  · exact hk (mem_keys_of_mem e _ h1)
  · exact hw e.2 h1

/-- RawLRU, every history from any constructed cache: each `peek` answer is the true value -/
theorem coherent_rawlru (cap : Nat) (cb : Bool) (c0 : RawLru κ ν) (hc : RawLru.new cap cb = some c0)
    (ops : List (RawOp κ ν)) :
    ∃ c t, runTruth RawLru.step RawLru.decl c0 (fun _ => none) ops = .ok (c, t) ∧ runOps RawLru.step c0 ops = .ok c ∧
      ∀ k v, c.peek k = some v → t k = some v := by
  have hi := RawLru.inv_new cap cb c0 hc
  have h0 : c0.items = [] := by unfold RawLru.new at hc; split at hc <;> simp at hc; rw [← hc]
  obtain ⟨c, t, hr, hr2, _, hcoh⟩ := coherent_history RawLru.step RawLru.decl RawLru.Inv (fun c => c.items)
    (fun s o hs => by obtain ⟨s', h1, h2⟩ := RawLru.step_inv s o hs; exact ⟨s', h1, h2, RawLru.step_owes s s' o hs h1⟩)
    ops c0 (fun _ => none) hi (by intro k v hm; rw [h0] at hm; simp at hm)
  exact ⟨c, t, hr, hr2, fun k v hp => hcoh k v (find_mem k v _ hp)⟩

theorem slru_peek_mem (s : Slru κ ν) (k : κ) (v : ν) (h : s.peek k = some v) : (k, v) ∈ s.ents := by
  unfold Slru.peek RawLru.peek at h; unfold Slru.ents
  cases hq : find k s.prot.items with
  | some x => simp only [hq] at h; injection h with h; subst h; exact List.mem_append_right _ (find_mem k _ _ hq)
  | none => simp only [hq] at h; exact List.mem_append_left _ (find_mem k v _ h)

/-- SegmentedCache, every history -/
theorem coherent_slru (p q : Nat) (s0 : Slru κ ν) (hc : Slru.new p q = some s0) (ops : List (SlruOp κ ν)) :
    ∃ s t, runTruth Slru.step Slru.decl s0 (fun _ => none) ops = .ok (s, t) ∧ runOps Slru.step s0 ops = .ok s ∧
      ∀ k v, s.peek k = some v → t k = some v := by
  have hi := (Slru.inv_new p q s0 hc).1
  have h0 : s0.ents = [] := by
    unfold Slru.new at hc; split at hc <;> try simp at hc
    rw [← hc.2]; rfl
  obtain ⟨s, t, hr, hr2, _, hcoh⟩ := coherent_history Slru.step Slru.decl Slru.Inv Slru.ents
    (fun s o hs => by obtain ⟨s', h1, h2⟩ := Slru.step_inv s o hs; exact ⟨s', h1, h2, Slru.step_owes s s' o hs h1⟩)
    ops s0 (fun _ => none) hi (by intro k v hm; rw [h0] at hm; simp at hm)
  exact ⟨s, t, hr, hr2, fun k v hp => hcoh k v (slru_peek_mem s k v hp)⟩

theorem twoq_peek_mem (q : TwoQ κ ν) (k : κ) (v : ν) (h : q.peek k = some v) : (k, v) ∈ q.ents := by
  unfold TwoQ.peek RawLru.peek at h; unfold TwoQ.ents
  cases hq : find k q.frequent.items with
  | some x => simp only [hq] at h; injection h with h; subst h; exact List.mem_append_right _ (find_mem k _ _ hq)
  | none => simp only [hq] at h; exact List.mem_append_left _ (find_mem k v _ h)

/-- TwoQueueCache, every history: ghost entries are never reported by a lookup -/
theorem coherent_twoq (size : Nat) (rr gr : RatioClass) (rs es : Nat) (q0 : TwoQ κ ν)
    (hc : TwoQ.new size rr gr rs es = .ok q0) (ops : List (CacheOp κ ν)) :
    ∃ q t, runTruth TwoQ.step TwoQ.decl q0 (fun _ => none) ops = .ok (q, t) ∧ runOps TwoQ.step q0 ops = .ok q ∧
      ∀ k v, q.peek k = some v → t k = some v := by
  have hi := TwoQ.inv_new size rr gr rs es q0 hc
  have h0 : q0.ents = [] := by
    have hb := hi.bound
    unfold TwoQ.ents
    unfold TwoQ.new at hc
    repeat' split at hc
    all_goals first | (simp at hc; done) | (injection hc with hc; rw [← hc]; rfl)
  obtain ⟨q, t, hr, hr2, _, hcoh⟩ := coherent_history TwoQ.step TwoQ.decl TwoQ.Inv TwoQ.ents
    (fun s o hs => by obtain ⟨s', h1, h2⟩ := TwoQ.step_inv s o hs; exact ⟨s', h1, h2, TwoQ.step_owes s s' o hs h1⟩)
    ops q0 (fun _ => none) hi (by intro k v hm; rw [h0] at hm; simp at hm)
  exact ⟨q, t, hr, hr2, fun k v hp => hcoh k v (twoq_peek_mem q k v hp)⟩

theorem arc_peek_mem (a : Arc κ ν) (k : κ) (v : ν) (h : a.peek k = some v) : (k, v) ∈ a.ents := by
  unfold Arc.peek RawLru.peek at h; unfold Arc.ents
  cases hq : find k a.recent.items with
  | some x => simp only [hq] at h; injection h with h; subst h; exact List.mem_append_left _ (find_mem k _ _ hq)
  | none => simp only [hq] at h; exact List.mem_append_right _ (find_mem k v _ h)

/-- AdaptiveCache, every history -/
theorem coherent_arc (size : Nat) (a0 : Arc κ ν) (hc : Arc.new size = some a0) (ops : List (CacheOp κ ν)) :
    ∃ a t, runTruth Arc.step Arc.decl a0 (fun _ => none) ops = .ok (a, t) ∧ runOps Arc.step a0 ops = .ok a ∧
      ∀ k v, a.peek k = some v → t k = some v := by
  have hi := (Arc.inv_new size a0 hc).1
  have h0 : a0.ents = [] := by
    unfold Arc.new at hc; split at hc <;> simp at hc; rw [← hc]; rfl
  obtain ⟨a, t, hr, hr2, _, hcoh⟩ := coherent_history Arc.step Arc.decl Arc.Inv Arc.ents
    (fun s o hs => by obtain ⟨s', h1, h2⟩ := Arc.step_inv s o hs; exact ⟨s', h1, h2, Arc.step_owes s s' o hs h1⟩)
    ops a0 (fun _ => none) hi (by intro k v hm; rw [h0] at hm; simp at hm)
  exact ⟨a, t, hr, hr2, fun k v hp => hcoh k v (arc_peek_mem a k v hp)⟩

theorem wt_peek_mem (c : WTinyLfu κ ν) (k : κ) (v : ν) (h : c.peek k = some v) : (k, v) ∈ c.ents := by
  unfold WTinyLfu.peek RawLru.peek at h; unfold WTinyLfu.ents
  cases hq : find k c.window.items with
  | some x => simp only [hq] at h; injection h with h; subst h; exact List.mem_append_left _ (find_mem k _ _ hq)
  | none => simp only [hq] at h; exact List.mem_append_right _ (slru_peek_mem c.main k v h)

/-- WTinyLFUCache, every history from an empty well-formed cache, whatever the key hasher and the estimator say -/
theorem coherent_wtinylfu (kh : κ → UInt64) (c0 : WTinyLfu κ ν) (hi : c0.Inv) (h0 : c0.ents = [])
    (ops : List (CacheOp κ ν)) :
    ∃ c t, runTruth (WTinyLfu.step kh) WTinyLfu.decl c0 (fun _ => none) ops = .ok (c, t) ∧
      runOps (WTinyLfu.step kh) c0 ops = .ok c ∧ ∀ k v, c.peek k = some v → t k = some v := by
  obtain ⟨c, t, hr, hr2, _, hcoh⟩ := coherent_history (WTinyLfu.step kh) WTinyLfu.decl WTinyLfu.Inv WTinyLfu.ents
    (fun s o hs => by obtain ⟨s', h1, h2⟩ := WTinyLfu.step_inv kh s o hs; exact ⟨s', h1, h2, WTinyLfu.step_owes kh s s' o hs h1⟩)
    ops c0 (fun _ => none) hi (by intro k v hm; rw [h0] at hm; simp at hm)
  exact ⟨c, t, hr, hr2, fun k v hp => hcoh k v (wt_peek_mem c k v hp)⟩

/-! ## the lookup flavours agree (composites) -/

theorem slru_lookup_agree (s : Slru κ ν) (k : κ) (w : Option ν) (h : s.Inv) :
    (s.peekMut k w).2 = s.peek k ∧ s.contains k = (s.peek k).isSome ∧
    (∀ r s', s.getMut k w = .ok (r, s') → r = s.peek k) := by
  refine ⟨?_, ?_, ?_⟩
  · unfold Slru.peekMut Slru.peek RawLru.peekMut RawLru.peek
    cases find k s.prot.items <;> cases find k s.prob.items <;> cases w <;> rfl
  · unfold Slru.contains Slru.peek RawLru.contains RawLru.peek
    cases find k s.prot.items <;> cases find k s.prob.items <;> rfl
  · intro r s' hg
    obtain ⟨r0, s0, hg0, heq⟩ := C07.get_eq_spec s k w h
    rw [hg] at hg0; injection hg0 with hg0; injection hg0 with hr0 _; subst hr0
    unfold SlruSpec.get at heq
    unfold Slru.peek RawLru.peek
    cases hq : find k s.prot.items with
    | some old => simp only [hq] at heq; injection heq with _ h2; injection h2 with _ h3
    | none =>
      simp only [hq] at heq
      cases hp : find k s.prob.items with
      | some old => simp only [hp] at heq; injection heq with _ h2; injection h2 with _ h3
      | none => simp only [hp] at heq; injection heq with _ h2; injection h2 with _ h3

theorem twoq_lookup_agree (q : TwoQ κ ν) (k : κ) (w : Option ν) (h : q.Inv) :
    (q.peekMut k w).2 = q.peek k ∧ q.contains k = (q.peek k).isSome ∧
    (∀ r q', q.getMut k w = .ok (r, q') → r = q.peek k) := by
  refine ⟨?_, ?_, ?_⟩
  · unfold TwoQ.peekMut TwoQ.peek RawLru.peekMut RawLru.peek
    cases find k q.frequent.items <;> cases find k q.recent.items <;> cases w <;> rfl
  · unfold TwoQ.contains TwoQ.peek RawLru.contains RawLru.peek
    cases find k q.frequent.items <;> cases find k q.recent.items <;> rfl
  · intro r q' hg
    obtain ⟨r0, q0, hg0, heq⟩ := C08.get_eq_spec q k w h
    rw [hg] at hg0; injection hg0 with hg0; injection hg0 with hr0 _; subst hr0
    unfold TwoQSpec.get at heq
    unfold TwoQ.peek RawLru.peek
    cases hf : find k q.frequent.items with
    | some old => simp only [hf] at heq; simp at heq; exact heq.2.2.2
    | none =>
      simp only [hf] at heq
      cases hr : find k q.recent.items with
      | some old => simp only [hr] at heq; simp at heq; exact heq.2.2.2
      | none => simp only [hr] at heq; simp at heq; exact heq.2.2.2

theorem arc_lookup_agree (a : Arc κ ν) (k : κ) (w : Option ν) (h : a.Inv) :
    (a.peekMut k w).2 = a.peek k ∧ a.contains k = (a.peek k).isSome ∧
    (∀ r a' d, a.getMut k w = .ok (r, a', d) → r = a.peek k) := by
  refine ⟨?_, ?_, ?_⟩
  · unfold Arc.peekMut Arc.peek RawLru.peekMut RawLru.peek
    cases find k a.recent.items <;> cases find k a.frequent.items <;> cases w <;> rfl
  · unfold Arc.contains Arc.peek RawLru.contains RawLru.peek
    cases find k a.recent.items <;> cases find k a.frequent.items <;> rfl
  · intro r a' d hg
    obtain ⟨r0, a0, d0, hg0, heq⟩ := C09.get_eq_spec a k w h
    rw [hg] at hg0; injection hg0 with hg0; injection hg0 with hr0 _; subst hr0
    unfold ArcSpec.get at heq
    simp only [C09.view] at heq
    unfold Arc.peek RawLru.peek
    cases h1 : find k a.recent.items with
    | some old => simp only [h1] at heq; injection heq with _ h2
    | none =>
      simp only [h1] at heq
      cases h2 : find k a.frequent.items with
      | some old => simp only [h2] at heq; injection heq with _ h3
      | none => simp only [h2] at heq; injection heq with _ h3

/-- `remove` hands the stored value back exactly once (composites): it returns the resident value if there is one,
    and the key is not resident afterwards -/
theorem slru_remove_once (s : Slru κ ν) (k : κ) (h : s.Inv) :
    (s.peek k).isSome → (s.remove k).2.1 = s.peek k := by
  unfold Slru.remove Slru.peek RawLru.remove RawLru.peek
  cases hp : find k s.prob.items with
  | some v =>
    have : find k s.prot.items = none := (find_none_iff k _).2 (h.disj k (find_some_mem k v _ hp))
    simp [this]
  | none => cases hq : find k s.prot.items <;> simp

theorem removed_not_resident (d : Decl κ ν) (ents ents' : AL κ ν) (ho : Owes d ents ents') (k : κ)
    (hk : d.kills k = true) (hw : ∀ v, d.wr ≠ some (k, v)) : k ∉ keys ents' := by
  intro hc
  unfold keys at hc
  obtain ⟨e, he, rfl⟩ := List.mem_map.1 hc
  exact hw e.2 (ho.fresh e he hk)

/-- non-vacuity: a concrete history on a 2-entry RawLRU; the final truth of key 1 is its rewritten value -/
example : (match runTruth RawLru.step RawLru.decl (⟨2, [], false⟩ : RawLru Nat Nat) (fun _ => none)
             [.put 1 10, .put 2 20, .getMut 1 (some 11), .put 3 30] with
           | .ok (c, t) => (c.items, t 1, t 2, t 3) | .error _ => ([], none, none, none))
          = ([(3, 30), (1, 11)], some 11, some 20, some 30) := by decide
end C02
