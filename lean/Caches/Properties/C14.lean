/- C14 — iterators (initial: the cursor model; the full yield theorems follow) -/
import Caches.Model.Iter
namespace C14
open M
variable {κ ν : Type}

/-- a fresh iterator reports exactly `len` remaining items -/
theorem start_len (items : AL κ ν) : (Iter.start items).len = items.length := rfl

/-- an exhausted iterator stays exhausted from both ends -/
theorem fused (it : Iter) (items : AL κ ν) (h : it.len = 0) :
    it.stepPtr items = .ok (none, it) ∧ it.stepEnd items = .ok (none, it) := by
  simp [Iter.stepPtr, Iter.stepEnd, h]

/-- each successful step lowers the remaining count by exactly one -/
theorem step_len (it it' : Iter) (items : AL κ ν) (e : κ × ν) (h : it.stepPtr items = .ok (some e, it')) :
    it'.len + 1 = it.len := by
  unfold Iter.stepPtr at h
  split at h
  · simp at h
  · split at h
    · simp at h
    · injection h with h; injection h with _ h; subst h; simp; omega
end C14
