/-
  C14 — iterators visit each entry exactly once, in order, from both ends.

  The model of the four entry iterators is the cursor triple `(len, ptr, end)` with the real `next` / `next_back`
  code (reading a sentinel as an entry is a `Fault`). For EVERY list (no invariant needed), every iterator family and
  every script of `next` / `next_back` calls of any length, the yields are the front/back pops of the list
  (`IterSpec.popEnds`), of the reversed list for the `*_lru` families. Corollaries: exactly `len` items, none twice,
  none skipped, `lru = reverse mru`, exact size hints, exhausted iterators stay exhausted, no sentinel is ever read,
  clones advance independently (an iterator is a value), writes through `iter_mut` keep keys and order.
  The per-list iterators of TwoQueueCache / AdaptiveCache are these iterators on the respective list.
  `ptr_cursors_*`: the same cursors on real addresses (stepping through the heap by `.next` / `.prev`, as the Rust
  iterators do) are simulated by the position model on every well-formed chain: the nodes they dereference are exactly
  the entries at the model's positions — never a sentinel, never a node outside the chain.
-/
import Caches.Lemmas.Iter
import Caches.Lemmas.Assoc
import Caches.Lemmas.PtrIter
set_option linter.unusedSectionVars false
set_option linter.unusedVariables false
namespace C14
open M M.IterSpec
variable {κ ν : Type}

/-- `iter`, `iter_mut`, `keys`, `values`, `values_mut`, `into_iter`: any script yields the pops of the list; never a fault -/
theorem yields_mru (items : AL κ ν) (s : List Bool) :
    Iter.run false items s (Iter.start items) = .ok (popEnds items s) := run_start_mru items s

/-- `iter_lru`, `iter_lru_mut`, `keys_lru`, `values_lru`, `values_lru_mut`: the same on the reversed list -/
theorem yields_lru (items : AL κ ν) (s : List Bool) :
    Iter.run true items s (Iter.start items) = .ok (popEnds items.reverse s) := run_start_lru items s

/-- walking forward `len` times yields every entry once, most recent first, with hints `len-1, …, 0` -/
theorem forward_all (items : AL κ ν) :
    popEnds items (List.replicate items.length false) =
      (List.zip (items.map some) ((List.range items.length).reverse)) := by
  induction items with
  | nil => rfl
  | cons x r ih =>
    simp only [List.length_cons, List.replicate_succ, popEnds, ih, List.map_cons]
    rw [List.range_succ, List.reverse_append]
    simp

/-- `*_lru` is the exact reverse of the MRU order -/
theorem lru_reverse_mru (items : AL κ ν) :
    (yielded items.reverse (List.replicate items.length false)) = (yielded items (List.replicate items.length false)).reverse := by
  have h1 := forward_all items
  have h2 := forward_all items.reverse
  simp only [List.length_reverse] at h2
  unfold yielded
  rw [h1, h2]
  have key : ∀ (l : AL κ ν) (ns : List Nat), l.length = ns.length →
      List.filterMap (fun x => x.1) (List.zip (l.map some) ns) = l := by
    intro l
    induction l with
    | nil => intro ns _; simp
    | cons a t ih =>
      intro ns h
      cases ns with
      | nil => simp at h
      | cons n ns => simp only [List.map_cons, List.zip_cons_cons, List.filterMap_cons]; rw [ih ns (by simpa using h)]
  rw [key _ _ (by simp), key _ _ (by simp)]

/-- mixing `next` and `next_back` never yields an entry twice and never skips one:
    what was yielded plus what is left is a rearrangement of the list -/
theorem no_dup_no_skip (items : AL κ ν) (s : List Bool) : (yielded items s ++ remaining items s).Perm items :=
  popEnds_perm items s

/-- hence at most `len` items are ever yielded, exactly `len` once the iterator is exhausted -/
theorem count_exact (items : AL κ ν) (s : List Bool) :
    (yielded items s).length + (remaining items s).length = items.length := by
  have := (popEnds_perm items s).length_eq
  simpa using this

/-- `size_hint` / `len` after every call = number of entries still to come -/
theorem size_hint_exact (items : AL κ ν) (s : List Bool) (i : Nat) (hi : i < (popEnds items s).length) :
    ((popEnds items s)[i]?.map (·.2)) = some (remaining items (s.take (i + 1))).length := popEnds_hint items s i hi

/-- an exhausted iterator stays exhausted -/
theorem fused (s : List Bool) : ∀ y ∈ popEnds ([] : AL κ ν) s, y = (none, 0) := by
  induction s with
  | nil => intro y hy; simp [popEnds] at hy
  | cons b t ih =>
    intro y hy
    cases b <;> simp only [popEnds, List.getLast?_nil, List.mem_cons] at hy <;> rcases hy with rfl | hy
    · rfl
    · exact ih y hy
    · rfl
    · exact ih y hy

/-- the cursor never reads a sentinel as an entry: no script faults (stated once more, for the record) -/
theorem never_faults (lru : Bool) (items : AL κ ν) (s : List Bool) : ∃ ys, Iter.run lru items s (Iter.start items) = .ok ys := by
  cases lru
  · exact ⟨_, run_start_mru items s⟩
  · exact ⟨_, run_start_lru items s⟩

/-- keys / values iterators are the projections of the entry iterators -/
theorem projections (items : AL κ ν) (s : List Bool) :
    (popEnds items s).map (fun y => (y.1.map Prod.fst, y.2)) = popEnds (items.map Prod.fst) s ∧
    (popEnds items s).map (fun y => (y.1.map Prod.snd, y.2)) = popEnds (items.map Prod.snd) s := by
  constructor <;>
  · induction s generalizing items with
    | nil => rfl
    | cons b t ih =>
      cases b with
      | false => cases items <;> simp [popEnds, ih]
      | true =>
        cases hl : items.getLast? with
        | none =>
          have : items = [] := by simpa using hl
          subst this; simp [popEnds, ih]
        | some x => simp [popEnds, hl, List.getLast?_map, ih, List.map_dropLast]

/-- writes through a mutable iterator keep the keys and their order -/
theorem iterMut_writes_keep_order [DecidableEq κ] (items : AL κ Nat) (wbase : Nat) (ys : List (Option (κ × Nat) × Nat)) (i : Nat) :
    keys (writeYields items wbase ys i) = keys items := by
  induction ys generalizing items i with
  | nil => rfl
  | cons y t ih =>
    obtain ⟨o, n⟩ := y
    cases o with
    | none => simp only [writeYields]; exact ih items (i + 1)
    | some e => simp only [writeYields]; rw [ih, keys_setVal]

/-! ## the cursors on addresses -/
open M.Chain

/-- from a well-formed chain, for every script of `ptr`-side / `end`-side steps (any interleaving, any length, also
    past exhaustion): the pointer cursors yield exactly the nodes at the positions the model reads, and every node they
    dereference is an entry of the chain -/
theorem ptr_cursors_faithful_and_safe (h : Heap) (head tail : Nat) (l : List Nat) (hw : WF h head tail l)
    (s : List Bool) :
    PIter.run h s (PIter.start h head tail l.length) =
      (Iter.posRun s { len := l.length, ptr := 1, endp := l.length }).map (fun o => o.bind (fun i => l[i]?)) ∧
    ∀ a, some a ∈ PIter.run h s (PIter.start h head tail l.length) → a ∈ l := by
  obtain ⟨hs, hwin⟩ := sim_start h head tail l hw
  exact sim_run h head tail l hw s _ _ hwin hs

/-- a forward-only run reads positions 0, 1, 2, … and then stays exhausted -/
example : Iter.posRun [false, false, true, false, false] { len := 3, ptr := 1, endp := 3 } =
    [some 0, some 1, some 2, none, none] := by decide

/-- non-vacuity -/
example : popEnds [(1, 10), (2, 20), (3, 30)] [false, true, false, false] =
    [(some (1, 10), 2), (some (3, 30), 1), (some (2, 20), 0), (none, 0)] := by decide
end C14
