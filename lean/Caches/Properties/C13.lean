/- C13 — read-only operations never change what later operations return.
   In the model the pure read-only entry points (`peek`, `contains`, `len`, `cap`, `is_empty`, `peek_lru`, `peek_mru`,
   `get_mru`, iterator construction and stepping, `Debug`) are functions that return an answer and *no* state, so the
   state after them is the state before them by construction; the `&mut`-taking ones are proved here. -/
import Caches.Lemmas.RawLru
import Caches.Model.Api
set_option linter.unusedSectionVars false
namespace C13
open M M.RawLru
variable {κ ν : Type} [DecidableEq κ]

theorem rawlru_peekMut_nowrite (c : RawLru κ ν) (k : κ) : (c.peekMut k none).1 = c := by
  unfold RawLru.peekMut; cases find k c.items <;> rfl
theorem rawlru_peekLruMut_nowrite (c : RawLru κ ν) : (c.peekLruMut none).1 = c := by
  unfold RawLru.peekLruMut; cases c.items.getLast? <;> rfl
theorem rawlru_getMruMut_nowrite (c : RawLru κ ν) : (c.getMruMut none).1 = c ∧ (c.peekMruMut none).1 = c := by
  unfold RawLru.peekMruMut RawLru.getMruMut; cases c.items <;> exact ⟨rfl, rfl⟩
/-- a hit of `*_or_put` leaves the state alone -/
theorem rawlru_orput_hit (c : RawLru κ ν) (k : κ) (v cur : ν) (h : find k c.items = some cur) :
    (∃ e, c.peekOrPut k v = .ok (c, some cur, none, e)) ∧ (∃ e, c.peekMutOrPut k v none = .ok (c, some cur, none, e)) ∧
    (∃ e, c.containsOrPut k v = .ok (c, true, none, e)) := by
  refine ⟨?_, ?_, ?_⟩ <;> simp [RawLru.peekOrPut, RawLru.peekMutOrPut, RawLru.containsOrPut, h]
/-! ## composites: `peek_mut` without a write is the identity on the whole state (estimator included) -/

theorem slru_peekMut_nowrite (s : Slru κ ν) (k : κ) : (s.peekMut k none).1 = s := by
  unfold Slru.peekMut RawLru.peekMut
  cases find k s.prot.items <;> cases find k s.prob.items <;> rfl

theorem twoq_peekMut_nowrite (q : TwoQ κ ν) (k : κ) : (q.peekMut k none).1 = q := by
  unfold TwoQ.peekMut RawLru.peekMut
  cases find k q.frequent.items <;> cases find k q.recent.items <;> rfl

theorem arc_peekMut_nowrite (a : Arc κ ν) (k : κ) : (a.peekMut k none).1 = a := by
  unfold Arc.peekMut RawLru.peekMut
  cases find k a.recent.items <;> cases find k a.frequent.items <;> rfl

/-- W-TinyLFU: window, both segments **and the frequency estimator** are untouched -/
theorem wtinylfu_peekMut_nowrite (c : WTinyLfu κ ν) (k : κ) : (c.peekMut k none).1 = c := by
  unfold WTinyLfu.peekMut RawLru.peekMut
  cases hw : find k c.window.items with
  | some v => rfl
  | none =>
    simp only
    have := slru_peekMut_nowrite c.main k
    generalize hm : c.main.peekMut k none = res at this
    obtain ⟨m', r⟩ := res
    simp only at this ⊢
    rw [this]

/-! ## interleaving: deleting every read-only call from a history changes no later state, for any history.
    Every return value, eviction choice and iteration order of a later call is a function of the state it runs on,
    so equal states give equal later results. -/

/-- generic: if the read-only operations are identities, a history and the same history with all of them removed
    end in the same state (or the same fault) -/
theorem runOps_skip_readonly {σ ω : Type} (step : σ → ω → Res σ) (ro : ω → Bool)
    (hro : ∀ s o, ro o = true → step s o = .ok s) (ops : List ω) (s : σ) :
    runOps step s ops = runOps step s (ops.filter (fun o => !ro o)) := by
  induction ops generalizing s with
  | nil => rfl
  | cons o rest ih =>
    by_cases h : ro o = true
    · simp only [runOps, hro s o h, List.filter, h, Bool.not_true]; exact ih s
    · have h' : ro o = false := by simpa using h
      simp only [List.filter, h', Bool.not_false, runOps]
      cases step s o with
      | error f => rfl
      | ok s' => exact ih s'

def rawRO : RawOp κ ν → Bool
  | .read | .peekMut _ none | .peekLruMut none | .peekMruMut none | .getMruMut none => true
  | _ => false
def slruRO : SlruOp κ ν → Bool
  | .read | .peekMut _ none => true
  | _ => false
def cacheRO : CacheOp κ ν → Bool
  | .read | .peekMut _ none => true
  | _ => false

theorem rawlru_interleave (c : RawLru κ ν) (ops : List (RawOp κ ν)) :
    runOps RawLru.step c ops = runOps RawLru.step c (ops.filter (fun o => !rawRO o)) := by
  apply runOps_skip_readonly
  intro s o h
  cases o <;> simp only [rawRO] at h <;> try (simp at h)
  all_goals first
    | rfl
    | (rename_i w; cases w <;> simp only [rawRO] at h <;> try (simp at h))
  all_goals first
    | rfl
    | (simp only [RawLru.step]; first
        | rw [rawlru_peekMut_nowrite] | rw [rawlru_peekLruMut_nowrite]
        | rw [(rawlru_getMruMut_nowrite _).1] | rw [(rawlru_getMruMut_nowrite _).2])

theorem slru_interleave (s : Slru κ ν) (ops : List (SlruOp κ ν)) :
    runOps Slru.step s ops = runOps Slru.step s (ops.filter (fun o => !slruRO o)) := by
  apply runOps_skip_readonly
  intro s o h
  cases o <;> simp only [slruRO] at h <;> try (simp at h)
  all_goals first
    | rfl
    | (rename_i w; cases w <;> simp only [slruRO] at h <;> try (simp at h))
  all_goals first | rfl | (simp only [Slru.step]; rw [slru_peekMut_nowrite])

theorem twoq_interleave (q : TwoQ κ ν) (ops : List (CacheOp κ ν)) :
    runOps TwoQ.step q ops = runOps TwoQ.step q (ops.filter (fun o => !cacheRO o)) := by
  apply runOps_skip_readonly
  intro s o h
  cases o <;> simp only [cacheRO] at h <;> try (simp at h)
  all_goals first
    | rfl
    | (rename_i w; cases w <;> simp only [cacheRO] at h <;> try (simp at h))
  all_goals first | rfl | (simp only [TwoQ.step]; rw [twoq_peekMut_nowrite])

theorem arc_interleave (a : Arc κ ν) (ops : List (CacheOp κ ν)) :
    runOps Arc.step a ops = runOps Arc.step a (ops.filter (fun o => !cacheRO o)) := by
  apply runOps_skip_readonly
  intro s o h
  cases o <;> simp only [cacheRO] at h <;> try (simp at h)
  all_goals first
    | rfl
    | (rename_i w; cases w <;> simp only [cacheRO] at h <;> try (simp at h))
  all_goals first | rfl | (simp only [Arc.step]; rw [arc_peekMut_nowrite])

theorem wtinylfu_interleave (kh : κ → UInt64) (c : WTinyLfu κ ν) (ops : List (CacheOp κ ν)) :
    runOps (WTinyLfu.step kh) c ops = runOps (WTinyLfu.step kh) c (ops.filter (fun o => !cacheRO o)) := by
  apply runOps_skip_readonly
  intro s o h
  cases o <;> simp only [cacheRO] at h <;> try (simp at h)
  all_goals first
    | rfl
    | (rename_i w; cases w <;> simp only [cacheRO] at h <;> try (simp at h))
  all_goals first | rfl | (simp only [WTinyLfu.step]; rw [wtinylfu_peekMut_nowrite])

example : runOps RawLru.step (⟨2, [(1, 10)], false⟩ : RawLru Nat Nat) [.peekMut 1 none, .put 2 20, .read, .peekLruMut none]
        = runOps RawLru.step ⟨2, [(1, 10)], false⟩ [.put 2 20] := rfl
end C13
