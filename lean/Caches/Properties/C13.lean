/- C13 — read-only operations (initial: RawLRU).
   In the model the pure read-only entry points (`peek`, `contains`, `len`, `cap`, `is_empty`, `peek_lru`, `peek_mru`,
   `get_mru`, iterator construction and stepping, `Debug`) are functions that return an answer and *no* state, so the
   state after them is the state before them by construction; the `&mut`-taking ones are proved here. -/
import Caches.Lemmas.RawLru
namespace C13
open M M.RawLru
variable {κ ν : Type} [DecidableEq κ]

theorem rawlru_peekMut_nowrite (c : RawLru κ ν) (k : κ) : (c.peekMut k none).1 = c := by
  unfold RawLru.peekMut; cases find k c.items <;> rfl
theorem rawlru_peekLruMut_nowrite (c : RawLru κ ν) : (c.peekLruMut none).1 = c := by
  unfold RawLru.peekLruMut; cases c.items.getLast? <;> rfl
theorem rawlru_getMruMut_nowrite (c : RawLru κ ν) : (c.getMruMut none).1 = c ∧ (c.peekMruMut none).1 = c := by
  unfold RawLru.peekMruMut RawLru.getMruMut; cases c.items <;> exact ⟨rfl, rfl⟩
/-- a hit of `*_or_put` leaves the state alone -/
theorem rawlru_orput_hit (c : RawLru κ ν) (k : κ) (v cur : ν) (h : find k c.items = some cur) :
    (∃ e, c.peekOrPut k v = .ok (c, some cur, none, e)) ∧ (∃ e, c.peekMutOrPut k v none = .ok (c, some cur, none, e)) ∧
    (∃ e, c.containsOrPut k v = .ok (c, true, none, e)) := by
  refine ⟨?_, ?_, ?_⟩ <;> simp [RawLru.peekOrPut, RawLru.peekMutOrPut, RawLru.containsOrPut, h]
end C13
