/- C20 — SampledLFU cost accounting is exact.
   Costs are mathematical integers (`Int`); `i64` overflow is outside the model. -/
import Caches.Lemmas.Sampled
set_option linter.unusedSectionVars false
namespace C20
open M M.Sampled

/-- `room_left(c) = max_cost − Σ costs − c` in every state satisfying the invariant -/
theorem roomLeft_exact (s : Sampled) (c : Int) (hi : s.Inv) : s.roomLeft c = s.maxCost - total s.costs - c := by
  unfold Sampled.roomLeft; rw [hi.used_eq]; omega

/-- `update` / `remove` report exactly whether the key was tracked (and its recorded cost) -/
theorem update_reports (s : Sampled) (h : UInt64) (c : Int) : (s.update h c).2 = (find h s.costs).isSome := by
  unfold Sampled.update; cases find h s.costs <;> rfl
theorem remove_reports (s : Sampled) (h : UInt64) : (s.remove h).2 = find h s.costs := by
  unfold Sampled.remove; cases find h s.costs <;> rfl
theorem remove_then_untracked (s : Sampled) (h : UInt64) (hi : s.Inv) : find h (s.remove h).1.costs = none := by
  unfold Sampled.remove
  cases hf : find h s.costs with
  | none => exact hf
  | some c => exact find_erase_self h _ hi.nd

/-- operation language and the invariant over every history -/
inductive Op | inc (h : UInt64) (c : Int) | upd (h : UInt64) (c : Int) | rem (h : UInt64) | clear | setMax (mc : Int)

def step (s : Sampled) : Op → Sampled
  | .inc h c => s.increment h c
  | .upd h c => (s.update h c).1
  | .rem h => (s.remove h).1
  | .clear => s.clear
  | .setMax mc => s.updateMaxCost mc

theorem inv_step (s : Sampled) (o : Op) (hi : s.Inv) : (step s o).Inv := by
  cases o <;> simp only [step]
  · exact inv_increment s _ _ hi
  · exact inv_update s _ _ hi
  · exact inv_remove s _ hi
  · exact inv_clear s
  · exact inv_updateMaxCost s _ hi

/-- every reachable state: whatever mix of operations preceded, the accounting is exact -/
theorem reach_inv (mc : Int) (n : Nat) (ops : List Op) : (ops.foldl step (Sampled.new mc n)).Inv := by
  suffices ∀ s : Sampled, s.Inv → (ops.foldl step s).Inv from this _ (inv_new mc n)
  induction ops with
  | nil => intro s h; exact h
  | cons o t ih => intro s h; exact ih _ (inv_step s o h)

theorem roomLeft_exact_reachable (mc : Int) (n : Nat) (ops : List Op) (c : Int) :
    let s := ops.foldl step (Sampled.new mc n)
    s.roomLeft c = s.maxCost - total s.costs - c :=
  roomLeft_exact _ c (reach_inv mc n ops)

/-- `fill_sample`: input first, then only pairs of the enumeration `order`, until the sample size is reached -/
theorem fillLoop_spec (samples : Nat) (order pairs : List (UInt64 × Int)) (h : pairs.length < samples) :
    Sampled.fillLoop samples order pairs = pairs ++ order.take (samples - pairs.length) := by
  induction order generalizing pairs with
  | nil => simp [Sampled.fillLoop]
  | cons e t ih =>
    unfold Sampled.fillLoop
    simp only [List.length_append, List.length_cons, List.length_nil]
    by_cases hfull : pairs.length + 1 ≥ samples
    · have : samples - pairs.length = 1 := by omega
      simp [hfull, this]
    · simp only [hfull, if_false]
      rw [ih (pairs ++ [e]) (by simp; omega)]
      have : samples - pairs.length = (samples - (pairs ++ [e]).length) + 1 := by simp; omega
      rw [this, List.take_succ_cons]; simp

theorem fillSample_spec (s : Sampled) (order pairs : List (UInt64 × Int)) :
    s.fillSample order pairs =
      if pairs.length ≥ s.samples then pairs else pairs ++ order.take (s.samples - pairs.length) := by
  unfold Sampled.fillSample
  by_cases h : pairs.length ≥ s.samples
  · simp [h]
  · simp only [h, if_false]; exact fillLoop_spec _ _ _ (by omega)

/-- appended pairs are genuinely tracked whenever the enumeration enumerates `costs` -/
theorem fillSample_tracked (s : Sampled) (order pairs : List (UInt64 × Int)) (ho : ∀ p ∈ order, p ∈ s.costs)
    (p : UInt64 × Int) (hp : p ∈ s.fillSample order pairs) : p ∈ pairs ∨ p ∈ s.costs := by
  rw [fillSample_spec] at hp
  split at hp
  · exact Or.inl hp
  · rcases List.mem_append.1 hp with h | h
    · exact Or.inl h
    · exact Or.inr (ho _ (List.mem_of_mem_take h))

/-- `fill_sample` returns exactly as many pairs as the sample size allows: the input untouched when it is already
    full, otherwise `min samples (input + enumerated)` — it never stops short while tracked pairs remain -/
theorem fillSample_length (s : Sampled) (order pairs : List (UInt64 × Int)) :
    (s.fillSample order pairs).length =
      if pairs.length ≥ s.samples then pairs.length else min s.samples (pairs.length + order.length) := by
  rw [fillSample_spec]
  split
  · rfl
  · simp only [List.length_append, List.length_take]; omega

/-- `fill_sample` returns its input first, unchanged -/
theorem fillSample_prefix (s : Sampled) (order pairs : List (UInt64 × Int)) :
    pairs <+: s.fillSample order pairs := by
  rw [fillSample_spec]
  split
  · exact List.prefix_refl _
  · exact List.prefix_append _ _

/-- nothing is appended twice when the enumeration has no repetition -/
theorem fillSample_appended_nodup (s : Sampled) (order pairs : List (UInt64 × Int)) (hn : order.Nodup) :
    ((s.fillSample order pairs).drop pairs.length).Nodup := by
  rw [fillSample_spec]
  split
  · simp
  · simp only [List.drop_left]
    exact hn.sublist (List.take_sublist _ _)

example : (step (step (Sampled.new 100 5) (.inc 1 5)) (.inc 1 5)).roomLeft 0 = 95 := by decide
end C20
