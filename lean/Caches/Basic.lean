def hello := "world"
