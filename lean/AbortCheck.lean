/-
  `abortcheck`: ties the abort-semantics model (Caches/Model/Abort.lean, the subject of the C18 theorems) to the code.
  Reads the `INJ` records `faultscan` writes — for a plain LRU: the state before an operation, the operation, and the
  state the real code was left in after a panic was injected into one of its calls to user code — and answers, per
  record, whether that post-state is one of the states the model predicts for an abort at some site of that operation.
  Output: one line per record, `ok`, `skip <op>` (operation not in the abort model) or `UNEXPECTED ...`.
-/
import Caches.Model.Abort
open M.Abort

abbrev K := Nat
abbrev V := Nat

def parseEnts (s : String) : List (K × V) :=
  let body := (s.dropWhile (· != '[')).drop 1 |>.takeWhile (· != ']')
  (body.toString.splitOn " ").filterMap fun t =>
    match t.splitOn ":" with
    | [k, v] => match k.toNat?, v.toNat? with | some k, some v => some (k, v) | _, _ => none
    | _ => none

def parseKeys (s : String) : List K :=
  let body := (s.dropWhile (· != '[')).drop 1 |>.takeWhile (· != ']')
  (body.toString.splitOn " ").filterMap (·.toNat?)

def insertSorted (x : Nat) : List Nat → List Nat
  | [] => [x]
  | y :: t => if x ≤ y then x :: y :: t else y :: insertSorted x t
def sortNat (l : List Nat) : List Nat := l.foldr insertSorted []

/-- a strong state: node ids are the positions 1..n, every listed index key points at the node carrying it -/
def mkW (cap : Nat) (chain : List (K × V)) (idx : List K) : W K V :=
  let nodes : List (Node K V) := (chain.zipIdx 1).map fun (e, i) => ⟨i, e.1, e.2⟩
  { chain := nodes
    index := idx.filterMap fun k => (nodes.find? (·.key = k)).map fun n => (k, n.id)
    cap := cap
    freed := [] }

def proj (w : W K V) : List (K × V) × List K × Nat :=
  (w.chain.map fun n => (n.key, n.val), sortNat (w.index.map (·.1)), w.cap)

def putSites : List PutSite := [.lookup, .removeOld, .insertNew, .callback, .done]
def rmSites : List RemoveSite := [.lookup, .afterUnlink, .done]

/-- every state the model allows after an abort somewhere inside the operation (`none`: not modelled) -/
def outcomes (w : W K V) (op : String) (args : List Nat) : Option (List (W K V)) :=
  let fresh := w.chain.length + 1
  match op, args with
  | "put", [k, v] => some (putSites.map (put w k v fresh))
  | "peekorput", [k, v] | "containsorput", [k, v] => some (w :: putSites.map (put w k v fresh))
  | "peekmutorput", [k, v, _] => some (w :: putSites.map (put w k v fresh))
  | "get", [k] | "getmut", [k, _] => some (rmSites.map (get w k))
  | "peek", [_] | "peekmut", [_, _] | "contains", [_] => some [w]
  | "remove", [k] => some (rmSites.map (remove w k))
  | "removelru", [] => some (rmSites.map (removeLru w))
  -- `clone` runs `K::clone` / `V::clone` and `put`s into the NEW cache only: the original is never touched
  | "clone", [] => some [w]
  | "purge", [] => some ((List.range (w.chain.length + 1)).flatMap fun j => rmSites.map (purge w j))
  | "resize", [n] =>
    some (resize w n 0 .done true :: (List.range (w.chain.length + 1)).flatMap fun j => rmSites.map fun s => resize w n j s false)
  | _, _ => none

def field (parts : List String) (pfx : String) : Option String :=
  (parts.find? (·.startsWith pfx)).map (·.drop pfx.length |>.toString)

def checkLine (line : String) : String :=
  let parts := (line.splitOn " | ").map (·.trimAscii.toString)
  match field parts "cap=", field parts "op=", field parts "pre=", field parts "post=" with
  | some capf, some opf, some pref, some postf =>
    let cap := ((capf.splitOn " ").head!).toNat!
    let precap := match field ((capf.splitOn " ").map (·.trimAscii.toString)) "precap=" with
      | some p => p.toNat!
      | none => cap
    let toks := (opf.splitOn " ").filter (· ≠ "")
    let op := toks.head!
    let args := toks.tail.filterMap (·.toNat?)
    -- `pre=[..] idx=[..]`
    let splitIdx (s : String) : String × String :=
      match s.splitOn " idx=" with
      | [a, b] => (a, b)
      | _ => (s, "[]")
    let (pc, pi) := splitIdx pref
    let (qc, qi) := splitIdx postf
    let w := mkW precap (parseEnts pc) (parseKeys pi)
    let seen := (parseEnts qc, sortNat (parseKeys qi), cap)
    match outcomes w op args with
    | none => s!"skip {op}"
    | some ws => if ws.any (fun w' => proj w' == seen) then "ok" else s!"UNEXPECTED {line}"
  | _, _, _, _ => s!"BAD {line}"

partial def loop (h : IO.FS.Stream) : IO Unit := do
  let line ← h.getLine
  if line.isEmpty then return ()
  let l := line.trimAscii.toString
  if l.startsWith "INJ " then IO.println (checkLine l)
  loop h

def main : IO Unit := do loop (← IO.getStdin)
