/-
  `abortcheck`: ties the abort-semantics model (Caches/Model/Abort.lean, the subject of the C18 theorems) to the code.
  Reads the `INJ` records `faultscan` writes — for a plain LRU: the state before an operation, the operation, and the
  state the real code was left in after a panic was injected into one of its calls to user code — and answers, per
  record, whether that post-state is one of the states the model predicts for an abort at some site of that operation.
  Output: one line per record, `ok`, `skip <op>` (operation not in the abort model) or `UNEXPECTED ...`.
-/
import Caches.Model.AbortOwn
import Caches.Model.AbortG
open M M.Abort

abbrev K := Nat
abbrev V := Nat

def parseEnts (s : String) : List (K × V) :=
  let body := (s.dropWhile (· != '[')).drop 1 |>.takeWhile (· != ']')
  (body.toString.splitOn " ").filterMap fun t =>
    match t.splitOn ":" with
    | [k, v] => match k.toNat?, v.toNat? with | some k, some v => some (k, v) | _, _ => none
    | _ => none

def parseKeys (s : String) : List K :=
  let body := (s.dropWhile (· != '[')).drop 1 |>.takeWhile (· != ']')
  (body.toString.splitOn " ").filterMap (·.toNat?)

def insertSorted (x : Nat) : List Nat → List Nat
  | [] => [x]
  | y :: t => if x ≤ y then x :: y :: t else y :: insertSorted x t
def sortNat (l : List Nat) : List Nat := l.foldr insertSorted []

/-- a strong state: node ids are the positions 1..n, every listed index key points at the node carrying it -/
def mkW (cap : Nat) (chain : List (K × V)) (idx : List K) : W K V :=
  let nodes : List (Node K V) := (chain.zipIdx 1).map fun (e, i) => ⟨i, e.1, e.2⟩
  { chain := nodes
    index := idx.filterMap fun k => (nodes.find? (·.key = k)).map fun n => (k, n.id)
    cap := cap
    freed := [] }

def proj (w : W K V) : List (K × V) × List K × Nat :=
  (w.chain.map fun n => (n.key, n.val), sortNat (w.index.map (·.1)), w.cap)

def putSites : List PutFx := [.lookup, .removeOld, .insertNew, .callback, .inDrop]
def rmSites : List RmFx := [.lookup, .callback, .keyDrop]

/-- the drop log as the harness prints it: keys ascending, then values ascending -/
def renderDrops (l : List (Obj K V)) : List (Bool × Nat) :=
  let ks := sortNat (l.filterMap fun | .key k => some k | .val _ => none)
  let vs := sortNat (l.filterMap fun | .val v => some v | .key _ => none)
  ks.map (fun k => (true, k)) ++ vs.map (fun v => (false, v))

def parseDrops (s : String) : List (Bool × Nat) :=
  let body := (s.dropWhile (· != '[')).drop 1 |>.takeWhile (· != ']')
  (body.toString.splitOn " ").filterMap fun t =>
    if t.startsWith "k" then (t.drop 1).toString.toNat?.map fun n => (true, n)
    else if t.startsWith "v" then (t.drop 1).toString.toNat?.map fun n => (false, n)
    else none

/-- is `a` a sub-multiset of `b` (both sorted by `renderDrops`)? -/
def subMulti : List (Bool × Nat) → List (Bool × Nat) → Bool
  | [], _ => true
  | _ :: _, [] => false
  | x :: xs, y :: ys => if x == y then subMulti xs ys else subMulti (x :: xs) ys

/-- every (state, dropped objects) the model allows after an abort somewhere inside the operation;
    `none` for the drops: `clone` drops (some of) the clones it made, which carry the numbers of the originals:
    a sub-multiset of the payload -/
def outcomes (w : W K V) (op : String) (args : List Nat) : Option (List (W K V × Option (List (Obj K V)))) :=
  let fresh := w.chain.length + 1
  let putO (k v : Nat) := (putSites.filter (putApplies w k)).map fun s => (put w k v fresh s.site, some (putFx w k v s).dropped)
  match op, args with
  | "put", [k, v] => some (putO k v)
  -- hit: the surplus arguments are dropped by the frame, whichever call panics
  | "peekorput", [k, v] | "containsorput", [k, v] | "peekmutorput", [k, v, _] =>
    some ((w, some [Obj.key k, Obj.val v]) :: (if (lookup k w.index).isSome then [] else putO k v))
  | "get", [k] | "getmut", [k, _] => some (rmSites.map fun s => (get w k s.site, some []))
  | "peek", [_] | "peekmut", [_, _] | "contains", [_] => some [(w, some [])]
  | "remove", [k] => some (rmSites.map fun s => (remove w k s.site, some (removeFx w k s).dropped))
  | "removelru", [] => some (rmSites.map fun s => (removeLru w s.site, some (removeLruFx w s).dropped))
  -- `clone` runs `K::clone` / `V::clone` and `put`s into the NEW cache only: the original is never touched
  | "clone", [] => some [(w, none)]
  | "purge", [] =>
    some ((List.range (w.chain.length + 1)).flatMap fun j => rmSites.map fun s => (purge w j s.site, some (purgeFx w j s).dropped))
  | "resize", [n] =>
    some ((List.range (w.chain.length + 1)).flatMap fun j =>
      rmSites.map fun s => (resize w n j s.site false, some (resizeFx w n j s false).dropped))
  | _, _ => none

def field (parts : List String) (pfx : String) : Option String :=
  (parts.find? (·.startsWith pfx)).map (·.drop pfx.length |>.toString)

def checkLine (line : String) : String :=
  let parts := (line.splitOn " | ").map (·.trimAscii.toString)
  match field parts "cap=", field parts "op=", field parts "pre=", field parts "post=", field parts "dr=" with
  | some capf, some opf, some pref, some postf, some drf =>
    let cap := ((capf.splitOn " ").head!).toNat!
    let precap := match field ((capf.splitOn " ").map (·.trimAscii.toString)) "precap=" with
      | some p => p.toNat!
      | none => cap
    let toks := (opf.splitOn " ").filter (· ≠ "")
    let op := toks.head!
    let args := toks.tail.filterMap (·.toNat?)
    -- `pre=[..] idx=[..]`
    let splitIdx (s : String) : String × String :=
      match s.splitOn " idx=" with
      | [a, b] => (a, b)
      | _ => (s, "[]")
    let (pc, pi) := splitIdx pref
    let (qc, qi) := splitIdx postf
    let w := mkW precap (parseEnts pc) (parseKeys pi)
    let seen := (parseEnts qc, sortNat (parseKeys qi), cap)
    match outcomes w op args with
    | none => s!"skip {op}"
    | some ws =>
      let dr := parseDrops drf
      if ws.any (fun (w', d) => proj w' == seen && (match d with | some d => renderDrops d == dr | none => subMulti dr (renderDrops (payload w'.chain)))) then "ok"
      else if ws.any (fun (w', _) => proj w' == seen) then s!"UNEXPECTED-DROPS {line}"
      else s!"UNEXPECTED {line}"
  | _, _, _, _, _ => s!"BAD {line}"

/-! ### composite caches: `INJC` records against `Caches/Model/AbortG.lean` -/
namespace Comp
open M.AG

/-- `[k:v k:v]@[p p]` -/
def parseList (s : String) : List (K × V) × List Nat :=
  match s.splitOn "@" with
  | [a, b] => (parseEnts a, parseKeys b)
  | _ => ([], [])

def parseNums (s : String) : List Nat := (s.splitOn ",").filterMap (·.trimAscii.toString.toNat?)

/-- the state before the operation: ids 1.. in list order; the index of a list holds the listed chain positions -/
def mkG (caps : List Nat) (p : Nat) (lists : List (List (K × V) × List Nat)) (ticks : Nat) : G K V :=
  let step := fun (acc : List (Ent K V) × List (List (K × Nat)) × Nat × Nat) (l : List (K × V) × List Nat) =>
    let (pool, idxs, c, nxt) := acc
    let ents : List (Ent K V) := (l.1.zipIdx nxt).map fun (e, i) => ⟨.inL c, i, e.1, e.2⟩
    let idx : List (K × Nat) := (l.1.zipIdx 0).filterMap fun (e, pos) => if l.2.contains pos then some (e.1, nxt + pos) else none
    (pool ++ ents, idxs ++ [idx], c + 1, nxt + l.1.length)
  let (pool, idxs, _, nxt) := lists.foldl step ([], [], 0, 1)
  { pool := pool, idx := fun c => idxs.getD c [], cap := fun c => caps.getD c 0, next := nxt, ticks := ticks, fault := false, p := p }

def projList (g : G K V) (c : Nat) : List (K × V) × List Nat :=
  let ch := chain g c
  (ch.map fun e => (e.key, e.val),
   (ch.zipIdx 0).filterMap fun (e, pos) => if (g.idx c).contains (e.key, e.id) then some pos else none)

def proj (g : G K V) (n : Nat) : List (List (K × V) × List Nat) × Nat := ((List.range n).map (projList g), g.p)

/-- the modelled operation (`none`: not modelled — nothing to compare) -/
def action (comp op : String) (args par : List Nat) (verdict : Bool) : Option (Act K V Unit) :=
  let size := par.getD 0 0
  let rs := par.getD 1 0
  let ro (_cs : List Nat) : Act K V Unit := fun g => (some (), g)   -- read-only calls leave every list as it is
  match comp, op, args with
  | "slru", "put", [k, v] => some (do let _ ← Slru.put k v)
  | "slru", "get", [k] | "slru", "getmut", [k, _] => some (do let _ ← Slru.get k)
  | "slru", "remove", [k] => some (do let _ ← Slru.remove k)
  | "slru", "purge", [] => some Slru.purge
  | "slru", "putprotected", [k, v] => some (do let _ ← Slru.putProtected k v)
  | "slru", "removelruprob", [] => some (do let _ ← rawRemoveLru 0)
  | "slru", "removelruprot", [] => some (do let _ ← rawRemoveLru 1)
  | "twoq", "put", [k, v] => some (do let _ ← TwoQ.put ⟨size, rs⟩ k v)
  | "twoq", "get", [k] | "twoq", "getmut", [k, _] => some (do let _ ← TwoQ.get k)
  | "twoq", "remove", [k] => some (do let _ ← TwoQ.remove k)
  | "twoq", "purge", [] => some TwoQ.purge
  | "arc", "put", [k, v] => some (do let _ ← Arc.put size k v)
  | "arc", "get", [k] | "arc", "getmut", [k, _] => some (do let _ ← Arc.get k)
  | "arc", "remove", [k] => some (do let _ ← Arc.remove k)
  | "arc", "purge", [] => some Arc.purge
  | "wtinylfu", "put", [k, v] => some (do let _ ← Wt.put verdict k v)
  | "wtinylfu", "get", [k] | "wtinylfu", "getmut", [k, _] => some (do let _ ← Wt.get k)
  | "wtinylfu", "remove", [k] => some (do let _ ← Wt.remove k)
  | "wtinylfu", "purge", [] => some Wt.purge
  | _, "peek", _ | _, "peekmut", _ | _, "contains", _ | _, "clone", _ | _, "iter", _ | _, "len", _ | _, "cap", _
  | _, "isempty", _ => some (ro [])
  | _, _, _ => none

def checkLine (line : String) : String :=
  let parts := (line.splitOn " | ").map (·.trimAscii.toString)
  match field parts "comp=", field parts "caps=", field parts "par=", field parts "op=", field parts "pre=",
        field parts "post=", field parts "ppost=" with
  | some comp, some capsf, some parf, some opf, some pref, some postf, some ppostf =>
    let caps := parseNums capsf
    let par := parseNums parf
    let toks := (opf.splitOn " ").filter (· ≠ "")
    let op := toks.head!
    let args := toks.tail.filterMap (·.toNat?)
    let pre := (pref.splitOn ";").map parseList
    let post := (postf.splitOn ";").map parseList
    let seen := (post, (parseNums ppostf).getD 2 0)
    let n := pre.length
    match action comp op args par true, action comp op args par false with
    | some actT, some actF =>
      -- both admission verdicts of W-TinyLFU are explored (the other caches ignore the flag)
      let explore := fun (act : Act K V Unit) =>
        let big := 100000
        let (_, gfin) := act (mkG caps (par.getD 2 0) pre big)
        let used := big - gfin.ticks
        gfin :: (List.range (used + 1)).map fun t => (act (mkG caps (par.getD 2 0) pre t)).2
      let outs := explore actT ++ explore actF
      if outs.any (·.fault) then s!"FAULT {line}"
      else if outs.any (fun g => proj g n == seen) then "ok"
      else s!"UNEXPECTED {line}"
    | _, _ => s!"skip {op}"
  | _, _, _, _, _, _, _ => s!"BAD {line}"
end Comp

partial def loop (h : IO.FS.Stream) : IO Unit := do
  let line ← h.getLine
  if line.isEmpty then return ()
  let l := line.trimAscii.toString
  if l.startsWith "INJ " then IO.println (checkLine l)
  if l.startsWith "INJC " then IO.println (Comp.checkLine l)
  loop h

def main : IO Unit := do loop (← IO.getStdin)
