/-
  `abortcheck`: ties the abort-semantics model (Caches/Model/Abort.lean, the subject of the C18 theorems) to the code.
  Reads the `INJ` records `faultscan` writes — for a plain LRU: the state before an operation, the operation, and the
  state the real code was left in after a panic was injected into one of its calls to user code — and answers, per
  record, whether that post-state is one of the states the model predicts for an abort at some site of that operation.
  Output: one line per record, `ok`, `skip <op>` (operation not in the abort model) or `UNEXPECTED ...`.
-/
import Caches.Model.AbortOwn
open M M.Abort

abbrev K := Nat
abbrev V := Nat

def parseEnts (s : String) : List (K × V) :=
  let body := (s.dropWhile (· != '[')).drop 1 |>.takeWhile (· != ']')
  (body.toString.splitOn " ").filterMap fun t =>
    match t.splitOn ":" with
    | [k, v] => match k.toNat?, v.toNat? with | some k, some v => some (k, v) | _, _ => none
    | _ => none

def parseKeys (s : String) : List K :=
  let body := (s.dropWhile (· != '[')).drop 1 |>.takeWhile (· != ']')
  (body.toString.splitOn " ").filterMap (·.toNat?)

def insertSorted (x : Nat) : List Nat → List Nat
  | [] => [x]
  | y :: t => if x ≤ y then x :: y :: t else y :: insertSorted x t
def sortNat (l : List Nat) : List Nat := l.foldr insertSorted []

/-- a strong state: node ids are the positions 1..n, every listed index key points at the node carrying it -/
def mkW (cap : Nat) (chain : List (K × V)) (idx : List K) : W K V :=
  let nodes : List (Node K V) := (chain.zipIdx 1).map fun (e, i) => ⟨i, e.1, e.2⟩
  { chain := nodes
    index := idx.filterMap fun k => (nodes.find? (·.key = k)).map fun n => (k, n.id)
    cap := cap
    freed := [] }

def proj (w : W K V) : List (K × V) × List K × Nat :=
  (w.chain.map fun n => (n.key, n.val), sortNat (w.index.map (·.1)), w.cap)

def putSites : List PutFx := [.lookup, .removeOld, .insertNew, .callback, .inDrop]
def rmSites : List RmFx := [.lookup, .callback, .keyDrop]

/-- the drop log as the harness prints it: keys ascending, then values ascending -/
def renderDrops (l : List (Obj K V)) : List (Bool × Nat) :=
  let ks := sortNat (l.filterMap fun | .key k => some k | .val _ => none)
  let vs := sortNat (l.filterMap fun | .val v => some v | .key _ => none)
  ks.map (fun k => (true, k)) ++ vs.map (fun v => (false, v))

def parseDrops (s : String) : List (Bool × Nat) :=
  let body := (s.dropWhile (· != '[')).drop 1 |>.takeWhile (· != ']')
  (body.toString.splitOn " ").filterMap fun t =>
    if t.startsWith "k" then (t.drop 1).toString.toNat?.map fun n => (true, n)
    else if t.startsWith "v" then (t.drop 1).toString.toNat?.map fun n => (false, n)
    else none

/-- is `a` a sub-multiset of `b` (both sorted by `renderDrops`)? -/
def subMulti : List (Bool × Nat) → List (Bool × Nat) → Bool
  | [], _ => true
  | _ :: _, [] => false
  | x :: xs, y :: ys => if x == y then subMulti xs ys else subMulti (x :: xs) ys

/-- every (state, dropped objects) the model allows after an abort somewhere inside the operation;
    `none` for the drops: `clone` drops (some of) the clones it made, which carry the numbers of the originals:
    a sub-multiset of the payload -/
def outcomes (w : W K V) (op : String) (args : List Nat) : Option (List (W K V × Option (List (Obj K V)))) :=
  let fresh := w.chain.length + 1
  let putO (k v : Nat) := (putSites.filter (putApplies w k)).map fun s => (put w k v fresh s.site, some (putFx w k v s).dropped)
  match op, args with
  | "put", [k, v] => some (putO k v)
  -- hit: the surplus arguments are dropped by the frame, whichever call panics
  | "peekorput", [k, v] | "containsorput", [k, v] | "peekmutorput", [k, v, _] =>
    some ((w, some [Obj.key k, Obj.val v]) :: (if (lookup k w.index).isSome then [] else putO k v))
  | "get", [k] | "getmut", [k, _] => some (rmSites.map fun s => (get w k s.site, some []))
  | "peek", [_] | "peekmut", [_, _] | "contains", [_] => some [(w, some [])]
  | "remove", [k] => some (rmSites.map fun s => (remove w k s.site, some (removeFx w k s).dropped))
  | "removelru", [] => some (rmSites.map fun s => (removeLru w s.site, some (removeLruFx w s).dropped))
  -- `clone` runs `K::clone` / `V::clone` and `put`s into the NEW cache only: the original is never touched
  | "clone", [] => some [(w, none)]
  | "purge", [] =>
    some ((List.range (w.chain.length + 1)).flatMap fun j => rmSites.map fun s => (purge w j s.site, some (purgeFx w j s).dropped))
  | "resize", [n] =>
    some ((List.range (w.chain.length + 1)).flatMap fun j =>
      rmSites.map fun s => (resize w n j s.site false, some (resizeFx w n j s false).dropped))
  | _, _ => none

def field (parts : List String) (pfx : String) : Option String :=
  (parts.find? (·.startsWith pfx)).map (·.drop pfx.length |>.toString)

def checkLine (line : String) : String :=
  let parts := (line.splitOn " | ").map (·.trimAscii.toString)
  match field parts "cap=", field parts "op=", field parts "pre=", field parts "post=", field parts "dr=" with
  | some capf, some opf, some pref, some postf, some drf =>
    let cap := ((capf.splitOn " ").head!).toNat!
    let precap := match field ((capf.splitOn " ").map (·.trimAscii.toString)) "precap=" with
      | some p => p.toNat!
      | none => cap
    let toks := (opf.splitOn " ").filter (· ≠ "")
    let op := toks.head!
    let args := toks.tail.filterMap (·.toNat?)
    -- `pre=[..] idx=[..]`
    let splitIdx (s : String) : String × String :=
      match s.splitOn " idx=" with
      | [a, b] => (a, b)
      | _ => (s, "[]")
    let (pc, pi) := splitIdx pref
    let (qc, qi) := splitIdx postf
    let w := mkW precap (parseEnts pc) (parseKeys pi)
    let seen := (parseEnts qc, sortNat (parseKeys qi), cap)
    match outcomes w op args with
    | none => s!"skip {op}"
    | some ws =>
      let dr := parseDrops drf
      if ws.any (fun (w', d) => proj w' == seen && (match d with | some d => renderDrops d == dr | none => subMulti dr (renderDrops (payload w'.chain)))) then "ok"
      else if ws.any (fun (w', _) => proj w' == seen) then s!"UNEXPECTED-DROPS {line}"
      else s!"UNEXPECTED {line}"
  | _, _, _, _, _ => s!"BAD {line}"

partial def loop (h : IO.FS.Stream) : IO Unit := do
  let line ← h.getLine
  if line.isEmpty then return ()
  let l := line.trimAscii.toString
  if l.startsWith "INJ " then IO.println (checkLine l)
  loop h

def main : IO Unit := do loop (← IO.getStdin)
