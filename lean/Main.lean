/-
  Line-protocol driver of the model (`cachesmodel`).
  Reads a trace (the Rust executor's output, or a bare script) on stdin; for every
  `case` block it replays the operations on the model and prints, in the very same
  format, what the model computes. `bin/check` diffs the two streams line by line.

  Only parsing, printing and `f64` constructor glue live here; every decision is taken by
  the definitions in `Caches/Model`.
-/
import Caches.Model.RawLru
import Caches.Model.Slru
import Caches.Model.TwoQ
import Caches.Model.Arc
import Caches.Model.TinyLfu
import Caches.Model.WTinyLfu
import Caches.Model.Sampled
import Caches.Model.Iter
open M

abbrev K := Nat
abbrev V := Nat

/-! ## printing -/

def fmtEnt (e : K × V) : String := s!"{e.1}:{e.2}"
/-- lists longer than 96 entries are printed as `#<len>:<digest>` (same rule in harness/src/lib.rs `fmt_list`) -/
def digestAL (l : AL K V) : String :=
  let h := l.foldl (fun (h : Nat) (e : K × V) => (h * 1000003 + e.1 * 31 + e.2 + 1) % 18446744073709551616) 0
  let hex := (Nat.toDigits 16 h)
  s!"#{l.length}:" ++ String.ofList (List.replicate (16 - hex.length) '0' ++ hex)
def fmtAL (l : AL K V) : String :=
  if l.length > 96 then digestAL l else "[" ++ " ".intercalate (l.map fmtEnt) ++ "]"
def fmtOptV : Option V → String
  | none => "none"
  | some v => s!"some {v}"
def fmtOptE : Option (K × V) → String
  | none => "none"
  | some e => s!"some {fmtEnt e}"
def fmtPut : PutResult K V → String
  | .put => "Put"
  | .update o => s!"Update({o})"
  | .evicted k v => s!"Evicted({k}:{v})"
  | .evictedAndUpdate k v o => s!"EvictedAndUpdate({k}:{v},{o})"
/-- `P`, `U:<old>`, `E:<k>:<v>`, `X:<k>:<v>:<old>` -/
def parsePut (t : String) : Option (PutResult K V) :=
  match t.splitOn ":" with
  | ["P"] => some .put
  | ["U", o] => o.toNat?.map .update
  | ["E", k, v] => match k.toNat?, v.toNat? with | some k, some v => some (.evicted k v) | _, _ => none
  | ["X", k, v, o] => match k.toNat?, v.toNat?, o.toNat? with
    | some k, some v, some o => some (.evictedAndUpdate k v o) | _, _, _ => none
  | _ => none

def fmtOptPut : Option (PutResult K V) → String
  | none => "none"
  | some r => fmtPut r
def fmtBool (b : Bool) : String := if b then "true" else "false"

def objKey : Obj K V → (Nat × Nat)
  | .key k => (0, k)
  | .val v => (1, v)
def fmtObj : Obj K V → String
  | .key k => s!"k{k}"
  | .val v => s!"v{v}"
def insertSorted (x : Obj K V) : List (Obj K V) → List (Obj K V)
  | [] => [x]
  | y :: t => if (objKey x).1 < (objKey y).1 ∨ ((objKey x).1 = (objKey y).1 ∧ (objKey x).2 ≤ (objKey y).2)
              then x :: y :: t else y :: insertSorted x t
def sortObjs (l : List (Obj K V)) : List (Obj K V) := l.foldr insertSorted []
/-- drops are compared as a multiset: printed sorted -/
def fmtDrops (l : List (Obj K V)) : String := "[" ++ " ".intercalate ((sortObjs l).map fmtObj) ++ "]"
def fmtCbs (l : List (K × V)) : String := fmtAL l

def hexDigit (n : Nat) : Char := if n < 10 then Char.ofNat (48 + n) else Char.ofNat (87 + n)
def hexN (width : Nat) (n : Nat) : String :=
  String.ofList ((List.range width).reverse.map (fun i => hexDigit ((n >>> (4 * i)) % 16)))
def fmtRow (r : Row) : String := String.join (r.map (hexN 2))
def fmtWords (l : List Nat) : String := ".".intercalate (l.map (hexN 16))

def fmtRaw (c : RawLru K V) : String := s!"cap={c.cap} {fmtAL c.items}"
def fmtSlru (s : Slru K V) : String := "P{" ++ fmtRaw s.prob ++ "} Q{" ++ fmtRaw s.prot ++ "}"
def fmtTwoQ (q : TwoQ K V) : String :=
  s!"rs={q.rs} gcap={q.ghost.cap} R{fmtAL q.recent.items} F{fmtAL q.frequent.items} G{fmtAL q.ghost.items}"
def fmtArc (a : Arc K V) : String :=
  s!"p={a.p} T1{fmtAL a.recent.items} T2{fmtAL a.frequent.items} B1{fmtAL a.recentEvict.items} B2{fmtAL a.frequentEvict.items}"
def fmtTiny (t : TinyLfu) : String :=
  s!"w={t.w} rows=" ++ "/".intercalate (t.sketch.rows.map fmtRow) ++ " door=" ++ fmtWords t.door.bits
def fmtWT (c : WTinyLfu K V) : String :=
  "W{" ++ fmtRaw c.window ++ "} " ++ fmtSlru c.main ++ " E{" ++ fmtTiny c.est ++ "}"
def fmtPairs (l : List (UInt64 × Int)) : String :=
  "[" ++ " ".intercalate (l.map (fun p => s!"{p.1.toNat}:{p.2}")) ++ "]"
def insertPair (x : UInt64 × Int) : List (UInt64 × Int) → List (UInt64 × Int)
  | [] => [x]
  | y :: t => if x.1 ≤ y.1 then x :: y :: t else y :: insertPair x t
def fmtSampled (s : Sampled) : String :=
  s!"used={s.used} max={s.maxCost} costs={fmtPairs (s.costs.foldr insertPair [])}"

/-! ## parsing -/

def hexVal (c : Char) : Option Nat :=
  if '0' ≤ c ∧ c ≤ '9' then some (c.toNat - 48)
  else if 'a' ≤ c ∧ c ≤ 'f' then some (c.toNat - 87)
  else if 'A' ≤ c ∧ c ≤ 'F' then some (c.toNat - 55)
  else none
def parseHex (s : String) : Option Nat :=
  if s.isEmpty then none else
  s.toList.foldl (fun acc c => match acc, hexVal c with
    | some a, some d => some (a * 16 + d)
    | _, _ => none) (some 0)
def parseInt (s : String) : Option Int :=
  if s.startsWith "-" then (s.drop 1).toNat?.map (fun n => - (Int.ofNat n)) else s.toNat?.map Int.ofNat

/-- `k=v` parameters of a `case`/`env` line -/
def getParam (ps : List String) (name : String) : Option String :=
  ps.findSome? (fun p => match p.splitOn "=" with
    | [n, v] => if n = name then some v else none
    | _ => none)
def getNat (ps : List String) (name : String) : Option Nat := (getParam ps name).bind String.toNat?
def getHex (ps : List String) (name : String) : Option Nat := (getParam ps name).bind parseHex

/-- write argument: `0` means "do not write" -/
def wArg (n : Nat) : Option V := if n = 0 then none else some n

/-! ## `f64` constructor glue (natively computed, never reasoned about) -/
def floorMul (size : Nat) (bits : Nat) : Nat :=
  ((Float.ofNat size) * (Float.ofBits (UInt64.ofNat bits))).floor.toUInt64.toNat
def ratioClass (bits : Nat) : RatioClass :=
  let r := Float.ofBits (UInt64.ofNat bits)
  { inUnit := (0.0 ≤ r) && (r ≤ 1.0) }
def fpValid (bits : Nat) : Bool :=
  let r := Float.ofBits (UInt64.ofNat bits)
  (0.0 < r) && (r < 1.0)

/-! ## state of one case -/

inductive St where
  | raw (c : RawLru K V)
  | slru (s : Slru K V)
  | twoq (q : TwoQ K V)
  | arc (a : Arc K V)
  | wt (c : WTinyLfu K V)
  | tiny (t : TinyLfu)
  | sam (s : Sampled)
  | wtsz (w q p : Nat)     -- W-TinyLFU built through a constructor that fixes the key hasher: configuration only
  | pr                     -- `PutResult` values themselves (`==`, `clone`): stateless

def St.fmt : St → String
  | .raw c => fmtRaw c
  | .slru s => fmtSlru s
  | .twoq q => fmtTwoQ q
  | .arc a => fmtArc a
  | .wt c => fmtWT c
  | .tiny t => fmtTiny t
  | .sam s => fmtSampled s
  | .wtsz w q p => s!"W\{cap={w}} P\{cap={p}} Q\{cap={q}}"
  | .pr => "-"

structure World where
  main : St
  alt : Option St := none
  khtab : List (K × UInt64) := []

def World.kh (w : World) (k : K) : UInt64 :=
  match w.khtab.find? (fun p => p.1 = k) with
  | some p => p.2
  | none => 0

/-- outcome of one operation: result text, new state, effects -/
structure Outc where
  res : String
  st : St
  cbs : Option (List (K × V)) := none
  drops : Option (List (Obj K V)) := none

inductive Ans where
  | ok (o : Outc)
  | fault (f : Fault)
  | bad (msg : String)

def faultSite : Fault → String
  | .unwrapNone s => s!"unwrapNone {s}"
  | .sentinelRead s => s!"sentinelRead {s}"
  | .indexOOB s => s!"indexOOB {s}"
  | .overflow s => s!"overflow {s}"
  | .diverge s => s!"diverge {s}"

def nats (args : List String) : Option (List Nat) := args.mapM String.toNat?

/-! ### iterator ops -/
def parseScript (s : String) : Option (List Bool) :=
  if s = "-" then some [] else
  s.toList.mapM (fun c => if c = 'f' then some false else if c = 'b' then some true else none)

def fmtYield (proj : String) (y : Option (K × V) × Nat) : String :=
  let body := match y.1 with
    | none => "none"
    | some e => if proj = "k" then s!"{e.1}" else if proj = "v" then s!"{e.2}" else fmtEnt e
  s!"{body}/{y.2}"

/-- kind ↦ (lru order, projection, mutable) -/
def iterKind : String → Option (Bool × String × Bool)
  | "mru" => some (false, "e", false)
  | "lru" => some (true, "e", false)
  | "mrumut" => some (false, "e", true)
  | "lrumut" => some (true, "e", true)
  | "keys" => some (false, "k", false)
  | "keyslru" => some (true, "k", false)
  | "values" => some (false, "v", false)
  | "valueslru" => some (true, "v", false)
  | "valuesmut" => some (false, "v", true)
  | "valueslrumut" => some (true, "v", true)
  | "into" => some (false, "e", false)
  | "intomut" => some (false, "e", true)
  | _ => none

/-- run an iterator script on one list; returns result text and the (possibly written) list -/
def runIter (items : AL K V) (kind script : String) (wbase : Nat) : Except String (Res (String × AL K V)) :=
  match iterKind kind, parseScript script with
  | some (lru, proj, mutable), some sc =>
    match Iter.run lru items sc (Iter.start items) with
    | .error f => .ok (.error f)
    | .ok ys =>
      let rest := match ys.getLast? with
        | some y => y.2
        | none => items.length
      let txt := "[" ++ " ".intercalate (ys.map (fmtYield proj)) ++ s!"] count={rest}"
      let items' := if mutable ∧ wbase ≠ 0 then writeYields items wbase ys 0 else items
      .ok (.ok (txt, items'))
  | _, _ => .error s!"bad iter {kind} {script}"

/-! ### RawLRU ops -/
def stepRaw (c : RawLru K V) (op : String) (a : List Nat) (sargs : List String) : Ans :=
  let done (res : String) (c' : RawLru K V) (e : Eff K V) : Ans :=
    .ok { res := res, st := .raw c', cbs := some e.cbs, drops := some e.drops }
  match op, a with
  | "put", [k, v] =>
    match c.put k v with
    | .error f => .fault f
    | .ok (c', r, e) => done (fmtPut r) c' e
  | "get", [k] => let (c', r) := c.get k; done (fmtOptV r) c' {}
  | "getmut", [k, w] => let (c', r) := c.getMut k (wArg w); done (fmtOptV r) c' {}
  | "peek", [k] => done (fmtOptV (c.peek k)) c {}
  | "peekmut", [k, w] => let (c', r) := c.peekMut k (wArg w); done (fmtOptV r) c' {}
  | "contains", [k] => done (fmtBool (c.contains k)) c {}
  | "remove", [k] => let (c', r, e) := c.remove k; done (fmtOptV r) c' e
  | "removeres", [k] => if c.contains k then (let (c', r, e) := c.remove k; done (fmtOptV r) c' e) else done "skip" c {}
  | "purge", [] =>
    match c.purge with
    | .error f => .fault f
    | .ok (c', e) => done "()" c' e
  | "len", [] => done (toString c.len) c {}
  | "innercaps", [] => done s!"caps={c.cap}" c {}
  | "cap", [] => done (toString c.cap) c {}
  | "isempty", [] => done (fmtBool c.isEmpty) c {}
  | "debug", [] => done "()" c {}
  | "resize", [n] =>
    match c.resize n with
    | .error f => .fault f
    | .ok (c', ev, e) => done (toString ev) c' e
  | "getlru", [] => let (c', r) := c.getLru; done (fmtOptE r) c' {}
  | "getmru", [] => done (fmtOptE c.getMru) c {}
  | "getlrumut", [w] => let (c', r) := c.getLruMut (wArg w); done (fmtOptE r) c' {}
  | "getmrumut", [w] => let (c', r) := c.getMruMut (wArg w); done (fmtOptE r) c' {}
  | "peeklru", [] => done (fmtOptE c.peekLru) c {}
  | "peekmru", [] => done (fmtOptE c.peekMru) c {}
  | "peeklrumut", [w] => let (c', r) := c.peekLruMut (wArg w); done (fmtOptE r) c' {}
  | "peekmrumut", [w] => let (c', r) := c.peekMruMut (wArg w); done (fmtOptE r) c' {}
  | "removelru", [] => let (c', r, e) := c.removeLru; done (fmtOptE r) c' e
  | "peekorput", [k, v] =>
    match c.peekOrPut k v with
    | .error f => .fault f
    | .ok (c', cur, r, e) => done s!"({fmtOptV cur}, {fmtOptPut r})" c' e
  | "peekmutorput", [k, v, w] =>
    match c.peekMutOrPut k v (wArg w) with
    | .error f => .fault f
    | .ok (c', cur, r, e) => done s!"({fmtOptV cur}, {fmtOptPut r})" c' e
  | "containsorput", [k, v] =>
    match c.containsOrPut k v with
    | .error f => .fault f
    | .ok (c', b, r, e) => done s!"({fmtBool b}, {fmtOptPut r})" c' e
  | "iter", _ =>
    match sargs with
    | [kind, script, wb] =>
      match runIter c.items kind script (wb.toNat?.getD 0) with
      | .error m => .bad m
      | .ok (.error f) => .fault f
      | .ok (.ok (txt, items')) => done txt { c with items := items' } {}
    | _ => .bad "iter args"
  | _, _ => .bad s!"rawlru: unknown op {op}"

/-! ### SLRU ops -/
def stepSlru (s : Slru K V) (op : String) (a : List Nat) : Ans :=
  let done (res : String) (s' : Slru K V) (d : List (Obj K V)) : Ans :=
    .ok { res := res, st := .slru s', drops := some d }
  match op, a with
  | "put", [k, v] =>
    match s.put k v with
    | .error f => .fault f
    | .ok (r, s', d) => done (fmtPut r) s' d
  | "putprotected", [k, v] =>
    match s.putProtected k v with
    | .error f => .fault f
    | .ok (r, s', d) => done (fmtPut r) s' d
  | "get", [k] =>
    match s.get k with
    | .error f => .fault f
    | .ok (r, s') => done (fmtOptV r) s' []
  | "getmut", [k, w] =>
    match s.getMut k (wArg w) with
    | .error f => .fault f
    | .ok (r, s') => done (fmtOptV r) s' []
  | "peek", [k] => done (fmtOptV (s.peek k)) s []
  | "peekmut", [k, w] => let (s', r) := s.peekMut k (wArg w); done (fmtOptV r) s' []
  | "contains", [k] => done (fmtBool (s.contains k)) s []
  | "remove", [k] => let (s', r, d) := s.remove k; done (fmtOptV r) s' d
  | "removeres", [k] => if s.contains k then (let (s', r, d) := s.remove k; done (fmtOptV r) s' d) else done "skip" s []
  | "purge", [] =>
    match s.purge with
    | .error f => .fault f
    | .ok (s', d) => done "()" s' d
  | "len", [] => done (toString s.len) s []
  | "innercaps", [] => done s!"caps={s.prob.cap},{s.prot.cap}" s []
  | "cap", [] => done (toString s.cap) s []
  | "isempty", [] => done (fmtBool s.isEmpty) s []
  | "debug", [] => done "()" s []
  | "problen", [] => done (toString s.prob.len) s []
  | "protlen", [] => done (toString s.prot.len) s []
  | "probcap", [] => done (toString s.prob.cap) s []
  | "protcap", [] => done (toString s.prot.cap) s []
  | "peeklruprob", [] => done (fmtOptE s.prob.peekLru) s []
  | "peekmruprob", [] => done (fmtOptE s.prob.peekMru) s []
  | "peeklruprot", [] => done (fmtOptE s.prot.peekLru) s []
  | "peekmruprot", [] => done (fmtOptE s.prot.peekMru) s []
  | "peeklrumutprob", [w] => let (p, r) := s.prob.peekLruMut (wArg w); done (fmtOptE r) { s with prob := p } []
  | "peekmrumutprob", [w] => let (p, r) := s.prob.peekMruMut (wArg w); done (fmtOptE r) { s with prob := p } []
  | "peeklrumutprot", [w] => let (p, r) := s.prot.peekLruMut (wArg w); done (fmtOptE r) { s with prot := p } []
  | "peekmrumutprot", [w] => let (p, r) := s.prot.peekMruMut (wArg w); done (fmtOptE r) { s with prot := p } []
  | "removelruprob", [] => let (s', r) := s.removeLruFromProbationary; done (fmtOptE r) s' []
  | "removelruprot", [] => let (s', r) := s.removeLruFromProtected; done (fmtOptE r) s' []
  | _, _ => .bad s!"slru: unknown op {op}"

/-! ### 2Q ops -/
def stepTwoQ (q : TwoQ K V) (op : String) (a : List Nat) (sargs : List String) : Ans :=
  let done (res : String) (q' : TwoQ K V) (d : List (Obj K V)) : Ans :=
    .ok { res := res, st := .twoq q', drops := some d }
  match op, a with
  | "put", [k, v] =>
    match q.put k v with
    | .error f => .fault f
    | .ok (r, q', d) => done (fmtPut r) q' d
  | "get", [k] =>
    match q.get k with
    | .error f => .fault f
    | .ok (r, q') => done (fmtOptV r) q' []
  | "getmut", [k, w] =>
    match q.getMut k (wArg w) with
    | .error f => .fault f
    | .ok (r, q') => done (fmtOptV r) q' []
  | "peek", [k] => done (fmtOptV (q.peek k)) q []
  | "peekmut", [k, w] => let (q', r) := q.peekMut k (wArg w); done (fmtOptV r) q' []
  | "contains", [k] => done (fmtBool (q.contains k)) q []
  | "remove", [k] => let (q', r, d) := q.remove k; done (fmtOptV r) q' d
  | "removeres", [k] => if q.contains k then (let (q', r, d) := q.remove k; done (fmtOptV r) q' d) else done "skip" q []
  | "purge", [] =>
    match q.purge with
    | .error f => .fault f
    | .ok (q', d) => done "()" q' d
  | "len", [] => done (toString q.len) q []
  | "innercaps", [] => done s!"caps={q.recent.cap},{q.frequent.cap},{q.ghost.cap}" q []
  | "cap", [] => done (toString q.cap) q []
  | "isempty", [] => done (fmtBool q.isEmpty) q []
  | "debug", [] => done "()" q []
  | "recentlen", [] => done (toString q.recent.len) q []
  | "frequentlen", [] => done (toString q.frequent.len) q []
  | "ghostlen", [] => done (toString q.ghost.len) q []
  | "iter", _ =>
    match sargs with
    | [lst, kind, script, wb] =>
      let items := if lst = "recent" then q.recent.items else if lst = "frequent" then q.frequent.items else q.ghost.items
      match runIter items kind script (wb.toNat?.getD 0) with
      | .error m => .bad m
      | .ok (.error f) => .fault f
      | .ok (.ok (txt, items')) =>
        let q' := if lst = "recent" then { q with recent := { q.recent with items := items' } }
                  else if lst = "frequent" then { q with frequent := { q.frequent with items := items' } }
                  else { q with ghost := { q.ghost with items := items' } }
        done txt q' []
    | _ => .bad "iter args"
  | _, _ => .bad s!"twoq: unknown op {op}"

/-! ### ARC ops -/
def stepArc (c : Arc K V) (op : String) (a : List Nat) (sargs : List String) : Ans :=
  let done (res : String) (c' : Arc K V) (d : List (Obj K V)) : Ans :=
    .ok { res := res, st := .arc c', drops := some d }
  match op, a with
  | "put", [k, v] =>
    match c.put k v with
    | .error f => .fault f
    | .ok (r, c', d) => done (fmtPut r) c' d
  | "get", [k] =>
    match c.get k with
    | .error f => .fault f
    | .ok (r, c', d) => done (fmtOptV r) c' d
  | "getmut", [k, w] =>
    match c.getMut k (wArg w) with
    | .error f => .fault f
    | .ok (r, c', d) => done (fmtOptV r) c' d
  | "peek", [k] => done (fmtOptV (c.peek k)) c []
  | "peekmut", [k, w] => let (c', r) := c.peekMut k (wArg w); done (fmtOptV r) c' []
  | "contains", [k] => done (fmtBool (c.contains k)) c []
  | "remove", [k] => let (c', r, d) := c.remove k; done (fmtOptV r) c' d
  | "removeres", [k] => if c.contains k then (let (c', r, d) := c.remove k; done (fmtOptV r) c' d) else done "skip" c []
  | "purge", [] =>
    match c.purge with
    | .error f => .fault f
    | .ok (c', d) => done "()" c' d
  | "len", [] => done (toString c.len) c []
  | "innercaps", [] => done s!"caps={c.recent.cap},{c.frequent.cap},{c.recentEvict.cap},{c.frequentEvict.cap}" c []
  | "cap", [] => done (toString c.cap) c []
  | "isempty", [] => done (fmtBool c.isEmpty) c []
  | "debug", [] => done "()" c []
  | "partition", [] => done (toString c.p) c []
  | "recentlen", [] => done (toString c.recent.len) c []
  | "frequentlen", [] => done (toString c.frequent.len) c []
  | "recentevictlen", [] => done (toString c.recentEvict.len) c []
  | "frequentevictlen", [] => done (toString c.frequentEvict.len) c []
  | "iter", _ =>
    match sargs with
    | [lst, kind, script, wb] =>
      let items := if lst = "recent" then c.recent.items else if lst = "frequent" then c.frequent.items
                   else if lst = "recentevict" then c.recentEvict.items else c.frequentEvict.items
      match runIter items kind script (wb.toNat?.getD 0) with
      | .error m => .bad m
      | .ok (.error f) => .fault f
      | .ok (.ok (txt, items')) =>
        let c' := if lst = "recent" then { c with recent := { c.recent with items := items' } }
                  else if lst = "frequent" then { c with frequent := { c.frequent with items := items' } }
                  else if lst = "recentevict" then { c with recentEvict := { c.recentEvict with items := items' } }
                  else { c with frequentEvict := { c.frequentEvict with items := items' } }
        done txt c' []
    | _ => .bad "iter args"
  | _, _ => .bad s!"arc: unknown op {op}"

/-! ### W-TinyLFU ops -/
def stepWT (c : WTinyLfu K V) (kh : K → UInt64) (op : String) (a : List Nat) : Ans :=
  let done (res : String) (c' : WTinyLfu K V) (d : List (Obj K V)) : Ans :=
    .ok { res := res, st := .wt c', drops := some d }
  match op, a with
  | "put", [k, v] =>
    match c.put kh k v with
    | .error f => .fault f
    | .ok (r, c', d) => done (fmtPut r) c' d
  | "get", [k] =>
    match c.get kh k with
    | .error f => .fault f
    | .ok (r, c') => done (fmtOptV r) c' []
  | "getmut", [k, w] =>
    match c.getMut kh k (wArg w) with
    | .error f => .fault f
    | .ok (r, c') => done (fmtOptV r) c' []
  | "peek", [k] => done (fmtOptV (c.peek k)) c []
  | "peekmut", [k, w] => let (c', r) := c.peekMut k (wArg w); done (fmtOptV r) c' []
  | "contains", [k] => done (fmtBool (c.contains k)) c []
  | "remove", [k] => let (c', r, d) := c.remove k; done (fmtOptV r) c' d
  | "removeres", [k] => if c.contains k then (let (c', r, d) := c.remove k; done (fmtOptV r) c' d) else done "skip" c []
  | "purge", [] =>
    match c.purge with
    | .error f => .fault f
    | .ok (c', d) => done "()" c' d
  | "len", [] => done (toString c.len) c []
  | "innercaps", [] => done s!"caps={c.window.cap},{c.main.prob.cap},{c.main.prot.cap}" c []
  | "cap", [] => done (toString c.cap) c []
  | "isempty", [] => done (fmtBool c.isEmpty) c []
  | "debug", [] => done "()" c []
  | "windowlen", [] => done (toString c.window.len) c []
  | "windowcap", [] => done (toString c.window.cap) c []
  | "mainlen", [] => done (toString c.main.len) c []
  | "maincap", [] => done (toString c.main.cap) c []
  | _, _ => .bad s!"wtinylfu: unknown op {op}"

/-! ### TinyLFU ops (hashed-key API) -/
def parseCmp : String → Option TinyLfu.Cmp
  | "eq" => some .eq | "le" => some .le | "lt" => some .lt | "gt" => some .gt | "ge" => some .ge
  | _ => none

def incAll (t : TinyLfu) : List Nat → Res TinyLfu
  | [] => .ok t
  | h :: r =>
    match t.increment (UInt64.ofNat h) with
    | .error f => .error f
    | .ok t' => incAll t' r

def stepTiny (t : TinyLfu) (kh : K → UInt64) (op : String) (sargs : List String) : Ans :=
  let done (res : String) (t' : TinyLfu) : Ans := .ok { res := res, st := .tiny t' }
  let hs := sargs.mapM parseHex
  let ks := (nats sargs).getD []
  match op, ks with
  | "inck", [k] =>
    match t.increment (kh k) with
    | .error f => .fault f
    | .ok t' => done "()" t'
  | "incks", l =>
    match incAll t (l.map (fun k => (kh k).toNat)) with
    | .error f => .fault f
    | .ok t' => done "()" t'
  | "estk", [k] =>
    match t.estimate (kh k) with
    | .error f => .fault f
    | .ok n => done (toString n) t
  | "hask", [k] =>
    match t.contains (kh k) with
    | .error f => .fault f
    | .ok b => done (fmtBool b) t
  | _, _ =>
  match op, hs with
  | "inc", some [h] =>
    match t.increment (UInt64.ofNat h) with
    | .error f => .fault f
    | .ok t' => done "()" t'
  | "incs", some l =>
    match incAll t l with
    | .error f => .fault f
    | .ok t' => done "()" t'
  | "est", some [h] =>
    match t.estimate (UInt64.ofNat h) with
    | .error f => .fault f
    | .ok n => done (toString n) t
  | "has", some [h] =>
    match t.contains (UInt64.ofNat h) with
    | .error f => .fault f
    | .ok b => done (fmtBool b) t
  | "tryreset", some [] => done "()" t.tryReset
  | "clear", some [] => done "()" t.clear
  | "cmp", _ =>
    match sargs with
    | [c, x, y] =>
      match parseCmp c, x.toNat?, y.toNat? with
      | some c, some x, some y =>
        match t.compare c (kh x) (kh y), t.estimate (kh x), t.estimate (kh y) with
        | .ok b, .ok ea, .ok eb => done s!"{fmtBool b} {ea} {eb}" t
        | .error f, _, _ => .fault f
        | _, .error f, _ => .fault f
        | _, _, .error f => .fault f
      | _, _, _ => .bad "cmp args"
    | _ => .bad "cmp args"
  | _, _ => .bad s!"tinylfu: unknown op {op}"

/-! ### SampledLFU ops -/
def parsePair (s : String) : Option (UInt64 × Int) :=
  match s.splitOn ":" with
  | [k, c] => match k.toNat?, parseInt c with
    | some k, some c => some (UInt64.ofNat k, c)
    | _, _ => none
  | _ => none

def stepSam (s : Sampled) (op : String) (sargs : List String) (implOut : String) : Ans :=
  let done (res : String) (s' : Sampled) : Ans := .ok { res := res, st := .sam s' }
  match op, sargs with
  | "sinc", [h, c] =>
    match h.toNat?, parseInt c with
    | some h, some c => done "()" (s.increment (UInt64.ofNat h) c)
    | _, _ => .bad "sinc args"
  | "supd", [h, c] =>
    match h.toNat?, parseInt c with
    | some h, some c => let (s', b) := s.update (UInt64.ofNat h) c; done (fmtBool b) s'
    | _, _ => .bad "supd args"
  | "srem", [h] =>
    match h.toNat? with
    | some h => let (s', r) := s.remove (UInt64.ofNat h)
                done (match r with | none => "none" | some c => s!"some {c}") s'
    | _ => .bad "srem args"
  | "sclear", [] => done "()" s.clear
  | "smax", [c] =>
    match parseInt c with
    | some c => done "()" (s.updateMaxCost c)
    | _ => .bad "smax args"
  | "room", [c] =>
    match parseInt c with
    | some c => done (toString (s.roomLeft c)) s
    | _ => .bad "room args"
  | "getmax", [] => done (toString s.maxCost) s
  | "fill", ps =>
    -- the map's iteration order is an oracle: it is taken from the implementation's own answer,
    -- restricted to pairs that are genuinely tracked (anything else is kept and shows up as a diff)
    match ps.mapM parsePair with
    | none => .bad "fill args"
    | some pairs =>
      let implPairs := ((implOut.trimAscii.toString.splitOn " | ").headD "").trimAscii.toString
      let body := (implPairs.drop 1).dropEnd 1 |>.toString
      let toks := if body.isEmpty then [] else body.splitOn " "
      let seen := (toks.mapM parsePair).getD []
      let tail := seen.drop pairs.length
      -- oracle = the tail the implementation appended, made duplicate-free and restricted to tracked pairs,
      -- followed by the remaining tracked pairs in model order
      let tracked := tail.filter (fun p => find p.1 s.costs = some p.2)
      let tracked := tracked.eraseDups
      let rest := s.costs.filter (fun p => !tracked.contains p)
      done (fmtPairs (s.fillSample (tracked ++ rest) pairs)) s
  | _, _ => .bad s!"sampled: unknown op {op}"

/-! ## constructors -/

inductive Ctor where
  | ok (w : World)
  | err (kind : String)
  | bad (msg : String)

def mkBloom (env : List String) : Option Bloom :=
  match getNat env "bwords", getNat env "bmask", getNat env "blocs", getNat env "bshift" with
  | some words, some mask, some locs, some shift =>
    some { bits := List.replicate words 0, sizeMask := mask, setLocs := locs, shift := shift }
  | _, _, _, _ => none

def mkScheme (env : List String) : Option Scheme :=
  match getParam env "scheme" with
  | some "core" => some .core
  | some "std" =>
    match getParam env "seeds" with
    | some s => ((s.splitOn ",").mapM parseHex).map (fun l => Scheme.std (l.map UInt64.ofNat))
    | none => none
  | _ => none

def mkTiny (size samples fpbits : Nat) (env : List String) : Except String (Except String TinyLfu) :=
  if samples = 0 then .ok (.error "InvalidSamples")
  else if !fpValid fpbits then .ok (.error "InvalidFalsePositiveRatio")
  else
    match mkScheme env with
    | none => .error "env: scheme/seeds missing"
    | some sch =>
      match Sketch.new size sch with
      | none => .ok (.error "InvalidCountMinWidth")
      | some sk =>
        match mkBloom env with
        | none => .error "env: bloom parameters missing"
        | some b =>
          let t : TinyLfu := { sketch := sk, door := b, samples := samples, w := 0 }
          -- the theorems of C10/C11 assume `TinyLfu.WF`; its executable form is checked on every real configuration
          if t.wfb then .ok (.ok t) else .error "estimator geometry is not well-formed (TinyLfu.wfb)"

def construct (comp : String) (ps env : List String) : Ctor :=
  match comp with
  | "rawlru" =>
    match getNat ps "cap", getNat ps "cb" with
    | some cap, some cb =>
      match (RawLru.new cap (cb = 1) : Option (RawLru K V)) with
      | none => .err "InvalidSize"
      | some c => .ok { main := .raw c }
    | _, _ => .bad "rawlru params"
  | "rawfrom" =>
    -- `RawLRU::from(vec)` / `collect()` of an iterator with lower size hint `hint`
    match getNat ps "hint", getParam ps "items" with
    | some hint, some its =>
      let toks := if its = "-" then [] else its.splitOn ","
      match toks.mapM (fun t => match t.splitOn ":" with
          | [k, v] => match k.toNat?, v.toNat? with
            | some k, some v => some (k, v)
            | _, _ => none
          | _ => none) with
      | none => .bad "rawfrom items"
      | some l =>
        match RawLru.fromIter hint l with
        | .error _ => .err "PANIC"
        | .ok (c, _) => .ok { main := .raw c }
    | _, _ => .bad "rawfrom params"
  | "slru" =>
    match getNat ps "pcap", getNat ps "qcap" with
    | some p, some q =>
      match (Slru.new p q : Option (Slru K V)) with
      | none => .err "InvalidSize"
      | some s => .ok { main := .slru s }
    | _, _ => .bad "slru params"
  | "twoq" =>
    match getNat ps "size", getHex ps "rr", getHex ps "gr" with
    | some size, some rr, some gr =>
      match (TwoQ.new size (ratioClass rr) (ratioClass gr) (floorMul size rr) (floorMul size gr) : Except TwoQErr (TwoQ K V)) with
      | .error .invalidSize => .err "InvalidSize"
      | .error .invalidRecentRatio => .err "InvalidRecentRatio"
      | .error .invalidGhostRatio => .err "InvalidGhostRatio"
      | .ok q => .ok { main := .twoq q }
    | _, _, _ => .bad "twoq params"
  | "arc" =>
    match getNat ps "size" with
    | some size =>
      match (Arc.new size : Option (Arc K V)) with
      | none => .err "InvalidSize"
      | some a => .ok { main := .arc a }
    | _ => .bad "arc params"
  | "tinylfu" =>
    match getNat ps "size", getNat ps "samples", getHex ps "fp" with
    | some size, some samples, some fp =>
      match mkTiny size samples fp env with
      | .error m => .bad m
      | .ok (.error e) => .err e
      | .ok (.ok t) => .ok { main := .tiny t }
    | _, _, _ => .bad "tinylfu params"
  | "wtinylfu" =>
    match getNat ps "wcap", getNat ps "qcap", getNat ps "pcap", getNat ps "samples", getHex ps "fp" with
    | some w, some q, some p, some samples, some fp =>
      if w = 0 then .err "InvalidWindowCacheSize"
      else if q = 0 then .err "InvalidProtectedCacheSize"
      else if p = 0 then .err "InvalidProbationaryCacheSize"
      else if samples = 0 then .err "InvalidSamples"
      else if !fpValid fp then .err "InvalidFalsePositiveRatio"
      else
        match mkTiny (w + q + p) samples fp env, (Slru.new p q : Option (Slru K V)) with
        | .error m, _ => .bad m
        | .ok (.error e), _ => .err e
        | .ok (.ok t), some m => .ok { main := .wt { est := t, window := { cap := w, items := [] }, main := m } }
        | _, none => .err "InvalidSize"
    | _, _, _, _, _ => .bad "wtinylfu params"
  | "putresult" => .ok { main := .pr }
  | "wtsizes" =>
    match getNat ps "wcap", getNat ps "qcap", getNat ps "pcap", getNat ps "samples" with
    | some w, some q, some p, some samples =>
      if w = 0 then .err "InvalidWindowCacheSize"
      else if q = 0 then .err "InvalidProtectedCacheSize"
      else if p = 0 then .err "InvalidProbationaryCacheSize"
      else if samples = 0 then .err "InvalidSamples"
      else .ok { main := .wtsz w q p }
    | _, _, _, _ => .bad "wtsizes params"
  | "sampled" =>
    match (getParam ps "max").bind parseInt, getNat ps "samples" with
    | some mc, some samples => .ok { main := .sam (Sampled.new mc samples) }
    | _, _ => .bad "sampled params"
  | _ => .bad s!"unknown component {comp}"

/-! ## generic ops: clone / swap / dropalt / census / end -/

def St.clone : St → Option (Res St)
  | .raw c => some (match c.cloneImpl with | .error f => .error f | .ok c' => .ok (.raw c'))
  | .slru s => some (match s.cloneImpl with | .error f => .error f | .ok s' => .ok (.slru s'))
  | .wt c => some (match c.cloneImpl with | .error f => .error f | .ok c' => .ok (.wt c'))
  | .tiny t => some (.ok (.tiny t))
  | _ => none

def St.dropAll : St → List (Obj K V)
  | .raw c => c.dropCache.drops
  | .slru s => s.dropCache
  | .twoq q => q.dropCache
  | .arc a => a.dropCache
  | .wt c => c.dropCache
  | _ => []

def St.census (s : St) (u : Nat) : String :=
  let univ := (List.range u).map (· + 1)
  let info (len cap : Nat) (empty : Bool) (has : K → Bool) : String :=
    s!"len={len} cap={cap} empty={fmtBool empty} in=[" ++
      " ".intercalate ((univ.filter has).map toString) ++ "]"
  match s with
  | .raw c => info c.len c.cap c.isEmpty c.contains
  | .slru c => info c.len c.cap c.isEmpty c.contains
  | .twoq c => info c.len c.cap c.isEmpty c.contains
  | .arc c => info c.len c.cap c.isEmpty c.contains
  | .wt c => info c.len c.cap c.isEmpty c.contains
  | _ => "n/a"

def stepSt (w : World) (op : String) (sargs : List String) (implOut : String) : Ans :=
  let a := (nats sargs).getD []
  match w.main with
  | .raw c => stepRaw c op a sargs
  | .slru s => stepSlru s op a
  | .twoq q => stepTwoQ q op a sargs
  | .arc c => stepArc c op a sargs
  | .wt c => stepWT c w.kh op a
  | .tiny t => stepTiny t w.kh op sargs
  | .sam s => stepSam s op sargs implOut
  | .pr =>
    let done (res : String) : Ans := .ok { res := res, st := .pr }
    match op, sargs with
    | "preq", [a, b] =>
      match parsePut a, parsePut b with
      -- payload 9 is not equal to itself (a NaN-like value: `PartialEq` need not be reflexive)
      | some a, some b => done (fmtBool (PutResult.peq (fun x y => x == y && x != 9) (fun x y => x == y && x != 9) a b))
      | _, _ => .bad "preq args"
    | "preqself", [a] =>
      -- `r == r` on ONE object: still decided by the payloads, not by identity
      match parsePut a with
      | some a => done (fmtBool (PutResult.peq (fun x y => x == y && x != 9) (fun x y => x == y && x != 9) a a))
      | none => .bad "preqself args"
    | "prclone", [a] =>
      match parsePut a with
      | some a => done (fmtPut (PutResult.pclone id id a))
      | none => .bad "prclone args"
    | _, _ => .bad "putresult op"
  | .wtsz wc q p =>
    let done (res : String) : Ans := .ok { res := res, st := .wtsz wc q p }
    match op, sargs with
    | "len", [] => done "0"
    | "cap", [] => done (toString (wc + (q + p)))
    | "isempty", [] => done "true"
    | "wcap", [] => done (toString wc)
    | "mcap", [] => done (toString (q + p))
    | "wlen", [] => done "0"
    | "mlen", [] => done "0"
    | _, _ => .bad "wtsizes op"

def St.sizes : St → Option String
  | .raw c => some s!"{c.len},{c.cap},{fmtBool c.isEmpty}"
  | .slru c => some s!"{c.len},{c.cap},{fmtBool c.isEmpty}"
  | .twoq c => some s!"{c.len},{c.cap},{fmtBool c.isEmpty}"
  | .arc c => some s!"{c.len},{c.cap},{fmtBool c.isEmpty}"
  | .wt c => some s!"{c.len},{c.cap},{fmtBool c.isEmpty}"
  | _ => none

def St.fmtSz (s : St) : String :=
  match s.sizes with
  | some z => s!"{s.fmt} | sz={z}"
  | none => s.fmt

def fmtOutc (o : Outc) : String :=
  let base := s!"{o.res} | {o.st.fmt}"
  let base := match o.cbs with
    | some c => base ++ s!" | cb={fmtCbs c}"
    | none => base
  let base := match o.drops with
    | some d => base ++ s!" | dr={fmtDrops d}"
    | none => base
  let base := match o.st.sizes with
    | some z => base ++ s!" | sz={z}"
    | none => base
  base ++ " | au=ok"

/-! ## main loop -/

structure Drv where
  world : Option World := none       -- `none`: no live case (between cases, or the case was abandoned)
  pending : Option (String × List String) := none   -- a `case` line waiting for its `env`

def splitArrow (line : String) : String × String :=
  match line.splitOn " => " with
  | [] => (line, "")
  | [l] => (l, "")
  | l :: rest => (l, " => ".intercalate rest)

def startCase (head : String) (toks env : List String) : Drv × String :=
  match toks with
  | _ :: _id :: comp :: ps =>
    match construct comp ps env with
    | .ok w => ({ world := some w }, s!"{head} => ok")
    | .err k => ({}, s!"{head} => err {k}")
    | .bad m => ({}, s!"{head} => BAD {m}")
  | _ => ({}, s!"{head} => BAD case line")

def needsEnv (comp : String) : Bool := comp = "tinylfu" || comp = "wtinylfu"

def handle (d : Drv) (line : String) : Drv × List String :=
  let line := line.trimAscii.toString
  if line.isEmpty || line.startsWith "#" then (d, []) else
  let (lhs, implOut) := splitArrow line
  let toks := (lhs.splitOn " ").filter (· ≠ "")
  match toks with
  | [] => (d, [])
  | "case" :: _ :: comp :: _ =>
    if needsEnv comp then
      -- the implementation may already have rejected the arguments: then there is no `env` line
      if implOut.startsWith "err" || implOut.startsWith "PANIC" then
        let (d', out) := startCase lhs toks ["scheme=core", "bwords=8", "bmask=511", "blocs=1", "bshift=55"]
        (d', [out])
      else ({ pending := some (lhs, toks) }, [])
    else
      let (d', out) := startCase lhs toks []
      (d', [out])
  | "env" :: env =>
    match d.pending with
    | some (head, ctoks) =>
      let (d', out) := startCase head ctoks env
      (d', [out, lhs])
    | none => (d, [lhs])
  | "kh" :: k :: h :: [] =>
    match d.world, k.toNat?, parseHex h with
    | some w, some k, some h => ({ d with world := some { w with khtab := (k, UInt64.ofNat h) :: w.khtab } }, [lhs])
    | _, _, _ => (d, [lhs])
  | "end" :: _ =>
    match d.world with
    | some w => ({}, [s!"end => dr={fmtDrops (w.main.dropAll ++ (match w.alt with | some a => a.dropAll | none => []))} | heap=0 | live=0 | dd=0"])
    | none => ({}, ["end"])
  | op :: sargs =>
    match d.world with
    | none => (d, [])          -- constructor failed or the case was abandoned: skip
    | some w =>
      match op with
      | "clone" | "clonefrom" =>
        match w.main.clone with
        | none => (d, [s!"{lhs} => BAD not cloneable"])
        | some (.error f) => ({}, [s!"{lhs} => PANIC # {faultSite f}"])
        | some (.ok c) => ({ d with world := some { w with alt := some c } }, [s!"{lhs} => {c.fmtSz}"])
      | "swap" =>
        match w.alt with
        | none => (d, [s!"{lhs} => BAD no alt"])
        | some a => ({ d with world := some { w with main := a, alt := some w.main } }, [s!"{lhs} => {a.fmtSz}"])
      | "dropalt" =>
        match w.alt with
        | none => (d, [s!"{lhs} => BAD no alt"])
        | some a => ({ d with world := some { w with alt := none } }, [s!"{lhs} => dr={fmtDrops a.dropAll}"])
      | "census" =>
        let u := (sargs.headD "0").toNat?.getD 0
        (d, [s!"{lhs} => {w.main.census u}"])
      | _ =>
        match stepSt w op sargs implOut with
        | .ok o => ({ d with world := some { w with main := o.st } }, [s!"{lhs} => {fmtOutc o}"])
        | .fault f => ({}, [s!"{lhs} => PANIC # {faultSite f}"])
        | .bad m => (d, [s!"{lhs} => BAD {m}"])

partial def loop (h : IO.FS.Stream) (out : IO.FS.Stream) (d : Drv) : IO Unit := do
  let line ← h.getLine
  if line.isEmpty then
    out.flush
    return ()
  let (d', outs) := handle d line
  for o in outs do
    out.putStrLn o
  loop h out d'

def main : IO Unit := do
  let stdin ← IO.getStdin
  let stdout ← IO.getStdout
  loop stdin stdout {}
