#!/usr/bin/env python3
"""Summarise the mutation-testing logs of tools/mutate.py (/tmp/mut/mutlog.jsonl, refined.jsonl) into
validation/mutation-summary.txt. The survivors are triaged by hand below (site -> reason)."""
import json
import os
from collections import Counter

EQUIV = {
    ("src/lru/adaptive.rs", "if self.p + delta > self.size {"): "equivalent: both branches assign `size` when p + delta = size",
    ("src/lfu/tinylfu/bloom.rs", "let ui64 = if ui64 <= 512 { 512 } else { ui64 };"): "equivalent: 512 maps to 512 either way",
    ("src/lib.rs", "&& *update != *other_update"): "gap at the time (PutResult's hand-written PartialEq was proved about but never executed); closed by the `putresult` component of C12, which now reports it with a concrete pair",
    ("src/lfu/wtinylfu.rs", "if !(fp_ratio > 0.0 || fp_ratio < 1.0) {"): "equivalent: TinyLFUBuilder::finalize repeats the same check and the error is mapped to the same variant",
    ("src/lru/two_queue.rs", "let ent = if recent_len >= 0 && (recent_len > self.recent_size || freq_len == 0) {"): "equivalent: with recent_len = 0 the rest of the condition is false unless both queues are empty, which a full cache excludes",
    ("src/lru/adaptive.rs", "self.recent_evict.detach(ent.as_ptr());"): "equivalent: `detach` only touches the node's neighbours, never `self`",
    ("src/lru/adaptive.rs", "self.frequent_evict.detach(ent.as_ptr());"): "equivalent: `detach` only touches the node's neighbours, never `self`",
    ("src/lfu/tinylfu/bloom.rs", "self.elem_num += 2;"): "equivalent: `elem_num` is never read",
    ("src/lru/adaptive.rs", "if recent_evict_len >= freq_evict_len {"): "equivalent: for equal lengths the quotient is 1, the default delta",
    ("src/lru/adaptive.rs", "if delta > self.p {"): "equivalent: for delta = p both branches give p = 0",
}


# re-run by hand against the current machinery after a gap they exposed was closed
RECHECKED = {
    ("src/lru/adaptive.rs", 641, "self.recent_evict.purge();"): "C04",     # "purge leaves nothing retained" oracle added
}


def main():
    rows = [json.loads(l) for l in open("/tmp/mut/mutlog.jsonl")]
    ref = {}
    if os.path.exists("/tmp/mut/refined.jsonl"):
        for l in open("/tmp/mut/refined.jsonl"):
            d = json.loads(l)
            ref[(d["file"], d["line"], d["new"])] = d.get("concrete")
    ref.update(RECHECKED)
    out = []
    out.append("Mutation testing of the checks (tools/mutate.py; isolated copy of /repo and /verif under /tmp/mut).")
    out.append("Mutants: single-site edits of src/** (relational/boolean/arithmetic operators, swapped sibling fields, deleted")
    out.append("statements, masks) that compile AND pass the crate's 73 unit tests. For each, the quick checks of the properties")
    out.append("anchored in the mutated file are run until one reports a violation; when the first report is a model disagreement")
    out.append("without a failing input (`no-failing-input-found`), the remaining checks are run to find one that has a concrete input.")
    out.append("")
    n = len(rows)
    surv = [r for r in rows if not r.get("killer")]
    conc = [r for r in rows if r.get("killer") and "no-input" not in r["killer"]]
    noin = [r for r in rows if r.get("killer") and "no-input" in r["killer"]]
    refined_conc = [r for r in noin if ref.get((r["file"], r["line"], r["new"]))]
    refined_none = [r for r in noin if (r["file"], r["line"], r["new"]) in ref and not ref[(r["file"], r["line"], r["new"])]]
    pending = [r for r in noin if (r["file"], r["line"], r["new"]) not in ref]
    out.append("mutants run: %d   (by file: %s)" % (n, ", ".join("%s %d" % (os.path.basename(f), c) for f, c in Counter(r["file"] for r in rows).most_common())))
    out.append("  reported with a concrete failing input by the first check tried : %d" % len(conc))
    out.append("  first report was a model disagreement only                      : %d" % len(noin))
    out.append("      another check of the same file then gave a concrete input   : %d   (by check: %s)" % (
        len(refined_conc), ", ".join("%s %d" % kv for kv in Counter(ref[(r["file"], r["line"], r["new"])] for r in refined_conc).most_common())))
    out.append("      no property is violated (model disagreement is the verdict) : %d" % len(refined_none))
    if pending:
        out.append("      not re-run                                                  : %d" % len(pending))
    out.append("  not reported by any check (survivors)                           : %d" % len(surv))
    out.append("")
    out.append("Mutants whose only report is a model disagreement touch behaviour none of the 20 properties speaks about")
    out.append("(per-list length / peek accessors of the composite caches, ghost-trimming thresholds, a wider-than-necessary")
    out.append("sketch). One mutant of this group (ARC `purge` clearing the wrong ghost list) exposed a gap instead: C04 says purge")
    out.append("releases everything, and its oracle now checks that nothing is retained afterwards.")
    for r in refined_none:
        out.append("  %s:%d  %s  ->  %s" % (r["file"], r["line"], r["old"][:70], r["new"][:70]))
    out.append("")
    out.append("Survivors, triaged by hand:")
    for r in surv:
        why = EQUIV.get((r["file"], r["new"]), "NOT TRIAGED")
        out.append("  %s:%d  %s  ->  %s\n      %s" % (r["file"], r["line"], r["old"][:80], r["new"][:80], why))
    open("/verif/validation/mutation-summary.txt", "w").write("\n".join(out) + "\n")
    print("\n".join(out[:16]))


if __name__ == "__main__":
    main()
