#!/bin/bash
# run every quick check on the current tree; print the lines that are not OK and the number of OK lines
cd /verif
for i in 01 02 03 04 05 06 07 08 09 10 11 12 13 14 15 16 17 18 19 20; do timeout 1500 bin/check C$i ${1:-quick} 2>&1 | tail -1; done | tee work/allquick.last.log | grep -v "^OK"
grep -c "^OK" work/allquick.last.log
