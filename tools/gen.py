#!/usr/bin/env python3
"""Case generation for the correspondence check (the ONLY place cases come from).

Everything derives from one splitmix64 state seeded by VERIF_SEED, so a seed means the
same cases whatever happens on the Rust or the Lean side.  A case is a list of script
lines: `case <id> <component> k=v ...`, optional `kh` lines, op lines, `end`.
"""
import re
import struct
import sys

MASK = (1 << 64) - 1


class Rng:
    def __init__(self, seed):
        self.s = seed & MASK

    def next(self):
        self.s = (self.s + 0x9E3779B97F4A7C15) & MASK
        z = self.s
        z = ((z ^ (z >> 30)) * 0xBF58476D1CE4E5B9) & MASK
        z = ((z ^ (z >> 27)) * 0x94D049BB133111EB) & MASK
        return z ^ (z >> 31)

    def below(self, n):
        return self.next() % n if n > 0 else 0

    def rng(self, lo, hi):  # inclusive
        return lo + self.below(hi - lo + 1)

    def pick(self, xs):
        return xs[self.below(len(xs))]

    def chance(self, num, den):
        return self.below(den) < num

    def weighted(self, table):
        tot = sum(w for _, w in table)
        r = self.below(tot)
        for x, w in table:
            if r < w:
                return x
            r -= w
        return table[-1][0]


def f64bits(x):
    return "%016x" % struct.unpack("<Q", struct.pack("<d", x))[0]


NAN = "7ff8000000000000"
INF = "7ff0000000000000"
NINF = "fff0000000000000"
NEG0 = "8000000000000000"

HASHERS = ["default", "random", "id", "zero", "fnv"]
KEYKINDS = ["u64", "str", "trk"]


class Vals:
    """fresh, never-zero, never-equal-to-key values: key*100000 + version"""

    def __init__(self):
        self.ver = 0

    def new(self, k):
        self.ver += 1
        return k * 100000 + self.ver


def keypick(r, U, hot=None):
    if hot is not None and r.chance(1, 3):
        return hot
    return r.rng(1, U)


def script(r, n):
    return "".join(r.pick("fb") for _ in range(n)) or "-"


ITER_KINDS = ["mru", "lru", "mrumut", "lrumut", "keys", "keyslru", "values", "valueslru",
              "valuesmut", "valueslrumut"]

# ---------------------------------------------------------------------------------------------
# weight profiles for the Cache-trait operations
# ---------------------------------------------------------------------------------------------
PROFILES = {
    "put": dict(put=10, get=3, getmut=2, peek=1, peekmut=1, contains=1, remove=2, purge=0, sizes=1, census=1, drain=0),
    "get": dict(put=5, get=8, getmut=4, peek=1, peekmut=1, contains=1, remove=1, purge=0, sizes=1, census=1, drain=0),
    "churn": dict(put=6, get=3, getmut=1, peek=1, peekmut=1, contains=1, remove=5, purge=1, sizes=1, census=1, drain=1),
    "read": dict(put=5, get=2, getmut=1, peek=5, peekmut=4, contains=4, remove=1, purge=0, sizes=3, census=2, drain=0),
    "ghost": dict(put=12, get=4, getmut=1, peek=0, peekmut=0, contains=0, remove=1, purge=0, sizes=1, census=1, drain=1),
}


def common_op(r, name, U, vals, hot=None):
    k = keypick(r, U, hot)
    if name == "put":
        return "put %d %d" % (k, vals.new(k))
    if name == "get":
        return "get %d" % k
    if name == "getmut":
        return "getmut %d %d" % (k, vals.new(k) if r.chance(1, 2) else 0)
    if name == "peek":
        return "peek %d" % k
    if name == "peekmut":
        return "peekmut %d %d" % (k, vals.new(k) if r.chance(1, 2) else 0)
    if name == "contains":
        return "contains %d" % k
    if name == "remove":
        return "remove %d" % k
    if name == "purge":
        return "purge"
    if name == "sizes":
        return r.pick(["len", "cap", "isempty", "debug"])
    if name == "census":
        return "census %d" % U
    if name == "drain":
        # remove (almost) every resident key: reaches states where only ghost entries are left
        ks = list(range(1, U + 1))
        for i in range(len(ks) - 1, 0, -1):
            j = r.below(i + 1)
            ks[i], ks[j] = ks[j], ks[i]
        if r.chance(1, 3) and ks:
            ks = ks[1:]
        return "\n".join("remove %d" % x for x in ks)
    raise ValueError(name)


class Aged:
    """approximate recency bookkeeping on the generator side: lets a case aim `put`s at keys that were touched
    `size .. size+ghosts` distinct keys ago, i.e. at keys that are probably ghosts right now"""

    def __init__(self, size, ghosts):
        self.size, self.ghosts, self.hist = size, max(1, ghosts), []

    def touch(self, k):
        if k in self.hist:
            self.hist.remove(k)
        self.hist.insert(0, k)

    def forget(self, k):
        if k in self.hist:
            self.hist.remove(k)

    def note(self, line):
        t = line.split()
        if t and t[0] in ("put", "get", "getmut") and len(t) > 1:
            self.touch(int(t[1]))
        elif t and t[0] == "remove" and len(t) > 1:
            self.forget(int(t[1]))
        elif t and t[0] == "purge":
            self.hist = []

    def ghostish(self, r):
        lo, hi = self.size, min(len(self.hist) - 1, self.size + self.ghosts)
        if hi < lo:
            return None
        return self.hist[r.rng(lo, hi)]


def drain_burst(r, U, aged, vals):
    """empty the resident lists one key at a time (`removeres` leaves ghosts alone), then put keys that were touched
    before: with nothing resident and a non-empty ghost list a `put` takes paths of its own in 2Q / ARC / W-TinyLFU"""
    lines = ["removeres %d" % k for k in range(1, U + 1)]
    olds = list(aged.hist[aged.size: aged.size + aged.ghosts]) if aged is not None else []    # probably ghosts
    picks = olds[: 3] if olds else [r.rng(1, U)]
    r_picks = []
    for k in picks:
        r_picks.append("put %d %d" % (k, vals.new(k)))
    if aged is not None:
        # residents are gone; what was touched stays a ghost candidate
        pass
    return lines + r_picks


def gen_huge(comp, r, cid):
    """one long, mostly deterministic history on a cache of 1030..1700 entries per list (states are printed as digests):
    fill, overflow by ~0.8 x size new keys (evictions, ghosts), re-put the earliest keys (ghost hits / revivals), a few
    gets and length queries. Thresholds such as 1024 on a list or ghost-list size only show at this scale."""
    S = r.rng(1030, 1700)
    G = (S * 4) // 5
    ops = []
    v = [0]

    def put(k):
        v[0] += 1
        ops.append("put %d %d" % (k, k * 100000 + v[0]))
    if comp == "rawlru":
        head = "case %d rawlru cap=%d cb=0 keys=u64 hasher=default" % (cid, S)
        for k in range(1, S + G + 1):
            put(k)
            if k % 7 == 0:
                ops.append("get %d" % r.rng(max(1, k - S + 1), k))
        for k in range(1, 30):
            put(k)
        ops += ["len", "peeklru", "peekmru", "resize %d" % (S // 2), "len", "peeklru"]
    elif comp == "slru":
        q = r.rng(1030, 1400)
        p = r.rng(1030, 1400)
        head = "case %d slru pcap=%d qcap=%d keys=u64 hasher=default via=new" % (cid, p, q)
        for k in range(1, q + 60):
            put(k)
            ops.append("get %d" % k)                 # promote: the protected segment fills and then demotes
        for k in range(5000, 5000 + p + 80):
            put(k)                                    # probationary fills and evicts
        ops += ["len"]
        for k in range(1, 20):
            ops.append("get %d" % k)
    elif comp == "twoq":
        head = "case %d twoq size=%d rr=%s gr=%s keys=u64 hasher=default via=params" % (cid, S, f64bits(0.25), f64bits(1.0))
        for k in range(1, S + G + 1):
            put(k)
            if k % 9 == 0:
                ops.append("get %d" % r.rng(max(1, k - S // 8), k))
        ops += ["recentlen", "frequentlen", "ghostlen"]
        for k in range(1, 40):
            put(k)                                    # the earliest keys are ghosts by now
        ops += ["recentlen", "frequentlen", "ghostlen", "len"]
    elif comp == "arc":
        head = "case %d arc size=%d keys=u64 hasher=default via=new" % (cid, S)
        for k in range(1, S + G + 1):
            put(k)
        ops += ["recentlen", "frequentlen", "recentevictlen", "frequentevictlen"]
        for k in range(1, 40):
            put(k)                                    # hits in the recent ghost list: p grows
        for k in range(1, 40):
            ops.append("get %d" % k)
        ops += ["recentlen", "frequentlen", "recentevictlen", "frequentevictlen", "len"]
    else:
        w, q, p = r.rng(4, 12), r.rng(1030, 1300), r.rng(1030, 1300)
        head = "case %d wtinylfu wcap=%d qcap=%d pcap=%d samples=%d fp=%s keys=u64 hasher=default ord=%d" % (cid, w, q, p, 64, f64bits(0.01), r.below(3))
        for k in range(1, w + q + p + 200):
            put(k)
            if k % 5 == 0:
                ops.append("get %d" % r.rng(max(1, k - 50), k))
        ops += ["len"]
    return [head] + ops + ["end"]


def gen_bigctor(comp, r, cid):
    """a cache built with sizes beyond every power-of-two threshold one might clamp at (2^10, 2^12, 2^16, 2^20): the lists
    must really get the requested capacities (`innercaps` reads them through the hooks)"""
    big = lambda: r.pick([1025, 4097, 65537, 70000, (1 << 20) + 3])
    if comp == "rawlru":
        head = "case %d rawlru cap=%d cb=0 keys=u64 hasher=default" % (cid, big())
    elif comp == "slru":
        a, b = r.pick([(big(), r.rng(1, 4)), (r.rng(1, 4), big()), (big(), big())])
        head = "case %d slru pcap=%d qcap=%d keys=u64 hasher=default via=%s" % (cid, a, b, r.pick(["new", "builder", "setters"]))
    elif comp == "twoq":
        head = "case %d twoq size=%d rr=%s gr=%s keys=u64 hasher=default via=params" % (cid, big(), f64bits(0.25), f64bits(r.pick([0.5, 1.0])))
    elif comp == "arc":
        head = "case %d arc size=%d keys=u64 hasher=default via=%s" % (cid, big(), r.pick(["new", "builder", "setters"]))
    else:
        w, q, p = r.pick([(big(), 2, 2), (2, big(), 2), (2, 2, big())])
        head = "case %d wtinylfu wcap=%d qcap=%d pcap=%d samples=%d fp=%s keys=u64 hasher=default ord=%d" % (cid, w, q, p, 16, f64bits(0.01), r.below(3))
    return [head, "innercaps", "cap", "len", "put 1 100001", "put 2 200002", "get 1", "innercaps", "len", "end"]


def profile_table(prof, extra):
    t = [(k, w) for k, w in PROFILES[prof].items() if w > 0]
    t += [(k, w) for k, w in extra.items() if w > 0]
    return t


def variant(r, tier_all=True):
    """harness-side variation that the model does not see (C02, C17)"""
    keys = r.weighted([("trk", 5), ("u64", 2), ("str", 2)])
    hasher = r.weighted([("default", 3), ("random", 2), ("id", 1), ("zero", 2), ("fnv", 1)])
    s = "keys=%s hasher=%s" % (keys, hasher)
    if hasher != "default":
        # order in which the builders' value setters and (type-changing) hasher setters are applied; invisible to the model
        s += " ord=%d" % r.below(2)
    if r.chance(1, 8):
        s += " pad=%d" % r.pick([8, 24, 40, 104])
    return s


# ---------------------------------------------------------------------------------------------
# RawLRU
# ---------------------------------------------------------------------------------------------
def gen_rawlru_zst(r, cid, nops):
    """plain LRU whose value type is zero-sized (`vals=zst`, harness side only): every value in the script is 0"""
    cap = r.weighted([(1, 2), (2, 3), (3, 4), (4, 2), (r.rng(5, 10), 2)])
    U = cap + 1 + r.below(cap + 2)
    lines = ["case %d rawlru cap=%d cb=0 keys=u64 hasher=default vals=zst" % (cid, cap)]
    for _ in range(nops):
        k = r.rng(1, U)
        name = r.weighted([("put", 10), ("get", 4), ("peek", 2), ("contains", 1), ("remove", 2), ("removelru", 2), ("getlru", 1),
                           ("getmru", 1), ("peeklru", 2), ("peekmru", 2), ("resize", 1), ("purge", 1), ("peekorput", 2),
                           ("containsorput", 2), ("len", 1)])
        if name in ("put", "peekorput", "containsorput"):
            lines.append("%s %d 0" % (name, k))
        elif name in ("get", "peek", "contains", "remove"):
            lines.append("%s %d" % (name, k))
        elif name == "resize":
            lines.append("resize %d" % r.rng(0, cap + 2))
        else:
            lines.append(name)
    lines.append("end")
    return lines


def gen_rawlru(r, cid, nops, opts):
    if opts.get("bigctor"):
        return gen_bigctor("rawlru", r, cid)
    if opts.get("huge"):
        return gen_huge("rawlru", r, cid)
    if not opts.get("variant") and not opts.get("cb") and not opts.get("big") and r.chance(1, 12):
        return gen_rawlru_zst(r, cid, nops)
    cap = r.weighted([(1, 3), (2, 4), (3, 4), (4, 2), (r.rng(5, 16), 2)])
    if opts.get("bigcap") and r.chance(1, 2):
        cap = r.rng(4, 12)          # enough entries for bucket order to differ from recency order
    if opts.get("big"):
        cap = r.pick([28, 56, 28, r.rng(15, 60)])
    cb = 1 if (opts.get("cb") or r.chance(1, 2)) else 0
    U = cap + 1 + r.below(cap + 3)
    vals = Vals()
    prof = r.pick(list(PROFILES))
    extra = dict(resize=opts.get("resize", 1), getlru=1, getmru=1, getlrumut=1, getmrumut=1, peeklru=1, peekmru=1,
                 peeklrumut=1, peekmrumut=1, removelru=2, peekorput=2, peekmutorput=2, containsorput=2,
                 iter=opts.get("iter", 2), clone=opts.get("clone", 1))
    if opts.get("noresize"):
        extra["resize"] = 0
    table = profile_table(prof, extra)
    lines = ["case %d rawlru cap=%d cb=%d %s" % (cid, cap, cb, opts.get("variant") or variant(r))]
    has_alt = False
    hot = r.rng(1, U)
    for _ in range(nops):
        name = r.weighted(table)
        if name in PROFILES["put"]:
            lines.extend(common_op(r, name, U, vals, hot).split("\n"))
        elif name == "resize":
            # now and then a capacity no allocation could ever satisfy (`resize` only stores it): whatever follows — clone, put,
            # iterators — must not size anything by it; then back to something small
            if r.chance(1, 12):
                lines.append("resize %d" % r.pick([(1 << 64) - 1, 1 << 63, (1 << 62) + 5]))
                kk = r.rng(1, U)
                lines.append(r.pick(["clone", "clonefrom", "put %d %d" % (kk, vals.new(kk)), "clone"]))
                lines.append("resize %d" % r.rng(1, cap + 2))
            else:
                lines.append("resize %d" % r.weighted([(0, 1), (1, 2), (cap, 2), (r.rng(0, cap + 3), 5)]))
        elif name in ("getlru", "getmru", "peeklru", "peekmru", "removelru"):
            lines.append(name)
        elif name in ("getlrumut", "getmrumut", "peeklrumut", "peekmrumut"):
            lines.append("%s %d" % (name, vals.new(0) if r.chance(1, 2) else 0))
        elif name in ("peekorput", "containsorput"):
            k = keypick(r, U, hot)
            lines.append("%s %d %d" % (name, k, vals.new(k)))
        elif name == "peekmutorput":
            k = keypick(r, U, hot)
            lines.append("%s %d %d %d" % (name, k, vals.new(k), vals.new(k) if r.chance(1, 2) else 0))
        elif name == "iter":
            kind = r.pick(ITER_KINDS + ["into", "intomut"])
            wb = vals.new(0) if ("mut" in kind and r.chance(1, 2)) else 0
            vals.ver += 20
            lines.append("iter %s %s %d" % (kind, script(r, r.rng(0, min(cap, U) + 2)), wb))
        elif name == "clone":
            if not has_alt or r.chance(1, 3):
                lines.append(r.pick(["clone", "clone", "clonefrom"]))
                has_alt = True
            elif r.chance(1, 2):
                lines.append("swap")
            else:
                lines.append("dropalt")
                has_alt = False
    lines.append("end")
    return lines


def gen_rawfrom(r, cid, nops, opts):
    n = r.rng(0, 5)
    vals = Vals()
    items = []
    for _ in range(n):
        k = r.rng(1, 4)
        items.append("%d:%d" % (k, vals.new(k)))
    hint = 0 if r.chance(1, 3) else n
    if r.chance(1, 2):
        # every other `From` impl of the crate; a set of pairs can hold one key twice with different values
        src = r.pick(["deque", "list", "heap", "hashset", "btreeset", "hashmap", "btreemap", "slice", "mutslice", "array"])
        lines = ["case %d rawfrom hint=%d items=%s keys=u64 src=%s" % (cid, n, ",".join(items) if items else "-", src)]
    else:
        lines = ["case %d rawfrom hint=%d items=%s keys=%s" % (cid, hint, ",".join(items) if items else "-", r.pick(KEYKINDS))]
    for _ in range(min(nops, 6)):
        lines.append(common_op(r, r.pick(["put", "get", "census", "sizes"]), 5, vals))
    lines.append("end")
    return lines


# ---------------------------------------------------------------------------------------------
# SegmentedCache
# ---------------------------------------------------------------------------------------------
def gen_slru(r, cid, nops, opts):
    if opts.get("bigctor"):
        return gen_bigctor("slru", r, cid)
    if opts.get("huge"):
        return gen_huge("slru", r, cid)
    pcap = r.weighted([(1, 3), (2, 3), (3, 2), (r.rng(4, 8), 1)])
    qcap = r.weighted([(1, 3), (2, 3), (3, 2), (r.rng(4, 8), 1)])
    if opts.get("big"):
        # lists long enough for their hash tables to have more than one probe group (tombstones, growth): anything that
        # consults the table's own bookkeeping instead of the list shows up only here
        # 28 and 56 are 7/8 of a power of two: `HashMap::with_capacity` then has no slack at all
        pcap, qcap = r.pick([28, 56, 28, r.rng(15, 40)]), r.pick([28, 56, 28, r.rng(15, 40)])
    U = pcap + qcap + 1 + r.below(3)
    vals = Vals()
    prof = r.pick(list(PROFILES))
    extra = dict(putprotected=3, segsizes=1, segpeek=2, segpeekmut=2, removelruprob=1, removelruprot=1,
                 clone=opts.get("clone", 1))
    table = profile_table(prof, extra)
    var = opts.get("variant") or variant(r)
    if "hasher=default" in var:
        var += " via=%s" % r.pick(["new", "builder", "statbuilder", "setters", "frombuilder", "resetprot", "resetprob"])
    lines = ["case %d slru pcap=%d qcap=%d %s" % (cid, pcap, qcap, var)]
    has_alt = False
    hot = r.rng(1, U)
    drains = 0
    for _ in range(nops):
        name = r.weighted(table)
        if drains < 2 and r.chance(1, 50):
            drains += 1
            # drain: every key removed one by one, then the history goes on from an emptied cache
            lines.extend("remove %d" % k for k in range(1, U + 1))
            continue
        if name in PROFILES["put"]:
            lines.extend(common_op(r, name, U, vals, hot).split("\n"))
        elif name == "putprotected":
            k = keypick(r, U, hot)
            lines.append("putprotected %d %d" % (k, vals.new(k)))
        elif name == "segsizes":
            lines.append(r.pick(["problen", "protlen", "probcap", "protcap"]))
        elif name == "segpeek":
            lines.append(r.pick(["peeklruprob", "peekmruprob", "peeklruprot", "peekmruprot"]))
        elif name == "segpeekmut":
            lines.append("%s %d" % (r.pick(["peeklrumutprob", "peekmrumutprob", "peeklrumutprot", "peekmrumutprot"]),
                                    vals.new(0) if r.chance(1, 2) else 0))
        elif name in ("removelruprob", "removelruprot"):
            lines.append(name)
        elif name == "clone":
            if not has_alt or r.chance(1, 3):
                lines.append(r.pick(["clone", "clone", "clonefrom"]))
                has_alt = True
            elif r.chance(1, 2):
                lines.append("swap")
            else:
                lines.append("dropalt")
                has_alt = False
    lines.append("end")
    return lines


# ---------------------------------------------------------------------------------------------
# TwoQueueCache
# ---------------------------------------------------------------------------------------------
RATIO_GRID = [0.0, 1e-9, 0.25, 0.5, 0.75, 1.0 - 1e-9, 1.0]
LISTS_2Q = ["recent", "frequent", "ghost"]
LISTS_ARC = ["recent", "frequent", "recentevict", "frequentevict"]


def gen_twoq(r, cid, nops, opts):
    if opts.get("bigctor"):
        return gen_bigctor("twoq", r, cid)
    if opts.get("huge"):
        return gen_huge("twoq", r, cid)
    size = r.weighted([(1, 2), (2, 4), (3, 4), (4, 3), (r.rng(5, 12), 2)])
    if opts.get("big"):
        size = r.pick([28, 56, 28, r.rng(15, 40)])
    rr = r.pick(RATIO_GRID) if r.chance(3, 4) else r.below(1001) / 1000.0
    # ghost ratio must give a non-zero ghost bound for the case to be interesting
    gr = r.pick([0.5, 0.75, 1.0, 1.0 - 1e-9, 0.25]) if r.chance(3, 4) else r.below(1001) / 1000.0
    U = size + 1 + r.below(size + 3)
    vals = Vals()
    prof = r.pick(list(PROFILES))
    extra = dict(listlen=1, iter=opts.get("iter", 2))
    table = profile_table(prof, extra)
    var = opts.get("variant") or variant(r)
    if "hasher=default" in var:
        via = r.pick(["params", "builder", "statbuilder", "setters", "frombuilder", "new", "recent", "ghost"])
        if via in ("new", "ghost"):
            rr = 0.25               # these paths use the default recent ratio
        if via in ("new", "recent"):
            gr = 0.5                # ... and the default ghost ratio
        var += " via=%s" % via
    lines = ["case %d twoq size=%d rr=%s gr=%s %s" % (cid, size, f64bits(rr), f64bits(gr), var)]
    hot = r.rng(1, U)
    aged = Aged(size, int(size * gr))
    room = False
    drains = 0
    for _ in range(nops):
        name = r.weighted(table)
        if drains < 2 and r.chance(1, 40) and len(aged.hist) > size:
            drains += 1
            for l in drain_burst(r, U, aged, vals):
                aged.note(l)
                lines.append(l)
            continue
        if name in PROFILES["put"]:
            g = aged.ghostish(r) if (name == "put" and r.chance(1, 3)) else None
            if room and r.chance(1, 2):
                # a slot has just been freed: revive a ghost while the cache is not full (a branch of its own in 2Q/ARC)
                g = aged.ghostish(r)
            new = ["put %d %d" % (g, vals.new(g))] if g is not None else common_op(r, name, U, vals, hot).split("\n")
            room = False
            for l in new:
                if l.startswith("remove ") and int(l.split()[1]) in aged.hist[: aged.size]:
                    room = True
                aged.note(l)
            lines.extend(new)
        elif name == "listlen":
            lines.append(r.pick(["recentlen", "frequentlen", "ghostlen"]))
        elif name == "iter":
            kind = r.pick(ITER_KINDS)
            wb = vals.new(0) if ("mut" in kind and r.chance(1, 2)) else 0
            vals.ver += 20
            lines.append("iter %s %s %s %d" % (r.pick(LISTS_2Q), kind, script(r, r.rng(0, min(size, U) + 2)), wb))
    lines.append("end")
    return lines


# ---------------------------------------------------------------------------------------------
# AdaptiveCache
# ---------------------------------------------------------------------------------------------
def gen_arc(r, cid, nops, opts):
    if opts.get("bigctor"):
        return gen_bigctor("arc", r, cid)
    if opts.get("huge"):
        return gen_huge("arc", r, cid)
    size = r.weighted([(1, 3), (2, 4), (3, 4), (4, 3), (r.rng(5, 12), 2)])
    if opts.get("big"):
        size = r.pick([28, 56, 28, r.rng(15, 40)])
    U = size + 1 + r.below(size + 3)
    vals = Vals()
    prof = r.pick(list(PROFILES))
    extra = dict(listlen=1, iter=opts.get("iter", 2))
    table = profile_table(prof, extra)
    var = opts.get("variant") or variant(r)
    if "hasher=default" in var:
        var += " via=%s" % r.pick(["new", "builder", "statbuilder", "setters", "frombuilder"])
    lines = ["case %d arc size=%d %s" % (cid, size, var)]
    hot = r.rng(1, U)
    aged = Aged(size, size)
    room = False
    drains = 0
    for _ in range(nops):
        name = r.weighted(table)
        if drains < 2 and r.chance(1, 40) and len(aged.hist) > size:
            drains += 1
            for l in drain_burst(r, U, aged, vals):
                aged.note(l)
                lines.append(l)
            continue
        if name in PROFILES["put"]:
            g = aged.ghostish(r) if (name == "put" and r.chance(1, 3)) else None
            if room and r.chance(1, 2):
                # a slot has just been freed: revive a ghost while the cache is not full (a branch of its own in 2Q/ARC)
                g = aged.ghostish(r)
            new = ["put %d %d" % (g, vals.new(g))] if g is not None else common_op(r, name, U, vals, hot).split("\n")
            room = False
            for l in new:
                if l.startswith("remove ") and int(l.split()[1]) in aged.hist[: aged.size]:
                    room = True
                aged.note(l)
            lines.extend(new)
        elif name == "listlen":
            lines.append(r.pick(["partition", "recentlen", "frequentlen", "recentevictlen", "frequentevictlen"]))
        elif name == "iter":
            kind = r.pick(ITER_KINDS)
            wb = vals.new(0) if ("mut" in kind and r.chance(1, 2)) else 0
            vals.ver += 20
            lines.append("iter %s %s %s %d" % (r.pick(LISTS_ARC), kind, script(r, r.rng(0, min(size, U) + 2)), wb))
    lines.append("end")
    return lines


# ---------------------------------------------------------------------------------------------
# W-TinyLFU
# ---------------------------------------------------------------------------------------------
def gen_wtinylfu(r, cid, nops, opts):
    if opts.get("bigctor"):
        return gen_bigctor("wtinylfu", r, cid)
    if opts.get("huge"):
        return gen_huge("wtinylfu", r, cid)
    w = r.weighted([(1, 4), (2, 3), (3, 1), (r.rng(4, 7), 1)])
    q = r.weighted([(1, 4), (2, 3), (3, 1), (r.rng(4, 7), 1)])
    p = r.weighted([(1, 4), (2, 3), (3, 1), (r.rng(4, 7), 1)])
    if opts.get("big"):
        w, q, p = r.rng(8, 30), r.pick([28, r.rng(15, 30)]), r.pick([28, r.rng(15, 30)])
    samples = r.weighted([(r.rng(1, 8), 3), (r.rng(9, 32), 3), (r.rng(33, 64), 1), (r.rng(65, 400), 2)])   # > ~53: doorkeeper above its 512-bit floor
    fp = r.pick([0.01, 0.1, 0.5, 0.001])
    U = w + q + p + 1 + r.below(4)
    vals = Vals()
    prof = r.pick(["put", "get", "get", "churn", "read"])
    extra = dict(wsizes=1)
    table = profile_table(prof, extra)
    var = opts.get("variant") or variant(r)
    var = re.sub(r" ord=\d", "", var) + " ord=%d" % r.below(3)
    lines = ["case %d wtinylfu wcap=%d qcap=%d pcap=%d samples=%d fp=%s %s" %
             (cid, w, q, p, samples, f64bits(fp), var)]
    mode = r.below(3)
    for k in range(1, U + 1):
        if mode == 0:
            h = r.next()
        elif mode == 1:
            h = r.pick([0, 1, MASK, 1 << 63, 0x100000000, r.next()])   # colliding / extreme hashes
        else:
            h = (k * 0x9E3779B97F4A7C15) & MASK
        lines.append("kh %d %x" % (k, h))
    hot = r.rng(1, U)
    drains = 0
    for _ in range(nops):
        name = r.weighted(table)
        if drains < 2 and r.chance(1, 50):
            drains += 1
            # drain: every key removed one by one, then the history goes on from an emptied cache
            lines.extend("remove %d" % k for k in range(1, U + 1))
            continue
        if name in PROFILES["put"]:
            lines.extend(common_op(r, name, U, vals, hot).split("\n"))
        elif name == "wsizes":
            lines.append(r.pick(["windowlen", "windowcap", "mainlen", "maincap"]))
    lines.append("end")
    return lines


# ---------------------------------------------------------------------------------------------
# TinyLFU
# ---------------------------------------------------------------------------------------------
def gen_tinylfu(r, cid, nops, opts):
    size = r.weighted([(1, 2), (2, 2), (r.rng(3, 16), 4), (r.rng(17, 64), 2), (r.rng(65, 2000), 1)])
    samples = r.weighted([(1, 1), (2, 1), (r.rng(3, 16), 4), (r.rng(17, 64), 3), (r.rng(65, 600), 2)])
    fp = r.pick([0.01, 0.1, 0.5, 0.001, 0.999, 1e-9])
    lines = ["case %d tinylfu size=%d samples=%d fp=%s" % (cid, size, samples, f64bits(fp))]
    nh = r.rng(1, 6)
    hs = [r.pick([0, MASK, MASK - 1, MASK ^ 0xffffffff, 1, 1 << 32, (1 << 32) - 1, 1 << 63, r.next(), r.next()]) for _ in range(nh)]
    single = r.chance(1, 5)          # one hash only: estimates must be exact
    if single:
        hs = hs[:1]
    hot = hs[0]
    for _ in range(nops):
        h = hot if r.chance(1, 2) else r.pick(hs)
        name = r.weighted([("inc", 10), ("est", 4), ("has", 2), ("tryreset", 1), ("clear", 1 if r.chance(1, 4) else 0),
                           ("incs", 1), ("cmp", 2), ("inck", 0 if single else 2), ("estk", 0 if single else 1),
                           ("hask", 0 if single else 1), ("incks", 0 if single else 1), ("clone", 1)])
        if name in ("inc", "est", "has"):
            lines.append("%s %x" % (name, h))
        elif name in ("tryreset", "clear"):
            lines.append(name)
        elif name == "incs":
            lines.append("incs " + " ".join("%x" % r.pick(hs) for _ in range(r.rng(0, 4))))
        elif name == "cmp":
            lines.append("cmp %s %d %d" % (r.pick(["eq", "le", "lt", "gt", "ge"]), r.rng(0, 6), r.rng(0, 6)))
        elif name in ("inck", "estk", "hask"):
            lines.append("%s %d" % (name, r.rng(0, 6)))
        elif name == "incks":
            lines.append("incks " + " ".join("%d" % r.rng(0, 6) for _ in range(r.rng(0, 4))))
        elif name == "clone":
            lines.append(r.pick(["clone", "clonefrom", "swap"]) if any(l in ("clone", "clonefrom") for l in lines) else r.pick(["clone", "clonefrom"]))
    lines.append("end")
    return lines


# ---------------------------------------------------------------------------------------------
# SampledLFU
# ---------------------------------------------------------------------------------------------
def gen_sampled(r, cid, nops, opts):
    I64MAX, I64MIN = (1 << 63) - 1, -(1 << 63)

    def fits(x):
        return I64MIN <= x <= I64MAX
    extreme = r.chance(1, 4)
    if extreme:
        # budgets and costs at the ends of the i64 range; the generator keeps an exact shadow of the bookkeeping and only
        # emits an operation when every intermediate value of the ORIGINAL formulas stays inside i64 (the model computes
        # in unbounded integers, the crate wraps in release builds: an overflow would be a false alarm, not a finding)
        maxc = r.pick([I64MAX, I64MAX - r.below(5), I64MIN, I64MIN + r.below(5), -10, 10])
    else:
        maxc = r.pick([0, 1, 100, 1 << 40, -5, r.rng(0, 1000)])
    # one case in five tracks many keys (above any small-table threshold in `fill_sample` / the cost map: 33..90 keys,
    # sample sizes up to 48), after a burst of increments that makes most of them tracked  (round 9, C20h)
    big = (not extreme) and r.chance(1, 5)
    samples = r.rng(0, 48) if big else r.rng(0, 6)
    lines = ["case %d sampled max=%d samples=%d" % (cid, maxc, samples)]
    U = r.rng(33, 90) if big else r.rng(1, 6)
    costs, used, mx = {}, 0, maxc
    if big:
        for kk in range(1, U + 1):
            if r.chance(5, 6):
                c = r.rng(0, 50)
                used, costs[kk] = used + c, c
                lines.append("sinc %d %d" % (kk, c))
        lines.append("fill")

    def cost():
        if extreme and r.chance(1, 3):
            return r.pick([I64MAX, I64MAX - r.below(100), I64MIN, I64MIN + r.below(100), (1 << 62) + r.below(9), -(1 << 62) - r.below(9)])
        return r.pick([0, 1, -1, r.rng(0, 50), -r.rng(0, 50), (1 << 40) - r.below(1000), -(1 << 40) + r.below(1000)])
    for _ in range(nops):
        name = r.weighted([("sinc", 8), ("supd", 4), ("srem", 3), ("sclear", 1), ("smax", 1), ("room", 4), ("getmax", 1), ("fill", 3)])
        k = r.rng(1, U) if r.chance(9, 10) else r.pick([0, MASK])
        if name == "sinc":
            for _try in range(6):
                c = cost()
                u1 = used - costs.get(k, 0)
                if fits(u1) and fits(u1 + c):
                    used, costs[k] = u1 + c, c
                    lines.append("sinc %d %d" % (k, c))
                    break
        elif name == "supd":
            for _try in range(6):
                c = cost()
                if k not in costs:
                    lines.append("supd %d %d" % (k, c))
                    break
                d = c - costs[k]
                if fits(d) and fits(used + d):
                    used, costs[k] = used + d, c
                    lines.append("supd %d %d" % (k, c))
                    break
        elif name == "srem":
            if k in costs:
                if not fits(used - costs[k]):
                    continue
                used -= costs.pop(k)
            lines.append("srem %d" % k)
        elif name == "sclear":
            costs, used = {}, 0
            lines.append(name)
        elif name == "getmax":
            lines.append(name)
        elif name == "smax":
            mx = cost()
            lines.append("smax %d" % mx)
        elif name == "room":
            for _try in range(6):
                c = cost()
                if fits(used + c) and fits(mx - (used + c)):
                    lines.append("room %d" % c)
                    break
        elif name == "fill":
            n = r.rng(0, 7)
            lines.append(("fill " + " ".join("%d:%d" % (100 + i, r.rng(0, 9)) for i in range(n))).strip())
    if big:
        lines.append("fill 100:1")
    lines.append("end")
    return lines


# ---------------------------------------------------------------------------------------------
# constructor grid (C05)
# ---------------------------------------------------------------------------------------------
def gen_ctor_grid():
    cases = []
    ratios = [f64bits(0.0), f64bits(1.0), f64bits(0.25), f64bits(0.5), f64bits(-0.1), f64bits(1.1), NAN, INF, NINF, NEG0,
              f64bits(1e-9), f64bits(1.0 - 1e-9)]
    fps = [f64bits(0.01), f64bits(0.5), f64bits(0.0), f64bits(1.0), f64bits(-1.0), f64bits(2.0), NAN, INF, NEG0,
           f64bits(1e-9), f64bits(0.999999)]
    cid = [900000]

    def add(head, tail=()):
        cid[0] += 1
        cases.append(["case %d %s" % (cid[0], head)] + list(tail) + ["end"])
    smoke = ["put 1 100001", "put 2 200002", "put 3 300003", "get 1", "put 4 400004", "put 2 200005", "remove 3", "census 4", "purge"]
    for cap in (0, 1, 2, 3):
        for cb in (0, 1):
            for h in ("default", "zero"):
                add("rawlru cap=%d cb=%d keys=u64 hasher=%s" % (cap, cb, h), smoke)
    for p in (0, 1, 2, 3):
        for q in (0, 1, 2, 3):
            for h in ("default", "zero", "zero ord=1"):
                add("slru pcap=%d qcap=%d keys=u64 hasher=%s" % (p, q, h), smoke)
    for size in (0, 1, 2, 3):
        for rr in ratios:
            for gr in ratios:
                for h in ("default", "zero", "zero ord=1"):
                    add("twoq size=%d rr=%s gr=%s keys=u64 hasher=%s" % (size, rr, gr, h), smoke)
    for size in (0, 1, 2, 3):
        for h in ("default", "zero", "zero ord=1"):
            add("arc size=%d keys=u64 hasher=%s" % (size, h), smoke)
    # every other public way of building the same configurations (default hasher): the model ignores `via=`
    for via in ("builder", "statbuilder", "setters", "frombuilder", "resetprot", "resetprob"):
        for p in (0, 1, 2):
            for q in (0, 1, 3):
                add("slru pcap=%d qcap=%d keys=u64 hasher=default via=%s" % (p, q, via), smoke)
    for via in ("builder", "statbuilder", "setters", "frombuilder"):
        for size in (0, 1, 2, 3):
            add("arc size=%d keys=u64 hasher=default via=%s" % (size, via), smoke)
            for rr in ratios:
                for gr in ratios:
                    add("twoq size=%d rr=%s gr=%s keys=u64 hasher=default via=%s" % (size, rr, gr, via), smoke)
    for size in (0, 1, 2, 3, 4, 7, 8):
        add("twoq size=%d rr=%s gr=%s keys=u64 hasher=default via=new" % (size, f64bits(0.25), f64bits(0.5)), smoke)
        for x in ratios:
            add("twoq size=%d rr=%s gr=%s keys=u64 hasher=default via=recent" % (size, x, f64bits(0.5)), smoke)
            add("twoq size=%d rr=%s gr=%s keys=u64 hasher=default via=ghost" % (size, f64bits(0.25), x), smoke)
    for size in (0, 1, 2, 3, 5):
        for samples in (0, 1, 2, 3):
            for fp in fps:
                add("tinylfu size=%d samples=%d fp=%s" % (size, samples, fp),
                    ["inc 1", "inc 1", "inc ffffffffffffffff", "est 1", "inc 0", "tryreset", "est 0",
                     "est ffffffffffffffff", "inc fffffffffffffffe", "est fffffffffffffffe", "est ffffffff00000000"])
    for w in (0, 1, 2):
        for q in (0, 1, 2):
            for p in (0, 1, 2):
                for samples in (0, 1, 3):
                    for fp in (fps[0], fps[2], fps[3], NAN, fps[5]):
                        for ord_ in (0, 1, 2):
                            add("wtinylfu wcap=%d qcap=%d pcap=%d samples=%d fp=%s keys=u64 hasher=zero ord=%d" % (w, q, p, samples, fp, ord_),
                                ["kh 1 1", "kh 2 ffffffffffffffff", "kh 3 0", "kh 4 100000000"] + smoke)
    for via in ("withsizes", "builder", "buildernew", "frombuilder"):
        for w in (0, 1, 2, 5):
            for q in (0, 1, 3):
                for p in (0, 1, 2):
                    for samples in (0, 1, 7):
                        add("wtsizes wcap=%d qcap=%d pcap=%d samples=%d via=%s" % (w, q, p, samples, via),
                            ["cap", "len", "wcap", "mcap", "isempty", "wlen", "mlen"])
    for n in (0, 1, 3):
        for hint_zero in (0, 1):
            items = ",".join("%d:%d" % (i, i * 100000 + 1) for i in range(1, n + 1)) or "-"
            add("rawfrom hint=%d items=%s keys=u64" % (0 if hint_zero else n, items), ["get 1", "put 9 900001", "census 9"])
    return cases


def gen_wtsizes(r, cid, nops, opts):
    w, q, p = r.rng(1, 6), r.rng(1, 6), r.rng(1, 6)
    via = r.pick(["withsizes", "builder", "buildernew", "frombuilder"])
    lines = ["case %d wtsizes wcap=%d qcap=%d pcap=%d samples=%d via=%s" % (cid, w, q, p, r.rng(1, 9), via)]
    for _ in range(min(nops, 7)):
        lines.append(r.pick(["cap", "len", "wcap", "mcap", "isempty", "wlen", "mlen"]))
    lines.append("end")
    return lines


def gen_putresult(r, cid, nops, opts):
    """every pair of PutResult values over a three-element payload universe (9 is a value that is not equal to itself,
    like a NaN), every clone, and every value compared with ITSELF (one object on both sides of `==`)"""
    U3 = (1, 2, 9)
    vals = ["P"] + ["U:%d" % a for a in U3] + ["E:%d:%d" % (a, b) for a in U3 for b in U3] + \
           ["X:%d:%d:%d" % (a, b, c) for a in U3 for b in U3 for c in U3]
    lines = ["case %d putresult" % cid]
    for a in vals:
        lines.append("prclone %s" % a)
        lines.append("preqself %s" % a)
        for b in vals:
            lines.append("preq %s %s" % (a, b))
    lines.append("end")
    return lines


GENS = dict(putresult=gen_putresult, wtsizes=gen_wtsizes, rawlru=gen_rawlru, rawfrom=gen_rawfrom, slru=gen_slru, twoq=gen_twoq, arc=gen_arc,
            wtinylfu=gen_wtinylfu, tinylfu=gen_tinylfu, sampled=gen_sampled)


def generate(component, seed, ncases, nops, opts=None, first_id=1):
    """list of cases (each a list of lines)"""
    opts = opts or {}
    if component == "ctor":
        return gen_ctor_grid()
    r = Rng((seed * 0x100000001B3 + hash_name(component)) & MASK)
    out = []
    for i in range(ncases):
        out.append(GENS[component](r, first_id + i, nops, opts))
    return out


def hash_name(s):
    h = 0xCBF29CE484222325
    for ch in s.encode():
        h = ((h ^ ch) * 0x100000001B3) & MASK
    return h


def hasher_variants(case_lines, hashers=("default", "random", "id", "zero", "fnv"), keys=("u64", "str", "trk")):
    """the same case under every hasher / key kind (C02, C17): only the header changes"""
    head = case_lines[0].split()
    base = [t for t in head if not (t.startswith("keys=") or t.startswith("hasher=") or t.startswith("pad="))]
    out = []
    for k in keys:
        for h in hashers:
            out.append([" ".join(base + ["keys=%s" % k, "hasher=%s" % h])] + case_lines[1:])
    return out


if __name__ == "__main__":
    comp = sys.argv[1]
    seed = int(sys.argv[2]) if len(sys.argv) > 2 else 1
    n = int(sys.argv[3]) if len(sys.argv) > 3 else 3
    nops = int(sys.argv[4]) if len(sys.argv) > 4 else 20
    for c in generate(comp, seed, n, nops):
        print("\n".join(c))
