#!/bin/bash
# usage: tools/seedtest.sh <seed-dir-name> <worktree> <prop> [<prop>...]
# 1. confirms the seeded change in its scratch worktree (73 tests pass with it, demo fails with / passes without)
# 2. applies it to /repo, runs the given checks (quick), undoes it
name=$1; wt=$2; shift 2
export VERIF_EVIDENCE_DIR=/verif/work/evidence-scratch   # never overwrite the committed evidence from a modified tree
d=/verif/seeded/$name
mkdir -p $d
cp $wt/seed.diff $d/patch.diff
cp $wt/demo.rs $d/demo.rs 2>/dev/null || cp $wt/examples/seed_demo.rs $d/demo.rs
cp $wt/NOTES.md $d/NOTES.md 2>/dev/null
cd $wt
git checkout -q -- src 2>/dev/null
mkdir -p examples; cp $d/demo.rs examples/seed_demo.rs
echo "== demo on original"; cargo run -q --offline --example seed_demo > $d/demo_orig.log 2>&1; r0=$?; echo "exit=$r0"
git apply $d/patch.diff || { echo "patch does not apply"; exit 2; }
echo "== tests with change"; cargo test --lib --offline 2>&1 | grep "test result" | tee $d/tests_with_change.log
echo "== demo with change"; cargo run -q --offline --example seed_demo > $d/demo_changed.log 2>&1; r1=$?; echo "exit=$r1"; tail -3 $d/demo_changed.log
git checkout -q -- src
cd /verif
git -C /repo apply $d/patch.diff || { echo "patch does not apply to /repo"; exit 2; }
res=""
for p in "$@"; do
  out=$(bin/check $p quick 2>&1 | grep -E "^(VIOLATION|OK|KNOWN)" | head -4)
  echo "== $p"; echo "$out"
  n=$(echo "$out" | grep -c "^VIOLATION")
  nf=$(echo "$out" | grep "^VIOLATION" | grep -vc "no-failing-input-found")
  res="$res $p:violations=$n,with_input=$nf"
done
git -C /repo checkout -- .
echo "RESULT $name demo_orig=$r0 demo_changed=$r1 $res" | tee $d/checks.log
