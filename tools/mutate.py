#!/usr/bin/env python3
"""Mutation testing of the checks themselves (run in an ISOLATED copy: /tmp/mut/{repo,verif}).

usage: tools/mutate.py <n_mutants> <seed> [file-substring]
For each sampled single-site mutation of /tmp/mut/repo/src (tests and verif.rs excluded):
  1. it must compile and the crate's own 73 unit tests must still pass (otherwise the suite already kills it),
  2. the quick checks relevant to the file are run until one reports a VIOLATION (= killed).
Survivors (pass the suite AND every check run) are written to /tmp/mut/survivors.jsonl for manual triage: each is
either an equivalent mutant or a detection gap.
"""
import json, os, random, re, subprocess, sys, time

REPO = "/tmp/mut/repo"
VERIF = "/tmp/mut/verif"
ENV = dict(os.environ, CARGO_NET_OFFLINE="true", VERIF_EVIDENCE_DIR="/tmp/mut/evidence")

FILES = {
    "src/lru/raw.rs": ["C06", "C01", "C02", "C12", "C15", "C13", "C14", "C16", "C04", "C03", "C05", "C17", "C18"],
    "src/lru/segmented.rs": ["C07", "C01", "C02", "C12", "C13", "C16", "C04", "C03", "C05", "C10", "C17", "C18"],
    "src/lru/two_queue.rs": ["C08", "C01", "C02", "C12", "C13", "C14", "C04", "C03", "C05", "C17", "C18"],
    "src/lru/adaptive.rs": ["C09", "C01", "C02", "C12", "C13", "C14", "C04", "C03", "C05", "C17", "C18"],
    "src/lfu/wtinylfu.rs": ["C10", "C01", "C02", "C12", "C13", "C16", "C04", "C05", "C03", "C18"],
    "src/lfu/tinylfu.rs": ["C11", "C10", "C05", "C16"],
    "src/lfu/tinylfu/bloom.rs": ["C11", "C10", "C05", "C16"],
    "src/lfu/tinylfu/sketch.rs": ["C11", "C05", "C10"],
    "src/lfu/tinylfu/sketch/count_min_row.rs": ["C11", "C10", "C05", "C16"],
    "src/lfu/tinylfu/sketch/count_min_sketch_std.rs": ["C11", "C10", "C05", "C16"],
    "src/lfu/tinylfu/sketch/count_min_sketch_core.rs": ["C11", "C05"],
    "src/lfu/sampled.rs": ["C20", "C05"],
    "src/lib.rs": ["C12", "C06", "C02"],
    "src/lru.rs": ["C06", "C02"],
}

SUBS = [
    (r"(?<![>])>=", ">"), (r"(?<![-=<>])>(?![=>])", ">="), (r"(?<![<])<=", "<"), (r"(?<![<=])<(?![=<])", "<="),
    (r"==", "!="), (r"!=", "=="), (r"&&", "||"), (r"\|\|", "&&"),
    (r"\+ 1\b", "+ 0"), (r"- 1\b", "- 0"), (r"\+= 1\b", "+= 2"), (r"-= 1\b", "-= 0"),
    (r"\btrue\b", "false"), (r"\bfalse\b", "true"),
    (r"\bself\.recent\b", "self.frequent"), (r"\bself\.frequent\b", "self.recent"),
    (r"\bself\.probationary\b", "self.protected"), (r"\bself\.protected\b", "self.probationary"),
    (r"\bself\.recent_evict\b", "self.frequent_evict"), (r"\bself\.frequent_evict\b", "self.recent_evict"),
    (r"\)\.next\b", ").prev"), (r"\)\.prev\b", ").next"), (r"\bself\.head\b", "self.tail"), (r"\bself\.tail\b", "self.head"),
    (r"\.is_some\(\)", ".is_none()"), (r"\.is_none\(\)", ".is_some()"),
    (r"\bmin\(", "max("), (r"\bmax\(", "min("), (r"\.saturating_sub\(", ".wrapping_sub("),
    (r"\b0x0f\b", "0x0e"), (r"\b0x77\b", "0x7f"), (r"\b15\b", "14"),
]
DELETE = re.compile(r"^\s*(self\.(detach|attach|cb|tinylfu\.\w+|\w+\.purge|\w+\.detach|\w+\.attach)\(.*\);|\w+\.detach\(.*\);)\s*$")


def sh(cmd, cwd, timeout=900):
    import signal
    p = subprocess.Popen(cmd, cwd=cwd, stdout=subprocess.PIPE, stderr=subprocess.STDOUT, env=ENV, shell=isinstance(cmd, str),
                         start_new_session=True)
    try:
        out, _ = p.communicate(timeout=timeout)
        return p.returncode, out.decode("utf-8", "replace")
    except subprocess.TimeoutExpired:
        try:
            os.killpg(p.pid, signal.SIGKILL)
        except Exception:
            pass
        p.communicate()
        return -9, "TIMEOUT"


def code_lines(path):
    """(line index, text) of non-test, non-comment, non-attribute lines inside function bodies"""
    txt = open(os.path.join(REPO, path)).read().split("\n")
    out = []
    for i, l in enumerate(txt):
        if "#[cfg(test)]" in l:
            break
        t = l.strip()
        if not t or t.startswith("//") or t.startswith("#[") or t.startswith("use ") or t.startswith("pub use"):
            continue
        if t.startswith("///") or t.startswith("//!"):
            continue
        out.append((i, l))
    return txt, out


def sites(path):
    txt, lines = code_lines(path)
    res = []
    for i, l in lines:
        if "fn " in l and ("->" in l or l.rstrip().endswith("{")) and "(" in l:
            continue        # signatures (generics use < >)
        if re.search(r"\b(impl|where|struct|enum|trait|type)\b", l):
            continue
        code = l.split("//")[0]
        for pat, rep in SUBS:
            for m in re.finditer(pat, code):
                # skip generic brackets / arrows / lifetimes
                if pat in (r"(?<![-=<>])>(?![=>])", r"(?<![<=])<(?![=<])") and re.search(r"[A-Za-z_:&']\s*<|<\s*[A-Z'&]|>\s*[({,;:]|::<|->", code):
                    continue
                res.append((path, i, m.start(), m.end(), rep, "sub"))
        if DELETE.match(code):
            res.append((path, i, 0, len(l), "", "del"))
    return res


def apply(site):
    path, i, a, b, rep, kind = site
    txt = open(os.path.join(REPO, path)).read().split("\n")
    old = txt[i]
    if kind == "del":
        txt[i] = re.sub(r"\S.*$", "// (statement deleted)", old)
    else:
        txt[i] = old[:a] + rep + old[b:]
    open(os.path.join(REPO, path), "w").write("\n".join(txt))
    return old, txt[i]


def refine():
    """for every logged mutant whose first killer only reported `no-failing-input-found`, run the remaining checks of that
    file until one reports a concrete failing input; results go to /tmp/mut/refined.jsonl"""
    rows = [json.loads(l) for l in open("/tmp/mut/mutlog.jsonl")]
    done = set()
    if os.path.exists("/tmp/mut/refined.jsonl"):
        done = {(d["file"], d["line"], d["new"]) for d in map(json.loads, open("/tmp/mut/refined.jsonl"))}
    out = open("/tmp/mut/refined.jsonl", "a")
    for d in rows:
        if not (d.get("killer") or "").endswith("(no-input)") or (d["file"], d["line"], d["new"]) in done:
            continue
        sh("git checkout -q -- src", REPO)
        path = os.path.join(REPO, d["file"])
        txt = open(path).read().split("\n")
        i = d["line"] - 1
        if d["old"] not in txt[i]:
            continue
        txt[i] = txt[i].replace(d["old"], d["new"])
        open(path, "w").write("\n".join(txt))
        first = d["killer"].split()[0]
        concrete = None
        for chk in FILES[d["file"]]:
            if chk == first:
                continue
            rc, o = sh(["bin/check", chk, "quick"], VERIF, timeout=1800)
            vl = [l for l in o.splitlines() if l.startswith("VIOLATION")]
            if any("no-failing-input-found" not in l for l in vl):
                concrete = chk
                break
        d["concrete"] = concrete
        out.write(json.dumps(d) + "\n"); out.flush()
        print(d["file"], d["line"], d["new"], "->", concrete, flush=True)
    sh("git checkout -q -- src", REPO)


def main():
    if sys.argv[1] == "refine":
        return refine()
    n, seed = int(sys.argv[1]), int(sys.argv[2])
    only = sys.argv[3] if len(sys.argv) > 3 else ""
    rnd = random.Random(seed)
    allsites = []
    for f in FILES:
        if only in f:
            ss = sites(f)
            allsites += ss
    rnd.shuffle(allsites)
    print("candidate sites:", len(allsites), flush=True)
    done = 0
    stats = dict(nocompile=0, suite_kills=0, killed=0, survived=0)
    seen = set()
    if os.path.exists("/tmp/mut/mutlog.jsonl"):
        for l in open("/tmp/mut/mutlog.jsonl"):
            try:
                d = json.loads(l)
                seen.add((d["file"], d["line"], d["new"]))
            except Exception:
                pass
    log = open("/tmp/mut/mutlog.jsonl", "a")
    for site in allsites:
        if done >= n:
            break
        sh("git checkout -q -- src", REPO)
        old, new = apply(site)
        if (site[0], site[1] + 1, new.strip()) in seen:
            continue
        rc, out = sh("cargo build --offline --lib 2>&1 | tail -3", REPO)
        if "error" in out:
            stats["nocompile"] += 1
            continue
        rc, out = sh("cargo test --lib --offline 2>&1 | grep 'test result' | head -1", REPO, timeout=240)
        if "73 passed" not in out:
            stats["suite_kills"] += 1
            continue
        done += 1
        t0 = time.time()
        killer = None
        for chk in FILES[site[0]]:
            rc, out = sh(["bin/check", chk, "quick"], VERIF, timeout=1800)
            if "VIOLATION" in out or rc != 0:
                killer = chk + (" (no-input)" if "no-failing-input-found" in out and "VIOLATION" in out and all("no-failing-input-found" in l for l in out.splitlines() if l.startswith("VIOLATION")) else "")
                break
        rec = dict(file=site[0], line=site[1] + 1, kind=site[5], old=old.strip(), new=new.strip(), killer=killer, secs=round(time.time() - t0))
        log.write(json.dumps(rec) + "\n"); log.flush()
        if killer:
            stats["killed"] += 1
        else:
            stats["survived"] += 1
            open("/tmp/mut/survivors.jsonl", "a").write(json.dumps(rec) + "\n")
        print(done, json.dumps(rec), flush=True)
    sh("git checkout -q -- src", REPO)
    print("STATS", json.dumps(stats), flush=True)


if __name__ == "__main__":
    main()
