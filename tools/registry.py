"""Property registry: which theorems, model components, case suites, compared fields and oracles
decide each property.  `bin/check` is driven entirely by this table."""

ALL5 = ["rawlru", "slru", "twoq", "arc", "wtinylfu"]

# suite = (component, quick cases, thorough cases, ops per case, generator options)
def s(comp, q, t, nops=60, **opts):
    return (comp, q, t, nops, opts)


# a few cases with lists of 15-60 entries and long histories: anything that depends on a size threshold, on the hash
# table growing, or on a state that needs a long prefix is invisible in the small cases
BIG = [s(c, 1, 12, 700, big=1) for c in ALL5]
# one long history on lists of 1030-1700 entries (states printed as digests): size thresholds around 1024
def huge(comp, q=1, t=6):
    return s(comp, q, t, 0, huge=1)


# caches built with sizes just past 2^10, 2^12, 2^16, 2^20: every list must really get the requested capacity
def bigctor(comp, q=4, t=24):
    return s(comp, q, t, 0, bigctor=1)


PROPS = {
    "C01": dict(
        title="Capacity bound and size accounting",
        modules=["Caches.Properties.C01"],
        suites=[s(c, 80, 2500) for c in ALL5] + [s("rawfrom", 48, 400, 8), s("wtsizes", 24, 200, 7)] + BIG,
        fields={"result", "state", "panic", "ctor", "sz"},
        only_ops=None,
        monitor="C01",
        design="6/C01",
    ),
    "C02": dict(
        title="Coherence",
        modules=["Caches.Properties.C02"],
        suites=[s(c, 80, 2500) for c in ALL5] + BIG,
        fields={"result", "state", "panic"},
        monitor="C02",
        variants="keys_hashers",
        design="6/C02",
    ),
    "C03": dict(
        title="Memory safety of the intrusive lists",
        modules=["Caches.Properties.C03"],
        suites=[s(c, 80, 2500) for c in ALL5] + [s("rawfrom", 48, 400, 8)],
        fields={"au", "panic", "state"},
        monitor="C03",
        design="6/C03",
    ),
    "C04": dict(
        title="Ownership conservation",
        modules=["Caches.Properties.C04"],
        suites=[s(c, 80, 2500, variant="keys=trk hasher=default") for c in ALL5]
               + [s(c, 20, 500, variant="keys=trk hasher=zero") for c in ALL5] + [s("rawfrom", 48, 400, 8)]
               + [s(c, 1, 12, 700, big=1, variant="keys=trk hasher=default") for c in ALL5],
        fields={"dr", "heap", "live", "dd"},
        monitor="C04",
        design="6/C04",
    ),
    "C05": dict(
        title="Totality",
        modules=["Caches.Properties.C05"],
        suites=[("ctor", 1, 1, 0, {})] + [s(c, 60, 2500) for c in ALL5]
               + [s("tinylfu", 60, 2500), s("sampled", 40, 1500), s("rawfrom", 30, 300, 8)],
        fields={"panic", "ctor"},
        monitor="C05",
        nostd=True,
        design="6/C05",
    ),
    "C06": dict(
        title="RawLRU recency order",
        modules=["Caches.Properties.C06"],
        suites=[s("rawlru", 250, 8000), s("rawfrom", 20, 300, 8)] + [huge("rawlru"), bigctor("rawlru"), s("rawlru", 1, 12, 700, big=1)],
        fields={"result", "state", "panic"},
        monitor="C06",
        design="6/C06",
    ),
    "C07": dict(
        title="Segmented LRU policy",
        modules=["Caches.Properties.C07"],
        suites=[s("slru", 250, 8000)] + [huge("slru"), bigctor("slru")],
        fields={"result", "state", "panic"},
        monitor="C07",
        design="6/C07",
    ),
    "C08": dict(
        title="2Q policy",
        modules=["Caches.Properties.C08"],
        suites=[s("twoq", 250, 8000)] + [huge("twoq"), bigctor("twoq")],
        fields={"result", "state", "panic", "ctor"},
        monitor="C08",
        design="6/C08",
    ),
    "C09": dict(
        title="ARC policy",
        modules=["Caches.Properties.C09"],
        suites=[s("arc", 250, 8000)] + [huge("arc"), bigctor("arc")],
        fields={"result", "state", "panic"},
        monitor="C09",
        design="6/C09",
    ),
    "C10": dict(
        title="W-TinyLFU admission",
        modules=["Caches.Properties.C10"],
        suites=[s("wtinylfu", 250, 8000)] + [huge("wtinylfu"), bigctor("wtinylfu")],
        fields={"result", "state", "panic"},
        monitor="C10",
        design="6/C10",
    ),
    "C11": dict(
        title="TinyLFU estimates",
        modules=["Caches.Properties.C11"],
        suites=[s("tinylfu", 250, 8000, 80)],
        fields={"result", "state", "panic", "ctor"},
        monitor="C11",
        nostd=True,
        design="6/C11",
    ),
    "C12": dict(
        title="PutResult tells the truth",
        modules=["Caches.Properties.C12"],
        suites=[s(c, 80, 2500) for c in ALL5] + [s("putresult", 1, 1, 0)] + BIG,
        fields={"result", "state", "panic"},
        only_ops={"put", "putprotected", "peekorput", "peekmutorput", "containsorput", "preq", "preqself", "prclone"},
        monitor="C12",
        design="6/C12",
    ),
    "C13": dict(
        title="Read-only operations",
        modules=["Caches.Properties.C13"],
        suites=[s(c, 80, 2500) for c in ALL5] + BIG,
        fields={"state"},
        monitor="C13",
        design="6/C13",
    ),
    "C14": dict(
        title="Iterators",
        modules=["Caches.Properties.C14"],
        suites=[s("rawlru", 120, 4000, 40, iter=12), s("twoq", 80, 3000, 40, iter=12), s("arc", 80, 3000, 40, iter=12)],
        fields={"result", "state", "panic"},
        only_ops={"iter"},
        monitor="C14",
        design="6/C14",
    ),
    "C15": dict(
        title="Eviction callback",
        modules=["Caches.Properties.C15"],
        suites=[s("rawlru", 250, 8000, cb=1)],
        fields={"cb"},
        monitor="C15",
        design="6/C15",
    ),
    "C16": dict(
        title="Clone",
        modules=["Caches.Properties.C16"],
        suites=[s("rawlru", 120, 4000, clone=8), s("slru", 80, 3000, clone=8), s("wtinylfu", 60, 2000), s("tinylfu", 60, 2000)],
        fields={"result", "state", "panic", "sz", "cb"},
        monitor="C16",
        variants="hashers",
        design="6/C16",
    ),
    "C17": dict(
        title="Independence of hasher, collisions, addresses",
        modules=["Caches.Properties.C17"],
        suites=[s("rawlru", 40, 800, clone=10, bigcap=1, resize=4), s("slru", 24, 600, clone=10), s("twoq", 20, 600), s("arc", 20, 600), s("wtinylfu", 20, 600),
                # lists of 15-40 entries and long histories: hash tables with several probe groups, tombstones, growth
                s("slru", 5, 60, 1500, big=1), s("twoq", 5, 60, 1500, big=1), s("arc", 3, 40, 1500, big=1)],
        # the order in which the eviction callback is notified is behaviour too (`cb`): purge / resize must not walk the hash map
        fields={"result", "state", "panic", "cb"},
        monitor="C17",
        variants="keys_hashers",
        design="6/C17",
    ),
    "C20": dict(
        title="SampledLFU accounting",
        modules=["Caches.Properties.C20"],
        suites=[s("sampled", 250, 8000, 80)],
        fields={"result", "state", "panic"},
        monitor="C20",
        design="6/C20",
    ),
}
